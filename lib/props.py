"""Per-property table: which translators, which theorem file, which harnesses."""

GENS = {
    # name: {bin: go command under go/cmd, out: file under coq/Gen, args: [...]}
    "enums": {"bin": "gen-enums", "out": "Enums.v"},
    "conv": {"bin": "gen-conv", "out": "Conv.v"},
}

COMMON_TB = [
    "Go correspondence harness (verif/go: drivers, canonicaliser, generators) and the Go toolchain",
    "case evaluation by coqc/vm_compute on the same model definitions the theorems are about (no extraction)",
]

PROPS = {
    "C14": {
        "props": "Props/C14.v",
        "technique": "Coq proof (induction over arbitrary arrival histories) + differential correspondence of the Gallina model with internal/segment",
        "level_text": "Machine-checked theorems (Props/C14.v) over the executable model of the segment sender/receiver: for every payload size, message and arrival history (any order, any interleaving with other or malformed datagrams, any loss) the receiver hands up exactly the original bytes when the last segment arrives and nothing otherwise; refusal above 65536 segments, header round trip, malformed datagrams discarded, expiry, sequence wrap. The model is tied to the code on every run by executing the real SendTo/Receive/RemoveExpired on ~1900 generated histories (exhaustive for <=5 segments) and comparing every emitted datagram and every hand-up with the model inside Coq; the property predicate is also evaluated on the implementation's own trace.",
        "level_note": "Trusted: Coq kernel + vm_compute, the hand-written model (validated differentially, not derived), the Go harness. Duplicated datagrams are outside the quantifier. The QUIC/WebTransport datagram layers around the segmenter are not modelled.",
        "gens": [],
        "harness": [{"bin": "h-segment"}],
        "trusted_base": COMMON_TB + [
            "modelled rather than verified: internal/segment SendTo/Receive/RemoveExpired (hand model Model/Segment.v, tied by differential execution on every run); quic-go / webtransport datagram delivery is outside the model",
        ],
        "assumptions": [
            "each segment is received at most once (duplicated datagrams are outside the property's quantifier; the model shows they can complete a message early)",
            "sequence numbers of messages in flight are distinct (sender counter is injective on windows of 2^32 messages: c14_seq_wrap)",
        ],
    },
}

UP_TB = COMMON_TB + [
    "modelled rather than verified: iscp/upstream.go flushLoop/flush/toUpstreamChunk/processDataIDAliases/ack fan-out/Close and data.go alias substitution (hand model Model/Upstream.v, tied by differential execution of the real iscp.Conn/Upstream through an in-memory transport and a scripted broker on every run); goroutine scheduling inside the library is represented by the order of events in the history; Go map iteration order is canonicalised by sorting on both sides",
    "harness sync points: a FlushPolicy wrapper delegating IsFlush to the library's own policy object and owning the ticker channel, and a sent-storage wrapper signalling Store (both injected through public/verif-tagged options)",
]
PROPS["C01"] = {
    "props": "Props/C01.v", "gens": [], "harness": [{"bin": "h-upstream", "okmask": 2}],
    "technique": "Coq proof (invariant by induction over arbitrary event histories) + differential correspondence of the Gallina model with iscp.Upstream",
    "level_text": "Machine-checked theorems (Props/C01.v) over the executable model of the upstream: for every flush policy, initial alias table and every history of Write/Tick/Flush/alias/result/Close events: per-data-id conservation as a list equality (chunk contents in sequence order ++ buffer = accepted writes), numbering 1..N, close request totals and nothing after it, ack-hook log = received results, one send hook per chunk with the transmitted content, alias forms only with aliases the broker handed out for that id. The model is tied to the code on every run: ~1000 histories (all op sequences of length 3 over a 5-6 letter alphabet per policy + random ones) are executed on the real library and every per-operation State() snapshot, every chunk at the broker, both hook logs, return codes and the close request are compared with the model inside Coq; the boolean predicate c01_ok is also evaluated on the implementation's own trace.",
    "level_note": "Trusted: Coq kernel + vm_compute, the hand-written model (validated differentially), harness and scripted broker. Acks are causal (the broker acknowledges only chunks it received). Concurrent writers are covered by the theorems (any interleaving is an event list) but exercised by the harness only sequentially in the quick tier; hook delivery is awaited up to 500 ms after Close.",
    "trusted_base": UP_TB,
    "assumptions": ["connection stays up (C02/C05 cover outages)", "broker_wf: the broker hands out at most one alias per data id and acknowledges only chunks it has received",
                    "sequence numbers below 2^32-1 and totals below 2^64 (beyond, the code itself closes the stream; modelled as u_failed)"],
}
PROPS["C20"] = {
    "props": "Props/C20.v", "gens": [], "harness": [{"bin": "h-upstream", "okmask": 4}],
    "technique": "Coq proof (step lemmas + invariant over arbitrary histories) + differential correspondence of the Gallina model with iscp.Upstream",
    "level_text": "Machine-checked theorems (Props/C20.v) over the same upstream model as C01: a successful Flush leaves the buffer empty and (by conservation) every earlier accepted point is in a chunk; none/interval policies never transmit on a write; a write is cut exactly when the policy predicate holds of the buffered payload including it (uint32 truncation modelled) and the chunk then holds everything buffered; immediate cuts every write; a tick leaves nothing buffered; sent + buffered = accepted for every reachable state; no chunk without groups. Tied to the code on every run by the h-upstream correspondence (per-operation State() snapshots compared with the model) and by the predicate c20_ok evaluated on the implementation's own snapshots (cut points recomputed from the write history alone).",
    "level_note": "Trusted: as C01. The interval bound on the real clock is not measured: ticks are injected through a harness-owned ticker, so 'one interval' is checked as 'one tick' (the library's own time.Ticker is assumed to fire).",
    "trusted_base": UP_TB,
    "assumptions": ["connection stays up", "ticks are delivered by the runtime's ticker at the configured interval"],
}

CODEC_TB = COMMON_TB + [
    "translators T1 gen-enums (result code / QoS constants and the four switch tables, from message/*.go, encoding/convert and the generated iscp-proto package) and T2 gen-conv (per message type a conversion term in both directions, wire struct field lists, recover flags, byte-count expressions, size gate) - regenerated from /repo on every run; validated on every run by h-codec, which evaluates the GENERATED terms on reflection-generated messages against the real WireToProto/EncodeTo/DecodeFrom",
    "Section hypothesis (premise of c11_roundtrip / c11_encodings_agree, not an axiom): the third-party byte layer (gogo-protobuf Marshal/Unmarshal, jsonpb) round-trips the proto structure",
    "modelled rather than verified: encoding/convert (as generated terms), the codec wrappers of encoding/protobuf and encoding/json, encoding.Transport counters; the protobuf/JSON byte parsers are NOT modelled",
]
PROPS["C11"] = {
    "props": "Props/C11.v", "gens": ["enums", "conv"], "harness": [{"bin": "h-codec"}],
    "technique": "Coq proof (generic inverse-pair round trip by induction on conversion terms + finite obligations by vm_compute over definitions regenerated from the source) + differential correspondence with the real codecs",
    "level_text": "Machine-checked theorems (Props/C11.v): for ALL conversion terms and values, a syntactic forward/backward pair round-trips every in-range value to its canonical form (durations at wire resolution, UTC times, empty for absent collections); the finite obligations - the two generated converters of all 35 message types are such a pair and mention every field of every wire struct, enum tables total in both directions, byte-count expressions equal buffer lengths - are closed by vm_compute over Gen/Conv.v and Gen/Enums.v, which are REGENERATED from /repo's source on every run (a changed converter changes the obligation). Both encodings decode to the same message under the stated byte-layer hypothesis. The generated terms are validated on every run against the real EncodeTo/DecodeFrom/WireToProto on ~1300 reflection-generated messages (every field path and alternative forced once, random and hostile contents), protobuf and JSON, including reported byte counts and Transport counters.",
    "level_note": "Trusted: Coq kernel + vm_compute, the translators, the harness. The protobuf/jsonpb byte layer is a hypothesis of the theorems (validated by the differential run, not proved).",
    "trusted_base": CODEC_TB,
    "assumptions": ["pb_unmarshal_marshal: the generated protobuf/jsonpb marshal-unmarshal round-trips proto structures (premise of c11_roundtrip)",
                    "domain of the round trip (in_range): durations within the wire range, 16-byte uuids, times within int64 nanoseconds, declared enum constants, required oneofs present"],
}
PROPS["C19"] = {
    "props": "Props/C19.v", "gens": [], "harness": [{"bin": "h-multi"}],
    "technique": "Coq proof (invariants by induction over arbitrary histories of select/write/member-read/close events) + differential correspondence of the Gallina model with transport/multi",
    "level_text": "Machine-checked theorems (Props/C19.v) over the executable model of multi.Transport: for every configuration and history, each Write goes to the member selected last among member ids (initially the configured one), the returned messages are the members' messages each once with per-member order kept, Close closes every member, counters are the sums, an initial id that is not a member is rejected and a scheduler id that is not a member (incl. the empty id) is ignored so that no later Write/AsUnreliable/NegotiationParams can panic; the round-robin and last-used pollers as written. Tied to the code on every run: ~1200 histories on the real multi.NewTransport with scripted members and schedulers (polling with real pollers, event driven, the real NIC subscriber with a scripted listener), every member log, return code, counter and lookup compared with the model inside Coq, and the predicate c19_ok evaluated on the implementation's own trace.",
    "level_note": "Trusted: Coq kernel + vm_compute, the hand model (validated differentially), the harness' synchronisation discipline (selections re-emitted until applied). The arrival order across members in the merge queue is the runtime's (compared as per-member subsequences).",
    "trusted_base": COMMON_TB + ["modelled rather than verified: transport/multi transport.go, polling/event schedulers, pollers (hand model Model/Multi.v, tied by differential execution); goroutine scheduling of the per-member readers is represented by the order of MemberRead events"],
    "assumptions": ["member transports are FIFO and deliver what they accepted"],
}

NOT_APPLICABLE = {}

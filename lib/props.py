"""Per-property table: which translators, which theorem file, which harnesses."""

GENS = {
    # name: {bin: go command under go/cmd, out: file under coq/Gen, args: [...]}
}

COMMON_TB = [
    "Go correspondence harness (verif/go: drivers, canonicaliser, generators) and the Go toolchain",
    "case evaluation by coqc/vm_compute on the same model definitions the theorems are about (no extraction)",
]

PROPS = {
    "C14": {
        "props": "Props/C14.v",
        "technique": "Coq proof (induction over arbitrary arrival histories) + differential correspondence of the Gallina model with internal/segment",
        "level_text": "Machine-checked theorems (Props/C14.v) over the executable model of the segment sender/receiver: for every payload size, message and arrival history (any order, any interleaving with other or malformed datagrams, any loss) the receiver hands up exactly the original bytes when the last segment arrives and nothing otherwise; refusal above 65536 segments, header round trip, malformed datagrams discarded, expiry, sequence wrap. The model is tied to the code on every run by executing the real SendTo/Receive/RemoveExpired on ~1900 generated histories (exhaustive for <=5 segments) and comparing every emitted datagram and every hand-up with the model inside Coq; the property predicate is also evaluated on the implementation's own trace.",
        "level_note": "Trusted: Coq kernel + vm_compute, the hand-written model (validated differentially, not derived), the Go harness. Duplicated datagrams are outside the quantifier. The QUIC/WebTransport datagram layers around the segmenter are not modelled.",
        "gens": [],
        "harness": [{"bin": "h-segment"}],
        "trusted_base": COMMON_TB + [
            "modelled rather than verified: internal/segment SendTo/Receive/RemoveExpired (hand model Model/Segment.v, tied by differential execution on every run); quic-go / webtransport datagram delivery is outside the model",
        ],
        "assumptions": [
            "each segment is received at most once (duplicated datagrams are outside the property's quantifier; the model shows they can complete a message early)",
            "sequence numbers of messages in flight are distinct (sender counter is injective on windows of 2^32 messages: c14_seq_wrap)",
        ],
    },
}

NOT_APPLICABLE = {}

"""Orchestration of the per-property checks (DESIGN.md section 2)."""
import fcntl, glob, json, os, re, shutil, subprocess, sys, time, hashlib
from concurrent.futures import ThreadPoolExecutor

ROOT = os.path.dirname(os.path.dirname(os.path.abspath(__file__)))
COQ = os.path.join(ROOT, "coq")
GO = os.path.join(ROOT, "go")
BIN = os.path.join(ROOT, "bin")
RUN = os.path.join(ROOT, "run")
REPO = os.environ.get("VERIF_REPO", "/repo")

import props as P  # the per-property table


def env():
    e = dict(os.environ)
    e["GOFLAGS"] = "-mod=mod"
    e["GOPROXY"] = "off"
    # the repository needs the cached go1.23.6 toolchain; the automatic switch only works
    # with the default GOSUMDB/GOTOOLCHAIN (see DESIGN.md section 13)
    e.pop("GOSUMDB", None)
    e.pop("GOTOOLCHAIN", None)
    e.pop("GOWORK", None)
    return e


def sh(cmd, cwd=None, timeout=600, capture=True):
    """run a command under a timeout; returns (rc, output)"""
    try:
        p = subprocess.run(cmd, cwd=cwd, env=env(), timeout=timeout, shell=isinstance(cmd, str),
                           stdout=subprocess.PIPE if capture else None,
                           stderr=subprocess.STDOUT if capture else None, text=True, errors="replace")
        return p.returncode, p.stdout or ""
    except subprocess.TimeoutExpired as ex:
        out = ex.stdout or ""
        if isinstance(out, bytes):
            out = out.decode("utf-8", "replace")
        return 124, out + "\n[timeout after %ss]" % timeout


def log(msg):
    print("[check] " + msg, flush=True)


class Lock:
    def __enter__(self):
        self.f = open(os.path.join(ROOT, ".lock"), "w")
        fcntl.flock(self.f, fcntl.LOCK_EX)
        return self

    def __exit__(self, *a):
        fcntl.flock(self.f, fcntl.LOCK_UN)
        self.f.close()


# ------------------------------------------------------------------ build steps

FORBIDDEN = re.compile(r"\b(Admitted|admit|Axiom|Axioms|Parameter|Parameters|Conjecture|Admit Obligations|bypass_check)\b|Unset Guard Checking|Unset Positivity Checking|Unset Universe Checking|type-in-type|impredicative-set")


def strip_comments(src):
    out, depth, i = [], 0, 0
    while i < len(src):
        if src.startswith("(*", i):
            depth += 1; i += 2
        elif src.startswith("*)", i) and depth > 0:
            depth -= 1; i += 2
        else:
            if depth == 0:
                out.append(src[i])
            i += 1
    return "".join(out)


def hygiene():
    """no axioms, admits or disabled kernel checks anywhere in the development"""
    bad = []
    listed = [l.strip() for l in open(os.path.join(COQ, "_CoqProject")) if l.strip().endswith(".v")]
    for f in [os.path.join(COQ, l) for l in listed]:
        if not os.path.exists(f):
            continue
        src = strip_comments(open(f, errors="replace").read())
        for m in FORBIDDEN.finditer(src):
            bad.append("%s: %s" % (os.path.relpath(f, ROOT), m.group(0)))
        # Variable / Hypothesis / Context outside a Section declare axioms too
        stack = []
        for line in src.splitlines():
            ms = re.match(r"\s*(Section|Module(?:\s+Type)?)\s+(\w+)", line)
            if ms and ":=" not in line:
                stack.append(ms.group(1).split()[0])
            me = re.match(r"\s*End\s+\w+\s*\.", line)
            if me and stack:
                stack.pop()
            if re.match(r"\s*(Variables?|Hypothes[ie]s|Context)\b", line) and "Section" not in stack:
                bad.append("%s: %s outside a Section" % (os.path.relpath(f, ROOT), line.strip()[:60]))
    cp = open(os.path.join(COQ, "_CoqProject")).read()
    for m in FORBIDDEN.finditer(cp):
        bad.append("_CoqProject: " + m.group(0))
    return bad


def hname(h):
    """binary name of a harness entry (a harness may be built in several tag variants)"""
    return h.get("name", h["bin"])


def go_build(cmds):
    """build harness/translator binaries against the current /repo tree (module replace).
    cmds: command names, or harness dicts {bin, name?, tags?}"""
    os.makedirs(BIN, exist_ok=True)
    shutil.copyfile(os.path.join(REPO, "go.sum"), os.path.join(GO, "go.sum"))
    for c in cmds:
        if isinstance(c, dict):
            src, name, tags = c["bin"], hname(c), "verif " + c.get("tags", "")
        else:
            src, name, tags = c, c, "verif"
        rc, out = sh(["go", "build", "-tags", tags.strip(), "-o", os.path.join(BIN, name), "./cmd/" + src], cwd=GO, timeout=900)
        if rc != 0:
            return False, "go build %s failed:\n%s" % (name, out[-3000:])
    return True, ""


def run_gens(gens):
    """run translators; each prints Coq source on stdout; write-if-changed into coq/Gen"""
    os.makedirs(os.path.join(COQ, "Gen"), exist_ok=True)
    for g in gens:
        spec = P.GENS[g]
        ok, msg = go_build([spec["bin"]])
        if not ok:
            return False, msg
        rc, out = sh([os.path.join(BIN, spec["bin"]), "-repo", REPO] + spec.get("args", []), cwd=GO, timeout=300)
        if rc != 0:
            return False, "translator %s failed (rc=%d):\n%s" % (g, rc, out[-3000:])
        dst = os.path.join(COQ, "Gen", spec["out"])
        old = open(dst).read() if os.path.exists(dst) else None
        if old != out:
            open(dst, "w").write(out)
    return True, ""


def coq_makefile():
    rc, out = sh("coq_makefile -f _CoqProject -o Makefile.coq", cwd=COQ, timeout=60)
    return rc == 0, out


def coq_make(target, timeout=1500):
    if not os.path.exists(os.path.join(COQ, "Makefile.coq")) or \
            os.path.getmtime(os.path.join(COQ, "Makefile.coq")) < os.path.getmtime(os.path.join(COQ, "_CoqProject")):
        ok, out = coq_makefile()
        if not ok:
            return False, out
    rc, out = sh("make -f Makefile.coq -j16 %s" % target, cwd=COQ, timeout=timeout)
    return rc == 0, out


def parse_assumptions(out):
    """union of the Print Assumptions blocks in a coqc log"""
    closed = len(re.findall(r"Closed under the global context", out))
    axioms = set()
    for blk in re.findall(r"Axioms:\n((?:.+\n?)+?)(?:\n|\Z)", out):
        for line in blk.splitlines():
            m = re.match(r"^(\S+)\s*:", line)
            if m:
                axioms.add(m.group(1))
    return closed, sorted(axioms)


def count_obligations(vfile):
    src = strip_comments(open(vfile).read())
    return re.findall(r"^\s*(?:Theorem|Lemma|Example|Corollary|Fact|Remark)\s+(\w+)", src, re.M)


def prove(pid, spec, ev):
    """gen + make the .vo closure of Props/<ID>.v; returns (ok, message)"""
    bad = hygiene()
    if bad:
        return False, "forbidden constructs in the Coq development: " + "; ".join(bad[:5])
    ok, msg = run_gens(spec.get("gens", []))
    if not ok:
        return False, msg
    files = [spec["props"]] + list(spec.get("extra_props", []))
    for pf in files:
        for ext in ("o", "ok", "os"):
            try:
                os.remove(os.path.join(COQ, pf + ext))
            except OSError:
                pass
        try:
            os.remove(os.path.join(COQ, pf[:-2] + ".glob"))
        except OSError:
            pass
    t0 = time.time()
    ok, out = coq_make(" ".join(pf + "o" for pf in files))
    ev["coq_build_s"] = round(time.time() - t0, 1)
    names = []
    for pf in files:
        names += count_obligations(os.path.join(COQ, pf))
    ev["obligations"] = len(names)
    ev["theorems"] = names
    if not ok:
        m = re.search(r'File "([^"]+)", line (\d+), characters [\d-]+:\n((?:.*\n){1,12})', out)
        where = "%s line %s: %s" % (m.group(1), m.group(2), m.group(3).strip()[:600]) if m else out[-1500:]
        ev["discharged"] = 0
        return False, "proof obligation no longer checks: " + where
    closed, axioms = parse_assumptions(out)
    ev["discharged"] = len(names)
    ev["closed_under_global_context"] = closed
    ev["axioms"] = axioms
    return True, ""


def coqchk(spec, ev):
    mod = " ".join("Iscp." + pf[:-2].replace("/", ".") for pf in [spec["props"]] + list(spec.get("extra_props", [])))
    t0 = time.time()
    rc, out = sh("coqchk -silent -o -Q . Iscp %s" % mod, cwd=COQ, timeout=3000)
    ev["coqchk_s"] = round(time.time() - t0, 1)
    ev["coqchk_rc"] = rc
    m = re.search(r"\* Axioms:\s*(.*?)\n\s*\n", out + "\n\n", re.S)
    ev["coqchk_axioms"] = re.sub(r"\s+", " ", m.group(1)).strip() if m else out[-400:]
    return rc == 0, out[-1500:]


# ------------------------------------------------------------------ harness + judge

def run_harness(pid, h, seed, tier, replay=None, timeout=1200):
    outdir = os.path.join(RUN, pid, hname(h))
    shutil.rmtree(outdir, ignore_errors=True)
    os.makedirs(outdir, exist_ok=True)
    cmd = [os.path.join(BIN, hname(h)), "-seed", str(seed), "-tier", tier, "-out", outdir] + h.get("args", [])
    if replay:
        cmd += ["-replay", replay]
    rc, out = sh(cmd, cwd=GO, timeout=timeout)
    open(os.path.join(outdir, "harness.log"), "w").write(out)
    if rc != 0:
        return None, "harness %s failed (rc=%d): %s" % (hname(h), rc, out[-2000:])
    return outdir, ""


def judge_shard(args):
    outdir, shard = args
    rc, out = sh(["coqc", "-Q", COQ, "Iscp", "-w", "-notation-overridden,-abstract-large-number", shard], cwd=outdir, timeout=1200)
    if rc != 0:
        return shard, None, out[-1500:]
    m = re.search(r"verdicts\s*=\s*(\[.*?\])\s*:", out, re.S)
    if not m:
        return shard, None, "cannot parse judge output: " + out[-800:]
    body = m.group(1).strip()[1:-1]
    vals = [int(x.replace("%N", "")) for x in re.split(r"[;\s]+", body) if x.strip()]
    return shard, vals, ""


def judge(outdir):
    meta = json.load(open(os.path.join(outdir, "meta.json")))
    cases = [json.loads(l) for l in open(os.path.join(outdir, "cases.jsonl"))]
    verdicts = []
    with ThreadPoolExecutor(max_workers=12) as ex:
        res = list(ex.map(judge_shard, [(outdir, s) for s in meta["shards"]]))
    for shard, vals, err in res:
        if vals is None:
            return meta, cases, None, "judge failed on %s: %s" % (shard, err)
        verdicts += vals
    for f in glob.glob(os.path.join(outdir, "Cases_*.vo")) + glob.glob(os.path.join(outdir, "Cases_*.glob")) + glob.glob(os.path.join(outdir, ".Cases_*.aux")):
        os.remove(f)
    if len(verdicts) != len(cases):
        return meta, cases, None, "judge returned %d verdicts for %d cases" % (len(verdicts), len(cases))
    return meta, cases, verdicts, ""


# ------------------------------------------------------------------ findings

def load_known():
    f = os.path.join(ROOT, "KNOWN_FINDINGS.json")
    return json.load(open(f)) if os.path.exists(f) else []


def match_known(pid, case, known):
    sig = " ".join(str(case.get(k, "")) for k in ("sig", "kind", "direct_violation"))
    for k in known:
        if k.get("property") == pid and k.get("status") == "known" and re.search(k["match"], sig):
            return k
    return None


def write_replay(pid, tier, seed, kind, broken, case, flags, note=""):
    os.makedirs(os.path.join(ROOT, "replay"), exist_ok=True)
    tag = hashlib.sha1(json.dumps(case, sort_keys=True, default=str).encode()).hexdigest()[:8] if case else "proof"
    path = os.path.join(ROOT, "replay", "%s-%s-%s.json" % (pid, seed, tag))
    rec = {"property": pid, "tier": tier, "seed": seed, "kind": kind, "broken": broken, "judge_flags": flags, "note": note}
    if case:
        rec.update({k: case[k] for k in case if k not in ("nontrivial",)})
    json.dump(rec, open(path, "w"), indent=1, default=str)
    return os.path.relpath(path, ROOT)


# ------------------------------------------------------------------ evidence

def write_evidence(pid, tier, seed, ev, wall, violations):
    spec = P.PROPS[pid]
    cov = {
        "obligations": ev.get("obligations", 0),
        "discharged": ev.get("discharged", 0),
        "checker_cmd": "make -f Makefile.coq %so (coqc 8.16.1, full .vo build; Print Assumptions after every theorem)%s" % (
            spec["props"], "; coqchk -silent -o" if "coqchk_rc" in ev else ""),
        "trusted_base": ["Coq 8.16.1 kernel incl. vm_compute (no native_compute)",
                         "axioms reported by Print Assumptions: " + (", ".join(ev.get("axioms", [])) or "none (all theorems closed under the global context)")]
                        + spec.get("trusted_base", []),
        "theorems": ev.get("theorems", []),
        "evaluations": ev.get("evaluations", 0),
        "distinct_nontrivial": ev.get("distinct_nontrivial", 0),
        "rule": ev.get("rule", ""),
        "samples": ev.get("samples", [])[:4],
        "traces_validated_against_impl": ev.get("evaluations", 0),
        "disagreements_checked": ev.get("disagreements", 0),
        "property_predicate_failures_on_impl": ev.get("ok_failures", 0),
        "known_findings_seen": ev.get("known_seen", []),
        "input_distribution": ev.get("distribution", {}),
        "exhaustive": bool(ev.get("exhaustive", False)),
    }
    for k in ("coq_build_s", "coqchk_s", "coqchk_rc", "coqchk_axioms", "closed_under_global_context", "extra", "generated", "stressors"):
        if k in ev:
            cov[k] = ev[k]
    rec = {"property_id": pid, "tier": tier, "seed": seed, "level": "proof", "coverage": cov,
           "assumptions": spec.get("assumptions", []), "wall_s": round(wall, 1), "violations": violations}
    os.makedirs(os.path.join(ROOT, "evidence"), exist_ok=True)
    json.dump(rec, open(os.path.join(ROOT, "evidence", pid + ".json"), "w"), indent=1, default=str)


# ------------------------------------------------------------------ one property

def run_all_harnesses(pid, spec, seed, tier, ev, replay=None):
    """returns (error, failing, disagreeing): lists of (harness, case, flags)"""
    failing, disagree = [], []
    hs = [h for h in spec["harness"] if tier in h.get("tiers", ("quick", "thorough"))]
    ok, msg = go_build(hs)
    if not ok:
        return msg, failing, disagree
    for h in hs:
        if replay and hname(h) != replay[0]:
            continue
        outdir, msg = run_harness(pid, h, seed, tier, replay[1] if replay else None, timeout=h.get("timeout", 1500 if tier == "quick" else 5000))
        if outdir is None:
            return msg, failing, disagree
        meta, cases, verdicts, msg = judge(outdir)
        if verdicts is None:
            return msg, failing, disagree
        ev["evaluations"] = ev.get("evaluations", 0) + meta["evaluations"]
        ev["distinct_nontrivial"] = ev.get("distinct_nontrivial", 0) + meta["distinct_nontrivial"]
        ev["rule"] = (ev.get("rule", "") + " | " if ev.get("rule") else "") + hname(h) + ": " + meta["rule"]
        ev.setdefault("samples", []).extend(meta["samples"][:2])
        ev.setdefault("distribution", {})[hname(h)] = meta["distribution"]
        ev["exhaustive"] = ev.get("exhaustive", True) and meta.get("exhaustive", False)
        if meta.get("extra"):
            ev.setdefault("extra", {})[hname(h)] = meta["extra"]
        for c, v in zip(cases, verdicts):
            c["harness"] = hname(h)
            okmask = h.get("okmask", 2)
            if c.get("direct_violation"):
                failing.append((hname(h), c, v | okmask))
            elif v & okmask:
                failing.append((hname(h), c, v))
            elif v & 1:
                disagree.append((hname(h), c, v))
    return "", failing, disagree


def check_property(pid, tier, seed, replay=None):
    spec = P.PROPS[pid]
    t0 = time.time()
    ev = {}
    known = load_known()
    violations = []

    proof_ok, proof_msg = prove(pid, spec, ev)
    if proof_ok and tier == "thorough" and not replay and spec.get("coqchk", True):
        ok, out = coqchk(spec, ev)
        if not ok:
            proof_ok, proof_msg = False, "coqchk rejected the compiled proofs: " + out

    rp = None
    if replay:
        rec = json.load(open(replay))
        rp = (rec.get("harness") or hname(spec["harness"][0]), os.path.abspath(replay))
    err, failing, disagree = run_all_harnesses(pid, spec, seed, tier, ev, rp) if spec.get("harness") else ("", [], [])
    # extra property-specific stressors (race detector, loopback runs, ...)
    if not err and not replay:
        for fn in spec.get("stressors", []):
            e2, f2 = fn(tier, seed, ev)
            if e2:
                err = e2
                break
            failing += [("stressor", c, 2) for c in f2]

    ev["disagreements"] = len(disagree)
    ev["ok_failures"] = len(failing)
    searched = False
    # correspondence or proof broken but no failing input yet: search with the thorough generator
    if (err or not proof_ok or disagree) and not failing and not replay and tier == "quick" and spec.get("harness") and not err:
        log("proof or correspondence broken; searching for a failing input (thorough generator, other seed)")
        ev2 = {}
        e3, f3, d3 = run_all_harnesses(pid, spec, seed + 7919, "thorough", ev2)
        searched = True
        if not e3:
            failing += f3
            ev["search_evaluations"] = ev2.get("evaluations", 0)

    lines = []
    seen_known = {}
    new_fail = []
    for hb, c, v in failing:
        k = match_known(pid, c, known)
        if k:
            seen_known.setdefault(k["id"], k)
        else:
            new_fail.append((hb, c, v))
    for kid, k in seen_known.items():
        lines.append("KNOWN-FINDING: property=%s %s %s" % (pid, kid, k["what"]))
    ev["known_seen"] = sorted(seen_known)

    # Flakiness policy (DESIGN appendix D): a SINGLE failing case that is not a direct crash/hang of the
    # library is confirmed before it is reported: the whole harness set is run once more with the same
    # seed and the case is replayed five times. It is reported if anything fails again (any case, not
    # necessarily the same one - schedule-dependent defects move around); if nothing does, it is
    # recorded in the evidence as an unconfirmed transient and the run passes. Several failing cases
    # in one run are always reported at once.
    if len(new_fail) == 1 and not replay and spec.get("harness") and proof_ok and not err:
        hb0, c0, v0 = new_fail[0]
        log("one failing case (kind=%s flags=%s direct=%s): confirming (full re-run + 5 replays)" % (
            c0.get("kind"), v0, str(c0.get("direct_violation", ""))[:160]))
        confirmed = False
        ev2 = {}
        e2, f2, d2 = run_all_harnesses(pid, spec, seed, tier, ev2)
        if e2 or [x for x in f2 if not match_known(pid, x[1], known)]:
            confirmed = True
        if not confirmed:
            os.makedirs(os.path.join(RUN, pid), exist_ok=True)
            rpath = os.path.join(RUN, pid, "confirm-replay.json")
            json.dump({k: c0[k] for k in c0 if k != "nontrivial"}, open(rpath, "w"), default=str)
            for _ in range(5):
                ev3 = {}
                e3, f3, d3 = run_all_harnesses(pid, spec, seed, "quick", ev3, (hb0, rpath))
                if e3 or [x for x in f3 if not match_known(pid, x[1], known)]:
                    confirmed = True
                    break
        if not confirmed:
            ev.setdefault("extra", {})["unconfirmed_transient"] = {
                "kind": c0.get("kind"), "flags": v0, "direct": str(c0.get("direct_violation", ""))[:300],
                "input": json.dumps(c0.get("input"), default=str)[:600],
                "note": "failed once; a full re-run with the same seed and five replays of the case all passed"}
            log("not reproduced by a full re-run and five replays: recorded as an unconfirmed transient, not reported")
            new_fail = []
            ev["ok_failures"] = len(failing) - 1

    if new_fail:
        hb, c, v = new_fail[0]
        path = write_replay(pid, tier, seed, "failing-input", "property predicate false on the implementation's own trace" if not c.get("direct_violation") else c["direct_violation"], c, v,
                            note="%d failing cases in this run; first one recorded" % len(new_fail))
        lines.append("VIOLATION property=%s replay=%s" % (pid, path))
        violations.append(path)
        # one diagnostic line per failing case (up to 5) so that a log alone says what failed
        for hb2, c2, v2 in new_fail[:5]:
            log("failing case: harness=%s kind=%s flags=%s direct=%s input=%s observed=%s" % (
                hb2, c2.get("kind"), v2, str(c2.get("direct_violation", ""))[:200],
                json.dumps(c2.get("input"), default=str)[:400], json.dumps(c2.get("observed"), default=str)[:400]))
    elif err:
        path = write_replay(pid, tier, seed, "no-failing-input-found", "correspondence could not be run: " + err[:1500], None, 0)
        lines.append("VIOLATION property=%s replay=%s no-failing-input-found" % (pid, path))
        violations.append(path)
    elif not proof_ok:
        path = write_replay(pid, tier, seed, "no-failing-input-found", proof_msg, None, 0,
                            note="searched=%s" % searched)
        lines.append("VIOLATION property=%s replay=%s no-failing-input-found" % (pid, path))
        violations.append(path)
    elif disagree:
        hb, c, v = disagree[0]
        path = write_replay(pid, tier, seed, "no-failing-input-found",
                            "correspondence %s vs %s: implementation and model differ on this case (property predicate still true on the implementation's trace)" % (hb, spec["props"]), c, v,
                            note="%d disagreeing cases; searched=%s" % (len(disagree), searched))
        lines.append("VIOLATION property=%s replay=%s no-failing-input-found" % (pid, path))
        violations.append(path)

    if not replay:
        write_evidence(pid, tier, seed, ev, time.time() - t0, len(violations))
    for l in lines:
        print(l, flush=True)
    log("%s %s: obligations %d/%d, cases %d (non-trivial distinct %d), disagreements %d, predicate failures %d, %.1fs" % (
        pid, tier, ev.get("discharged", 0), ev.get("obligations", 0), ev.get("evaluations", 0),
        ev.get("distinct_nontrivial", 0), len(disagree), len(failing), time.time() - t0))
    return 1 if violations else 0


# ------------------------------------------------------------------ setup

def setup():
    t0 = time.time()
    bad = hygiene()
    if bad:
        log("forbidden constructs: " + "; ".join(bad))
        return 1
    ok, msg = run_gens(sorted(P.GENS))
    if not ok:
        log(msg); return 1
    sh("rm -f Makefile.coq Makefile.coq.conf .Makefile.coq.d; find . -name '*.vo' -o -name '*.vok' -o -name '*.vos' -o -name '*.glob' -o -name '.*.aux' | xargs rm -f", cwd=COQ)
    ok, out = coq_makefile()
    if not ok:
        log(out); return 1
    rc, out = sh("make -f Makefile.coq -j16", cwd=COQ, timeout=3000)
    if rc != 0:
        log("coq build failed:\n" + out[-3000:]); return 1
    # only the commands some registered check uses (work in progress under go/cmd must not break setup)
    cmds = sorted({g["bin"] for g in P.GENS.values()} | {b for s in P.PROPS.values() for b in s.get("extra_bins", [])})
    seen = {}
    for s_ in P.PROPS.values():
        for h in s_.get("harness", []):
            seen[hname(h)] = h
    cmds = cmds + [seen[k] for k in sorted(seen)]
    ok, msg = go_build(cmds)
    if not ok:
        log(msg); return 1
    log("setup ok in %.0fs (%d Coq files, %d Go commands)" % (time.time() - t0, len(glob.glob(os.path.join(COQ, "**", "*.vo"), recursive=True)), len(cmds)))
    return 0


def main(argv):
    if not argv:
        print(__doc__); return 2
    seed = int(os.environ.get("VERIF_SEED", "1") or 1)
    with Lock():
        if argv[0] == "setup":
            return setup()
        if argv[0] == "all":
            tier = argv[1] if len(argv) > 1 else "quick"
            rc = 0
            for pid in sorted(P.PROPS):
                rc |= check_property(pid, tier, seed)
            return rc
        pid = argv[0]
        if pid not in P.PROPS:
            print("unknown property " + pid); return 2
        if len(argv) >= 3 and argv[1] == "--replay":
            return check_property(pid, "quick", seed, replay=argv[2])
        tier = argv[1] if len(argv) > 1 else os.environ.get("VERIF_TIER", "quick")
        return check_property(pid, tier, seed)

#!/usr/bin/env python3
"""regenerate MANIFEST.json from lib/props.py (run after editing the table)"""
import json, os, sys, subprocess
ROOT = os.path.dirname(os.path.dirname(os.path.abspath(__file__)))
sys.path.insert(0, os.path.join(ROOT, "lib"))
import props as P
base_cmd = json.load(open('/root/.vp/BASELINE.json'))['cmd'] if os.path.exists('/root/.vp/BASELINE.json') else json.load(open(os.path.join(ROOT, 'MANIFEST.json')))['hooks']['baseline_off_cmd']
hook_commits = [l.split()[0] for l in subprocess.run("git -C /repo log --format='%h %s' | grep -i 'verif hook'", shell=True, capture_output=True, text=True).stdout.splitlines()]
allids = [json.loads(l)["id"] for l in open(os.path.join(ROOT, "properties.jsonl"))]
checks = []
for pid in sorted(P.PROPS):
    s = P.PROPS[pid]
    checks.append({
        "property_id": pid,
        "quick_cmd": "./check %s quick" % pid,
        "thorough_cmd": "./check %s thorough" % pid,
        "evidence_file": "evidence/%s.json" % pid,
        "replay_cmd_template": "./check %s --replay {path}" % pid,
        "engine": "coq-models + go-harness",
        "level_claimed": {"category": "proof", "text": s["level_text"], "design_ref": "DESIGN.md section 9, " + pid},
        "level_note": s["level_note"],
        "technique": s["technique"],
    })
na = [{"property_id": i, "reason": P.NOT_APPLICABLE.get(i, "no check registered yet: model and harness for this property are still being built (DESIGN.md section 9 describes the plan)")}
      for i in allids if i not in P.PROPS]
m = {"version": 1, "setup_cmd": "./check setup",
     "hooks": {"guard": "verif", "enable": "go build -tags verif (harness module /verif/go, replace github.com/aptpod/iscp-go => /repo)",
               "baseline_off_cmd": base_cmd, "source_commits": hook_commits, "add_only": True},
     "engines": [
         {"name": "coq-models", "path": "coq", "serves_properties": sorted(P.PROPS), "kind_free_text": "Coq 8.16.1 executable models, proofs, property theorems (Props/*.v), generated definitions (Gen/*.v)"},
         {"name": "go-harness", "path": "go", "serves_properties": sorted(P.PROPS), "kind_free_text": "Go correspondence harnesses (cmd/h-*) driving the real library and translators (cmd/gen-*) regenerating Coq definitions from source; cases judged by coqc/vm_compute"},
         {"name": "check", "path": "check", "serves_properties": sorted(P.PROPS), "kind_free_text": "orchestrator: gen, prove, build, run, judge, decide, evidence"}],
     "checks": checks,
     "notes": "DESIGN.md explains the approach; KNOWN_FINDINGS.json lists fixed defects and recorded findings; seeded/ holds validated breaking changes.",
     "not_applicable": na}
json.dump(m, open(os.path.join(ROOT, "MANIFEST.json"), "w"), indent=1)
print("MANIFEST.json: %d checks, %d not_applicable" % (len(checks), len(na)))

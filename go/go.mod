module verif

go 1.23.6

require github.com/aptpod/iscp-go v0.0.0

require github.com/google/uuid v1.3.0 // indirect

replace github.com/aptpod/iscp-go => /repo

module verif

go 1.23.6

require (
	github.com/aptpod/iscp-go v0.0.0
	github.com/google/uuid v1.3.0
	github.com/gorilla/websocket v1.4.2
	nhooyr.io/websocket v1.8.10
)

require golang.org/x/mod v0.23.0 // indirect

require (
	github.com/aptpod/iscp-proto v0.0.0-20230808235245-fada26057efa
	github.com/coder/websocket v1.8.12
	github.com/gogo/protobuf v1.3.2
	github.com/quic-go/qpack v0.5.1 // indirect
	github.com/quic-go/quic-go v0.50.0
	github.com/quic-go/webtransport-go v0.8.1-0.20241018022711-4ac2c9250e66
	golang.org/x/crypto v0.35.0 // indirect
	golang.org/x/exp v0.0.0-20250218142911-aa4b98e5adaa // indirect
	golang.org/x/net v0.35.0 // indirect
	golang.org/x/sync v0.11.0 // indirect
	golang.org/x/sys v0.30.0 // indirect
	golang.org/x/text v0.22.0 // indirect
	golang.org/x/tools v0.30.0
)

replace github.com/aptpod/iscp-go => /repo

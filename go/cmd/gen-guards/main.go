// gen-guards (translator T5): prints coq/Gen/Guards.v - every syntactic read / write / atomic
// access of the struct fields listed in guards.json, with the locks held at the access by the
// function's own dataflow, the interprocedural entry summaries of the functions that are only
// called with locks held (…WithoutLock style) and the call edges those summaries rest on.
// The discipline itself is checked inside Coq (Model/Lockset.v: discipline_ok).
package main

import (
	_ "embed"
	"encoding/json"
	"flag"
	"fmt"
	"os"
	"sort"
	"strings"
	"unicode"

	"verif/internal/lockflow"
)

//go:embed guards.json
var guardsJSON []byte

type edge struct {
	caller, callee string
	line           int
	held           []lockflow.Lock
	subst          [][2]string
}

const unknown = "<unknown>"

func rename(subst [][2]string, ls []lockflow.Lock) []lockflow.Lock {
	var out []lockflow.Lock
	for _, l := range ls {
		for _, ps := range subst {
			pre := ps[1] + "."
			if strings.HasPrefix(l.Name, pre) {
				out = append(out, lockflow.Lock{Name: ps[0] + "." + l.Name[len(pre):], Mode: l.Mode})
			}
		}
	}
	return out
}

// withR adds (m, R) for every (m, W): a write-mode holder satisfies a read-mode requirement
func withR(ls []lockflow.Lock) []lockflow.Lock {
	out := append([]lockflow.Lock{}, ls...)
	for _, l := range ls {
		if l.Mode == "W" {
			out = append(out, lockflow.Lock{Name: l.Name, Mode: "R"})
		}
	}
	return out
}

func uniq(ls []lockflow.Lock) []lockflow.Lock {
	seen := map[lockflow.Lock]bool{}
	var out []lockflow.Lock
	for _, l := range ls {
		if !seen[l] {
			seen[l] = true
			out = append(out, l)
		}
	}
	sort.Slice(out, func(i, j int) bool { return out[i].String() < out[j].String() })
	return out
}

func inter(a, b []lockflow.Lock) []lockflow.Lock {
	var out []lockflow.Lock
	for _, x := range a {
		for _, y := range b {
			if x == y {
				out = append(out, x)
				break
			}
		}
	}
	return uniq(out)
}

func exported(name string) bool {
	for _, r := range name {
		return unicode.IsUpper(r)
	}
	return false
}

func main() {
	repo := flag.String("repo", "/repo", "repository root")
	gfile := flag.String("guards", "", "guard map (default: the embedded guards.json)")
	report := flag.Bool("report", false, "print the accesses that violate the discipline on stderr (curation aid)")
	flag.Parse()
	data := guardsJSON
	if *gfile != "" {
		var err error
		if data, err = os.ReadFile(*gfile); err != nil {
			fmt.Fprintln(os.Stderr, "gen-guards:", err)
			os.Exit(2)
		}
	}
	var specs []lockflow.GuardSpec
	if err := json.Unmarshal(data, &specs); err != nil {
		fmt.Fprintln(os.Stderr, "gen-guards: guards.json:", err)
		os.Exit(2)
	}
	p := lockflow.Load(*repo, specs, nil)

	// every guard map entry must name an existing struct field and an existing sibling mutex
	seenField := map[string]bool{}
	for _, fn := range p.Funcs {
		for _, nd := range fn.Nodes {
			for _, e := range nd.Events {
				if e.Kind == "Access" {
					seenField[e.Struct+"."+e.Field] = true
				}
			}
		}
	}
	for _, g := range specs {
		if !seenField[g.Struct+"."+g.Field] {
			fmt.Fprintf(os.Stderr, "gen-guards: guard map entry %s.%s: no access to such a field found in the source (renamed or removed?)\n", g.Struct, g.Field)
			os.Exit(2)
		}
	}

	// ---- call edges and entry summaries
	var edges []edge
	hasUnknown := map[string]bool{}
	hasStatic := map[string]bool{}
	for _, fn := range p.Funcs {
		for _, nd := range fn.Nodes {
			if nd.In == nil {
				continue // dead code
			}
			for _, e := range nd.Events {
				switch e.Kind {
				case "Call":
					if p.ByName[e.Callee] == nil {
						continue
					}
					edges = append(edges, edge{fn.Name, e.Callee, e.Line, uniq(e.Held), e.Subst})
					hasStatic[e.Callee] = true
				case "Go", "DeferCall":
					hasUnknown[e.Callee] = true
				}
			}
		}
	}
	for _, fn := range p.Funcs {
		if fn.Decl == nil {
			hasUnknown[fn.Name] = true // literals start with nothing
			continue
		}
		name := fn.Decl.Name.Name
		recvExported := true
		if fn.Decl.Recv != nil {
			parts := strings.Split(fn.Name, ".")
			recvExported = exported(parts[len(parts)-2])
		}
		public := exported(name) && recvExported && !strings.HasPrefix(fn.RelPkg, "internal/")
		if fn.Escapes || public || name == "main" || name == "init" || (fn.Decl.Recv != nil && p.IfaceMethods[name]) {
			hasUnknown[fn.Name] = true
		}
	}
	const top = "\x00TOP"
	sum := map[string][]lockflow.Lock{}
	isTop := map[string]bool{}
	for _, fn := range p.Funcs {
		if hasStatic[fn.Name] && !hasUnknown[fn.Name] {
			isTop[fn.Name] = true
		}
	}
	for changed := true; changed; {
		changed = false
		for _, fn := range p.Funcs {
			g := fn.Name
			if hasUnknown[g] || !hasStatic[g] {
				continue
			}
			var acc []lockflow.Lock
			accTop := true
			for _, e := range edges {
				if e.callee != g {
					continue
				}
				if isTop[e.caller] {
					continue // T intersect X = X
				}
				in := uniq(withR(rename(e.subst, append(append([]lockflow.Lock{}, e.held...), sum[e.caller]...))))
				if accTop {
					acc, accTop = in, false
				} else {
					acc = inter(acc, in)
				}
			}
			if accTop {
				continue
			}
			if isTop[g] || fmt.Sprint(acc) != fmt.Sprint(sum[g]) {
				isTop[g] = false
				sum[g] = acc
				changed = true
			}
		}
	}
	_ = top
	for g, ls := range sum {
		var out []lockflow.Lock
		for _, l := range ls {
			redundant := false
			if l.Mode == "R" {
				for _, k := range ls {
					if k.Name == l.Name && k.Mode == "W" {
						redundant = true
					}
				}
			}
			if !redundant {
				out = append(out, l)
			}
		}
		sum[g] = out
	}
	for g := range isTop {
		if isTop[g] {
			sum[g] = nil // only reachable through a cycle of unknown entry sets
		}
	}

	// ---- output
	w := os.Stdout
	fmt.Fprintf(w, "(* GENERATED by go/cmd/gen-guards from the source tree and go/cmd/gen-guards/guards.json - do not edit. *)\n")
	fmt.Fprintf(w, "From Coq Require Import List String NArith.\nFrom Iscp Require Import Model.LockCfg Model.Lockset.\nImport ListNotations.\nOpen Scope string_scope.\n\n")
	for _, g := range specs {
		if g.Status != "enforced" && g.Status != "suspected" {
			fmt.Fprintf(os.Stderr, "gen-guards: guards.json: %s.%s: status must be enforced or suspected\n", g.Struct, g.Field)
			os.Exit(2)
		}
	}
	printSpecs := func(name, status, doc string) {
		var sel []lockflow.GuardSpec
		for _, g := range specs {
			if g.Status == status {
				sel = append(sel, g)
			}
		}
		fmt.Fprintf(w, "(* %s *)\nDefinition %s : list guard_spec := [\n", doc, name)
		for i, g := range sel {
			sep := ";"
			if i == len(sel)-1 {
				sep = ""
			}
			fmt.Fprintf(w, "  mkGuard %s %s %s %v%s\n", lockflow.CoqStr(g.Struct), lockflow.CoqStr(g.Field), lockflow.CoqStr(g.Guard), g.RW, sep)
		}
		fmt.Fprintf(w, "].\n\n")
	}
	printSpecs("specs", "enforced", "guard map: fields whose discipline holds on every access")
	printSpecs("suspected_specs", "suspected", "fields with an argued unsynchronised access (suspected races); checked only outside the listed functions")
	fmt.Fprintf(w, "(* (struct, field, function): where the suspected unsynchronised accesses are *)\nDefinition known_race_sites : list (string * string * string) := [\n")
	var ks []string
	for _, g := range specs {
		for _, f := range g.Known {
			ks = append(ks, fmt.Sprintf("  (%s, %s, %s)", lockflow.CoqStr(g.Struct), lockflow.CoqStr(g.Field), lockflow.CoqStr(f)))
		}
	}
	fmt.Fprintf(w, "%s\n].\n\n", strings.Join(ks, ";\n"))

	type acc struct {
		ev lockflow.Event
		fn *lockflow.Func
	}
	var accs []acc
	for _, fn := range p.Funcs {
		for _, nd := range fn.Nodes {
			if nd.In == nil {
				continue
			}
			for _, e := range nd.Events {
				if e.Kind == "Access" {
					accs = append(accs, acc{e, fn})
				}
			}
		}
	}
	sort.SliceStable(accs, func(i, j int) bool {
		a, b := accs[i], accs[j]
		if a.fn.File != b.fn.File {
			return a.fn.File < b.fn.File
		}
		return a.ev.Line < b.ev.Line
	})
	kinds := map[string]string{"R": "KR", "W": "KW", "A": "KA"}
	specOf := map[string]lockflow.GuardSpec{}
	for _, g := range specs {
		specOf[g.Struct+"."+g.Field] = g
	}
	nviol := 0
	for _, status := range []string{"enforced", "suspected"} {
		name := "accesses"
		if status == "suspected" {
			name = "suspected_accesses"
		}
		fmt.Fprintf(w, "Definition %s : list access := [\n", name)
		var lines []string
		for _, a := range accs {
			e := a.ev
			if specOf[e.Struct+"."+e.Field].Status != status {
				continue
			}
			lines = append(lines, fmt.Sprintf("  mkAccess %s %s %s %s %d%%N %s %s %v", lockflow.CoqStr(e.Struct), lockflow.CoqStr(e.Field), kinds[e.AKind],
				lockflow.CoqStr(a.fn.Name), e.Line, lockflow.CoqStr(e.Base), lockflow.CoqLocks(uniq(e.Held)), e.InCtor))
		}
		fmt.Fprintf(w, "%s\n].\n\n", strings.Join(lines, ";\n"))
	}
	for _, a := range accs {
		e := a.ev
		if *report && !e.InCtor {
			g := specOf[e.Struct+"."+e.Field]
			held := append(append([]lockflow.Lock{}, e.Held...), sum[a.fn.Name]...)
			m := e.Base + "." + g.Guard
			ok := false
			for _, h := range held {
				if h.Name == m && (h.Mode == "W" || (e.AKind == "R" && g.RW)) {
					ok = true
				}
			}
			if !ok {
				nviol++
				fmt.Fprintf(os.Stderr, "VIOLATION[%s] %s.%s %s in %s (%s:%d) base=%s held=%v summary=%v\n", g.Status, e.Struct, e.Field, e.AKind, a.fn.Name, a.fn.File, e.Line, e.Base, uniq(e.Held), sum[a.fn.Name])
			}
		}
	}
	if *report {
		fmt.Fprintf(os.Stderr, "%d accesses, %d violations (atomic accesses are reported too)\n", len(accs), nviol)
	}

	var names []string
	for g, s := range sum {
		if len(s) > 0 {
			names = append(names, g)
		}
	}
	sort.Strings(names)
	fmt.Fprintf(w, "(* functions that are entered only with these locks held (in the callee's names) *)\nDefinition summaries : list summary := [\n")
	for i, g := range names {
		sep := ";"
		if i == len(names)-1 {
			sep = ""
		}
		fmt.Fprintf(w, "  (%s, %s)%s\n", lockflow.CoqStr(g), lockflow.CoqLocks(sum[g]), sep)
	}
	fmt.Fprintf(w, "].\n\n")
	inNames := map[string]bool{}
	for _, g := range names {
		inNames[g] = true
	}
	var es []edge
	for _, e := range edges {
		if inNames[e.callee] {
			es = append(es, e)
		}
	}
	fmt.Fprintf(w, "(* every static call of a function with a non-empty entry set *)\nDefinition call_edges : list call_edge := [\n")
	for i, e := range es {
		sep := ";"
		if i == len(es)-1 {
			sep = ""
		}
		var ss []string
		for _, ps := range e.subst {
			ss = append(ss, "("+lockflow.CoqStr(ps[0])+", "+lockflow.CoqStr(ps[1])+")")
		}
		fmt.Fprintf(w, "  mkEdge %s %s %d%%N %s [%s]%s\n", lockflow.CoqStr(e.caller), lockflow.CoqStr(e.callee), e.line, lockflow.CoqLocks(e.held), strings.Join(ss, "; "), sep)
	}
	fmt.Fprintf(w, "].\n")
}

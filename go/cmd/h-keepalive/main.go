// h-keepalive: correspondence harness for C15 (keepalive of wire.ClientConn, driven through the
// real iscp.Connect over the in-memory transport) against Model/KeepAlive.v.
//
// Timing cases run in REAL time with small parameters: a scripted broker answers the j-th ping of
// the first connection after a chosen delay (or never), sends pings of its own, acknowledges
// concurrent chunk traffic, and records when pings arrive, when it sent each pong, when the
// client closed the transport, and whether recovery (disconnected event, a second
// ConnectRequest) started.  The model is simulated on the same script inside Coq; times are
// compared against model time + slack only.  A case that misses is re-run up to three times in
// isolation (the machine is shared and loaded) and the last run is the one that is judged.
// Announce cases connect with configured durations (1500 ms, 999 ms, 2 h, wrap-around values ...)
// and compare the whole-second fields of the ConnectRequest.
package main

import (
	"context"
	"encoding/json"
	"flag"
	"fmt"
	"os"
	"strings"
	"sync"
	"sync/atomic"
	"time"

	"github.com/aptpod/iscp-go/iscp"
	"github.com/aptpod/iscp-go/message"
	"github.com/aptpod/iscp-go/transport"
	uuid "github.com/google/uuid"

	"verif/internal/broker"
	"verif/internal/coqfmt"
	"verif/internal/memtr"
	"verif/internal/rng"
)

const wd = 3 * time.Second // watchdog for every library call

type caseIn struct {
	Kind       string `json:"kind"` // timing | announce
	IntervalMs int    `json:"interval_ms,omitempty"`
	TimeoutMs  int    `json:"timeout_ms,omitempty"`
	Delays     []int  `json:"delays,omitempty"` // pong delay per ping of the first connection, ms; -1 = no answer
	Rest       int    `json:"rest"`             // delay for every later ping; -1 = no answer
	HorizonMs  int    `json:"horizon_ms,omitempty"`
	SlackMs    int    `json:"slack_ms,omitempty"`
	EarlyMs    int    `json:"early_ms,omitempty"`
	GuardMs    int    `json:"guard_ms,omitempty"`     // a pong sent within timeout +- guard may count either way
	Traffic    bool   `json:"traffic,omitempty"`      // concurrent upstream chunk traffic
	BPings     int    `json:"broker_pings,omitempty"` // pings the broker sends on receipt of each client ping
	// Stall: when the broker receives the first ping it does not answer it also stops READING: from then
	// on every client write blocks until the link is closed (the ping itself was written and read)
	Stall bool `json:"stall,omitempty"`
	// StallAtMs > 0 (probe only, -probe-stall): the broker stops reading at this time, between two pings
	StallAtMs int `json:"stall_at_ms,omitempty"`
	// SlowCloseMs > 0: the transport's Close of the first connection takes this long (a close handshake
	// with a silent peer); recovery must not wait for it
	SlowCloseMs int `json:"slow_close_ms,omitempty"`
	// LateReqs > 0: that many application requests (metadata / upstream open, alternating) are made with a
	// LateDeadlineMs context deadline, one per interval; the broker answers each after LateAnswerMs, i.e.
	// after its caller gave up; every ping is answered at once; an ordinary request follows
	LateReqs       int `json:"late_reqs,omitempty"`
	LateDeadlineMs int `json:"late_deadline_ms,omitempty"`
	LateAnswerMs   int `json:"late_answer_ms,omitempty"`
	LinkFailMs     int `json:"linkfail_ms,omitempty"` // >0: the link dies loudly this long after the first ping
	// burst before the answer: two downstreams and two upstreams are open; BurstAtMs after the first ping
	// the application issues one request (BurstKind: downclose | upclose | downopen | upopen | meta | call);
	// the broker, on receiving it, first sends BurstN further frames (chunks for the stream being closed and
	// for its sibling, ack-completes, metadata / upstream chunk acks), waits BurstWait ping intervals and only
	// then answers; every ping is answered at once. The request must return nil, the sibling downstream
	// must still deliver, an ordinary request must follow, the connection must stay.
	BurstKind string `json:"burst_kind,omitempty"`
	BurstN    int    `json:"burst_n,omitempty"`
	BurstWait int    `json:"burst_wait_intervals,omitempty"`
	BurstAtMs int    `json:"burst_at_ms,omitempty"`
	// inbound flood: FloodAtMs after the first ping the broker sends FloodN items of one kind that the
	// application does not consume (Consume "none") or consumes slowly ("slow"); every ping is answered
	// at once; the window ends 3 intervals + timeout after the flood and an ordinary request follows
	FloodKind  string `json:"flood_kind,omitempty"` // call | reply | chunk | meta | ack
	FloodN     int    `json:"flood_n,omitempty"`
	FloodAtMs  int    `json:"flood_at_ms,omitempty"`
	Consume    string `json:"consume,omitempty"`
	IntervalNs uint64 `json:"interval_ns,omitempty"` // announce cases
	TimeoutNs  uint64 `json:"timeout_ns,omitempty"`
}

func (c *caseIn) delay(j int) int {
	if j < len(c.Delays) {
		return c.Delays[j]
	}
	return c.Rest
}

// expect is the harness's own copy of the model's closed-loop simulation, used ONLY to size the
// observation window and to decide whether a run is re-tried; the verdict is Coq's.
func expect(c *caseIn, until int) (pt []int, closeAt int) {
	I, TO, f := c.IntervalMs, c.TimeoutMs, c.LinkFailMs
	t := 0
	closeAt = -1
	for j := 0; t <= until; j++ {
		if f > 0 && t >= f { // the write of this ping fails: the loop closes at once
			closeAt = t
			return
		}
		pt = append(pt, t)
		d := c.delay(j)
		if d < 0 || d >= TO || (f > 0 && t+d >= f) {
			if t+TO <= until {
				closeAt = t + TO
			}
			return
		}
		r := t + d
		// a tick in (t, r] is buffered: the next ping leaves when the pong arrives
		if r/I > t/I {
			t = r
		} else {
			t = (r/I + 1) * I
		}
	}
	return
}

type obsT struct {
	ptimes    []int
	pongs     []int // -1 = not sent
	pids      []uint32
	bpings    []uint32
	echo      []uint32
	closeAt   int // -1 = not closed
	horizon   int // >0: the window the run actually observed (flood cases)
	recovered int // when both the disconnected event and the second ConnectRequest had been seen; -1 = never
	lateErrs  int // abandoned requests that did not return context.DeadlineExceeded
	burstErr  string
	overrun   int // ms between the planned end of the window and the moment the observation was taken
	reqOK     bool
	disc      bool
	reconnect bool
	annI      uint64
	annT      uint64
	direct    string
	attempts  int
}

func call(f func() error) (err error, blocked bool) {
	ch := make(chan error, 1)
	go func() { ch <- f() }()
	select {
	case err = <-ch:
		return err, false
	case <-time.After(wd):
		return nil, true
	}
}

func ms(d time.Duration) int { return int(d / time.Millisecond) }

// ---------------------------------------------------------------- the harness transport
//
// The client end of the memtr link wrapped in a transport whose first Close / CloseWithStatus
// reports the moment it is called (that is when the wire connection decided to close) and, for
// the first connection of a slow-close case, takes a while to return - like a WebSocket close
// handshake with a peer that no longer answers.  Registered under its own transport name; memtr
// itself is unchanged.

const kaTransportName = iscp.TransportName("verif-memtr-keepalive")

type kaCloseCfg struct {
	delay   time.Duration // Close of the first connection returns this long after it was called
	onClose func(idx int, at time.Time)
	dials   atomic.Int32
}

var kaCfgs sync.Map // broker address -> *kaCloseCfg

type kaTransport struct {
	*memtr.Client
	idx   int
	delay time.Duration
	once  sync.Once
	cfg   *kaCloseCfg
}

func (t *kaTransport) Close() error { return t.CloseWithStatus(transport.CloseStatusNormal) }
func (t *kaTransport) CloseWithStatus(st transport.CloseStatus) error {
	first := false
	t.once.Do(func() { first = true })
	if first {
		if t.cfg != nil && t.cfg.onClose != nil {
			t.cfg.onClose(t.idx, time.Now())
		}
		if t.delay > 0 {
			time.Sleep(t.delay)
		}
	}
	return t.Client.CloseWithStatus(st)
}

type kaDialer struct{}

func (kaDialer) Dial(c transport.DialConfig) (transport.Transport, error) {
	tr, err := broker.Dial(c)
	if err != nil {
		return nil, err
	}
	cl, ok := tr.(*memtr.Client)
	if !ok {
		return tr, nil
	}
	t := &kaTransport{Client: cl}
	if v, ok := kaCfgs.Load(c.Address); ok {
		t.cfg = v.(*kaCloseCfg)
		t.idx = int(t.cfg.dials.Add(1)) - 1
		if t.idx == 0 {
			t.delay = t.cfg.delay
		}
	}
	return t, nil
}

func runTiming(c *caseIn, r *rng.R) (o obsT) {
	o.closeAt = -1
	o.reqOK = true
	var mu sync.Mutex
	var t0 time.Time
	var closedAt time.Time
	var disc, reconnect atomic.Bool
	var ndisc, nrecon atomic.Int32
	b := broker.New(nil)
	b.AutoPong.Store(false)
	var refuse atomic.Bool
	var downAlias atomic.Uint32
	var accepted atomic.Int32
	b.OnDial = func(int, transport.DialConfig) error {
		if refuse.Load() {
			return fmt.Errorf("verif broker: case is over")
		}
		accepted.Add(1)
		return nil
	}
	var discAt, reconnAt time.Time
	var upAliasNext atomic.Uint32
	var downAliases []uint32 // in the order the downstreams were opened (under mu)
	var upAliases []uint32
	var armed atomic.Bool
	srcStream := uuid.New()
	mkChunk := func(alias uint32, seq uint32) *message.DownstreamChunk {
		return &message.DownstreamChunk{StreamIDAlias: alias,
			UpstreamOrAlias: &message.UpstreamInfo{SessionID: "s", SourceNodeID: "src", StreamID: srcStream},
			StreamChunk: &message.StreamChunk{SequenceNumber: seq, DataPointGroups: []*message.DataPointGroup{{
				DataIDOrAlias: &message.DataID{Name: "n", Type: "t"},
				DataPoints:    []*message.DataPoint{{ElapsedTime: time.Duration(seq), Payload: []byte{byte(seq)}}}}}}}
	}
	// burstThen: the frames that are already in flight when the broker gets the request, a pause, the answer,
	// and one more chunk for the sibling downstream
	burstThen := func(s *broker.Session, answer message.Message) {
		mu.Lock()
		da := append([]uint32(nil), downAliases...)
		ua := append([]uint32(nil), upAliases...)
		mu.Unlock()
		for len(da) < 2 {
			da = append(da, 0)
		}
		for len(ua) < 2 {
			ua = append(ua, 0)
		}
		go func() {
			for i := 0; i < c.BurstN; i++ {
				var m message.Message
				if c.BurstKind == "upclose" || c.BurstKind == "upopen" {
					switch i % 4 {
					case 0, 1:
						m = &message.UpstreamChunkAck{StreamIDAlias: ua[0], Results: []*message.UpstreamChunkResult{{SequenceNumber: uint32(50000 + i), ResultCode: message.ResultCodeSucceeded}}}
					case 2:
						m = &message.UpstreamChunkAck{StreamIDAlias: ua[1], Results: []*message.UpstreamChunkResult{{SequenceNumber: uint32(50000 + i), ResultCode: message.ResultCodeSucceeded}}}
					default:
						m = mkChunk(da[1], uint32(i+1))
					}
				} else {
					switch i % 6 {
					case 0, 2:
						m = mkChunk(da[0], uint32(i+1))
					case 1, 3:
						m = mkChunk(da[1], uint32(i+1))
					case 4:
						m = &message.DownstreamChunkAckComplete{StreamIDAlias: da[i/6%2], AckID: uint32(7000 + i), ResultCode: message.ResultCodeSucceeded, ResultString: "OK"}
					default:
						m = &message.DownstreamMetadata{RequestID: message.RequestID(3001 + 2*i), StreamIDAlias: da[1], SourceNodeID: "src",
							Metadata: &message.BaseTime{SessionID: "s", Name: "m", Priority: 1, ElapsedTime: time.Duration(i), BaseTime: time.Unix(1700000000, 0).UTC()}}
					}
				}
				if s.Send(m) != nil {
					return
				}
			}
			time.Sleep(time.Duration(c.BurstWait*c.IntervalMs) * time.Millisecond)
			s.Send(answer)
			s.Send(mkChunk(da[1], 9999))
		}()
	}
	kaCfgs.Store(b.Address, &kaCloseCfg{delay: time.Duration(c.SlowCloseMs) * time.Millisecond, onClose: func(idx int, at time.Time) {
		if idx == 0 {
			mu.Lock()
			if closedAt.IsZero() {
				closedAt = at
			}
			mu.Unlock()
		}
	}})
	defer kaCfgs.Delete(b.Address)
	b.Handler = func(s *broker.Session, m message.Message) {
		switch v := m.(type) {
		case *message.ConnectRequest:
			if s.Idx == 0 {
				mu.Lock()
				o.annI, o.annT = uint64(v.PingInterval/time.Second), uint64(v.PingTimeout/time.Second)
				mu.Unlock()
			} else {
				mu.Lock()
				if reconnAt.IsZero() {
					reconnAt = time.Now()
				}
				mu.Unlock()
				reconnect.Store(true)
			}
			broker.AcceptConnect(s, v)
		case *message.Ping:
			if s.Idx != 0 {
				s.Send(&message.Pong{RequestID: v.RequestID})
				return
			}
			now := time.Now()
			mu.Lock()
			j := len(o.ptimes)
			if j == 0 {
				t0 = now
			}
			o.ptimes = append(o.ptimes, ms(now.Sub(t0)))
			o.pongs = append(o.pongs, -1)
			o.pids = append(o.pids, uint32(v.RequestID))
			var mine []uint32
			for k := 0; k < c.BPings; k++ {
				id := uint32(1001 + 2*(j*c.BPings+k))
				mine = append(mine, id)
				o.bpings = append(o.bpings, id)
			}
			mu.Unlock()
			for _, id := range mine {
				s.Send(&message.Ping{RequestID: message.RequestID(id)})
			}
			d := c.delay(j)
			if d < 0 {
				if c.Stall {
					s.Link.SetStallClientWrites(true)
				}
				return
			}
			send := func() {
				if err := s.Send(&message.Pong{RequestID: v.RequestID}); err == nil {
					at := time.Now()
					mu.Lock()
					o.pongs[j] = ms(at.Sub(t0))
					mu.Unlock()
				}
			}
			if d == 0 {
				send()
			} else {
				go func() {
					time.Sleep(time.Duration(d) * time.Millisecond)
					send()
				}()
			}
		case *message.Pong:
			if s.Idx == 0 {
				mu.Lock()
				o.echo = append(o.echo, uint32(v.RequestID))
				mu.Unlock()
			}
		case *message.UpstreamOpenRequest:
			resp := &message.UpstreamOpenResponse{RequestID: v.RequestID, AssignedStreamID: uuid.New(), AssignedStreamIDAlias: upAliasNext.Add(1),
				ResultCode: message.ResultCodeSucceeded, ServerTime: time.Unix(1700000000, 0)}
			if s.Idx == 0 {
				mu.Lock()
				upAliases = append(upAliases, resp.AssignedStreamIDAlias)
				mu.Unlock()
			}
			if c.BurstKind == "upopen" && armed.CompareAndSwap(true, false) {
				burstThen(s, resp)
				return
			}
			if v.SessionID == "late" {
				resp.AssignedStreamID, resp.AssignedStreamIDAlias = uuid.New(), 7
				go func() {
					time.Sleep(time.Duration(c.LateAnswerMs) * time.Millisecond)
					s.Send(resp)
				}()
				return
			}
			s.Send(resp)
		case *message.UpstreamMetadata:
			ack := &message.UpstreamMetadataAck{RequestID: v.RequestID, ResultCode: message.ResultCodeSucceeded, ResultString: "OK"}
			if c.BurstKind == "meta" && armed.CompareAndSwap(true, false) {
				burstThen(s, ack)
				return
			}
			if c.LateReqs > 0 {
				go func() {
					time.Sleep(time.Duration(c.LateAnswerMs) * time.Millisecond)
					s.Send(ack)
				}()
				return
			}
			s.Send(ack)
		case *message.UpstreamResumeRequest:
			s.Send(&message.UpstreamResumeResponse{RequestID: v.RequestID, AssignedStreamIDAlias: 1, ResultCode: message.ResultCodeSucceeded})
		case *message.UpstreamChunk:
			s.Send(&message.UpstreamChunkAck{StreamIDAlias: v.StreamIDAlias, Results: []*message.UpstreamChunkResult{{
				SequenceNumber: v.StreamChunk.SequenceNumber, ResultCode: message.ResultCodeSucceeded}}})
		case *message.UpstreamCall:
			cack := &message.UpstreamCallAck{CallID: v.CallID, ResultCode: message.ResultCodeSucceeded, ResultString: "OK"}
			if c.BurstKind == "call" && armed.CompareAndSwap(true, false) {
				burstThen(s, cack)
				return
			}
			s.Send(cack)
		case *message.UpstreamCloseRequest:
			cresp := &message.UpstreamCloseResponse{RequestID: v.RequestID, ResultCode: message.ResultCodeSucceeded}
			if c.BurstKind == "upclose" && armed.CompareAndSwap(true, false) {
				burstThen(s, cresp)
				return
			}
			s.Send(cresp)
		case *message.DownstreamOpenRequest:
			downAlias.Store(v.DesiredStreamIDAlias)
			oresp := &message.DownstreamOpenResponse{RequestID: v.RequestID, AssignedStreamID: uuid.New(),
				ResultCode: message.ResultCodeSucceeded, ResultString: "OK", ServerTime: time.Unix(1700000000, 0)}
			if c.BurstKind == "downopen" && armed.CompareAndSwap(true, false) {
				burstThen(s, oresp)
				return
			}
			if s.Idx == 0 {
				mu.Lock()
				downAliases = append(downAliases, v.DesiredStreamIDAlias)
				mu.Unlock()
			}
			s.Send(oresp)
		case *message.DownstreamResumeRequest:
			s.Send(&message.DownstreamResumeResponse{RequestID: v.RequestID, ResultCode: message.ResultCodeSucceeded, ResultString: "OK"})
		case *message.DownstreamChunkAck:
			s.Send(&message.DownstreamChunkAckComplete{StreamIDAlias: v.StreamIDAlias, AckID: v.AckID,
				ResultCode: message.ResultCodeSucceeded, ResultString: "OK"})
		case *message.DownstreamCloseRequest:
			dresp := &message.DownstreamCloseResponse{RequestID: v.RequestID, ResultCode: message.ResultCodeSucceeded, ResultString: "OK"}
			if c.BurstKind == "downclose" && armed.CompareAndSwap(true, false) {
				burstThen(s, dresp)
				return
			}
			s.Send(dresp)
		}
	}
	release := true
	defer func() {
		if release {
			b.Release()
		}
	}()

	var conn *iscp.Conn
	err, blocked := call(func() error {
		var err error
		conn, err = iscp.Connect(b.Address, kaTransportName,
			iscp.WithConnPingInterval(time.Duration(c.IntervalMs)*time.Millisecond),
			iscp.WithConnPingTimeout(time.Duration(c.TimeoutMs)*time.Millisecond),
			iscp.WithConnDisconnectedEventHandler(iscp.DisconnectedEventHandlerFunc(func(*iscp.DisconnectedEvent) {
				mu.Lock()
				if discAt.IsZero() {
					discAt = time.Now()
				}
				mu.Unlock()
				ndisc.Add(1)
				disc.Store(true)
			})),
			iscp.WithConnReconnectedEventHandler(iscp.ReconnectedEventHandlerFunc(func(*iscp.ReconnectedEvent) { nrecon.Add(1) })))
		return err
	})
	if blocked || err != nil {
		o.direct = fmt.Sprintf("harness: connect failed: %v blocked=%v", err, blocked)
		return
	}
	stop := make(chan struct{})
	var wg sync.WaitGroup
	defer func() {
		close(stop)
		// Conn.Close while a redial SUCCEEDS panics inside the library (finding F10, property C10).
		// Refuse further dials, wait until every accepted dial has become a finished reconnect, and
		// only then close: a redial that is still under way can only fail, which Close survives.
		refuse.Store(true)
		if !broker.WaitFor(wd, func() bool { return nrecon.Load() == accepted.Load()-1 }) {
			release = false
			return
		}
		done := make(chan struct{})
		go func() {
			ctx, cancel := context.WithTimeout(context.Background(), time.Second)
			defer cancel()
			conn.Close(ctx)
			wg.Wait()
			close(done)
		}()
		select {
		case <-done:
		case <-time.After(wd):
		}
	}()
	if c.Traffic {
		// concurrent application traffic: one request (OpenUpstream) and a stream of chunks
		wg.Add(1)
		seed := r.U64()
		go func() {
			defer wg.Done()
			rr := rng.New(seed)
			ctx, cancel := context.WithTimeout(context.Background(), time.Second)
			up, err := conn.OpenUpstream(ctx, "s", iscp.WithUpstreamFlushPolicyImmediately(), iscp.WithUpstreamQoS(message.QoSReliable),
				iscp.WithUpstreamCloseTimeout(100*time.Millisecond))
			cancel()
			if err != nil {
				return
			}
			did := &message.DataID{Name: "n", Type: "t"}
			for i := 0; ; i++ {
				select {
				case <-stop:
					return
				default:
				}
				ctx, cancel := context.WithTimeout(context.Background(), 200*time.Millisecond)
				up.WriteDataPoints(ctx, did, &message.DataPoint{ElapsedTime: time.Duration(i), Payload: rr.Bytes(1 + rr.Intn(64))})
				cancel()
				time.Sleep(time.Duration(200+rr.Intn(1500)) * time.Microsecond)
			}
		}()
	}
	reqOK := true
	var down *iscp.Downstream
	var tgtDown, sibDown *iscp.Downstream
	var tgtUp *iscp.Upstream
	if c.BurstKind != "" {
		err, blocked := call(func() error {
			ctx, cancel := context.WithTimeout(context.Background(), wd)
			defer cancel()
			var err error
			flt := []*message.DownstreamFilter{message.NewDownstreamFilterAllFor("src")}
			if tgtDown, err = conn.OpenDownstream(ctx, flt); err != nil {
				return err
			}
			if sibDown, err = conn.OpenDownstream(ctx, flt); err != nil {
				return err
			}
			if tgtUp, err = conn.OpenUpstream(ctx, "tgt", iscp.WithUpstreamFlushPolicyNone(), iscp.WithUpstreamCloseTimeout(100*time.Millisecond)); err != nil {
				return err
			}
			_, err = conn.OpenUpstream(ctx, "sib", iscp.WithUpstreamFlushPolicyNone(), iscp.WithUpstreamCloseTimeout(100*time.Millisecond))
			return err
		})
		if blocked || err != nil {
			o.direct = fmt.Sprintf("harness: opening the streams of a burst case failed: %v blocked=%v", err, blocked)
			return
		}
	}
	switch c.FloodKind {
	case "chunk", "meta":
		err, blocked := call(func() error {
			ctx, cancel := context.WithTimeout(context.Background(), wd)
			defer cancel()
			var err error
			down, err = conn.OpenDownstream(ctx, []*message.DownstreamFilter{message.NewDownstreamFilterAllFor("src")})
			return err
		})
		if blocked || err != nil {
			o.direct = fmt.Sprintf("harness: open downstream failed: %v blocked=%v", err, blocked)
			return
		}
	case "ack":
		err, blocked := call(func() error {
			ctx, cancel := context.WithTimeout(context.Background(), wd)
			defer cancel()
			_, err := conn.OpenUpstream(ctx, "s", iscp.WithUpstreamFlushPolicyNone(), iscp.WithUpstreamCloseTimeout(100*time.Millisecond))
			return err
		})
		if blocked || err != nil {
			o.direct = fmt.Sprintf("harness: open upstream failed: %v blocked=%v", err, blocked)
			return
		}
	}
	if c.FloodN > 0 && c.Consume == "slow" {
		wg.Add(1)
		go func() {
			defer wg.Done()
			for {
				select {
				case <-stop:
					return
				default:
				}
				ctx, cancel := context.WithTimeout(context.Background(), 20*time.Millisecond)
				switch c.FloodKind {
				case "call":
					conn.ReceiveCall(ctx)
				case "reply":
					conn.ReceiveReplyCall(ctx)
				case "chunk":
					down.ReadDataPoints(ctx)
				case "meta":
					down.ReadMetadata(ctx)
				default:
					<-ctx.Done()
				}
				cancel()
				time.Sleep(2 * time.Millisecond)
			}
		}()
	}
	// wait for the first ping
	if !broker.WaitFor(wd, func() bool { mu.Lock(); defer mu.Unlock(); return len(o.ptimes) > 0 }) {
		o.direct = "no ping reached the broker within the watchdog after Connect returned"
		return
	}
	mu.Lock()
	start := t0
	mu.Unlock()
	end := start.Add(time.Duration(c.HorizonMs) * time.Millisecond)
	if c.StallAtMs > 0 {
		if s0 := b.WaitSession(0, wd); s0 != nil {
			tm := time.AfterFunc(time.Until(start.Add(time.Duration(c.StallAtMs)*time.Millisecond)), func() { s0.Link.SetStallClientWrites(true) })
			defer tm.Stop()
		}
	}
	if c.LinkFailMs > 0 {
		if s0 := b.WaitSession(0, wd); s0 != nil {
			tm := time.AfterFunc(time.Until(start.Add(time.Duration(c.LinkFailMs)*time.Millisecond)), func() { s0.Link.Sever(memtr.Loud) })
			defer tm.Stop()
		}
	}
	var lateErrs atomic.Int32
	if c.LateReqs > 0 {
		wg.Add(1)
		go func() {
			defer wg.Done()
			for i := 0; i < c.LateReqs; i++ {
				time.Sleep(time.Until(start.Add(time.Duration(15+i*c.IntervalMs) * time.Millisecond)))
				ctx, cancel := context.WithTimeout(context.Background(), time.Duration(c.LateDeadlineMs)*time.Millisecond)
				var err error
				if i%2 == 0 {
					err = conn.SendBaseTime(ctx, &message.BaseTime{SessionID: "s", Name: "b", Priority: 1, BaseTime: time.Unix(1700000000, 0)})
				} else {
					_, err = conn.OpenUpstream(ctx, "late", iscp.WithUpstreamFlushPolicyNone(), iscp.WithUpstreamCloseTimeout(100*time.Millisecond))
				}
				cancel()
				if err == nil || !strings.Contains(err.Error(), context.DeadlineExceeded.Error()) {
					lateErrs.Add(1)
				}
			}
		}()
	}
	burstDone := make(chan string, 1)
	if c.BurstKind != "" {
		go func() {
			time.Sleep(time.Until(start.Add(time.Duration(c.BurstAtMs) * time.Millisecond)))
			armed.Store(true)
			ctx, cancel := context.WithTimeout(context.Background(), 2*time.Second)
			defer cancel()
			var err error
			switch c.BurstKind {
			case "downclose":
				err = tgtDown.Close(ctx)
			case "upclose":
				err = tgtUp.Close(ctx)
			case "downopen":
				_, err = conn.OpenDownstream(ctx, []*message.DownstreamFilter{message.NewDownstreamFilterAllFor("src")})
			case "upopen":
				_, err = conn.OpenUpstream(ctx, "burst", iscp.WithUpstreamFlushPolicyNone(), iscp.WithUpstreamCloseTimeout(100*time.Millisecond))
			case "meta":
				err = conn.SendBaseTime(ctx, &message.BaseTime{SessionID: "s", Name: "b", Priority: 1, BaseTime: time.Unix(1700000000, 0)})
			case "call":
				_, err = conn.SendCall(ctx, &iscp.UpstreamCall{DestinationNodeID: "peer", Name: "n", Type: "t", Payload: []byte{1}})
			}
			if err != nil {
				burstDone <- "the request answered after the burst returned: " + err.Error()
				return
			}
			// the sibling downstream still delivers: the chunk the broker sent after the answer arrives
			rctx, rcancel := context.WithTimeout(context.Background(), time.Second)
			defer rcancel()
			for {
				ck, err := sibDown.ReadDataPoints(rctx)
				if err != nil {
					burstDone <- "the sibling downstream did not deliver the chunk sent after the answer: " + err.Error()
					return
				}
				if ck.SequenceNumber == 9999 {
					burstDone <- ""
					return
				}
			}
		}()
	}
	if c.FloodN > 0 {
		s0 := b.WaitSession(0, wd)
		floodDone := make(chan time.Time, 1)
		go func() {
			time.Sleep(time.Until(start.Add(time.Duration(c.FloodAtMs) * time.Millisecond)))
			srcStream := uuid.New()
			for i := 0; i < c.FloodN && s0 != nil; i++ {
				var m message.Message
				switch c.FloodKind {
				case "call":
					m = &message.DownstreamCall{CallID: fmt.Sprintf("c%d", i), SourceNodeID: "src", Name: "n", Type: "t", Payload: []byte{byte(i)}}
				case "reply":
					m = &message.DownstreamCall{CallID: fmt.Sprintf("c%d", i), RequestCallID: fmt.Sprintf("nobody-%d", i), SourceNodeID: "src", Name: "n", Type: "t", Payload: []byte{byte(i)}}
				case "chunk":
					m = &message.DownstreamChunk{StreamIDAlias: downAlias.Load(),
						UpstreamOrAlias: &message.UpstreamInfo{SessionID: "s", SourceNodeID: "src", StreamID: srcStream},
						StreamChunk: &message.StreamChunk{SequenceNumber: uint32(i + 1), DataPointGroups: []*message.DataPointGroup{{
							DataIDOrAlias: &message.DataID{Name: "n", Type: "t"},
							DataPoints:    []*message.DataPoint{{ElapsedTime: time.Duration(i), Payload: []byte{byte(i)}}}}}}}
				case "meta":
					m = &message.DownstreamMetadata{RequestID: message.RequestID(2001 + 2*i), StreamIDAlias: downAlias.Load(), SourceNodeID: "src",
						Metadata: &message.BaseTime{SessionID: "s", Name: "m", Priority: 1, ElapsedTime: time.Duration(i), BaseTime: time.Unix(1700000000, 0).UTC()}}
				default: // ack
					m = &message.UpstreamChunkAck{StreamIDAlias: 1, Results: []*message.UpstreamChunkResult{{
						SequenceNumber: uint32(100000 + i), ResultCode: message.ResultCodeSucceeded}}}
				}
				if s0.Send(m) != nil {
					break
				}
			}
			floodDone <- time.Now()
		}()
		select {
		case fd := <-floodDone:
			end = fd.Add(time.Duration(3*c.IntervalMs+c.TimeoutMs+10) * time.Millisecond)
		case <-time.After(wd):
			o.direct = "harness: the broker could not send the flood within the watchdog"
			return
		}
	}
	for time.Now().Before(end) {
		mu.Lock()
		cl := !closedAt.IsZero()
		mu.Unlock()
		if cl && disc.Load() && reconnect.Load() {
			break // recovery observed: the first connection is over
		}
		time.Sleep(500 * time.Microsecond)
	}
	burstErr := ""
	if c.BurstKind != "" {
		select {
		case burstErr = <-burstDone:
		case <-time.After(wd):
			burstErr = "the request answered after the burst did not return within the watchdog"
		}
	}
	if c.FloodN > 0 || c.LateReqs > 0 || c.BurstKind != "" {
		// an ordinary request must still work after the flood / the late answers
		err, blocked := call(func() error {
			ctx, cancel := context.WithTimeout(context.Background(), time.Second)
			defer cancel()
			_, err := conn.OpenUpstream(ctx, "after-flood", iscp.WithUpstreamFlushPolicyNone(), iscp.WithUpstreamCloseTimeout(100*time.Millisecond))
			return err
		})
		reqOK = !blocked && err == nil && burstErr == ""
	}
	// the client's pongs for the broker's last pings may still be under way
	broker.WaitFor(50*time.Millisecond, func() bool {
		mu.Lock()
		defer mu.Unlock()
		return len(o.echo) >= len(o.bpings) || !closedAt.IsZero()
	})
	obsEnd := time.Now()
	mu.Lock()
	defer mu.Unlock()
	res := o
	res.reqOK = reqOK
	res.burstErr = burstErr
	if c.FloodN == 0 && c.BurstKind == "" && closedAt.IsZero() {
		res.overrun = ms(obsEnd.Sub(end))
	}
	if c.FloodN > 0 || c.BurstKind != "" {
		res.horizon = ms(obsEnd.Sub(t0))
	}
	res.ptimes = append([]int(nil), o.ptimes...)
	res.pongs = append([]int(nil), o.pongs...)
	res.pids = append([]uint32(nil), o.pids...)
	res.bpings = append([]uint32(nil), o.bpings...)
	res.echo = append([]uint32(nil), o.echo...)
	if !closedAt.IsZero() {
		res.closeAt = ms(closedAt.Sub(t0))
	}
	res.recovered = -1
	if !discAt.IsZero() && !reconnAt.IsZero() {
		res.recovered = ms(discAt.Sub(t0))
		if x := ms(reconnAt.Sub(t0)); x > res.recovered {
			res.recovered = x
		}
	}
	res.lateErrs = int(lateErrs.Load())
	res.disc, res.reconnect = disc.Load(), reconnect.Load()
	return res
}

func runAnnounce(c *caseIn) (o obsT) {
	o.closeAt = -1
	o.reqOK = true
	got := make(chan [2]uint64, 4)
	b := broker.New(func(s *broker.Session, m message.Message) {
		if v, ok := m.(*message.ConnectRequest); ok {
			select {
			case got <- [2]uint64{uint64(v.PingInterval / time.Second), uint64(v.PingTimeout / time.Second)}:
			default:
			}
			broker.AcceptConnect(s, v)
		}
	})
	defer b.Release()
	var conn *iscp.Conn
	err, blocked := call(func() error {
		var err error
		conn, err = iscp.Connect(b.Address, kaTransportName,
			iscp.WithConnPingInterval(time.Duration(c.IntervalNs)), iscp.WithConnPingTimeout(time.Duration(c.TimeoutNs)))
		return err
	})
	if blocked || err != nil {
		o.direct = fmt.Sprintf("harness: connect failed: %v blocked=%v", err, blocked)
		return
	}
	select {
	case a := <-got:
		o.annI, o.annT = a[0], a[1]
	case <-time.After(wd):
		o.direct = "harness: no ConnectRequest"
	}
	done := make(chan struct{})
	go func() {
		ctx, cancel := context.WithTimeout(context.Background(), time.Second)
		defer cancel()
		conn.Close(ctx)
		close(done)
	}()
	select {
	case <-done:
	case <-time.After(wd):
	}
	return
}

// miss: would this run be flagged for a reason that timing jitter can explain?  (re-run then)
func miss(c *caseIn, o *obsT) string {
	if c.Kind != "timing" || o.direct != "" {
		if o.direct != "" && !strings.HasPrefix(o.direct, "harness:") {
			return "direct"
		}
		return ""
	}
	H, slack, early := c.HorizonMs, c.SlackMs, c.EarlyMs
	if o.horizon > 0 {
		H = o.horizon
	}
	if !o.reqOK {
		return "ok:request-after-flood"
	}
	if o.lateErrs > 0 {
		return "late-request-not-abandoned" // the harness did not realise the scenario
	}
	if o.overrun > 80 {
		return "harness-stalled" // the whole process stood still: the observation is not a consistent snapshot
	}
	if o.closeAt < 0 && (o.disc || o.reconnect) {
		return "ok:disconnect-without-close"
	}
	// the script as the broker realised it (the same resolution as ka_corr in Model/KeepAlive.v)
	rc := *c
	rc.Delays = nil
	for j, t := range o.ptimes {
		d := -1
		if p := o.pongs[j]; p >= 0 {
			d = p - t
			switch {
			case d+c.GuardMs < c.TimeoutMs:
			case c.TimeoutMs+c.GuardMs <= d:
				d = -1
			case j+1 < len(o.ptimes):
				if d > c.TimeoutMs-1 {
					d = c.TimeoutMs - 1
				}
			default:
				d = -1
			}
		}
		rc.Delays = append(rc.Delays, d)
	}
	mp, mc := expect(&rc, H+early)
	if len(o.ptimes) > len(mp) {
		return "more-pings-than-model"
	}
	for i, t := range o.ptimes {
		if !(mp[i] <= t+early) {
			return "ping-early"
		}
		if !(t <= mp[i]+slack) {
			return "ping-late"
		}
	}
	need := 0
	for _, t := range mp {
		if t+slack <= H {
			need++
		}
	}
	if len(o.ptimes) < need {
		return "fewer-pings-than-model"
	}
	switch {
	case mc >= 0 && o.closeAt >= 0:
		if !(mc <= o.closeAt+early && o.closeAt <= mc+slack) {
			return "close-time"
		}
		if len(mp) != len(o.ptimes) {
			return "ping-count-at-close"
		}
		if !o.disc || !o.reconnect {
			return "no-recovery"
		}
	case mc >= 0 && o.closeAt < 0:
		if mc+slack <= H {
			return "not-closed"
		}
	case mc < 0 && o.closeAt >= 0:
		return "closed-unexpectedly"
	}
	if len(o.echo) != len(o.bpings) {
		return "echo"
	}
	// the property predicate (c15_ok), as far as timing can make it fail
	n := len(o.ptimes)
	for j := 0; j+1 < n; j++ {
		if o.pongs[j] < 0 || o.pongs[j] > o.ptimes[j+1] {
			return "ok:answered-before-next"
		}
	}
	if t := o.closeAt; t >= 0 {
		T, base := 0, 0
		for _, p := range o.pongs {
			if p >= 0 && p <= t && p >= T {
				T = p
			}
		}
		if n >= 2 && o.pongs[n-2] >= 0 {
			base = o.pongs[n-2]
		}
		if t > T+c.IntervalMs+c.TimeoutMs+slack {
			return "ok:detection-bound"
		}
		if o.recovered < 0 || o.recovered > T+c.IntervalMs+c.TimeoutMs+slack {
			return "ok:recovery-bound"
		}
		notBefore := base+c.TimeoutMs <= t+early
		if c.LinkFailMs > 0 {
			if !(c.LinkFailMs <= t+early || notBefore) {
				return "ok:closed-before-linkfail"
			}
		} else {
			if !notBefore {
				return "ok:closed-before-timeout"
			}
			if p := o.pongs[n-1]; p >= 0 && !(base+c.TimeoutMs <= p+early && o.ptimes[n-1]+c.TimeoutMs <= p+early) {
				return "ok:last-ping-answered-in-time"
			}
		}
	} else if n > 0 && o.pongs[n-1] < 0 && !(H <= o.ptimes[n-1]+c.TimeoutMs+slack) {
		return "ok:not-closed"
	}
	return ""
}

func optList(xs []int) string {
	var s []string
	for _, x := range xs {
		s = append(s, coqfmt.Opt(fmt.Sprint(x), x >= 0))
	}
	return coqfmt.List(s)
}
func intList(xs []int) string {
	var s []string
	for _, x := range xs {
		s = append(s, fmt.Sprint(x))
	}
	return coqfmt.List(s)
}
func u32List(xs []uint32) string {
	var s []string
	for _, x := range xs {
		s = append(s, fmt.Sprint(x))
	}
	return coqfmt.List(s)
}

func term(c *caseIn, o *obsT) string {
	if c.Kind == "announce" {
		return fmt.Sprintf("mkKaCase 1 %d %d (mkScript [] None None) 0 0 0 0 [] [] [] true None [] false false None true (%d, %d)",
			c.IntervalNs, c.TimeoutNs, o.annI, o.annT)
	}
	pidsOK := true
	for i, id := range o.pids {
		if id%2 != 0 || (i > 0 && id <= o.pids[i-1]) {
			pidsOK = false
		}
	}
	H := c.HorizonMs
	if o.horizon > 0 {
		H = o.horizon
	}
	return fmt.Sprintf("mkKaCase 0 %d %d (mkScript %s %s %s) %d %d %d %d %s %s %s %s %s %s %s %s %s %s (%d, %d)",
		c.IntervalMs, c.TimeoutMs, optList(c.Delays), coqfmt.Opt(fmt.Sprint(c.Rest), c.Rest >= 0), coqfmt.Opt(fmt.Sprint(c.LinkFailMs), c.LinkFailMs > 0),
		H, c.SlackMs, c.EarlyMs, c.GuardMs, u32List(o.bpings), intList(o.ptimes), optList(o.pongs), coqfmt.Bool(pidsOK),
		coqfmt.Opt(fmt.Sprint(o.closeAt), o.closeAt >= 0), u32List(o.echo), coqfmt.Bool(o.disc), coqfmt.Bool(o.reconnect), coqfmt.Opt(fmt.Sprint(o.recovered), o.recovered >= 0), coqfmt.Bool(o.reqOK), o.annI, o.annT)
}

// ---------------------------------------------------------------- generators

var intervals = []int{40, 80, 150}
var timeouts = []int{20, 60}

// configurations with timeout > interval: a pong that is in time may come after the next tick(s),
// the one-slot ticker channel then makes the next ping leave at once
var slowPairs = [][2]int{{40, 120}, {40, 200}, {80, 200}, {50, 150}}

// the pairs the random generators draw from: mostly the product grid, sometimes timeout > interval
func pickPair(r *rng.R) (int, int) {
	if r.Chance(1, 5) {
		p := slowPairs[r.Intn(2)*3] // (40,120) or (50,150): the cheap ones
		return p[0], p[1]
	}
	return intervals[r.Intn(3)], timeouts[r.Intn(2)]
}

// alive-slow: every pong of 4-6 consecutive pings (or of all) comes after d = 0.6/0.75/0.9 x timeout,
// which is longer than the interval: the broker answers within the timeout, the client must stay
func genAliveSlow(slack, early int, r *rng.R, add func(*caseIn, string)) {
	for _, p := range slowPairs {
		for _, f := range []int{60, 75, 90} {
			d := p[1] * f / 100
			c := &caseIn{Kind: "timing", IntervalMs: p[0], TimeoutMs: p[1], SlackMs: slack, EarlyMs: early, Rest: d, BPings: 1,
				HorizonMs: 5*d + d/2}
			add(c, "alive-slow")
		}
	}
	for i := 0; i < 8; i++ {
		p := slowPairs[r.Intn(len(slowPairs))]
		c := &caseIn{Kind: "timing", IntervalMs: p[0], TimeoutMs: p[1], SlackMs: slack, EarlyMs: early, BPings: r.Intn(2), Traffic: r.Bool()}
		n := 4 + r.Intn(3)
		t := 0
		for j := 0; j < n; j++ {
			d := p[1] * []int{60, 75, 90}[r.Intn(3)] / 100
			c.Delays = append(c.Delays, d)
			t += d
		}
		c.Rest = 0
		c.HorizonMs = t + 2*p[0] + p[0]/2
		add(c, "alive-slow")
	}
}

func frac(to int, f int) int { return to * f / 10 } // f in tenths

// the broker answers k pings (delays at 0, 0.5x, 0.9x timeout) and then stops or answers late (1.5x)
func genDead(r *rng.R, slack, early int) *caseIn {
	pI, pTO := pickPair(r)
	c := &caseIn{Kind: "timing", IntervalMs: pI, TimeoutMs: pTO, SlackMs: slack, EarlyMs: early}
	k := r.Intn(6)
	for i := 0; i < k; i++ {
		c.Delays = append(c.Delays, frac(c.TimeoutMs, []int{0, 5, 5, 9}[r.Intn(4)]))
	}
	if r.Chance(1, 3) {
		c.Delays = append(c.Delays, frac(c.TimeoutMs, 15)) // a pong that comes too late
	} else {
		c.Delays = append(c.Delays, -1)
	}
	c.Rest = -1
	if r.Chance(1, 4) {
		c.Rest = 0 // would answer again - nobody asks any more
	}
	c.Traffic = r.Chance(1, 2)
	c.BPings = r.Intn(3)
	if r.Chance(1, 4) {
		c.SlowCloseMs = []int{300, 1000}[r.Intn(2)]
	}
	_, mc := expect(c, 1<<20)
	c.HorizonMs = mc + slack + 100
	return c
}

// the broker keeps answering in time: the client must stay
func genAlive(r *rng.R, slack, early int) *caseIn {
	pI, pTO := pickPair(r)
	c := &caseIn{Kind: "timing", IntervalMs: pI, TimeoutMs: pTO, SlackMs: slack, EarlyMs: early}
	n := r.Intn(4)
	for i := 0; i < n; i++ {
		c.Delays = append(c.Delays, frac(c.TimeoutMs, []int{0, 5, 9}[r.Intn(3)]))
	}
	c.Rest = frac(c.TimeoutMs, []int{0, 5, 9}[r.Intn(3)])
	c.Traffic = r.Chance(1, 2)
	c.BPings = r.Intn(3)
	c.HorizonMs = 350 + r.Intn(300)
	return c
}

// the broker answers in time but the link dies loudly (reads and writes fail): either while the
// loop waits for the next tick (the next ping cannot be written: closed at that tick) or while a
// pong is under way (it never arrives: closed at the ping's deadline)
func genLoud(r *rng.R, slack, early int) *caseIn {
	for {
		pI, pTO := pickPair(r)
		c := &caseIn{Kind: "timing", IntervalMs: pI, TimeoutMs: pTO, SlackMs: slack, EarlyMs: early}
		n := 1 + r.Intn(4)
		for i := 0; i < n; i++ {
			c.Delays = append(c.Delays, frac(c.TimeoutMs, []int{0, 5, 9}[r.Intn(3)]))
		}
		c.Rest = c.Delays[n-1]
		pt, _ := expect(c, 2000)
		k := r.Intn(n)
		tk, dk, next := pt[k], c.delay(k), pt[k+1]
		if r.Bool() && dk >= 16 {
			c.LinkFailMs = tk + dk/2
		} else if next-(tk+dk) >= 30 && tk+dk > 0 {
			c.LinkFailMs = tk + dk + (next-(tk+dk))/2
		} else {
			continue
		}
		c.Traffic = r.Chance(1, 2)
		c.BPings = r.Intn(2)
		_, mc := expect(c, 1<<20)
		c.HorizonMs = mc + slack + 100
		return c
	}
}

// inbound flood: every (kind, N) with an application that never consumes, plus slow consumers
func genFloods(slack, early int, add func(*caseIn, string)) {
	k := 0
	for _, kind := range []string{"call", "reply", "chunk", "meta", "ack"} {
		ns := []int{1030, 1100, 2100}
		if kind == "chunk" || kind == "meta" {
			// two 1024-slot queues in series (wire subscription + stream inbox): only beyond ~2056
			// undrained items does the backlog reach the wire connection's dispatcher
			ns = append(ns, 3300)
		}
		for _, n := range ns {
			cons := []string{"none"}
			if n == 2100 && kind != "ack" {
				cons = append(cons, "slow")
			}
			for _, cs := range cons {
				c := &caseIn{Kind: "timing", IntervalMs: []int{40, 80}[k%2], TimeoutMs: []int{20, 60, 60}[k%3], SlackMs: slack, EarlyMs: early,
					Rest: 0, BPings: 1, FloodKind: kind, FloodN: n, FloodAtMs: 20, Consume: cs}
				k++
				add(c, "flood-"+kind)
			}
		}
	}
}

// seconds-scale configurations that are not whole seconds: the loop must run on the configured values
// (1.8 s means 1.8 s), only the announced values are whole seconds
func genSeconds(slack, early int, thorough bool, r *rng.R, add func(*caseIn, string)) {
	mk := func(I, TO int, delays []int, rest, horizon int, kind string) {
		c := &caseIn{Kind: "timing", IntervalMs: I, TimeoutMs: TO, Delays: delays, Rest: rest, SlackMs: slack, EarlyMs: early, HorizonMs: horizon}
		if horizon == 0 {
			_, mc := expect(c, 1<<20)
			c.HorizonMs = mc + slack + 100
		}
		add(c, kind)
	}
	mk(1000, 1800, nil, 1400, 4500, "seconds-alive")    // every pong after 1.4 s < 1.8 s
	mk(1500, 1500, nil, 1200, 4000, "seconds-alive")    // 1.2 s < 1.5 s
	mk(1200, 1000, []int{0, -1}, -1, 0, "seconds-dead") // second ping at 1.2 s, closed at 2.2 s
	if thorough {
		for i := 0; i < 8; i++ {
			I := []int{1000, 1200, 1500, 2000}[r.Intn(4)]
			TO := []int{1300, 1800, 2500}[r.Intn(3)]
			if r.Bool() {
				d := TO - 200 - r.Intn(200)
				mk(I, TO, nil, d, 3*d+d/2, "seconds-alive")
			} else {
				mk(I, TO, []int{r.Intn(300), -1}, -1, 0, "seconds-dead")
			}
		}
	}
}

// dead and not reading: after k answered pings the broker reads one more ping and then hangs
// completely: no pong, no further reads (client writes block), transport left open
func genStall(slack, early int, r *rng.R, add func(*caseIn, string)) {
	for _, p := range [][2]int{{40, 20}, {40, 60}, {80, 20}, {80, 60}, {150, 60}, {40, 120}} {
		for k := 0; k <= 2; k++ {
			c := &caseIn{Kind: "timing", IntervalMs: p[0], TimeoutMs: p[1], SlackMs: slack, EarlyMs: early, Rest: -1, Stall: true,
				Traffic: k == 2 && p[0] == 80}
			for i := 0; i < k; i++ {
				c.Delays = append(c.Delays, frac(p[1], []int{0, 5}[r.Intn(2)]))
			}
			c.Delays = append(c.Delays, -1)
			if k == 1 {
				c.SlowCloseMs = 300
			}
			_, mc := expect(c, 1<<20)
			c.HorizonMs = mc + slack + 100
			add(c, "dead-stall")
		}
	}
}

// alive with a burst of inbound frames between a request and its answer (data in flight when the
// broker receives the request): the reader and the dispatchers must keep going while the request waits
func genBursts(slack, early int, add func(*caseIn, string)) {
	k := 0
	mk := func(kind string, n, wait int) {
		I := []int{40, 80}[k%2]
		TO := []int{20, 60, 60}[k%3]
		c := &caseIn{Kind: "timing", IntervalMs: I, TimeoutMs: TO, SlackMs: slack, EarlyMs: early, Rest: 0, BPings: k % 2,
			BurstKind: kind, BurstN: n, BurstWait: wait, BurstAtMs: 15}
		c.HorizonMs = c.BurstAtMs + wait*I + 3*I + TO + 50
		k++
		add(c, "alive-burst-"+kind)
	}
	for _, n := range []int{12, 24, 40} {
		for _, wait := range []int{1, 2} {
			mk("downclose", n, wait)
		}
	}
	for _, n := range []int{24, 40} {
		for _, wait := range []int{1, 2} {
			mk("upclose", n, wait)
		}
	}
	for _, kind := range []string{"downopen", "upopen", "meta", "call"} {
		mk(kind, 24, 1)
	}
}

// alive with late answers to abandoned requests: the caller of a request gives up after 30-50 ms,
// the broker answers it after 150 ms; pings are answered at once; the connection must stay
func genLateAnswers(slack, early int, add func(*caseIn, string)) {
	k := 0
	for _, I := range []int{40, 80} {
		for _, TO := range []int{20, 60} {
			for _, n := range []int{1, 2, 4} {
				c := &caseIn{Kind: "timing", IntervalMs: I, TimeoutMs: TO, SlackMs: slack, EarlyMs: early, Rest: 0, BPings: k % 2,
					LateReqs: n, LateDeadlineMs: []int{30, 40, 50}[k%3], LateAnswerMs: 150}
				c.HorizonMs = 15 + (n-1)*I + c.LateAnswerMs + 3*I + TO + 10
				k++
				add(c, "alive-late-answers")
			}
		}
	}
}

func genAnnounce(r *rng.R, i int) *caseIn {
	s := uint64(time.Second)
	fixed := [][2]uint64{
		{1500 * uint64(time.Millisecond), 999 * uint64(time.Millisecond)},
		{999 * uint64(time.Millisecond), 1500 * uint64(time.Millisecond)},
		{s, s}, {2 * 3600 * s, 3600 * s}, {0, 0}, {0, 2 * s}, {3 * s, 0},
		{10 * s, s}, {s + 999999999, 2*s - 1}, {4294967296 * s, 4294967297 * s}, {4294967295 * s, 8589934591 * s},
		{16777215*s + 999999999, 16777215*s + 999999998}, {60 * s, 59*s + 999*uint64(time.Millisecond)},
	}
	if i < len(fixed) {
		return &caseIn{Kind: "announce", IntervalNs: fixed[i][0], TimeoutNs: fixed[i][1], Rest: -1}
	}
	pick := func() uint64 {
		switch r.Intn(4) {
		case 0:
			return uint64(500+r.Intn(100000)) * uint64(time.Millisecond)
		case 1:
			return uint64(1+r.Intn(16777215))*s + uint64(r.Intn(1000000000))
		case 2:
			return uint64(1+r.Intn(1<<30)) * 8 * s // whole seconds, up to 2^33 s: wraps mod 2^32
		default:
			return uint64(1+r.Intn(3600)) * s
		}
	}
	return &caseIn{Kind: "announce", IntervalNs: pick(), TimeoutNs: pick(), Rest: -1}
}

func main() {
	seed := flag.Uint64("seed", 1, "seed")
	tier := flag.String("tier", "quick", "quick|thorough")
	out := flag.String("out", "", "output directory")
	replay := flag.String("replay", "", "replay file")
	par := flag.Int("par", 16, "parallel cases")
	slack := flag.Int("slack", 150, "allowed lateness of the real clock, ms")
	early := flag.Int("early", 15, "allowed earliness, ms")
	retrycap := flag.Int("retrycap", 60, "re-run at most this many missing cases")
	probeStall := flag.Bool("probe-stall", false, "add the probe case: the peer stops reading BETWEEN two pings (the ping write itself blocks)")
	guard := flag.Int("guard", 4, "a pong sent within timeout +- guard ms may count as in time or late")
	flag.Parse()
	broker.New(nil).Release() // registers the plain memtr dialer (once) before ours
	iscp.VerifRegisterDialer(kaTransportName, func() transport.Dialer { return kaDialer{} })
	w := coqfmt.NewWriter(*out, "C15", "From Iscp Require Import Model.KeepAlive.", "ka_case", "ka_judge", 150)
	r := rng.New(*seed)
	type job struct {
		c    *caseIn
		kind string
		seed uint64
	}
	var jobs []job
	add := func(c *caseIn, kind string) {
		if c.Kind == "timing" {
			c.GuardMs = *guard
		}
		jobs = append(jobs, job{c, kind, r.U64()})
	}
	if *replay != "" {
		b, err := os.ReadFile(*replay)
		if err != nil {
			fmt.Fprintln(os.Stderr, err)
			os.Exit(2)
		}
		var rf struct {
			Input    caseIn `json:"input"`
			CaseSeed uint64 `json:"case_seed"`
		}
		if err := json.Unmarshal(b, &rf); err != nil {
			fmt.Fprintln(os.Stderr, err)
			os.Exit(2)
		}
		jobs = append(jobs, job{&rf.Input, "replay", rf.CaseSeed})
	} else {
		ndead, nalive, nloud, nann := 240, 110, 60, 40
		if *tier == "thorough" {
			ndead, nalive, nloud, nann = 2400, 1100, 600, 400
		}
		genSeconds(*slack, *early, *tier == "thorough", r.Fork(), add) // first: they take seconds, the rest runs beside them
		genStall(*slack, *early, r.Fork(), add)
		if *probeStall {
			add(&caseIn{Kind: "timing", IntervalMs: 80, TimeoutMs: 60, Delays: []int{0, 0}, Rest: 0, SlackMs: *slack, EarlyMs: *early,
				StallAtMs: 120, HorizonMs: 160 + 60 + *slack + 100}, "probe-stall-before-ping")
		}
		// every (interval, timeout, k, last-delay class) once, then random ones
		gridPairs := [][2]int{{40, 120}, {50, 150}} // timeout > interval too
		for _, I := range intervals {
			for _, TO := range timeouts {
				gridPairs = append(gridPairs, [2]int{I, TO})
			}
		}
		for _, gp := range gridPairs {
			I, TO := gp[0], gp[1]
			{
				for k := 0; k <= 3; k++ {
					for _, f := range []int{5, 9} {
						for _, last := range []int{-1, 15} {
							c := &caseIn{Kind: "timing", IntervalMs: I, TimeoutMs: TO, SlackMs: *slack, EarlyMs: *early, Rest: -1, BPings: 1, Traffic: k%2 == 1}
							if f == 5 { // half of the grid with a transport whose Close is slow
								c.SlowCloseMs = []int{300, 1000}[k%2]
							}
							for i := 0; i < k; i++ {
								c.Delays = append(c.Delays, frac(TO, f))
							}
							if last < 0 {
								c.Delays = append(c.Delays, -1)
							} else {
								c.Delays = append(c.Delays, frac(TO, last))
							}
							_, mc := expect(c, 1<<20)
							c.HorizonMs = mc + *slack + 100
							add(c, "grid-dead")
						}
					}
				}
			}
		}
		for i := 0; i < ndead; i++ {
			add(genDead(r.Fork(), *slack, *early), "dead")
		}
		genFloods(*slack, *early, add)
		genAliveSlow(*slack, *early, r.Fork(), add)
		genLateAnswers(*slack, *early, add)
		genBursts(*slack, *early, add)
		for i := 0; i < nloud; i++ {
			add(genLoud(r.Fork(), *slack, *early), "loud")
		}
		for i := 0; i < nalive; i++ {
			add(genAlive(r.Fork(), *slack, *early), "alive")
		}
		for i := 0; i < nann; i++ {
			add(genAnnounce(r.Fork(), i), "announce")
		}
	}
	results := make([]obsT, len(jobs))
	run := func(j job) obsT {
		if j.c.Kind == "announce" {
			return runAnnounce(j.c)
		}
		return runTiming(j.c, rng.New(j.seed))
	}
	// longest cases first keeps the 16 lanes busy to the end
	order := make([]int, len(jobs))
	for i := range order {
		order[i] = i
	}
	sem := make(chan struct{}, *par)
	var wg sync.WaitGroup
	for _, i := range order {
		wg.Add(1)
		sem <- struct{}{}
		go func(i int) {
			defer wg.Done()
			defer func() { <-sem }()
			results[i] = run(jobs[i])
			results[i].attempts = 1
		}(i)
	}
	wg.Wait()
	// a case that missed is re-run alone, up to three times; it counts only if it misses every time
	// (at most [retrycap] cases: when more miss than that it is not jitter)
	retried, recovered, missed := 0, 0, 0
	for i := range jobs {
		why := miss(jobs[i].c, &results[i])
		if why == "" {
			continue
		}
		w.Count("first-run-miss:" + why)
		missed++
		if retried >= *retrycap {
			continue
		}
		retried++
		for a := 0; a < 3; a++ {
			o := run(jobs[i])
			o.attempts = results[i].attempts + 1
			results[i] = o
			if miss(jobs[i].c, &o) == "" {
				recovered++
				break
			}
		}
	}
	for i, j := range jobs {
		o := &results[i]
		if strings.HasPrefix(o.direct, "harness:") {
			fmt.Fprintln(os.Stderr, o.direct)
			os.Exit(3)
		}
		nt := false
		if j.c.Kind == "timing" {
			// non-trivial: the broker answered at least one ping in time before the outcome was decided
			nt = len(o.ptimes) >= 2
			w.Count(fmt.Sprintf("I=%d,TO=%d", j.c.IntervalMs, j.c.TimeoutMs))
			w.Count(fmt.Sprintf("pings:%d", len(o.ptimes)))
			if o.closeAt >= 0 {
				w.Count("closed")
			} else {
				w.Count("stayed")
			}
			if j.c.Traffic {
				w.Count("traffic")
			}
		} else {
			nt = j.c.IntervalNs%uint64(time.Second) != 0 || j.c.TimeoutNs%uint64(time.Second) != 0
		}
		if o.attempts > 1 {
			w.Count(fmt.Sprintf("attempts:%d", o.attempts))
		}
		obs := map[string]interface{}{"ping_times": o.ptimes, "pong_times": o.pongs, "ping_ids": o.pids, "close": o.closeAt,
			"broker_pings": o.bpings, "echo": o.echo, "disconnected_event": o.disc, "reconnect": o.reconnect,
			"announced": []uint64{o.annI, o.annT}, "attempts": o.attempts, "request_after_flood_ok": o.reqOK, "recovered": o.recovered, "late_requests_not_abandoned": o.lateErrs, "burst_request_error": o.burstErr, "observed_window_ms": o.horizon}
		w.Add(coqfmt.Case{Term: term(j.c, o), Input: j.c, Observed: obs, Seed: j.seed, Nontrivial: nt, Kind: j.kind, Direct: o.direct})
	}
	rule := "timing: interval {40,80,150} ms x timeout {20,60} ms plus timeout > interval pairs (40,120) (50,150) (and (40,200) (80,200) in alive-slow: every pong of 4-6 or of all pings after 0.6/0.75/0.9 x timeout, longer than the interval, so that pings leave back to back on buffered ticks - the client must stay); the broker answers k=0..5 pings after 0/0.5x/0.9x timeout and then stops or answers after 1.5x timeout (dead), or keeps answering in time (alive), or answers in time while the link dies loudly between two pings or while a pong is under way (loud); inbound flood: the broker sends 1030/1100/2100 (chunks and metadata also 3300) request calls / reply calls / downstream chunks / downstream metadata / upstream chunk acks that the application never consumes (or consumes slowly) while answering every ping at once - the connection must stay for 3 intervals + timeout after the flood and an ordinary request must then succeed; a quarter of the dead and half of the grid-dead cases over a transport whose Close takes 300 ms / 1 s (recovery = disconnected event and second ConnectRequest must come within the bound all the same); dead-stall: after k=0..2 answered pings the broker reads one more ping and then neither answers nor reads (client writes block; transport open) - close, disconnected event and redial within the bound; seconds-alive/seconds-dead: interval/timeout 1 s/1.8 s, 1.5 s/1.5 s with every pong after 1.4 s/1.2 s (stay), 1.2 s/1 s dead after the first pong (configured, untruncated values in the loop); alive-burst: two downstreams and two upstreams open, the application closes a downstream / an upstream (or opens one, sends metadata, sends an e2e call) and the broker sends 12/24/40 frames for that stream and its sibling (chunks, ack-completes, metadata, upstream chunk acks) BETWEEN the request and its answer, which it holds back for 1-2 ping intervals - the request returns nil, the sibling downstream still delivers, an ordinary request follows, the connection stays (exercises the premise that the reader and the dispatchers keep running while a request waits); alive-late-answers: 1/2/4 application requests (metadata, upstream open) abandoned after 30-50 ms and answered by the broker after 150 ms while every ping is answered at once, then an ordinary request; half with concurrent chunk traffic and an open request, 0-2 broker pings per client ping; grid of every (interval, timeout, k<=3, delay, stop/late) plus random. announce: fixed table (1500 ms, 999 ms, 1 s, 2 h, 0 = default, 2^32 s wrap, 2^24 s - 1 ns) plus random durations. non-trivial = at least two pings reached the broker (timing) / a duration that is not a whole number of seconds (announce); distinct = distinct Coq case terms"
	extra := map[string]interface{}{"missed_first_run": missed, "retried": retried, "recovered_on_retry": recovered, "slack_ms": *slack, "early_ms": *early, "guard_ms": *guard, "parallel": *par}
	if err := w.Flush(*seed, *tier, rule, false, extra); err != nil {
		fmt.Fprintln(os.Stderr, err)
		os.Exit(2)
	}
	fmt.Fprintf(os.Stderr, "h-keepalive: %d cases, %d missed in the parallel run, %d re-run, %d recovered on re-run\n", len(jobs), missed, retried, recovered)
}

// h-race: C09 driver.  Builds go/cmd/h-race-workload WITH the race detector against /repo's
// working tree, runs it for a time box and turns every distinct 'WARNING: DATA RACE' report (and
// every 'concurrent map' fatal error) into a Direct violation whose Sig is the pair of innermost
// library frames of the two racing stacks.  The cases are judged in Coq (race_judge_sites over the
// generated known_race_sites / suspected_accesses: a reported race must run through a site the guard map lists or a
// function that accesses a suspected field).
package main

import (
	"bytes"
	"encoding/json"
	"flag"
	"fmt"
	"os"
	"os/exec"
	"path/filepath"
	"regexp"
	"sort"
	"strings"
	"time"

	"verif/internal/coqfmt"
)

type caseIn struct {
	Seed  uint64 `json:"seed"`
	Dur   int    `json:"dur_s"`
	Which string `json:"which"`
	Sig   string `json:"sig,omitempty"` // replay: the race to look for
}

type raceObs struct {
	Count  int      `json:"reports"`
	Kind1  string   `json:"access1,omitempty"`
	Kind2  string   `json:"access2,omitempty"`
	Stack1 []string `json:"stack1,omitempty"`
	Stack2 []string `json:"stack2,omitempty"`
	Ops    string   `json:"ops,omitempty"`
}

const libPrefix = "github.com/aptpod/iscp-go/"

var (
	reFrame = regexp.MustCompile(`(?m)^  (\S+)\(\)\n\s+(\S+):(\d+)`)
	reFunc  = regexp.MustCompile(`\.func(\d+)`)
	reSub   = regexp.MustCompile(`\.(\d+)`)
)

// normalise a Go symbol to the naming of the generated tables: pkg.Type.method$1
func normalise(sym string) string {
	s := strings.TrimPrefix(sym, libPrefix)
	s = strings.ReplaceAll(s, "(*", "")
	s = strings.ReplaceAll(s, ")", "")
	s = reFunc.ReplaceAllString(s, "$$$1")
	// nested literals: f$1.2 -> f$1$2
	for {
		t := regexp.MustCompile(`(\$\d+)\.(\d+)`).ReplaceAllString(s, "$1$$$2")
		if t == s {
			break
		}
		s = t
	}
	if i := strings.Index(s, "["); i >= 0 { // generic instantiation
		s = s[:i]
	}
	return s
}

type report struct {
	kind1, kind2   string
	stack1, stack2 []string // library frames "func file:line", innermost first
	fn1, fn2       []string // normalised function names
}

func libFrames(sec string) (frames, fns []string) {
	for _, m := range reFrame.FindAllStringSubmatch(sec, -1) {
		if strings.HasPrefix(m[1], libPrefix) {
			frames = append(frames, normalise(m[1])+" "+strings.TrimPrefix(m[2], "/repo/")+":"+m[3])
			fns = append(fns, normalise(m[1]))
		}
	}
	return
}

func parse(log string) (reps []report, fatals []string) {
	for _, blk := range strings.Split(log, "WARNING: DATA RACE\n")[1:] {
		if i := strings.Index(blk, "=================="); i >= 0 {
			blk = blk[:i]
		}
		var secs []string
		for _, sec := range strings.Split(blk, "\n\n") {
			t := strings.TrimSpace(sec)
			if strings.HasPrefix(t, "Write at") || strings.HasPrefix(t, "Read at") || strings.HasPrefix(t, "Previous ") ||
				strings.HasPrefix(t, "Atomic ") {
				secs = append(secs, t)
			}
		}
		if len(secs) < 2 {
			continue
		}
		var r report
		r.kind1 = strings.SplitN(secs[0], " at ", 2)[0]
		r.kind2 = strings.SplitN(secs[1], " at ", 2)[0]
		r.stack1, r.fn1 = libFrames(secs[0])
		r.stack2, r.fn2 = libFrames(secs[1])
		reps = append(reps, r)
	}
	for _, blk := range strings.Split(log, "fatal error: concurrent map")[1:] {
		fn := "?"
		if m := regexp.MustCompile(`(?m)^` + regexp.QuoteMeta(libPrefix) + `(.*?)\((?:0x[0-9a-f]|\{|\)|\.\.\.|\?)`).FindStringSubmatch(blk); m != nil {
			fn = normalise(libPrefix + m[1])
		}
		first := strings.SplitN(blk, "\n", 2)[0]
		if fn == "?" && strings.TrimSpace(strings.SplitN(blk, "goroutine", 2)[0]) == strings.TrimSpace(first) && strings.Count(blk, "\n") < 3 {
			continue // two goroutines faulted at once: the runtime printed the headline twice, the trace follows the second
		}
		fatals = append(fatals, fn+"\x00fatal error: concurrent map"+first)
	}
	// a panic that kills the workload process (not a race, reported with its own signature)
	for _, blk := range strings.Split(log, "\npanic: ")[1:] {
		first := strings.SplitN(blk, "\n", 2)[0]
		fn := "?"
		if m := regexp.MustCompile(`(?m)^` + regexp.QuoteMeta(libPrefix) + `(.*?)\((?:0x[0-9a-f]|\{|\)|\.\.\.|\?)`).FindStringSubmatch(blk); m != nil {
			fn = normalise(libPrefix + m[1])
		}
		fatals = append(fatals, "panic:"+fn+"\x00panic: "+first)
	}
	return
}

func top(fns []string) string {
	if len(fns) == 0 {
		return "?"
	}
	return fns[0]
}

// known sites of the guard map (go/cmd/gen-guards/guards.json): the signature of a race is taken at
// the innermost frame that is such a site, so that the many secondary reports of one unsynchronised
// pointer publication (accesses inside the freshly built object) share the signature of their cause
var knownSites = map[string]bool{}

func loadKnown() {
	bs, err := os.ReadFile(filepath.Join(goDir(), "cmd", "gen-guards", "guards.json"))
	if err != nil {
		return
	}
	var gs []struct {
		Known []string `json:"known"`
	}
	if json.Unmarshal(bs, &gs) == nil {
		for _, g := range gs {
			for _, k := range g.Known {
				knownSites[k] = true
			}
		}
	}
}

func site(fns []string) string {
	for _, f := range fns {
		if knownSites[f] {
			return f
		}
	}
	return top(fns)
}

func sigOf(r report) string {
	p := []string{top(r.fn1), top(r.fn2)} // innermost library frames (site() groups by cause but splits by caller: not used)
	sort.Strings(p)
	return "race:" + p[0] + "|" + p[1]
}

func strs(ss []string, max int) string {
	var q []string
	for i, s := range ss {
		if i >= max {
			break
		}
		q = append(q, coqfmt.Str(s))
	}
	return coqfmt.List(q)
}

func goDir() string {
	if _, err := os.Stat("cmd/h-race-workload/main.go"); err == nil {
		d, _ := os.Getwd()
		return d
	}
	exe, _ := os.Executable()
	return filepath.Join(filepath.Dir(exe), "..", "go")
}

func main() {
	seed := flag.Uint64("seed", 1, "seed")
	tier := flag.String("tier", "quick", "quick|thorough")
	out := flag.String("out", "", "output directory")
	replay := flag.String("replay", "", "replay file")
	parseOnly := flag.String("parse", "", "developer aid: judge an existing race.log instead of building and running the workload")
	flag.Parse()
	w := coqfmt.NewWriter(*out, "C09", "From Iscp Require Import Model.LockCfg Model.Lockset Gen.Guards.", "race_case",
		"(race_judge_sites known_race_sites suspected_accesses)", 200)
	in := caseIn{Seed: *seed, Dur: 30, Which: "all"}
	if *tier == "thorough" {
		in.Dur = 600
	}
	if *replay != "" {
		bs, err := os.ReadFile(*replay)
		if err != nil {
			fmt.Fprintln(os.Stderr, err)
			os.Exit(2)
		}
		var rf struct {
			Input caseIn `json:"input"`
		}
		if err := json.Unmarshal(bs, &rf); err != nil {
			fmt.Fprintln(os.Stderr, err)
			os.Exit(2)
		}
		in = rf.Input
		if in.Dur == 0 {
			in.Dur = 30
		}
	}
	loadKnown()
	if err := os.MkdirAll(*out, 0o755); err != nil {
		fmt.Fprintln(os.Stderr, err)
		os.Exit(2)
	}
	bin, _ := filepath.Abs(filepath.Join(*out, "h-race-workload"))
	if *parseOnly == "" {
		build := exec.Command("go", "build", "-race", "-tags", "verif", "-o", bin, "./cmd/h-race-workload")
		build.Dir = goDir()
		build.Env = append(os.Environ(), "GOFLAGS=-mod=mod", "GOPROXY=off")
		if o, err := build.CombinedOutput(); err != nil {
			fmt.Fprintf(os.Stderr, "h-race: building the workload with -race failed: %v\n%s\n", err, o)
			os.Exit(3)
		}
	}
	// run the workload until the time box is used up: the Go runtime aborts the process on a
	// 'concurrent map' fatal error, the workload is then restarted with the next seed
	var buf bytes.Buffer
	var direct0 string
	box := time.Duration(in.Dur) * time.Second
	totalOps := 0
	runRounds := func(which string, box time.Duration, seedOff uint64) {
		t0 := time.Now()
		for round := 0; *parseOnly == ""; round++ {
			left := box - time.Since(t0)
			if left < 3*time.Second && round > 0 {
				break
			}
			if left < 3*time.Second {
				left = 3 * time.Second
			}
			if left > 20*time.Second {
				left = 20 * time.Second
			}
			secs := int(left / time.Second)
			var rb bytes.Buffer
			cmd := exec.Command(bin, "-dur", fmt.Sprint(secs), "-seed", fmt.Sprint(in.Seed+seedOff+uint64(round)*1000003), "-which", which)
			cmd.Env = append(os.Environ(), "GORACE=halt_on_error=0 exitcode=66")
			cmd.Stdout = &rb
			cmd.Stderr = &rb
			done := make(chan error, 1)
			if err := cmd.Start(); err != nil {
				fmt.Fprintln(os.Stderr, "h-race:", err)
				os.Exit(3)
			}
			go func() { done <- cmd.Wait() }()
			select {
			case <-done:
			case <-time.After(left + 40*time.Second):
				cmd.Process.Kill()
				direct0 = "the workload did not finish within its time box + 40 s (killed)"
			}
			buf.Write(rb.Bytes())
			if m := regexp.MustCompile(`WORKLOAD-OPS (\d+)`).FindStringSubmatch(rb.String()); m != nil {
				var n int
				fmt.Sscan(m[1], &n)
				totalOps += n
			}
			if direct0 != "" || (round == 0 && strings.Contains(rb.String(), "workload:") && !strings.Contains(rb.String(), "DATA RACE")) {
				break
			}
		}
	}
	if in.Which == "all" {
		// the NIC manager workload runs in processes of its own (a tenth of the box, at least 3 s)
		nicBox := box / 10
		if nicBox < 3*time.Second {
			nicBox = 3 * time.Second
		}
		runRounds("all", box-nicBox, 0)
		if direct0 == "" {
			runRounds("nic", nicBox, 777)
		}
	} else {
		runRounds(in.Which, box, 0)
	}
	log := buf.String()
	if *parseOnly != "" {
		bs, _ := os.ReadFile(*parseOnly)
		log = string(bs)
		totalOps = 1
	}
	os.WriteFile(filepath.Join(*out, "race.log"), []byte(log), 0o644)
	os.Remove(bin)
	ops := fmt.Sprint(totalOps)
	reps, fatals := parse(log)
	if strings.Contains(log, "workload:") && totalOps == 0 && len(reps) == 0 && len(fatals) == 0 {
		fmt.Fprintln(os.Stderr, "h-race: workload failed to start:", log[:min(len(log), 600)])
		os.Exit(3)
	}
	bySig := map[string][]report{}
	var order []string
	for _, r := range reps {
		s := sigOf(r)
		if _, ok := bySig[s]; !ok {
			order = append(order, s)
		}
		bySig[s] = append(bySig[s], r)
	}
	sort.Strings(order)
	for _, s := range order {
		rs := bySig[s]
		r := rs[0]
		if in.Sig != "" && in.Sig != s {
			continue
		}
		o := raceObs{Count: len(rs), Kind1: r.kind1, Kind2: r.kind2, Stack1: r.stack1, Stack2: r.stack2, Ops: ops}
		ci := in
		ci.Sig = s
		w.Add(coqfmt.Case{
			Term:  fmt.Sprintf("mkRace %s %s %d", strs(r.fn1, 6), strs(r.fn2, 6), len(rs)),
			Input: ci, Observed: o, Seed: in.Seed, Nontrivial: true, Kind: "race", Sig: s,
			Direct: fmt.Sprintf("DATA RACE (%d reports): %s [%s]  vs  %s [%s]", len(rs), r.kind1, strings.Join(r.stack1[:min(len(r.stack1), 3)], " <- "),
				r.kind2, strings.Join(r.stack2[:min(len(r.stack2), 3)], " <- ")),
		})
		w.Count("race")
	}
	fseen := map[string]bool{}
	for _, f := range fatals {
		parts := strings.SplitN(f, "\x00", 2)
		if fseen[parts[0]] {
			continue
		}
		fseen[parts[0]] = true
		sg, fnm := "fatal:concurrent-map:"+parts[0], parts[0]
		if strings.HasPrefix(parts[0], "panic:") {
			fnm = strings.TrimPrefix(parts[0], "panic:")
			sg = "panic:" + fnm
			if fnm == "iscp.Conn.reconnect" {
				sg = "F10:panic-in-Conn.reconnect-when-Close-arrives-during-redial"
			}
		}
		w.Add(coqfmt.Case{Term: fmt.Sprintf("mkRace [%s] [] 1", coqfmt.Str(fnm)), Input: in, Observed: raceObs{Count: 1, Ops: ops, Stack1: []string{fnm}},
			Seed: in.Seed, Nontrivial: true, Kind: "fatal", Sig: sg, Direct: parts[1] + " in " + fnm})
	}
	if direct0 != "" {
		w.Add(coqfmt.Case{Term: "mkRace [] [] 0", Input: in, Observed: raceObs{Ops: ops}, Seed: in.Seed, Kind: "timeout", Direct: direct0,
			Sig: "workload-timeout"})
	}
	// the summary case of the run itself
	w.Add(coqfmt.Case{Term: "mkRace [] [] 0", Input: in, Observed: raceObs{Count: len(reps), Ops: ops}, Seed: in.Seed,
		Nontrivial: totalOps > 0, Kind: "run"})
	w.Count("reports:" + fmt.Sprint(len(reps)))
	rule := "one -race build of the concurrent workloads (one iscp.Conn used by ~14 goroutines: upstreams opened/written/flushed/closed while others carry traffic, State() readers, downstreams opened/read/closed, metadata, e2e calls, loud and silent link failures with reconnect and resume, Close under traffic; transport/reconnect with 4 writers + reader + counters + link cuts; transport/multi with both pollers) run for the time box (quick 30 s, thorough 600 s); one case per distinct race (pair of innermost library frames) + one summary case; non-trivial = the workload performed operations"
	if err := w.Flush(in.Seed, *tier, rule, false, map[string]interface{}{"workload_ops": ops, "race_reports": len(reps), "distinct_races": len(order)}); err != nil {
		fmt.Fprintln(os.Stderr, err)
		os.Exit(2)
	}
}

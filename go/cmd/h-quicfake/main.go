// h-quicfake: correspondence harness for C13 (and the datagram layer around C14's segmenter)
// against Model/Framing.v.  The real transport/quic Transport is driven through the in-memory
// quic.Connection of internal/fakequic: no UDP.  Stream cases: framing bytes, concurrent
// writers, counters.  Datagram cases: the sequence counter shared by Transport.WriteUnreliable
// and every AsUnreliable() handle, reassembly of interleaved segments at the peer, counters.
package main

import (
	"bytes"
	"compress/flate"
	"encoding/binary"
	"encoding/json"
	"flag"
	"fmt"
	"io"
	"os"
	"sync"
	"sync/atomic"
	"time"

	"github.com/aptpod/iscp-go/transport"
	"github.com/aptpod/iscp-go/transport/compress"
	tquic "github.com/aptpod/iscp-go/transport/quic"
	"github.com/aptpod/iscp-go/verifhooks"

	"verif/internal/c13util"
	"verif/internal/coqfmt"
	"verif/internal/fakequic"
	"verif/internal/rng"
)

type op struct {
	Handle int    `json:"h"` // 0 = Transport.WriteUnreliable, k>0 = k-th AsUnreliable() handle
	Msg    []byte `json:"m"`
}

// scribble overwrites a slice over its whole capacity.
func scribble(b []byte, v byte) {
	b = b[:cap(b)]
	for i := range b {
		b[i] = v
	}
}

type caseIn struct {
	Kind    string           `json:"kind"` // "stream" | "dgram"
	Level   *int             `json:"level"`
	Comp    string           `json:"comp"`
	Conn    fakequic.Options `json:"conn"`
	Writers [][][]byte       `json:"writers,omitempty"` // stream
	P       int              `json:"P,omitempty"`       // dgram: segment payload size
	Conc    bool             `json:"conc,omitempty"`
	Ops     []op             `json:"ops,omitempty"`
	Deliver []int            `json:"deliver,omitempty"` // indices into the sent datagrams (sequential cases), order of delivery
	DSeed   uint64           `json:"dseed,omitempty"`   // concurrent cases: seed of the delivery permutation
	Lose    int              `json:"lose,omitempty"`    // concurrent cases: number of datagrams dropped
	// timed cases (timed.go)
	ExpiryMs int      `json:"expiry_ms,omitempty"` // Config.ReadBufferExpiry in ms; 0 = left unset (default)
	Msgs     [][]byte `json:"msgs,omitempty"`      // messages written one after the other with WriteUnreliable
	Sched    [][2]int `json:"sched,omitempty"`     // (ms after the first delivery, index of the sent datagram), in delivery order
}

// watchdog bounds every call into the library. It starts generous (loaded machine) and shrinks once
// calls have expired three times in a run: a change that makes the library hang must not turn the
// whole run into hundreds of full-length waits (each expired call is already a direct violation).
var watchdog = 20 * time.Second
var watchdogExpired int32

func noteExpiry() {
	if atomic.AddInt32(&watchdogExpired, 1) >= 3 {
		watchdog = 500 * time.Millisecond
	}
}

// panicked records a panic raised inside a library call made from a harness goroutine (a data
// race inside the library can corrupt state and panic, e.g. inside compress/flate); the case is
// then a direct violation instead of the death of the harness.
var panicked atomic.Value

func catchPanic() {
	if r := recover(); r != nil {
		panicked.Store(fmt.Sprintf("panic in a library call: %v", r))
	}
}

func guarded(f func()) bool {
	done := make(chan struct{})
	go func() { defer close(done); defer catchPanic(); f() }()
	select {
	case <-done:
		return true
	case <-time.After(watchdog):
		noteExpiry()
		return false
	}
}

func compOn(ci *caseIn) bool { return ci.Level != nil && *ci.Level != 0 }

func inflate(b []byte) ([]byte, bool) {
	rd := bytes.NewReader(b)
	out, err := io.ReadAll(flate.NewReader(rd))
	if err != nil || rd.Len() != 0 {
		return nil, false
	}
	return out, true
}

// independent parser of the documented framing: 4-byte big-endian length, payload
func parseStream(s []byte) (frames [][]byte, clean bool) {
	for len(s) > 0 {
		if len(s) < 4 {
			return frames, false
		}
		n := int(binary.BigEndian.Uint32(s[:4]))
		if len(s)-4 < n {
			return frames, false
		}
		frames = append(frames, s[4:4+n])
		s = s[4+n:]
	}
	return frames, true
}

func newPair(ci *caseIn) (a, b *fakequic.Conn, ta, tb *tquic.Transport, err error) {
	a, b = fakequic.Pair(ci.Conn)
	np := tquic.NegotiationParams{NegotiationParams: transport.NegotiationParams{Compress: compress.Type(ci.Comp), CompressLevel: ci.Level}}
	cfg := func(c *fakequic.Conn) tquic.Config {
		return tquic.Config{Connection: c, QueueSize: 4096, ReadBufferExpiry: time.Hour, NegotiationParams: np}
	}
	if ta, err = tquic.New(cfg(a)); err != nil {
		return
	}
	tb, err = tquic.New(cfg(b))
	return
}

func runStream(ci *caseIn) (string, map[string]interface{}, string) {
	a, _, ta, tb, err := newPair(ci)
	if err != nil {
		return "", nil, "quic.New failed on the fake connection: " + err.Error()
	}
	defer ta.Close()
	defer tb.Close()
	var mu sync.Mutex
	werrs := 0
	total := 0
	for _, w := range ci.Writers {
		total += len(w)
	}
	if !guarded(func() {
		var wg sync.WaitGroup
		for w := range ci.Writers {
			wg.Add(1)
			go func(w int) {
				defer catchPanic()
				defer wg.Done()
				for _, m := range ci.Writers[w] {
					// caller discipline: the buffer is the caller's again when Write has returned
					buf := append(make([]byte, 0, len(m)+16), m...)
					if err := ta.Write(buf); err != nil {
						mu.Lock()
						werrs++
						mu.Unlock()
					}
					scribble(buf, 0x5A)
				}
			}(w)
		}
		wg.Wait()
	}) {
		return "", nil, "Transport.Write did not return within the watchdog"
	}
	var stream []byte
	for _, w := range a.Writes() {
		stream = append(stream, w...)
	}
	frames, clean := parseStream(stream)
	var decT []string
	for _, f := range frames {
		if compOn(ci) {
			out, ok := inflate(f)
			decT = append(decT, c13util.OptBytes(out, ok))
		} else {
			decT = append(decT, c13util.OptBytes(f, true))
		}
	}
	// the peer reads as many messages as complete frames are on the stream
	// caller discipline: a returned message is compared at once (snapshot) and then either used as
	// scratch space over its whole capacity or retained and looked at again at the end of the case
	var readsT []string
	var snaps, kept [][]byte
	failedRead := false
	nread := 0
	if !guarded(func() {
		for range frames {
			m, err := tb.Read()
			if err != nil {
				failedRead = true
				break
			}
			nread++
			snaps = append(snaps, append([]byte{}, m...))
			if ci.Conn.Seed&1 == 0 {
				scribble(m, 0xA5)
				kept = append(kept, nil)
			} else {
				kept = append(kept, m)
			}
		}
	}) {
		return "", nil, "Transport.Read did not return within the watchdog"
	}
	retainedChanged := 0
	for i := range snaps {
		if kept[i] != nil && !bytes.Equal(kept[i], snaps[i]) {
			retainedChanged++
			snaps[i] = append([]byte{}, kept[i]...) // reported as it is NOW
		}
		readsT = append(readsT, c13util.OptBytes(snaps[i], true))
	}
	if failedRead {
		readsT = append(readsT, "None")
	}
	tx, rx := ta.TxBytesCounterValue(), tb.RxBytesCounterValue()
	var wsT []string
	for _, w := range ci.Writers {
		wsT = append(wsT, c13util.BytesList(w))
	}
	term := fmt.Sprintf("QStream %s %s %s %s %s %s %d %d", coqfmt.Bool(compOn(ci)), coqfmt.List(wsT), coqfmt.Bytes(stream),
		coqfmt.List(decT), coqfmt.Bool(clean), coqfmt.List(readsT), tx, rx)
	obs := map[string]interface{}{"stream_bytes": len(stream), "frames": len(frames), "clean": clean, "reads": nread,
		"written": total, "write_errors": werrs, "tx": tx, "rx": rx, "retained_messages_changed_after_read": retainedChanged}
	return term, obs, ""
}

func runDgram(ci *caseIn) (string, map[string]interface{}, string) {
	restore := verifhooks.SegmentSetMaxPayloadSize(ci.P)
	defer restore()
	a, b, ta, tb, err := newPair(ci)
	if err != nil {
		return "", nil, "quic.New failed on the fake connection: " + err.Error()
	}
	defer ta.Close()
	defer tb.Close()
	nh := 0
	for _, o := range ci.Ops {
		if o.Handle > nh {
			nh = o.Handle
		}
	}
	handles := make([]transport.UnreliableTransport, nh+1)
	for k := 1; k <= nh; k++ {
		h, ok := ta.AsUnreliable()
		if !ok {
			return "", nil, "AsUnreliable returned false on a QUIC transport"
		}
		handles[k] = h
	}
	write := func(o op) error {
		buf := append(make([]byte, 0, len(o.Msg)+16), o.Msg...)
		defer scribble(buf, 0x5A) // the caller reuses its buffer as soon as the write has returned
		if o.Handle == 0 {
			return ta.WriteUnreliable(buf)
		}
		return handles[o.Handle].Write(buf)
	}
	werrs := 0
	var mu sync.Mutex
	if !guarded(func() {
		if !ci.Conc {
			for _, o := range ci.Ops {
				if err := write(o); err != nil {
					werrs++
				}
			}
			return
		}
		// concurrent: one goroutine per handle, each issuing its own operations in order
		var wg sync.WaitGroup
		for k := 0; k <= nh; k++ {
			wg.Add(1)
			go func(k int) {
				defer wg.Done()
				defer catchPanic()
				for _, o := range ci.Ops {
					if o.Handle != k {
						continue
					}
					if err := write(o); err != nil {
						mu.Lock()
						werrs++
						mu.Unlock()
					}
				}
			}(k)
		}
		wg.Wait()
	}) {
		return "", nil, "unreliable Write did not return within the watchdog"
	}
	sent := a.Datagrams()
	// independent grouping by sequence number, in order of first appearance
	var seqs []uint32
	groups := map[uint32][]byte{}
	for _, d := range sent {
		if len(d) < 8 {
			continue
		}
		s := binary.BigEndian.Uint32(d[:4])
		if _, ok := groups[s]; !ok {
			seqs = append(seqs, s)
			groups[s] = []byte{}
		}
		groups[s] = append(groups[s], d[8:]...)
	}
	var paysT []string
	for _, s := range seqs {
		if compOn(ci) {
			out, ok := inflate(groups[s])
			paysT = append(paysT, c13util.OptBytes(out, ok))
		} else {
			paysT = append(paysT, c13util.OptBytes(groups[s], true))
		}
	}
	// delivery order
	var order []int
	if ci.Conc {
		r := rng.New(ci.DSeed)
		order = r.Perm(len(sent))
		if ci.Lose < len(order) {
			order = order[:len(order)-ci.Lose]
		}
	} else {
		for _, k := range ci.Deliver {
			if k < len(sent) {
				order = append(order, k)
			}
		}
	}
	var delivered [][]byte
	for _, k := range order {
		delivered = append(delivered, sent[k])
		b.Deliver(sent[k])
	}
	// wait until the receiving goroutine has consumed every delivered datagram
	deadline := time.Now().Add(watchdog)
	for b.ReceiveCalls() < int64(len(delivered))+1 {
		if time.Now().After(deadline) {
			noteExpiry()
			return "", nil, "the datagram receive loop did not consume the delivered datagrams within the watchdog"
		}
		time.Sleep(50 * time.Microsecond)
	}
	rxAfter := tb.RxBytesCounterValue()
	// collect what the peer hands up: completed messages were queued (queue size 4096) before the
	// loop asked for the next datagram; closing the transport ends the queue after them
	hb, _ := tb.AsUnreliable()
	tb.Close()
	var reads, keptD [][]byte
	if !guarded(func() {
		for {
			m, err := hb.Read()
			if err != nil {
				return
			}
			reads = append(reads, append([]byte{}, m...))
			if ci.Conn.Seed&1 == 0 {
				scribble(m, 0xA5)
				keptD = append(keptD, nil)
			} else {
				keptD = append(keptD, m)
			}
		}
	}) {
		return "", nil, "unreliable Read did not return within the watchdog after Close"
	}
	for i := range reads {
		if keptD[i] != nil && !bytes.Equal(keptD[i], reads[i]) {
			reads[i] = append([]byte{}, keptD[i]...) // a retained message is reported as it is NOW
		}
	}
	tx := ta.TxBytesCounterValue()
	var htxT []string
	for k := 1; k <= nh; k++ {
		htxT = append(htxT, coqfmt.Pair(coqfmt.N(uint64(k)), coqfmt.N(handles[k].TxBytesCounterValue())))
	}
	var opsT []string
	for _, o := range ci.Ops {
		opsT = append(opsT, coqfmt.Pair(coqfmt.N(uint64(o.Handle)), coqfmt.Bytes(o.Msg)))
	}
	term := fmt.Sprintf("QDgram %d %s %s %s %s %s %s %s %d %d %s", ci.P, coqfmt.Bool(compOn(ci)), coqfmt.Bool(ci.Conc),
		coqfmt.List(opsT), c13util.BytesList(sent), coqfmt.List(paysT), c13util.BytesList(delivered), c13util.BytesList(reads),
		tx, rxAfter, coqfmt.List(htxT))
	var seqList []uint32
	seqList = append(seqList, seqs...)
	obs := map[string]interface{}{"datagrams": len(sent), "sequence_numbers": seqList, "delivered": len(delivered), "reads": len(reads),
		"write_errors": werrs, "tx": tx, "rx": rxAfter}
	return term, obs, ""
}

func runCase(ci *caseIn) (string, map[string]interface{}, string) {
	var term, direct string
	var obs map[string]interface{}
	func() {
		defer func() {
			if r := recover(); r != nil {
				direct = fmt.Sprintf("panic: %v", r)
			}
		}()
		if ci.Kind == "stream" {
			term, obs, direct = runStream(ci)
		} else if ci.Kind == "timed" {
			res := runTimedBatch([]*caseIn{ci})[0]
			term, obs, direct = res.term, res.obs, res.direct
		} else {
			term, obs, direct = runDgram(ci)
		}
	}()
	if v := panicked.Swap(""); v != nil && v.(string) != "" {
		direct = v.(string)
	}
	return term, obs, direct
}

// ---- generators ----

func ip(v int) *int { return &v }

func genLevel(r *rng.R, ci *caseIn) {
	switch r.Intn(5) {
	case 0:
		ci.Level = nil
	case 1:
		ci.Level = ip(0)
	case 2:
		ci.Level = ip(1 + r.Intn(9))
	default: // mostly off: then the model predicts every byte
		ci.Level = nil
	}
	ci.Comp = []string{"", "per-message", "context-takeover"}[r.Intn(3)]
}

// quickTier shrinks the volume of case terms (Coq parses ~100 kB/s): shorter messages, the
// 255..257 boundary sizes and the large sizes less often, fewer cases.  Thorough keeps the lot.
var quickTier = true

func genMsg(r *rng.R, tag int, maxLen int) []byte {
	var n int
	switch r.Intn(6) {
	case 0:
		n = 0
	case 1:
		n = 1 + r.Intn(4)
	case 2:
		n = []int{255, 256, 257}[r.Intn(3)]
		if quickTier && maxLen < 255 && !r.Chance(1, 4) {
			n = r.Intn(maxLen + 1)
		} else if maxLen < n {
			maxLen = n
		}
	default:
		n = r.Intn(maxLen + 1)
	}
	if n > maxLen {
		n = maxLen
	}
	if tag > 0 && n == 0 {
		n = 1
	}
	m := r.Bytes(n)
	if r.Chance(1, 3) { // repetitive content (matters when compression is on)
		for i := range m {
			m[i] = byte("abcab"[i%5])
		}
	}
	if n > 0 && tag >= 0 {
		m[0] = byte(tag)
	}
	if r.Chance(1, 6) && n >= 8 { // payload that looks like a length prefix
		binary.BigEndian.PutUint32(m[1:5], uint32(r.Intn(300)))
	}
	return m
}

func genStream(r *rng.R) (*caseIn, string, bool) {
	ci := &caseIn{Kind: "stream"}
	genLevel(r, ci)
	k := 1
	if r.Chance(1, 2) {
		k = 2 + r.Intn(3)
	}
	for w := 0; w < k; w++ {
		n := 1 + r.Intn(7)
		var ms [][]byte
		maxLen, bigLen, bigOneIn := 300, 5000, 40
		if quickTier {
			maxLen, bigLen, bigOneIn = 90, 1500, 80
		}
		for i := 0; i < n; i++ {
			ms = append(ms, genMsg(r, w, maxLen))
		}
		if r.Chance(1, bigOneIn) {
			ms = append(ms, genMsg(r, w, bigLen))
		}
		ci.Writers = append(ci.Writers, ms)
	}
	ci.Conn = fakequic.Options{Yield: k > 1, ReadChunk: []int{0, 1, 3, 5, 64}[r.Intn(5)], Seed: r.U64()}
	kind := "stream-seq"
	if k > 1 {
		kind = "stream-concurrent"
	}
	if compOn(ci) {
		kind += "-compressed"
	}
	return ci, kind, k > 1 || len(ci.Writers[0]) >= 3
}

// genStreamLarge: 3-4 concurrent writers, compression off; writer 0 writes one message of
// 16385..16500 bytes between two small ones while the others write 25-35 small messages each.
func genStreamLarge(r *rng.R) (*caseIn, string, bool) {
	ci := &caseIn{Kind: "stream"}
	k := 3 + r.Intn(2)
	big := r.Bytes([]int{16385, 16390, 16500}[r.Intn(3)])
	for i := range big { // one-digit byte values: the Coq term of the case is half as long
		big[i] %= 10
	}
	big[0] = 0
	ci.Writers = append(ci.Writers, [][]byte{genMsg(r, 0, 20), big, genMsg(r, 0, 20)})
	for w := 1; w < k; w++ {
		var ms [][]byte
		n := 25 + r.Intn(11)
		for i := 0; i < n; i++ {
			ms = append(ms, genMsg(r, w, 8))
		}
		ci.Writers = append(ci.Writers, ms)
	}
	ci.Conn = fakequic.Options{Yield: true, YieldAll: true, ReadChunk: []int{0, 64}[r.Intn(2)], Seed: r.U64()}
	return ci, "stream-concurrent-large", true
}

func genDgram(r *rng.R) (*caseIn, string, bool) {
	ci := &caseIn{Kind: "dgram", P: 1 + r.Intn(8)}
	genLevel(r, ci)
	if (quickTier && r.Chance(1, 40)) || (!quickTier && r.Chance(1, 12)) {
		ci.P = 1188
	}
	nh := r.Intn(4) // number of AsUnreliable() handles
	n := 2 + r.Intn(6)
	multi := false
	for i := 0; i < n; i++ {
		var size int
		if r.Chance(2, 3) {
			c := []int{0, 1, ci.P - 1, ci.P, ci.P + 1, 2 * ci.P, 2*ci.P + 1, 3 * ci.P, 4*ci.P + 1}
			size = c[r.Intn(len(c))]
		} else {
			size = r.Intn(5*ci.P + 2)
		}
		if ci.P == 1188 && size > 3*ci.P {
			size = 3 * ci.P
		}
		if quickTier && ci.P == 1188 && (size > ci.P+1 || i >= 3) {
			// the default payload size: keep the case term small (one two-segment message at most)
			size = []int{0, 1, 7, ci.P + 1}[r.Intn(3+map[bool]int{true: 0, false: 1}[multi])]
		}
		m := r.Bytes(size)
		if len(m) > 0 {
			m[0] = byte(i) // messages pairwise distinct
		} else if i > 0 {
			m = []byte{byte(i)}
		}
		if len(m) > ci.P {
			multi = true
		}
		ci.Ops = append(ci.Ops, op{Handle: r.Intn(nh + 1), Msg: m})
	}
	ci.Conc = nh > 0 && r.Chance(1, 3)
	ci.Conn = fakequic.Options{Yield: ci.Conc, Seed: r.U64()}
	kind := "dgram-seq"
	if ci.Conc {
		kind = "dgram-concurrent"
		ci.DSeed = r.U64()
		if r.Chance(1, 4) {
			ci.Lose = 1 + r.Intn(2)
		}
	} else {
		// number of datagrams is known only after the run for compressed payloads; ask for a
		// permutation of a generous index range, indices beyond the end are skipped
		total := 0
		for _, o := range ci.Ops {
			total += len(o.Msg)/ci.P + 2
		}
		if compOn(ci) {
			total += 40 * len(ci.Ops)
		}
		ci.Deliver = r.Perm(total)
		if r.Chance(1, 4) { // loss
			ci.Deliver = ci.Deliver[:len(ci.Deliver)-1-r.Intn(3)]
		}
		if r.Chance(1, 5) { // in order
			for i := range ci.Deliver {
				ci.Deliver[i] = i
			}
		}
	}
	if compOn(ci) {
		kind += "-compressed"
	}
	return ci, kind, multi && nh > 0
}

func main() {
	seed := flag.Uint64("seed", 1, "seed")
	tier := flag.String("tier", "quick", "quick|thorough")
	only := flag.String("only", "", "stream|dgram: generate only that kind of case (default both); the random stream is the same as in a full run")
	out := flag.String("out", "", "output directory")
	replay := flag.String("replay", "", "replay file (JSON with an 'input' field)")
	flag.Parse()
	w := coqfmt.NewWriter(*out, "C13", "From Iscp Require Import Model.Segment Model.Framing.", "qf_case", "qf_judge", 30)
	empty := "QStream false [] [] [] true [] 0 0"
	var pre *timedRes // a result computed beforehand (timed batch)
	add := func(ci *caseIn, kind string, nt bool) {
		var term, direct string
		var obs map[string]interface{}
		if pre != nil {
			term, obs, direct = pre.term, pre.obs, pre.direct
		} else {
			term, obs, direct = runCase(ci)
		}
		c := coqfmt.Case{Term: term, Input: ci, Observed: obs, Nontrivial: nt, Kind: kind, Direct: direct}
		if direct != "" {
			c.Term = empty
		}
		w.Add(c)
		if ci.Kind == "timed" {
			w.Count(fmt.Sprintf("timed-expiry-ms:%d", ci.ExpiryMs))
		} else if ci.Kind == "dgram" {
			w.Count(fmt.Sprintf("dgram-P:%d", ci.P))
			hs := map[int]bool{}
			for _, o := range ci.Ops {
				hs[o.Handle] = true
			}
			w.Count(fmt.Sprintf("dgram-distinct-handles:%d", len(hs)))
		} else {
			w.Count(fmt.Sprintf("stream-writers:%d", len(ci.Writers)))
		}
	}
	if *replay != "" {
		b, err := os.ReadFile(*replay)
		if err != nil {
			fmt.Fprintln(os.Stderr, err)
			os.Exit(2)
		}
		var rf struct {
			Input caseIn `json:"input"`
		}
		if err := json.Unmarshal(b, &rf); err != nil {
			fmt.Fprintln(os.Stderr, err)
			os.Exit(2)
		}
		add(&rf.Input, "replay", true)
		if err := w.Flush(*seed, *tier, "replay of one recorded case", false, nil); err != nil {
			fmt.Fprintln(os.Stderr, err)
			os.Exit(2)
		}
		return
	}
	r := rng.New(*seed)
	nS, nD := 260, 340
	quickTier = *tier != "thorough"
	if *tier == "thorough" {
		nS, nD = 5000, 6000
	}
	if *only != "" && *only != "stream" && *only != "dgram" {
		fmt.Fprintln(os.Stderr, "-only must be stream or dgram")
		os.Exit(2)
	}
	for i := 0; i < nS; i++ {
		cr := r.Fork() // forked even when skipped: -only dgram sees the cases of a full run
		if *only == "dgram" {
			continue
		}
		ci, kind, nt := genStream(cr)
		add(ci, kind, nt)
	}
	for i := 0; i < nD; i++ {
		cr := r.Fork()
		if *only == "stream" {
			continue
		}
		ci, kind, nt := genDgram(cr)
		add(ci, kind, nt)
	}
	// timed datagram cases (real-time arrival against the cleaner and the expiry): one concurrent batch
	if *only != "stream" {
		fams := []int{0, 0, 0, 0, 0, 0, 0, 0, 1, 1, 1, 1, 1, 1, 1, 1, 2, 2, 2, 2, 2, 3, 3, 3}
		if *tier == "thorough" {
			for i := 0; i < 4; i++ {
				fams = append(fams, fams[:24]...)
			}
			fams = append(fams, 4, 4, 5, 5)
		}
		var cis []*caseIn
		var kinds []string
		for _, f := range fams {
			ci, kind := genTimed(r.Fork(), f)
			cis = append(cis, ci)
			kinds = append(kinds, kind)
		}
		t0 := time.Now()
		results := runTimedBatch(cis)
		w.Count(fmt.Sprintf("timed-batch-wall-s:%d", int(time.Since(t0).Seconds()+0.5)))
		for i := range cis {
			pre = &results[i]
			add(cis[i], kinds[i], true)
		}
		pre = nil
	}
	// concurrent writers with ONE frame above 16 KiB between many small ones (compression off, the
	// fake stream sleeps before every Write takes the wire): a writer that puts prefix and payload on the stream
	// in two Write calls without excluding the other writers shows at once.  Large terms: few
	// cases, own generator stream (the cases above are those of earlier versions).
	if *only != "dgram" {
		nL := 1
		if *tier == "thorough" {
			nL = 12
		}
		lr := rng.New(*seed ^ 0x6c617267656d7367)
		for i := 0; i < nL; i++ {
			ci, kind, nt := genStreamLarge(lr.Fork())
			add(ci, kind, nt)
		}
	}
	rule := "caller discipline in every case: buffers passed to Write/WriteUnreliable are overwritten when the call has returned, returned messages are compared at once and then overwritten over their capacity (even conn seed) or retained and compared again at the end (odd conn seed); stream: 1-4 writer goroutines x 1-7 messages (sizes 0, 1-4, 255-257, random <=300, rarely <=5000 - quick tier: random <=90, 255-257 in 1/24 of the messages, rarely <=1500; payloads that look like length prefixes), fake send stream that yields between Write calls, receive stream handing out 1/3/5/64-byte or unlimited chunks, compression negotiated in ~1/5 of the cases; dgram: 2-7 messages over Transport.WriteUnreliable and 0-3 AsUnreliable() handles, payload size 1-8 (and the default 1188), sizes at multiples of P +-1, sequential or one goroutine per handle, delivery in a random permutation with loss 1/4; timed (real-time arrival, payload size 4, one concurrent batch): 1-2 messages of 1-4 segments, the segments of one message spread over 1.2-2.5 s across cleaner ticks with Config.ReadBufferExpiry left unset (8 cases) or set to 2 s / 3 s with every gap >= 0.6 s below it (8), expiry 1 s with a gap of >= 2.8 s inside the message (5), expiry 1 s with a gap in the grey zone 1.1-2.4 s (3; predicate only), thorough also the unset expiry against gaps of 8.5 s and 12.5 s. non-trivial = concurrent stream writers or >=3 messages; datagram: a multi-segment message and more than one handle; distinct = distinct Coq case terms; stream-concurrent-large (1 quick / 12 thorough, own generator stream): 3-4 concurrent writers, compression off, the fake stream sleeps 50 us before every Write takes the wire, writer 0 writes one message of 16385/16390/16500 bytes between small ones while the others write 25-35 messages of <=8 bytes"
	if *only != "" {
		rule = "(-only " + *only + ") " + rule
	}
	if err := w.Flush(*seed, *tier, rule, false, nil); err != nil {
		fmt.Fprintln(os.Stderr, err)
		os.Exit(2)
	}
}

// Timed datagram cases (C14 over transport/quic): arrival in REAL time, so that the transport's
// cleaner goroutine (RemoveExpired every second) and the read-buffer expiry matter.  The harness
// owns the arrival time of every datagram (fakequic.Conn.Deliver).  Three families:
//   - the DEFAULT configuration (Config.ReadBufferExpiry unset - what quic.Dialer does; documented
//     default 10 s): the segments of a message are spread over 1.2-2.5 s, i.e. across at least one
//     cleaner tick and far inside the expiry -> the message must be handed up intact;
//   - an explicit expiry of 2 s or 3 s, every gap between two segments of a message at least 0.6 s
//     shorter than the expiry -> same;
//   - an explicit expiry of 1 s and a gap of >= 2.8 s inside a message (expiry + one cleaner
//     interval + slack) -> that message must not be handed up at all - never partially, never
//     mixed - while a message arriving back to back in the same case is.
// A few cases sit in the grey zone between (judged by the predicate only: exactly or not at all).
// All timed cases of a run execute concurrently, each on its own pair of transports, with one
// common segment payload size (the hook is a package variable): the batch costs its longest
// schedule, ~3 s in the quick tier.
package main

import (
	"bytes"
	"fmt"
	"sort"
	"sync"
	"time"

	tquic "github.com/aptpod/iscp-go/transport/quic"
	"github.com/aptpod/iscp-go/verifhooks"

	"verif/internal/c13util"
	"verif/internal/coqfmt"
	"verif/internal/fakequic"
	"verif/internal/rng"
)

const timedP = 4              // segment payload size of every timed case
const defaultExpiryMs = 10000 // the documented default (Model/Framing.v default_read_buffer_expiry_ms)

type timedRes struct {
	term   string
	obs    map[string]interface{}
	direct string
}

// runTimed runs one timed case; the payload-size hook must already be set to ci.P.
func runTimed(ci *caseIn) (res timedRes) {
	defer func() {
		if r := recover(); r != nil {
			res = timedRes{direct: fmt.Sprintf("panic: %v", r)}
		}
	}()
	a, b := fakequic.Pair(fakequic.Options{Seed: ci.Conn.Seed})
	cfg := func(c *fakequic.Conn) tquic.Config {
		// ExpiryMs 0 = the field is left unset
		return tquic.Config{Connection: c, QueueSize: 4096, ReadBufferExpiry: time.Duration(ci.ExpiryMs) * time.Millisecond}
	}
	ta, err := tquic.New(cfg(a))
	if err != nil {
		return timedRes{direct: "quic.New failed on the fake connection: " + err.Error()}
	}
	defer ta.Close()
	tb, err := tquic.New(cfg(b))
	if err != nil {
		return timedRes{direct: "quic.New failed on the fake connection: " + err.Error()}
	}
	defer tb.Close()
	werrs := 0
	if !guarded(func() {
		for _, m := range ci.Msgs {
			buf := append(make([]byte, 0, len(m)+16), m...)
			if err := ta.WriteUnreliable(buf); err != nil {
				werrs++
			}
			scribble(buf, 0x5A)
		}
	}) {
		return timedRes{direct: "WriteUnreliable did not return within the watchdog"}
	}
	sent := a.Datagrams()
	start := time.Now()
	delivered := 0
	var lateMs int64
	for _, e := range ci.Sched {
		at := start.Add(time.Duration(e[0]) * time.Millisecond)
		if d := time.Until(at); d > 0 {
			time.Sleep(d)
		}
		if l := time.Since(at).Milliseconds(); l > lateMs {
			lateMs = l
		}
		if e[1] < len(sent) {
			b.Deliver(sent[e[1]])
			delivered++
		}
	}
	deadline := time.Now().Add(watchdog)
	for b.ReceiveCalls() < int64(delivered)+1 {
		if time.Now().After(deadline) {
			return timedRes{direct: "the datagram receive loop did not consume the delivered datagrams within the watchdog"}
		}
		time.Sleep(200 * time.Microsecond)
	}
	hb, _ := tb.AsUnreliable()
	tb.Close()
	var reads [][]byte
	if !guarded(func() {
		for {
			m, err := hb.Read()
			if err != nil {
				return
			}
			reads = append(reads, append([]byte{}, m...))
			scribble(m, 0xA5)
		}
	}) {
		return timedRes{direct: "unreliable Read did not return within the watchdog after Close"}
	}
	ex := ci.ExpiryMs
	if ex == 0 {
		ex = defaultExpiryMs
	}
	var schedT []string
	for _, e := range ci.Sched {
		schedT = append(schedT, coqfmt.Pair(coqfmt.N(uint64(e[0])), coqfmt.N(uint64(e[1]))))
	}
	term := fmt.Sprintf("QTimed %d %s %d %s %s %s %s", ci.P, coqfmt.Bool(ci.ExpiryMs == 0), ex,
		c13util.BytesList(ci.Msgs), c13util.BytesList(sent), coqfmt.List(schedT), c13util.BytesList(reads))
	whole := 0
	for _, r := range reads {
		for _, m := range ci.Msgs {
			if bytes.Equal(r, m) {
				whole++
				break
			}
		}
	}
	obs := map[string]interface{}{"datagrams": len(sent), "delivered": delivered, "messages": len(ci.Msgs), "reads": len(reads),
		"reads_that_are_a_written_message": whole, "write_errors": werrs, "expiry_in_force_ms": ex,
		"expiry_left_unset": ci.ExpiryMs == 0, "max_delivery_lateness_ms": lateMs}
	return timedRes{term: term, obs: obs}
}

// runTimedBatch runs the cases concurrently under one setting of the payload-size hook.
func runTimedBatch(cis []*caseIn) []timedRes {
	restore := verifhooks.SegmentSetMaxPayloadSize(timedP)
	defer restore()
	out := make([]timedRes, len(cis))
	var wg sync.WaitGroup
	for i := range cis {
		wg.Add(1)
		go func(i int) {
			defer wg.Done()
			out[i] = runTimed(cis[i])
		}(i)
	}
	wg.Wait()
	return out
}

// genTimed: fam 0 default config, 1 explicit 2 s / 3 s, 2 explicit 1 s with a long gap, 3 grey zone,
// 4 (thorough) default config with a gap of 8.5 s, 5 (thorough) default config with a gap of 12.5 s.
func genTimed(r *rng.R, fam int) (*caseIn, string) {
	ci := &caseIn{Kind: "timed", P: timedP, Conn: fakequic.Options{Seed: r.U64()}}
	kind := ""
	// the spread message: 2-4 segments
	nseg := 2 + r.Intn(3)
	mkMsg := func(tag, segs int) []byte {
		// the sender emits len/P + 1 datagrams (the last one may be empty)
		n := (segs-1)*timedP + r.Intn(timedP)
		if n == 0 {
			n = 1
		}
		m := r.Bytes(n)
		m[0] = byte(tag)
		return m
	}
	var gaps []int // gaps between consecutive segments (in delivery order) of message 0
	switch fam {
	case 0:
		kind = "timed-default-expiry-spread"
		gaps = spreadGaps(r, nseg, 1200, 2500, 100000)
	case 1:
		ci.ExpiryMs = []int{2000, 3000}[r.Intn(2)]
		kind = fmt.Sprintf("timed-expiry-%dms-spread", ci.ExpiryMs)
		gaps = spreadGaps(r, nseg, 1200, 2500, ci.ExpiryMs-600)
	case 2:
		ci.ExpiryMs = 1000
		kind = "timed-expiry-1000ms-exceeded"
		gaps = make([]int, nseg-1)
		for i := range gaps {
			gaps[i] = r.Intn(30)
		}
		gaps[r.Intn(len(gaps))] = 2800 + r.Intn(150)
	case 3:
		ci.ExpiryMs = 1000
		kind = "timed-expiry-1000ms-grey-zone"
		gaps = make([]int, nseg-1)
		for i := range gaps {
			gaps[i] = r.Intn(30)
		}
		gaps[r.Intn(len(gaps))] = 1100 + r.Intn(1300)
	case 4:
		kind = "timed-default-expiry-8500ms-gap"
		nseg = 2
		gaps = []int{8500}
	default:
		kind = "timed-default-expiry-12500ms-gap"
		nseg = 2
		gaps = []int{12500}
	}
	ci.Msgs = append(ci.Msgs, mkMsg(0, nseg))
	// a second message arriving back to back somewhere in the middle (other traffic; must be delivered)
	second := r.Chance(2, 3) || fam == 2 || fam == 5
	if second {
		ci.Msgs = append(ci.Msgs, mkMsg(1, 1+r.Intn(3)))
	}
	// datagram indices: message 0 occupies 0..nseg-1, message 1 the rest
	segs0 := r.Perm(nseg) // arrival order of message 0's segments
	type ev struct{ t, idx int }
	var evs []ev
	t := 0
	for i, s := range segs0 {
		if i > 0 {
			t += gaps[i-1]
		}
		evs = append(evs, ev{t, s})
	}
	if second {
		n1 := len(ci.Msgs[1])/timedP + 1
		at := r.Intn(t + 1)
		for j, s := range r.Perm(n1) {
			evs = append(evs, ev{at + j, nseg + s})
		}
	}
	sort.SliceStable(evs, func(i, j int) bool { return evs[i].t < evs[j].t })
	for _, e := range evs {
		ci.Sched = append(ci.Sched, [2]int{e.t, e.idx})
	}
	return ci, kind
}

// spreadGaps: n-1 gaps whose sum lies in [lo, hi] and each of which is at most maxGap.
func spreadGaps(r *rng.R, n, lo, hi, maxGap int) []int {
	for {
		total := lo + r.Intn(hi-lo+1)
		g := make([]int, n-1)
		left := total
		for i := range g {
			if i == len(g)-1 {
				g[i] = left
			} else {
				g[i] = left / (len(g) - i) * (50 + r.Intn(100)) / 100
				left -= g[i]
			}
		}
		ok := true
		for _, x := range g {
			if x > maxGap || x < 0 {
				ok = false
			}
		}
		if ok {
			return g
		}
	}
}

//go:build nhooyr

// WebSocket backend nhooyr.io/websocket (build tag nhooyr, wire/enable_nhooyr.go).
package main

import (
	"net/http"

	tws "github.com/aptpod/iscp-go/transport/websocket"
	"github.com/aptpod/iscp-go/transport/websocket/nhooyr" // its init registers the dial function
	nws "nhooyr.io/websocket"
)

const wsBackend = "nhooyr"

// server side as in transport/websocket/nhooyr/transport_test.go (read limit lifted: harness side)
func wsAccept(w http.ResponseWriter, r *http.Request) (tws.Conn, error) {
	c, err := nws.Accept(w, r, &nws.AcceptOptions{InsecureSkipVerify: true, CompressionMode: nws.CompressionNoContextTakeover})
	if err != nil {
		return nil, err
	}
	c.SetReadLimit(-1)
	return nhooyr.New(c), nil
}

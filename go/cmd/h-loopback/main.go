// h-loopback: C13 / C14 over REAL sockets.  The in-memory harnesses (h-transport, h-quicfake,
// h-segment) never run transport/webtransport (it takes a concrete *webtransport.Session) nor the
// real WebSocket backends; this harness runs, inside one process over loopback,
//
//	wt   : transport/webtransport  (webtransport-go over HTTP/3 over UDP 127.0.0.1)
//	quic : transport/quic          (quic-go over UDP 127.0.0.1)
//	ws   : transport/websocket     (backend by build tag: coder (default) | gorilla | nhooyr, TCP 127.0.0.1)
//
// with the repository's transports on both ends (client end from the repository's Dialer, server
// end New(Config) with the negotiation parameters as decoded by the repository), every case on a
// fresh connection.  Stream cases: 1-4 writers (concurrent or one after the other), sizes around
// 0, 1, 255-257, 64 KiB, 1 MiB, every compression setting; the peer's Read must return the
// written messages byte for byte, one per call, each writer's order kept; counters.  Datagram
// cases (wt, quic): messages of 1..6 segments through Transport.WriteUnreliable and several
// AsUnreliable() handles; every message read must be a written message, each at most once (loss
// is never a violation).  The wire is not observable, so the Coq case (Model/Loopback.v) holds
// lengths, digests, the byte-for-byte attribution made here, and counters; every expectation that
// fails here is ALSO recorded as a direct violation, so the failing input is always reported.
package main

import (
	"bytes"
	"encoding/binary"
	"encoding/json"
	"flag"
	"fmt"
	"os"
	"runtime"
	"strings"
	"sync"
	"sync/atomic"
	"time"

	"github.com/aptpod/iscp-go/transport"
	"github.com/aptpod/iscp-go/transport/compress"
	"github.com/aptpod/iscp-go/verifhooks"

	"verif/internal/c13util"
	"verif/internal/coqfmt"
	"verif/internal/rng"
)

// finding F28 (known, see KNOWN_FINDINGS.json): websocket context takeover with a tiny window and
// an incompressible message - the peer reads dictionary ++ message.  The generator avoids the
// shape; if it shows up nevertheless the case carries this signature.
const sigLeak = "F28:takeover-stored-block-emits-dictionary"

// finding (new, nhooyr build only): transport/websocket/nhooyr/dialer.go leaves nhooyr's default
// read limit (32768 bytes) on the dialled connection - coder/dialer.go lifts it with
// SetReadLimit(-1) - so a message whose WebSocket payload exceeds 32 KiB, sent to a dialler,
// fails its Read ("read limited at 32769 bytes") and closes the connection.
const sigReadLimit = "F43:nhooyr-dialer-keeps-32k-read-limit"

type msgSpec struct {
	N    int    `json:"n"`
	Seed uint64 `json:"s"`
	Cls  int    `json:"c"` // 0 pseudo-random bytes, 1 repetitive text
}

type compCfg struct {
	Level     int  `json:"level"` // 0 = off
	DisableCT bool `json:"per_message,omitempty"`
	Bits      int  `json:"bits,omitempty"`
}

type caseIn struct {
	Tr      string      `json:"tr"`   // wt | quic | ws
	Kind    string      `json:"kind"` // stream | dgram
	Dir     string      `json:"dir"`  // c2s: the dialler writes | s2c: the accepted side writes
	CC      compCfg     `json:"cc"`
	Conc    bool        `json:"conc"`
	Lock    bool        `json:"lockstep,omitempty"` // concurrent writers meet at a spin barrier before their i-th message
	Writers [][]msgSpec `json:"writers"`            // stream: per writer goroutine; dgram: per handle (0 = Transport.WriteUnreliable, k>0 = k-th AsUnreliable())
	P       int         `json:"P,omitempty"`        // dgram: segment payload size set through the hook (0 = the default 1188)
	Burst   int         `json:"burst,omitempty"`    // dgram pacing: pause after every Burst messages of a writer
	PauseUs int         `json:"pause_us,omitempty"`
	ReadVia string      `json:"read_via,omitempty"` // dgram: handle | transport (wt: Transport.ReadUnreliable)
	// dgram, hostile peer: raw datagrams sent on the session underneath the writing transport
	// (always the accepted side, dir s2c), never produced by the library and never to be handed up:
	// shorter than the 8-byte header, segment index beyond the announced count, or a lone segment
	// of a longer message - each under a sequence number of its own (>= 2^31, the library's start at 0)
	Hostile []inj  `json:"hostile,omitempty"`
	Backend string `json:"backend,omitempty"` // ws: backend of the binary that generated the case (informational)
}

type inj struct {
	After int    `json:"after"` // sent when this many valid messages have been written (concurrent cases: own goroutine, in list order)
	Raw   []byte `json:"raw"`
}

// watchdog bounds every call into the library. It starts generous (loaded machine) and shrinks
// once calls have expired three times in a run (each expired call is already a direct violation).
var watchdog = 20 * time.Second
var watchdogExpired int32

func noteExpiry() {
	if atomic.AddInt32(&watchdogExpired, 1) >= 3 {
		watchdog = 1500 * time.Millisecond
	}
}

func guarded(f func()) bool {
	done := make(chan struct{})
	go func() { defer close(done); f() }()
	select {
	case <-done:
		return true
	case <-time.After(watchdog):
		noteExpiry()
		return false
	}
}

// barrier lets the concurrent writers start their i-th message at the same instant (spin, so the
// skew is well below the duration of one Write); a writer that waits more than 20 ms goes on alone.
type barrier struct {
	arrive []int32
	need   []int32
}

func newBarrier(msgs [][][]byte) *barrier {
	max := 0
	for _, w := range msgs {
		if len(w) > max {
			max = len(w)
		}
	}
	b := &barrier{arrive: make([]int32, max), need: make([]int32, max)}
	for _, w := range msgs {
		for i := range w {
			b.need[i]++
		}
	}
	return b
}

func (b *barrier) wait(i int) {
	atomic.AddInt32(&b.arrive[i], 1)
	t0 := time.Now()
	for n := 0; atomic.LoadInt32(&b.arrive[i]) < b.need[i]; n++ {
		if n%64 == 63 {
			if time.Since(t0) > 20*time.Millisecond {
				return
			}
			runtime.Gosched()
		}
	}
}

// grace: how long a datagram case waits for further messages after the last write returned
var grace = 500 * time.Millisecond

func expand(ms msgSpec, tag, idx int) []byte {
	var m []byte
	if ms.Cls == 1 {
		m = make([]byte, ms.N)
		pat := []byte("abcabdab cabd")
		off := int(ms.Seed % 7)
		for i := range m {
			m[i] = pat[(i+off)%len(pat)]
		}
	} else {
		m = c13util.LcgBytes(ms.N, ms.Seed%2147483648)
	}
	if len(m) > 0 {
		m[0] = byte(tag)
	}
	if len(m) > 1 {
		m[1] = byte(idx)
	}
	return m
}

func expandAll(ci *caseIn) [][][]byte {
	out := make([][][]byte, len(ci.Writers))
	for w := range ci.Writers {
		for i, ms := range ci.Writers[w] {
			out[w] = append(out[w], expand(ms, w, i))
		}
	}
	return out
}

func compressCfg(ci *caseIn) compress.Config {
	return compress.Config{Enable: ci.CC.Level != 0, Level: ci.CC.Level, DisableContextTakeover: ci.CC.DisableCT, WindowBits: ci.CC.Bits}
}

type readRes struct {
	m   []byte
	err error
}

type result struct {
	term   string
	obs    map[string]interface{}
	direct string
	sig    string
}

var srv servers

func kindTerm(ci *caseIn) string {
	switch {
	case ci.Kind == "dgram":
		p := ci.P
		if p == 0 {
			p = 1188
		}
		return fmt.Sprintf("(LbDgram %d)", p)
	case ci.Tr == "ws":
		return "LbWs"
	}
	return "LbFramed"
}

func writersTerm(msgs [][][]byte) string {
	var ws []string
	for _, w := range msgs {
		var items []string
		for _, m := range w {
			items = append(items, coqfmt.Pair(coqfmt.N(uint64(len(m))), coqfmt.N(c13util.Digest(m))))
		}
		ws = append(ws, coqfmt.List(items))
	}
	return coqfmt.List(ws)
}

type att struct {
	ok   bool
	w, i int
	m    []byte
}

func readsTerm(as []att) string {
	var items []string
	for _, a := range as {
		at := "None"
		if a.ok {
			at = fmt.Sprintf("(Some (%d, %d))", a.w, a.i)
		}
		items = append(items, fmt.Sprintf("mkRd %s %d %d", at, len(a.m), c13util.Digest(a.m)))
	}
	return coqfmt.List(items)
}

func caseTerm(ci *caseIn, msgs [][][]byte, werrs int, as []att, rerr bool, tx, rx uint64, htx []uint64) string {
	var h []string
	for _, x := range htx {
		h = append(h, coqfmt.N(x))
	}
	injb := 0
	for _, x := range ci.Hostile {
		injb += len(x.Raw)
	}
	return fmt.Sprintf("mkLb %s %s %s %s %d %s %s %d %d %s %d %d", kindTerm(ci), coqfmt.Bool(ci.CC.Level != 0), coqfmt.Bool(ci.Conc),
		writersTerm(msgs), werrs, readsTerm(as), coqfmt.Bool(rerr), tx, rx, coqfmt.List(h), len(ci.Hostile), injb)
}

const emptyTerm = "mkLb LbWs false false [] 0 [] false 0 0 [] 0 0"

func ends(ci *caseIn, pr *pair) (w, r endpoint) {
	if ci.Dir == "s2c" {
		return pr.srv, pr.cli
	}
	return pr.cli, pr.srv
}

func runStream(ci *caseIn, pr *pair) (res result) {
	wr, rd := ends(ci, pr)
	msgs := expandAll(ci)
	total := 0
	var wireLen uint64
	for _, w := range msgs {
		total += len(w)
		for _, m := range w {
			wireLen += uint64(len(m))
			if ci.Tr != "ws" {
				wireLen += 4
			}
		}
	}
	// reader: one Read per expected message
	rch := make(chan readRes, total+1)
	go func() {
		defer func() {
			if r := recover(); r != nil {
				rch <- readRes{err: fmt.Errorf("panic in Read: %v", r)}
			}
		}()
		for i := 0; i < total; i++ {
			m, err := rd.Read()
			if err != nil {
				rch <- readRes{err: err}
				return
			}
			rch <- readRes{m: append([]byte{}, m...)}
		}
	}()
	var mu sync.Mutex
	var werrs []string
	var bar *barrier
	if ci.Conc && ci.Lock {
		bar = newBarrier(msgs)
	}
	writeAll := func(w int) {
		defer func() {
			if r := recover(); r != nil {
				mu.Lock()
				werrs = append(werrs, fmt.Sprintf("panic in Write: %v", r))
				mu.Unlock()
			}
		}()
		for i, m := range msgs[w] {
			if bar != nil {
				bar.wait(i)
			}
			if err := wr.Write(m); err != nil {
				mu.Lock()
				werrs = append(werrs, err.Error())
				mu.Unlock()
			}
		}
	}
	if !guarded(func() {
		if !ci.Conc {
			for w := range msgs {
				writeAll(w)
			}
			return
		}
		var wg sync.WaitGroup
		start := make(chan struct{})
		for w := range msgs {
			wg.Add(1)
			go func(w int) { defer wg.Done(); <-start; writeAll(w) }(w)
		}
		close(start)
		wg.Wait()
	}) {
		res.direct = fmt.Sprintf("Transport.Write did not return within the watchdog (%s, %d writers)", ci.Tr, len(msgs))
		return
	}
	// collect the reads
	var got [][]byte
	var rerr error
	timedOut := false
	deadline := time.After(watchdog)
collect:
	for len(got) < total {
		select {
		case r := <-rch:
			if r.err != nil {
				rerr = r.err
				break collect
			}
			got = append(got, r.m)
		case <-deadline:
			noteExpiry()
			timedOut = true
			break collect
		}
	}
	tx, rx := wr.TxBytesCounterValue(), rd.RxBytesCounterValue()

	// attribution: byte for byte, to the next unread message of a writer; failing that to any
	// unread message (an order violation the judge will see); failing that to nothing
	next := make([]int, len(msgs))
	used := make([][]bool, len(msgs))
	for w := range msgs {
		used[w] = make([]bool, len(msgs[w]))
	}
	var as []att
	var fails []string
	var hist []byte // bytes of the attributed messages in read (= wire) order, for the F28 shape
	leak := false
	for k, g := range got {
		a := att{m: g}
		for w := range msgs {
			if next[w] < len(msgs[w]) && bytes.Equal(msgs[w][next[w]], g) {
				a.ok, a.w, a.i = true, w, next[w]
				break
			}
		}
		if !a.ok && ci.Tr == "ws" && ci.CC.Level != 0 && !ci.CC.DisableCT && len(hist) > 0 {
			win := hist
			if W := 1 << uint(ci.CC.Bits); len(win) > W {
				win = win[len(win)-W:]
			}
			for w := range msgs {
				if next[w] < len(msgs[w]) && bytes.Equal(append(append([]byte{}, win...), msgs[w][next[w]]...), g) {
					leak = true
					hist = append(hist, msgs[w][next[w]]...)
					used[w][next[w]] = true
					next[w]++
					fails = append(fails, fmt.Sprintf("read %d is the %d-byte dictionary followed by message %d of writer %d (finding F28)", k, len(win), next[w]-1, w))
					break
				}
			}
			if leak {
				as = append(as, a)
				continue
			}
		}
		if !a.ok {
		search:
			for w := range msgs {
				for i := range msgs[w] {
					if !used[w][i] && bytes.Equal(msgs[w][i], g) {
						a.ok, a.w, a.i = true, w, i
						fails = append(fails, fmt.Sprintf("read %d is message %d of writer %d but that writer's next unread message is %d (order not kept)", k, i, w, next[w]))
						break search
					}
				}
			}
		}
		if a.ok {
			used[a.w][a.i] = true
			if a.i == next[a.w] {
				next[a.w]++
			}
			hist = append(hist, g...)
		} else {
			fails = append(fails, fmt.Sprintf("read %d (%d bytes) is not a written message (cut, merged or altered)", k, len(g)))
		}
		as = append(as, a)
	}
	if len(werrs) > 0 {
		fails = append(fails, fmt.Sprintf("%d Write calls failed, first: %s", len(werrs), werrs[0]))
	}
	if rerr != nil {
		fails = append(fails, fmt.Sprintf("Read failed after %d of %d messages: %v", len(got), total, rerr))
	}
	if timedOut {
		fails = append(fails, fmt.Sprintf("Read did not return within the watchdog: %d of %d messages read", len(got), total))
	}
	if tx != rx {
		fails = append(fails, fmt.Sprintf("writer's tx counter %d != reader's rx counter %d", tx, rx))
	}
	if ci.CC.Level == 0 && rx != wireLen {
		fails = append(fails, fmt.Sprintf("compression off: rx counter %d, framed bytes %d", rx, wireLen))
	}
	res.term = caseTerm(ci, msgs, len(werrs), as, rerr != nil || timedOut, tx, rx, nil)
	res.obs = map[string]interface{}{"written": total, "read": len(got), "write_errors": len(werrs), "tx": tx, "rx": rx, "framed_bytes_uncompressed": wireLen}
	if rerr != nil {
		res.obs["read_error"] = rerr.Error()
	}
	if len(fails) > 0 {
		res.obs["failed_expectations"] = fails
		res.direct = fmt.Sprintf("%s stream: %s", ci.Tr, fails[0])
		if leak {
			res.sig = sigLeak
		}
		if wsBackend == "nhooyr" && ci.Tr == "ws" && ci.Dir == "s2c" && rerr != nil && strings.Contains(rerr.Error(), "read limited at") {
			res.sig = sigReadLimit
		}
	}
	return
}

var hookMu, mu0 sync.Mutex

func runDgram(ci *caseIn, pr *pair) (res result) {
	if ci.P > 0 {
		hookMu.Lock()
		restore := verifhooks.SegmentSetMaxPayloadSize(ci.P)
		defer func() { restore(); hookMu.Unlock() }()
	}
	hostile := len(ci.Hostile) > 0
	if hostile {
		ci.Dir = "s2c" // the raw session the harness owns is the accepted one
		if pr.rawSrv == nil {
			res.direct = "no raw session under the accepted " + ci.Tr + " transport"
			return
		}
	}
	wr, rd := ends(ci, pr)
	msgs := expandAll(ci)
	total := 0
	for _, w := range msgs {
		total += len(w)
	}
	nh := len(msgs) - 1
	var injErrs []string
	inject := func(k int) {
		if err := pr.rawSrv.SendDatagram(ci.Hostile[k].Raw); err != nil {
			mu0.Lock()
			injErrs = append(injErrs, err.Error())
			mu0.Unlock()
		}
	}
	handles := make([]transport.UnreliableTransport, nh+1)
	for k := 1; k <= nh; k++ {
		h, ok := wr.AsUnreliable()
		if !ok {
			res.direct = "AsUnreliable returned false on a " + ci.Tr + " transport"
			return
		}
		handles[k] = h
	}
	wu, ok := wr.(interface{ WriteUnreliable([]byte) error })
	if !ok {
		res.direct = "the " + ci.Tr + " transport has no WriteUnreliable"
		return
	}
	write := func(h int, m []byte) error {
		if h == 0 {
			return wu.WriteUnreliable(m)
		}
		return handles[h].Write(m)
	}
	// reader
	var readFn func() ([]byte, error)
	if ru, ok := rd.(interface{ ReadUnreliable() ([]byte, error) }); ok && ci.ReadVia == "transport" {
		readFn = ru.ReadUnreliable
	} else {
		rh, ok := rd.AsUnreliable()
		if !ok {
			res.direct = "AsUnreliable returned false on a " + ci.Tr + " transport"
			return
		}
		readFn = rh.Read
	}
	rch := make(chan readRes, 4*total+16)
	go func() {
		defer func() {
			if r := recover(); r != nil {
				rch <- readRes{err: fmt.Errorf("panic in unreliable Read: %v", r)}
			}
		}()
		for i := 0; i < 4*total+8; i++ {
			m, err := readFn()
			if err != nil {
				rch <- readRes{err: err}
				return
			}
			rch <- readRes{m: append([]byte{}, m...)}
		}
	}()
	var mu sync.Mutex
	var werrs []string
	pace := func(n int) {
		if ci.Burst > 0 && ci.PauseUs > 0 && n%ci.Burst == 0 {
			time.Sleep(time.Duration(ci.PauseUs) * time.Microsecond)
		}
	}
	one := func(h, i int) {
		defer func() {
			if r := recover(); r != nil {
				mu.Lock()
				werrs = append(werrs, fmt.Sprintf("panic in unreliable Write: %v", r))
				mu.Unlock()
			}
		}()
		if err := write(h, msgs[h][i]); err != nil {
			mu.Lock()
			werrs = append(werrs, err.Error())
			mu.Unlock()
		}
	}
	if !guarded(func() {
		if !ci.Conc {
			// one after the other, round robin over the handles
			n := 0
			for i := 0; ; i++ {
				any := false
				for h := range msgs {
					if i < len(msgs[h]) {
						any = true
						for k := range ci.Hostile {
							if ci.Hostile[k].After == n {
								inject(k)
							}
						}
						one(h, i)
						n++
						pace(n)
					}
				}
				if !any {
					return
				}
			}
		}
		var wg sync.WaitGroup
		start := make(chan struct{})
		var bar *barrier
		if ci.Lock {
			bar = newBarrier(msgs)
		}
		for h := range msgs {
			wg.Add(1)
			go func(h int) {
				defer wg.Done()
				<-start
				for i := range msgs[h] {
					if bar != nil {
						bar.wait(i)
					}
					one(h, i)
					pace(i + 1)
				}
			}(h)
		}
		if hostile {
			wg.Add(1)
			go func() {
				defer wg.Done()
				<-start
				for k := range ci.Hostile {
					inject(k)
					time.Sleep(time.Duration(50+37*(k%5)) * time.Microsecond)
				}
			}()
		}
		close(start)
		wg.Wait()
	}) {
		res.direct = fmt.Sprintf("unreliable Write did not return within the watchdog (%s)", ci.Tr)
		return
	}
	// collect: until every message is there, or nothing new for the grace period (loss is allowed)
	var got [][]byte
	var rerr error
	idle := time.NewTimer(grace)
collect:
	for len(got) < total {
		select {
		case r := <-rch:
			if r.err != nil {
				rerr = r.err
				break collect
			}
			got = append(got, r.m)
			if !idle.Stop() {
				select {
				case <-idle.C:
				default:
				}
			}
			idle.Reset(grace)
		case <-idle.C:
			break collect
		}
	}
	// a short look for surplus messages (a duplicate or an invented message) when all arrived
	if len(got) == total && rerr == nil {
		select {
		case r := <-rch:
			if r.err == nil {
				got = append(got, r.m)
			}
		case <-time.After(2 * time.Millisecond):
		}
	}
	// counters of the phase the Coq case describes (the probe phase below is outside it)
	tx, rx := wr.TxBytesCounterValue(), rd.RxBytesCounterValue()
	// hostile cases: the receive loop must have survived the malformed datagrams.  Datagram loss is
	// never a violation, so "dead" is told apart from "loss" by the peer's rx counter, which the
	// receive loop advances for every datagram it takes off the session: up to 40 probe messages,
	// each ONE datagram whatever the case's payload size (the hook is set back to 1188 for this
	// phase), one every 50 ms (2 s), stop at the first delivery.  Flagged only when no probe was
	// delivered AND the counter did not move during the whole phase (or a Read failed, see rerr).
	// Probes are not part of the Coq case: reads equal to a probe are dropped, anything else that
	// shows up is kept as a read.
	probeDead := false
	probesSent, probeWriteErr := 0, ""
	var rxProbe0, rxProbe1 uint64
	if hostile && rerr == nil {
		if ci.P > 0 {
			back := verifhooks.SegmentSetMaxPayloadSize(1188)
			defer back() // runs before the deferred restore of the case's own setting
		}
		rxProbe0 = rd.RxBytesCounterValue()
		probes := map[string]bool{}
		alive := false
		for p := 0; p < 40 && !alive && rerr == nil && probeWriteErr == ""; p++ {
			m := append([]byte{0xFD, byte(p)}, []byte("probe after malformed datagrams")...)
			probes[string(m)] = true
			if !guarded(func() {
				if err := wu.WriteUnreliable(m); err != nil {
					probeWriteErr = err.Error()
				}
			}) {
				res.direct = fmt.Sprintf("unreliable Write did not return within the watchdog (%s, probe)", ci.Tr)
				return
			}
			probesSent++
			wait := time.After(50 * time.Millisecond)
		probe:
			for {
				select {
				case r := <-rch:
					if r.err != nil {
						rerr = r.err
						break probe
					}
					if probes[string(r.m)] {
						alive = true
						break probe
					}
					got = append(got, r.m)
				case <-wait:
					break probe
				}
			}
		}
		// late hand-ups of malformed datagrams (and late probes)
		drain := time.After(10 * time.Millisecond)
	drainLoop:
		for rerr == nil {
			select {
			case r := <-rch:
				if r.err != nil {
					rerr = r.err
				} else if !probes[string(r.m)] {
					got = append(got, r.m)
				}
			case <-drain:
				break drainLoop
			}
		}
		rxProbe1 = rd.RxBytesCounterValue()
		probeDead = !alive && rerr == nil && probeWriteErr == "" && probesSent == 40 && rxProbe1 == rxProbe0
	}
	var injBytes uint64
	for _, x := range ci.Hostile {
		injBytes += uint64(len(x.Raw))
	}
	var htx []uint64
	for k := 1; k <= nh; k++ {
		htx = append(htx, handles[k].TxBytesCounterValue())
	}
	used := make([][]int, len(msgs))
	for h := range msgs {
		used[h] = make([]int, len(msgs[h]))
	}
	var as []att
	var fails []string
	for k, g := range got {
		a := att{m: g}
		// an unread equal message first, else an already read one (a duplicate)
		for pass := 0; pass < 2 && !a.ok; pass++ {
		search:
			for h := range msgs {
				for i := range msgs[h] {
					if used[h][i] == pass && bytes.Equal(msgs[h][i], g) {
						a.ok, a.w, a.i = true, h, i
						break search
					}
				}
			}
		}
		if a.ok {
			used[a.w][a.i]++
			if used[a.w][a.i] > 1 {
				fails = append(fails, fmt.Sprintf("message %d of handle %d was read %d times", a.i, a.w, used[a.w][a.i]))
			}
		} else {
			what := "partial or mixed reassembly"
			if hostile {
				what = "a malformed datagram was handed up, or a partial/mixed reassembly"
			}
			fails = append(fails, fmt.Sprintf("read %d (%d bytes) is not a written message (%s)", k, len(g), what))
		}
		as = append(as, a)
	}
	if rerr != nil {
		fails = append(fails, fmt.Sprintf("unreliable Read failed on an open transport after %d messages: %v", len(got), rerr))
	}
	if len(werrs) > 0 {
		fails = append(fails, fmt.Sprintf("%d unreliable Write calls failed, first: %s", len(werrs), werrs[0]))
	}
	if probeDead {
		fails = append(fails, fmt.Sprintf("after the malformed datagrams none of 40 single-datagram probes (one every 50 ms) was delivered and the peer's rx counter stayed at %d: the receive loop is dead", rxProbe0))
	}
	if rx > tx+injBytes {
		fails = append(fails, fmt.Sprintf("reader's rx counter %d exceeds writer's tx counter %d + %d injected bytes", rx, tx, injBytes))
	}
	for k := 1; k <= nh; k++ {
		var s uint64
		for _, m := range msgs[k] {
			s += uint64(len(m))
		}
		if len(werrs) == 0 && htx[k-1] != s {
			fails = append(fails, fmt.Sprintf("handle %d tx counter %d, message bytes written through it %d", k, htx[k-1], s))
		}
	}
	res.term = caseTerm(ci, msgs, len(werrs), as, rerr != nil, tx, rx, htx)
	lost := 0
	for h := range used {
		for _, u := range used[h] {
			if u == 0 {
				lost++
			}
		}
	}
	res.obs = map[string]interface{}{"written": total, "read": len(got), "lost": lost, "write_errors": len(werrs), "tx": tx, "rx": rx, "handle_tx": htx}
	if hostile {
		res.obs["injected"] = len(ci.Hostile)
		res.obs["injected_bytes"] = injBytes
		res.obs["raw_send_errors"] = len(injErrs)
		res.obs["probes_sent"] = probesSent
		res.obs["rx_during_probes"] = rxProbe1 - rxProbe0
		if probeWriteErr != "" {
			res.obs["probe_write_error"] = probeWriteErr
		}
	}
	if len(werrs) > 0 {
		res.obs["first_write_error"] = werrs[0]
	}
	if rerr != nil {
		res.obs["read_error"] = rerr.Error()
	}
	if len(fails) > 0 {
		res.obs["failed_expectations"] = fails
		res.direct = fmt.Sprintf("%s datagrams: %s", ci.Tr, fails[0])
	}
	return
}

func runCase(ci *caseIn) (res result) {
	var pr *pair
	var err error
	for attempt := 0; attempt < 4; attempt++ {
		if pr, err = srv.newPair(ci.Tr, compressCfg(ci)); err == nil {
			break
		}
		time.Sleep(time.Duration(attempt+1) * 200 * time.Millisecond)
	}
	if err != nil {
		res.direct = "set-up (dial + accept on loopback) failed four times: " + err.Error()
		return
	}
	defer pr.close()
	defer func() {
		if r := recover(); r != nil {
			res.direct = fmt.Sprintf("panic: %v", r)
		}
	}()
	if ci.Kind == "dgram" {
		return runDgram(ci, pr)
	}
	return runStream(ci, pr)
}

// ---- generators ----

var sizesSmall = []int{0, 1, 2, 3, 5, 17, 100, 254, 255, 256, 257, 258, 1000, 4095, 4096}
var sizesBig = []int{65535, 65536, 65537, 70000}

func genContent(r *rng.R, n int, textOnly bool) msgSpec {
	cls := 0
	if textOnly || r.Chance(1, 3) {
		cls = 1
	}
	return msgSpec{N: n, Seed: r.U64() % 2147483648, Cls: cls}
}

// genStream: nw writers; `big` = how many 64 KiB-class messages, `huge` = how many 1 MiB messages
func genStream(r *rng.R, tr string, cc compCfg, nw int, conc bool, perWriter int, big, huge int) *caseIn {
	ci := &caseIn{Tr: tr, Kind: "stream", CC: cc, Conc: conc, Dir: []string{"c2s", "s2c"}[r.Intn(2)]}
	if tr == "ws" {
		ci.Backend = wsBackend
	}
	// F28 (known, covered by h-transport): context takeover, a dictionary of a few dozen bytes at
	// most (small window, or simply a short history) and an incompressible message.  Avoided here:
	// repetitive content only, unless the window holds >= 256 bytes and the one writer starts
	// with a repetitive message of >= 300 bytes.
	takeover := tr == "ws" && cc.Level > 1 && !cc.DisableCT
	textOnly := takeover && (cc.Bits < 8 || nw > 1)
	for w := 0; w < nw; w++ {
		var ms []msgSpec
		n := perWriter
		if n > 2 {
			n = perWriter - r.Intn(perWriter/2)
		}
		for i := 0; i < n; i++ {
			var size int
			switch r.Intn(4) {
			case 0:
				size = r.Intn(600)
			default:
				size = sizesSmall[r.Intn(len(sizesSmall))]
			}
			if size == 0 && w > 0 { // only writer 0 writes empty messages (unambiguous attribution)
				size = 1
			}
			ms = append(ms, genContent(r, size, textOnly))
		}
		ci.Writers = append(ci.Writers, ms)
	}
	first := 0
	if takeover && !textOnly {
		ci.Writers[0][0] = genContent(r, 300+r.Intn(300), true)
		first = 1
	}
	ci.Lock = conc && r.Chance(3, 4)
	put := func(size int) {
		w := r.Intn(nw)
		pos := first + r.Intn(len(ci.Writers[w])+1-first)
		ms := ci.Writers[w]
		ms = append(ms[:pos], append([]msgSpec{genContent(r, size, textOnly)}, ms[pos:]...)...)
		ci.Writers[w] = ms
	}
	for i := 0; i < big; i++ {
		put(sizesBig[r.Intn(len(sizesBig))])
	}
	for i := 0; i < huge; i++ {
		put([]int{1 << 20, 1<<20 + 1, 1<<20 - 1}[r.Intn(3)])
	}
	return ci
}

// genHeavy: the concurrent-writer family that must make any interleaving inside a frame show:
// 4-8 free-running writers (no barrier: the others keep writing while one is inside a large
// frame) on one transport, 40-50 messages each, about 30% of them larger than 16 KiB (16385,
// 20000, 65537, 100000 - pseudo-random content, so they stay large when compressed) between small
// ones.
func genHeavy(r *rng.R, tr string, cc compCfg) *caseIn {
	ci := &caseIn{Tr: tr, Kind: "stream", CC: cc, Conc: true, Dir: []string{"c2s", "s2c"}[r.Intn(2)]}
	nw := 4 + r.Intn(5)
	large := []int{16385, 20000, 65537, 100000}
	for w := 0; w < nw; w++ {
		var ms []msgSpec
		n := 40 + r.Intn(11)
		for i := 0; i < n; i++ {
			var m msgSpec
			switch {
			case r.Chance(3, 10):
				m = msgSpec{N: large[r.Intn(len(large))], Seed: r.U64() % 2147483648}
			case r.Chance(1, 3):
				m = genContent(r, 1+r.Intn(600), false)
			default:
				size := sizesSmall[r.Intn(len(sizesSmall))]
				if size == 0 && w > 0 {
					size = 1
				}
				m = genContent(r, size, false)
			}
			ms = append(ms, m)
		}
		ci.Writers = append(ci.Writers, ms)
	}
	return ci
}

// genDgram: messages needing 1..6 segments over nh+1 handles
func genDgram(r *rng.R, tr string, cc compCfg, P int, nh int, conc bool, perHandle int) *caseIn {
	ci := &caseIn{Tr: tr, Kind: "dgram", CC: cc, Conc: conc, P: P, Dir: []string{"c2s", "s2c"}[r.Intn(2)],
		Burst: 2 + r.Intn(3), PauseUs: 200 + r.Intn(400), ReadVia: []string{"handle", "transport"}[r.Intn(2)]}
	if conc {
		ci.Lock = r.Chance(3, 4)
		ci.Burst = 1 + r.Intn(2)
	}
	p := P
	if p == 0 {
		p = 1188
	}
	for h := 0; h <= nh; h++ {
		var ms []msgSpec
		for i := 0; i < perHandle; i++ {
			segs := 1 + r.Intn(6)
			var size int
			switch r.Intn(4) {
			case 0: // exactly on a boundary: k*P (k>=2 gives an empty last segment)
				size = segs * p
			case 1:
				size = segs*p - 1
			case 2:
				size = (segs-1)*p + 1
			default:
				size = (segs-1)*p + 1 + r.Intn(p)
			}
			if r.Chance(1, 12) {
				size = r.Intn(3)
			}
			// compressed payloads shrink: pseudo-random content keeps the segment count
			ms = append(ms, msgSpec{N: size, Seed: r.U64() % 2147483648, Cls: map[bool]int{true: 1, false: 0}[r.Chance(1, 5)]})
		}
		ci.Writers = append(ci.Writers, ms)
	}
	return ci
}

// hostileRaw builds the k-th malformed datagram of a case.  Sequence number 2^31 + k: never one the
// library uses in a case (those start at 0), never shared by two injected datagrams, so whatever
// the receiver keeps for it can never complete.
func hostileRaw(r *rng.R, k int) []byte {
	hdr := func(max, idx uint16, pay []byte) []byte {
		b := make([]byte, 8, 8+len(pay))
		binary.BigEndian.PutUint32(b[:4], 1<<31+uint32(k))
		binary.BigEndian.PutUint16(b[4:6], max)
		binary.BigEndian.PutUint16(b[6:8], idx)
		return append(b, pay...)
	}
	stray := append([]byte{0xEE, byte(k)}, []byte("stray")...)
	stray = append(stray, r.Bytes(r.Intn(12))...)
	switch r.Intn(9) {
	case 0: // shorter than the header
		return r.Bytes(r.Intn(8))
	case 1: // header only, index beyond the single announced segment
		return hdr(0, []uint16{1, 65535}[r.Intn(2)], nil)
	case 2, 3: // one segment announced, index 1 / 65535 / random non-zero
		return hdr(0, []uint16{1, 65535, uint16(1 + r.Intn(65535))}[r.Intn(3)], stray)
	case 4: // index beyond the announced count, max 1
		return hdr(1, []uint16{2, 3, 65535}[r.Intn(3)], stray)
	case 5: // index beyond the announced count, max 5
		return hdr(5, []uint16{6, 9, 65535}[r.Intn(3)], stray)
	case 6: // huge announced count, a single segment of it
		return hdr(65535, []uint16{0, 1, 65535}[r.Intn(3)], stray)
	case 7: // a lone segment of a 2..6-segment message
		max := uint16(1 + r.Intn(5))
		return hdr(max, uint16(r.Intn(int(max)+1)), stray)
	default: // random bytes behind the reserved sequence number; never a complete one-segment message
		b := r.Bytes(8 + r.Intn(33))
		binary.BigEndian.PutUint32(b[:4], 1<<31+uint32(k))
		if b[4] == 0 && b[5] == 0 && b[6] == 0 && b[7] == 0 {
			b[7] = 1
		}
		return b
	}
}

// genHostile: a datagram case (accepted side writes) with 4-12 malformed datagrams sent on the raw
// session between the valid messages
func genHostile(r *rng.R, tr string, cc compCfg, P int, nh int, conc bool, perHandle int) *caseIn {
	ci := genDgram(r, tr, cc, P, nh, conc, perHandle)
	ci.Dir = "s2c"
	total := 0
	for _, w := range ci.Writers {
		total += len(w)
	}
	n := 4 + r.Intn(9)
	for k := 0; k < n; k++ {
		ci.Hostile = append(ci.Hostile, inj{After: r.Intn(total), Raw: hostileRaw(r, k)})
	}
	return ci
}

func segsOf(n, p int) int {
	if n <= p {
		return 1
	}
	return n/p + 1
}

func describe(ci *caseIn) (kind string, nontrivial bool) {
	kind = ci.Tr + "-" + ci.Kind
	if len(ci.Hostile) > 0 {
		kind += "-hostile"
	}
	if ci.Conc {
		kind += "-concurrent"
		if ci.Kind == "stream" && len(ci.Writers) >= 4 && len(ci.Writers[0]) >= 40 {
			kind += "-heavy"
		}
	} else {
		kind += "-seq"
	}
	if ci.CC.Level != 0 {
		switch {
		case ci.Tr != "ws":
			kind += "-compressed"
		case ci.CC.DisableCT:
			kind += "-permessage"
		default:
			kind += "-takeover"
		}
	}
	total, multi := 0, false
	p := ci.P
	if p == 0 {
		p = 1188
	}
	for _, w := range ci.Writers {
		total += len(w)
		for _, m := range w {
			if segsOf(m.N, p) > 1 {
				multi = true
			}
		}
	}
	if ci.Kind == "dgram" {
		return kind, (multi && len(ci.Writers) > 1) || len(ci.Hostile) > 0
	}
	return kind, (ci.Conc && len(ci.Writers) > 1) || total >= 3
}

func wsConfigs() []compCfg {
	out := []compCfg{{Level: 0}}
	for _, l := range []int{1, 6, 9} {
		out = append(out, compCfg{Level: l, DisableCT: true})
	}
	for _, b := range []int{0, 1, 8, 15} {
		for _, l := range []int{1, 6, 9} {
			out = append(out, compCfg{Level: l, Bits: b})
		}
	}
	return out
}

func main() {
	seed := flag.Uint64("seed", 1, "seed")
	tier := flag.String("tier", "quick", "quick|thorough")
	out := flag.String("out", "", "output directory")
	replay := flag.String("replay", "", "replay file (JSON with an 'input' field)")
	only := flag.String("only", "", "comma separated subset of wt,quic,ws (default all); the random stream is the same as in a full run")
	kinds := flag.String("kinds", "", "stream|dgram: run only that kind of case (default both); the random stream is the same as in a full run")
	flag.Parse()
	if *kinds != "" && *kinds != "stream" && *kinds != "dgram" {
		fmt.Fprintln(os.Stderr, "-kinds takes stream or dgram")
		os.Exit(2)
	}
	w := coqfmt.NewWriter(*out, "C13", "From Iscp Require Import Model.Framing Model.Loopback.", "lb_case", "lb_judge", 60)
	add := func(ci *caseIn) {
		kind, nt := describe(ci)
		t0 := time.Now()
		res := runCase(ci)
		c := coqfmt.Case{Term: res.term, Input: ci, Observed: res.obs, Nontrivial: nt, Kind: kind, Direct: res.direct, Sig: res.sig}
		if c.Term == "" {
			c.Term = emptyTerm
		}
		w.Add(c)
		w.Count("transport:" + ci.Tr)
		if ci.Tr == "ws" {
			w.Count("ws-backend:" + wsBackend)
		}
		if ci.Kind == "dgram" {
			w.Count(fmt.Sprintf("dgram-handles:%d", len(ci.Writers)))
			if res.obs != nil {
				if l, ok := res.obs["lost"].(int); ok && l > 0 {
					w.Count("dgram-cases-with-loss")
				}
			}
		} else {
			w.Count(fmt.Sprintf("stream-writers:%d", len(ci.Writers)))
		}
		if res.direct != "" {
			w.Count("direct-violation")
		}
		if os.Getenv("LBDEBUG") != "" {
			fmt.Fprintf(os.Stderr, "%-34s %8.1f ms  %s\n", kind, float64(time.Since(t0).Microseconds())/1000, res.direct)
		}
	}
	if *replay != "" {
		b, err := os.ReadFile(*replay)
		if err != nil {
			fmt.Fprintln(os.Stderr, err)
			os.Exit(2)
		}
		var rf struct {
			Input caseIn `json:"input"`
		}
		if err := json.Unmarshal(b, &rf); err != nil {
			fmt.Fprintln(os.Stderr, err)
			os.Exit(2)
		}
		if rf.Input.Tr == "ws" && rf.Input.Backend != "" && rf.Input.Backend != wsBackend {
			fmt.Fprintf(os.Stderr, "note: the case was recorded with the %s backend, this binary has %s\n", rf.Input.Backend, wsBackend)
		}
		add(&rf.Input)
		if err := w.Flush(*seed, *tier, "replay of one recorded case", false, nil); err != nil {
			fmt.Fprintln(os.Stderr, err)
			os.Exit(2)
		}
		return
	}
	want := map[string]bool{"wt": true, "quic": true, "ws": true}
	if *only != "" {
		want = map[string]bool{}
		for _, k := range strings.Split(*only, ",") {
			if k != "wt" && k != "quic" && k != "ws" {
				fmt.Fprintln(os.Stderr, "-only takes wt, quic, ws")
				os.Exit(2)
			}
			want[k] = true
		}
	}
	thorough := *tier == "thorough"
	rounds := 3
	if thorough {
		rounds = 30
		grace = time.Second
	}
	r := rng.New(*seed)
	run := func(cr *rng.R, tr string, gen func(cr *rng.R) *caseIn) {
		ci := gen(cr) // generated even when skipped: -only sees the cases of a full run
		if want[tr] && (*kinds == "" || *kinds == ci.Kind) {
			add(ci)
		}
	}
	qLevels := []int{0, 1, 6, 9}
	for round := 0; round < rounds; round++ {
		for _, tr := range []string{"wt", "quic"} {
			tr := tr
			// streams: every level, one after the other and concurrent
			for _, l := range qLevels {
				l := l
				if thorough && round%3 == 2 && l == 6 {
					l = 2 + r.Intn(7)
				}
				run(r.Fork(), tr, func(cr *rng.R) *caseIn {
					return genStream(cr, tr, compCfg{Level: l}, 1, false, 6+cr.Intn(5), 1, 0)
				})
				run(r.Fork(), tr, func(cr *rng.R) *caseIn {
					return genStream(cr, tr, compCfg{Level: l}, 2+cr.Intn(3), true, 8+cr.Intn(6), 2, 0)
				})
			}
			// many free-running writers, many messages, a good share above 16 KiB
			run(r.Fork(), tr, func(cr *rng.R) *caseIn {
				return genHeavy(cr, tr, compCfg{Level: []int{0, 0, 1}[round%3]})
			})
			// writers one after the other on one connection; 1 MiB messages
			run(r.Fork(), tr, func(cr *rng.R) *caseIn {
				return genStream(cr, tr, compCfg{Level: qLevels[cr.Intn(4)]}, 2+cr.Intn(2), false, 3, 0, 0)
			})
			run(r.Fork(), tr, func(cr *rng.R) *caseIn { return genStream(cr, tr, compCfg{Level: 0}, 1, false, 2, 0, 1) })
			run(r.Fork(), tr, func(cr *rng.R) *caseIn {
				return genStream(cr, tr, compCfg{Level: []int{1, 6}[cr.Intn(2)]}, 2, true, 3, 1, 2)
			})
			// datagrams: tiny payload size (hook), medium, and the real 1188
			for _, P := range []int{0, 100, -1, -1, -1} {
				P := P
				for _, conc := range []bool{false, true, true} {
					conc := conc
					run(r.Fork(), tr, func(cr *rng.R) *caseIn {
						p := P
						if p < 0 {
							p = 1 + cr.Intn(8)
						}
						nh := cr.Intn(4)
						if conc {
							nh = 1 + cr.Intn(3)
						}
						per := 2 + cr.Intn(3)
						if conc {
							per = 4 + cr.Intn(5)
						}
						if p == 0 || p == 100 {
							per = 1 + cr.Intn(2)
						}
						lvl := 0
						if cr.Chance(1, 4) {
							lvl = []int{1, 6, 9}[cr.Intn(3)]
						}
						return genDgram(cr, tr, compCfg{Level: lvl}, p, nh, conc, per)
					})
				}
			}
			// hostile peer: malformed datagrams on the raw session between valid messages
			for j := 0; j < 6; j++ {
				j := j
				run(r.Fork(), tr, func(cr *rng.R) *caseIn {
					p := []int{1 + cr.Intn(8), 1 + cr.Intn(8), 100, 0}[cr.Intn(4)]
					per := 2 + cr.Intn(3)
					if p == 0 || p == 100 {
						per = 1 + cr.Intn(2)
					}
					lvl := 0
					if j == 5 { // compression on: a payload handed up would go through inflate
						lvl = []int{1, 6, 9}[cr.Intn(3)]
					}
					return genHostile(cr, tr, compCfg{Level: lvl}, p, cr.Intn(3), j >= 4, per)
				})
			}
		}
		// websocket: the whole grid, one after the other and concurrent
		for _, cc := range wsConfigs() {
			cc := cc
			run(r.Fork(), "ws", func(cr *rng.R) *caseIn { return genStream(cr, "ws", cc, 1, false, 6+cr.Intn(5), 1, 0) })
			run(r.Fork(), "ws", func(cr *rng.R) *caseIn {
				return genStream(cr, "ws", cc, 2+cr.Intn(3), true, 6+cr.Intn(5), 1, 0)
			})
		}
		run(r.Fork(), "ws", func(cr *rng.R) *caseIn { return genStream(cr, "ws", compCfg{Level: 0}, 1, false, 2, 0, 1) })
		run(r.Fork(), "ws", func(cr *rng.R) *caseIn {
			return genStream(cr, "ws", compCfg{Level: 6, Bits: 15}, 2, true, 3, 1, 2)
		})
		run(r.Fork(), "ws", func(cr *rng.R) *caseIn {
			return genStream(cr, "ws", compCfg{Level: 1, DisableCT: true}, 3, false, 3, 0, 1)
		})
	}
	rule := "real transports over loopback sockets (wt = transport/webtransport, quic = transport/quic, ws = transport/websocket with the " + wsBackend +
		" backend), the repository's transport on both ends, a fresh connection per case; one round = 101 cases (33 wt, 33 quic, 35 ws), quick = 3 rounds, thorough = 30. stream: per transport every level {0,1,6,9} (ws: off, per-message x {1,6,9}, context takeover window bits {0,1,8,15} x {1,6,9}) x {one writer, 2-4 concurrent writers}, 6-14 messages per writer with sizes 0,1,2,3,5,17,100,254-258,1000,4095,4096, random <600, one or two of 65535-70000, plus per transport and round one heavy case (4-8 free-running writers x 40-50 messages, ~30% of them 16385/20000/65537/100000 bytes of incompressible content between small ones, level 0 or 1), cases with 1 MiB messages and writers one after the other; dgram (wt, quic): segment payload size 1-8 and 100 (hook) and the real 1188, messages of 1-6 segments at k*P, k*P-1, (k-1)*P+1, through Transport.WriteUnreliable and 0-3 AsUnreliable() handles, round robin or one goroutine per handle (3/4 of the concurrent cases: writers meet at a spin barrier before their i-th message, so that their Write calls overlap), paced (pause after 2-4 messages), read through a handle or Transport.ReadUnreliable; loss is never a violation; hostile (6 per transport and round, accepted side writes): 4-12 malformed datagrams sent on the raw session between the valid messages (0-7 bytes; header only / payload with max index 0 and index 1, 65535, random; index beyond max for max 1 and 5; max 65535 with one segment; a lone segment of a 2-6 segment message; random bytes), each under its own sequence number >= 2^31 - none may be handed up, no Read may fail, and the receive loop must be alive afterwards (up to 40 single-datagram probes over 2 s; dead = none delivered and the peer's rx counter frozen - loss is never a violation). non-trivial = stream: concurrent writers or >=3 messages; dgram: a multi-segment message and more than one handle, or a hostile case; distinct = distinct Coq case terms"
	if *only != "" {
		rule = "(-only " + *only + ") " + rule
	}
	if *kinds != "" {
		rule = "(-kinds " + *kinds + ") " + rule
	}
	if err := w.Flush(*seed, *tier, rule, false, map[string]interface{}{"ws_backend": wsBackend}); err != nil {
		fmt.Fprintln(os.Stderr, err)
		os.Exit(2)
	}
}

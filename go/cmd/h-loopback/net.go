// Real servers on loopback sockets, set up the way the repository's own tests do
// (transport/webtransport/transport_test.go, transport/quic/transport_test.go,
// transport/websocket/*/transport_test.go) with the repository's test certificates
// (internal/testdata), but on an ephemeral port, and with the repository's transports on BOTH
// ends: the client end comes from the repository's Dialer (negotiation parameters travel in the
// URL query / the QUIC negotiation stream), the server end is New(Config{...}) on the accepted
// session with the parameters parsed by the repository's NegotiationParams decoder.
package main

import (
	"context"
	"crypto/tls"
	"crypto/x509"
	"fmt"
	"io"
	"net"
	"net/http"
	"os"
	"path/filepath"
	"runtime/debug"
	"sync"
	"time"

	"github.com/aptpod/iscp-go/transport"
	"github.com/aptpod/iscp-go/transport/compress"
	tquic "github.com/aptpod/iscp-go/transport/quic"
	tws "github.com/aptpod/iscp-go/transport/websocket"
	twt "github.com/aptpod/iscp-go/transport/webtransport"
	quicgo "github.com/quic-go/quic-go"
	"github.com/quic-go/quic-go/http3"
	webtransgo "github.com/quic-go/webtransport-go"
)

// endpoint is what the harness uses of a transport (all three implement transport.Transport).
type endpoint = transport.Transport

// repoDir finds the checked-out library (the module replacement of github.com/aptpod/iscp-go).
func repoDir() string {
	if d := os.Getenv("VERIF_REPO"); d != "" {
		return d
	}
	if bi, ok := debug.ReadBuildInfo(); ok {
		for _, m := range bi.Deps {
			if m.Path == "github.com/aptpod/iscp-go" && m.Replace != nil && m.Replace.Path != "" {
				return m.Replace.Path
			}
		}
	}
	return "/repo"
}

var (
	tlsOnce   sync.Once
	tlsCert   tls.Certificate
	tlsRoots  *x509.CertPool
	tlsLoadEr error
)

func loadTLS() error {
	tlsOnce.Do(func() {
		dir := filepath.Join(repoDir(), "internal", "testdata")
		tlsCert, tlsLoadEr = tls.LoadX509KeyPair(filepath.Join(dir, "cert.pem"), filepath.Join(dir, "priv.key"))
		if tlsLoadEr != nil {
			return
		}
		ca, err := os.ReadFile(filepath.Join(dir, "ca.pem"))
		if err != nil {
			tlsLoadEr = err
			return
		}
		tlsRoots = x509.NewCertPool()
		if !tlsRoots.AppendCertsFromPEM(ca) {
			tlsLoadEr = fmt.Errorf("no certificate in ca.pem")
		}
	})
	return tlsLoadEr
}

// same content as internal/testdata.GetTLSConfig()
func testTLS() *tls.Config {
	return &tls.Config{RootCAs: tlsRoots, Certificates: []tls.Certificate{tlsCert}}
}

// accepted server-side transports, keyed by the transport id the dialler put in the negotiation
// rawSender is the session underneath an accepted transport (webtransport-go Session / quic-go
// Connection): hostile-datagram cases use it to send datagrams the library never produced.
type rawSender interface{ SendDatagram([]byte) error }

type accepted struct {
	tid string
	tr  endpoint
	raw rawSender
	err error
	rel chan struct{} // closed by the case when the handler may return
}

type hub struct {
	ch chan accepted
}

func newHub() *hub { return &hub{ch: make(chan accepted, 64)} }

func (h *hub) wait(tid string, d time.Duration) (accepted, error) {
	deadline := time.After(d)
	for {
		select {
		case a := <-h.ch:
			if a.tid != tid && !(a.tid == "" && a.err != nil) { // left over from a case whose set-up was given up
				if a.tr != nil {
					go a.tr.Close()
				}
				if a.rel != nil {
					close(a.rel)
				}
				continue
			}
			if a.err != nil {
				if a.rel != nil {
					close(a.rel)
				}
				return a, a.err
			}
			return a, nil
		case <-deadline:
			return accepted{}, fmt.Errorf("server side did not produce a transport within %v", d)
		}
	}
}

// ---------- WebTransport ----------

type wtServer struct {
	sv   *webtransgo.Server
	addr string
	hub  *hub
}

func startWT(queue int) (*wtServer, error) {
	if err := loadTLS(); err != nil {
		return nil, err
	}
	pc, err := net.ListenUDP("udp", &net.UDPAddr{IP: net.IPv4(127, 0, 0, 1)})
	if err != nil {
		return nil, err
	}
	s := &wtServer{hub: newHub(), addr: fmt.Sprintf("127.0.0.1:%d", pc.LocalAddr().(*net.UDPAddr).Port)}
	s.sv = &webtransgo.Server{
		CheckOrigin: func(r *http.Request) bool { return true },
		H3:          http3.Server{TLSConfig: testTLS(), QUICConfig: &quicgo.Config{EnableDatagrams: true}},
	}
	s.sv.H3.Handler = http.HandlerFunc(func(w http.ResponseWriter, r *http.Request) {
		var np twt.NegotiationParams
		if err := np.UnmarshalURLValues(r.URL.Query()); err != nil {
			http.Error(w, "bad negotiation parameters", 400)
			s.hub.ch <- accepted{err: fmt.Errorf("server: UnmarshalURLValues: %w", err)}
			return
		}
		sess, err := s.sv.Upgrade(w, r)
		if err != nil {
			http.Error(w, "upgrade failed", 500)
			s.hub.ch <- accepted{tid: string(np.TransportID), err: fmt.Errorf("server: Upgrade: %w", err)}
			return
		}
		tr, err := twt.New(twt.Config{Connection: sess, QueueSize: queue, NegotiationParams: np})
		if err != nil {
			sess.CloseWithError(0, "")
			s.hub.ch <- accepted{tid: string(np.TransportID), err: fmt.Errorf("server: webtransport.New: %w", err)}
			return
		}
		rel := make(chan struct{})
		s.hub.ch <- accepted{tid: string(np.TransportID), tr: tr, raw: sess, rel: rel}
		<-rel // the session ends when the handler returns
	})
	go s.sv.Serve(pc)
	return s, nil
}

func (s *wtServer) dial(dc transport.DialConfig, queue int) (endpoint, error) {
	return twt.DialWithConfig(dc, twt.DialerConfig{QueueSize: queue, TLSConfig: testTLS()})
}

// ---------- QUIC ----------

type quicServer struct {
	lis  *quicgo.Listener
	addr string
	hub  *hub
}

func startQUIC(queue int) (*quicServer, error) {
	if err := loadTLS(); err != nil {
		return nil, err
	}
	tc := testTLS()
	tc.NextProtos = []string{"iscp"}
	lis, err := quicgo.ListenAddr("127.0.0.1:0", tc, &quicgo.Config{EnableDatagrams: true})
	if err != nil {
		return nil, err
	}
	s := &quicServer{lis: lis, hub: newHub(), addr: fmt.Sprintf("127.0.0.1:%d", lis.Addr().(*net.UDPAddr).Port)}
	go func() {
		for {
			sess, err := lis.Accept(context.Background())
			if err != nil {
				return
			}
			go func() {
				// the dialler's negotiation stream comes first (transport/quic/dialer.go negotiate)
				ctx, cancel := context.WithTimeout(context.Background(), 20*time.Second)
				defer cancel()
				str, err := sess.AcceptUniStream(ctx)
				if err != nil {
					sess.CloseWithError(0, "")
					s.hub.ch <- accepted{err: fmt.Errorf("server: no negotiation stream: %w", err)}
					return
				}
				b, err := io.ReadAll(str)
				if err != nil {
					sess.CloseWithError(0, "")
					s.hub.ch <- accepted{err: fmt.Errorf("server: negotiation stream: %w", err)}
					return
				}
				var np tquic.NegotiationParams
				if err := np.Unmarshal(b); err != nil {
					sess.CloseWithError(0, "")
					s.hub.ch <- accepted{err: fmt.Errorf("server: NegotiationParams.Unmarshal: %w", err)}
					return
				}
				tr, err := tquic.New(tquic.Config{Connection: sess, QueueSize: queue, NegotiationParams: np})
				if err != nil {
					sess.CloseWithError(0, "")
					s.hub.ch <- accepted{tid: string(np.TransportID), err: fmt.Errorf("server: quic.New: %w", err)}
					return
				}
				s.hub.ch <- accepted{tid: string(np.TransportID), tr: tr, raw: sess}
			}()
		}
	}()
	return s, nil
}

func (s *quicServer) dial(dc transport.DialConfig, queue int) (endpoint, error) {
	return tquic.DialWithConfig(dc, tquic.DialerConfig{QueueSize: queue, TLSConfig: testTLS()})
}

// ---------- WebSocket (backend chosen by build tag, see ws_*.go) ----------

type wsServer struct {
	lis  net.Listener
	addr string
	hub  *hub
}

func startWS(queue int) (*wsServer, error) {
	lis, err := net.Listen("tcp", "127.0.0.1:0")
	if err != nil {
		return nil, err
	}
	s := &wsServer{lis: lis, hub: newHub(), addr: lis.Addr().String()}
	srv := &http.Server{Handler: http.HandlerFunc(func(w http.ResponseWriter, r *http.Request) {
		var np tws.NegotiationParams
		if err := np.UnmarshalURLValues(r.URL.Query()); err != nil {
			http.Error(w, "bad negotiation parameters", 400)
			s.hub.ch <- accepted{err: fmt.Errorf("server: UnmarshalURLValues: %w", err)}
			return
		}
		c, err := wsAccept(w, r)
		if err != nil {
			s.hub.ch <- accepted{tid: string(np.TransportID), err: fmt.Errorf("server: websocket accept: %w", err)}
			return
		}
		tr := tws.New(tws.Config{Conn: c, QueueSize: queue, NegotiationParams: np})
		rel := make(chan struct{})
		s.hub.ch <- accepted{tid: string(np.TransportID), tr: tr, rel: rel}
		<-rel
	})}
	go srv.Serve(lis)
	return s, nil
}

func (s *wsServer) dial(dc transport.DialConfig, queue int) (endpoint, error) {
	return tws.DialWithConfig(dc, tws.DialerConfig{QueueSize: queue, Path: "/ws"})
}

// ---------- a fresh pair per case ----------

type servers struct {
	mu   sync.Mutex
	wt   *wtServer
	quic *quicServer
	ws   *wsServer
	n    int
}

type pair struct {
	cli, srv endpoint
	rawSrv   rawSender // the session under srv (wt, quic)
	rel      chan struct{}
}

func (p *pair) close() {
	done := make(chan struct{})
	go func() {
		defer close(done)
		// both ends at once: a WebSocket close handshake waits for the peer's close frame
		var wg sync.WaitGroup
		for _, e := range []endpoint{p.cli, p.srv} {
			wg.Add(1)
			go func(e endpoint) { defer wg.Done(); e.Close() }(e)
		}
		wg.Wait()
	}()
	select {
	case <-done:
	case <-time.After(5 * time.Second):
	}
	if p.rel != nil {
		close(p.rel)
		p.rel = nil
	}
}

const queueSize = 64

// newPair dials a new connection of the given kind. cc is the dialler's compress.Config; the
// peer learns it through the negotiation parameters only.
func (s *servers) newPair(kind string, cc compress.Config) (*pair, error) {
	s.mu.Lock()
	s.n++
	tid := fmt.Sprintf("case-%d", s.n)
	s.mu.Unlock()
	var h *hub
	var dial func(transport.DialConfig, int) (endpoint, error)
	var addr string
	var err error
	switch kind {
	case "wt":
		if s.wt == nil {
			if s.wt, err = startWT(queueSize); err != nil {
				return nil, err
			}
		}
		h, dial, addr = s.wt.hub, s.wt.dial, s.wt.addr
	case "quic":
		if s.quic == nil {
			if s.quic, err = startQUIC(queueSize); err != nil {
				return nil, err
			}
		}
		h, dial, addr = s.quic.hub, s.quic.dial, s.quic.addr
	case "ws":
		if s.ws == nil {
			if s.ws, err = startWS(queueSize); err != nil {
				return nil, err
			}
		}
		h, dial, addr = s.ws.hub, s.ws.dial, s.ws.addr
	default:
		return nil, fmt.Errorf("unknown transport kind %q", kind)
	}
	dc := transport.DialConfig{Address: addr, CompressConfig: cc, EncodingName: transport.EncodingNameProtobuf,
		TransportID: transport.TransportID(tid)}
	type dres struct {
		tr  endpoint
		err error
	}
	dch := make(chan dres, 1)
	go func() {
		tr, err := dial(dc, queueSize)
		dch <- dres{tr, err}
	}()
	var cli endpoint
	select {
	case r := <-dch:
		if r.err != nil {
			return nil, fmt.Errorf("dial: %w", r.err)
		}
		cli = r.tr
	case <-time.After(30 * time.Second):
		go func() {
			if r := <-dch; r.tr != nil {
				r.tr.Close()
			}
		}()
		return nil, fmt.Errorf("dial did not return within 30 s")
	}
	a, err := h.wait(tid, 30*time.Second)
	if err != nil {
		cli.Close()
		return nil, err
	}
	return &pair{cli: cli, srv: a.tr, rawSrv: a.raw, rel: a.rel}, nil
}

//go:build !gorilla && !nhooyr

// Default WebSocket backend (github.com/coder/websocket), as wire/enable_coder.go selects it.
package main

import (
	"net/http"

	tws "github.com/aptpod/iscp-go/transport/websocket"
	"github.com/aptpod/iscp-go/transport/websocket/coder" // its init registers the dial function
	cws "github.com/coder/websocket"
)

const wsBackend = "coder"

// server side as in transport/websocket/coder/transport_test.go; the read limit is lifted as
// coder/dialer.go does for the client side
func wsAccept(w http.ResponseWriter, r *http.Request) (tws.Conn, error) {
	c, err := cws.Accept(w, r, &cws.AcceptOptions{InsecureSkipVerify: true, CompressionMode: cws.CompressionNoContextTakeover})
	if err != nil {
		return nil, err
	}
	c.SetReadLimit(-1)
	return coder.New(c), nil
}

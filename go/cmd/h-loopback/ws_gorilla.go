//go:build gorilla

// WebSocket backend github.com/gorilla/websocket (build tag gorilla, wire/enable_gorilla.go).
package main

import (
	"net/http"

	tws "github.com/aptpod/iscp-go/transport/websocket"
	"github.com/aptpod/iscp-go/transport/websocket/gorilla" // its init registers the dial function
	gws "github.com/gorilla/websocket"
)

const wsBackend = "gorilla"

var upgrader = gws.Upgrader{CheckOrigin: func(*http.Request) bool { return true }}

func wsAccept(w http.ResponseWriter, r *http.Request) (tws.Conn, error) {
	c, err := upgrader.Upgrade(w, r, nil)
	if err != nil {
		return nil, err
	}
	return gorilla.New(c), nil
}

// h-downstream: correspondence harness for C03 and C04 (iscp.Downstream on a connection that stays
// up) against Model/Downstream.v.  Drives the real iscp.Connect/OpenDownstream/ReadDataPoints/
// ReadMetadata/Close through the in-memory transport and a scripted broker that sends
// DownstreamChunk / DownstreamMetadata messages and logs every DownstreamChunkAck,
// DownstreamMetadataAck and DownstreamCloseRequest it receives.
package main

import (
	"context"
	"encoding/json"
	"errors"
	"flag"
	"fmt"
	"hash/crc32"
	"os"
	"sort"
	"strings"
	"sync"
	"sync/atomic"
	"time"

	iscperrors "github.com/aptpod/iscp-go/errors"
	"github.com/aptpod/iscp-go/iscp"
	"github.com/aptpod/iscp-go/message"
	uuid "github.com/google/uuid"

	"verif/internal/broker"
	"github.com/aptpod/iscp-go/verifhooks"

	"verif/internal/coqfmt"
	"verif/internal/memtr"
	"verif/internal/rng"
)

const wd = 3 * time.Second // watchdog for every library call and every awaited effect
const inboxCap = 1024

// ---------------------------------------------------------------- case description (JSON, replayable)

type grpIn struct {
	Full bool  `json:"full"`
	ID   int   `json:"id"` // data id (full) or alias
	Lens []int `json:"lens,omitempty"`
}

type opIn struct {
	Op     string  `json:"op"` // arrive burst meta mburst mrounds read readn readshort readmeta await close connclose cut stuck
	UpFull bool    `json:"upfull,omitempty"`
	Up     int     `json:"up,omitempty"` // upstream info (full) or alias
	Seq    int     `json:"seq,omitempty"`
	Groups []grpIn `json:"groups,omitempty"`
	Src    int     `json:"src,omitempty"`
	Body   int     `json:"body,omitempty"`
	N      int     `json:"n,omitempty"`
	Rounds int     `json:"rounds,omitempty"`
}

type caseIn struct {
	QoS        int    `json:"qos"`
	Pre        []int  `json:"pre,omitempty"` // WithDownstreamDataIDs
	IntervalMs int    `json:"interval_ms"`   // ack flush interval
	NSrc       int    `json:"nsrc"`          // source nodes subscribed (filters 0..nsrc-1) when Filters is empty
	Filters    []int  `json:"filters,omitempty"` // source node of every filter, in order (the same node may be named twice)
	Datagram   bool   `json:"datagram,omitempty"` // the transport has an unreliable channel (AsUnreliable ok): chunks of an unreliable-QoS stream travel on it
	Outage     bool   `json:"outage,omitempty"` // short keepalive: "cut" ops sever the link, the stream resumes
	Ops        []opIn `json:"ops"`
}

// ---------------------------------------------------------------- naming of infos / ids

var nsUUID = uuid.MustParse("6ba7b810-9dad-11d1-80b4-00c04fd430c8")

func infoOf(i int) *message.UpstreamInfo {
	// an upstream belongs to one of the source nodes a downstream can subscribe (node i mod 3), so that
	// metadata about the upstream comes from the node named in its info
	return &message.UpstreamInfo{SessionID: fmt.Sprintf("s%d", i), SourceNodeID: srcOf(i % 3),
		StreamID: uuid.NewSHA1(nsUUID, []byte(fmt.Sprintf("up%d", i)))}
}

// metadata bodies: var*1000000 + up*1000 + k.  var 0 = BaseTime (body = k), 1 UpstreamOpen, 2 UpstreamResume,
// 3 UpstreamAbnormalClose, 4 UpstreamNormalClose (of upstream info up); 5 DownstreamOpen, 6 DownstreamResume,
// 7 DownstreamAbnormalClose, 8 DownstreamNormalClose (of some other node's downstream k)
var qosList = []message.QoS{message.QoSUnreliable, message.QoSReliable, message.QoSPartial}

func downIDOf(k int) uuid.UUID { return uuid.NewSHA1(nsUUID, []byte(fmt.Sprintf("down%d", k))) }

func metaOf(body int) message.Metadata {
	v, up, k := body/1000000, body/1000%1000, body%1000
	in := infoOf(up)
	switch v {
	case 1:
		return &message.UpstreamOpen{StreamID: in.StreamID, SessionID: in.SessionID, QoS: qosList[k%3]}
	case 2:
		return &message.UpstreamResume{StreamID: in.StreamID, SessionID: in.SessionID, QoS: qosList[k%3]}
	case 3:
		return &message.UpstreamAbnormalClose{StreamID: in.StreamID, SessionID: in.SessionID}
	case 4:
		return &message.UpstreamNormalClose{StreamID: in.StreamID, SessionID: in.SessionID, TotalDataPoints: uint64(k), FinalSequenceNumber: uint32(k)}
	case 5:
		return &message.DownstreamOpen{StreamID: downIDOf(k), QoS: qosList[k%3]}
	case 6:
		return &message.DownstreamResume{StreamID: downIDOf(k), QoS: qosList[k%3]}
	case 7:
		return &message.DownstreamAbnormalClose{StreamID: downIDOf(k)}
	case 8:
		return &message.DownstreamNormalClose{StreamID: downIDOf(k)}
	}
	return &message.BaseTime{SessionID: "sess", Name: fmt.Sprintf("m%d", body), Priority: uint8(body % 200),
		ElapsedTime: time.Duration(body), BaseTime: time.Unix(1700000000+int64(body), 0).UTC()}
}

// bodyOf is the inverse of metaOf (900000 = not a value metaOf produces)
func (n *names) bodyOf(m message.Metadata) int {
	qi := func(q message.QoS) int {
		for i, x := range qosList {
			if x == q {
				return i
			}
		}
		return -1
	}
	upOf := func(id uuid.UUID, sess string) int {
		i, ok := n.stream[id]
		if !ok || infoOf(i).SessionID != sess {
			return -1
		}
		return i
	}
	downOf := func(id uuid.UUID) int {
		for k := 0; k < 1000; k++ {
			if downIDOf(k) == id {
				return k
			}
		}
		return -1
	}
	bad := 900000
	switch t := m.(type) {
	case *message.BaseTime:
		k := int(t.ElapsedTime)
		if t.SessionID == "sess" && t.Name == fmt.Sprintf("m%d", k) && t.Priority == uint8(k%200) && t.BaseTime.Equal(time.Unix(1700000000+int64(k), 0)) {
			return k
		}
	case *message.UpstreamOpen:
		if up, q := upOf(t.StreamID, t.SessionID), qi(t.QoS); up >= 0 && q >= 0 {
			return 1000000 + up*1000 + q
		}
	case *message.UpstreamResume:
		if up, q := upOf(t.StreamID, t.SessionID), qi(t.QoS); up >= 0 && q >= 0 {
			return 2000000 + up*1000 + q
		}
	case *message.UpstreamAbnormalClose:
		if up := upOf(t.StreamID, t.SessionID); up >= 0 {
			return 3000000 + up*1000
		}
	case *message.UpstreamNormalClose:
		if up := upOf(t.StreamID, t.SessionID); up >= 0 && t.TotalDataPoints == uint64(t.FinalSequenceNumber) && t.FinalSequenceNumber < 1000 {
			return 4000000 + up*1000 + int(t.FinalSequenceNumber)
		}
	case *message.DownstreamOpen:
		if k, q := downOf(t.StreamID), qi(t.QoS); k >= 0 && q == k%3 {
			return 5000000 + k
		}
	case *message.DownstreamResume:
		if k, q := downOf(t.StreamID), qi(t.QoS); k >= 0 && q == k%3 {
			return 6000000 + k
		}
	case *message.DownstreamAbnormalClose:
		if k := downOf(t.StreamID); k >= 0 {
			return 7000000 + k
		}
	case *message.DownstreamNormalClose:
		if k := downOf(t.StreamID); k >= 0 {
			return 8000000 + k
		}
	}
	return bad
}
func didOf(i int) *message.DataID { return &message.DataID{Name: fmt.Sprintf("d%d", i), Type: "t"} }
func srcOf(i int) string        { return fmt.Sprintf("src%d", i) }

type names struct {
	info   map[message.UpstreamInfo]int
	stream map[uuid.UUID]int
	did    map[message.DataID]int
	src    map[string]int
}

func newNames() *names {
	n := &names{info: map[message.UpstreamInfo]int{}, stream: map[uuid.UUID]int{}, did: map[message.DataID]int{}, src: map[string]int{}}
	for i := 0; i <= 64; i++ {
		n.info[*infoOf(i)] = i
		n.stream[infoOf(i).StreamID] = i
		n.did[*didOf(i)] = i
		n.src[srcOf(i)] = i
	}
	return n
}
func (n *names) infoIdx(u *message.UpstreamInfo) int {
	if u == nil {
		return 900003
	}
	if i, ok := n.info[*u]; ok {
		return i
	}
	return 900000
}
func (n *names) didIdx(d *message.DataID) int {
	if d == nil {
		return 900003
	}
	if i, ok := n.did[*d]; ok {
		return i
	}
	return 900000
}

// ---------------------------------------------------------------- terms

type ptT struct{ el, dig, ln uint64 }

func ptOf(p *message.DataPoint) ptT {
	return ptT{uint64(p.ElapsedTime), uint64(crc32.ChecksumIEEE(p.Payload)), uint64(len(p.Payload))}
}
func ptsTerm(ps []ptT) string {
	var s []string
	for _, p := range ps {
		s = append(s, fmt.Sprintf("(%d,%d,%d)", p.el, p.dig, p.ln))
	}
	return coqfmt.List(s)
}
func pairsTerm(ps [][2]int) string {
	var s []string
	for _, p := range ps {
		s = append(s, fmt.Sprintf("(%d,%d)", p[0], p[1]))
	}
	return bigList(s)
}

// bigList prints a long list as a concatenation of literals of at most 150 elements: coqc
// elaborates one list literal in time quadratic in its length
func bigList(items []string) string {
	const chunk = 150
	if len(items) <= 2*chunk {
		return coqfmt.List(items)
	}
	var parts []string
	for i := 0; i < len(items); i += chunk {
		j := i + chunk
		if j > len(items) {
			j = len(items)
		}
		parts = append(parts, coqfmt.List(items[i:j]))
	}
	return "(" + strings.Join(parts, " ++ ") + ")%list"
}
func sortedPairs(m map[uint32]int) [][2]int {
	var out [][2]int
	for k, v := range m {
		out = append(out, [2]int{int(k), v})
	}
	sort.Slice(out, func(i, j int) bool { return out[i][0] < out[j][0] })
	return out
}

// ---------------------------------------------------------------- one case

type result struct {
	term     string
	observed map[string]interface{}
	direct   string
	sig      string
	nontriv  bool
	counts   map[string]int
}

// hang watchdog of blocking library calls: 8 s, and 1.5 s once three calls of this run have hung
// (a library that hangs hangs in many cases; the run must still end within a minute or two)
var hangs atomic.Int32

func wdNow() time.Duration {
	if hangs.Load() >= 3 {
		return 1500 * time.Millisecond
	}
	return 8 * time.Second
}

// call runs a blocking library call in its own goroutine and gives up wdNow() after the time the
// call's own context allows it (budget); a call given up on stays behind as a leaked goroutine
func call(budget time.Duration, f func() error) (err error, blocked bool) {
	ch := make(chan error, 1)
	go func() { ch <- f() }()
	select {
	case err = <-ch:
		return err, false
	case <-time.After(budget + wdNow()):
		hangs.Add(1)
		return nil, true
	}
}

func errClass(err error) int {
	switch {
	case err == nil:
		return 0
	case strings.Contains(err.Error(), "invalid upstream info alias"):
		return 1
	case strings.Contains(err.Error(), "invalid data id alias"):
		return 2
	case errors.Is(err, context.DeadlineExceeded):
		return 3
	case errors.Is(err, iscperrors.ErrStreamClosed):
		return 4
	}
	return 9
}

func runCase(c *caseIn, r *rng.R) (res result) {
	res.counts = map[string]int{}
	nm := newNames()
	streamID := uuid.New()
	b := broker.New(func(s *broker.Session, m message.Message) {
		switch v := m.(type) {
		case *message.ConnectRequest:
			broker.AcceptConnect(s, v)
		case *message.DownstreamOpenRequest:
			s.Send(&message.DownstreamOpenResponse{RequestID: v.RequestID, AssignedStreamID: streamID,
				ResultCode: message.ResultCodeSucceeded, ResultString: "OK", ServerTime: time.Unix(1700000000, 0)})
		case *message.DownstreamResumeRequest:
			s.Send(&message.DownstreamResumeResponse{RequestID: v.RequestID, ResultCode: message.ResultCodeSucceeded, ResultString: "OK"})
		case *message.DownstreamChunkAck:
			s.Send(&message.DownstreamChunkAckComplete{StreamIDAlias: v.StreamIDAlias, AckID: v.AckID,
				ResultCode: message.ResultCodeSucceeded, ResultString: "OK"})
		case *message.DownstreamCloseRequest:
			s.Send(&message.DownstreamCloseResponse{RequestID: v.RequestID, ResultCode: message.ResultCodeSucceeded, ResultString: "OK"})
		}
	})
	defer b.Release()
	b.Unreliable.Store(c.Datagram)

	bad := func(msg string) result {
		res.direct = msg
		return res
	}
	var conn *iscp.Conn
	err, blocked := call(wd, func() error {
		var err error
		ping, pto := time.Hour, time.Hour
		if c.Outage {
			ping, pto = 10*time.Millisecond, 40*time.Millisecond
		}
		conn, err = iscp.Connect(b.Address, broker.TransportName,
			iscp.WithConnPingInterval(ping), iscp.WithConnPingTimeout(pto))
		return err
	})
	if blocked || err != nil {
		return bad(fmt.Sprintf("harness: connect failed: %v blocked=%v", err, blocked))
	}
	defer func() {
		ctx, cancel := context.WithTimeout(context.Background(), time.Second)
		go func() { defer cancel(); conn.Close(ctx) }()
	}()

	fl := c.Filters
	if len(fl) == 0 {
		for i := 0; i < c.NSrc; i++ {
			fl = append(fl, i)
		}
	}
	subscribed := map[int]bool{}
	var filters []*message.DownstreamFilter
	var flT []string
	for k, n := range fl {
		subscribed[n] = true
		flT = append(flT, fmt.Sprint(n))
		f := message.NewDownstreamFilterAllFor(srcOf(n))
		if k%2 == 1 { // a second filter of a node typically names other data
			f = &message.DownstreamFilter{SourceNodeID: srcOf(n), DataFilters: []*message.DataFilter{{Name: fmt.Sprintf("d%d", k), Type: "#"}}}
		}
		filters = append(filters, f)
	}
	var pre []*message.DataID
	for _, id := range c.Pre {
		pre = append(pre, didOf(id))
	}
	qos := []message.QoS{message.QoSUnreliable, message.QoSReliable, message.QoSPartial}[c.QoS%3]
	var down *iscp.Downstream
	var resumed atomic.Int32
	err, blocked = call(wd, func() error {
		ctx, cancel := context.WithTimeout(context.Background(), wd)
		defer cancel()
		var err error
		down, err = conn.OpenDownstream(ctx, filters, iscp.WithDownstreamQoS(qos), iscp.WithDownstreamDataIDs(pre),
			iscp.WithDownstreamAckFlushInterval(time.Duration(c.IntervalMs)*time.Millisecond),
			iscp.WithDownstreamResumedEventHandler(iscp.DownstreamResumedEventHandlerFunc(func(*iscp.DownstreamResumedEvent) { resumed.Add(1) })))
		return err
	})
	if blocked || err != nil {
		return bad(fmt.Sprintf("harness: open failed: %v blocked=%v", err, blocked))
	}
	sess := b.Current()
	var streamAlias uint32
	var openT [][2]int
	for _, l := range sess.Log() {
		if o, ok := l.Msg.(*message.DownstreamOpenRequest); ok {
			streamAlias = o.DesiredStreamIDAlias
			m := map[uint32]int{}
			for a, d := range o.DataIDAliases {
				m[a] = nm.didIdx(d)
			}
			openT = sortedPairs(m)
		}
	}

	// table snapshots through State()
	prevIDs := map[uint32]int{}
	prevUps := map[uint32]int{}
	stable := true
	stateHung := false
	snapshot := func() (newUps, newIDs [][2]int) {
		var st *iscp.DownstreamState
		if _, blocked := call(0, func() error { st = down.State(); return nil }); blocked {
			stateHung = true
			return nil, nil
		}
		curIDs := map[uint32]int{}
		for a, d := range st.DataIDAliases {
			curIDs[a] = nm.didIdx(d)
		}
		curUps := map[uint32]int{}
		for a, u := range st.UpstreamInfos {
			curUps[a] = nm.infoIdx(u)
		}
		diff := func(prev, cur map[uint32]int) [][2]int {
			add := map[uint32]int{}
			for a, v := range cur {
				if pv, ok := prev[a]; !ok {
					add[a] = v
				} else if pv != v {
					stable = false
				}
			}
			for a := range prev {
				if _, ok := cur[a]; !ok {
					stable = false
				}
			}
			return sortedPairs(add)
		}
		newUps, newIDs = diff(prevUps, curUps), diff(prevIDs, curIDs)
		prevUps, prevIDs = curUps, curIDs
		return
	}
	snapshot() // pre-registered aliases are the initial table
	if stateHung {
		return bad("Downstream.State did not return right after OpenDownstream (hang)")
	}

	type ackT struct {
		sess     int
		id       int
		ups, ids [][2]int
		results  [][2]int
	}
	collect := func() (acks []ackT, nbefore, ncloses int, metaacks []int) {
		for si, ss := range b.Sessions() {
		for _, l := range ss.Log() {
			switch v := l.Msg.(type) {
			case *message.DownstreamChunkAck:
				a := ackT{sess: si, id: int(v.AckID)}
				mu, mi := map[uint32]int{}, map[uint32]int{}
				for k, u := range v.UpstreamAliases {
					mu[k] = nm.infoIdx(u)
				}
				for k, d := range v.DataIDAliases {
					mi[k] = nm.didIdx(d)
				}
				a.ups, a.ids = sortedPairs(mu), sortedPairs(mi)
				for _, rs := range v.Results {
					info, ok := nm.stream[rs.StreamIDOfUpstream]
					if !ok {
						info = 900000
					}
					if rs.ResultCode != message.ResultCodeSucceeded || v.StreamIDAlias != streamAlias {
						info = 900002
					}
					a.results = append(a.results, [2]int{info, int(rs.SequenceNumberInUpstream)})
				}
				acks = append(acks, a)
				if ncloses == 0 {
					nbefore++
				}
			case *message.DownstreamCloseRequest:
				if v.StreamID != streamID {
					ncloses += 100
				}
				ncloses++
			case *message.DownstreamMetadataAck:
				q := int(v.RequestID)
				if v.ResultCode != message.ResultCodeSucceeded {
					q = 900002
				}
				metaacks = append(metaacks, q)
			}
		}
		}
		return
	}

	var evT, readsT, metasT []string
	var elapsed uint64
	q, qm := 0, 0 // items queued in the client (harness bookkeeping)
	ptr := 0
	okReads, okMetaReads := 0, 0
	closed := false
	emptyReads := 0
	var fifo []opIn // chunks queued, for the F4 signature and the non-triviality rule
	fullSeen := map[int]int{}
	infosReturned := map[int]bool{}
	aliasUpReturned, aliasGrpReturned := false, false
	reqID := uint32(1)
	type cutT struct{ pos, sessBefore int }
	var cuts []cutT
	pendingAtCut := false

	waitQueued := func(wantC, wantM int) bool {
		return broker.WaitFor(wd, func() bool {
			cq, mq := iscp.VerifDownstreamQueued(down)
			return cq == wantC && mq == wantM
		})
	}
	sendChunk := func(op *opIn) (string, error) {
		ck := &message.DownstreamChunk{StreamIDAlias: streamAlias, StreamChunk: &message.StreamChunk{SequenceNumber: uint32(op.Seq)}}
		var upT string
		if op.UpFull {
			ck.UpstreamOrAlias = infoOf(op.Up)
			upT = fmt.Sprintf("(UFull %d)", op.Up)
		} else {
			ck.UpstreamOrAlias = message.UpstreamAlias(uint32(op.Up))
			upT = fmt.Sprintf("(UAlias %d)", op.Up)
		}
		var gsT []string
		for _, g := range op.Groups {
			mg := &message.DataPointGroup{DataPoints: []*message.DataPoint{}}
			var dT string
			if g.Full {
				mg.DataIDOrAlias = didOf(g.ID)
				dT = fmt.Sprintf("DFull %d", g.ID)
			} else {
				mg.DataIDOrAlias = message.DataIDAlias(uint32(g.ID))
				dT = fmt.Sprintf("DAlias %d", g.ID)
			}
			var pts []ptT
			for _, ln := range g.Lens {
				elapsed++
				p := &message.DataPoint{ElapsedTime: time.Duration(elapsed), Payload: r.Bytes(ln)}
				mg.DataPoints = append(mg.DataPoints, p)
				pts = append(pts, ptOf(p))
			}
			ck.StreamChunk.DataPointGroups = append(ck.StreamChunk.DataPointGroups, mg)
			gsT = append(gsT, fmt.Sprintf("(%s,%s)", dT, ptsTerm(pts)))
		}
		ptr++
		term := fmt.Sprintf("Arrive (mkChunk %d %s %d %s)", ptr, upT, op.Seq, coqfmt.List(gsT))
		if c.Datagram && qos == message.QoSUnreliable {
			// the client listens for an unreliable-QoS stream on the unreliable channel only; reliable
			// and partial streams are carried on the reliable channel
			return term, sess.SendUnreliable(ck)
		}
		return term, sess.Send(ck)
	}
	sendMeta := func(op *opIn) (string, error) {
		reqID += 2
		m := &message.DownstreamMetadata{RequestID: message.RequestID(reqID), StreamIDAlias: streamAlias, SourceNodeID: srcOf(op.Src),
			Metadata: metaOf(op.Body)}
		return fmt.Sprintf("ArriveMeta (%d,%d,%d)", op.Src, reqID, op.Body), sess.Send(m)
	}
	await := func() bool {
		return broker.WaitFor(wd, func() bool {
			acks, _, _, mas := collect()
			if len(mas) < okMetaReads {
				return false
			}
			nres, nups, nids := 0, 0, 0
			for _, a := range acks {
				nres += len(a.results)
				nups += len(a.ups)
				nids += len(a.ids)
			}
			return nres >= okReads && nups >= len(prevUps) && nids >= len(prevIDs)-len(openT)
		})
	}
	awaitFailed := false

	shortRead := false
	doRead := func() string {
			timeout := wd
			if shortRead {
				timeout = 5 * time.Millisecond
			}
			if !closed && q == 0 {
				if emptyReads >= 2 {
					return ""
				}
				emptyReads++
				timeout = 4 * time.Millisecond
			}
			var ck *iscp.DownstreamChunk
			err, blocked := call(wd, func() error {
				ctx, cancel := context.WithTimeout(context.Background(), timeout)
				defer cancel()
				var err error
				ck, err = down.ReadDataPoints(ctx)
				return err
			})
			if blocked {
				return fmt.Sprintf("ReadDataPoints did not return after its context ended (hang) at event #%d", len(evT))
			}
			ec := errClass(err)
			nu, ni := snapshot()
			if stateHung {
				return fmt.Sprintf("Downstream.State did not return after ReadDataPoints had returned (error class %d) at event #%d (hang: the stream lock is never released)", ec, len(evT))
			}
			pick := closed && ec != 4
			evT = append(evT, "Read "+coqfmt.Bool(pick))
			consumed := ec == 0 || ec == 1 || ec == 2
			var src opIn
			if consumed && q > 0 {
				src = fifo[0]
				fifo = fifo[1:]
				q--
				if src.UpFull {
					fullSeen[src.Up]++
				}
			}
			resT := "None"
			if ec == 0 && ck != nil {
				okReads++
				info := nm.infoIdx(ck.UpstreamInfo)
				infosReturned[info] = true
				var gs []string
				for _, g := range ck.DataPointGroups {
					var pts []ptT
					for _, p := range g.DataPoints {
						pts = append(pts, ptOf(p))
					}
					gs = append(gs, fmt.Sprintf("(%d,%s)", nm.didIdx(g.DataID), ptsTerm(pts)))
				}
				resT = fmt.Sprintf("(Some (%d,%d,%s))", ck.SequenceNumber, info, coqfmt.List(gs))
				if !src.UpFull {
					aliasUpReturned = true
				}
				for _, g := range src.Groups {
					if !g.Full {
						aliasGrpReturned = true
					}
				}
			}
			readsT = append(readsT, fmt.Sprintf("(%s,%d,%s,%s)", resT, ec, pairsTerm(nu), pairsTerm(ni)))
			res.counts[fmt.Sprintf("read-err:%d", ec)]++
			if pick {
				res.counts["read-after-close-returned-chunk"]++
			}
			return ""
	}
	for i := range c.Ops {
		op := &c.Ops[i]
		switch op.Op {
		case "arrive":
			if closed {
				continue
			}
			t, err := sendChunk(op)
			if err != nil {
				return bad("harness: broker could not send a chunk: " + err.Error())
			}
			evT = append(evT, t)
			if q < inboxCap {
				q++
				fifo = append(fifo, *op)
				if !waitQueued(q, qm) {
					return bad(fmt.Sprintf("a chunk sent by the broker was not queued for ReadDataPoints within %v (queue below its capacity)", wd))
				}
			} else {
				time.Sleep(30 * time.Millisecond)
			}
		case "burst":
			if closed {
				continue
			}
			for k := 0; k < op.N; k++ {
				o := opIn{Op: "arrive", UpFull: k == 0 && op.UpFull, Up: op.Up, Seq: op.Seq + k}
				if k == 0 && op.UpFull {
					o.Groups = op.Groups
				}
				t, err := sendChunk(&o)
				if err != nil {
					return bad("harness: broker could not send a chunk: " + err.Error())
				}
				evT = append(evT, t)
				if q < inboxCap {
					q++
					fifo = append(fifo, o)
				}
			}
			if !waitQueued(q, qm) {
				return bad(fmt.Sprintf("a burst of chunks was not queued for ReadDataPoints within %v", wd))
			}
			if q == inboxCap {
				time.Sleep(50 * time.Millisecond) // let the chunks beyond the capacity be dropped
			}
		case "meta":
			if closed {
				continue
			}
			t, err := sendMeta(op)
			if err != nil {
				return bad("harness: broker could not send metadata: " + err.Error())
			}
			evT = append(evT, t)
			if !subscribed[op.Src] {
				res.counts["meta-unsubscribed-node"]++
				time.Sleep(200 * time.Microsecond) // discarded by the wire connection
			} else if qm < inboxCap {
				qm++
				if !waitQueued(q, qm) {
					return bad(fmt.Sprintf("a metadata item sent by the broker was not queued for ReadMetadata within %v", wd))
				}
			} else {
				time.Sleep(30 * time.Millisecond)
			}
		case "mburst":
			if closed {
				continue
			}
			for k := 0; k < op.N; k++ {
				o := opIn{Src: op.Src, Body: op.Body + k}
				t, err := sendMeta(&o)
				if err != nil {
					return bad("harness: broker could not send metadata: " + err.Error())
				}
				evT = append(evT, t)
				if qm < inboxCap {
					qm++
				}
			}
			if !waitQueued(q, qm) {
				return bad(fmt.Sprintf("a burst of metadata was not queued for ReadMetadata within %v", wd))
			}
			if qm == inboxCap {
				time.Sleep(50 * time.Millisecond)
			}
		case "mrounds":
			// op.Rounds rounds of op.N metadata of one node sent back to back while a reader goroutine
			// calls ReadMetadata concurrently; any linearisation in which an item is read after it
			// arrived gives the same answers as long as the queue never fills, so the model gets
			// "all arrive, then all read" per round
			if closed || !subscribed[op.Src] {
				continue
			}
			for rd := 0; rd < op.Rounds; rd++ {
				if qm+op.N > inboxCap-8 {
					break
				}
				type got struct {
					res string
					ec  int
				}
				gotCh := make(chan []got, 1)
				n := op.N + qm
				go func() {
					var out []got
					for k := 0; k < n; k++ {
						ctx, cancel := context.WithTimeout(context.Background(), wd)
						md, err := down.ReadMetadata(ctx)
						cancel()
						ec := errClass(err)
						resT := "None"
						if ec == 0 && md != nil {
							body := nm.bodyOf(md.Metadata)
							sn, ok := nm.src[md.SourceNodeID]
							if !ok {
								sn = 900000
							}
							resT = fmt.Sprintf("(Some (%d,%d))", sn, body)
						}
						out = append(out, got{resT, ec})
						if ec != 0 {
							break
						}
					}
					gotCh <- out
				}()
				for k := 0; k < op.N; k++ {
					o := opIn{Src: op.Src, Body: op.Body + rd*op.N + k}
					t, err := sendMeta(&o)
					if err != nil {
						return bad("harness: broker could not send metadata: " + err.Error())
					}
					evT = append(evT, t)
				}
				var out []got
				select {
				case out = <-gotCh:
				case <-time.After(2 * wd):
					return bad("ReadMetadata did not return within the watchdog (metadata burst with a concurrent reader)")
				}
				okn := 0
				for _, g := range out {
					evT = append(evT, "ReadMeta false")
					metasT = append(metasT, fmt.Sprintf("(%s,%d)", g.res, g.ec))
					res.counts[fmt.Sprintf("readmeta-err:%d", g.ec)]++
					if g.ec == 0 {
						okn++
						okMetaReads++
					}
				}
				qm = qm + op.N - okn
				res.counts["meta-burst-rounds"]++
				if okn < n {
					break
				}
			}
		case "stuck":
			// an ack flush stuck in the transport write (the peer stopped reading), a chunk read during
			// that write, then loss of the connection (the write fails), resume
			if closed || !c.Outage || q < 2 {
				continue
			}
			if msg := doRead(); msg != "" {
				return bad(msg)
			}
			sess.Link.SetStallClientWrites(true)
			if broker.WaitFor(300*time.Millisecond, func() bool { return sess.Link.StalledClientWrites() >= 2 }) {
				res.counts["ack-flush-stuck-in-write"]++
			}
			{
				acksNow, _, _, _ := collect()
				nres := 0
				for _, a := range acksNow {
					nres += len(a.results)
				}
				if nres < okReads {
					pendingAtCut = true
				}
			}
			n0 := resumed.Load()
			cuts = append(cuts, cutT{len(evT), len(b.Sessions()) - 1})
			rdone := make(chan string, 1)
			go func() { rdone <- doRead() }()
			time.Sleep(5 * time.Millisecond)
			sess.Link.Sever(memtr.Loud)
			select {
			case msg := <-rdone:
				if msg != "" {
					return bad(msg)
				}
			case <-time.After(2 * wd):
				return bad("ReadDataPoints started while an ack flush was stuck in the transport write did not return after the link was cut")
			}
			if !broker.WaitFor(wd, func() bool { return resumed.Load() > n0 }) {
				return bad(fmt.Sprintf("the downstream did not resume within %v after a link failure (ack write stuck before the cut)", wd))
			}
			sess = b.Current()
			res.counts["cut"]++
		case "read":
			if msg := doRead(); msg != "" {
				return bad(msg)
			}
		case "readshort":
			// ReadDataPoints with a context of a few milliseconds (after a close the answer must not depend on it)
			shortRead = true
			for k := 0; k < max(op.N, 1); k++ {
				if msg := doRead(); msg != "" {
					return bad(msg)
				}
			}
			shortRead = false
		case "connclose":
			// the CONNECTION is closed under the open stream (Conn.Close): no DownstreamCloseRequest; whatever
			// is still queued in the stream must not be handed out afterwards (it could never be acknowledged)
			if closed {
				continue
			}
			if c.IntervalMs <= 1000 && !await() { // nothing pending when the connection goes away
				awaitFailed = true
			}
			evT = append(evT, "AckTick true")
			err, blocked := call(wd, func() error {
				ctx, cancel := context.WithTimeout(context.Background(), wd)
				defer cancel()
				return conn.Close(ctx)
			})
			if blocked {
				return bad(fmt.Sprintf("Conn.Close did not return after its context ended (hang) at event #%d", len(evT)))
			}
			if err != nil {
				return bad("Conn.Close returned an error on a live connection: " + err.Error())
			}
			// the stream's context is cancelled by a watcher goroutine: wait until the stream reports closed
			if qm == 0 {
				broker.WaitFor(wd, func() bool {
					ctx, cancel := context.WithTimeout(context.Background(), 2*time.Millisecond)
					defer cancel()
					_, err := down.ReadMetadata(ctx)
					return errClass(err) == 4
				})
			} else {
				time.Sleep(50 * time.Millisecond)
			}
			evT = append(evT, "ConnClose true")
			closed = true
			res.counts["conn-close-with-queued-chunks"]++
		case "readn":
			for k := 0; k < op.N; k++ {
				if msg := doRead(); msg != "" {
					return bad(msg)
				}
			}
		case "readmeta":
			timeout := wd
			if !closed && qm == 0 {
				if emptyReads >= 2 {
					continue
				}
				emptyReads++
				timeout = 4 * time.Millisecond
			}
			var md *iscp.DownstreamMetadata
			err, blocked := call(wd, func() error {
				ctx, cancel := context.WithTimeout(context.Background(), timeout)
				defer cancel()
				var err error
				md, err = down.ReadMetadata(ctx)
				return err
			})
			if blocked {
				return bad(fmt.Sprintf("ReadMetadata did not return after its context ended (hang) at event #%d", len(evT)))
			}
			ec := errClass(err)
			pick := closed && ec != 4
			evT = append(evT, "ReadMeta "+coqfmt.Bool(pick))
			resT := "None"
			if ec == 0 && md != nil {
				okMetaReads++
				if qm > 0 {
					qm--
				}
				body := nm.bodyOf(md.Metadata)
				s, ok := nm.src[md.SourceNodeID]
				if !ok {
					s = 900000
				}
				resT = fmt.Sprintf("(Some (%d,%d))", s, body)
			}
			metasT = append(metasT, fmt.Sprintf("(%s,%d)", resT, ec))
			res.counts[fmt.Sprintf("readmeta-err:%d", ec)]++
		case "await":
			if closed || c.IntervalMs > 1000 {
				continue
			}
			if !await() {
				awaitFailed = true
			}
			evT = append(evT, "AckTick true")
		case "cut":
			if closed || !c.Outage {
				continue
			}
			acksNow, _, _, _ := collect()
			nres := 0
			for _, a := range acksNow {
				nres += len(a.results)
			}
			if nres < okReads {
				pendingAtCut = true
			}
			n0 := resumed.Load()
			cuts = append(cuts, cutT{len(evT), len(b.Sessions()) - 1})
			sess.Link.Sever(memtr.Loud)
			if !broker.WaitFor(wd, func() bool { return resumed.Load() > n0 }) {
				return bad(fmt.Sprintf("the downstream did not resume within %v after a link failure (broker accepts the redial and the resume request)", wd))
			}
			sess = b.Current()
			res.counts["cut"]++
		case "close":
			err, blocked := call(wd, func() error {
				ctx, cancel := context.WithTimeout(context.Background(), wd)
				defer cancel()
				return down.Close(ctx)
			})
			if blocked {
				return bad(fmt.Sprintf("Downstream.Close did not return after its context ended (hang) at event #%d (connection up, broker answering)", len(evT)))
			}
			if err != nil {
				return bad("Downstream.Close returned an error on a live connection: " + err.Error())
			}
			evT = append(evT, "Close")
			closed = true
		}
	}
	if !closed {
		if c.IntervalMs <= 1000 {
			if !await() {
				awaitFailed = true
			}
			evT = append(evT, "AckTick true")
		} else {
			broker.WaitFor(wd, func() bool { _, _, _, mas := collect(); return len(mas) >= okMetaReads })
		}
	} else {
		time.Sleep(2 * time.Millisecond) // anything still written after the close request would show up now
	}
	acks, nbefore, ncloses, metaacks := collect()
	var st *iscp.DownstreamState
	if _, blocked := call(0, func() error { st = down.State(); return nil }); blocked {
		return bad(fmt.Sprintf("Downstream.State did not return at the end of the history, after event #%d (hang)", len(evT)))
	}
	// every flush attempted while the link was down consumed an ack id: the gap in the ack ids around
	// a cut is the number of failed sends (model events AckTick false) at that cut
	for j := len(cuts) - 1; j >= 0; j-- {
		prev, next := 0, -1
		for _, a := range acks {
			if a.sess <= cuts[j].sessBefore {
				prev = a.id
			} else if next < 0 {
				next = a.id
			}
		}
		k := 0
		if next >= 0 {
			k = next - prev - 1
		} else {
			k = int(st.LastIssuedChunkAckID) - prev
		}
		for jj := j + 1; jj < len(cuts); jj++ { // already attributed to a later cut between the same acks
			if cuts[jj].sessBefore >= cuts[j].sessBefore && k > 0 && next < 0 {
				k = 0
			}
		}
		if k < 0 || k > 50 {
			k = 0
		}
		var ins []string
		for x := 0; x < k; x++ {
			ins = append(ins, "AckTick false")
		}
		res.counts["failed-sends"] += k
		evT = append(evT[:cuts[j].pos], append(ins, evT[cuts[j].pos:]...)...)
	}

	var acksT []string
	for _, a := range acks {
		acksT = append(acksT, fmt.Sprintf("(%d,%s,%s,%s)", a.id, pairsTerm(a.ups), pairsTerm(a.ids), pairsTerm(a.results)))
	}
	var maT, preT []string
	for _, m := range metaacks {
		maT = append(maT, fmt.Sprint(m))
	}
	for _, p := range c.Pre {
		preT = append(preT, fmt.Sprint(p))
	}
	res.term = fmt.Sprintf("mkDsCase %s %s %s %s %s %s %s %s %s %d %d (%d,%d,%d)", coqfmt.List(flT), coqfmt.List(preT), bigList(evT), pairsTerm(openT),
		bigList(readsT), coqfmt.Bool(stable), bigList(metasT), bigList(maT), bigList(acksT), nbefore, ncloses,
		st.LastIssuedChunkAckID, st.LastIssuedDataIDAlias, st.LastIssuedUpstreamInfoAlias)
	res.observed = map[string]interface{}{"reads": len(readsT), "ok_reads": okReads, "acks": len(acks), "closes": ncloses,
		"acks_before_close": nbefore, "metaacks": len(metaacks), "await_timed_out": awaitFailed,
		"last": []uint32{st.LastIssuedChunkAckID, st.LastIssuedDataIDAlias, st.LastIssuedUpstreamInfoAlias}}
	for _, n := range fullSeen {
		if n >= 2 {
			res.sig = "F4:upstream-alias-reminted"
		}
	}
	if res.counts["read-after-close-returned-chunk"] > 0 {
		res.sig = strings.TrimSpace(res.sig + " F32:read-after-close-unacked")
	}
	if pendingAtCut {
		res.sig = strings.TrimSpace(res.sig + " F14:results-pending-at-outage")
		res.counts["results-pending-at-outage"]++
	}
	res.nontriv = len(infosReturned) >= 2 && aliasUpReturned && aliasGrpReturned && len(acks) >= 2
	return
}

// ---------------------------------------------------------------- generators

// the generator follows the alias numbers the client will issue (upstream: one per full-form
// occurrence, as the code does today; data ids: one per id) so that most alias uses are valid
func genCase(r *rng.R) *caseIn {
	c := &caseIn{QoS: r.Intn(3), NSrc: 1 + r.Intn(3), Datagram: r.Chance(1, 3)}
	c.IntervalMs = []int{1, 1, 5, 20, 10000}[r.Intn(5)]
	// one filter per source node, sometimes a second (or third) filter naming a node again
	for n := 0; n < c.NSrc; n++ {
		c.Filters = append(c.Filters, n)
	}
	for r.Chance(1, 3) {
		pos := r.Intn(len(c.Filters) + 1)
		c.Filters = append(c.Filters[:pos], append([]int{r.Intn(c.NSrc)}, c.Filters[pos:]...)...)
	}
	ninfo := 1 + r.Intn(5)
	nids := 1 + r.Intn(6)
	clean := r.Chance(1, 2) // every upstream in full form at most once
	idAlias := map[int]int{}
	nextID := 0
	if r.Chance(1, 3) {
		// pre-registered ids; a repeated id is legal: every position takes the next alias and the id
		// keeps the last one in the reverse table
		dups := r.Chance(1, 2)
		for id := 1; id <= nids; id++ {
			if r.Chance(1, 3) {
				reps := 1
				if dups && r.Chance(1, 2) {
					reps = 2 + r.Intn(2)
				}
				for k := 0; k < reps; k++ {
					c.Pre = append(c.Pre, id)
					nextID++
					idAlias[id] = nextID
				}
			}
		}
		if dups && len(c.Pre) > 0 && r.Chance(1, 2) { // an earlier id once more at the end
			id := c.Pre[r.Intn(len(c.Pre))]
			c.Pre = append(c.Pre, id)
			nextID++
			idAlias[id] = nextID
		}
	}
	upAliases := map[int][]int{}
	nextUp := 0
	seq := map[int]int{}
	queued, mqueued := 0, 0
	body := 0
	mkArrive := func() opIn {
		info := 1 + r.Intn(ninfo)
		seq[info]++
		op := opIn{Op: "arrive", Seq: seq[info]}
		as := upAliases[info]
		switch {
		case len(as) == 0 || (!clean && r.Chance(2, 5)):
			op.UpFull, op.Up = true, info
			nextUp++
			upAliases[info] = append(upAliases[info], nextUp)
		case r.Chance(1, 20):
			op.Up = nextUp + 1 + r.Intn(3) // unknown alias
		default:
			op.Up = as[r.Intn(len(as))]
		}
		ng := []int{0, 1, 1, 2, 2, 3, 4}[r.Intn(7)]
		for j := 0; j < ng; j++ {
			id := 1 + r.Intn(nids)
			g := grpIn{}
			a, has := idAlias[id]
			switch {
			case !has || r.Chance(3, 10):
				g.Full, g.ID = true, id
				if !has {
					nextID++
					idAlias[id] = nextID
				}
			case r.Chance(1, 25):
				g.ID = nextID + 1 + r.Intn(3) // unknown alias
			default:
				g.ID = a
			}
			np := []int{0, 1, 1, 2, 3}[r.Intn(5)]
			for k := 0; k < np; k++ {
				g.Lens = append(g.Lens, []int{0, 1, 3, 6}[r.Intn(4)])
			}
			op.Groups = append(op.Groups, g)
		}
		return op
	}
	nops := 4 + r.Intn(28)
	for i := 0; i < nops; i++ {
		k := r.Intn(100)
		switch {
		case k < 42:
			c.Ops = append(c.Ops, mkArrive())
			queued++
		case k < 72:
			c.Ops = append(c.Ops, opIn{Op: "read"})
			if queued > 0 {
				queued--
			}
		case k < 80:
			body++
			src := r.Intn(c.NSrc)
			b := body
			if r.Chance(1, 2) {
				// any other metadata variant; those about an upstream name one whose chunks were sent
				// (and are often still queued) and come from that upstream's source node
				v := 1 + r.Intn(8)
				k := body % 1000
				switch {
				case v <= 4:
					up := 1 + r.Intn(ninfo)
					src = up % 3
					switch v {
					case 1, 2:
						k = k % 3
					case 3:
						k = 0
					}
					b = v*1000000 + up*1000 + k
				default:
					b = v*1000000 + k
				}
			} else if r.Chance(1, 10) {
				src = c.NSrc // a node without filter: discarded by the wire connection
			}
			if src < c.NSrc {
				mqueued++
			}
			c.Ops = append(c.Ops, opIn{Op: "meta", Src: src, Body: b})
		case k < 88:
			c.Ops = append(c.Ops, opIn{Op: "readmeta"})
			if mqueued > 0 {
				mqueued--
			}
		case k < 96:
			c.Ops = append(c.Ops, opIn{Op: "await"})
		default:
			c.Ops = append(c.Ops, mkArrive(), mkArrive(), mkArrive())
			queued += 3
		}
	}
	if r.Chance(4, 5) {
		for ; queued > 0; queued-- {
			c.Ops = append(c.Ops, opIn{Op: "read"})
		}
		for ; mqueued > 0; mqueued-- {
			c.Ops = append(c.Ops, opIn{Op: "readmeta"})
		}
	}
	if c.IntervalMs > 1000 || r.Chance(7, 10) {
		c.Ops = append(c.Ops, opIn{Op: "close"})
		if r.Chance(1, 3) {
			c.Ops = append(c.Ops, opIn{Op: "read"}, opIn{Op: "readmeta"})
			if r.Chance(1, 2) {
				c.Ops = append(c.Ops, opIn{Op: "close"}, opIn{Op: "read"})
			}
		}
	}
	return c
}

// a random history with one or two link failures in the middle (the stream resumes each time)
func genOutage(r *rng.R) *caseIn {
	c := genCase(r)
	c.Outage = true
	if r.Chance(1, 2) {
		c.IntervalMs = 10000 // nothing is flushed before the outage: everything read is pending
		hasClose := false
		for _, o := range c.Ops {
			if o.Op == "close" {
				hasClose = true
			}
		}
		if !hasClose { // with a 10 s interval only Close flushes
			c.Ops = append(c.Ops, opIn{Op: "close"})
		}
	}
	ncut := 1 + r.Intn(2)
	for i := 0; i < ncut; i++ {
		lim := len(c.Ops)
		for k, o := range c.Ops {
			if o.Op == "close" {
				lim = k
				break
			}
		}
		pos := r.Intn(lim + 1)
		c.Ops = append(c.Ops[:pos], append([]opIn{{Op: "cut"}}, c.Ops[pos:]...)...)
	}
	return c
}

// bursts of metadata of one node that two or three filters name, read back by a concurrent reader
func genMetaBurst(r *rng.R) *caseIn {
	c := &caseIn{QoS: r.Intn(3), NSrc: 2, IntervalMs: 5}
	c.Filters = [][]int{{0, 0}, {0, 1, 0}, {1, 0, 0, 0}}[r.Intn(3)]
	c.Ops = append(c.Ops, opIn{Op: "meta", Src: 1, Body: 1}, opIn{Op: "meta", Src: 0, Body: 2},
		opIn{Op: "mrounds", Src: 0, Body: 10, N: 300 + r.Intn(200), Rounds: 3 + r.Intn(3)},
		opIn{Op: "readmeta"}, opIn{Op: "close"})
	return c
}

// an ack flush stuck in the transport write, a chunk read during it, link failure, resume
func genStuck(r *rng.R) *caseIn {
	c := genCase(r)
	c.Outage = true
	c.IntervalMs = []int{1, 1, 5}[r.Intn(3)]
	for k, o := range c.Ops { // cut the random prefix before its Close
		if o.Op == "close" {
			c.Ops = c.Ops[:k]
			break
		}
	}
	queued := 0
	for _, o := range c.Ops {
		switch o.Op {
		case "arrive":
			queued++
		case "read":
			if queued > 0 {
				queued--
			}
		}
	}
	for ; queued > 0; queued-- {
		c.Ops = append(c.Ops, opIn{Op: "read"})
	}
	mk := func(info, id, seq int) opIn {
		return opIn{Op: "arrive", UpFull: true, Up: info, Seq: seq, Groups: []grpIn{{Full: true, ID: id, Lens: []int{1 + r.Intn(3)}}}}
	}
	c.Ops = append(c.Ops, opIn{Op: "await"}, mk(6, 7, 1), mk(7, 8, 1), mk(6, 8, 2), opIn{Op: "stuck"})
	if r.Chance(1, 2) {
		c.Ops = append(c.Ops, opIn{Op: "await"})
	}
	c.Ops = append(c.Ops, opIn{Op: "read"})
	if r.Chance(1, 3) {
		c.Ops = append(c.Ops, mk(7, 7, 2), mk(6, 7, 3), opIn{Op: "stuck"}, opIn{Op: "read"})
	}
	if r.Chance(2, 3) {
		c.Ops = append(c.Ops, opIn{Op: "close"})
	}
	return c
}

// thousands of chunks returned between two ack flushes (long flush interval), then Close: every one
// of them must be acknowledged before the close request, however many acks that takes
func genBigBurst(r *rng.R, total, intervalMs int, midTick bool) *caseIn {
	c := &caseIn{QoS: r.Intn(3), NSrc: 1, IntervalMs: intervalMs, Datagram: r.Chance(1, 3)}
	seq, left, first := 1, total, true
	for left > 0 {
		n := 700 + r.Intn(300)
		if n > left {
			n = left
		}
		c.Ops = append(c.Ops, opIn{Op: "burst", N: n, UpFull: first, Up: 1, Seq: seq}, opIn{Op: "readn", N: n})
		if midTick && first {
			c.Ops = append(c.Ops, opIn{Op: "await"})
		}
		first = false
		seq += n
		left -= n
	}
	c.Ops = append(c.Ops, opIn{Op: "close"})
	return c
}

// k chunks arrive and stay queued, m of them are read and acknowledged, then the connection is closed
// under the stream; 2k further reads (short context and long context) must all fail with the closed error
func genConnClose(r *rng.R) *caseIn {
	c := &caseIn{QoS: r.Intn(3), NSrc: 1, IntervalMs: []int{1, 1, 5}[r.Intn(3)], Datagram: r.Chance(1, 3)}
	k := 5 + r.Intn(36)
	m := r.Intn(k)
	if r.Chance(1, 4) {
		m = 0
	}
	for i := 0; i < k; i++ {
		info := 1 + i%2
		op := opIn{Op: "arrive", Seq: 1 + i/2, Up: info, UpFull: i < 2 || r.Chance(1, 5),
			Groups: []grpIn{{Full: i < 2 || r.Chance(1, 3), ID: 1 + i%2, Lens: []int{1 + r.Intn(3)}}}}
		c.Ops = append(c.Ops, op)
	}
	if m > 0 {
		c.Ops = append(c.Ops, opIn{Op: "readn", N: m})
	}
	c.Ops = append(c.Ops, opIn{Op: "connclose"})
	for i := 0; i < 2*k; {
		n := 1 + r.Intn(4)
		if r.Bool() {
			c.Ops = append(c.Ops, opIn{Op: "readshort", N: n})
		} else {
			c.Ops = append(c.Ops, opIn{Op: "readn", N: n})
		}
		i += n
	}
	c.Ops = append(c.Ops, opIn{Op: "readmeta"}, opIn{Op: "close"}, opIn{Op: "read"})
	return c
}

// more items than the queues hold: the first 1024 are kept, the rest dropped
func genOverflow(r *rng.R, metaToo bool) *caseIn {
	c := &caseIn{QoS: r.Intn(3), NSrc: 1, IntervalMs: 5}
	extra := 1 + r.Intn(30)
	c.Ops = append(c.Ops, opIn{Op: "burst", N: inboxCap + extra, UpFull: true, Up: 1, Seq: 1,
		Groups: []grpIn{{Full: true, ID: 1, Lens: []int{1}}}})
	if metaToo {
		c.Ops = append(c.Ops, opIn{Op: "mburst", N: inboxCap + 1 + r.Intn(10), Src: 0, Body: 1})
	}
	nread := inboxCap - r.Intn(3)
	for i := 0; i < nread; i++ {
		c.Ops = append(c.Ops, opIn{Op: "read"})
	}
	c.Ops = append(c.Ops, opIn{Op: "arrive", Up: 1, Seq: 5000}, opIn{Op: "arrive", Up: 1, Seq: 5001})
	for i := 0; i < 6; i++ {
		c.Ops = append(c.Ops, opIn{Op: "read"})
	}
	if metaToo {
		for i := 0; i < inboxCap+1; i++ {
			c.Ops = append(c.Ops, opIn{Op: "readmeta"})
		}
	}
	c.Ops = append(c.Ops, opIn{Op: "close"})
	return c
}

// fixed small scripts around the switch-over points
func genScripted(add func(*caseIn, string)) {
	g := func(full bool, id int) grpIn { return grpIn{Full: full, ID: id, Lens: []int{2}} }
	for _, iv := range []int{1, 10000} {
		// full, alias, full again (F4), alias 1, alias 2
		add(&caseIn{QoS: 1, NSrc: 1, IntervalMs: iv, Ops: []opIn{
			{Op: "arrive", UpFull: true, Up: 1, Seq: 1, Groups: []grpIn{g(true, 1)}}, {Op: "read"},
			{Op: "arrive", Up: 1, Seq: 2, Groups: []grpIn{g(false, 1)}}, {Op: "read"},
			{Op: "arrive", UpFull: true, Up: 1, Seq: 3, Groups: []grpIn{g(true, 1), g(true, 2)}}, {Op: "read"},
			{Op: "arrive", Up: 2, Seq: 4, Groups: []grpIn{g(false, 2)}}, {Op: "read"}, {Op: "close"}}}, "scripted")
		// alias used in the very chunk that introduces the id; unknown aliases; pre-registered ids
		add(&caseIn{QoS: 2, NSrc: 2, IntervalMs: iv, Pre: []int{3, 4}, Ops: []opIn{
			{Op: "arrive", UpFull: true, Up: 1, Seq: 1, Groups: []grpIn{g(true, 1), g(false, 3), g(false, 1), g(false, 2)}}, {Op: "read"},
			{Op: "arrive", Up: 2, Seq: 1, Groups: []grpIn{g(true, 5)}}, {Op: "read"},
			{Op: "arrive", UpFull: true, Up: 2, Seq: 2, Groups: []grpIn{g(false, 9)}}, {Op: "read"},
			{Op: "arrive", Up: 2, Seq: 3, Groups: []grpIn{g(false, 4), g(true, 3)}}, {Op: "read"},
			{Op: "meta", Src: 1, Body: 1}, {Op: "meta", Src: 0, Body: 2}, {Op: "readmeta"}, {Op: "readmeta"}, {Op: "close"}}}, "scripted")
		// close with results pending and chunks still queued, then reads after close
		add(&caseIn{QoS: 0, NSrc: 1, IntervalMs: iv, Ops: []opIn{
			{Op: "arrive", UpFull: true, Up: 1, Seq: 1, Groups: []grpIn{g(true, 1)}},
			{Op: "arrive", UpFull: true, Up: 2, Seq: 1, Groups: []grpIn{g(false, 1)}},
			{Op: "arrive", Up: 1, Seq: 2}, {Op: "read"}, {Op: "read"}, {Op: "close"}, {Op: "read"}, {Op: "read"}, {Op: "close"}}}, "scripted")
	}
}

func main() {
	seed := flag.Uint64("seed", 1, "seed")
	tier := flag.String("tier", "quick", "quick|thorough")
	out := flag.String("out", "", "output directory")
	replay := flag.String("replay", "", "replay file")
	flag.Parse()
	verifhooks.RetrySetDefaultIntervals(2*time.Millisecond, 6*time.Millisecond)
	w := coqfmt.NewWriter(*out, "C03", "From Iscp Require Import Model.Downstream.", "ds_case", "ds_judge", 60)
	r := rng.New(*seed)
	type job struct {
		c    *caseIn
		kind string
		seed uint64
	}
	var jobs []job
	add := func(c *caseIn, kind string) { jobs = append(jobs, job{c, kind, r.U64()}) }

	if *replay != "" {
		b, err := os.ReadFile(*replay)
		if err != nil {
			fmt.Fprintln(os.Stderr, err)
			os.Exit(2)
		}
		var rf struct {
			Input    caseIn `json:"input"`
			CaseSeed uint64 `json:"case_seed"`
		}
		if err := json.Unmarshal(b, &rf); err != nil {
			fmt.Fprintln(os.Stderr, err)
			os.Exit(2)
		}
		jobs = append(jobs, job{&rf.Input, "replay", rf.CaseSeed})
	} else {
		nrand, nover, nout, nstuck, nmb, ncc := 400, 2, 40, 30, 3, 25
		if *tier == "thorough" {
			nrand, nover, nout, nstuck, nmb, ncc = 5000, 12, 400, 300, 20, 250
		}
		genScripted(add)
		for i := 0; i < nover; i++ {
			add(genOverflow(r.Fork(), i%2 == 1), "overflow")
		}
		for i := 0; i < nrand; i++ {
			add(genCase(r.Fork()), "random")
		}
		g := func(full bool, id int) grpIn { return grpIn{Full: full, ID: id, Lens: []int{2}} }
		// results and announcements pending at a link failure (flush interval 10 s), acknowledged after the resume
		add(&caseIn{QoS: 1, NSrc: 1, IntervalMs: 10000, Outage: true, Ops: []opIn{
			{Op: "arrive", UpFull: true, Up: 1, Seq: 1, Groups: []grpIn{g(true, 1)}}, {Op: "read"}, {Op: "cut"},
			{Op: "arrive", Up: 1, Seq: 2, Groups: []grpIn{g(false, 1)}}, {Op: "read"}, {Op: "close"}}}, "outage")
		add(&caseIn{QoS: 1, NSrc: 1, IntervalMs: 5, Outage: true, Ops: []opIn{
			{Op: "arrive", UpFull: true, Up: 1, Seq: 1, Groups: []grpIn{g(true, 1)}}, {Op: "read"}, {Op: "cut"}, {Op: "await"},
			{Op: "arrive", UpFull: true, Up: 1, Seq: 2, Groups: []grpIn{g(false, 1)}}, {Op: "read"}, {Op: "cut"}, {Op: "await"}}}, "outage")
		for i := 0; i < nout; i++ {
			add(genOutage(r.Fork()), "outage")
		}
		// the same data id pre-registered twice before a distinct one; a new full-form id must not
		// disturb the pre-registered alias of the later one
		add(&caseIn{QoS: 1, NSrc: 1, IntervalMs: 1, Pre: []int{1, 1, 2}, Ops: []opIn{
			{Op: "arrive", UpFull: true, Up: 1, Seq: 1, Groups: []grpIn{g(false, 3), g(true, 5), g(false, 2), g(false, 1)}}, {Op: "read"},
			{Op: "arrive", Up: 1, Seq: 2, Groups: []grpIn{g(true, 6), g(false, 3), g(false, 4), g(false, 5)}}, {Op: "read"},
			{Op: "arrive", Up: 1, Seq: 3, Groups: []grpIn{g(false, 3), g(true, 2)}}, {Op: "read"}, {Op: "close"}}}, "scripted")
		// a transport with an unreliable channel, each QoS: reliable and partial streams on the reliable
		// channel, unreliable streams on the unreliable one; also across a link failure and resume
		for qi := 0; qi < 3; qi++ {
			add(&caseIn{QoS: qi, NSrc: 1, IntervalMs: 1, Datagram: true, Outage: true, Ops: []opIn{
				{Op: "arrive", UpFull: true, Up: 1, Seq: 1, Groups: []grpIn{g(true, 1)}}, {Op: "read"},
				{Op: "arrive", Up: 1, Seq: 2, Groups: []grpIn{g(false, 1)}}, {Op: "meta", Body: 1}, {Op: "read"}, {Op: "readmeta"},
				{Op: "cut"}, {Op: "arrive", Up: 1, Seq: 3, Groups: []grpIn{g(false, 1)}}, {Op: "read"}, {Op: "await"}, {Op: "close"}}}, "scripted")
		}
		// alias of A, full form of another upstream B, alias of A again (and once more), then the same with
		// B's full form repeated after B has an alias
		add(&caseIn{QoS: 1, NSrc: 1, IntervalMs: 5, Ops: []opIn{
			{Op: "arrive", UpFull: true, Up: 1, Seq: 1, Groups: []grpIn{g(true, 1)}}, {Op: "read"},
			{Op: "arrive", Up: 1, Seq: 2}, {Op: "arrive", UpFull: true, Up: 2, Seq: 1}, {Op: "arrive", Up: 1, Seq: 3}, {Op: "arrive", Up: 1, Seq: 4},
			{Op: "read"}, {Op: "read"}, {Op: "read"}, {Op: "read"},
			{Op: "arrive", Up: 2, Seq: 2}, {Op: "arrive", UpFull: true, Up: 1, Seq: 5}, {Op: "arrive", Up: 2, Seq: 3}, {Op: "arrive", UpFull: true, Up: 2, Seq: 4}, {Op: "arrive", Up: 1, Seq: 6},
			{Op: "read"}, {Op: "read"}, {Op: "read"}, {Op: "read"}, {Op: "read"}, {Op: "close"}}}, "scripted")
		// every metadata variant about an upstream that has an alias, arriving (and read, or not) while a
		// full-form and an alias-form chunk of that upstream are still queued
		for v := 1; v <= 8; v++ {
			ops := []opIn{
				{Op: "arrive", UpFull: true, Up: 1, Seq: 1, Groups: []grpIn{g(true, 1)}}, {Op: "read"},
				{Op: "arrive", UpFull: true, Up: 1, Seq: 2, Groups: []grpIn{g(false, 1)}},
				{Op: "arrive", Up: 1, Seq: 3, Groups: []grpIn{g(false, 1)}},
				{Op: "arrive", UpFull: true, Up: 2, Seq: 1},
				{Op: "meta", Src: 1, Body: map[bool]int{true: v*1000000 + 1*1000 + v%3, false: v*1000000 + 40 + v}[v <= 4]}}
			if v%2 == 0 {
				ops = append(ops, opIn{Op: "readmeta"})
			}
			ops = append(ops, opIn{Op: "read"}, opIn{Op: "read"}, opIn{Op: "read"}, opIn{Op: "readmeta"},
				opIn{Op: "arrive", Up: 1, Seq: 4}, opIn{Op: "read"}, opIn{Op: "close"})
			add(&caseIn{QoS: v % 3, NSrc: 3, IntervalMs: []int{1, 10000}[v%2], Ops: ops}, "scripted")
		}
		// ack flush stuck in the write while the next chunk is read, then the link dies
		add(&caseIn{QoS: 1, NSrc: 1, IntervalMs: 1, Outage: true, Ops: []opIn{
			{Op: "arrive", UpFull: true, Up: 1, Seq: 1, Groups: []grpIn{g(true, 1)}},
			{Op: "arrive", UpFull: true, Up: 2, Seq: 1, Groups: []grpIn{g(true, 2)}},
			{Op: "stuck"}, {Op: "await"}, {Op: "close"}}}, "stuck")
		for i := 0; i < nstuck; i++ {
			add(genStuck(r.Fork()), "stuck")
		}
		for i := 0; i < nmb; i++ {
			add(genMetaBurst(r.Fork()), "metaburst")
		}
		for i := 0; i < ncc; i++ {
			add(genConnClose(r.Fork()), "connclose")
		}
		// spread over the shards (60 cases each): their terms are the large ones
		big := []*caseIn{genBigBurst(r.Fork(), 2500, 10000, false), genBigBurst(r.Fork(), 3100, 3600000, false),
			genBigBurst(r.Fork(), 1500, 10000, false), genBigBurst(r.Fork(), 2300, 20, true)}
		if *tier == "thorough" {
			big = append(big, genBigBurst(r.Fork(), 4200, 10000, false), genBigBurst(r.Fork(), 2001, 10000, false),
				genBigBurst(r.Fork(), 2000, 10000, false), genBigBurst(r.Fork(), 5000, 5, true))
		}
		for k, bc := range big {
			pos := 30 + k*60
			if pos > len(jobs) {
				pos = len(jobs)
			}
			jobs = append(jobs[:pos], append([]job{{bc, "bigburst", r.U64()}}, jobs[pos:]...)...)
		}
	}
	results := make([]coqfmt.Case, len(jobs))
	counts := make([]map[string]int, len(jobs))
	var mu sync.Mutex
	sem := make(chan struct{}, 8)
	var wg sync.WaitGroup
	for i, j := range jobs {
		wg.Add(1)
		sem <- struct{}{}
		go func(i int, j job) {
			defer wg.Done()
			defer func() { <-sem }()
			res := runCase(j.c, rng.New(j.seed))
			cs := coqfmt.Case{Term: res.term, Input: j.c, Observed: res.observed, Seed: j.seed, Nontrivial: res.nontriv,
				Kind: j.kind, Direct: res.direct, Sig: res.sig}
			if strings.HasPrefix(res.direct, "harness:") {
				fmt.Fprintln(os.Stderr, res.direct)
				os.Exit(3)
			}
			if res.term == "" {
				cs.Term = "mkDsCase [] [] [] [] [] true [] [] [] 0 0 (0,0,0)"
			}
			mu.Lock()
			results[i] = cs
			counts[i] = res.counts
			mu.Unlock()
		}(i, j)
	}
	wg.Wait()
	for i, cs := range results {
		w.Add(cs)
		w.Count(fmt.Sprintf("interval_ms:%d", jobs[i].c.IntervalMs))
		w.Count(fmt.Sprintf("qos:%d", jobs[i].c.QoS%3))
		w.Count(fmt.Sprintf("ops:%d", len(jobs[i].c.Ops)/8*8))
		if cs.Sig != "" {
			w.Count("sig:" + cs.Sig)
		}
		for k, n := range counts[i] {
			for x := 0; x < n; x++ {
				w.Count(k)
			}
		}
	}
	rule := "scripted switch-over histories; overflow histories (more than 1024 chunks / metadata items queued before any read); random: 4-31 ops over 1-5 upstreams x 1-6 data ids mixing full and alias forms (full form again after the alias exists, alias used in the chunk that introduces the id, unknown aliases, pre-registered ids), 0-4 groups of 0-3 points, metadata from 1-3 source nodes, reads lagging arbitrarily, reads on an empty queue, awaits of the timer-driven ack flush (interval 1/5/20 ms) or a 10 s interval with everything pending at Close, reads and a second Close after Close, QoS x3; outage: the same with 1-2 loud link failures in the middle (keepalive 10/40 ms, the broker accepts the redial and the resume request), half of them with a 10 s flush interval so that every result read before the failure is still pending when the link dies; the failed flushes are recovered from the gap in the ack ids; stuck: the peer stops reading so that an ack flush blocks in the transport write, the next chunk is read meanwhile, then the link is cut (the write fails) and the stream resumes; metaburst: 3-5 rounds of 300-500 metadata of a node named by two or three filters, sent back to back with a concurrent reader; filters may name a node twice, metadata of nodes without filter are sent too; pre-registered id lists may repeat an id; half of the metadata are of the other variants (upstream open / resume / normal and abnormal close naming an upstream whose chunks were sent and are often still queued, downstream open / resume / closes), the rest base times; a third of all cases (every QoS) run over a transport with an unreliable channel (AsUnreliable ok): chunks of unreliable-QoS streams are sent on it, reliable and partial ones on the reliable channel; connclose: 5-40 chunks arrive, 0..k-1 of them are read and their acks awaited, then Conn.Close with the rest still queued in the stream, then 2k further ReadDataPoints calls (5 ms and 3 s contexts), ReadMetadata, a stream Close and one more read; bigburst: 1500 / 2300 (with an awaited flush after the first part) / 2500 / 3100 chunks returned by ReadDataPoints with a 20 ms / 10 s / 1 h ack flush interval, then Close. non-trivial = >=2 upstreams returned, >=1 returned chunk whose upstream came in alias form, >=1 returned group in alias form, >=2 acks; distinct = distinct Coq case terms"
	if err := w.Flush(*seed, *tier, rule, false, nil); err != nil {
		fmt.Fprintln(os.Stderr, err)
		os.Exit(2)
	}
	os.Exit(0) // goroutines of library calls that hung are left behind; they must not keep the process alive
}

// h-isolation: C07 projection check on the REAL library.  Two or three upstreams (reliable and
// unreliable QoS) share one iscp.Conn (one sent storage, one wire connection with its routing
// tables) over memtr + the scripted broker; their operations are interleaved, optionally with one
// transport outage that all of them resume from.  Every stream's final observables (union ledger,
// retransmitted sequence numbers, ack-hook log, close totals, stored chunks, return codes) are
// compared inside Coq (Model/Route.v: c07_projection_ok) with those of the same stream driven
// ALONE through the same history.
package main

import (
	"context"
	"encoding/json"
	"errors"
	"flag"
	"fmt"
	"hash/crc32"
	"os"
	"sort"
	"strings"
	"sync"
	"sync/atomic"
	"time"

	iscperrors "github.com/aptpod/iscp-go/errors"
	"github.com/aptpod/iscp-go/iscp"
	"github.com/aptpod/iscp-go/message"
	"github.com/aptpod/iscp-go/transport"
	"github.com/aptpod/iscp-go/verifhooks"
	uuid "github.com/google/uuid"

	"verif/internal/broker"
	"verif/internal/coqfmt"
	"verif/internal/memtr"
	"verif/internal/rng"
)

const wd = 4 * time.Second

type stepIn struct {
	Op   string `json:"op"` // write flush ack cut detect resume close openrefused
	S    int    `json:"s"`  // stream index
	ID   int    `json:"id,omitempty"`
	Lens []int  `json:"lens,omitempty"`
}
type caseIn struct {
	Reliable []bool   `json:"reliable"` // per stream
	// per stream, what happens to its resume request on the new connection: "" / "ok" = answered with
	// success; "refused" = answered with a failure code and a zero alias (the stream closes itself);
	// "closepending" = left unanswered while the application closes the stream (its close request
	// travels on the new connection, where the stream has no alias entry)
	Resume []string `json:"resume,omitempty"`
	Steps    []stepIn `json:"steps"`
}

type countStorage struct {
	iscp.VerifSentStorage
	stored chan [2]uint64 // (stream index unknown here) -> signalled per Store: seq
	clears atomic.Int32
	lists  atomic.Int32
}

func (s *countStorage) Store(ctx context.Context, id uuid.UUID, seq uint32, d iscp.DataPointGroups) error {
	err := s.VerifSentStorage.Store(ctx, id, seq, d)
	select {
	case s.stored <- [2]uint64{uint64(id.ID()), uint64(seq)}:
	default:
	}
	return err
}
func (s *countStorage) Clear(ctx context.Context, id uuid.UUID) error {
	err := s.VerifSentStorage.Clear(ctx, id)
	s.clears.Add(1)
	return err
}
func (s *countStorage) List(ctx context.Context, id uuid.UUID) (map[uint32]iscp.DataPointGroups, error) {
	m, err := s.VerifSentStorage.List(ctx, id)
	s.lists.Add(1)
	return m, err
}

func dig(b []byte) uint64 {
	if len(b) == 0 {
		return 0
	}
	return uint64(crc32.ChecksumIEEE(b))%9973 + 1
}

type rxT struct {
	inc     int
	seq     uint32
	content string
}

type streamEnv struct {
	id      uuid.UUID
	alias   uint32
	up      *iscp.Upstream
	rx      []rxT
	acked   []int
	closeRq [][2]uint64
	rets    []string
	outst   map[uint32]bool
	closed  bool
	dirty   bool
}

type obsT struct{ term string }

func call(f func() error) (error, bool) {
	ch := make(chan error, 1)
	go func() { ch <- f() }()
	select {
	case err := <-ch:
		return err, false
	case <-time.After(wd):
		return nil, true
	}
}

// run the scenario; only >= 0: drive that stream alone (the other streams are not even opened)
func runScenario(c *caseIn, seed uint64, only int) (obs []string, direct, discard string) {
	r := rng.New(seed)
	var mu sync.Mutex
	n := len(c.Reliable)
	st := make([]*streamEnv, n)
	byID := map[uuid.UUID]*streamEnv{}
	byAlias := map[uint32]*streamEnv{}
	for i := range st {
		st[i] = &streamEnv{id: uuid.New(), alias: uint32(i), outst: map[uint32]bool{}}
		byID[st[i].id] = st[i]
		byAlias[st[i].alias] = st[i]
	}
	incOf := map[*broker.Session]int{}
	ninc := 0
	nextOpen := 0
	openOrder := []int{}
	var gateOpen atomic.Bool
	var gateHits atomic.Int32
	resumeCh := make(chan struct {
		s *broker.Session
		m *message.UpstreamResumeRequest
	}, 16)
	autoAckResend := map[[2]uint32]bool{} // (alias, seq) expected resends, acknowledged on reception
	b := broker.New(func(s *broker.Session, m message.Message) {
		switch v := m.(type) {
		case *message.ConnectRequest:
			mu.Lock()
			incOf[s] = ninc
			ninc++
			mu.Unlock()
			broker.AcceptConnect(s, v)
		case *message.UpstreamOpenRequest:
			if v.SessionID == "ghost-refused" {
				// a refused open: failure code, zero stream id, zero alias
				s.Send(&message.UpstreamOpenResponse{RequestID: v.RequestID, ResultCode: message.ResultCodeSessionAlreadyClosed, ResultString: "refused"})
				return
			}
			mu.Lock()
			e := st[openOrder[nextOpen]]
			nextOpen++
			mu.Unlock()
			s.Send(&message.UpstreamOpenResponse{RequestID: v.RequestID, AssignedStreamID: e.id, AssignedStreamIDAlias: e.alias,
				ResultCode: message.ResultCodeSucceeded, ServerTime: time.Unix(1700000000, 0)})
		case *message.UpstreamChunk:
			mu.Lock()
			e := byAlias[v.StreamIDAlias]
			if e == nil {
				mu.Unlock()
				return
			}
			var gs []string
			type g struct {
				id  int
				pts string
			}
			var gl []g
			for _, x := range v.StreamChunk.DataPointGroups {
				id := 900000
				if d, ok := x.DataIDOrAlias.(*message.DataID); ok {
					fmt.Sscanf(d.Name, "n%d", &id)
				}
				var ps []string
				for _, p := range x.DataPoints {
					ps = append(ps, fmt.Sprintf("(%d,%d,%d)", int64(p.ElapsedTime), dig(p.Payload), len(p.Payload)))
				}
				gl = append(gl, g{id, coqfmt.List(ps)})
			}
			sort.SliceStable(gl, func(i, j int) bool { return gl[i].id < gl[j].id })
			for _, x := range gl {
				gs = append(gs, fmt.Sprintf("(%d,%s)", x.id, x.pts))
			}
			seq := v.StreamChunk.SequenceNumber
			e.rx = append(e.rx, rxT{incOf[s], seq, coqfmt.List(gs)})
			ack := autoAckResend[[2]uint32{e.alias, seq}]
			delete(autoAckResend, [2]uint32{e.alias, seq})
			alias := e.alias
			mu.Unlock()
			if ack {
				s.Send(&message.UpstreamChunkAck{StreamIDAlias: alias, Results: []*message.UpstreamChunkResult{{SequenceNumber: seq, ResultCode: message.ResultCodeSucceeded}}})
			}
		case *message.UpstreamResumeRequest:
			resumeCh <- struct {
				s *broker.Session
				m *message.UpstreamResumeRequest
			}{s, v}
		case *message.UpstreamCloseRequest:
			mu.Lock()
			if e := byID[v.StreamID]; e != nil {
				e.closeRq = append(e.closeRq, [2]uint64{v.TotalDataPoints, uint64(v.FinalSequenceNumber)})
			}
			mu.Unlock()
			s.Send(&message.UpstreamCloseResponse{RequestID: v.RequestID, ResultCode: message.ResultCodeSucceeded})
		}
	})
	defer b.Release()
	gateOpen.Store(true)
	b.OnDial = func(idx int, _ transport.DialConfig) error {
		if idx == 0 {
			return nil
		}
		gateHits.Add(1)
		if !gateOpen.Load() {
			return errors.New("verif broker: dial refused (gate closed)")
		}
		return nil
	}
	store := &countStorage{VerifSentStorage: iscp.VerifNewInmemSentStorage(), stored: make(chan [2]uint64, 4096)}
	var conn *iscp.Conn
	err, blocked := call(func() error {
		var err error
		conn, err = iscp.Connect(b.Address, broker.TransportName, iscp.VerifWithSentStorage(store),
			iscp.WithConnPingInterval(10*time.Millisecond), iscp.WithConnPingTimeout(40*time.Millisecond))
		return err
	})
	if blocked || err != nil {
		return nil, fmt.Sprintf("harness: connect failed: %v %v", err, blocked), ""
	}
	defer func() {
		gateOpen.Store(false)
		ctx, cancel := context.WithTimeout(context.Background(), time.Second)
		go func() { defer cancel(); conn.Close(ctx) }()
	}()
	active := func(i int) bool { return only < 0 || only == i }
	for i := 0; i < n; i++ {
		if !active(i) {
			continue
		}
		i := i
		mu.Lock()
		openOrder = append(openOrder, i)
		mu.Unlock()
		qos := message.QoSReliable
		if !c.Reliable[i] {
			qos = message.QoSUnreliable
		}
		err, blocked := call(func() error {
			ctx, cancel := context.WithTimeout(context.Background(), wd)
			defer cancel()
			var err error
			st[i].up, err = conn.OpenUpstream(ctx, fmt.Sprintf("s%d", i), iscp.WithUpstreamFlushPolicyNone(), iscp.WithUpstreamQoS(qos),
				iscp.WithUpstreamCloseTimeout(2*time.Second),
				iscp.WithUpstreamReceiveAckHooker(iscp.ReceiveAckHookerFunc(func(id uuid.UUID, res iscp.UpstreamChunkResult) {
					mu.Lock()
					if e := byID[id]; e != nil {
						e.acked = append(e.acked, int(res.SequenceNumber))
					}
					mu.Unlock()
				})))
			return err
		})
		if blocked || err != nil {
			return nil, fmt.Sprintf("harness: open failed: %v %v", err, blocked), ""
		}
	}
	inc := 0
	linkUp := true
	var elapsed uint64
	expectHits := int32(0)
	listStored := func(e *streamEnv) []int {
		m, _ := store.VerifSentStorage.List(context.Background(), e.id)
		var ks []int
		for k := range m {
			ks = append(ks, int(k))
		}
		sort.Ints(ks)
		return ks
	}
	arrived := func(e *streamEnv, seq uint32) bool {
		return broker.WaitFor(wd, func() bool {
			mu.Lock()
			defer mu.Unlock()
			for _, x := range e.rx {
				if x.inc == inc && x.seq == seq {
					return true
				}
			}
			return false
		})
	}
	retOf := func(err error) string {
		if err != nil {
			return "1"
		}
		return "0"
	}
	for _, op := range c.Steps {
		if linkUp && gateHits.Load() != expectHits {
			return nil, "", "unexpected redial while the link was up"
		}
		var e *streamEnv
		if op.Op == "write" || op.Op == "flush" || op.Op == "ack" || op.Op == "close" {
			if !active(op.S) {
				// keep the payload generator aligned between the shared and the solo run
				if op.Op == "write" {
					for _, ln := range op.Lens {
						elapsed++
						r.Bytes(ln)
					}
				}
				continue
			}
			e = st[op.S]
		}
		switch op.Op {
		case "write":
			var dps []*message.DataPoint
			for _, ln := range op.Lens {
				elapsed++
				dps = append(dps, &message.DataPoint{ElapsedTime: time.Duration(elapsed), Payload: r.Bytes(ln)})
			}
			did := &message.DataID{Name: fmt.Sprintf("n%d", op.ID), Type: "t"}
			err, blocked := call(func() error {
				ctx, cancel := context.WithTimeout(context.Background(), wd)
				defer cancel()
				return e.up.WriteDataPoints(ctx, did, dps...)
			})
			if blocked {
				if !linkUp {
					return nil, "", "write after the cut blocked (outage noticed early)"
				}
				return nil, "WriteDataPoints did not return within the watchdog", ""
			}
			if err == nil {
				e.dirty = true
			}
			e.rets = append(e.rets, retOf(err))
		case "flush":
			err, blocked := call(func() error {
				ctx, cancel := context.WithTimeout(context.Background(), wd)
				defer cancel()
				return e.up.Flush(ctx)
			})
			if blocked {
				if !linkUp {
					return nil, "", "flush after the cut blocked (outage noticed early)"
				}
				return nil, "Flush did not return within the watchdog", ""
			}
			e.rets = append(e.rets, retOf(err))
			if err == nil && e.dirty {
				e.dirty = false
				select {
				case x := <-store.stored:
					if linkUp {
						if !arrived(e, uint32(x[1])) {
							return nil, fmt.Sprintf("chunk %d of stream %d was cut over a live link but never reached the broker", x[1], op.S), ""
						}
						e.outst[uint32(x[1])] = true
					}
				case <-time.After(wd):
					return nil, "Flush returned nil but no chunk was stored", ""
				}
			}
		case "ack":
			if !linkUp || e.closed || len(e.outst) == 0 {
				continue
			}
			var seqs []uint32
			for q := range e.outst {
				seqs = append(seqs, q)
			}
			sort.Slice(seqs, func(i, j int) bool { return seqs[i] < seqs[j] })
			ack := &message.UpstreamChunkAck{StreamIDAlias: e.alias}
			for _, q := range seqs {
				ack.Results = append(ack.Results, &message.UpstreamChunkResult{SequenceNumber: q, ResultCode: message.ResultCodeSucceeded})
			}
			b.Current().Send(ack)
			if !broker.WaitFor(wd, func() bool {
				m, _ := store.VerifSentStorage.List(context.Background(), e.id)
				for _, q := range seqs {
					if _, still := m[q]; still {
						return false
					}
				}
				return true
			}) {
				return nil, fmt.Sprintf("ack %v for stream %d (alias %d) was not processed: chunks still stored", seqs, op.S, e.alias), ""
			}
			e.outst = map[uint32]bool{}
		case "openrefused":
			if !linkUp || only >= 0 {
				continue // belongs to no stream: absent from every solo run
			}
			_, blocked := call(func() error {
				ctx, cancel := context.WithTimeout(context.Background(), wd)
				defer cancel()
				_, err := conn.OpenUpstream(ctx, "ghost-refused", iscp.WithUpstreamFlushPolicyNone(), iscp.WithUpstreamQoS(message.QoSReliable))
				if err == nil {
					return errors.New("harness: a refused open returned a stream")
				}
				return nil
			})
			if blocked {
				return nil, "OpenUpstream (refused by the broker) did not return within the watchdog", ""
			}
		case "cut":
			sess := b.Current()
			p0 := sess.Pings.Load()
			broker.WaitFor(200*time.Millisecond, func() bool { return sess.Pings.Load() != p0 })
			gateOpen.Store(false)
			sess.Link.Sever(memtr.Loud)
			linkUp = false
		case "detect":
			if linkUp {
				continue
			}
			if !broker.WaitFor(wd, func() bool { return gateHits.Load() != expectHits }) {
				return nil, "the client never noticed the dead link", ""
			}
			time.Sleep(5 * time.Millisecond)
			for {
				select {
				case <-store.stored:
					continue
				default:
				}
				break
			}
			for i := range st {
				st[i].outst = map[uint32]bool{}
				st[i].dirty = false
			}
		case "resume":
			if linkUp {
				continue
			}
			gateOpen.Store(true)
			if !broker.WaitFor(wd, func() bool { mu.Lock(); defer mu.Unlock(); return ninc > inc+1 }) {
				return nil, "the connection did not redial", ""
			}
			expectHits = gateHits.Load()
			linkUp = true
			inc++
			// collect the resume requests of all live streams, answer the unreliable ones first (their
			// new run clears its stored chunks), then the reliable ones (their new run lists and resends)
			want := 0
			for i := range st {
				if active(i) && !st[i].closed {
					want++
				}
			}
			type rqT struct {
				s *broker.Session
				m *message.UpstreamResumeRequest
			}
			var rqs []rqT
			for len(rqs) < want {
				select {
				case rq := <-resumeCh:
					rqs = append(rqs, rqT{rq.s, rq.m})
				case <-time.After(wd):
					return nil, fmt.Sprintf("only %d of %d streams sent a resume request after the redial (F9 or stuck)", len(rqs), want), ""
				}
			}
			idxOf := func(e *streamEnv) int {
				for k := range st {
					if st[k] == e {
						return k
					}
				}
				return 0
			}
			outcomeOf := func(k int) string {
				if k < len(c.Resume) && c.Resume[k] != "" {
					return c.Resume[k]
				}
				return "ok"
			}
			// answered in this order: successful unreliable, successful reliable (so that the neighbours are
			// registered on the new connection), then the refused ones, then the ones closed while pending
			rank := func(rq rqT) int {
				e := byID[rq.m.StreamID]
				if e == nil {
					return 0
				}
				k := idxOf(e)
				switch outcomeOf(k) {
				case "refused":
					return 2
				case "closepending":
					return 3
				}
				if c.Reliable[k] {
					return 1
				}
				return 0
			}
			sort.SliceStable(rqs, func(i, j int) bool { return rank(rqs[i]) < rank(rqs[j]) })
			for _, rq := range rqs {
				e := byID[rq.m.StreamID]
				if e == nil {
					return nil, "a resume request carried an unknown stream id", ""
				}
				idx := -1
				for i := range st {
					if st[i] == e {
						idx = i
					}
				}
				switch outcomeOf(idx) {
				case "refused":
					rq.s.Send(&message.UpstreamResumeResponse{RequestID: rq.m.RequestID, ResultCode: message.ResultCodeStreamNotFound, ResultString: "gone"})
					// the stream closes itself: its close request (answered by the broker) and then the stream-closed error
					if !broker.WaitFor(wd, func() bool {
						ctx, cancel := context.WithTimeout(context.Background(), time.Millisecond)
						defer cancel()
						return errors.Is(e.up.Flush(ctx), iscperrors.ErrStreamClosed)
					}) {
						return nil, fmt.Sprintf("stream %d: a refused resume did not close the stream within the watchdog", idx), ""
					}
					time.Sleep(2 * time.Millisecond)
					continue
				case "closepending":
					// the resume request stays unanswered; the application closes the stream meanwhile
					err, blocked := call(func() error {
						ctx, cancel := context.WithTimeout(context.Background(), wd)
						defer cancel()
						return e.up.Close(ctx)
					})
					if blocked {
						return nil, fmt.Sprintf("Close of stream %d (resume pending) did not return within the watchdog", idx), ""
					}
					e.closed = true
					e.rets = append(e.rets, retOf(err))
					time.Sleep(2 * time.Millisecond)
					continue
				}
				mu.Lock()
				delete(byAlias, e.alias)
				if idx != 0 {
					e.alias += 10 // the first stream is given stream alias 0 again on the new connection
				}
				byAlias[e.alias] = e
				stored := listStored(e)
				if c.Reliable[idx] {
					for _, q := range stored {
						autoAckResend[[2]uint32{e.alias, uint32(q)}] = true
					}
				}
				mu.Unlock()
				l0, c0 := store.lists.Load(), store.clears.Load()
				rq.s.Send(&message.UpstreamResumeResponse{RequestID: rq.m.RequestID, AssignedStreamIDAlias: e.alias, ResultCode: message.ResultCodeSucceeded})
				if !broker.WaitFor(wd, func() bool { return store.lists.Load() != l0 || store.clears.Load() != c0 }) {
					return nil, "after a successful resume the new run neither listed nor cleared the sent storage", ""
				}
				if c.Reliable[idx] {
					// every chunk that is still stored is resent and acknowledged on reception
					if !broker.WaitFor(wd, func() bool { return len(listStored(e)) == 0 }) {
						// what the new run found in the storage may be less than what was stored at the redial (F3)
						if !broker.WaitFor(50*time.Millisecond, func() bool { return len(listStored(e)) == 0 }) {
							return nil, fmt.Sprintf("stream %d: chunks %v stay stored after the resume (never resent or never acknowledged)", idx, listStored(e)), ""
						}
					}
				}
			}
			time.Sleep(time.Millisecond)
		case "close":
			if e.closed || !linkUp {
				continue
			}
			err, blocked := call(func() error {
				ctx, cancel := context.WithTimeout(context.Background(), wd)
				defer cancel()
				return e.up.Close(ctx)
			})
			if blocked {
				return nil, fmt.Sprintf("Close of stream %d did not return within the watchdog", op.S), ""
			}
			e.closed = true
			e.rets = append(e.rets, retOf(err))
		}
	}
	time.Sleep(3 * time.Millisecond)
	mu.Lock()
	defer mu.Unlock()
	for i, e := range st {
		if !active(i) {
			obs = append(obs, "")
			continue
		}
		bySeq := map[uint32][]string{}
		first := map[uint32]int{}
		retx := map[int]bool{}
		for _, x := range e.rx {
			dup := false
			for _, y := range bySeq[x.seq] {
				if y == x.content {
					dup = true
				}
			}
			if !dup {
				bySeq[x.seq] = append(bySeq[x.seq], x.content)
			}
			if f, ok := first[x.seq]; ok {
				if x.inc > f {
					retx[int(x.seq)] = true
				}
			} else {
				first[x.seq] = x.inc
			}
		}
		var seqs, rt []int
		for q := range bySeq {
			seqs = append(seqs, int(q))
		}
		for q := range retx {
			rt = append(rt, q)
		}
		sort.Ints(seqs)
		sort.Ints(rt)
		sort.Ints(e.acked)
		var led, rtT, ak, cl, sto []string
		for _, q := range seqs {
			led = append(led, fmt.Sprintf("(%d,%s)", q, coqfmt.List(bySeq[uint32(q)])))
		}
		for _, q := range rt {
			rtT = append(rtT, fmt.Sprint(q))
		}
		for _, q := range e.acked {
			ak = append(ak, fmt.Sprint(q))
		}
		for _, x := range e.closeRq {
			cl = append(cl, fmt.Sprintf("(%d,%d)", x[0], x[1]))
		}
		for _, q := range listStored(e) {
			sto = append(sto, fmt.Sprint(q))
		}
		obs = append(obs, fmt.Sprintf("(mkIsoObs %s %s %s %s %s %s)", coqfmt.List(led), coqfmt.List(rtT), coqfmt.List(ak), coqfmt.List(cl), coqfmt.List(sto), coqfmt.List(e.rets)))
	}
	return obs, "", ""
}

// lifecycle: the case contains a refused open, a refused resume or a close while a resume is pending
func lifecycle(c *caseIn) bool {
	for _, x := range c.Resume {
		if x != "" && x != "ok" {
			return true
		}
	}
	for _, st := range c.Steps {
		if st.Op == "openrefused" {
			return true
		}
	}
	return false
}

// runDeadDownstream: a downstream whose open was REFUSED leaves its subscriptions in the wire
// connection's routing tables with nobody draining them.  The broker then sends more chunks to that
// alias than its channel holds (1024 + the 8-slot feeder), followed by one chunk for a live
// neighbour downstream and an ack for a live upstream: both must still arrive - traffic addressed
// to one alias must not stall the others.
func runDeadDownstream(flood int) (direct string) {
	var mu sync.Mutex
	var dnAliases []uint32
	dnID := uuid.New()
	upID := uuid.New()
	var acked atomic.Int32
	b := broker.New(func(s *broker.Session, m message.Message) {
		switch v := m.(type) {
		case *message.ConnectRequest:
			broker.AcceptConnect(s, v)
		case *message.DownstreamOpenRequest:
			mu.Lock()
			n := len(dnAliases)
			dnAliases = append(dnAliases, v.DesiredStreamIDAlias)
			mu.Unlock()
			if n == 0 {
				s.Send(&message.DownstreamOpenResponse{RequestID: v.RequestID, ResultCode: message.ResultCodeSessionAlreadyClosed, ResultString: "refused"})
			} else {
				s.Send(&message.DownstreamOpenResponse{RequestID: v.RequestID, AssignedStreamID: dnID, ResultCode: message.ResultCodeSucceeded, ServerTime: time.Unix(1700000000, 0)})
			}
		case *message.UpstreamOpenRequest:
			s.Send(&message.UpstreamOpenResponse{RequestID: v.RequestID, AssignedStreamID: upID, AssignedStreamIDAlias: 0, ResultCode: message.ResultCodeSucceeded})
		case *message.UpstreamChunk:
			// acknowledged later, behind the flood
		case *message.UpstreamCloseRequest:
			s.Send(&message.UpstreamCloseResponse{RequestID: v.RequestID, ResultCode: message.ResultCodeSucceeded})
		case *message.DownstreamCloseRequest:
			s.Send(&message.DownstreamCloseResponse{RequestID: v.RequestID, ResultCode: message.ResultCodeSucceeded})
		}
	})
	defer b.Release()
	conn, err := iscp.Connect(b.Address, broker.TransportName, iscp.WithConnPingInterval(time.Hour), iscp.WithConnPingTimeout(time.Hour))
	if err != nil {
		return "harness: connect failed: " + err.Error()
	}
	defer func() {
		ctx, cancel := context.WithTimeout(context.Background(), time.Second)
		go func() { defer cancel(); conn.Close(ctx) }()
	}()
	ctx, cancel := context.WithTimeout(context.Background(), 3*wd)
	defer cancel()
	filters := []*message.DownstreamFilter{message.NewDownstreamFilterAllFor("src")}
	if _, err := conn.OpenDownstream(ctx, filters, iscp.WithDownstreamQoS(message.QoSReliable)); err == nil {
		return "harness: the refused OpenDownstream returned a stream"
	}
	d2, err := conn.OpenDownstream(ctx, filters, iscp.WithDownstreamQoS(message.QoSReliable))
	if err != nil {
		return "harness: second OpenDownstream failed: " + err.Error()
	}
	up, err := conn.OpenUpstream(ctx, "s", iscp.WithUpstreamFlushPolicyNone(), iscp.WithUpstreamQoS(message.QoSReliable),
		iscp.WithUpstreamReceiveAckHooker(iscp.ReceiveAckHookerFunc(func(uuid.UUID, iscp.UpstreamChunkResult) { acked.Add(1) })))
	if err != nil {
		return "harness: OpenUpstream failed: " + err.Error()
	}
	if err := up.WriteDataPoints(ctx, &message.DataID{Name: "n1", Type: "t"}, &message.DataPoint{ElapsedTime: 1, Payload: []byte{1}}); err != nil {
		return "harness: write failed: " + err.Error()
	}
	if err := up.Flush(ctx); err != nil {
		return "harness: flush failed: " + err.Error()
	}
	mu.Lock()
	dead, live := dnAliases[0], dnAliases[1]
	mu.Unlock()
	info := &message.UpstreamInfo{SessionID: "s", SourceNodeID: "src", StreamID: uuid.New()}
	mk := func(alias uint32, seq uint32) *message.DownstreamChunk {
		return &message.DownstreamChunk{StreamIDAlias: alias, UpstreamOrAlias: info, StreamChunk: &message.StreamChunk{SequenceNumber: seq,
			DataPointGroups: []*message.DataPointGroup{{DataIDOrAlias: &message.DataID{Name: "d", Type: "t"}, DataPoints: []*message.DataPoint{{ElapsedTime: time.Duration(seq), Payload: []byte{byte(seq)}}}}}}}
	}
	sess := b.Current()
	for i := 1; i <= flood; i++ {
		if err := sess.Send(mk(dead, uint32(i))); err != nil {
			return "harness: broker send failed: " + err.Error()
		}
	}
	sess.Send(mk(live, 1))
	sess.Send(&message.UpstreamChunkAck{StreamIDAlias: 0, Results: []*message.UpstreamChunkResult{{SequenceNumber: 1, ResultCode: message.ResultCodeSucceeded}}})
	rctx, rcancel := context.WithTimeout(context.Background(), wd)
	defer rcancel()
	ck, err := d2.ReadDataPoints(rctx)
	if err != nil || ck == nil || ck.SequenceNumber != 1 {
		return fmt.Sprintf("a live downstream did not receive its chunk within the watchdog (%v) after %d chunks had been addressed to the alias of a neighbour whose open was refused and which nobody reads: traffic for one alias stalled another", err, flood)
	}
	if !broker.WaitFor(wd, func() bool { return acked.Load() >= 1 }) {
		return fmt.Sprintf("a live upstream did not receive its ack within the watchdog after %d chunks had been addressed to the alias of a dead downstream", flood)
	}
	return ""
}

// ---------------------------------------------------------------- scenarios with the library's own timers / deadlines

// miniBroker answers handshakes, opens (alias = order of opening), closes, resumes (always ok) and
// acknowledges every chunk on reception; it records per stream alias what it received, the resume
// requests and stays silent on requests marked as such.
type miniBroker struct {
	mu       sync.Mutex
	b        *broker.Broker
	ids      []uuid.UUID
	rx       map[uuid.UUID][]uint32 // stream id -> sequence numbers in arrival order
	aliasOf  map[uint32]uuid.UUID
	resumes  int
	noAck    bool
	gateOpen atomic.Bool
	// slow-resume scenario
	answerAll    bool               // downstream opens and metadata are answered
	holdUp       map[uuid.UUID]bool // upstream resume requests of these streams are withheld
	holdDown     bool               // downstream resume requests are withheld
	conflictLeft int                // answer this many held-stream resume requests with ResumeRequestConflict first
	held         []func()           // withheld answers, released by releaseHeld
	heldSeen     atomic.Int32       // withheld (or conflict-answered) resume requests that reached the broker
	resumedIDs   map[uuid.UUID]int  // successful upstream resumes per stream
	// abandoned-close / close-option scenarios
	holdClose    map[uuid.UUID]bool  // close responses of these streams are withheld
	nextAlias    *uint32             // the alias of the next open response (the broker re-uses an alias)
	closeSession map[uuid.UUID][]bool // CloseSession flag of every close request, per stream
	// stray-frame scenario
	dnAliases      []uint32 // DesiredStreamIDAlias of every downstream open request, in order
	refuseNextDown bool     // the next downstream open is refused
	dnClosed       int      // downstream close requests answered
}

func (m *miniBroker) releaseHeld() {
	m.mu.Lock()
	h := m.held
	m.held = nil
	m.holdDown = false
	m.holdUp = nil
	m.mu.Unlock()
	for _, f := range h {
		f()
	}
}

func newMiniBroker() *miniBroker {
	m := &miniBroker{rx: map[uuid.UUID][]uint32{}, aliasOf: map[uint32]uuid.UUID{}, resumedIDs: map[uuid.UUID]int{}}
	m.gateOpen.Store(true)
	m.b = broker.New(func(s *broker.Session, msg message.Message) {
		switch v := msg.(type) {
		case *message.ConnectRequest:
			broker.AcceptConnect(s, v)
		case *message.UpstreamOpenRequest:
			if v.SessionID == "silent" {
				return
			}
			m.mu.Lock()
			id := uuid.New()
			alias := uint32(len(m.ids))
			if m.nextAlias != nil {
				alias = *m.nextAlias
				m.nextAlias = nil
			}
			m.ids = append(m.ids, id)
			m.aliasOf[alias] = id
			m.mu.Unlock()
			s.Send(&message.UpstreamOpenResponse{RequestID: v.RequestID, AssignedStreamID: id, AssignedStreamIDAlias: alias, ResultCode: message.ResultCodeSucceeded})
		case *message.UpstreamResumeRequest:
			m.mu.Lock()
			answer := func() {
				m.mu.Lock()
				m.resumes++
				m.resumedIDs[v.StreamID]++
				alias := uint32(100 + m.resumes)
				m.aliasOf[alias] = v.StreamID
				m.mu.Unlock()
				s.Send(&message.UpstreamResumeResponse{RequestID: v.RequestID, AssignedStreamIDAlias: alias, ResultCode: message.ResultCodeSucceeded})
			}
			if m.holdUp[v.StreamID] {
				m.heldSeen.Add(1)
				if m.conflictLeft > 0 {
					m.conflictLeft--
					m.mu.Unlock()
					s.Send(&message.UpstreamResumeResponse{RequestID: v.RequestID, ResultCode: message.ResultCodeResumeRequestConflict, ResultString: "conflict"})
					return
				}
				m.held = append(m.held, answer)
				m.mu.Unlock()
				return
			}
			m.mu.Unlock()
			answer()
		case *message.DownstreamResumeRequest:
			answer := func() {
				s.Send(&message.DownstreamResumeResponse{RequestID: v.RequestID, ResultCode: message.ResultCodeSucceeded})
			}
			m.mu.Lock()
			if m.holdDown {
				m.heldSeen.Add(1)
				m.held = append(m.held, answer)
				m.mu.Unlock()
				return
			}
			m.mu.Unlock()
			answer()
		case *message.UpstreamChunk:
			m.mu.Lock()
			id := m.aliasOf[v.StreamIDAlias]
			m.rx[id] = append(m.rx[id], v.StreamChunk.SequenceNumber)
			noAck := m.noAck
			m.mu.Unlock()
			if !noAck {
				s.Send(&message.UpstreamChunkAck{StreamIDAlias: v.StreamIDAlias, Results: []*message.UpstreamChunkResult{{SequenceNumber: v.StreamChunk.SequenceNumber, ResultCode: message.ResultCodeSucceeded}}})
			}
		case *message.UpstreamCloseRequest:
			m.mu.Lock()
			if m.closeSession == nil {
				m.closeSession = map[uuid.UUID][]bool{}
			}
			m.closeSession[v.StreamID] = append(m.closeSession[v.StreamID], v.ExtensionFields != nil && v.ExtensionFields.CloseSession)
			hold := m.holdClose[v.StreamID]
			m.mu.Unlock()
			if !hold {
				s.Send(&message.UpstreamCloseResponse{RequestID: v.RequestID, ResultCode: message.ResultCodeSucceeded})
			}
		case *message.DownstreamOpenRequest:
			m.mu.Lock()
			m.dnAliases = append(m.dnAliases, v.DesiredStreamIDAlias)
			refuse := m.refuseNextDown
			m.refuseNextDown = false
			m.mu.Unlock()
			if refuse {
				s.Send(&message.DownstreamOpenResponse{RequestID: v.RequestID, ResultCode: message.ResultCodeSessionAlreadyClosed, ResultString: "refused"})
				return
			}
			if m.answerAll {
				s.Send(&message.DownstreamOpenResponse{RequestID: v.RequestID, AssignedStreamID: uuid.New(), ResultCode: message.ResultCodeSucceeded, ServerTime: time.Unix(1700000000, 0)})
			} // else silent: never answered
		case *message.UpstreamMetadata:
			if m.answerAll {
				s.Send(&message.UpstreamMetadataAck{RequestID: v.RequestID, ResultCode: message.ResultCodeSucceeded})
			}
		case *message.DownstreamCloseRequest:
			s.Send(&message.DownstreamCloseResponse{RequestID: v.RequestID, ResultCode: message.ResultCodeSucceeded})
			m.mu.Lock()
			m.dnClosed++
			m.mu.Unlock()
		}
	})
	m.b.OnDial = func(idx int, _ transport.DialConfig) error {
		if idx > 0 && !m.gateOpen.Load() {
			return errors.New("verif broker: dial refused")
		}
		return nil
	}
	return m
}

func (m *miniBroker) received(id uuid.UUID) []uint32 {
	m.mu.Lock()
	defer m.mu.Unlock()
	return append([]uint32(nil), m.rx[id]...)
}

const timerSlack = 4 * time.Second // generous: the machine is loaded; the library's default interval is 100 ms

// runSharedTimer: upstreams that share the library's DEFAULT flush policy object (no flush-policy
// option) or one policy object handed to several streams; one of them leaves (Close), optionally
// after an outage all of them resumed from; the survivor's small write must still be flushed by its
// own interval timer.
func runSharedTimer(variant string) (direct string) {
	m := newMiniBroker()
	defer m.b.Release()
	conn, err := iscp.Connect(m.b.Address, broker.TransportName, iscp.WithConnPingInterval(10*time.Millisecond), iscp.WithConnPingTimeout(2*time.Second))
	if err != nil {
		return "harness: connect failed: " + err.Error()
	}
	defer func() {
		m.gateOpen.Store(false)
		ctx, cancel := context.WithTimeout(context.Background(), time.Second)
		go func() { defer cancel(); conn.Close(ctx) }()
	}()
	ctx, cancel := context.WithTimeout(context.Background(), 6*wd)
	defer cancel()
	n := 2
	if strings.Contains(variant, "three") {
		n = 3
	}
	var opts []iscp.UpstreamOption
	if strings.HasPrefix(variant, "sameobj") {
		var cfg iscp.UpstreamConfig
		iscp.WithUpstreamFlushPolicyIntervalOnly(100 * time.Millisecond)(&cfg)
		opts = append(opts, iscp.WithUpstreamFlushPolicy(cfg.FlushPolicy)) // ONE policy object for all streams
	}
	ups := make([]*iscp.Upstream, n)
	for i := range ups {
		o := append([]iscp.UpstreamOption{iscp.WithUpstreamQoS(message.QoSReliable), iscp.WithUpstreamCloseTimeout(2 * time.Second)}, opts...)
		if ups[i], err = conn.OpenUpstream(ctx, fmt.Sprintf("s%d", i), o...); err != nil {
			return "harness: open failed: " + err.Error()
		}
		time.Sleep(3 * time.Millisecond) // sequential opens: each flush loop starts after the previous one
	}
	el := 0
	writeAndExpect := func(i int, what string) string {
		before := len(m.received(ups[i].ID))
		el++
		if err := ups[i].WriteDataPoints(ctx, &message.DataID{Name: "n1", Type: "t"}, &message.DataPoint{ElapsedTime: time.Duration(el), Payload: []byte{byte(el)}}); err != nil {
			return "harness: write failed: " + err.Error()
		}
		t0 := time.Now()
		if !broker.WaitFor(timerSlack, func() bool { return len(m.received(ups[i].ID)) > before }) {
			return fmt.Sprintf("%s: a small write to upstream %d was not flushed by its interval timer within %v (default interval 100 ms): %s", variant, i, timerSlack, what)
		}
		_ = t0
		return ""
	}
	for i := range ups {
		if d := writeAndExpect(i, "before any neighbour left"); d != "" {
			if strings.HasPrefix(d, "harness:") {
				return d
			}
			return d
		}
	}
	leaver := 0
	if n == 3 {
		leaver = 1
	}
	if strings.Contains(variant, "resume") {
		// one outage that every stream resumes from
		m.gateOpen.Store(false)
		m.b.Current().Link.Sever(memtr.Loud)
		if !broker.WaitFor(wd, func() bool { return m.b.DialCount.Load() > 1 }) {
			return "the client never noticed the dead link (shared-timer scenario)"
		}
		time.Sleep(5 * time.Millisecond)
		m.gateOpen.Store(true)
		if !broker.WaitFor(wd, func() bool { m.mu.Lock(); defer m.mu.Unlock(); return m.resumes >= n }) {
			return fmt.Sprintf("only %d of %d upstreams sent a resume request after the redial", m.resumes, n)
		}
		time.Sleep(20 * time.Millisecond)
		for i := range ups {
			if d := writeAndExpect(i, "after all streams resumed from one outage"); d != "" {
				return d
			}
		}
	}
	cctx, ccancel := context.WithTimeout(context.Background(), wd)
	cerr := ups[leaver].Close(cctx)
	ccancel()
	if cerr != nil {
		return "harness: close of the leaving stream failed: " + cerr.Error()
	}
	time.Sleep(10 * time.Millisecond)
	for i := range ups {
		if i == leaver {
			continue
		}
		if d := writeAndExpect(i, fmt.Sprintf("after upstream %d was closed", leaver)); d != "" {
			return d
		}
	}
	return ""
}

// runDeadlineNeighbour: two working upstreams (reliable with an unacknowledged chunk, unreliable
// with an unacknowledged chunk) on a healthy connection; ANOTHER request (upstream open, downstream
// open, metadata) with a short deadline is left unanswered by the broker.  The caller gets its
// deadline error; the neighbours must see nothing: no disconnect, no redial, no resume request,
// no resumed event, no retransmission, no cleared store.
func runDeadlineNeighbour(kind string, deadline time.Duration) (direct string) {
	m := newMiniBroker()
	defer m.b.Release()
	var disc, reconn, resumed atomic.Int32
	store := &countStorage{VerifSentStorage: iscp.VerifNewInmemSentStorage(), stored: make(chan [2]uint64, 64)}
	conn, err := iscp.Connect(m.b.Address, broker.TransportName, iscp.VerifWithSentStorage(store),
		iscp.WithConnPingInterval(20*time.Millisecond), iscp.WithConnPingTimeout(5*time.Second),
		iscp.WithConnDisconnectedEventHandler(iscp.DisconnectedEventHandlerFunc(func(*iscp.DisconnectedEvent) { disc.Add(1) })),
		iscp.WithConnReconnectedEventHandler(iscp.ReconnectedEventHandlerFunc(func(*iscp.ReconnectedEvent) { reconn.Add(1) })))
	if err != nil {
		return "harness: connect failed: " + err.Error()
	}
	closing := false
	defer func() {
		closing = true
		ctx, cancel := context.WithTimeout(context.Background(), time.Second)
		go func() { defer cancel(); conn.Close(ctx) }()
	}()
	_ = closing
	ctx, cancel := context.WithTimeout(context.Background(), 4*wd)
	defer cancel()
	onResumed := iscp.WithUpstreamResumedEventHandler(iscp.UpstreamResumedEventHandlerFunc(func(*iscp.UpstreamResumedEvent) { resumed.Add(1) }))
	a, err := conn.OpenUpstream(ctx, "a", iscp.WithUpstreamFlushPolicyNone(), iscp.WithUpstreamQoS(message.QoSReliable), onResumed)
	if err != nil {
		return "harness: open failed: " + err.Error()
	}
	bu, err := conn.OpenUpstream(ctx, "b", iscp.WithUpstreamFlushPolicyNone(), iscp.WithUpstreamQoS(message.QoSUnreliable), onResumed)
	if err != nil {
		return "harness: open failed: " + err.Error()
	}
	m.mu.Lock()
	m.noAck = true // both streams keep one unacknowledged chunk: a resume would retransmit / clear it
	m.mu.Unlock()
	for i, u := range []*iscp.Upstream{a, bu} {
		if err := u.WriteDataPoints(ctx, &message.DataID{Name: "n1", Type: "t"}, &message.DataPoint{ElapsedTime: time.Duration(i + 1), Payload: []byte{9}}); err != nil {
			return "harness: write failed: " + err.Error()
		}
		if err := u.Flush(ctx); err != nil {
			return "harness: flush failed: " + err.Error()
		}
		if !broker.WaitFor(wd, func() bool { return len(m.received(u.ID)) == 1 }) {
			return "harness: first chunk never arrived"
		}
	}
	dials0 := m.b.DialCount.Load()
	// the unanswered request
	dctx, dcancel := context.WithTimeout(context.Background(), deadline)
	var rerr error
	switch kind {
	case "open-upstream":
		_, rerr = conn.OpenUpstream(dctx, "silent", iscp.WithUpstreamFlushPolicyNone())
	case "open-downstream":
		_, rerr = conn.OpenDownstream(dctx, []*message.DownstreamFilter{message.NewDownstreamFilterAllFor("src")})
	default:
		rerr = conn.SendBaseTime(dctx, &message.BaseTime{SessionID: "a", Name: "x", BaseTime: time.Unix(1700000000, 0)})
	}
	dcancel()
	if rerr == nil {
		return "harness: the unanswered request returned nil"
	}
	// give a (wrong) reconnect every chance to happen and to complete
	time.Sleep(deadline + 250*time.Millisecond)
	storedB := func() int { mm, _ := store.VerifSentStorage.List(context.Background(), bu.ID); return len(mm) }
	var bad []string
	if d := m.b.DialCount.Load(); d != dials0 {
		bad = append(bad, fmt.Sprintf("the connection was redialled (%d -> %d dials)", dials0, d))
	}
	if disc.Load() != 0 || reconn.Load() != 0 {
		bad = append(bad, fmt.Sprintf("disconnected/reconnected events: %d/%d", disc.Load(), reconn.Load()))
	}
	m.mu.Lock()
	nres := m.resumes
	m.mu.Unlock()
	if nres != 0 {
		bad = append(bad, fmt.Sprintf("%d resume request(s) reached the broker", nres))
	}
	if resumed.Load() != 0 {
		bad = append(bad, fmt.Sprintf("%d resumed event(s)", resumed.Load()))
	}
	if r := m.received(a.ID); len(r) != 1 {
		bad = append(bad, fmt.Sprintf("the reliable neighbour's chunk was received %d times %v", len(r), r))
	}
	if storedB() != 1 {
		bad = append(bad, "the unreliable neighbour's unacknowledged chunk left the sent storage")
	}
	// and the neighbours go on working on the same connection
	m.mu.Lock()
	m.noAck = false
	m.mu.Unlock()
	if len(bad) == 0 {
		for _, u := range []*iscp.Upstream{a, bu} {
			if err := u.WriteDataPoints(ctx, &message.DataID{Name: "n1", Type: "t"}, &message.DataPoint{ElapsedTime: 7, Payload: []byte{7}}); err != nil {
				bad = append(bad, "a neighbour's write failed: "+err.Error())
				break
			}
			fctx, fcancel := context.WithTimeout(context.Background(), wd)
			ferr := u.Flush(fctx)
			fcancel()
			if ferr != nil || !broker.WaitFor(wd, func() bool { return len(m.received(u.ID)) == 2 }) {
				bad = append(bad, fmt.Sprintf("a neighbour's next chunk did not reach the broker (flush: %v, received %v)", ferr, m.received(u.ID)))
				break
			}
		}
	}
	if len(bad) > 0 {
		return fmt.Sprintf("a %s request with a %v deadline that the broker left unanswered (caller got: %v) disturbed the other streams of the healthy connection: %s", kind, deadline, rerr, strings.Join(bad, "; "))
	}
	return ""
}

// runSlowResume: after an outage the broker withholds the resume response of ONE stream (a
// downstream, or an upstream; or answers an upstream's with conflict a few times) while it answers
// everything else promptly.  Meanwhile the rest of the connection must go on: a new upstream and a
// new downstream can be opened, metadata can be sent, and the sibling reliable upstream resumes and
// retransmits its unacknowledged chunk.  Then the withheld answer is released.
func runSlowResume(variant string) (direct string) {
	m := newMiniBroker()
	m.answerAll = true
	defer m.b.Release()
	conn, err := iscp.Connect(m.b.Address, broker.TransportName, iscp.WithConnPingInterval(10*time.Millisecond), iscp.WithConnPingTimeout(2*time.Second))
	if err != nil {
		return "harness: connect failed: " + err.Error()
	}
	defer func() {
		m.releaseHeld()
		m.gateOpen.Store(false)
		go func() {
			ctx, cancel := context.WithTimeout(context.Background(), time.Second)
			defer cancel()
			conn.Close(ctx)
		}()
	}()
	ctx, cancel := context.WithTimeout(context.Background(), 6*wd)
	defer cancel()
	a, err := conn.OpenUpstream(ctx, "a", iscp.WithUpstreamFlushPolicyNone(), iscp.WithUpstreamQoS(message.QoSReliable))
	if err != nil {
		return "harness: open failed: " + err.Error()
	}
	m.mu.Lock()
	m.noAck = true
	m.mu.Unlock()
	if err := a.WriteDataPoints(ctx, &message.DataID{Name: "n1", Type: "t"}, &message.DataPoint{ElapsedTime: 1, Payload: []byte{1}}); err != nil {
		return "harness: write failed: " + err.Error()
	}
	if err := a.Flush(ctx); err != nil {
		return "harness: flush failed: " + err.Error()
	}
	if !broker.WaitFor(wd, func() bool { return len(m.received(a.ID)) == 1 }) {
		return "harness: first chunk never arrived"
	}
	filters := []*message.DownstreamFilter{message.NewDownstreamFilterAllFor("src")}
	m.mu.Lock()
	switch variant {
	case "downstream-withheld":
		m.holdDown = true
	}
	m.mu.Unlock()
	if variant == "downstream-withheld" {
		if _, err := conn.OpenDownstream(ctx, filters, iscp.WithDownstreamQoS(message.QoSReliable)); err != nil {
			return "harness: OpenDownstream failed: " + err.Error()
		}
	} else {
		u2, err := conn.OpenUpstream(ctx, "slow", iscp.WithUpstreamFlushPolicyNone(), iscp.WithUpstreamQoS(message.QoSReliable))
		if err != nil {
			return "harness: open failed: " + err.Error()
		}
		m.mu.Lock()
		m.holdUp = map[uuid.UUID]bool{u2.ID: true}
		if variant == "upstream-conflict" {
			m.conflictLeft = 3
		}
		m.mu.Unlock()
	}
	// one outage
	m.gateOpen.Store(false)
	m.b.Current().Link.Sever(memtr.Loud)
	if !broker.WaitFor(wd, func() bool { return m.b.DialCount.Load() > 1 }) {
		return "the client never noticed the dead link (slow-resume scenario)"
	}
	time.Sleep(5 * time.Millisecond)
	m.mu.Lock()
	m.noAck = false
	m.mu.Unlock()
	m.gateOpen.Store(true)
	// the slow stream's resume request is at the broker and stays unanswered
	if !broker.WaitFor(wd, func() bool { return m.heldSeen.Load() >= 1 }) {
		return "harness: the slow stream sent no resume request"
	}
	time.Sleep(10 * time.Millisecond)
	var bad []string
	timed := func(what string, limit time.Duration, f func(context.Context) error) {
		t0 := time.Now()
		done := make(chan error, 1)
		go func() {
			c2, cancel2 := context.WithTimeout(context.Background(), limit)
			defer cancel2()
			done <- f(c2)
		}()
		select {
		case err := <-done:
			if err != nil {
				bad = append(bad, fmt.Sprintf("%s failed after %v: %v", what, time.Since(t0).Round(time.Millisecond), err))
			}
		case <-time.After(limit + time.Second):
			bad = append(bad, fmt.Sprintf("%s did not return within %v (its context of %v expired long before): it is blocked behind the other stream's pending resume", what, limit+time.Second, limit))
		}
	}
	const lim = 1500 * time.Millisecond // the expectation is ~ms; generous for a loaded machine
	timed("a new OpenUpstream", lim, func(c2 context.Context) error {
		_, err := conn.OpenUpstream(c2, "new", iscp.WithUpstreamFlushPolicyNone(), iscp.WithUpstreamQoS(message.QoSReliable))
		return err
	})
	timed("a new OpenDownstream", lim, func(c2 context.Context) error {
		_, err := conn.OpenDownstream(c2, filters, iscp.WithDownstreamQoS(message.QoSReliable))
		return err
	})
	timed("SendBaseTime", lim, func(c2 context.Context) error {
		return conn.SendBaseTime(c2, &message.BaseTime{SessionID: "a", Name: "x", BaseTime: time.Unix(1700000000, 0)})
	})
	// the sibling reliable upstream resumes and retransmits its unacknowledged chunk while the other answer is pending
	if !broker.WaitFor(lim, func() bool {
		m.mu.Lock()
		n := m.resumedIDs[a.ID]
		m.mu.Unlock()
		return n >= 1 && len(m.received(a.ID)) >= 2
	}) {
		m.mu.Lock()
		n := m.resumedIDs[a.ID]
		m.mu.Unlock()
		bad = append(bad, fmt.Sprintf("the sibling reliable upstream did not resume and retransmit its unacknowledged chunk within %v while the other stream's resume answer was pending (resumed %d times, chunk received %v)", lim, n, m.received(a.ID)))
	}
	m.releaseHeld()
	if len(bad) > 0 {
		return fmt.Sprintf("%s: while the broker withheld ONE stream's resume answer after a reconnect, the rest of the connection was stalled: %s", variant, strings.Join(bad, "; "))
	}
	// afterwards the sibling still works
	if err := a.WriteDataPoints(ctx, &message.DataID{Name: "n1", Type: "t"}, &message.DataPoint{ElapsedTime: 2, Payload: []byte{2}}); err != nil {
		return variant + ": the sibling's write after the resume failed: " + err.Error()
	}
	fctx, fcancel := context.WithTimeout(context.Background(), wd)
	ferr := a.Flush(fctx)
	fcancel()
	if ferr != nil || !broker.WaitFor(wd, func() bool { r := m.received(a.ID); return len(r) >= 3 }) {
		return fmt.Sprintf("%s: the sibling's next chunk did not reach the broker after the resume (flush: %v, received %v)", variant, ferr, m.received(a.ID))
	}
	return ""
}

// runAbandonedClose: upstream A (alias 0) has one unacknowledged chunk; its Close is given up by the
// caller (100 ms context) while the broker withholds the close response; the broker then sends A's
// ack late and gives A's alias to the next opened upstream B.  B must not see anything addressed to
// A: its ack hook stays silent and its own unacknowledged chunk stays stored.
func runAbandonedClose() (direct string) {
	m := newMiniBroker()
	defer m.b.Release()
	store := &countStorage{VerifSentStorage: iscp.VerifNewInmemSentStorage(), stored: make(chan [2]uint64, 64)}
	conn, err := iscp.Connect(m.b.Address, broker.TransportName, iscp.VerifWithSentStorage(store),
		iscp.WithConnPingInterval(20*time.Millisecond), iscp.WithConnPingTimeout(5*time.Second))
	if err != nil {
		return "harness: connect failed: " + err.Error()
	}
	defer func() {
		ctx, cancel := context.WithTimeout(context.Background(), time.Second)
		go func() { defer cancel(); conn.Close(ctx) }()
	}()
	ctx, cancel := context.WithTimeout(context.Background(), 4*wd)
	defer cancel()
	m.mu.Lock()
	m.noAck = true
	m.mu.Unlock()
	a, err := conn.OpenUpstream(ctx, "a", iscp.WithUpstreamFlushPolicyNone(), iscp.WithUpstreamQoS(message.QoSReliable), iscp.WithUpstreamCloseTimeout(3*time.Second))
	if err != nil {
		return "harness: open failed: " + err.Error()
	}
	if err := a.WriteDataPoints(ctx, &message.DataID{Name: "n1", Type: "t"}, &message.DataPoint{ElapsedTime: 1, Payload: []byte{1}}); err != nil {
		return "harness: write failed: " + err.Error()
	}
	if err := a.Flush(ctx); err != nil {
		return "harness: flush failed: " + err.Error()
	}
	if !broker.WaitFor(wd, func() bool { return len(m.received(a.ID)) == 1 }) {
		return "harness: A's chunk never arrived"
	}
	m.mu.Lock()
	m.holdClose = map[uuid.UUID]bool{a.ID: true}
	m.mu.Unlock()
	cctx, ccancel := context.WithTimeout(context.Background(), 100*time.Millisecond)
	cerr := a.Close(cctx)
	ccancel()
	if cerr == nil {
		return "harness: the abandoned Close returned nil"
	}
	if !broker.WaitFor(wd, func() bool { m.mu.Lock(); defer m.mu.Unlock(); return len(m.closeSession[a.ID]) >= 1 }) {
		return "harness: A's close request never reached the broker"
	}
	// the late ack for A's chunk, addressed to A's alias
	m.b.Current().Send(&message.UpstreamChunkAck{StreamIDAlias: 0, Results: []*message.UpstreamChunkResult{{SequenceNumber: 1, ResultCode: message.ResultCodeSucceeded}}})
	time.Sleep(20 * time.Millisecond)
	// the broker (which closed A) re-uses alias 0 for the next stream
	zero := uint32(0)
	m.mu.Lock()
	m.nextAlias = &zero
	m.mu.Unlock()
	var hook atomic.Int32
	b2, err := conn.OpenUpstream(ctx, "b", iscp.WithUpstreamFlushPolicyNone(), iscp.WithUpstreamQoS(message.QoSReliable),
		iscp.WithUpstreamReceiveAckHooker(iscp.ReceiveAckHookerFunc(func(uuid.UUID, iscp.UpstreamChunkResult) { hook.Add(1) })))
	if err != nil {
		return "harness: open of B failed: " + err.Error()
	}
	if err := b2.WriteDataPoints(ctx, &message.DataID{Name: "n1", Type: "t"}, &message.DataPoint{ElapsedTime: 2, Payload: []byte{2}}); err != nil {
		return "harness: B's write failed: " + err.Error()
	}
	if err := b2.Flush(ctx); err != nil {
		return "harness: B's flush failed: " + err.Error()
	}
	if !broker.WaitFor(wd, func() bool { return len(m.received(b2.ID)) == 1 }) {
		return "B's first chunk never reached the broker although B was opened after A had been closed"
	}
	time.Sleep(150 * time.Millisecond)
	storedB := func() int { mm, _ := store.VerifSentStorage.List(context.Background(), b2.ID); return len(mm) }
	var bad []string
	if n := hook.Load(); n != 0 {
		bad = append(bad, fmt.Sprintf("B's ack hook reported %d result(s) although the broker sent B no ack", n))
	}
	if storedB() != 1 {
		bad = append(bad, "B's unacknowledged chunk (sequence number 1) left the sent storage")
	}
	if len(bad) > 0 {
		return "after an abandoned Close of upstream A (close response withheld, caller's context expired) and a late ack for A, the next upstream B - given A's stream alias by the broker - inherited what was addressed to A: " + strings.Join(bad, "; ")
	}
	// B's own ack is delivered normally
	m.b.Current().Send(&message.UpstreamChunkAck{StreamIDAlias: 0, Results: []*message.UpstreamChunkResult{{SequenceNumber: 1, ResultCode: message.ResultCodeSucceeded}}})
	if !broker.WaitFor(wd, func() bool { return hook.Load() == 1 && storedB() == 0 }) {
		return fmt.Sprintf("B's own ack was not processed (hook %d, stored %d)", hook.Load(), storedB())
	}
	return ""
}

// runCloseOption: three upstreams; B is closed with WithUpstreamCloseEnableCloseSession(), A and C
// (and a stream opened afterwards) plainly: only B's close request may carry CloseSession.
func runCloseOption() (direct string) {
	m := newMiniBroker()
	defer m.b.Release()
	conn, err := iscp.Connect(m.b.Address, broker.TransportName, iscp.WithConnPingInterval(20*time.Millisecond), iscp.WithConnPingTimeout(5*time.Second))
	if err != nil {
		return "harness: connect failed: " + err.Error()
	}
	defer func() {
		ctx, cancel := context.WithTimeout(context.Background(), time.Second)
		go func() { defer cancel(); conn.Close(ctx) }()
	}()
	ctx, cancel := context.WithTimeout(context.Background(), 4*wd)
	defer cancel()
	open := func(name string) (*iscp.Upstream, string) {
		u, err := conn.OpenUpstream(ctx, name, iscp.WithUpstreamFlushPolicyNone(), iscp.WithUpstreamQoS(message.QoSReliable))
		if err != nil {
			return nil, "harness: open failed: " + err.Error()
		}
		if err := u.WriteDataPoints(ctx, &message.DataID{Name: "n1", Type: "t"}, &message.DataPoint{ElapsedTime: 1, Payload: []byte{1}}); err != nil {
			return nil, "harness: write failed: " + err.Error()
		}
		return u, ""
	}
	a, d := open("a")
	if d != "" {
		return d
	}
	b2, d := open("b")
	if d != "" {
		return d
	}
	c3, d := open("c")
	if d != "" {
		return d
	}
	if err := b2.Close(ctx, iscp.WithUpstreamCloseEnableCloseSession()); err != nil {
		return "harness: close of B failed: " + err.Error()
	}
	if err := a.Close(ctx); err != nil {
		return "harness: close of A failed: " + err.Error()
	}
	d4, d := open("d")
	if d != "" {
		return d
	}
	if err := c3.Close(ctx); err != nil {
		return "harness: close of C failed: " + err.Error()
	}
	if err := d4.Close(ctx); err != nil {
		return "harness: close of D failed: " + err.Error()
	}
	m.mu.Lock()
	defer m.mu.Unlock()
	var bad []string
	want := map[string]bool{"A": false, "B": true, "C": false, "D": false}
	for name, u := range map[string]*iscp.Upstream{"A": a, "B": b2, "C": c3, "D": d4} {
		got := m.closeSession[u.ID]
		if len(got) != 1 || got[0] != want[name] {
			bad = append(bad, fmt.Sprintf("%s: CloseSession %v (expected [%v])", name, got, want[name]))
		}
	}
	sort.Strings(bad)
	if len(bad) > 0 {
		return "only upstream B was closed with WithUpstreamCloseEnableCloseSession(); the close requests the broker received: " + strings.Join(bad, "; ")
	}
	return ""
}

// runStrayFrames: inbound frames addressed to a stream alias that has no entry in the wire connection's
// tables - an alias never opened, the alias of a downstream that was just closed (the frame is sent right
// after the close response), the alias of a refused open.  After EVERY such frame a table WRITER runs
// (OpenDownstream of a new stream), then the neighbours are exercised: a chunk and a metadata for the
// sibling downstream, an upstream write + ack, Close of the sibling, a chunk for the new stream - each
// under a watchdog.  A hang names the frame and the step.
func runStrayFrames(class string) (direct string) {
	m := newMiniBroker()
	m.answerAll = true
	defer m.b.Release()
	conn, err := iscp.Connect(m.b.Address, broker.TransportName, iscp.WithConnPingInterval(20*time.Millisecond), iscp.WithConnPingTimeout(5*time.Second))
	if err != nil {
		return "harness: connect failed: " + err.Error()
	}
	defer func() {
		go func() {
			ctx, cancel := context.WithTimeout(context.Background(), time.Second)
			defer cancel()
			conn.Close(ctx)
		}()
	}()
	const step = 2 * time.Second
	timed := func(what string, f func(context.Context) error) string {
		done := make(chan error, 1)
		go func() {
			c2, cancel2 := context.WithTimeout(context.Background(), step)
			defer cancel2()
			done <- f(c2)
		}()
		select {
		case err := <-done:
			if err != nil {
				return fmt.Sprintf("%s failed: %v", what, err)
			}
			return ""
		case <-time.After(step + time.Second):
			return fmt.Sprintf("%s did not return within %v", what, step+time.Second)
		}
	}
	filters := []*message.DownstreamFilter{message.NewDownstreamFilterAllFor("src")}
	var d1 *iscp.Downstream
	var hook atomic.Int32
	var up *iscp.Upstream
	if d := timed("harness: setup", func(c context.Context) error {
		var err error
		if d1, err = conn.OpenDownstream(c, filters, iscp.WithDownstreamQoS(message.QoSReliable)); err != nil {
			return err
		}
		up, err = conn.OpenUpstream(c, "u", iscp.WithUpstreamFlushPolicyNone(), iscp.WithUpstreamQoS(message.QoSReliable),
			iscp.WithUpstreamReceiveAckHooker(iscp.ReceiveAckHookerFunc(func(uuid.UUID, iscp.UpstreamChunkResult) { hook.Add(1) })))
		return err
	}); d != "" {
		return "harness: " + d
	}
	m.mu.Lock()
	aliasD1 := m.dnAliases[0]
	m.mu.Unlock()
	// the alias without table entries
	var stray uint32
	switch class {
	case "never-opened":
		stray = 4000
	case "just-closed":
		var d0 *iscp.Downstream
		if d := timed("harness: open+close of the stream to be closed", func(c context.Context) error {
			var err error
			if d0, err = conn.OpenDownstream(c, filters, iscp.WithDownstreamQoS(message.QoSReliable)); err != nil {
				return err
			}
			return d0.Close(c)
		}); d != "" {
			return "harness: " + d
		}
		m.mu.Lock()
		stray = m.dnAliases[len(m.dnAliases)-1]
		m.mu.Unlock()
	case "refused-open":
		m.mu.Lock()
		m.refuseNextDown = true
		m.mu.Unlock()
		if d := timed("harness: refused open", func(c context.Context) error {
			if _, err := conn.OpenDownstream(c, filters, iscp.WithDownstreamQoS(message.QoSReliable)); err == nil {
				return errors.New("the refused OpenDownstream returned a stream")
			}
			return nil
		}); d != "" {
			return "harness: " + d
		}
		m.mu.Lock()
		stray = m.dnAliases[len(m.dnAliases)-1]
		m.mu.Unlock()
	}
	sess := m.b.Current()
	info := &message.UpstreamInfo{SessionID: "s", SourceNodeID: "src", StreamID: uuid.New()}
	chunk := func(alias, seq uint32) *message.DownstreamChunk {
		return &message.DownstreamChunk{StreamIDAlias: alias, UpstreamOrAlias: info, StreamChunk: &message.StreamChunk{SequenceNumber: seq,
			DataPointGroups: []*message.DataPointGroup{{DataIDOrAlias: &message.DataID{Name: "d", Type: "t"}, DataPoints: []*message.DataPoint{{ElapsedTime: time.Duration(seq), Payload: []byte{byte(seq)}}}}}}}
	}
	id := uuid.New()
	metas := []struct {
		name string
		m    message.Metadata
	}{
		{"BaseTime", &message.BaseTime{SessionID: "s", Name: "late", BaseTime: time.Unix(1700000000, 0).UTC()}},
		{"UpstreamOpen", &message.UpstreamOpen{StreamID: id, SessionID: "s", QoS: message.QoSReliable}},
		{"UpstreamAbnormalClose", &message.UpstreamAbnormalClose{StreamID: id, SessionID: "s"}},
		{"UpstreamResume", &message.UpstreamResume{StreamID: id, SessionID: "s", QoS: message.QoSReliable}},
		{"UpstreamNormalClose", &message.UpstreamNormalClose{StreamID: id, SessionID: "s", TotalDataPoints: 1, FinalSequenceNumber: 1}},
		{"DownstreamOpen", &message.DownstreamOpen{StreamID: id, DownstreamFilters: filters, QoS: message.QoSReliable}},
		{"DownstreamAbnormalClose", &message.DownstreamAbnormalClose{StreamID: id}},
		{"DownstreamResume", &message.DownstreamResume{StreamID: id, DownstreamFilters: filters, QoS: message.QoSReliable}},
		{"DownstreamNormalClose", &message.DownstreamNormalClose{StreamID: id}},
	}
	type frame struct {
		name string
		msg  message.Message
	}
	var frames []frame
	for i, mt := range metas {
		frames = append(frames, frame{"DownstreamMetadata(" + mt.name + ")", &message.DownstreamMetadata{RequestID: message.RequestID(1001 + 2*i), StreamIDAlias: stray, SourceNodeID: "src", Metadata: mt.m,
			ExtensionFields: &message.DownstreamMetadataExtensionFields{}}})
	}
	frames = append(frames,
		frame{"DownstreamMetadata(BaseTime) from an unsubscribed node to the SIBLING's alias", &message.DownstreamMetadata{RequestID: 1099, StreamIDAlias: aliasD1, SourceNodeID: "other-node",
			Metadata: metas[0].m, ExtensionFields: &message.DownstreamMetadataExtensionFields{}}},
		frame{"DownstreamChunk", chunk(stray, 1)},
		frame{"DownstreamChunkAckComplete", &message.DownstreamChunkAckComplete{StreamIDAlias: stray, AckID: 1, ResultCode: message.ResultCodeSucceeded}},
		frame{"UpstreamChunkAck", &message.UpstreamChunkAck{StreamIDAlias: 4000 + stray, Results: []*message.UpstreamChunkResult{{SequenceNumber: 1, ResultCode: message.ResultCodeSucceeded}}}},
	)
	fail := func(after, d string) string {
		return fmt.Sprintf("%s: after the broker sent a %s addressed to stream alias %d, which has no entry in the connection's tables (%s), %s: a frame for one alias stalled the rest of the connection",
			class, after, stray, class, d)
	}
	seq := uint32(0)
	upSeq := int32(0)
	var opened []*iscp.Downstream
	for _, fr := range frames {
		if err := sess.Send(fr.msg); err != nil {
			return "harness: broker send failed: " + err.Error()
		}
		time.Sleep(2 * time.Millisecond)
		// a WRITER of the downstream table
		var dn *iscp.Downstream
		if d := timed("OpenDownstream of a new stream (a writer of the downstream table)", func(c context.Context) error {
			var err error
			dn, err = conn.OpenDownstream(c, filters, iscp.WithDownstreamQoS(message.QoSReliable))
			return err
		}); d != "" {
			return fail(fr.name, d)
		}
		opened = append(opened, dn)
		m.mu.Lock()
		aliasNew := m.dnAliases[len(m.dnAliases)-1]
		m.mu.Unlock()
		// the neighbours keep working
		seq++
		sess.Send(chunk(aliasD1, seq))
		if d := timed("ReadDataPoints of the sibling downstream (a chunk was sent to it)", func(c context.Context) error {
			ck, err := d1.ReadDataPoints(c)
			if err == nil && ck.SequenceNumber != seq {
				return fmt.Errorf("got sequence number %d, expected %d", ck.SequenceNumber, seq)
			}
			return err
		}); d != "" {
			return fail(fr.name, d)
		}
		sess.Send(&message.DownstreamMetadata{RequestID: message.RequestID(2001 + 2*seq), StreamIDAlias: aliasD1, SourceNodeID: "src", Metadata: metas[0].m, ExtensionFields: &message.DownstreamMetadataExtensionFields{}})
		if d := timed("ReadMetadata of the sibling downstream (a metadata was sent to it)", func(c context.Context) error {
			_, err := d1.ReadMetadata(c)
			return err
		}); d != "" {
			return fail(fr.name, d)
		}
		sess.Send(chunk(aliasNew, 1))
		if d := timed("ReadDataPoints of the newly opened downstream", func(c context.Context) error {
			_, err := dn.ReadDataPoints(c)
			return err
		}); d != "" {
			return fail(fr.name, d)
		}
		upSeq++
		if d := timed("upstream write + flush + ack", func(c context.Context) error {
			if err := up.WriteDataPoints(c, &message.DataID{Name: "n1", Type: "t"}, &message.DataPoint{ElapsedTime: time.Duration(upSeq), Payload: []byte{1}}); err != nil {
				return err
			}
			if err := up.Flush(c); err != nil {
				return err
			}
			if !broker.WaitFor(step, func() bool { return hook.Load() >= upSeq }) {
				return fmt.Errorf("the ack of chunk %d did not reach the upstream's hook", upSeq)
			}
			return nil
		}); d != "" {
			return fail(fr.name, d)
		}
		// Close of a downstream: another writer of the table
		if d := timed("Close of a neighbour downstream (a writer of the downstream table)", func(c context.Context) error { return dn.Close(c) }); d != "" {
			return fail(fr.name, d)
		}
	}
	if d := timed("Close of the sibling downstream", func(c context.Context) error { return d1.Close(c) }); d != "" {
		return fail("(all frames)", d)
	}
	if d := timed("Close of the upstream", func(c context.Context) error { return up.Close(c) }); d != "" {
		return fail("(all frames)", d)
	}
	_ = opened
	return ""
}

func runScen(name, arg string, ms int) string {
	switch name {
	case "stray-frames":
		return runStrayFrames(arg)
	case "abandoned-close":
		return runAbandonedClose()
	case "close-option":
		return runCloseOption()
	case "slow-resume":
		return runSlowResume(arg)
	case "shared-timer":
		return runSharedTimer(arg)
	case "deadline-neighbour":
		return runDeadlineNeighbour(arg, time.Duration(ms)*time.Millisecond)
	}
	return "harness: unknown scenario " + name
}

func genCase(r *rng.R) *caseIn {
	n := 2 + r.Intn(2)
	c := &caseIn{}
	for i := 0; i < n; i++ {
		c.Reliable = append(c.Reliable, i == 0 || r.Chance(1, 2))
	}
	lens := func() []int {
		var l []int
		for i := 0; i < 1+r.Intn(2); i++ {
			l = append(l, 1+r.Intn(4))
		}
		return l
	}
	burst := func(k int, ack bool) {
		for i := 0; i < k; i++ {
			s := r.Intn(n)
			c.Steps = append(c.Steps, stepIn{Op: "write", S: s, ID: 1 + r.Intn(3), Lens: lens()}, stepIn{Op: "flush", S: s})
			if ack && r.Chance(1, 2) {
				c.Steps = append(c.Steps, stepIn{Op: "ack", S: s})
			}
		}
	}
	burst(2+r.Intn(4), true)
	if r.Chance(1, 3) {
		c.Steps = append(c.Steps, stepIn{Op: "openrefused"})
		burst(1, true)
	}
	if r.Chance(1, 4) {
		s := r.Intn(n)
		c.Steps = append(c.Steps, stepIn{Op: "close", S: s})
	}
	if r.Chance(2, 3) {
		c.Steps = append(c.Steps, stepIn{Op: "cut"})
		if r.Chance(1, 2) {
			burst(1+r.Intn(2), false)
		}
		c.Steps = append(c.Steps, stepIn{Op: "detect"}, stepIn{Op: "resume"})
		// the first stream (stream alias 0) always resumes; a neighbour may be refused or closed while pending
		c.Resume = make([]string, n)
		for i := 1; i < n; i++ {
			switch k := r.Intn(12); {
			case k < 3:
				c.Resume[i] = "refused"
			case k < 5:
				c.Resume[i] = "closepending"
			}
		}
	}
	burst(1+r.Intn(3), true)
	for s := 0; s < n; s++ {
		c.Steps = append(c.Steps, stepIn{Op: "ack", S: s})
	}
	for _, s := range r.Perm(n) {
		if r.Chance(4, 5) {
			c.Steps = append(c.Steps, stepIn{Op: "close", S: s})
		}
	}
	return c
}

func main() {
	seed := flag.Uint64("seed", 1, "seed")
	tier := flag.String("tier", "quick", "quick|thorough")
	out := flag.String("out", "", "output directory")
	replay := flag.String("replay", "", "replay file")
	flag.Parse()
	verifhooks.RetrySetDefaultIntervals(2*time.Millisecond, 6*time.Millisecond)
	w := coqfmt.NewWriter(*out, "C07", "From Iscp Require Import Model.Route.", "iso_case", "iso_judge", 40)
	r := rng.New(*seed)
	type job struct {
		c    *caseIn
		kind string
		seed uint64
	}
	var jobs []job
	if *replay != "" {
		b, err := os.ReadFile(*replay)
		if err != nil {
			fmt.Fprintln(os.Stderr, err)
			os.Exit(2)
		}
		var rf struct {
			Input    caseIn `json:"input"`
			CaseSeed uint64 `json:"case_seed"`
		}
		if err := json.Unmarshal(b, &rf); err != nil {
			fmt.Fprintln(os.Stderr, err)
			os.Exit(2)
		}
		var sc struct {
			Input struct {
				Scenario string `json:"scenario"`
				Flood    int    `json:"flood"`
				Arg      string `json:"arg"`
				Ms       int    `json:"ms"`
			} `json:"input"`
		}
		if json.Unmarshal(b, &sc) == nil && (sc.Input.Scenario == "shared-timer" || sc.Input.Scenario == "deadline-neighbour" || sc.Input.Scenario == "slow-resume" || sc.Input.Scenario == "stray-frames" || sc.Input.Scenario == "abandoned-close" || sc.Input.Scenario == "close-option") {
			d := runScen(sc.Input.Scenario, sc.Input.Arg, sc.Input.Ms)
			w.Add(coqfmt.Case{Term: "mkIsoCase []", Input: sc.Input, Kind: sc.Input.Scenario, Direct: d, Nontrivial: true})
			if err := w.Flush(*seed, *tier, "replay of a timer/deadline scenario", false, nil); err != nil {
				fmt.Fprintln(os.Stderr, err)
				os.Exit(2)
			}
			return
		}
		if json.Unmarshal(b, &sc) == nil && sc.Input.Scenario == "dead-downstream-flood" {
			d := runDeadDownstream(sc.Input.Flood)
			w.Add(coqfmt.Case{Term: "mkIsoCase []", Input: sc.Input, Kind: "dead-downstream-flood", Direct: d, Nontrivial: true})
			if err := w.Flush(*seed, *tier, "replay of the dead-downstream flood scenario", false, nil); err != nil {
				fmt.Fprintln(os.Stderr, err)
				os.Exit(2)
			}
			return
		}
		jobs = append(jobs, job{&rf.Input, "replay", rf.CaseSeed})
	} else {
		nrand := 60
		if *tier == "thorough" {
			nrand = 1200
		}
		// the F3 scenario: a reliable and an unreliable upstream resume side by side
		jobs = append(jobs, job{&caseIn{Reliable: []bool{true, false}, Steps: []stepIn{
			{Op: "write", S: 0, ID: 1, Lens: []int{3}}, {Op: "flush", S: 0}, {Op: "write", S: 1, ID: 2, Lens: []int{2}}, {Op: "flush", S: 1},
			{Op: "cut"}, {Op: "write", S: 0, ID: 1, Lens: []int{4}}, {Op: "flush", S: 0}, {Op: "detect"}, {Op: "resume"},
			{Op: "write", S: 0, ID: 1, Lens: []int{1}}, {Op: "flush", S: 0}, {Op: "ack", S: 0}, {Op: "ack", S: 1}, {Op: "close", S: 0}, {Op: "close", S: 1}}}, "reliable+unreliable", r.U64()})
		// lifecycle of one stream next to the stream that holds stream alias 0 (seeded C07-b, F42)
		after0 := []stepIn{{Op: "write", S: 0, ID: 1, Lens: []int{2}}, {Op: "flush", S: 0}, {Op: "ack", S: 0}, {Op: "write", S: 0, ID: 2, Lens: []int{3}}, {Op: "flush", S: 0}, {Op: "ack", S: 0}, {Op: "close", S: 0}}
		pre := []stepIn{{Op: "write", S: 0, ID: 1, Lens: []int{3}}, {Op: "flush", S: 0}, {Op: "write", S: 1, ID: 2, Lens: []int{2}}, {Op: "flush", S: 1}}
		outage := []stepIn{{Op: "cut"}, {Op: "detect"}, {Op: "resume"}}
		cat := func(xs ...[]stepIn) []stepIn {
			var o []stepIn
			for _, x := range xs {
				o = append(o, x...)
			}
			return o
		}
		jobs = append(jobs,
			job{&caseIn{Reliable: []bool{true, true}, Steps: cat(pre, []stepIn{{Op: "openrefused"}}, after0, []stepIn{{Op: "ack", S: 1}, {Op: "close", S: 1}})}, "refused-open-next-to-alias0", r.U64()},
			job{&caseIn{Reliable: []bool{true, true}, Resume: []string{"ok", "refused"}, Steps: cat(pre, outage, after0)}, "refused-resume-next-to-alias0", r.U64()},
			job{&caseIn{Reliable: []bool{true, true}, Resume: []string{"ok", "closepending"}, Steps: cat(pre, outage, after0)}, "close-while-resume-pending-next-to-alias0", r.U64()},
			job{&caseIn{Reliable: []bool{true, false, true}, Resume: []string{"ok", "closepending", "refused"}, Steps: cat(pre, []stepIn{{Op: "write", S: 2, ID: 3, Lens: []int{1}}, {Op: "flush", S: 2}}, outage, after0)}, "close-while-resume-pending-next-to-alias0", r.U64()})
		for i := 0; i < nrand; i++ {
			jobs = append(jobs, job{genCase(r.Fork()), "random", r.U64()})
		}
	}
	results := make([]coqfmt.Case, len(jobs))
	var mu sync.Mutex
	sem := make(chan struct{}, 5)
	var wg sync.WaitGroup
	for i, j := range jobs {
		wg.Add(1)
		sem <- struct{}{}
		go func(i int, j job) {
			defer wg.Done()
			defer func() { <-sem }()
			cs := coqfmt.Case{Input: j.c, Seed: j.seed, Kind: j.kind}
			n := len(j.c.Reliable)
			var pairs []string
			run := func(only int) ([]string, string) {
				for try := 0; try < 4; try++ {
					obs, direct, discard := runScenario(j.c, j.seed, only)
					if discard == "" {
						return obs, direct
					}
				}
				return nil, "discard"
			}
			shared, direct := run(-1)
			if direct == "discard" {
				cs.Kind = "discarded-timing"
			} else if direct != "" {
				cs.Direct = "shared run: " + direct
			} else {
				for s := 0; s < n; s++ {
					solo, d := run(s)
					if d == "discard" {
						cs.Kind = "discarded-timing"
						pairs = nil
						break
					}
					if d != "" {
						// the solo run itself misbehaves: not an isolation matter
						cs.Kind = "solo-failed"
						pairs = nil
						break
					}
					pairs = append(pairs, fmt.Sprintf("(%s, %s)", shared[s], solo[s]))
					if shared[s] != solo[s] {
						hasU, outage := false, false
						for k, rel := range j.c.Reliable {
							if !rel && k != s {
								hasU = true
							}
						}
						for _, st := range j.c.Steps {
							if st.Op == "cut" {
								outage = true
							}
						}
						if hasU && outage && !lifecycle(j.c) && cs.Sig == "" {
							cs.Sig = "F3:unreliable-resume-clears-other-stream-store"
						}
					}
				}
			}
			if cs.Direct != "" && strings.HasPrefix(cs.Direct, "shared run: harness:") {
				fmt.Fprintln(os.Stderr, cs.Direct)
				os.Exit(3)
			}
			if cs.Direct != "" && cs.Sig == "" {
				hasU, hasR, outage := false, false, false
				for _, rel := range j.c.Reliable {
					hasU = hasU || !rel
					hasR = hasR || rel
				}
				for _, st := range j.c.Steps {
					outage = outage || st.Op == "cut"
				}
				if hasU && hasR && outage && !lifecycle(j.c) && strings.Contains(cs.Direct, "stay stored") {
					cs.Sig = "F3:unreliable-resume-clears-other-stream-store"
				}
			}
			cs.Term = "mkIsoCase " + coqfmt.List(pairs)
			cs.Observed = map[string]interface{}{"pairs": pairs}
			cs.Nontrivial = n >= 2 && len(pairs) == n
			mu.Lock()
			results[i] = cs
			mu.Unlock()
		}(i, j)
	}
	wg.Wait()
	for i, cs := range results {
		w.Add(cs)
		w.Count(fmt.Sprintf("streams:%d", len(jobs[i].c.Reliable)))
		for _, s := range jobs[i].c.Steps {
			if s.Op == "cut" {
				w.Count("with-outage")
			}
		}
		if cs.Sig != "" {
			w.Count("sig:" + cs.Sig)
		}
	}
	if *replay == "" {
		type scen struct {
			name string
			arg  string
			ms   int
		}
		scens := []scen{{"shared-timer", "default-close", 0}, {"shared-timer", "default-three-close", 0}, {"shared-timer", "sameobj-close", 0},
			{"shared-timer", "default-resume-close", 0},
			{"stray-frames", "never-opened", 0}, {"stray-frames", "just-closed", 0}, {"stray-frames", "refused-open", 0},
			{"abandoned-close", "", 0}, {"close-option", "", 0},
			{"slow-resume", "downstream-withheld", 0}, {"slow-resume", "upstream-withheld", 0}, {"slow-resume", "upstream-conflict", 0},
			{"deadline-neighbour", "open-upstream", 150}, {"deadline-neighbour", "open-downstream", 120}, {"deadline-neighbour", "send-metadata", 200}}
		res := make([]string, len(scens))
		var swg sync.WaitGroup
		for i, sc := range scens {
			swg.Add(1)
			go func(i int, sc scen) {
				defer swg.Done()
				res[i] = runScen(sc.name, sc.arg, sc.ms)
			}(i, sc)
		}
		swg.Wait()
		for i, sc := range scens {
			if strings.HasPrefix(res[i], "harness:") {
				fmt.Fprintln(os.Stderr, res[i])
				os.Exit(3)
			}
			w.Add(coqfmt.Case{Term: "mkIsoCase []", Input: map[string]interface{}{"scenario": sc.name, "arg": sc.arg, "ms": sc.ms},
				Kind: sc.name, Direct: res[i], Nontrivial: true, Seed: uint64(i)})
		}
		for _, flood := range []int{40, 1100} {
			d := runDeadDownstream(flood)
			if strings.HasPrefix(d, "harness:") {
				fmt.Fprintln(os.Stderr, d)
				os.Exit(3)
			}
			w.Add(coqfmt.Case{Term: "mkIsoCase []", Input: map[string]interface{}{"scenario": "dead-downstream-flood", "flood": flood},
				Kind: "dead-downstream-flood", Direct: d, Nontrivial: true, Seed: uint64(flood)})
		}
	}
	rule := "stray inbound frames (DownstreamMetadata of all 9 kinds, a metadata from an unsubscribed node, DownstreamChunk, DownstreamChunkAckComplete, UpstreamChunkAck) addressed to a stream alias without table entries (never opened / just closed / refused open), each followed by a table writer (OpenDownstream), a chunk and a metadata for the sibling downstream, a chunk for the new stream, an upstream write+ack and a downstream Close, all under a watchdog; an abandoned Close of A (close response withheld, 100 ms context) + a late ack for A + the broker re-using A's stream alias for the next upstream B: B's ack hook stays silent and its unacknowledged chunk stays stored; three upstreams, one closed with WithUpstreamCloseEnableCloseSession(): only its close request carries CloseSession; after an outage the broker withholds one stream's resume answer (a downstream's, an upstream's, or answers an upstream's with conflict three times): meanwhile a new OpenUpstream, a new OpenDownstream and SendBaseTime must succeed within 1.5 s and the sibling reliable upstream must resume and retransmit its unacknowledged chunk; upstreams sharing the library's default flush-policy object (no flush-policy option; real 100 ms ticker) or one policy object passed to all: after a neighbour closes (also after a common outage) a small write to the survivor must still be flushed by its timer; a request (upstream open / downstream open / metadata) with a 120-200 ms deadline left unanswered on a healthy connection must cause no redial, no disconnect/reconnect event, no resume request or event, no retransmission and no cleared store for the neighbours; a downstream whose open was refused (its subscriptions stay registered, nobody reads) is flooded with 40 / 1100 chunks, then a live downstream must still get its chunk and a live upstream its ack; the broker gives the first stream STREAM ALIAS 0 (also after a resume); lifecycle operations of a neighbour happen on the same wire connection: an open refused with a zero alias in the response, a resume refused with a zero alias, an application Close while the neighbour's resume request is still unanswered (its close request travels on the new connection where it has no alias entry) - afterwards the alias-0 stream must still send chunks and receive acks. 2-3 upstreams (the first reliable, the others reliable or unreliable) on one connection: interleaved write+flush, per-stream acks, optional close of one stream, optional outage (loud cut, writes of any stream before it is noticed, all streams resume: unreliable ones answered first), more traffic, closes in random order; each stream's observables are compared with its solo run through the same history. non-trivial = every stream has a solo run to compare with; distinct = distinct Coq case terms"
	if err := w.Flush(*seed, *tier, rule, false, nil); err != nil {
		fmt.Fprintln(os.Stderr, err)
		os.Exit(2)
	}
}

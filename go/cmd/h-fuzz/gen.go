package main

// Input generation for h-fuzz: a corpus of valid encodings of every message type in both encodings
// (built with the reflection-driven generator shared with h-codec), structure-aware corruption at
// three levels (the proto struct before marshalling, the protobuf wire format, the JSON tree) and
// blind byte mutation.

import (
	"bytes"
	"encoding/base64"
	"encoding/hex"
	"encoding/json"
	"fmt"
	"reflect"
	"sort"
	"strings"
	"unicode/utf8"

	"github.com/aptpod/iscp-go/encoding/convert"
	"github.com/aptpod/iscp-go/message"
	autogen "github.com/aptpod/iscp-proto/gen/gogofast/iscp2/v1"
	"github.com/gogo/protobuf/jsonpb"
	"github.com/gogo/protobuf/proto"

	"verif/cmd/h-codec/cdump"
	"verif/internal/rng"
)

// ---------------------------------------------------------------- seeds

type seedMsg struct {
	kind  int
	name  string
	label string
	msg   message.Message
	pb    []byte
	js    []byte
}

// smallChooser keeps collections small (the Coq judge reads every dumped structure) and can force
// pointers/collections present and a oneof variant index (for the "full" seeds of the nil enumeration).
type smallChooser struct {
	r       *rng.R
	full    bool
	variant int
}

func (c smallChooser) Choose(path string, n int, labels []string) int {
	idx := func(want ...string) int {
		for _, w := range want {
			for i, l := range labels {
				if l == w {
					return i
				}
			}
		}
		return -1
	}
	isOneof := false
	for _, l := range labels {
		if strings.HasPrefix(l, "*") || strings.HasSuffix(l, "Alias") {
			isOneof = true
		}
	}
	switch {
	case isOneof:
		// variants other than "nil"
		var vs []int
		for i, l := range labels {
			if l != "nil" {
				vs = append(vs, i)
			}
		}
		if c.full {
			return vs[c.variant%len(vs)]
		}
		if c.r.Chance(1, 20) {
			return c.r.Intn(n)
		}
		return vs[c.r.Intn(len(vs))]
	case idx("eight") >= 0: // a collection
		if c.full {
			if c.variant%2 == 0 {
				return idx("one")
			}
			return idx("few")
		}
		return []int{idx("nil"), idx("empty"), idx("one"), idx("one"), idx("few")}[c.r.Intn(5)]
	case idx("set") >= 0:
		if c.full {
			return idx("set")
		}
		return c.r.Intn(n)
	case idx("zero", "epoch-utc") >= 0: // a time: inside int64 nanoseconds
		return []int{idx("zero"), idx("epoch-utc"), idx("utc"), idx("zoned")}[c.r.Intn(4)]
	}
	return c.r.Intn(n)
}

func encodeSeed(kind int, label string, m message.Message) (s *seedMsg) {
	defer func() {
		if r := recover(); r != nil {
			s = nil
		}
	}()
	var b1, b2 bytes.Buffer
	if _, err := encodingOf("protobuf").EncodeTo(&b1, m); err != nil {
		return nil
	}
	if _, err := encodingOf("json").EncodeTo(&b2, m); err != nil {
		return nil
	}
	// the library's protobuf encoder writes map entries in Go's map order: for a corpus that is a function
	// of the seed the same structure is marshalled once more with sorted keys
	pbs := append([]byte(nil), b1.Bytes()...)
	if p, err := convert.WireToProto(m); err == nil {
		if d := detMarshal(p); d != nil {
			pbs = d
		}
	}
	return &seedMsg{kind: kind, name: cdump.MessageTypes[kind].Name(), label: label, msg: m,
		pb: pbs, js: append([]byte(nil), b2.Bytes()...)}
}

// corpusSeeds: deterministic (independent of -seed): per message type the zero value, random small
// messages and "full" messages (every pointer set, every collection non-empty) under every oneof variant.
func corpusSeeds(perKind int) (all []*seedMsg, full []*seedMsg) {
	r := rng.New(0xC12C0DE)
	for k := range cdump.MessageTypes {
		if s := encodeSeed(k, "zero", reflect.New(cdump.MessageTypes[k]).Interface().(message.Message)); s != nil {
			all = append(all, s)
		}
		for i := 0; i < perKind; i++ {
			rr := r.Fork()
			g := &cdump.Gen{R: rr, C: smallChooser{r: rr}}
			if s := encodeSeed(k, fmt.Sprintf("random%d", i), g.Message(k)); s != nil {
				all = append(all, s)
			}
		}
		nv := 2
		switch cdump.MessageTypes[k].Name() {
		case "DownstreamMetadata":
			nv = 9
		case "UpstreamChunk", "DownstreamChunk":
			nv = 6
		}
		for v := 0; v < nv; v++ {
			rr := r.Fork()
			g := &cdump.Gen{R: rr, C: smallChooser{r: rr, full: true, variant: v}}
			if s := encodeSeed(k, fmt.Sprintf("full%d", v), g.Message(k)); s != nil {
				all = append(all, s)
				full = append(full, s)
			}
		}
	}
	return
}

// ---------------------------------------------------------------- helpers

func mk(enc string, b []byte, origin, kind string) input {
	in := input{Enc: enc, Hex: hex.EncodeToString(b), Origin: origin, Kind: kind}
	if enc == "json" && utf8.Valid(b) && len(b) < 600 {
		in.Text = string(b)
	}
	return in
}

func varint(x uint64) []byte {
	var b []byte
	for x >= 0x80 {
		b = append(b, byte(x)|0x80)
		x >>= 7
	}
	return append(b, byte(x))
}

// ---------------------------------------------------------------- level 1: the proto struct

// site is one mutable position inside a proto struct.
type site struct {
	v    reflect.Value
	path string
}

func collectSites(v reflect.Value, path string, out *[]site) {
	switch v.Kind() {
	case reflect.Ptr:
		if v.CanSet() {
			*out = append(*out, site{v, path})
		}
		if !v.IsNil() {
			collectSites(v.Elem(), path, out)
		}
	case reflect.Interface:
		if v.CanSet() {
			*out = append(*out, site{v, path})
		}
		if !v.IsNil() {
			collectSites(v.Elem(), path, out)
		}
	case reflect.Struct:
		for i := 0; i < v.NumField(); i++ {
			if strings.HasPrefix(v.Type().Field(i).Name, "XXX_") {
				continue
			}
			collectSites(v.Field(i), path+"."+v.Type().Field(i).Name, out)
		}
	case reflect.Slice:
		*out = append(*out, site{v, path})
		if v.Type().Elem().Kind() != reflect.Uint8 {
			for i := 0; i < v.Len(); i++ {
				collectSites(v.Index(i), fmt.Sprintf("%s[%d]", path, i), out)
			}
		}
	case reflect.Map:
		*out = append(*out, site{v, path})
	case reflect.String, reflect.Int32, reflect.Uint32, reflect.Uint64, reflect.Int64, reflect.Bool:
		*out = append(*out, site{v, path})
	}
}

var enumOut = []int64{-1, 37, 89, 90, 255, 1000, 2147483647, -2147483648}

// mutateSite changes one position in a hostile way; returns a description or "" when nothing applies.
func mutateSite(s site, r *rng.R) string {
	v := s.v
	switch v.Kind() {
	case reflect.Ptr:
		if v.IsNil() {
			v.Set(reflect.New(v.Type().Elem()))
			return "set-empty-submessage"
		}
		v.Set(reflect.Zero(v.Type()))
		return "nil-submessage"
	case reflect.Interface:
		if v.IsNil() {
			return ""
		}
		if r.Bool() {
			// wrapper present, inner message absent
			w := reflect.New(v.Elem().Type().Elem())
			v.Set(w)
			return "oneof-wrapper-with-zero-inner"
		}
		v.Set(reflect.Zero(v.Type()))
		return "absent-oneof"
	case reflect.Slice:
		if v.Type().Elem().Kind() == reflect.Uint8 {
			n := []int{0, 1, 15, 17, 32}[r.Intn(5)]
			v.SetBytes(r.Bytes(n))
			return fmt.Sprintf("bytes-of-length-%d", n)
		}
		if v.Len() > 0 && r.Bool() {
			v.Index(r.Intn(v.Len())).Set(reflect.Zero(v.Type().Elem()))
			return "nil-list-element"
		}
		v.Set(reflect.Append(v, reflect.Zero(v.Type().Elem())))
		return "nil-list-element-appended"
	case reflect.Map:
		k := reflect.New(v.Type().Key()).Elem()
		k.SetUint(uint64(r.Intn(3)))
		if v.IsNil() {
			v.Set(reflect.MakeMap(v.Type()))
		}
		v.SetMapIndex(k, reflect.Zero(v.Type().Elem()))
		return "nil-map-value"
	case reflect.String:
		v.SetString([]string{"a\xffb", "\xc0\x80", "\xed\xa0\x80", strings.Repeat("\xf0\x9f", 3), "\x00"}[r.Intn(5)])
		return "string-not-utf8"
	case reflect.Int32:
		x := enumOut[r.Intn(len(enumOut))]
		v.SetInt(x)
		return fmt.Sprintf("enum-number-%d", x)
	case reflect.Uint32:
		v.SetUint([]uint64{0, 255, 256, 4294967295, 4294967}[r.Intn(5)])
		return "uint32-extreme"
	case reflect.Uint64:
		v.SetUint([]uint64{0, 1 << 63, 1<<64 - 1, 1<<63 - 1}[r.Intn(4)])
		return "uint64-extreme"
	case reflect.Int64:
		v.SetInt([]int64{-1, -1 << 63, 1<<63 - 1, 0}[r.Intn(4)])
		return "int64-extreme"
	case reflect.Bool:
		v.SetBool(!v.Bool())
		return "bool-flip"
	}
	return ""
}

// canonPB makes a protobuf encoding a function of the structure: gogo writes map entries in Go's map
// order, so adjacent fields with the same number are sorted bytewise, at every nesting level (only
// reordering: all length prefixes stay valid; a repeated field is reordered too, which is harmless for
// corpus seeds and mutants).
func canonPB(b []byte, depth int) []byte {
	type fld struct {
		num uint64
		raw []byte
	}
	var fs []fld
	i := 0
	for i < len(b) {
		tag, j, ok := readVarint(b, i)
		if !ok || tag>>3 == 0 {
			return b
		}
		end := 0
		switch tag & 7 {
		case 0:
			_, k, ok := readVarint(b, j)
			if !ok {
				return b
			}
			end = k
		case 1:
			end = j + 8
		case 5:
			end = j + 4
		case 2:
			n, k, ok := readVarint(b, j)
			if !ok || uint64(k)+n > uint64(len(b)) {
				return b
			}
			end = k + int(n)
			if depth < 8 && n > 0 {
				inner := canonPB(b[k:end], depth+1)
				nb := append(append([]byte{}, b[i:k]...), inner...)
				fs = append(fs, fld{tag >> 3, nb})
				i = end
				continue
			}
		default:
			return b
		}
		if end > len(b) {
			return b
		}
		fs = append(fs, fld{tag >> 3, append([]byte{}, b[i:end]...)})
		i = end
	}
	for a := 0; a < len(fs); {
		z := a
		for z < len(fs) && fs[z].num == fs[a].num {
			z++
		}
		run := fs[a:z]
		sort.SliceStable(run, func(x, y int) bool { return bytes.Compare(run[x].raw, run[y].raw) < 0 })
		a = z
	}
	out := make([]byte, 0, len(b))
	for _, f := range fs {
		out = append(out, f.raw...)
	}
	return out
}

func detMarshal(p *autogen.Message) (out []byte) {
	defer func() {
		if recover() != nil {
			out = nil
		}
	}()
	b, err := proto.Marshal(p)
	if err != nil {
		return nil
	}
	return canonPB(b, 0)
}

func marshalBoth(p *autogen.Message) (pb, js []byte) {
	pb = detMarshal(p)
	func() {
		defer func() { recover() }()
		var buf bytes.Buffer
		mm := jsonpb.Marshaler{EmitDefaults: true, OrigName: true}
		if err := mm.Marshal(&buf, p); err == nil {
			js = buf.Bytes()
		}
	}()
	return
}

func protoOf(s *seedMsg) *autogen.Message {
	p, err := convert.WireToProto(s.msg)
	if err != nil {
		return nil
	}
	return p
}

// structMutants: nmut hostile variants of the seed's proto struct, marshalled in both encodings.
func structMutants(s *seedMsg, r *rng.R, nmut int, count func(string)) (out []input) {
	for i := 0; i < nmut; i++ {
		p := protoOf(s)
		if p == nil {
			return
		}
		var sites []site
		collectSites(reflect.ValueOf(p).Elem().FieldByName("Message"), "Message", &sites)
		if len(sites) == 0 {
			return
		}
		nm := 1 + r.Intn(2)
		var descs []string
		for j := 0; j < nm; j++ {
			st := sites[r.Intn(len(sites))]
			var d string
			func() {
				defer func() { recover() }()
				d = mutateSite(st, r)
			}()
			if d != "" {
				descs = append(descs, st.path+":"+d)
				count("structmut:" + d)
			}
			// the struct has changed shape: recollect
			sites = sites[:0]
			collectSites(reflect.ValueOf(p).Elem().FieldByName("Message"), "Message", &sites)
		}
		if len(descs) == 0 {
			continue
		}
		pb, js := marshalBoth(p)
		o := fmt.Sprintf("%s/%s struct{%s}", s.name, s.label, strings.Join(descs, ","))
		if pb != nil {
			out = append(out, mk("protobuf", pb, o, "struct"))
		}
		if js != nil {
			out = append(out, mk("json", js, o, "struct"))
		}
	}
	return
}

// ---------------------------------------------------------------- nil at every repeated / map position

// typePositions lists every repeated-message / map-of-message field reachable from the proto Message
// type ("type-level positions"), through every oneof wrapper.
func typePositions() []string {
	seen := map[string]bool{}
	var out []string
	var walk func(t reflect.Type, path string, depth int)
	walk = func(t reflect.Type, path string, depth int) {
		if depth > 12 {
			return
		}
		switch t.Kind() {
		case reflect.Ptr:
			walk(t.Elem(), path, depth+1)
		case reflect.Struct:
			for i := 0; i < t.NumField(); i++ {
				f := t.Field(i)
				if strings.HasPrefix(f.Name, "XXX_") {
					continue
				}
				fp := path + "." + f.Name
				switch f.Type.Kind() {
				case reflect.Slice:
					if f.Type.Elem().Kind() == reflect.Ptr {
						if !seen[fp+"[]"] {
							seen[fp+"[]"] = true
							out = append(out, fp+"[]")
						}
						walk(f.Type.Elem(), fp+"[]", depth+1)
					}
				case reflect.Map:
					if f.Type.Elem().Kind() == reflect.Ptr {
						if !seen[fp+"{}"] {
							seen[fp+"{}"] = true
							out = append(out, fp+"{}")
						}
						walk(f.Type.Elem(), fp+"{}", depth+1)
					}
				case reflect.Ptr:
					walk(f.Type, fp, depth+1)
				case reflect.Interface:
					// the oneof wrappers of the enclosing message type
					if m, ok := reflect.New(t).Interface().(interface{ XXX_OneofWrappers() []interface{} }); ok {
						for _, w := range m.XXX_OneofWrappers() {
							wt := reflect.TypeOf(w)
							if wt.Implements(f.Type) {
								walk(wt, path+"."+wt.Elem().Name(), depth+1)
							}
						}
					}
				}
			}
		}
	}
	walk(reflect.TypeOf(autogen.Message{}), "", 0)
	sort.Strings(out)
	return out
}

type nilPos struct {
	path string // type-level path
	set  func() // puts nil at this value-level position
}

func valuePositions(v reflect.Value, path string, out *[]nilPos) {
	switch v.Kind() {
	case reflect.Ptr:
		if !v.IsNil() {
			valuePositions(v.Elem(), path, out)
		}
	case reflect.Interface:
		if !v.IsNil() {
			w := v.Elem() // pointer to wrapper struct
			valuePositions(w, path+"."+w.Type().Elem().Name(), out)
		}
	case reflect.Struct:
		for i := 0; i < v.NumField(); i++ {
			f := v.Type().Field(i)
			if strings.HasPrefix(f.Name, "XXX_") {
				continue
			}
			fv := v.Field(i)
			fp := path + "." + f.Name
			switch fv.Kind() {
			case reflect.Slice:
				if f.Type.Elem().Kind() == reflect.Ptr {
					for j := 0; j < fv.Len(); j++ {
						el := fv.Index(j)
						*out = append(*out, nilPos{fp + "[]", func() { el.Set(reflect.Zero(el.Type())) }})
						valuePositions(el, fp+"[]", out)
					}
				}
			case reflect.Map:
				if f.Type.Elem().Kind() == reflect.Ptr {
					mkeys := fv.MapKeys()
					sort.Slice(mkeys, func(a, b int) bool { return mkeys[a].Uint() < mkeys[b].Uint() })
					for _, k := range mkeys {
						k := k
						mv := fv
						*out = append(*out, nilPos{fp + "{}", func() { mv.SetMapIndex(k, reflect.Zero(mv.Type().Elem())) }})
						valuePositions(fv.MapIndex(k), fp+"{}", out)
					}
				}
			case reflect.Ptr:
				valuePositions(fv, fp, out)
			case reflect.Interface:
				if !fv.IsNil() {
					w := fv.Elem()
					valuePositions(w, path+"."+w.Type().Elem().Name(), out)
				}
			}
		}
	}
}

// nilEnumeration: for every full seed, nil at every list element / map value (one at a time); the
// bytes are what jsonpb writes for that structure (JSON null) - protobuf cannot express a nil element.
// Returns the inputs and the set of type-level positions that were exercised.
func nilEnumeration(full []*seedMsg, maxPerPos int) (out []input, covered map[string]int) {
	covered = map[string]int{}
	for _, s := range full {
		p0 := protoOf(s)
		if p0 == nil {
			continue
		}
		var ps []nilPos
		valuePositions(reflect.ValueOf(p0).Elem(), "", &ps)
		for i := range ps {
			p := protoOf(s)
			var qs []nilPos
			valuePositions(reflect.ValueOf(p).Elem(), "", &qs)
			if i >= len(qs) {
				continue
			}
			if covered[qs[i].path] >= maxPerPos {
				continue
			}
			qs[i].set()
			_, js := marshalBoth(p)
			if js == nil {
				continue
			}
			covered[qs[i].path]++
			in := mk("json", js, fmt.Sprintf("%s/%s nil at %s (occurrence %d)", s.name, s.label, qs[i].path, i), "nilpos")
			in.Pos = qs[i].path
			out = append(out, in)
		}
	}
	return
}

// ---------------------------------------------------------------- level 2: the protobuf wire format

type pbField struct {
	start, valStart, end int // tag at start; value (after the length prefix for wire type 2) at valStart
	lenStart             int // wire type 2: where the length varint starts
	num                  uint64
	wt                   int
}

func readVarint(b []byte, i int) (uint64, int, bool) {
	var x uint64
	for s := uint(0); s < 70; s += 7 {
		if i >= len(b) {
			return 0, 0, false
		}
		c := b[i]
		i++
		x |= uint64(c&0x7f) << s
		if c < 0x80 {
			return x, i, true
		}
	}
	return 0, 0, false
}

// parsePB lists the fields of b at all nesting levels (best effort: a length-delimited value is
// descended into when it parses as a message).
func parsePB(b []byte, base int, depth int, out *[]pbField) bool {
	i := 0
	var mine []pbField
	for i < len(b) {
		tag, j, ok := readVarint(b, i)
		if !ok {
			return false
		}
		f := pbField{start: base + i, num: tag >> 3, wt: int(tag & 7)}
		if f.num == 0 {
			return false
		}
		switch f.wt {
		case 0:
			_, k, ok := readVarint(b, j)
			if !ok {
				return false
			}
			f.valStart, f.end = base+j, base+k
			i = k
		case 1:
			if j+8 > len(b) {
				return false
			}
			f.valStart, f.end = base+j, base+j+8
			i = j + 8
		case 5:
			if j+4 > len(b) {
				return false
			}
			f.valStart, f.end = base+j, base+j+4
			i = j + 4
		case 2:
			n, k, ok := readVarint(b, j)
			if !ok || uint64(k)+n > uint64(len(b)) {
				return false
			}
			f.lenStart, f.valStart, f.end = base+j, base+k, base+k+int(n)
			i = k + int(n)
		default:
			return false
		}
		mine = append(mine, f)
	}
	*out = append(*out, mine...)
	if depth < 8 {
		for _, f := range mine {
			if f.wt == 2 && f.end > f.valStart {
				var sub []pbField
				if parsePB(b[f.valStart-base:f.end-base], f.valStart, depth+1, &sub) {
					*out = append(*out, sub...)
				}
			}
		}
	}
	return true
}

func splice(b []byte, from, to int, repl []byte) []byte {
	out := append([]byte(nil), b[:from]...)
	out = append(out, repl...)
	return append(out, b[to:]...)
}

var hugeLens = []uint64{0x7fffffff, 0xffffffff, 1 << 40, 1<<63 - 1, 1 << 63, ^uint64(0)}

// pbMutants: structure-aware corruption of a protobuf encoding.
func pbMutants(s *seedMsg, other []byte, r *rng.R, nmut int, count func(string)) (out []input) {
	b := s.pb
	var fs []pbField
	if !parsePB(b, 0, 0, &fs) || len(fs) == 0 {
		return
	}
	for i := 0; i < nmut; i++ {
		f := fs[r.Intn(len(fs))]
		var nb []byte
		var d string
		switch r.Intn(12) {
		case 0:
			cut := []int{f.start, f.valStart, f.end - 1, f.start + 1}[r.Intn(4)]
			if cut < 0 || cut > len(b) {
				continue
			}
			nb, d = b[:cut], "truncate-at-field"
		case 1:
			if f.wt != 2 {
				continue
			}
			h := hugeLens[r.Intn(len(hugeLens))]
			nb, d = splice(b, f.lenStart, f.valStart, varint(h)), "huge-length"
		case 2:
			if f.wt != 2 {
				continue
			}
			n := uint64(f.end - f.valStart)
			delta := []uint64{n + 1, n - 1, n + 7, 0}[r.Intn(4)]
			nb, d = splice(b, f.lenStart, f.valStart, varint(delta)), "length-off"
		case 3:
			nb, d = splice(b, f.start, f.end, nil), "delete-field"
		case 4:
			nb, d = splice(b, f.end, f.end, b[f.start:f.end]), "duplicate-field"
		case 5:
			num := []uint64{1000, 536870911, f.num + 1, 0}[r.Intn(4)]
			nb, d = splice(b, f.start, f.start+len(varint(f.num<<3|uint64(f.wt))), varint(num<<3|uint64(f.wt))), "field-number"
		case 6:
			wt := uint64(r.Intn(8))
			nb, d = splice(b, f.start, f.start+len(varint(f.num<<3|uint64(f.wt))), varint(f.num<<3|wt)), "wire-type"
		case 7:
			if f.wt != 0 {
				continue
			}
			v := [][]byte{varint(^uint64(0)), {0xff, 0xff, 0xff, 0xff, 0xff, 0xff, 0xff, 0xff, 0xff, 0xff, 0x01}, {0x80, 0x80, 0x80, 0x80, 0x80, 0x80, 0x80, 0x80, 0x80, 0x80, 0x80, 0x00}, varint(1 << 32), varint(1 << 31)}[r.Intn(5)]
			nb, d = splice(b, f.valStart, f.end, v), "varint-extreme"
		case 8:
			nb, d = append(append([]byte(nil), b...), other...), "second-message-appended"
		case 9:
			// unknown field inserted
			unk := append(varint(999<<3|2), varint(3)...)
			unk = append(unk, 1, 2, 3)
			nb, d = splice(b, f.start, f.start, unk), "unknown-field"
		case 10:
			if f.wt != 2 || f.end-f.valStart == 0 {
				continue
			}
			// wrong-length uuid / payload: shrink or grow the value consistently
			n := []int{0, 1, 15, 17}[r.Intn(4)]
			if f.lenStart == 0 {
				continue
			}
			// only consistent at top nesting of this field; enclosing lengths are left as they are (hostile)
			nb, d = splice(b, f.lenStart, f.end, append(varint(uint64(n)), r.Bytes(n)...)), "value-resized"
		case 11:
			// a count of elements: repeat one field many times
			rep := bytes.Repeat(b[f.start:f.end], 40)
			if len(rep) > 1500 {
				continue
			}
			nb, d = splice(b, f.end, f.end, rep), "field-repeated-40x"
		}
		if nb == nil {
			continue
		}
		count("pbmut:" + d)
		out = append(out, mk("protobuf", nb, fmt.Sprintf("%s/%s pb{%s field %d at %d}", s.name, s.label, d, f.num, f.start), "pbwire"))
	}
	return
}

// ---------------------------------------------------------------- level 3: the JSON tree

type jnode struct {
	set   func(interface{})
	del   func()
	val   interface{}
	path  string
	inArr bool
}

func jwalk(v interface{}, path string, set func(interface{}), del func(), inArr bool, out *[]jnode) {
	*out = append(*out, jnode{set, del, v, path, inArr})
	switch t := v.(type) {
	case map[string]interface{}:
		keys := make([]string, 0, len(t))
		for k := range t {
			keys = append(keys, k)
		}
		sort.Strings(keys)
		for _, k := range keys {
			k := k
			jwalk(t[k], path+"."+k, func(x interface{}) { t[k] = x }, func() { delete(t, k) }, false, out)
		}
	case []interface{}:
		for i := range t {
			i := i
			jwalk(t[i], fmt.Sprintf("%s[%d]", path, i), func(x interface{}) { t[i] = x }, nil, true, out)
		}
	}
}

func jparse(b []byte) interface{} {
	d := json.NewDecoder(bytes.NewReader(b))
	d.UseNumber()
	var v interface{}
	if d.Decode(&v) != nil {
		return nil
	}
	return v
}

var oneofKeys = []string{"connect_request", "disconnect", "ping", "upstream_chunk", "downstream_metadata_ack", "upstream_call"}

// jsonMutants: structure-aware corruption of a JSON encoding.
func jsonMutants(s *seedMsg, r *rng.R, nmut int, count func(string)) (out []input) {
	for i := 0; i < nmut; i++ {
		root := jparse(s.js)
		top, ok := root.(map[string]interface{})
		if !ok {
			return
		}
		var ns []jnode
		holder := map[string]interface{}{"r": root}
		jwalk(root, "", func(x interface{}) { holder["r"] = x }, nil, false, &ns)
		n := ns[r.Intn(len(ns))]
		var d string
		switch r.Intn(14) {
		case 0:
			n.set(nil)
			d = "null"
		case 1: // type confusion
			switch n.val.(type) {
			case map[string]interface{}:
				n.set([]interface{}{[]interface{}{}, "x", json.Number("7"), true, []interface{}{nil}}[r.Intn(5)])
			case []interface{}:
				n.set([]interface{}{map[string]interface{}{}, "x", json.Number("7"), false, map[string]interface{}{"0": nil}}[r.Intn(5)])
			case string:
				n.set([]interface{}{json.Number("12"), true, []interface{}{}, map[string]interface{}{}}[r.Intn(4)])
			case json.Number:
				n.set([]interface{}{"abc", true, []interface{}{}, map[string]interface{}{}, "12", json.Number("1.5")}[r.Intn(6)])
			default:
				n.set([]interface{}{"abc", json.Number("1"), []interface{}{}}[r.Intn(3)])
			}
			d = "type-confused"
		case 2:
			if n.del == nil {
				continue
			}
			n.del()
			d = "key-deleted"
		case 3:
			if m, ok := n.val.(map[string]interface{}); ok {
				m[[]string{"unknown_key", "", "0", "-1", "x y"}[r.Intn(5)]] = []interface{}{nil, json.Number("1"), map[string]interface{}{}}[r.Intn(3)]
				d = "key-added"
			} else {
				continue
			}
		case 4:
			if a, ok := n.val.([]interface{}); ok {
				n.set(append(append([]interface{}{}, a...), nil))
				d = "null-element-appended"
			} else {
				continue
			}
		case 5:
			if _, ok := n.val.(json.Number); ok {
				n.set(json.Number([]string{"-1", "1e400", "4294967296", "18446744073709551616", "9223372036854775808", "1.5", "1e2", "-0", "0x10", "999"}[r.Intn(10)]))
				d = "number-extreme"
			} else {
				continue
			}
		case 6:
			if sv, ok := n.val.(string); ok {
				alt := []string{"FOO", "QOS_UNKNOWN", "AAAA", "AAAAAAAAAAAAAAAAAAAAAAA=", "!!!!", base64.StdEncoding.EncodeToString(r.Bytes(17)), base64.StdEncoding.EncodeToString(r.Bytes(15)), "", "99999999999999999999", "-5", sv + "="}
				n.set(alt[r.Intn(len(alt))])
				d = "string-replaced"
			} else {
				continue
			}
		case 7:
			// a second oneof alternative at top level
			k := oneofKeys[r.Intn(len(oneofKeys))]
			top[k] = []interface{}{map[string]interface{}{}, nil}[r.Intn(2)]
			d = "second-oneof"
		case 8:
			if m, ok := n.val.(map[string]interface{}); ok && len(m) > 0 {
				ks := make([]string, 0, len(m))
				for k := range m {
					ks = append(ks, k)
				}
				sort.Strings(ks)
				if _, err := fmt.Sscanf(ks[0], "%d", new(int)); err == nil {
					m["not-a-number"] = m[ks[0]]
					d = "map-key-not-numeric"
				}
			}
			if d == "" {
				continue
			}
		case 9:
			n.set(map[string]interface{}{"a": map[string]interface{}{"b": []interface{}{map[string]interface{}{"c": nil}}}})
			d = "nested-object"
		case 10:
			if n.inArr {
				n.set(nil)
				d = "null-list-element"
			} else {
				continue
			}
		case 11:
			if _, ok := n.val.(bool); ok {
				n.set([]interface{}{"true", json.Number("1"), nil}[r.Intn(3)])
				d = "bool-confused"
			} else {
				continue
			}
		case 12:
			if _, ok := n.val.(string); ok {
				n.set("@@BADUTF8@@")
				d = "string-not-utf8"
			} else {
				continue
			}
		case 13:
			if _, ok := n.val.(json.Number); ok {
				n.set([]string{"12", "", "abc", "1e3"}[r.Intn(4)])
				d = "number-as-string"
			} else {
				continue
			}
		}
		nb, err := json.Marshal(holder["r"])
		if err != nil {
			continue
		}
		nb = bytes.ReplaceAll(nb, []byte("@@BADUTF8@@"), []byte("a\xffb\xc0\x80"))
		count("jsonmut:" + d)
		out = append(out, mk("json", nb, fmt.Sprintf("%s/%s json{%s at %s}", s.name, s.label, d, n.path), "jsontree"))
	}
	return
}

// jsonNullEverywhere: null at every array element and every value of the JSON tree of a full seed
// (one at a time) - the textual counterpart of nilEnumeration, through the real parser.
func jsonNullEverywhere(s *seedMsg) (out []input) {
	root := jparse(s.js)
	var ns []jnode
	jwalk(root, "", func(interface{}) {}, nil, false, &ns)
	for i := 1; i < len(ns); i++ {
		switch ns[i].val.(type) {
		case map[string]interface{}, []interface{}:
		default:
			continue // scalars: null = default value, not interesting here
		}
		r2 := jparse(s.js)
		var ms []jnode
		jwalk(r2, "", func(interface{}) {}, nil, false, &ms)
		ms[i].set(nil)
		nb, err := json.Marshal(r2)
		if err != nil {
			continue
		}
		out = append(out, mk("json", nb, fmt.Sprintf("%s/%s json{null at %s}", s.name, s.label, ms[i].path), "jsonnull"))
	}
	return
}

// ---------------------------------------------------------------- blind byte mutation

func byteMutants(enc string, s *seedMsg, other []byte, r *rng.R, nmut int, count func(string)) (out []input) {
	src := s.pb
	if enc == "json" {
		src = s.js
	}
	for i := 0; i < nmut; i++ {
		b := append([]byte(nil), src...)
		nops := 1 + r.Intn(3)
		var ds []string
		for j := 0; j < nops; j++ {
			if len(b) == 0 {
				b = append(b, byte(r.Intn(256)))
				continue
			}
			p := r.Intn(len(b))
			switch r.Intn(8) {
			case 0:
				b[p] ^= 1 << uint(r.Intn(8))
				ds = append(ds, "bitflip")
			case 1:
				b[p] = byte(r.Intn(256))
				ds = append(ds, "byte")
			case 2:
				b = splice(b, p, p, []byte{byte(r.Intn(256))})
				ds = append(ds, "insert")
			case 3:
				b = splice(b, p, p+1, nil)
				ds = append(ds, "delete")
			case 4:
				b = b[:p]
				ds = append(ds, "truncate")
			case 5:
				if len(other) > 0 {
					q := r.Intn(len(other))
					b = append(b[:p:p], other[q:]...)
					ds = append(ds, "splice")
				}
			case 6:
				b[p] = []byte{0x00, 0xff, 0x80, 0x7f, '"', '{', '[', ',', ':', '\\'}[r.Intn(10)]
				ds = append(ds, "special-byte")
			case 7:
				q := p + r.Intn(len(b)-p)
				b = splice(b, p, p, b[p:q])
				ds = append(ds, "duplicate-range")
			}
		}
		if len(b) > 4000 {
			b = b[:4000]
		}
		for _, d := range ds {
			count("bytemut:" + d)
		}
		out = append(out, mk(enc, b, fmt.Sprintf("%s/%s bytes{%s}", s.name, s.label, strings.Join(ds, ",")), "bytes"))
	}
	return
}

// fixed hostile inputs that no mutation of a valid encoding is likely to produce
func handwritten() (out []input) {
	js := []string{
		``, ` `, `null`, `{}`, `[]`, `0`, `"x"`, `{"connect_request":null}`, `{"connect_request":{}}`, `{"connect_request":[]}`,
		`{"ping":{"request_id":1}} trailing garbage`, `{"ping":{"request_id":1}}{"ping":{"request_id":2}}`,
		`{"ping":{"request_id":1},"pong":{"request_id":1}}`,
		`{"upstream_chunk":{"stream_chunk":{"data_point_groups":[null]}}}`,
		`{"downstream_chunk":{"stream_chunk":{"data_point_groups":[null,null]}}}`,
		`{"downstream_chunk":{"upstream_alias":1,"stream_chunk":{"data_point_groups":[null]}}}`,
		`{"upstream_chunk":{"stream_chunk":{"data_point_groups":[{"data_id_alias":1,"data_points":[null]}]}}}`,
		`{"downstream_chunk_ack":{"upstream_aliases":{"1":null}}}`,
		`{"downstream_chunk_ack":{"upstream_aliases":{"1":{"stream_id":"AAAA"}}}}`,
		`{"downstream_chunk_ack":{"results":[{"stream_id_of_upstream":"AAAA"}]}}`,
		`{"upstream_chunk_ack":{"data_id_aliases":{"1":null}}}`,
		`{"upstream_chunk_ack":{"data_id_aliases":{"x":{}}}}`,
		`{"upstream_chunk_ack":{"results":[{"result_code":"NOPE"}]}}`,
		`{"upstream_chunk_ack":{"results":[{"result_code":999}]}}`,
		`{"disconnect":{"result_code":-1}}`,
		`{"upstream_open_request":{"qos":7}}`,
		`{"upstream_open_request":{"qos":"PARTIAL","data_ids":[null]}}`,
		`{"downstream_metadata":{"base_time":{"priority":300,"elapsed_time":"18446744073709551615"}}}`,
		`{"downstream_metadata":{"upstream_open":null}}`,
		`{"downstream_metadata":{}}`,
		`{"upstream_metadata":{"base_time":null}}`,
		`{"upstream_resume_request":{"stream_id":"AQI="}}`,
		`{"connect_request":{"node_id":"a\ud800b"}}`,
		`{"connect_request":{"extension_fields":{"intdash":{"project_uuid":"not-a-uuid"}}}}`,
		`{"connect_request":{"extension_fields":{"intdash":null}}}`,
		`{"connect_request":{"ping_interval":4294967296}}`,
		strings.Repeat("[", 12000),
		strings.Repeat(`{"a":`, 12000),
		`{"upstream_chunk":{"data_ids":[` + strings.Repeat("null,", 300) + `null]}}`,
	}
	for i, s := range js {
		out = append(out, mk("json", []byte(s), fmt.Sprintf("handwritten json %d", i), "handwritten"))
	}
	pbs := [][]byte{
		{}, {0x00}, {0xff}, {0x0a}, {0x0a, 0x00}, {0x0a, 0xff, 0xff, 0xff, 0xff, 0x0f},
		{0x0a, 0x05, 0x1a, 0x03, 'a', 0xff, 'b'}, // ConnectRequest with a node id that is not UTF-8
		{0x0a, 0x00, 0x12, 0x00},                 // two alternatives of the oneof
		{0xb2, 0x04, 0x04, 0x12, 0x02, 0x12, 0x00}, // upstream chunk with an empty group (no data id)
		append([]byte{0xb2, 0x04, 0xff, 0xff, 0xff, 0xff, 0x07}, make([]byte, 10)...),
		bytes.Repeat([]byte{0x0b}, 500), // nested start-group markers
		bytes.Repeat([]byte{0x0a, 0x00}, 300),
	}
	for i, b := range pbs {
		out = append(out, mk("protobuf", b, fmt.Sprintf("handwritten protobuf %d", i), "handwritten"))
	}
	return
}

// ---------------------------------------------------------------- JSON inputs on which jsonpb is not a function

// oneofGroups: for every oneof of the schema, the JSON names (original and camel case) of its alternatives.
var oneofGroups = func() [][]string {
	var groups [][]string
	seen := map[reflect.Type]bool{}
	var walk func(t reflect.Type)
	walk = func(t reflect.Type) {
		for t.Kind() == reflect.Ptr || t.Kind() == reflect.Slice || t.Kind() == reflect.Map {
			t = t.Elem()
		}
		if t.Kind() != reflect.Struct || seen[t] {
			return
		}
		seen[t] = true
		var wrappers []interface{}
		if m, ok := reflect.New(t).Interface().(interface{ XXX_OneofWrappers() []interface{} }); ok {
			wrappers = m.XXX_OneofWrappers()
		}
		for i := 0; i < t.NumField(); i++ {
			f := t.Field(i)
			if f.Type.Kind() == reflect.Interface {
				var names []string
				for _, w := range wrappers {
					wt := reflect.TypeOf(w)
					if !wt.Implements(f.Type) {
						continue
					}
					tag := wt.Elem().Field(0).Tag.Get("protobuf")
					for _, part := range strings.Split(tag, ",") {
						if strings.HasPrefix(part, "name=") {
							names = append(names, part[5:])
						}
						if strings.HasPrefix(part, "json=") {
							names = append(names, part[5:])
						}
					}
					walk(wt.Elem().Field(0).Type)
				}
				groups = append(groups, names)
				continue
			}
			walk(f.Type)
		}
	}
	walk(reflect.TypeOf(autogen.Message{}))
	return groups
}()

// ambiguousJSON: some object of the text names two alternatives of one oneof. gogo jsonpb then ranges
// over a Go map and the alternative visited last wins: the parsed structure differs from call to call.
func ambiguousJSON(b []byte) bool {
	d := json.NewDecoder(bytes.NewReader(b))
	var v interface{}
	if d.Decode(&v) != nil {
		return false
	}
	amb := false
	var walk func(x interface{})
	walk = func(x interface{}) {
		switch t := x.(type) {
		case map[string]interface{}:
			for _, g := range oneofGroups {
				n := 0
				for _, name := range g {
					if _, ok := t[name]; ok {
						n++
					}
				}
				if n >= 2 {
					amb = true
				}
			}
			for _, c := range t {
				walk(c)
			}
		case []interface{}:
			for _, c := range t {
				walk(c)
			}
		}
	}
	walk(v)
	return amb
}

package main

// Step (f), thorough tier: the frames are fed to the read path of a REAL wire.ClientConn over the
// in-memory transport.  Runs in a child process (a panic in one of the connection's goroutines kills
// the process: the parent sees the child die and charges the frame).  Per batch of frames and per
// encoding: frames that DecodeFrom accepts go to one connection, on which the connection must go on
// working (it answers a server ping and a later client request succeeds - unless a Disconnect was
// among the frames); frames that DecodeFrom rejects go to another one, where the later request only
// has to RETURN (the read loop ends on the first read error by design; keepalive then closes).

import (
	"bufio"
	"bytes"
	"context"
	"encoding/json"
	"fmt"
	"os"
	"sync"
	"time"

	"github.com/aptpod/iscp-go/encoding"
	"github.com/aptpod/iscp-go/message"
	"github.com/aptpod/iscp-go/transport"
	"github.com/aptpod/iscp-go/wire"

	"verif/internal/coqfmt"
	"verif/internal/memtr"
)

const wireBatch = 16

type wireResult struct {
	Idx  int    `json:"i"`
	Wire string `json:"wire"` // "ok ..." or "FAIL ..."
}

const probePingID = 777777

// scenario feeds the frames to a fresh connection; expectService = the connection must keep working.
func scenario(encName string, frames [][]byte, expectService bool) (verdict string) {
	e := encodingOf(encName)
	link := memtr.NewLink(transport.NegotiationParams{})
	srv := link.Server()
	var mu sync.Mutex
	pongs := map[uint32]bool{}
	firstPing := make(chan struct{}, 1)
	send := func(m message.Message) {
		var buf bytes.Buffer
		if _, err := e.EncodeTo(&buf, m); err == nil {
			srv.Write(buf.Bytes())
		}
	}
	// the scripted server
	go func() {
		for {
			b, err := srv.Read()
			if err != nil {
				return
			}
			_, m, err := e.DecodeFrom(bytes.NewReader(b))
			if err != nil {
				continue
			}
			switch x := m.(type) {
			case *message.ConnectRequest:
				send(&message.ConnectResponse{RequestID: x.RequestID, ProtocolVersion: x.ProtocolVersion, ResultCode: message.ResultCodeSucceeded})
			case *message.Ping:
				send(&message.Pong{RequestID: x.RequestID})
				select {
				case firstPing <- struct{}{}:
				default:
				}
			case *message.Pong:
				mu.Lock()
				pongs[uint32(x.RequestID)] = true
				mu.Unlock()
			case *message.UpstreamMetadata:
				send(&message.UpstreamMetadataAck{RequestID: x.RequestID, ResultCode: message.ResultCodeSucceeded})
			}
		}
	}()
	defer srv.Close()

	type connRes struct {
		c   *wire.ClientConn
		err error
	}
	cch := make(chan connRes, 1)
	go func() {
		defer func() {
			if r := recover(); r != nil {
				cch <- connRes{nil, fmt.Errorf("panic in wire.Connect: %v", r)}
			}
		}()
		c, err := wire.Connect(&wire.ClientConnConfig{
			Transport:       encoding.NewTransport(&encoding.TransportConfig{Transport: link.Client(), Encoding: e}),
			ProtocolVersion: "2.0.0", NodeID: "h-fuzz", PingInterval: time.Hour, PingTimeout: 3 * time.Second,
		})
		cch <- connRes{c, err}
	}()
	var conn *wire.ClientConn
	select {
	case cr := <-cch:
		if cr.err != nil {
			return "FAIL connect on a fresh connection: " + cr.err.Error()
		}
		conn = cr.c
	case <-time.After(5 * time.Second):
		return "FAIL wire.Connect did not return within 5 s on a fresh connection"
	}
	ctx, cancel := context.WithCancel(context.Background())
	defer cancel()
	// consumers of the two public receive queues (the iscp layer always runs them)
	go func() {
		for ctx.Err() == nil {
			if _, err := conn.ReceiveDownstreamCall(ctx); err != nil {
				return
			}
		}
	}()
	go func() {
		for ctx.Err() == nil {
			if _, err := conn.ReceiveUpstreamCallAck(ctx); err != nil {
				return
			}
		}
	}()
	// the keepalive's first ping has been answered before the hostile frames are queued
	select {
	case <-firstPing:
	case <-time.After(3 * time.Second):
		return "FAIL the connection did not send its first ping within 3 s"
	}
	for _, f := range frames {
		srv.Write(f)
	}
	if expectService {
		send(&message.Ping{RequestID: probePingID})
		deadline := time.Now().Add(4 * time.Second)
		for {
			mu.Lock()
			ok := pongs[probePingID]
			mu.Unlock()
			if ok {
				break
			}
			if time.Now().After(deadline) {
				return "FAIL after frames that all decode, the connection no longer answers a ping within 4 s (read path stalled)"
			}
			time.Sleep(time.Millisecond)
		}
	}
	// a later request
	type reqRes struct {
		err   error
		panic string
	}
	rch := make(chan reqRes, 1)
	wait := 200 * time.Millisecond
	if expectService {
		wait = 4 * time.Second
	}
	go func() {
		defer func() {
			if r := recover(); r != nil {
				rch <- reqRes{panic: fmt.Sprint(r)}
			}
		}()
		rctx, rcancel := context.WithTimeout(ctx, wait)
		defer rcancel()
		_, err := conn.SendUpstreamMetadata(rctx, &message.UpstreamMetadata{Metadata: &message.BaseTime{Name: "t", BaseTime: time.Unix(1, 0).UTC()}})
		rch <- reqRes{err: err}
	}()
	var rr reqRes
	select {
	case rr = <-rch:
	case <-time.After(wait + 5*time.Second):
		return "FAIL a later request did not return (hang) after the frames"
	}
	closed := make(chan struct{})
	go func() {
		defer func() { recover(); close(closed) }()
		conn.Close()
	}()
	select {
	case <-closed:
	case <-time.After(5 * time.Second):
		return "FAIL Close did not return within 5 s after the frames"
	}
	switch {
	case rr.panic != "":
		return "FAIL a later request panicked: " + rr.panic
	case expectService && rr.err != nil:
		return "FAIL after frames that all decode, a later request fails: " + rr.err.Error()
	case rr.err != nil:
		return "ok (read loop ended on the undecodable frame; later request returned: " + short(rr.err) + ")"
	}
	return "ok (later request answered)"
}

type wireFrame struct {
	idx      int
	bytes    []byte
	decodes  bool
	breaking bool // a Disconnect: the client closes the transport by design
}

func classify(idx int, in *input) wireFrame {
	f := wireFrame{idx: idx, bytes: in.bytes()}
	func() {
		defer func() { recover() }()
		_, m, err := encodingOf(in.Enc).DecodeFrom(bytes.NewReader(f.bytes))
		if err == nil && m != nil {
			f.decodes = true
			if _, ok := m.(*message.Disconnect); ok {
				f.breaking = true
			}
		}
	}()
	return f
}

func childWireMain(file string, from, to int) {
	fh, err := os.Open(file)
	if err != nil {
		fmt.Fprintln(os.Stderr, err)
		os.Exit(2)
	}
	var ins []input
	sc := bufio.NewScanner(fh)
	sc.Buffer(make([]byte, 1<<20), 1<<28)
	for sc.Scan() {
		var in input
		if err := json.Unmarshal(sc.Bytes(), &in); err != nil {
			fmt.Fprintln(os.Stderr, err)
			os.Exit(2)
		}
		ins = append(ins, in)
	}
	fh.Close()
	if to > len(ins) {
		to = len(ins)
	}
	w := bufio.NewWriter(os.Stdout)
	enc := json.NewEncoder(w)
	single := os.Getenv("HFUZZ_WIRE_SINGLE") == "1"
	step := wireBatch
	if single {
		step = 1
	}
	for b := from; b < to; b += step {
		e := b + step
		if e > to {
			e = to
		}
		fmt.Fprintf(w, "START %d\n", b)
		w.Flush()
		verdicts := map[int]string{}
		// groups: encoding x {decodes and harmless, decodes and is a Disconnect, rejected}
		groups := map[string][]wireFrame{}
		var order []string
		for i := b; i < e; i++ {
			f := classify(i, &ins[i])
			k := ins[i].Enc + "/rejected"
			if ins[i].Enc == "json" && ambiguousJSON(f.bytes) {
				// jsonpb is not a function of these bytes: what the connection decodes is not known here
				k = ins[i].Enc + "/ambiguous"
				f.decodes = false
			} else if f.decodes && f.breaking {
				k = ins[i].Enc + "/disconnect"
			} else if f.decodes {
				k = ins[i].Enc + "/decodes"
			}
			if _, ok := groups[k]; !ok {
				order = append(order, k)
			}
			groups[k] = append(groups[k], f)
		}
		for _, k := range order {
			g := groups[k]
			encName := ins[g[0].idx].Enc
			expect := g[0].decodes && !g[0].breaking
			var frames [][]byte
			for _, f := range g {
				frames = append(frames, f.bytes)
			}
			v := scenario(encName, frames, expect)
			if len(v) >= 4 && v[:4] == "FAIL" && len(g) > 1 {
				// attribute: each frame on its own connection
				for _, f := range g {
					verdicts[f.idx] = scenario(encName, [][]byte{f.bytes}, expect)
				}
				// a failure that needs several frames together is charged to the last one
				any := false
				for _, f := range g {
					if verdicts[f.idx][:2] != "ok" {
						any = true
					}
				}
				if !any {
					verdicts[g[len(g)-1].idx] = v + " (only with the whole batch of frames)"
				}
				continue
			}
			for _, f := range g {
				verdicts[f.idx] = v
			}
		}
		for i := b; i < e; i++ {
			enc.Encode(&wireResult{Idx: i, Wire: verdicts[i]})
		}
		w.Flush()
	}
}

// applyWire merges the wire observation of an input into its case.
func applyWire(c *coqfmt.Case, oc *childOutcome) {
	obs, _ := c.Observed.(map[string]interface{})
	if obs == nil {
		obs = map[string]interface{}{}
		c.Observed = obs
	}
	switch {
	case oc.direct != "":
		obs["wire_client_conn"] = oc.direct
		if c.Direct == "" {
			c.Direct = "wire.ClientConn read path: " + oc.direct
			c.Sig = "wire-read-path-crash-or-hang"
		}
	case oc.res == nil:
		obs["wire_client_conn"] = "not run"
	default:
		obs["wire_client_conn"] = oc.res.Wire
		if len(oc.res.Wire) >= 4 && oc.res.Wire[:4] == "FAIL" && c.Direct == "" {
			c.Direct = "wire.ClientConn read path: " + oc.res.Wire
			c.Sig = "wire-read-path"
		}
	}
}

package main

// "Frame flood" scenarios (quick and thorough tier): a REAL wire.ClientConn over the in-memory
// transport with subscriptions that NOBODY drains (a wire-level subscriber that does not read: an
// iscp stream whose close went unanswered or whose open was refused looks the same), fed with N valid
// frames of one kind for the subscribed alias - more than the subscriber queue (1024) plus the
// dispatch queue (8) hold - mixed with hostile frames that decode (unknown aliases, unsolicited
// responses, chunks without content).  Frames that do not decode are not mixed in: the read loop ends
// on the first read error by design (thorough scenario of wire.go).  Afterwards the connection must
// still answer a broker Ping with a Pong and a later request must get its response: the read path
// must not hang on the frames a peer sends.  Runs in a child process under a watchdog.

import (
	"bufio"
	"bytes"
	"context"
	"encoding/json"
	"fmt"
	"os"
	"os/exec"
	"strings"
	"sync"
	"time"

	"github.com/aptpod/iscp-go/encoding"
	"github.com/aptpod/iscp-go/message"
	"github.com/aptpod/iscp-go/transport"
	"github.com/aptpod/iscp-go/wire"
	"github.com/google/uuid"

	"verif/internal/coqfmt"
	"verif/internal/memtr"
	"verif/internal/rng"
)

type floodIn struct {
	Frames   string `json:"frames"` // downstream_chunk | downstream_chunk_unreliable_qos | downstream_metadata | upstream_chunk_ack | downstream_call | ping
	N        int    `json:"count"`
	Enc      string `json:"encoding"`
	Seed     uint64 `json:"seed"`
	HostileP int    `json:"hostile_per_100"` // share of interleaved hostile-but-decodable frames
}

type floodRes struct {
	Idx     int    `json:"i"`
	Verdict string `json:"verdict"` // "ok ..." | "FAIL ..."
}

const (
	floodWatchdog = 8 * time.Second
	floodAlias    = 5
	floodNode     = "src-node"
)

func floodScenarios(seed uint64, thorough bool) (out []floodIn) {
	r := rng.New(seed ^ 0xF100D)
	kinds := []string{"downstream_chunk", "downstream_chunk_unreliable_qos", "downstream_metadata", "upstream_chunk_ack", "downstream_call", "ping"}
	for _, k := range kinds {
		for _, n := range []int{9, 1030, 1100, 2200} {
			enc := "protobuf"
			if (n == 1100 && r.Bool()) || thorough && r.Bool() {
				enc = "json"
			}
			out = append(out, floodIn{Frames: k, N: n, Enc: enc, Seed: r.U64(), HostileP: []int{0, 3, 10}[r.Intn(3)]})
		}
	}
	return
}

// hostileDecodable: frames that decode but that nothing on the connection waits for.
func hostileDecodable(r *rng.R) message.Message {
	switch r.Intn(9) {
	case 0:
		return &message.DownstreamChunk{StreamIDAlias: 4000 + uint32(r.Intn(9)), UpstreamOrAlias: message.UpstreamAlias(1), StreamChunk: &message.StreamChunk{SequenceNumber: 1}}
	case 1:
		return &message.UpstreamChunkAck{StreamIDAlias: 4000}
	case 2:
		return &message.DownstreamMetadata{RequestID: 9, StreamIDAlias: 4000, SourceNodeID: "x", Metadata: &message.BaseTime{Name: "n", BaseTime: time.Unix(2, 0).UTC()}}
	case 3:
		return &message.UpstreamCloseResponse{RequestID: message.RequestID(1000 + 2*uint32(r.Intn(50))), ResultCode: message.ResultCodeSucceeded}
	case 4:
		return &message.Pong{RequestID: message.RequestID(1001)}
	case 5:
		return &message.DownstreamChunkAckComplete{StreamIDAlias: uint32(r.Intn(8)), AckID: 7, ResultCode: message.ResultCodeSucceeded}
	case 6:
		return &message.ConnectResponse{RequestID: 0, ResultCode: message.ResultCodeSucceeded}
	case 7:
		return &message.UpstreamCallAck{CallID: "nobody", ResultCode: message.ResultCodeSucceeded}
	}
	return &message.DownstreamChunk{StreamIDAlias: floodAlias, UpstreamOrAlias: message.UpstreamAlias(1)} // subscribed alias, no chunk content
}

func floodFrame(kind string, i int, upAlias uint32) message.Message {
	switch kind {
	case "downstream_chunk", "downstream_chunk_unreliable_qos":
		return &message.DownstreamChunk{StreamIDAlias: floodAlias, UpstreamOrAlias: message.UpstreamAlias(1),
			StreamChunk: &message.StreamChunk{SequenceNumber: uint32(i + 1), DataPointGroups: []*message.DataPointGroup{
				{DataIDOrAlias: message.DataIDAlias(1), DataPoints: []*message.DataPoint{{ElapsedTime: time.Duration(i), Payload: []byte{byte(i)}}}}}}}
	case "downstream_metadata":
		return &message.DownstreamMetadata{RequestID: message.RequestID(2*i + 1), StreamIDAlias: floodAlias, SourceNodeID: floodNode,
			Metadata: &message.BaseTime{Name: "n", Priority: uint8(i), BaseTime: time.Unix(int64(i), 0).UTC()}}
	case "upstream_chunk_ack":
		return &message.UpstreamChunkAck{StreamIDAlias: upAlias, Results: []*message.UpstreamChunkResult{{SequenceNumber: uint32(i + 1), ResultCode: message.ResultCodeSucceeded}}}
	case "downstream_call":
		return &message.DownstreamCall{CallID: fmt.Sprint("c", i), SourceNodeID: floodNode, Name: "n", Type: "t", Payload: []byte{1}}
	}
	return &message.Ping{RequestID: message.RequestID(100001 + 2*i)}
}

func runFlood(in *floodIn) (verdict string) {
	defer func() {
		if r := recover(); r != nil {
			verdict = fmt.Sprintf("FAIL panic in the scenario: %v", r)
		}
	}()
	e := encodingOf(in.Enc)
	r := rng.New(in.Seed)
	link := memtr.NewLink(transport.NegotiationParams{})
	srv := link.Server()
	var mu sync.Mutex
	pongs := map[uint32]bool{}
	firstPing := make(chan struct{}, 1)
	const upAlias = 77
	encode := func(m message.Message) []byte {
		var buf bytes.Buffer
		if _, err := e.EncodeTo(&buf, m); err != nil {
			panic(fmt.Sprintf("harness frame does not encode: %v", err))
		}
		return append([]byte(nil), buf.Bytes()...)
	}
	send := func(m message.Message) { srv.Write(encode(m)) }
	go func() {
		for {
			b, err := srv.Read()
			if err != nil {
				return
			}
			_, m, err := e.DecodeFrom(bytes.NewReader(b))
			if err != nil {
				continue
			}
			switch x := m.(type) {
			case *message.ConnectRequest:
				send(&message.ConnectResponse{RequestID: x.RequestID, ProtocolVersion: x.ProtocolVersion, ResultCode: message.ResultCodeSucceeded})
			case *message.Ping:
				send(&message.Pong{RequestID: x.RequestID})
				select {
				case firstPing <- struct{}{}:
				default:
				}
			case *message.Pong:
				mu.Lock()
				pongs[uint32(x.RequestID)] = true
				mu.Unlock()
			case *message.UpstreamOpenRequest:
				send(&message.UpstreamOpenResponse{RequestID: x.RequestID, AssignedStreamID: uuid.MustParse("11111111-2222-3333-4444-555555555555"),
					AssignedStreamIDAlias: upAlias, ResultCode: message.ResultCodeSucceeded, ServerTime: time.Unix(1, 0).UTC()})
			case *message.UpstreamMetadata:
				send(&message.UpstreamMetadataAck{RequestID: x.RequestID, ResultCode: message.ResultCodeSucceeded})
			}
		}
	}()
	defer srv.Close()

	type connRes struct {
		c   *wire.ClientConn
		err error
	}
	cch := make(chan connRes, 1)
	go func() {
		defer func() {
			if r := recover(); r != nil {
				cch <- connRes{nil, fmt.Errorf("panic in wire.Connect: %v", r)}
			}
		}()
		c, err := wire.Connect(&wire.ClientConnConfig{
			Transport:       encoding.NewTransport(&encoding.TransportConfig{Transport: link.Client(), Encoding: e}),
			ProtocolVersion: "2.0.0", NodeID: "h-fuzz", PingInterval: time.Hour, PingTimeout: floodWatchdog,
		})
		cch <- connRes{c, err}
	}()
	var conn *wire.ClientConn
	select {
	case cr := <-cch:
		if cr.err != nil {
			return "FAIL connect: " + cr.err.Error()
		}
		conn = cr.c
	case <-time.After(floodWatchdog):
		return "FAIL wire.Connect did not return"
	}
	ctx, cancel := context.WithCancel(context.Background())
	defer cancel()
	defer func() {
		done := make(chan struct{})
		go func() { defer func() { recover(); close(done) }(); conn.Close() }()
		select {
		case <-done:
		case <-time.After(floodWatchdog):
			verdict = "FAIL Close did not return after the flood"
		}
	}()
	// the two public receive queues are consumed, as the iscp layer always does
	go func() {
		for ctx.Err() == nil {
			if _, err := conn.ReceiveDownstreamCall(ctx); err != nil {
				return
			}
		}
	}()
	go func() {
		for ctx.Err() == nil {
			if _, err := conn.ReceiveUpstreamCallAck(ctx); err != nil {
				return
			}
		}
	}()
	select {
	case <-firstPing:
	case <-time.After(floodWatchdog):
		return "FAIL the connection did not send its first ping"
	}
	// subscriptions that nobody drains
	qos := message.QoSReliable
	if in.Frames == "downstream_chunk_unreliable_qos" {
		qos = message.QoSUnreliable // no unreliable transport configured: same queue and loop
	}
	if _, err := conn.SubscribeDownstreamChunk(ctx, floodAlias, qos); err != nil {
		return "FAIL SubscribeDownstreamChunk: " + err.Error()
	}
	if _, err := conn.SubscribeDownstreamMeta(ctx, floodAlias, floodNode); err != nil {
		return "FAIL SubscribeDownstreamMeta: " + err.Error()
	}
	if _, err := conn.SubscribeDownstreamChunkAckComplete(ctx, floodAlias); err != nil {
		return "FAIL SubscribeDownstreamChunkAckComplete: " + err.Error()
	}
	octx, ocancel := context.WithTimeout(ctx, floodWatchdog)
	resp, err := conn.SendUpstreamOpenRequest(octx, &message.UpstreamOpenRequest{SessionID: "s", QoS: message.QoSReliable})
	ocancel()
	if err != nil {
		return "FAIL upstream open before the flood: " + err.Error()
	}
	if _, err := conn.SubscribeUpstreamChunkAck(ctx, resp.AssignedStreamIDAlias); err != nil {
		return "FAIL SubscribeUpstreamChunkAck: " + err.Error()
	}
	// the flood
	for i := 0; i < in.N; i++ {
		srv.Write(encode(floodFrame(in.Frames, i, resp.AssignedStreamIDAlias)))
		if r.Intn(100) < in.HostileP {
			srv.Write(encode(hostileDecodable(r)))
		}
	}
	// the connection still reads: a broker ping is answered
	const probe = 777777
	send(&message.Ping{RequestID: probe})
	deadline := time.Now().Add(floodWatchdog)
	for {
		mu.Lock()
		ok := pongs[probe]
		mu.Unlock()
		if ok {
			break
		}
		if time.Now().After(deadline) {
			return fmt.Sprintf("FAIL hang of the read path: after %d %s frames for a subscribed alias that nobody drains, a broker Ping is not answered within %v", in.N, in.Frames, floodWatchdog)
		}
		time.Sleep(time.Millisecond)
	}
	// and a later request gets its response
	type reqRes struct {
		err   error
		panic string
	}
	rch := make(chan reqRes, 1)
	go func() {
		defer func() {
			if r := recover(); r != nil {
				rch <- reqRes{panic: fmt.Sprint(r)}
			}
		}()
		rctx, rcancel := context.WithTimeout(ctx, floodWatchdog)
		defer rcancel()
		_, err := conn.SendUpstreamMetadata(rctx, &message.UpstreamMetadata{Metadata: &message.BaseTime{Name: "t", BaseTime: time.Unix(1, 0).UTC()}})
		rch <- reqRes{err: err}
	}()
	select {
	case rr := <-rch:
		if rr.panic != "" {
			return "FAIL a later request panicked: " + rr.panic
		}
		if rr.err != nil {
			return fmt.Sprintf("FAIL hang of the read path: after %d %s frames a later request gets no response: %v", in.N, in.Frames, rr.err)
		}
	case <-time.After(2 * floodWatchdog):
		return "FAIL a later request did not return after the flood"
	}
	return "ok (ping answered, later request answered)"
}

// childFloodMain: all scenarios of the file concurrently (independent connections), one result line each.
func childFloodMain(file string) {
	b, err := os.ReadFile(file)
	if err != nil {
		fmt.Fprintln(os.Stderr, err)
		os.Exit(2)
	}
	var ins []floodIn
	if err := json.Unmarshal(b, &ins); err != nil {
		fmt.Fprintln(os.Stderr, err)
		os.Exit(2)
	}
	var mu sync.Mutex
	w := bufio.NewWriter(os.Stdout)
	enc := json.NewEncoder(w)
	var wg sync.WaitGroup
	sem := make(chan struct{}, 8)
	for i := range ins {
		wg.Add(1)
		go func(i int) {
			defer wg.Done()
			sem <- struct{}{}
			v := runFlood(&ins[i])
			<-sem
			mu.Lock()
			enc.Encode(&floodRes{Idx: i, Verdict: v})
			w.Flush()
			mu.Unlock()
		}(i)
	}
	wg.Wait()
}

// runFloods runs the scenarios in a child under `ulimit -v` and an overall watchdog.
func runFloods(self, dir string, ins []floodIn) []string {
	verdicts := make([]string, len(ins))
	file := dir + "/inputs_flood.json"
	b, _ := json.Marshal(ins)
	if err := os.WriteFile(file, b, 0o644); err != nil {
		fmt.Fprintln(os.Stderr, "h-fuzz:", err)
		os.Exit(2)
	}
	sh := fmt.Sprintf("ulimit -v %d; exec \"$0\" \"$@\"", childMemKB)
	cmd := exec.Command("sh", "-c", sh, self, "-childflood", file)
	var stderr strings.Builder
	cmd.Stderr = &stderr
	stdout, err := cmd.StdoutPipe()
	if err == nil {
		err = cmd.Start()
	}
	if err != nil {
		fmt.Fprintln(os.Stderr, "h-fuzz:", err)
		os.Exit(2)
	}
	done := make(chan struct{})
	go func() {
		sc := bufio.NewScanner(stdout)
		sc.Buffer(make([]byte, 1<<20), 1<<26)
		for sc.Scan() {
			var r floodRes
			if json.Unmarshal(sc.Bytes(), &r) == nil && r.Idx >= 0 && r.Idx < len(verdicts) {
				verdicts[r.Idx] = r.Verdict
			}
		}
		close(done)
	}()
	// every scenario is bounded by its own watchdogs (< 6 x floodWatchdog); 8 run at a time
	limit := time.Duration(len(ins)/8+2) * 6 * floodWatchdog
	hung := false
	select {
	case <-done:
	case <-time.After(limit):
		hung = true
		cmd.Process.Kill()
		<-done
	}
	werr := cmd.Wait()
	tail := stderr.String()
	if len(tail) > 1200 {
		tail = tail[:600] + " ... " + tail[len(tail)-600:]
	}
	for i := range verdicts {
		if verdicts[i] == "" {
			if hung {
				verdicts[i] = fmt.Sprintf("FAIL hang: the scenario did not finish within %v (child killed)", limit)
			} else {
				verdicts[i] = fmt.Sprintf("FAIL the child process died (%v): %s", werr, tail)
			}
		}
	}
	return verdicts
}

func floodCase(in *floodIn, verdict string) coqfmt.Case {
	c := coqfmt.Case{Term: stubTerm, Input: map[string]interface{}{"flood": in}, Kind: "flood", Nontrivial: false,
		Observed: map[string]interface{}{"wire_client_conn_flood": verdict}, Seed: in.Seed}
	if !strings.HasPrefix(verdict, "ok") {
		c.Direct = "wire.ClientConn read path: " + verdict
		c.Sig = "wire-read-path-hang"
	}
	return c
}

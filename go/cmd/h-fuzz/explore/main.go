package main

import (
	"bytes"
	"fmt"

	ejson "github.com/aptpod/iscp-go/encoding/json"
	epb "github.com/aptpod/iscp-go/encoding/protobuf"
	"github.com/aptpod/iscp-go/message"
	autogen "github.com/aptpod/iscp-proto/gen/gogofast/iscp2/v1"
	"github.com/gogo/protobuf/jsonpb"

	"verif/cmd/h-codec/cdump"
)

func try(name string, f func()) {
	defer func() {
		if r := recover(); r != nil {
			fmt.Println(name, "PANIC", r)
		}
	}()
	f()
}

func main() {
	pb, js := epb.NewEncoding(), ejson.NewEncoding()
	for _, s := range []string{
		`{"upstream_chunk":{"stream_chunk":{"data_point_groups":[null]}}}`,
		`{"upstream_chunk":{"data_ids":[null]}}`,
		`{"upstream_chunk_ack":{"data_id_aliases":{"1":null}}}`,
		`{"downstream_chunk_ack":{"upstream_aliases":{"1":null}}}`,
		`{"downstream_chunk_ack":{"results":[null]}}`,
		`{"connect_request":null}`,
		`{"upstream_chunk":{"stream_chunk":null}}`,
		`{"upstream_chunk":{"stream_chunk":{"data_point_groups":[{"data_points":[null]}]}}}`,
		`{"upstream_chunk":{"stream_chunk":{"data_point_groups":[{"data_id_alias":1,"data_points":[null]}]}}}`,
		`{"connect_request":{"node_id":"a\ud800b"}} trailing`,
		`null`, `{}`, `[]`, ``,
	} {
		var p autogen.Message
		err := jsonpb.Unmarshal(bytes.NewReader([]byte(s)), &p)
		fmt.Printf("%s\n  parse err=%v\n", s, err)
		if err == nil {
			try("dump", func() { fmt.Println("  parsed:", cdump.Proto(&p)) })
		}
		try("dec", func() {
			n, m, err := js.DecodeFrom(bytes.NewReader([]byte(s)))
			fmt.Printf("  decode n=%d err=%v m=%s\n", n, err, cdump.Wire(m))
			if err == nil {
				for _, e := range []interface {
					EncodeTo(w interface{ Write([]byte) (int, error) }, m message.Message) (int, error)
				}{} {
					_ = e
				}
				var b1, b2 bytes.Buffer
				_, e1 := pb.EncodeTo(&b1, m)
				_, e2 := js.EncodeTo(&b2, m)
				fmt.Printf("  re-encode pb err=%v (%x) json err=%v (%s)\n", e1, b1.Bytes(), e2, b2.String())
				if e1 == nil {
					_, m2, err := pb.DecodeFrom(bytes.NewReader(b1.Bytes()))
					fmt.Printf("  re-decode pb err=%v m=%s\n", err, cdump.Wire(m2))
				}
				if e2 == nil {
					_, m2, err := js.DecodeFrom(bytes.NewReader(b2.Bytes()))
					fmt.Printf("  re-decode json err=%v m=%s\n", err, cdump.Wire(m2))
				}
			}
		})
	}
	// invalid utf8 through protobuf
	bad := []byte{0x0a, 0x05, 0x1a, 0x03, 'a', 0xff, 'b'}
	_, m, err := pb.DecodeFrom(bytes.NewReader(bad))
	fmt.Printf("pb invalid utf8: err=%v m=%s\n", err, cdump.Wire(m))
	if err == nil {
		var b1, b2 bytes.Buffer
		_, e1 := pb.EncodeTo(&b1, m)
		_, e2 := js.EncodeTo(&b2, m)
		fmt.Printf("  re-encode pb err=%v (%x) json err=%v (%s)\n", e1, b1.Bytes(), e2, b2.String())
		_, m2, err := js.DecodeFrom(bytes.NewReader(b2.Bytes()))
		fmt.Printf("  re-decode json err=%v m=%s\n", err, cdump.Wire(m2))
	}
}

package main

// The part of h-fuzz that touches the library: it runs in a CHILD process (the harness binary
// re-executed with -child, under `ulimit -v` and a parent-side timeout), so that a crash, a hang or
// a memory blow-up inside the library or the third-party parsers cannot take the harness down.

import (
	"bufio"
	"bytes"
	"encoding/hex"
	"encoding/json"
	"fmt"
	"os"
	"reflect"
	"unicode/utf8"

	"github.com/aptpod/iscp-go/encoding"
	"github.com/aptpod/iscp-go/encoding/convert"
	ejson "github.com/aptpod/iscp-go/encoding/json"
	epb "github.com/aptpod/iscp-go/encoding/protobuf"
	ierrors "github.com/aptpod/iscp-go/errors"
	"github.com/aptpod/iscp-go/message"
	autogen "github.com/aptpod/iscp-proto/gen/gogofast/iscp2/v1"
	"github.com/gogo/protobuf/jsonpb"

	"verif/cmd/h-codec/cdump"
	"verif/internal/ioshape"
	"verif/internal/rng"
)

// input is one fuzz input; it is also the replayable description of the case.
type input struct {
	Enc    string `json:"encoding"`         // "protobuf" | "json": which decoder the bytes are fed to
	Hex    string `json:"bytes_hex"`        // the bytes
	Max    int64  `json:"max_message_size"` // MaxMessageSize of the encoding.Transport of step (d)
	Origin string `json:"origin"`           // where the bytes come from (seed, mutation)
	Text   string `json:"text,omitempty"`   // the bytes as text when printable (information only)
	Pos    string `json:"nil_position,omitempty"` // nil enumeration: the repeated/map field whose element is nil
	Flood  *floodIn `json:"flood,omitempty"` // a frame-flood scenario (flood.go) instead of bytes
	Kind   string `json:"-"`
}

func (in *input) bytes() []byte {
	b, _ := hex.DecodeString(in.Hex)
	return b
}

// result is what the child observed for one input.
type result struct {
	Idx      int      `json:"i"`
	Parsed   string   `json:"parsed,omitempty"` // Coq term of the structure the byte parser produced; "" = rejected
	ParseErr string   `json:"parse_error,omitempty"`
	Conv     int      `json:"conv"` // 0 message, 1 error, 2 panic, 3 not applicable
	ConvErr  string   `json:"conv_error,omitempty"`
	Dec      int      `json:"dec"` // 0 message, 1 error, 2 panic escaped
	DecTerm  string   `json:"dec_term,omitempty"`
	DecErr   string   `json:"dec_error,omitempty"`
	DecType  string   `json:"dec_type,omitempty"`
	Read     int      `json:"read"` // 0 message, 1 too-large error, 2 other error, 3 panic
	ReadErr  string   `json:"read_error,omitempty"`
	Redec    []string `json:"redec,omitempty"` // Coq terms of type outcome value, [protobuf; JSON]
	RedecErr []string `json:"redec_error,omitempty"`
	UTF8     bool     `json:"utf8"`      // every string of the decoded message is valid UTF-8
	NilGroup bool     `json:"nil_group"` // the decoded message holds a data point group without data id
	Counters bool     `json:"counters_ok"`
	Shape    string   `json:"reader_shape,omitempty"`     // the second DecodeFrom of step (c), through another io.Reader shape
	ShapeErr string   `json:"reader_shape_error,omitempty"` // how it differs from the bytes.Reader run ("" = not at all)
	Retries  int      `json:"retries,omitempty"` // repetitions needed to see one structure in all three parses
	convTerm string
	Wire     string   `json:"wire,omitempty"` // verdict of the wire.ClientConn scenario (wire.go)
}

func encodingOf(name string) encoding.Encoding {
	if name == "json" {
		return ejson.NewEncoding()
	}
	return epb.NewEncoding()
}

// parseOnly is the third-party byte parser alone, called exactly as DecodeFrom calls it.
func parseOnly(enc string, bs []byte) (p *autogen.Message, err error) {
	defer func() {
		if r := recover(); r != nil {
			p, err = nil, fmt.Errorf("parser panic: %v", r)
		}
	}()
	var pb autogen.Message
	if enc == "json" {
		if err := jsonpb.Unmarshal(bytes.NewReader(bs), &pb); err != nil {
			return nil, err
		}
		return &pb, nil
	}
	if err := pb.Unmarshal(bs); err != nil {
		return nil, err
	}
	return &pb, nil
}

// one-shot transport handing out one frame
type oneFrame struct {
	b    []byte
	done bool
}

func (l *oneFrame) Read() ([]byte, error) {
	if l.done {
		return nil, fmt.Errorf("oneFrame: empty")
	}
	l.done = true
	return l.b, nil
}
func (l *oneFrame) Write(b []byte) error        { return nil }
func (l *oneFrame) Close() error                { return nil }
func (l *oneFrame) RxBytesCounterValue() uint64 { return 0 }
func (l *oneFrame) TxBytesCounterValue() uint64 { return 0 }

// walk visits every string and every data point group of a wire message.
func inspect(v reflect.Value, utf8ok *bool, nilGroup *bool) {
	switch v.Kind() {
	case reflect.Ptr, reflect.Interface:
		if !v.IsNil() {
			inspect(v.Elem(), utf8ok, nilGroup)
		}
	case reflect.Struct:
		if v.Type() == reflect.TypeOf(message.DataPointGroup{}) {
			if v.FieldByName("DataIDOrAlias").IsNil() {
				*nilGroup = true
			}
		}
		if v.Type().PkgPath() == "time" {
			return
		}
		for i := 0; i < v.NumField(); i++ {
			inspect(v.Field(i), utf8ok, nilGroup)
		}
	case reflect.Slice:
		if v.Type().Elem().Kind() == reflect.Uint8 {
			return
		}
		for i := 0; i < v.Len(); i++ {
			inspect(v.Index(i), utf8ok, nilGroup)
		}
	case reflect.Map:
		for _, k := range v.MapKeys() {
			inspect(v.MapIndex(k), utf8ok, nilGroup)
		}
	case reflect.String:
		if !utf8.ValidString(v.String()) {
			*utf8ok = false
		}
	}
}

func short(err error) string {
	if err == nil {
		return ""
	}
	s := err.Error()
	if len(s) > 160 {
		s = s[:160] + "..."
	}
	return s
}

// runInput performs steps (a)-(e) on one input.  gogo jsonpb is NOT a function of the bytes when a
// JSON object names two alternatives of one oneof (it ranges over a Go map and the last one visited
// wins), so three separate parses of such an input can see three different structures: the
// observation is repeated until parser, DecodeFrom and Transport.Read have seen the same one.
func runInput(idx int, in *input) (res result) {
	for try := 0; try < 300; try++ {
		res = runInputOnce(idx, in)
		res.Retries = try
		if in.Enc != "json" || res.selfConsistent() || (try == 0 && !ambiguousJSON(in.bytes())) {
			return res
		}
	}
	return res
}

// selfConsistent: the three independent parses of the bytes evidently produced the same structure.
func (r *result) selfConsistent() bool {
	if r.Dec == 2 || r.Read == 3 {
		return true // direct violations are reported as they are
	}
	convDec := (r.Parsed == "" && r.Dec == 1) || (r.Parsed != "" && r.Conv != 0 && r.Dec == 1) ||
		(r.Conv == 0 && r.Dec == 0 && r.convTerm == r.DecTerm)
	readDec := r.Read == 1 || (r.Read == 0 && r.Dec == 0 && r.Counters) || (r.Read == 2 && r.Dec == 1)
	return convDec && readDec
}

func runInputOnce(idx int, in *input) (res result) {
	res = result{Idx: idx, Conv: 3, Dec: 1, Read: 2, UTF8: true, Counters: true}
	bs := in.bytes()
	e := encodingOf(in.Enc)

	// (a) the byte parser alone
	p, perr := parseOnly(in.Enc, bs)
	if perr != nil {
		res.ParseErr = short(perr)
	} else {
		res.Parsed = cdump.Proto(p)
		// (b) the converter, called directly under the harness' own recover
		func() {
			defer func() {
				if r := recover(); r != nil {
					res.Conv, res.ConvErr = 2, fmt.Sprintf("panic: %v", r)
				}
			}()
			if cm, err := convert.ProtoToWire(p); err != nil {
				res.Conv, res.ConvErr = 1, short(err)
			} else {
				res.Conv, res.convTerm = 0, cdump.Wire(cm)
			}
		}()
	}

	// (c) the real DecodeFrom on the bytes
	var m message.Message
	func() {
		defer func() {
			if r := recover(); r != nil {
				res.Dec, res.DecErr = 2, fmt.Sprintf("panic escaped DecodeFrom: %v", r)
			}
		}()
		_, dm, err := e.DecodeFrom(bytes.NewReader(bs))
		if err != nil {
			res.Dec, res.DecErr = 1, short(err)
			return
		}
		if dm == nil || reflect.ValueOf(dm).IsNil() {
			res.Dec, res.DecErr = 1, "DecodeFrom returned neither a message nor an error"
			res.Counters = false
			return
		}
		m = dm
		res.Dec, res.DecTerm, res.DecType = 0, cdump.Wire(dm), reflect.TypeOf(dm).Elem().Name()
	}()

	// (c') the same bytes through another io.Reader shape (last data together with EOF, one byte at a
	// time, halves, random chunks, (0, nil) now and then): same outcome, same message, and the reported
	// count is what DecodeFrom pulled from the reader (protobuf: everything)
	if res.Dec != 2 {
		h := uint64(len(bs))
		for _, c := range bs {
			h = h*1099511628211 + uint64(c)
		}
		sh := 1 + int(h%uint64(ioshape.NReaderShapes-1))
		res.Shape = ioshape.ReaderNames[sh]
		func() {
			defer func() {
				if r := recover(); r != nil {
					res.ShapeErr = fmt.Sprintf("panic escaped DecodeFrom behind a %s reader: %v", res.Shape, r)
				}
			}()
			top := &ioshape.Counting{R: ioshape.Reader(sh, bs, rng.New(h))}
			sn, sm, serr := e.DecodeFrom(top)
			ambiguous := in.Enc == "json" && ambiguousJSON(bs)
			switch {
			case ambiguous:
			case (serr == nil) != (res.Dec == 0):
				res.ShapeErr = fmt.Sprintf("behind a %s reader DecodeFrom gives error=%v, behind a bytes.Reader error=%v", res.Shape, serr, res.DecErr)
			case serr == nil && cdump.Wire(sm) != res.DecTerm:
				res.ShapeErr = fmt.Sprintf("behind a %s reader DecodeFrom produces a different message", res.Shape)
			}
			if serr == nil && res.ShapeErr == "" {
				if sn != top.N || (in.Enc != "json" && sn != len(bs)) {
					res.ShapeErr = fmt.Sprintf("behind a %s reader DecodeFrom reports %d bytes but pulled %d (input %d bytes)", res.Shape, sn, top.N, len(bs))
				}
			}
		}()
	}

	// (d) encoding.Transport.Read with the configured maximum
	func() {
		defer func() {
			if r := recover(); r != nil {
				res.Read, res.ReadErr = 3, fmt.Sprintf("panic escaped Transport.Read: %v", r)
			}
		}()
		tr := encoding.NewTransport(&encoding.TransportConfig{Transport: &oneFrame{b: bs}, Encoding: e, MaxMessageSize: encoding.Size(in.Max)})
		rm, err := tr.Read()
		switch {
		case err == nil:
			res.Read = 0
			// the message read through the transport is the one DecodeFrom produced, and it is counted once
			if res.Dec != 0 || cdump.Wire(rm) != res.DecTerm || tr.RxMessageCounterValue() != 1 {
				res.Counters = false
			}
		case ierrors.Is(err, ierrors.ErrMessageTooLarge):
			res.Read, res.ReadErr = 1, short(err)
		default:
			res.Read, res.ReadErr = 2, short(err)
		}
		if err != nil && tr.RxMessageCounterValue() != 0 {
			res.Counters = false
		}
	}()

	// (e) re-encode stability in both encodings
	if m != nil {
		inspect(reflect.ValueOf(m), &res.UTF8, &res.NilGroup)
		for _, name := range []string{"protobuf", "json"} {
			e2 := encodingOf(name)
			term, msg := "Err", ""
			func() {
				defer func() {
					if r := recover(); r != nil {
						term, msg = "Panic", fmt.Sprintf("panic escaped: %v", r)
					}
				}()
				var buf bytes.Buffer
				if _, err := e2.EncodeTo(&buf, m); err != nil {
					msg = "encode: " + short(err)
					return
				}
				_, m2, err := e2.DecodeFrom(bytes.NewReader(buf.Bytes()))
				if err != nil {
					msg = "decode: " + short(err)
					return
				}
				term = "(Ok " + cdump.Wire(m2) + ")"
			}()
			res.Redec = append(res.Redec, term)
			res.RedecErr = append(res.RedecErr, msg)
		}
	}
	return res
}

// childMain: process inputs [from,to) of the file, one JSON result line each.
func childMain(file string, from, to int) {
	f, err := os.Open(file)
	if err != nil {
		fmt.Fprintln(os.Stderr, err)
		os.Exit(2)
	}
	var ins []input
	sc := bufio.NewScanner(f)
	sc.Buffer(make([]byte, 1<<20), 1<<28)
	for sc.Scan() {
		var in input
		if err := json.Unmarshal(sc.Bytes(), &in); err != nil {
			fmt.Fprintln(os.Stderr, err)
			os.Exit(2)
		}
		ins = append(ins, in)
	}
	f.Close()
	w := bufio.NewWriter(os.Stdout)
	enc := json.NewEncoder(w)
	for i := from; i < to && i < len(ins); i++ {
		fmt.Fprintf(w, "START %d\n", i)
		w.Flush()
		r := runInput(i, &ins[i])
		enc.Encode(&r)
		w.Flush()
	}
}

// h-fuzz: correspondence harness and failing-input search for C12 (decoders never crash on hostile
// bytes and accept only self-consistent messages) against coq/Model/Codec.v (fuzz_case).
//
// Inputs: a corpus of valid encodings of every message type in both encodings + structure-aware
// corruption + blind byte mutation (gen.go) + regression seeds kept in /verif/corpus/C12.
// Every input is run in a CHILD process (this binary re-executed with -child under `ulimit -v`
// and a watchdog) through (a) the byte parser alone, (b) convert.ProtoToWire under the harness' own
// recover, (c) the real DecodeFrom (also behind a second io.Reader shape), (d) encoding.Transport.Read with a maximum around the input
// length, (e) EncodeTo+DecodeFrom of the produced message in both encodings; in the thorough tier
// (f) the frames are also fed to a real wire.ClientConn over the in-memory transport (wire.go).
package main

import (
	"bufio"
	"encoding/json"
	"flag"
	"fmt"
	"os"
	"os/exec"
	"path/filepath"
	"sort"
	"strings"
	"sync"
	"time"

	"verif/internal/coqfmt"
	"verif/internal/rng"
)

const (
	childMemKB   = 6 * 1024 * 1024 // ulimit -v of a child (KiB)
	inputTimeout = 25 * time.Second
	maxTermBytes = 24000 // larger structures are judged by the harness only (no panic, size gate)
)

const stubTerm = "mkFC 0 0 None 3 Err 2 [] true"

func zT(x int64) string {
	if x < 0 {
		return fmt.Sprintf("(%d)", x)
	}
	return fmt.Sprint(x)
}

// ---------------------------------------------------------------- running inputs in child processes

type childOutcome struct {
	res    *result
	direct string // crash / hang / out of memory of the child on this input
}

// runRange runs inputs [from,to) in children; a child that dies or stalls is charged to the input
// it had started, and a new child continues after it.
func runRange(self, file string, from, to int, out []childOutcome, wire, single bool) {
	next := from
	for next < to {
		args := []string{"-child", file, "-from", fmt.Sprint(next), "-to", fmt.Sprint(to)}
		if wire {
			args = append(args, "-childwire")
		}
		sh := fmt.Sprintf("ulimit -v %d; exec \"$0\" \"$@\"", childMemKB)
		cmd := exec.Command("sh", append([]string{"-c", sh, self}, args...)...)
		if single {
			cmd.Env = append(os.Environ(), "HFUZZ_WIRE_SINGLE=1")
		}
		var stderr strings.Builder
		cmd.Stderr = &stderr
		stdout, err := cmd.StdoutPipe()
		if err != nil {
			fmt.Fprintln(os.Stderr, "h-fuzz:", err)
			os.Exit(2)
		}
		if err := cmd.Start(); err != nil {
			fmt.Fprintln(os.Stderr, "h-fuzz:", err)
			os.Exit(2)
		}
		lines := make(chan string, 64)
		go func() {
			sc := bufio.NewScanner(stdout)
			sc.Buffer(make([]byte, 1<<20), 1<<28)
			for sc.Scan() {
				lines <- sc.Text()
			}
			close(lines)
		}()
		started := -1
		hung := false
	loop:
		for {
			select {
			case l, ok := <-lines:
				if !ok {
					break loop
				}
				if strings.HasPrefix(l, "START ") {
					fmt.Sscanf(l, "START %d", &started)
					continue
				}
				var r result
				if err := json.Unmarshal([]byte(l), &r); err != nil {
					continue
				}
				if r.Idx >= from && r.Idx < to {
					out[r.Idx].res = &r
					next = r.Idx + 1
					started = -1
				}
			case <-time.After(inputTimeout):
				hung = true
				cmd.Process.Kill()
				break loop
			}
		}
		werr := cmd.Wait()
		if next >= to {
			return
		}
		// the child ended early: charge the input it was working on
		bad := next
		if started >= 0 {
			bad = started
		}
		if wire && !single {
			// a batch of frames killed the child: one connection per frame to find which
			end := bad + wireBatch
			if end > to {
				end = to
			}
			runRange(self, file, bad, end, out, true, true)
			next = end
			continue
		}
		tail := stderr.String()
		if len(tail) > 1500 {
			tail = tail[:700] + " ... " + tail[len(tail)-700:]
		}
		switch {
		case hung:
			out[bad].direct = fmt.Sprintf("hang: no result within %v (child killed)", inputTimeout)
		case strings.Contains(tail, "out of memory") || strings.Contains(tail, "cannot allocate"):
			out[bad].direct = "child ran out of memory (ulimit -v): " + tail
		default:
			out[bad].direct = fmt.Sprintf("child process died (%v): %s", werr, tail)
		}
		next = bad + 1
	}
}

func runAll(self, dir string, ins []input, wire bool, par int) []childOutcome {
	name := "inputs.jsonl"
	if wire {
		name = "inputs_wire.jsonl"
	}
	file := filepath.Join(dir, name)
	f, err := os.Create(file)
	if err != nil {
		fmt.Fprintln(os.Stderr, "h-fuzz:", err)
		os.Exit(2)
	}
	w := bufio.NewWriter(f)
	enc := json.NewEncoder(w)
	for i := range ins {
		enc.Encode(&ins[i])
	}
	w.Flush()
	f.Close()
	out := make([]childOutcome, len(ins))
	var wg sync.WaitGroup
	chunk := (len(ins) + par - 1) / par
	if wire {
		// whole batches per child
		chunk = (chunk + wireBatch - 1) / wireBatch * wireBatch
	}
	if chunk == 0 {
		chunk = 1
	}
	for from := 0; from < len(ins); from += chunk {
		to := from + chunk
		if to > len(ins) {
			to = len(ins)
		}
		wg.Add(1)
		go func(from, to int) {
			defer wg.Done()
			runRange(self, file, from, to, out, wire, false)
		}(from, to)
	}
	wg.Wait()
	return out
}

// ---------------------------------------------------------------- cases

func caseOf(in *input, oc *childOutcome) (c coqfmt.Case, big bool) {
	c = coqfmt.Case{Input: in, Kind: in.Kind, Nontrivial: true}
	if oc.direct != "" || oc.res == nil {
		c.Term = stubTerm
		c.Direct = oc.direct
		if c.Direct == "" {
			c.Direct = "no result from the child process"
		}
		c.Sig = "child-crash-or-hang"
		return c, false
	}
	r := oc.res
	obs := map[string]interface{}{
		"parser": r.ParseErr, "proto_to_wire": []string{"message", "error", "panic (recovered by the harness)", "n/a"}[r.Conv] + " " + r.ConvErr,
		"decode_from": []string{"message " + r.DecType, "error: " + r.DecErr, r.DecErr}[r.Dec],
		"transport_read": []string{"message", "too-large error", "error", "PANIC"}[r.Read] + " " + r.ReadErr,
		"length":         len(in.Hex) / 2,
	}
	if r.Retries > 0 {
		obs["parser_not_deterministic"] = fmt.Sprintf("jsonpb produced different structures for these bytes in different calls (two alternatives of one oneof); observation repeated %d times until all steps saw the same one", r.Retries)
	}
	if r.Dec == 0 {
		obs["re_decode"] = map[string]interface{}{"errors": r.RedecErr, "strings_utf8": r.UTF8, "group_without_data_id": r.NilGroup}
	}
	c.Observed = obs
	if r.Dec == 2 {
		c.Direct = r.DecErr
	}
	if r.Read == 3 {
		c.Direct = r.ReadErr
	}
	if r.ShapeErr != "" {
		c.Direct = r.ShapeErr
		c.Sig = "reader-shape"
	}
	if r.Shape != "" {
		obs["second_reader_shape"] = r.Shape
		w0 := "same outcome, same message, reported count = bytes pulled"
		if r.ShapeErr != "" {
			w0 = r.ShapeErr
		}
		obs["second_reader_result"] = w0
	}
	if !r.Counters {
		c.Direct = "Transport.Read and DecodeFrom disagree on the message, or the rx counter is not 0/1"
	}
	for _, t := range r.Redec {
		if t == "Panic" {
			c.Direct = "panic escaped EncodeTo/DecodeFrom while re-encoding: " + strings.Join(r.RedecErr, "; ")
		}
	}
	// signatures of the known shapes of re-encode instability
	if r.Dec == 0 {
		stable := len(r.Redec) == 2
		for _, t := range r.Redec {
			if !strings.HasPrefix(t, "(Ok ") {
				stable = false
			}
		}
		switch {
		case r.NilGroup:
			c.Sig = "F24:nil-data-point-group"
		case !r.UTF8:
			c.Sig = "F30:invalid-utf8-string-accepted"
		case !stable:
			c.Sig = "reencode-unstable"
		}
	}
	n := len(r.Parsed) + len(r.DecTerm)
	for _, t := range r.Redec {
		if t != "(Ok "+r.DecTerm+")" {
			n += len(t)
		}
	}
	if n > maxTermBytes {
		// too large for the Coq judge: only the harness' own checks (above) apply
		c.Term = stubTerm
		c.Nontrivial = false
		obs["judged"] = "by the harness only: structure too large for the Coq judge"
		return c, true
	}
	parsed := "None"
	if r.Parsed != "" {
		parsed = "(Some " + r.Parsed + ")"
	}
	length, max := int64(len(in.Hex)/2), in.Max
	var dec string
	var redec []string
	switch r.Dec {
	case 0:
		dec = "(Ok m)"
		for _, t := range r.Redec {
			if t == "(Ok "+r.DecTerm+")" {
				t = "(Ok m)"
			}
			redec = append(redec, t)
		}
	case 1:
		dec = "Err"
	default:
		dec = "Panic"
	}
	body := fmt.Sprintf("mkFC %s %s %s %d %s %d [%s] %s", zT(length), zT(max), parsed, r.Conv, dec, r.Read, strings.Join(redec, "; "), coqfmt.Bool(r.UTF8))
	if r.Dec == 0 {
		c.Term = "(let m := " + r.DecTerm + " in " + body + ")"
	} else {
		c.Term = body
	}
	return c, false
}

func pickMax(r *rng.R, n int64) int64 {
	switch r.Intn(10) {
	case 0, 1, 2, 3:
		return 0
	case 4:
		return n
	case 5:
		return n - 1
	case 6:
		return n + 1
	case 7:
		return 1
	case 8:
		return 2*n + 64
	}
	return []int64{-1, 1 << 40, n / 2}[r.Intn(3)]
}

// regression seeds kept on disk: /verif/corpus/C12/*.json, each {"encoding","bytes_hex"|"text","note"}
func diskCorpus() (out []input) {
	exe, _ := os.Executable()
	dirs := []string{filepath.Join(filepath.Dir(exe), "..", "corpus", "C12"), "../corpus/C12", "/verif/corpus/C12"}
	for _, d := range dirs {
		fs, _ := filepath.Glob(filepath.Join(d, "*.json"))
		if len(fs) == 0 {
			continue
		}
		sort.Strings(fs)
		for _, f := range fs {
			b, err := os.ReadFile(f)
			if err != nil {
				continue
			}
			var rec struct {
				Enc  string `json:"encoding"`
				Hex  string `json:"bytes_hex"`
				Text string `json:"text"`
				Max  int64  `json:"max_message_size"`
			}
			if json.Unmarshal(b, &rec) != nil || rec.Enc == "" {
				continue
			}
			in := mk(rec.Enc, []byte(rec.Text), "corpus "+filepath.Base(f), "corpus")
			if rec.Hex != "" {
				in.Hex, in.Text = rec.Hex, ""
			}
			in.Max = rec.Max
			out = append(out, in)
		}
		return
	}
	return
}

func main() {
	seed := flag.Uint64("seed", 1, "seed")
	tier := flag.String("tier", "quick", "quick|thorough")
	outDir := flag.String("out", "", "output directory")
	replay := flag.String("replay", "", "replay file (JSON with an 'input' field)")
	child := flag.String("child", "", "(internal) run as child on this inputs file")
	childWire := flag.Bool("childwire", false, "(internal) child runs the wire.ClientConn scenario")
	childFlood := flag.String("childflood", "", "(internal) run the frame-flood scenarios of this file")
	from := flag.Int("from", 0, "(internal)")
	to := flag.Int("to", 0, "(internal)")
	flag.Parse()
	if *childFlood != "" {
		childFloodMain(*childFlood)
		return
	}
	if *child != "" {
		if *childWire {
			childWireMain(*child, *from, *to)
		} else {
			childMain(*child, *from, *to)
		}
		return
	}
	self, err := os.Executable()
	if err != nil {
		fmt.Fprintln(os.Stderr, "h-fuzz:", err)
		os.Exit(2)
	}
	if err := os.MkdirAll(*outDir, 0o755); err != nil {
		fmt.Fprintln(os.Stderr, "h-fuzz:", err)
		os.Exit(2)
	}
	w := coqfmt.NewWriter(*outDir, "C12", "From Iscp Require Import Model.Codec.", "fuzz_case", "fuzz_judge", 260)
	thorough := *tier == "thorough"

	if *replay != "" {
		b, err := os.ReadFile(*replay)
		if err != nil {
			fmt.Fprintln(os.Stderr, err)
			os.Exit(2)
		}
		var rf struct {
			Input input `json:"input"`
		}
		if err := json.Unmarshal(b, &rf); err != nil {
			fmt.Fprintln(os.Stderr, err)
			os.Exit(2)
		}
		if rf.Input.Flood != nil {
			v := runFloods(self, *outDir, []floodIn{*rf.Input.Flood})
			w.Add(floodCase(rf.Input.Flood, v[0]))
			if err := w.Flush(*seed, *tier, "replay of one recorded case", false, nil); err != nil {
				fmt.Fprintln(os.Stderr, err)
				os.Exit(2)
			}
			return
		}
		rf.Input.Kind = "replay"
		ins := []input{rf.Input}
		ocs := runAll(self, *outDir, ins, false, 1)
		c, _ := caseOf(&ins[0], &ocs[0])
		if c.Direct == "" {
			wo := runAll(self, *outDir, ins, true, 1)
			applyWire(&c, &wo[0])
		}
		w.Add(c)
		if err := w.Flush(*seed, *tier, "replay of one recorded case", false, nil); err != nil {
			fmt.Fprintln(os.Stderr, err)
			os.Exit(2)
		}
		return
	}

	r := rng.New(*seed)
	count := func(k string) { w.Count(k) }
	perKind := 3
	if thorough {
		perKind = 8
	}
	seeds, full := corpusSeeds(perKind)

	var ins []input
	add := func(l []input) { ins = append(ins, l...) }
	// 0. regression seeds and handwritten hostile inputs
	add(diskCorpus())
	add(handwritten())
	// 1. the valid corpus itself, both encodings
	for _, s := range seeds {
		add([]input{mk("protobuf", s.pb, s.name+"/"+s.label+" valid", "valid"), mk("json", s.js, s.name+"/"+s.label+" valid", "valid")})
	}
	// 2. nil at every repeated / map position of every message type (exhaustive over the full seeds)
	perPos := 2
	if thorough {
		perPos = 12
	}
	nilIns, covered := nilEnumeration(full, perPos)
	add(nilIns)
	tp := typePositions()
	var uncovered []string
	for _, p := range tp {
		if covered[p] == 0 {
			uncovered = append(uncovered, p)
		}
	}
	//    and the textual counterpart: JSON null at every object/array position
	for i, s := range full {
		if thorough || i%3 == int(*seed%3) {
			add(jsonNullEverywhere(s))
		}
	}
	// 3. structure-aware corruption and blind mutation
	nStruct, nPB, nJS, nBytes := 6, 8, 10, 4
	if thorough {
		nStruct, nPB, nJS, nBytes = 30, 40, 50, 30
	}
	for _, s := range seeds {
		other := seeds[r.Intn(len(seeds))]
		add(structMutants(s, r, nStruct, count))
		add(pbMutants(s, other.pb, r, nPB, count))
		add(jsonMutants(s, r, nJS, count))
		add(byteMutants("protobuf", s, other.pb, r, nBytes, count))
		add(byteMutants("json", s, other.js, r, nBytes, count))
	}
	// maximum sizes, duplicates out
	seen := map[string]bool{}
	var uniq []input
	for i := range ins {
		if ins[i].Kind != "corpus" || ins[i].Max == 0 {
			ins[i].Max = pickMax(r, int64(len(ins[i].Hex)/2))
		}
		k := fmt.Sprintf("%s|%s|%d", ins[i].Enc, ins[i].Hex, ins[i].Max)
		if seen[k] {
			w.Count("duplicate_inputs_dropped")
			continue
		}
		seen[k] = true
		uniq = append(uniq, ins[i])
	}
	ins = uniq

	t0 := time.Now()
	ocs := runAll(self, *outDir, ins, false, 8)
	tRun := time.Since(t0)
	var wireOcs []childOutcome
	if thorough {
		wireOcs = runAll(self, *outDir, ins, true, 8)
	}
	nBig, nDecoded, nParsed := 0, 0, 0
	nilTable := map[string]map[string]int{}
	for i := range ins {
		c, big := caseOf(&ins[i], &ocs[i])
		if big {
			nBig++
		}
		if wireOcs != nil {
			applyWire(&c, &wireOcs[i])
		}
		if r := ocs[i].res; r != nil {
			if r.Parsed != "" {
				nParsed++
			}
			if r.Dec == 0 {
				nDecoded++
				w.Count("decoded:" + r.DecType)
			}
			if r.Retries > 0 {
				w.Count("jsonpb_nondeterministic_inputs")
			}
			if ins[i].Pos != "" {
				if nilTable[ins[i].Pos] == nil {
					nilTable[ins[i].Pos] = map[string]int{}
				}
				switch {
				case r.Parsed == "":
					nilTable[ins[i].Pos]["parser rejects"]++
				case r.Dec != 0:
					nilTable[ins[i].Pos]["decoder rejects"]++
				case c.Sig != "":
					nilTable[ins[i].Pos]["ACCEPTED, re-encoding "+c.Sig]++
				default:
					nilTable[ins[i].Pos]["accepted, re-encodes to itself"]++
				}
			}
			w.Count("enc:" + ins[i].Enc)
			if r.Shape != "" {
				w.Count(ins[i].Enc + ":reader:" + r.Shape)
			}
			w.Count(fmt.Sprintf("outcome:parsed=%v,conv=%d,dec=%d,read=%d", r.Parsed != "", r.Conv, r.Dec, r.Read))
		}
		if c.Sig != "" {
			w.Count("sig:" + c.Sig)
		}
		w.Add(c)
	}
	// frame floods on a real wire.ClientConn with subscriptions that nobody drains (both tiers)
	floods := floodScenarios(*seed, thorough)
	tf := time.Now()
	fv := runFloods(self, *outDir, floods)
	nFloodOK := 0
	for i := range floods {
		c := floodCase(&floods[i], fv[i])
		if c.Direct == "" {
			nFloodOK++
		}
		w.Count("flood:" + floods[i].Frames)
		w.Add(c)
	}
	extra := map[string]interface{}{
		"flood_scenarios": len(floods), "flood_scenarios_ok": nFloodOK, "flood_seconds": time.Since(tf).Seconds(),
		"corpus_seeds": len(seeds), "full_seeds": len(full),
		"nil_positions_outcomes": nilTable, "nil_positions_type_level": len(tp), "nil_positions_exercised": len(tp) - len(uncovered), "nil_positions_not_exercised": uncovered,
		"inputs_accepted_by_parser": nParsed, "inputs_decoded_to_a_message": nDecoded,
		"judged_by_harness_only_too_large": nBig, "child_run_seconds": tRun.Seconds(),
		"wire_client_conn_runs": wireOcs != nil,
	}
	rule := "inputs = regression corpus + handwritten hostile inputs + valid encodings of every message type (zero, random, full; both encodings) + nil at every repeated/map position of every message type + JSON null at every object/array position + structure-aware corruption (proto struct: wrong-length uuids, out-of-table enum numbers, absent oneofs, nil sub-messages, nil list elements, nil map values, invalid UTF-8; protobuf wire format: truncation, huge/off lengths, deleted/duplicated/unknown fields, wire types, extreme varints; JSON tree: nulls, type confusion, deleted/added keys, extreme numbers, bad base64/enum names, second oneof) + blind byte mutation; each with a MaxMessageSize around its length; plus frame floods (9/1030/1100/2200 valid frames of one kind - downstream chunks, metadata, upstream chunk acks, downstream calls, pings - for a subscribed alias that nobody drains, mixed with hostile decodable frames) on a real wire.ClientConn, after which a broker ping must be answered and a later request must get its response (judged by the harness: Direct). non-trivial = judged by Coq (structure small enough); distinct = distinct Coq case terms"
	if err := w.Flush(*seed, *tier, rule, false, extra); err != nil {
		fmt.Fprintln(os.Stderr, err)
		os.Exit(2)
	}
}

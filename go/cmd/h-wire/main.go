// h-wire: correspondence harness for C06 (request/response correlation of wire.ClientConn:
// sendRequest / readRequestLoop / the request id generator) against Model/Correlate.v.
//
// Two ways of driving the real code: "wire" calls wire.ClientConn's Send*Request methods
// directly (seven request kinds, any number outstanding at once); "conn" goes through
// iscp.Conn (OpenDownstream / OpenUpstream / SendBaseTime) with the same scripted broker.
// The broker answers in a scripted permutation with per-response marker strings, duplicates,
// unknown / not-yet-issued ids, cancellations and wrong-typed responses (F15, repaired: the caller
// gets a malformed-message error; a wrong-typed answer to the keepalive ping closes the connection).
package main

import (
	"bytes"
	"context"
	"encoding/binary"
	"encoding/json"
	stderrors "errors"
	"flag"
	"fmt"
	"os"
	"os/exec"
	"regexp"
	"sort"
	"strconv"
	"strings"
	"sync"
	"sync/atomic"
	"time"

	"github.com/aptpod/iscp-go/encoding"
	"github.com/aptpod/iscp-go/encoding/protobuf"
	ierrors "github.com/aptpod/iscp-go/errors"
	"github.com/aptpod/iscp-go/iscp"
	"github.com/aptpod/iscp-go/message"
	"github.com/aptpod/iscp-go/transport"
	"github.com/aptpod/iscp-go/wire"
	uuid "github.com/google/uuid"

	"verif/internal/broker"
	"verif/internal/coqfmt"
	"verif/internal/memtr"
	"verif/internal/rng"
)

// Watchdog for every wait of the harness (library calls, awaited effects, setup, teardown): nothing
// waits unboundedly.  It starts at wdBase and shrinks to 300 ms once three waits have expired in
// one run: a change that makes the library hang must not turn the run into hundreds of full-length
// waits (every expiry is already a direct violation of its case, and that case is abandoned).
var wdBase = 4 * time.Second // VERIF_WD_MS overrides
var wdExpired int32

func wd() time.Duration {
	if atomic.LoadInt32(&wdExpired) >= 3 && wdBase > 300*time.Millisecond {
		return 300 * time.Millisecond
	}
	return wdBase
}
func noteExpiry() { atomic.AddInt32(&wdExpired, 1) }

// waitFor polls cond under the watchdog
func waitFor(cond func() bool) bool {
	if broker.WaitFor(wd(), cond) {
		return true
	}
	noteExpiry()
	return false
}

// guarded runs f under the watchdog; f keeps running (leaked) when it expires
func guarded(f func()) bool {
	done := make(chan struct{})
	go func() { defer close(done); f() }()
	select {
	case <-done:
		return true
	case <-time.After(wd()):
		noteExpiry()
		return false
	}
}

const sigF15 = "F15:wrong-typed-response"

// request kinds = response type tags (Model/Correlate.v)
const (
	kConnect = iota
	kPing
	kUpOpen
	kUpResume
	kUpClose
	kDownOpen
	kDownResume
	kDownClose
	kMeta
	kBogusRequest // only as a (wrong) response type: a *request* message sent by the broker
)

// ---------------------------------------------------------------- case description (JSON, replayable)

type step struct {
	Op      string `json:"op"`              // issue | respond | wrong | unknown | cancel | burst
	Churn   []int  `json:"churn,omitempty"` // burst: further callers started while the answers are being written, cancelled afterwards
	K       []int  `json:"k,omitempty"`     // burst: number of identical copies of each answer, written back-to-back (default 1)
	Callers []int  `json:"callers,omitempty"`
	T       int    `json:"t"`
	M       int    `json:"m,omitempty"`      // marker carried by the response
	Ty      int    `json:"ty,omitempty"`     // wrong: type tag of the response actually sent
	IDMode  int    `json:"idmode,omitempty"` // unknown: 0 odd id, 1 far even id, 2 not-yet-issued id (Ahead requests ahead)
	Ahead   int    `json:"ahead,omitempty"`
}

type caseIn struct {
	Mode  string `json:"mode"`           // wire | conn | wrongpong (a wrong-typed answer to the keepalive ping; "pingcrash" in old replay files)
	Ping  bool   `json:"ping"`           // background keepalive pings every millisecond
	Slow  bool   `json:"slow,omitempty"` // the transport's Write returns 300us after it accepted the bytes (the answer can overtake the return)
	Kinds []int  `json:"kinds"`
	Steps []step `json:"steps"`
}

// ---------------------------------------------------------------- history log

type ev struct {
	k     byte // I R W C
	id    uint32
	kind  int // I: request kind
	t     int // I: script caller or -1
	ty, m int // R
}

type outcome struct {
	st     string // Coq term of wstatus
	direct string
	late   bool
}

type caller struct {
	kind     int
	ctx      context.Context
	cancel   context.CancelFunc
	done     chan struct{}
	out      outcome
	id       uint32
	arrived  bool
	answered bool
	returned bool // the driver has seen it return
	started  bool
}

type env struct {
	c       *caseIn
	mu      sync.Mutex
	log     []ev
	callers []*caller
	maxID   uint32
	seenID  map[uint32]bool
	dupID   bool
	send    func(message.Message) error
	npings  int
}

var reMarker = regexp.MustCompile(`m(\d+)`)

func markerOf(s string) int {
	m := reMarker.FindStringSubmatch(s)
	if m == nil {
		return 999999
	}
	n, _ := strconv.Atoi(m[1])
	return n
}

func uuidOf(n int) uuid.UUID {
	var u uuid.UUID
	binary.BigEndian.PutUint32(u[0:4], uint32(n))
	u[6] = 0x40
	u[8] = 0x80
	u[15] = 1
	return u
}
func nOfUUID(u uuid.UUID) int { return int(binary.BigEndian.Uint32(u[0:4])) }

func name(t int) string { return fmt.Sprintf("c%d", t) }
func tOfName(s string) int {
	if !strings.HasPrefix(s, "c") {
		return -1
	}
	n, err := strconv.Atoi(s[1:])
	if err != nil {
		return -1
	}
	return n
}

// response of type tag ty bearing request id and marker
func response(ty int, id uint32, m int) message.Message {
	rid := message.RequestID(id)
	ms := fmt.Sprintf("m%d", m)
	ok := message.ResultCodeSucceeded
	switch ty {
	case kConnect:
		return &message.ConnectResponse{RequestID: rid, ProtocolVersion: "2.0.0", ResultCode: ok, ResultString: ms}
	case kPing:
		return &message.Pong{RequestID: rid}
	case kUpOpen:
		return &message.UpstreamOpenResponse{RequestID: rid, AssignedStreamID: uuidOf(m), AssignedStreamIDAlias: uint32(1000 + m),
			ResultCode: ok, ResultString: ms, ServerTime: time.Unix(1700000000, 0)}
	case kUpResume:
		return &message.UpstreamResumeResponse{RequestID: rid, AssignedStreamIDAlias: uint32(2000 + m), ResultCode: ok, ResultString: ms}
	case kUpClose:
		return &message.UpstreamCloseResponse{RequestID: rid, ResultCode: ok, ResultString: ms}
	case kDownOpen:
		return &message.DownstreamOpenResponse{RequestID: rid, AssignedStreamID: uuidOf(m), ResultCode: ok, ResultString: ms, ServerTime: time.Unix(1700000000, 0)}
	case kDownResume:
		return &message.DownstreamResumeResponse{RequestID: rid, ResultCode: ok, ResultString: ms}
	case kDownClose:
		return &message.DownstreamCloseResponse{RequestID: rid, ResultCode: ok, ResultString: ms}
	case kMeta:
		// through iscp.Conn a successful SendBaseTime returns nil (no marker visible): answer with a
		// failure code so that the marker comes back inside the error
		return &message.UpstreamMetadataAck{RequestID: rid, ResultCode: message.ResultCodeInvalidPayload, ResultString: ms}
	default:
		return &message.UpstreamOpenRequest{RequestID: rid, SessionID: ms}
	}
}

// the broker side: called for every decoded client message, in arrival order
func (e *env) onMsg(m message.Message) {
	var id uint32
	kind, t := -1, -1
	switch v := m.(type) {
	case *message.ConnectRequest:
		id, kind = uint32(v.RequestID), kConnect
	case *message.Ping:
		id, kind = uint32(v.RequestID), kPing
	case *message.UpstreamOpenRequest:
		id, kind, t = uint32(v.RequestID), kUpOpen, tOfName(v.SessionID)
	case *message.UpstreamResumeRequest:
		id, kind, t = uint32(v.RequestID), kUpResume, nOfUUID(v.StreamID)
	case *message.UpstreamCloseRequest:
		id, kind, t = uint32(v.RequestID), kUpClose, nOfUUID(v.StreamID)
	case *message.DownstreamOpenRequest:
		id, kind = uint32(v.RequestID), kDownOpen
		if len(v.DownstreamFilters) > 0 {
			t = tOfName(v.DownstreamFilters[0].SourceNodeID)
		}
	case *message.DownstreamResumeRequest:
		id, kind, t = uint32(v.RequestID), kDownResume, nOfUUID(v.StreamID)
	case *message.DownstreamCloseRequest:
		id, kind, t = uint32(v.RequestID), kDownClose, nOfUUID(v.StreamID)
	case *message.UpstreamMetadata:
		id, kind = uint32(v.RequestID), kMeta
		if bt, ok := v.Metadata.(*message.BaseTime); ok {
			t = tOfName(bt.Name)
		}
	default:
		return
	}
	e.mu.Lock()
	if e.seenID[id] {
		e.dupID = true
	}
	e.seenID[id] = true
	if id > e.maxID {
		e.maxID = id
	}
	e.log = append(e.log, ev{k: 'I', id: id, kind: kind, t: t})
	if t >= 0 && t < len(e.callers) {
		e.callers[t].id = id
		e.callers[t].arrived = true
	}
	switch kind {
	case kConnect:
		e.send(&message.ConnectResponse{RequestID: message.RequestID(id), ProtocolVersion: "2.0.0", ResultCode: message.ResultCodeSucceeded, ResultString: "OK"})
	case kPing:
		e.npings++
		if e.c.Mode == "wrongpong" {
			e.log = append(e.log, ev{k: 'R', id: id, ty: kUpClose, m: 0}, ev{k: 'W', id: id})
			e.send(response(kUpClose, id, 0))
		} else {
			e.log = append(e.log, ev{k: 'R', id: id, ty: kPing, m: 0}, ev{k: 'W', id: id})
			e.send(&message.Pong{RequestID: message.RequestID(id)})
		}
	}
	e.mu.Unlock()
}

// ---------------------------------------------------------------- invoking the real API

type api interface {
	invoke(ctx context.Context, kind, t int) (ty int, marker int, rid int64, err error)
	close()
}

type wireAPI struct{ c *wire.ClientConn }

func (a wireAPI) close() { a.c.Close() }
func (a wireAPI) invoke(ctx context.Context, kind, t int) (int, int, int64, error) {
	switch kind {
	case kUpOpen:
		r, err := a.c.SendUpstreamOpenRequest(ctx, &message.UpstreamOpenRequest{SessionID: name(t), QoS: message.QoSReliable})
		if err != nil {
			return 0, 0, 0, err
		}
		return kUpOpen, markerOf(r.ResultString), int64(r.RequestID), nil
	case kUpResume:
		r, err := a.c.SendUpstreamResumeRequest(ctx, &message.UpstreamResumeRequest{StreamID: uuidOf(t)}, message.QoSReliable)
		if err != nil {
			return 0, 0, 0, err
		}
		return kUpResume, markerOf(r.ResultString), int64(r.RequestID), nil
	case kUpClose:
		r, err := a.c.SendUpstreamCloseRequest(ctx, &message.UpstreamCloseRequest{StreamID: uuidOf(t)})
		if err != nil {
			return 0, 0, 0, err
		}
		return kUpClose, markerOf(r.ResultString), int64(r.RequestID), nil
	case kDownOpen:
		r, err := a.c.SendDownstreamOpenRequest(ctx, &message.DownstreamOpenRequest{DesiredStreamIDAlias: uint32(t + 1),
			DownstreamFilters: []*message.DownstreamFilter{{SourceNodeID: name(t)}}, QoS: message.QoSReliable})
		if err != nil {
			return 0, 0, 0, err
		}
		return kDownOpen, markerOf(r.ResultString), int64(r.RequestID), nil
	case kDownResume:
		r, err := a.c.SendDownstreamResumeRequest(ctx, &message.DownstreamResumeRequest{StreamID: uuidOf(t), DesiredStreamIDAlias: uint32(t + 1)})
		if err != nil {
			return 0, 0, 0, err
		}
		return kDownResume, markerOf(r.ResultString), int64(r.RequestID), nil
	case kDownClose:
		r, err := a.c.SendDownstreamCloseRequest(ctx, &message.DownstreamCloseRequest{StreamID: uuidOf(t)})
		if err != nil {
			return 0, 0, 0, err
		}
		return kDownClose, markerOf(r.ResultString), int64(r.RequestID), nil
	default:
		r, err := a.c.SendUpstreamMetadata(ctx, &message.UpstreamMetadata{Metadata: &message.BaseTime{Name: name(t), BaseTime: time.Unix(1700000000, 0)}})
		if err != nil {
			return 0, 0, 0, err
		}
		return kMeta, markerOf(r.ResultString), int64(r.RequestID), nil
	}
}

type connAPI struct{ c *iscp.Conn }

func (a connAPI) close() {
	ctx, cancel := context.WithTimeout(context.Background(), time.Second)
	defer cancel()
	a.c.Close(ctx)
}
func (a connAPI) invoke(ctx context.Context, kind, t int) (int, int, int64, error) {
	switch kind {
	case kDownOpen:
		d, err := a.c.OpenDownstream(ctx, []*message.DownstreamFilter{{SourceNodeID: name(t)}})
		if err != nil {
			return 0, 0, 0, err
		}
		return kDownOpen, nOfUUID(d.ID), -1, nil
	case kUpOpen:
		u, err := a.c.OpenUpstream(ctx, name(t), iscp.WithUpstreamFlushPolicyNone())
		if err != nil {
			return 0, 0, 0, err
		}
		return kUpOpen, nOfUUID(u.ID), -1, nil
	default:
		err := a.c.SendBaseTime(ctx, &message.BaseTime{Name: name(t), BaseTime: time.Unix(1700000000, 0)})
		if err == nil {
			return kMeta, 999998, -1, nil
		}
		if m := regexp.MustCompile(`result_message: m(\d+)`).FindStringSubmatch(err.Error()); m != nil {
			n, _ := strconv.Atoi(m[1])
			return kMeta, n, -1, nil
		}
		return 0, 0, 0, err
	}
}

// ---------------------------------------------------------------- one case

type result struct {
	term     string
	observed map[string]interface{}
	direct   string
	sig      string
	inflight int
	reorder  bool
	special  int
}

func (e *env) startCaller(a api, t int) {
	c := e.callers[t]
	c.started = true
	go func() {
		defer close(c.done)
		defer func() {
			if r := recover(); r != nil {
				c.out = outcome{st: "WPanicked", direct: fmt.Sprint(r)}
			}
		}()
		ty, m, rid, err := a.invoke(c.ctx, c.kind, t)
		switch {
		case err == nil:
			c.out = outcome{st: fmt.Sprintf("(WGot %d %d)", ty, m)}
			e.mu.Lock()
			own := c.id
			e.mu.Unlock()
			if rid >= 0 && uint32(rid) != own {
				c.out.direct = fmt.Sprintf("caller %d (request id %d) was handed a response bearing request id %d", t, own, rid)
			}
		case stderrors.Is(err, ierrors.ErrMalformedMessage):
			c.out = outcome{st: "WMalformed"} // the response bearing its id had the wrong message type
		case stderrors.Is(err, context.Canceled):
			c.out = outcome{st: "WCancelled"}
		case stderrors.Is(err, ierrors.ErrConnectionClosed) || stderrors.Is(err, transport.ErrAlreadyClosed):
			c.out = outcome{st: "WWaiting", late: true} // only legitimate at teardown
		default:
			c.out = outcome{st: "WWaiting", direct: "unexpected error: " + err.Error()}
		}
	}()
}

func waitDone(c *caller, d time.Duration) bool {
	select {
	case <-c.done:
		return true
	case <-time.After(d):
		noteExpiry()
		return false
	}
}

func runCase(c *caseIn) (res result) {
	e := &env{c: c, seenID: map[uint32]bool{}}
	for _, k := range c.Kinds {
		ctx, cancel := context.WithCancel(context.Background())
		e.callers = append(e.callers, &caller{kind: k, ctx: ctx, cancel: cancel, done: make(chan struct{})})
	}
	pingInt := time.Hour
	if c.Ping {
		pingInt = time.Millisecond
	}
	var a api
	switch c.Mode {
	case "conn":
		b := broker.New(func(s *broker.Session, m message.Message) { e.onMsg(m) })
		b.AutoPong.Store(false)
		defer b.Release()
		var sess *broker.Session
		e.send = func(m message.Message) error {
			if sess == nil {
				sess = b.Current()
			}
			return sess.Send(m)
		}
		var conn *iscp.Conn
		errCh := make(chan error, 1)
		go func() {
			var err error
			conn, err = iscp.Connect(b.Address, broker.TransportName, iscp.WithConnPingInterval(pingInt), iscp.WithConnPingTimeout(time.Hour))
			errCh <- err
		}()
		select {
		case err := <-errCh:
			if err != nil {
				res.direct = "connection setup failed: " + err.Error()
				return
			}
		case <-time.After(wd()):
			noteExpiry()
			res.direct = "Blocked: iscp.Connect did not return within the watchdog"
			return
		}
		a = connAPI{conn}
		if c.Slow {
			b.Current().Link.WriteDelay.Store(int64(300 * time.Microsecond))
		}
	default:
		l := memtr.NewLink(transport.NegotiationParams{Encoding: transport.EncodingNameProtobuf})
		srv := encoding.NewTransport(&encoding.TransportConfig{Transport: l.Server(), Encoding: protobuf.NewEncoding()})
		var wmu sync.Mutex
		e.send = func(m message.Message) error {
			wmu.Lock()
			defer wmu.Unlock()
			return srv.Write(m)
		}
		go func() {
			for {
				m, err := srv.Read()
				if err != nil {
					return
				}
				e.onMsg(m)
			}
		}()
		cli := encoding.NewTransport(&encoding.TransportConfig{Transport: l.Client(), Encoding: protobuf.NewEncoding()})
		var wc *wire.ClientConn
		errCh := make(chan error, 1)
		go func() {
			var err error
			wc, err = wire.Connect(&wire.ClientConnConfig{Transport: cli, ProtocolVersion: "2.0.0", NodeID: "n", PingInterval: pingInt, PingTimeout: time.Hour})
			errCh <- err
		}()
		select {
		case err := <-errCh:
			if err != nil {
				res.direct = "connection setup failed: " + err.Error()
				return
			}
		case <-time.After(wd()):
			noteExpiry()
			res.direct = "Blocked: wire.Connect did not return within the watchdog"
			return
		}
		a = wireAPI{wc}
		if c.Slow {
			l.WriteDelay.Store(int64(300 * time.Microsecond))
		}
	}
	// the keepalive loop sends its first ping at once: wait for it so that it does not race the script
	closeBg := func() bool { return guarded(a.close) }
	if !waitFor(func() bool { e.mu.Lock(); defer e.mu.Unlock(); return e.npings >= 1 }) {
		res.direct = "Blocked: the first keepalive ping never reached the broker within the watchdog"
		closeBg()
		return
	}
	if c.Mode == "wrongpong" {
		// the keepalive ping was answered with an UpstreamCloseResponse bearing its id: sendPing must
		// return an error and keepAliveLoop must close the connection, as on a ping failure
		select {
		case <-a.(wireAPI).c.Closed():
			res.direct = "closed"
		case <-time.After(wd()):
			res.direct = "not-closed"
		}
		closeBg()
		return
	}

	var directs []string
	inflight, maxInflight := 0, 0
	blocked := false // a wait of this case expired: the rest of the script is abandoned
	for si, st := range c.Steps {
		if blocked {
			directs = append(directs, fmt.Sprintf("script abandoned at step %d of %d", si, len(c.Steps)))
			break
		}
		if c.Ping {
			// let keepalive pings (same id generator) fall between the steps
			time.Sleep(time.Duration(150+(si*137)%400) * time.Microsecond)
		}
		switch st.Op {
		case "issue":
			for _, t := range st.Callers {
				e.startCaller(a, t)
			}
			ok := waitFor(func() bool {
				e.mu.Lock()
				defer e.mu.Unlock()
				for _, t := range st.Callers {
					if !e.callers[t].arrived {
						return false
					}
				}
				return true
			})
			if !ok {
				blocked = true
				directs = append(directs, fmt.Sprintf("Blocked: step %d: a request never reached the broker within the watchdog", si))
			}
			inflight += len(st.Callers)
			if inflight > maxInflight {
				maxInflight = inflight
			}
		case "respond", "wrong":
			cl := e.callers[st.T]
			ty := cl.kind
			if st.Op == "wrong" {
				ty = st.Ty
				res.special++
			}
			e.mu.Lock()
			e.log = append(e.log, ev{k: 'R', id: cl.id, ty: ty, m: st.M}, ev{k: 'W', id: cl.id})
			err := e.send(response(ty, cl.id, st.M))
			e.mu.Unlock()
			if err != nil {
				res.direct = "the broker could not send (the client closed the link?): " + err.Error()
				closeBg()
				return
			}
			if !cl.answered && !cl.returned {
				if !waitDone(cl, wd()) {
					blocked = true
					directs = append(directs, fmt.Sprintf("Blocked: caller %d (request id %d) did not return within the watchdog after its response was sent", st.T, cl.id))
				} else {
					cl.returned = true
					inflight--
				}
			}
			cl.answered = true
		case "burst":
			// every pending caller of st.Callers is answered back-to-back, in the given order, without
			// waiting for anybody, while the st.Churn callers are registering their requests (each
			// sendRequest takes ClientConn.mu, which the response dispatcher needs for every answer)
			for _, t := range st.Churn {
				e.startCaller(a, t)
			}
			e.mu.Lock()
			var serr error
			for i, t := range st.Callers {
				cl := e.callers[t]
				copies := 1
				if i < len(st.K) && st.K[i] > 1 {
					copies = st.K[i]
				}
				msg := response(cl.kind, cl.id, st.M+i)
				for k := 0; k < copies; k++ {
					e.log = append(e.log, ev{k: 'R', id: cl.id, ty: cl.kind, m: st.M + i})
					if k == 0 {
						e.log = append(e.log, ev{k: 'W', id: cl.id})
					}
					if err := e.send(msg); err != nil && serr == nil {
						serr = err
					}
				}
			}
			e.mu.Unlock()
			if serr != nil {
				res.direct = "the broker could not send (the client closed the link?): " + serr.Error()
				closeBg()
				return
			}
			deadline := time.Now().Add(wd())
			nb := 0
			for _, t := range st.Callers {
				cl := e.callers[t]
				left := time.Until(deadline)
				if left < time.Millisecond {
					left = time.Millisecond
				}
				if waitDone(cl, left) {
					cl.returned = true
					inflight--
				} else {
					blocked = true
					if nb < 3 {
						directs = append(directs, fmt.Sprintf("Blocked: step %d: caller %d (request id %d, request number %d of the connection) did not return within the watchdog although its response was sent (burst of %d answers, copies %v)", si, t, cl.id, cl.id/2, len(st.Callers), st.K))
					}
					nb++
				}
				cl.answered = true
			}
			if nb > 3 {
				directs = append(directs, fmt.Sprintf("... and %d more callers of the burst", nb-3))
			}
			// the churn callers: wait until their requests are at the broker, then cancel them
			ok := waitFor(func() bool {
				e.mu.Lock()
				defer e.mu.Unlock()
				for _, t := range st.Churn {
					if !e.callers[t].arrived {
						return false
					}
				}
				return true
			})
			if !ok {
				blocked = true
				directs = append(directs, fmt.Sprintf("Blocked: step %d: a request issued during the burst never reached the broker within the watchdog", si))
				break
			}
			e.mu.Lock()
			for _, t := range st.Churn {
				e.log = append(e.log, ev{k: 'C', id: e.callers[t].id})
			}
			e.mu.Unlock()
			for _, t := range st.Churn {
				e.callers[t].cancel()
			}
			deadline = time.Now().Add(wd())
			for _, t := range st.Churn {
				left := time.Until(deadline)
				if left < time.Millisecond {
					left = time.Millisecond
				}
				if waitDone(e.callers[t], left) {
					e.callers[t].returned = true
				} else {
					blocked = true
					directs = append(directs, fmt.Sprintf("Blocked: caller %d did not return within the watchdog after its context was cancelled", t))
					break
				}
			}
			res.special++
		case "unknown":
			e.mu.Lock()
			var id uint32
			switch st.IDMode {
			case 0:
				id = uint32(2*st.M + 1)
			case 1:
				id = uint32(1<<24 + 2*st.M)
			default:
				id = e.maxID + uint32(2*st.Ahead)
			}
			e.log = append(e.log, ev{k: 'R', id: id, ty: st.Ty, m: st.M})
			err := e.send(response(st.Ty, id, st.M))
			e.mu.Unlock()
			if err != nil {
				res.direct = "the broker could not send (the client closed the link?): " + err.Error()
				closeBg()
				return
			}
			res.special++
		case "cancel":
			cl := e.callers[st.T]
			e.mu.Lock()
			e.log = append(e.log, ev{k: 'C', id: cl.id})
			e.mu.Unlock()
			cl.cancel()
			if !cl.returned {
				if !waitDone(cl, wd()) {
					blocked = true
					directs = append(directs, fmt.Sprintf("Blocked: caller %d did not return within the watchdog after its context was cancelled", st.T))
				} else {
					cl.returned = true
					inflight--
				}
			}
			res.special++
		}
	}
	// every id handed out by the generator must have reached the broker (no gaps) before the snapshot
	broker.WaitFor(200*time.Millisecond, func() bool {
		e.mu.Lock()
		defer e.mu.Unlock()
		return len(e.seenID) == int(e.maxID/2)+1
	})
	// snapshot: who has returned, who is still waiting
	outs := make([]string, len(e.callers))
	for t, cl := range e.callers {
		if !cl.started {
			outs[t] = ""
			continue
		}
		select {
		case <-cl.done:
			outs[t] = cl.out.st
			if cl.out.direct != "" && cl.out.st != "WPanicked" {
				directs = append(directs, cl.out.direct)
			}
			if cl.out.late {
				directs = append(directs, fmt.Sprintf("caller %d returned a connection-closed error while the connection was up", t))
			}
		default:
			outs[t] = "WWaiting"
		}
	}
	e.mu.Lock()
	lg := append([]ev(nil), e.log...)
	dup := e.dupID
	e.mu.Unlock()
	// teardown: waiting callers must come back with the connection-closed error (or their own ctx)
	if c.Mode == "conn" {
		for _, cl := range e.callers {
			cl.cancel() // Conn.Close would wait behind a pending SendMetadata holding wireConnMu
		}
	}
	if !closeBg() {
		directs = append(directs, "Blocked: Close did not return within the watchdog")
	}
	deadline := time.Now().Add(wd()) // one watchdog for all callers together
	for t, cl := range e.callers {
		if cl.started {
			left := time.Until(deadline)
			if left < time.Millisecond {
				left = time.Millisecond
			}
			if !waitDone(cl, left) {
				directs = append(directs, fmt.Sprintf("Blocked: caller %d still blocked after the connection was closed", t))
			}
		}
		cl.cancel()
	}
	if dup {
		directs = append(directs, "two requests carried the same request id")
	}

	// linearise: an Issue whose id is smaller than an earlier Issue's is moved in front of it (ids are
	// handed out atomically in id order; registration+write of two callers may overtake each other)
	var hist []ev
	for _, x := range lg {
		if x.k != 'I' {
			hist = append(hist, x)
			continue
		}
		pos := len(hist)
		for i, y := range hist {
			if y.k == 'I' && y.id > x.id {
				pos = i
				break
			}
		}
		if pos != len(hist) {
			res.reorder = true
		}
		hist = append(hist, ev{})
		copy(hist[pos+1:], hist[pos:])
		hist[pos] = x
	}
	idx := map[uint32]int{}
	var idsT, outT []string
	n := 0
	for _, x := range hist {
		if x.k == 'I' {
			idx[x.id] = n
			n++
			idsT = append(idsT, fmt.Sprint(x.id))
			if x.t >= 0 && x.t < len(outs) && outs[x.t] != "" {
				outT = append(outT, "Some "+outs[x.t])
			} else {
				outT = append(outT, "None")
			}
		}
	}
	var evT []string
	for _, x := range hist {
		switch x.k {
		case 'I':
			evT = append(evT, fmt.Sprintf("Issue %d", x.kind))
		case 'R':
			evT = append(evT, fmt.Sprintf("Respond %d %d %d", x.id, x.ty, x.m))
		case 'W':
			if i, ok := idx[x.id]; ok {
				evT = append(evT, fmt.Sprintf("Wake %d", i))
			}
		case 'C':
			if i, ok := idx[x.id]; ok {
				evT = append(evT, fmt.Sprintf("Cancel %d", i))
			}
		}
	}
	res.term = fmt.Sprintf("mkWireCase %s %s %s", coqfmt.List(evT), coqfmt.List(idsT), coqfmt.List(outT))
	res.inflight = maxInflight
	res.observed = map[string]interface{}{"ids": idsT, "outcomes": outs, "issues_reordered": res.reorder}
	if len(directs) > 0 {
		res.direct = strings.Join(directs, "; ")
	}
	for _, o := range outs {
		if o == "WPanicked" {
			res.sig = sigF15
		}
	}
	return
}

// ---------------------------------------------------------------- generators

var wireKinds = []int{kUpOpen, kUpResume, kUpClose, kDownOpen, kDownResume, kDownClose, kMeta}

func permutations(n int) [][]int {
	var out [][]int
	var rec func(p []int, used []bool)
	rec = func(p []int, used []bool) {
		if len(p) == n {
			out = append(out, append([]int(nil), p...))
			return
		}
		for i := 0; i < n; i++ {
			if !used[i] {
				used[i] = true
				rec(append(p, i), used)
				used[i] = false
			}
		}
	}
	rec(nil, make([]bool, n))
	return out
}

func seqInts(a, n int) []int {
	var s []int
	for i := 0; i < n; i++ {
		s = append(s, a+i)
	}
	return s
}

// all permutations of the answers to n concurrent requests; variant 1: the caller answered last is
// cancelled first and its answer arrives late; variant 2: every answer is sent twice (other marker)
func genExhaustive(add func(*caseIn, string)) {
	for n := 1; n <= 4; n++ {
		for pi, p := range permutations(n) {
			for variant := 0; variant < 3; variant++ {
				c := &caseIn{Mode: "wire"}
				for i := 0; i < n; i++ {
					c.Kinds = append(c.Kinds, wireKinds[(i+pi+variant)%len(wireKinds)])
				}
				c.Steps = append(c.Steps, step{Op: "issue", Callers: seqInts(0, n)})
				if variant == 1 {
					c.Steps = append(c.Steps, step{Op: "cancel", T: p[n-1]})
				}
				for j, t := range p {
					c.Steps = append(c.Steps, step{Op: "respond", T: t, M: 10*t + j + 1})
					if variant == 2 {
						c.Steps = append(c.Steps, step{Op: "respond", T: t, M: 500 + t})
					}
				}
				add(c, fmt.Sprintf("exhaustive-n%d", n))
			}
		}
	}
}

// late answers and noise followed by further traffic on the same connection:
// "late": n1 requests pending, one of them is cancelled, n2 further requests are issued AFTER the
// cancellation, then the broker answers the abandoned request (nobody may receive that answer),
// then everybody else, in two orders; "late-rounds": the same pattern repeated on one connection;
// "noise": duplicates and unknown ids between rounds of ordinary requests.
func genScripted(add func(*caseIn, string)) {
	kind := func(i int) int { return wireKinds[i%len(wireKinds)] }
	for n1 := 1; n1 <= 3; n1++ {
		for victim := 0; victim < n1; victim++ {
			for n2 := 1; n2 <= 3; n2++ {
				for order := 0; order < 2; order++ {
					for _, mode := range []string{"wire", "conn"} {
						if mode == "conn" && (order == 1 || n1+n2 > 4) {
							continue
						}
						c := &caseIn{Mode: mode}
						for i := 0; i < n1+n2; i++ {
							if mode == "conn" {
								c.Kinds = append(c.Kinds, kDownOpen)
							} else {
								c.Kinds = append(c.Kinds, kind(i+victim+order))
							}
						}
						c.Steps = append(c.Steps, step{Op: "issue", Callers: seqInts(0, n1)}, step{Op: "cancel", T: victim},
							step{Op: "issue", Callers: seqInts(n1, n2)})
						late := step{Op: "respond", T: victim, M: 900 + victim}
						var others []step
						for t := 0; t < n1+n2; t++ {
							if t != victim {
								others = append(others, step{Op: "respond", T: t, M: 10 + t})
							}
						}
						if order == 1 {
							for i, j := 0, len(others)-1; i < j; i, j = i+1, j-1 {
								others[i], others[j] = others[j], others[i]
							}
							c.Steps = append(c.Steps, others[0], late)
							c.Steps = append(c.Steps, others[1:]...)
						} else {
							c.Steps = append(c.Steps, late)
							c.Steps = append(c.Steps, others...)
						}
						// further traffic on the same connection
						t := len(c.Kinds)
						c.Kinds = append(c.Kinds, c.Kinds[0])
						c.Steps = append(c.Steps, step{Op: "issue", Callers: []int{t}}, step{Op: "respond", T: t, M: 77})
						add(c, "late-answer")
					}
				}
			}
		}
	}
	for rounds := 2; rounds <= 5; rounds++ {
		for variant := 0; variant < 3; variant++ {
			c := &caseIn{Mode: "wire"}
			m := 0
			for k := 0; k < rounds; k++ {
				a, b := 2*k, 2*k+1
				c.Kinds = append(c.Kinds, kind(k+variant), kind(k+variant+3))
				m += 2
				switch variant {
				case 0: // late answer while the next request is pending
					c.Steps = append(c.Steps, step{Op: "issue", Callers: []int{a}}, step{Op: "cancel", T: a}, step{Op: "issue", Callers: []int{b}},
						step{Op: "respond", T: a, M: 100 + m}, step{Op: "respond", T: b, M: 200 + m})
				case 1: // late answer while nothing is pending, then the next request
					c.Steps = append(c.Steps, step{Op: "issue", Callers: []int{a}}, step{Op: "cancel", T: a}, step{Op: "respond", T: a, M: 100 + m},
						step{Op: "issue", Callers: []int{b}}, step{Op: "respond", T: b, M: 200 + m})
				default: // the answer never comes for a; b is answered twice
					c.Steps = append(c.Steps, step{Op: "issue", Callers: []int{a, b}}, step{Op: "cancel", T: a},
						step{Op: "respond", T: b, M: 200 + m}, step{Op: "respond", T: b, M: 300 + m})
				}
			}
			add(c, "late-rounds")
		}
	}
	for n := 1; n <= 4; n++ {
		for variant := 0; variant < 4; variant++ {
			c := &caseIn{Mode: "wire"}
			m := 0
			for k := 0; k < n; k++ {
				t := len(c.Kinds)
				c.Kinds = append(c.Kinds, kind(k+variant), kind(k+2*variant+1))
				m += 3
				c.Steps = append(c.Steps, step{Op: "issue", Callers: []int{t, t + 1}}, step{Op: "respond", T: t + 1, M: m})
				switch variant {
				case 0:
					c.Steps = append(c.Steps, step{Op: "respond", T: t + 1, M: 500 + m}) // duplicate while t is pending
				case 1:
					c.Steps = append(c.Steps, step{Op: "unknown", IDMode: 0, M: m, Ty: kMeta})
				case 2:
					c.Steps = append(c.Steps, step{Op: "unknown", IDMode: 1, M: m, Ty: c.Kinds[t]})
				default:
					c.Steps = append(c.Steps, step{Op: "respond", T: t + 1, M: 500 + m}, step{Op: "unknown", IDMode: 0, M: m, Ty: kPing})
				}
				c.Steps = append(c.Steps, step{Op: "respond", T: t, M: m + 1})
			}
			add(c, "noise-then-traffic")
		}
	}
}

// bursts: 24-64 requests of mixed kinds outstanding on one wire.ClientConn, all answered back-to-back
// in one go (reverse or random order) while 32-96 further requests are being issued (cancelled
// afterwards); several rounds per connection.  Every caller must get exactly its own answer: the
// hand-off queue between the transport reader and the response dispatcher holds only 8 messages.
func genBurst(r *rng.R) *caseIn {
	c := &caseIn{Mode: "wire"}
	rounds := 3 + r.Intn(4)
	m := 0
	for k := 0; k < rounds; k++ {
		n := 24 + r.Intn(41)
		nch := 32 + r.Intn(65)
		base := len(c.Kinds)
		for i := 0; i < n+nch; i++ {
			c.Kinds = append(c.Kinds, wireKinds[r.Intn(len(wireKinds))])
		}
		main := seqInts(base, n)
		c.Steps = append(c.Steps, step{Op: "issue", Callers: main})
		order := make([]int, n)
		if r.Bool() {
			for i := range order {
				order[i] = main[n-1-i]
			}
		} else {
			for i, j := range r.Perm(n) {
				order[i] = main[j]
			}
		}
		c.Steps = append(c.Steps, step{Op: "burst", Callers: order, Churn: seqInts(base+n, nch), M: m + 1})
		m += n
	}
	t := len(c.Kinds)
	c.Kinds = append(c.Kinds, kMeta)
	c.Steps = append(c.Steps, step{Op: "issue", Callers: []int{t}}, step{Op: "respond", T: t, M: m + 1})
	return c
}

// duplicated answers: 100-300 requests per connection, alone or in groups of 2-8; every answer is
// written k = 1..4 times back-to-back (identical copies, no pause between them).  Each caller must
// get its answer exactly once and every later request must still be answered: the next request is
// the liveness probe of the dispatcher.
func genDupBurst(r *rng.R) *caseIn {
	c := &caseIn{Mode: "wire"}
	total := 100 + r.Intn(201)
	m := 0
	for len(c.Kinds) < total {
		g := []int{1, 1, 1, 1, 2, 4, 8}[r.Intn(7)]
		base := len(c.Kinds)
		var ks []int
		for i := 0; i < g; i++ {
			c.Kinds = append(c.Kinds, wireKinds[r.Intn(len(wireKinds))])
			ks = append(ks, []int{1, 2, 2, 3, 3, 4}[r.Intn(6)])
		}
		grp := seqInts(base, g)
		order := make([]int, g)
		for i, j := range r.Perm(g) {
			order[i] = grp[j]
		}
		c.Steps = append(c.Steps, step{Op: "issue", Callers: grp}, step{Op: "burst", Callers: order, K: ks, M: m + 1})
		m += g
	}
	t := len(c.Kinds)
	c.Kinds = append(c.Kinds, kMeta)
	c.Steps = append(c.Steps, step{Op: "issue", Callers: []int{t}}, step{Op: "respond", T: t, M: m + 1})
	return c
}

func genRandom(r *rng.R, mode string, ping bool, wrong bool) *caseIn {
	c := &caseIn{Mode: mode, Ping: ping, Slow: r.Chance(1, 4)}
	n := 5 + r.Intn(12)
	if mode == "conn" {
		n = 2 + r.Intn(7)
	}
	kinds := wireKinds
	if mode == "conn" {
		kinds = []int{kDownOpen}
	}
	for i := 0; i < n; i++ {
		c.Kinds = append(c.Kinds, kinds[r.Intn(len(kinds))])
	}
	// callers are issued in 1-3 groups; between groups some answers are already sent
	ngroups := 1 + r.Intn(3)
	bounds := []int{0}
	for g := 1; g < ngroups; g++ {
		bounds = append(bounds, r.Intn(n+1))
	}
	bounds = append(bounds, n)
	sort.Ints(bounds)
	marker := 0
	pending := []int{}
	answered := []int{}
	cancelled := map[int]bool{}
	emitSome := func(k int) {
		for ; k > 0 && len(pending) > 0; k-- {
			i := r.Intn(len(pending))
			t := pending[i]
			x := r.Intn(20)
			switch {
			case x < 2 && !cancelled[t]:
				c.Steps = append(c.Steps, step{Op: "cancel", T: t})
				cancelled[t] = true
				if r.Bool() { // the answer never comes
					pending = append(pending[:i], pending[i+1:]...)
				}
				continue
			case x < 4 && wrong && !cancelled[t]:
				ty := r.Intn(10)
				if ty == c.Kinds[t] {
					ty = (ty + 1) % 10
				}
				marker++
				c.Steps = append(c.Steps, step{Op: "wrong", T: t, Ty: ty, M: marker})
			default:
				marker++
				c.Steps = append(c.Steps, step{Op: "respond", T: t, M: marker})
			}
			pending = append(pending[:i], pending[i+1:]...)
			answered = append(answered, t)
			// noise: duplicates of answered ids, unknown ids
			if r.Chance(1, 4) && len(answered) > 0 {
				marker++
				c.Steps = append(c.Steps, step{Op: "respond", T: answered[r.Intn(len(answered))], M: marker})
			}
			if r.Chance(1, 5) {
				marker++
				mode := r.Intn(2)
				c.Steps = append(c.Steps, step{Op: "unknown", IDMode: mode, M: marker, Ty: []int{kUpOpen, kMeta, kPing, kDownClose, kConnect}[r.Intn(5)]})
			}
		}
	}
	barrier := func() {
		// a request/answer pair on the same connection: when it has returned, everything the broker
		// sent before has been dispatched
		t := len(c.Kinds)
		k := kMeta
		if mode == "conn" {
			k = kDownOpen
		}
		c.Kinds = append(c.Kinds, k)
		marker++
		c.Steps = append(c.Steps, step{Op: "issue", Callers: []int{t}}, step{Op: "respond", T: t, M: marker})
	}
	for g := 0; g+1 < len(bounds); g++ {
		if bounds[g+1] > bounds[g] {
			grp := seqInts(bounds[g], bounds[g+1]-bounds[g])
			// an answer bearing an id that will only be issued later must change nothing: only without
			// background pings (their ids are not under the script's control)
			if !ping && mode == "wire" && r.Chance(1, 4) {
				marker++
				c.Steps = append(c.Steps, step{Op: "unknown", IDMode: 2, Ahead: 2 + r.Intn(len(grp)), M: marker, Ty: c.Kinds[grp[0]]})
				barrier()
			}
			c.Steps = append(c.Steps, step{Op: "issue", Callers: grp})
			pending = append(pending, grp...)
		}
		if g+2 < len(bounds) {
			emitSome(r.Intn(len(pending) + 1))
		}
	}
	emitSome(len(pending) * 3)
	if mode == "conn" && r.Bool() {
		// one request of the kinds that hold Conn.wireConnMu while waiting; issued last, alone
		t := len(c.Kinds)
		c.Kinds = append(c.Kinds, []int{kMeta, kUpOpen}[r.Intn(2)])
		c.Steps = append(c.Steps, step{Op: "issue", Callers: []int{t}})
		marker++
		if wrong && r.Bool() {
			c.Steps = append(c.Steps, step{Op: "wrong", T: t, Ty: []int{kDownClose, kPing, kUpClose}[r.Intn(3)], M: marker})
		} else if r.Chance(1, 4) {
			c.Steps = append(c.Steps, step{Op: "cancel", T: t})
		} else {
			c.Steps = append(c.Steps, step{Op: "respond", T: t, M: marker})
		}
	}
	barrier()
	return c
}

// ---------------------------------------------------------------- main

func wrongPongChild() {
	res := runCase(&caseIn{Mode: "wrongpong"})
	fmt.Println(res.direct)
	os.Exit(0)
}

func main() {
	seed := flag.Uint64("seed", 1, "seed")
	tier := flag.String("tier", "quick", "quick|thorough")
	out := flag.String("out", "", "output directory")
	replay := flag.String("replay", "", "replay file")
	child := flag.String("child", "", "internal: run a scenario expected to kill the process")
	flag.Parse()
	if v, err := strconv.Atoi(os.Getenv("VERIF_WD_MS")); err == nil && v > 0 {
		wdBase = time.Duration(v) * time.Millisecond
	}
	if *child == "wrongpong" {
		wrongPongChild()
		return
	}
	w := coqfmt.NewWriter(*out, "C06", "From Iscp Require Import Model.Correlate.", "wire_case", "wire_judge", 80)
	r := rng.New(*seed)
	type job struct {
		c    *caseIn
		kind string
		seed uint64
	}
	var jobs []job
	add := func(c *caseIn, kind string) { jobs = append(jobs, job{c, kind, r.U64()}) }
	if *replay != "" {
		b, err := os.ReadFile(*replay)
		if err != nil {
			fmt.Fprintln(os.Stderr, err)
			os.Exit(2)
		}
		var rf struct {
			Input caseIn `json:"input"`
			Kind  string `json:"kind"`
		}
		if err := json.Unmarshal(b, &rf); err != nil {
			fmt.Fprintln(os.Stderr, err)
			os.Exit(2)
		}
		jobs = append(jobs, job{&rf.Input, "replay", 0})
	} else {
		nrand, nping, nconn, nwrong, nburst := 300, 80, 80, 48, 16
		if *tier == "thorough" {
			nrand, nping, nconn, nwrong, nburst = 2500, 600, 600, 400, 120
		}
		genExhaustive(add)
		genScripted(add)
		for i := 0; i < nrand; i++ {
			add(genRandom(r.Fork(), "wire", false, false), "random-wire")
		}
		for i := 0; i < nping; i++ {
			add(genRandom(r.Fork(), "wire", true, false), "random-wire-pings")
		}
		for i := 0; i < nconn; i++ {
			add(genRandom(r.Fork(), "conn", i%3 == 0, false), "random-conn")
		}
		for i := 0; i < nwrong; i++ {
			mode := "wire"
			if i%4 == 3 {
				mode = "conn"
			}
			add(genRandom(r.Fork(), mode, false, true), "wrongtype")
		}
		for i := 0; i < nburst; i++ {
			add(genBurst(r.Fork()), "burst")
		}
		for i := 0; i < nburst/2; i++ {
			add(genDupBurst(r.Fork()), "dup-burst")
		}
		add(&caseIn{Mode: "wrongpong"}, "wrongtype-pong")
	}
	results := make([]coqfmt.Case, len(jobs))
	sem := make(chan struct{}, 8)
	var wg sync.WaitGroup
	var mu sync.Mutex
	for i, j := range jobs {
		wg.Add(1)
		sem <- struct{}{}
		go func(i int, j job) {
			defer wg.Done()
			defer func() { <-sem }()
			var cs coqfmt.Case
			if j.c.Mode == "pingcrash" {
				j.c.Mode = "wrongpong"
			}
			if j.c.Mode == "wrongpong" {
				// a wrong-typed answer to the library's own keepalive ping is handled in a library goroutine
				// without recover (the former code panicked there and killed the process): the scenario runs
				// in a child process so that a regression is reported instead of killing the harness
				cmd := exec.Command(os.Args[0], "-child", "wrongpong")
				var eb, ob bytes.Buffer
				cmd.Stderr, cmd.Stdout = &eb, &ob
				cmd.Env = os.Environ()
				done := make(chan error, 1)
				go func() { done <- cmd.Run() }()
				var err error
				select {
				case err = <-done:
				case <-time.After(20*time.Second + 2*wdBase):
					cmd.Process.Kill()
					err = fmt.Errorf("child timed out")
				}
				cs = coqfmt.Case{Input: j.c, Kind: j.kind, Seed: j.seed}
				verdict := strings.TrimSpace(ob.String())
				switch {
				case err == nil && verdict == "closed":
					// sendPing returned an error (nothing else makes keepAliveLoop close the connection while
					// the link is up) and the process is alive
					cs.Term = "mkWireCase [Issue 0; Issue 1; Respond 2 4 0; Wake 1] [0; 2] [None; Some WMalformed]"
					cs.Observed = map[string]interface{}{"child": "survived", "connection": "closed by the keepalive loop"}
				case err != nil && strings.Contains(eb.String(), "panic"):
					first := strings.SplitN(eb.String(), "\n", 2)[0]
					cs.Term = "mkWireCase [Issue 0; Issue 1; Respond 2 4 0; Wake 1] [0; 2] [None; Some WPanicked]"
					cs.Direct = "child process died: " + first + " (UpstreamCloseResponse bearing the id of the keepalive Ping)"
					cs.Sig = sigF15
					cs.Observed = map[string]interface{}{"child_stderr_first_line": first}
				default:
					cs.Term = "mkWireCase [Issue 0; Issue 1; Respond 2 4 0; Wake 1] [0; 2] [None; Some WWaiting]"
					cs.Direct = fmt.Sprintf("a wrong-typed answer to the keepalive ping did not close the connection within the watchdog (child: %v %q)", err, verdict)
					cs.Observed = map[string]interface{}{"child": fmt.Sprint(err), "stdout": verdict, "stderr": eb.String()}
				}
			} else {
				res := runCase(j.c)
				if res.term == "" { // the case was abandoned (direct violation): judge an empty history
					res.term = "mkWireCase [] [] []"
				}
				nt := res.inflight >= 3 && res.special >= 1
				cs = coqfmt.Case{Term: res.term, Input: j.c, Observed: res.observed, Seed: j.seed, Nontrivial: nt, Kind: j.kind, Direct: res.direct, Sig: res.sig}
			}
			mu.Lock()
			results[i] = cs
			mu.Unlock()
		}(i, j)
	}
	wg.Wait()
	for i, cs := range results {
		w.Add(cs)
		w.Count("mode:" + jobs[i].c.Mode)
		w.Count(fmt.Sprintf("callers:%d", len(jobs[i].c.Kinds)/4*4))
		if cs.Sig != "" {
			w.Count("sig:" + cs.Sig)
		}
	}
	rule := "exhaustive: n<=4 concurrent requests of mixed kinds, every permutation of the answers x {plain, last-answered caller cancelled first with a late answer, every answer duplicated with another marker}; late-answer / late-rounds: a request is cancelled, further requests are issued, then the abandoned request is answered (before, between and after the other answers; repeated up to 5 rounds on one connection); noise-then-traffic: duplicates and unknown ids while another request is pending, followed by further rounds on the same connection; burst: 3-6 rounds per connection of 24-64 outstanding requests all answered back-to-back in one go (reverse or random order) while 32-96 further requests are being issued and then cancelled; dup-burst: 100-300 requests per connection, alone or in groups of 2-8, every answer written 1-4 times back-to-back as identical copies, each following request being the liveness probe of the dispatcher; random: 5-16 concurrent requests (wire.ClientConn directly: upstream open/resume/close, downstream open/resume/close, metadata; through iscp.Conn: OpenDownstream xN + one OpenUpstream/SendBaseTime) issued in 1-3 groups, answers in random order with per-answer markers, duplicates of answered ids, odd / far / not-yet-issued ids, cancellations with and without a late answer, optionally keepalive pings every millisecond on the same id generator; wrongtype: answers of another message type (any of 10 tags, a ConnectResponse and a request message among them) bearing a pending id - the caller must get the malformed-message error and nobody else anything (F15, repaired); wrongtype-pong: an UpstreamCloseResponse bearing the id of the library's keepalive ping, in a child process - the process must survive and the keepalive loop close the connection. non-trivial = >=3 requests in flight at once and at least one cancellation or unknown id; distinct = distinct Coq case terms"
	if err := w.Flush(*seed, *tier, rule, false, nil); err != nil {
		fmt.Fprintln(os.Stderr, err)
		os.Exit(2)
	}
}

// h-reconnect: correspondence harness for C18 (transport/reconnect) against Model/Reconnect.v.
// Drives the real reconnect.Dial / Write / Read / CloseWithStatus with scripted underlying
// transports and a scripted dialer and records cases as Coq terms.
//
// Synchronisation without settle delays.  Every underlying Write passes a gate the harness can
// close: a batch of writes is issued with the gate closed, the first one is awaited inside the
// underlying Write, the others are awaited in the write queue one by one (verif-tagged
// accessor VerifQueueLens), so the queue order is the issue order; then the gate is opened.
// An underlying Read is a monitor (mutex + condition): "the read loop is parked in Read of
// transport T with nothing to take" is observable.  In hold mode the close error of a parked
// Read is held back until the rest of the event is over, so a redial made by the write loop is
// never raced by the read loop (free mode lets it race; the judge then compares prefixes).
// Cancellation is observed through VerifDone; a call of Name() afterwards is a barrier on r.mu
// (no redial round can still be running).
package main

import (
	"encoding/json"
	"flag"
	"fmt"
	"os"
	"sync"
	"time"

	ierrors "github.com/aptpod/iscp-go/errors"
	"github.com/aptpod/iscp-go/transport"
	"github.com/aptpod/iscp-go/transport/reconnect"

	"verif/internal/coqfmt"
	"verif/internal/rng"
)

var watchdog = 4 * time.Second

const interval = 50 * time.Microsecond

const queueCap = 1024 // capacity of the library's write request queue

// F33 is fixed in the code; a case that shows it again carries this signature.
const sigRevive = "F33:reconnect-write-succeeds-after-read-side-budget-exhausted"

// ---------- input ----------

type dialSpec struct {
	Ok  bool `json:"ok"`
	Hs  bool `json:"hs,omitempty"`
	Cap int  `json:"cap"` // -1 = unlimited
}

type wIn struct {
	Writer int    `json:"w"`
	Bs     []byte `json:"bs"`
}

type evIn struct {
	// batch batchclose rfbatch deliver readfail readstart readjoin close
	Op     string `json:"op"`
	Ws     []wIn  `json:"ws,omitempty"`
	Status uint64 `json:"status,omitempty"`
	// readfail / rfbatch / arfbatch: the close status the read error carries when it is not the
	// normal close: 0 none (abrupt), 2 going away, 3 abnormal, 4 internal error, 5 plain ErrConnectionClosed
	Cls  int  `json:"cls,omitempty"`
	Cerr bool `json:"cerr,omitempty"` // close / batchclose: the underlying CloseWithStatus returns an error
	Bs     []byte `json:"bs,omitempty"`
	Normal bool   `json:"normal,omitempty"`
}

type caseIn struct {
	Budget int        `json:"budget"`
	TidSet bool       `json:"tid_set"`
	Script []dialSpec `json:"script"`
	TailHs bool       `json:"tail_hs"`
	Free   bool       `json:"free"`
	// every plain Close() of an underlying connection (the one reconnect makes on the old
	// connection) returns an error; the library only logs it
	PlainCloseErr bool `json:"plain_close_err,omitempty"`
	Evs    []evIn     `json:"events"`
}

// view is what an online generator may look at: harness bookkeeping only.
type view struct {
	n           int
	done        bool
	readerAlive bool
	readExh     bool
	pending     bool
	dials       int // dial attempts made so far (= script entries consumed)
}

type evSource func(v view) (evIn, bool)

// ---------- gate ----------

type gate struct {
	mu      sync.Mutex
	cond    *sync.Cond
	open    bool
	waiting int
	pongs   int // Write calls with the pong payload that passed the gate
	// second stage: an underlying Write that has ACCEPTED (recorded) its payload waits here
	// before it returns nil
	postOpen    bool
	postWaiting int
	// scripted results of the underlying close calls (the connection is torn down all the same)
	failStatusClose bool
	plainCloseErr   bool
}

func newGate() *gate {
	g := &gate{open: true, postOpen: true}
	g.cond = sync.NewCond(&g.mu)
	return g
}

func (g *gate) pass(isPong bool) {
	g.mu.Lock()
	g.waiting++
	for !g.open {
		g.cond.Wait()
	}
	g.waiting--
	if isPong {
		g.pongs++
	}
	g.mu.Unlock()
}

func (g *gate) passPost() {
	g.mu.Lock()
	g.postWaiting++
	for !g.postOpen {
		g.cond.Wait()
	}
	g.postWaiting--
	g.mu.Unlock()
}

func (g *gate) setPost(open bool) {
	g.mu.Lock()
	g.postOpen = open
	g.cond.Broadcast()
	g.mu.Unlock()
}

func (g *gate) getPost() int {
	g.mu.Lock()
	defer g.mu.Unlock()
	return g.postWaiting
}

func (g *gate) set(open bool) {
	g.mu.Lock()
	g.open = open
	g.cond.Broadcast()
	g.mu.Unlock()
}

func (g *gate) get() (waiting, pongs int) {
	g.mu.Lock()
	defer g.mu.Unlock()
	return g.waiting, g.pongs
}

// ---------- scripted underlying transport ----------

type readItem struct {
	bs  []byte
	err error
}

type inc struct {
	g        *gate
	mu       sync.Mutex
	cond     *sync.Cond
	cap      int
	log      [][]byte
	closed   bool
	statuses []uint64
	rq       []readItem
	parked   bool
	released bool
	wcls     int // close status class carried by this connection's write failures
}

func newInc(g *gate, cap int, free bool) *inc {
	i := &inc{g: g, cap: cap, released: free}
	i.cond = sync.NewCond(&i.mu)
	return i
}

var pongBytes = []byte("pong")

func (i *inc) Write(bs []byte) error {
	i.g.pass(string(bs) == "pong")
	i.mu.Lock()
	if i.closed {
		i.mu.Unlock()
		return fmt.Errorf("scripted: write on closed transport")
	}
	if i.cap == 0 {
		i.mu.Unlock()
		return statusErr(i.wcls, "write failure") // any close status, the normal one included
	}
	if i.cap > 0 {
		i.cap--
	}
	// accepted: recorded now, whatever happens to the connection before Write returns
	i.log = append(i.log, append([]byte(nil), bs...))
	i.mu.Unlock()
	i.g.passPost()
	return nil
}

func (i *inc) Read() ([]byte, error) {
	i.mu.Lock()
	defer i.mu.Unlock()
	for {
		if len(i.rq) > 0 {
			it := i.rq[0]
			i.rq = i.rq[1:]
			i.parked = false
			return it.bs, it.err
		}
		if i.closed && i.released {
			i.parked = false
			return nil, fmt.Errorf("scripted: read on closed transport")
		}
		i.parked = true
		i.cond.Wait()
	}
}

func (i *inc) push(it readItem) {
	i.mu.Lock()
	i.rq = append(i.rq, it)
	i.cond.Broadcast()
	i.mu.Unlock()
}

func (i *inc) parkedEmpty() bool {
	i.mu.Lock()
	defer i.mu.Unlock()
	return i.parked && len(i.rq) == 0 && !(i.closed && i.released)
}

func (i *inc) rqLen() int {
	i.mu.Lock()
	defer i.mu.Unlock()
	return len(i.rq)
}

func (i *inc) release() {
	i.mu.Lock()
	if i.closed {
		i.released = true
		i.cond.Broadcast()
	}
	i.mu.Unlock()
}

func (i *inc) closeWith(code uint64, withStatus bool) error {
	i.mu.Lock()
	i.closed = true
	if withStatus {
		i.statuses = append(i.statuses, code)
	}
	i.cond.Broadcast()
	i.mu.Unlock()
	i.g.mu.Lock()
	fail := (withStatus && i.g.failStatusClose) || (!withStatus && i.g.plainCloseErr)
	i.g.mu.Unlock()
	if fail {
		return fmt.Errorf("scripted: close handshake failed")
	}
	return nil
}

func (i *inc) Close() error { return i.closeWith(0, false) }

var statusNames = []transport.CloseStatus{transport.CloseStatusNormal, transport.CloseStatusAbnormal,
	transport.CloseStatusGoingAway, transport.CloseStatusInternalError}

func (i *inc) CloseWithStatus(s transport.CloseStatus) error {
	for k, n := range statusNames {
		if n == s {
			return i.closeWith(uint64(k)+1, true)
		}
	}
	return i.closeWith(99, true)
}

func (i *inc) AsUnreliable() (transport.UnreliableTransport, bool) { return nil, false }
func (i *inc) NegotiationParams() transport.NegotiationParams     { return transport.NegotiationParams{} }
func (i *inc) Name() transport.Name                               { return "scripted" }
func (i *inc) RxBytesCounterValue() uint64                        { return 0 }
func (i *inc) TxBytesCounterValue() uint64                        { return 0 }

// ---------- scripted dialer ----------

type dialRec struct {
	id        transport.TransportID
	reconnect bool
}

type dialer struct {
	mu     sync.Mutex
	g      *gate
	script []dialSpec
	tailHs bool
	free   bool
	kill   bool
	incs   []*inc
	dials  []dialRec
	cur    *inc // last transport handed out whose handshake was scripted to succeed (or the first one)
}

func (d *dialer) Dial(c transport.DialConfig) (transport.Transport, error) {
	d.mu.Lock()
	defer d.mu.Unlock()
	d.dials = append(d.dials, dialRec{c.TransportID, c.Reconnect})
	if len(d.dials) > 2000 {
		// a redial loop that does not end (only under a defect): keep the run small
		time.Sleep(time.Millisecond)
	}
	if d.kill {
		return nil, fmt.Errorf("scripted: dialer shut down")
	}
	var s dialSpec
	if len(d.script) > 0 {
		s = d.script[0]
		d.script = d.script[1:]
	} else if d.tailHs {
		s = dialSpec{Ok: true, Hs: false, Cap: -1}
	}
	if !s.Ok {
		return nil, fmt.Errorf("scripted: dial failure")
	}
	t := newInc(d.g, s.Cap, d.free)
	t.wcls = len(d.dials) % 6
	if len(d.incs) == 0 {
		d.cur = t // Dial: no handshake read
	} else if s.Hs {
		t.rq = append(t.rq, readItem{bs: []byte("hs")})
		d.cur = t
	} else {
		t.rq = append(t.rq, readItem{err: fmt.Errorf("scripted: handshake read failure")})
	}
	d.incs = append(d.incs, t)
	return t, nil
}

func (d *dialer) current() *inc {
	d.mu.Lock()
	defer d.mu.Unlock()
	return d.cur
}

func (d *dialer) snapshot() []*inc {
	d.mu.Lock()
	defer d.mu.Unlock()
	return append([]*inc(nil), d.incs...)
}

// ---------- running one case ----------

func callWD(f func()) (panicked interface{}, blocked bool) {
	done := make(chan interface{}, 1)
	go func() {
		defer func() { done <- recover() }()
		f()
	}()
	select {
	case p := <-done:
		return p, false
	case <-time.After(watchdog):
		return nil, true
	}
}

func waitUntil(cond func() bool) bool {
	deadline := time.Now().Add(watchdog)
	for i := 0; ; i++ {
		if cond() {
			return true
		}
		if time.Now().After(deadline) {
			return false
		}
		if i < 50 {
			time.Sleep(10 * time.Microsecond)
		} else {
			time.Sleep(100 * time.Microsecond)
		}
	}
}

// statusErr: an error of the underlying connection carrying close status class cls
func statusErr(cls int, what string) error {
	switch cls {
	case 1:
		return fmt.Errorf("scripted %s: %w", what, ierrors.ErrConnectionNormalClose)
	case 2:
		return fmt.Errorf("scripted %s: %w", what, ierrors.ErrConnectionGoingAwayClose)
	case 3:
		return fmt.Errorf("scripted %s: %w", what, ierrors.ErrConnectionAbnormalClose)
	case 4:
		return fmt.Errorf("scripted %s: %w", what, ierrors.ErrConnectionInternalErrorClose)
	case 5:
		return fmt.Errorf("scripted %s: %w", what, ierrors.ErrConnectionClosed)
	}
	return fmt.Errorf("scripted: %s", what)
}

func rfTerm(normal bool, cls int) string {
	if normal {
		return "ReadFail true 1"
	}
	if cls == 1 || cls < 0 || cls > 5 {
		cls = 0
	}
	return fmt.Sprintf("ReadFail false %d", cls)
}

func optCap(c int) string {
	if c < 0 {
		return "None"
	}
	return fmt.Sprintf("(Some %d)", c)
}

func cfgTerm(ci *caseIn) string {
	var ds []string
	for _, s := range ci.Script {
		if s.Ok {
			ds = append(ds, fmt.Sprintf("DOk %s %s", coqfmt.Bool(s.Hs), optCap(s.Cap)))
		} else {
			ds = append(ds, "DFail")
		}
	}
	tid := 2
	if ci.TidSet {
		tid = 1
	}
	return fmt.Sprintf("(mkRC %d %d %s %s)", ci.Budget, tid, coqfmt.List(ds), coqfmt.Bool(ci.TailHs))
}

func wsTerm(ws []wIn) string {
	var l []string
	for _, w := range ws {
		l = append(l, coqfmt.Pair(coqfmt.N(uint64(w.Writer)), coqfmt.Bytes(w.Bs)))
	}
	return coqfmt.List(l)
}

type readCall struct {
	done chan struct{}
	bs   []byte
	err  error
	pan  interface{}
	// index of the ReadStart event in evsT, patched with the take flag at the join
	evIdx    int
	wasDone  bool
	finished bool
}

type result struct {
	term   string
	obs    interface{}
	direct string
	sig    string
	evs    []evIn
	// number of arfbatch events in which the read failure was really injected behind an accepted write
	injected int
}

// runCase executes one case on the real code.  The events come from ci.Evs or, when src is
// given, from the online generator (they are then recorded into ci.Evs).
func runCase(ci *caseIn, src evSource) (res result) {
	g := newGate()
	g.plainCloseErr = ci.PlainCloseErr
	d := &dialer{g: g, script: append([]dialSpec(nil), ci.Script...), tailHs: ci.TailHs, free: ci.Free}
	cfg := reconnect.DialConfig{Dialer: d, MaxReconnectAttempts: ci.Budget, ReconnectInterval: interval}
	if ci.TidSet {
		cfg.DialConfig.TransportID = "verif-tid"
	}
	var rt *reconnect.Transport
	var derr error
	if p, blocked := callWD(func() { rt, derr = reconnect.Dial(cfg) }); p != nil || blocked {
		d.mu.Lock()
		d.kill = true
		d.mu.Unlock()
		res.direct = fmt.Sprintf("Dial: panic=%v blocked=%v", p, blocked)
		return
	}
	const maxObs = 60 // what is recorded of a run that hung (it is flagged as such anyway)
	dialsTerm := func() string {
		d.mu.Lock()
		defer d.mu.Unlock()
		var l []string
		var first transport.TransportID
		for k, r := range d.dials {
			if res.direct != "" && k >= maxObs {
				break
			}
			if k == 0 {
				first = r.id
			}
			code := uint64(0)
			switch {
			case ci.TidSet && r.id == "verif-tid":
				code = 1
			case !ci.TidSet && r.id != "" && r.id == first:
				code = 2
			}
			l = append(l, coqfmt.Pair(coqfmt.N(code), coqfmt.Bool(r.reconnect)))
		}
		return coqfmt.List(l)
	}
	if derr != nil {
		res.term = fmt.Sprintf("mkRcCase %s %s false [] [] [] %s false 0", cfgTerm(ci), coqfmt.Bool(ci.Free), dialsTerm())
		res.obs = map[string]interface{}{"new": false, "err": fmt.Sprint(derr)}
		return
	}

	doneCh := rt.VerifDone()
	isDone := func() bool {
		select {
		case <-doneCh:
			return true
		default:
			return false
		}
	}
	readerAlive := true
	readExh := false
	var pend *readCall
	var evsT, outsT []string
	var obs []string
	sawRevive := false
	softDirect := ""
	emit := func(e, o string) {
		evsT = append(evsT, e)
		outsT = append(outsT, o)
		obs = append(obs, e+" => "+o)
	}
	abort := func(what string) {
		if res.direct == "" {
			res.direct = what
		}
		d.mu.Lock()
		d.kill = true
		d.mu.Unlock()
	}
	pendFinished := func() bool {
		if pend == nil || pend.finished {
			return true
		}
		select {
		case <-pend.done:
			pend.finished = true
			return true
		default:
			return false
		}
	}
	// settle: run the event to quiescence (see the file comment)
	settle := func(delivered bool) {
		for _, t := range d.snapshot() {
			t.release()
		}
		if isDone() {
			if p, blocked := callWD(func() { _ = rt.Name() }); p != nil || blocked {
				abort(fmt.Sprintf("Name() after cancellation: panic=%v blocked=%v (a redial round does not end)", p, blocked))
			}
			readerAlive = false
		} else if readerAlive {
			if !waitUntil(func() bool { return isDone() || d.current().parkedEmpty() }) {
				abort("the read loop did not come back to Read on the current transport (hang)")
			}
		}
		if pend != nil && !pend.finished && (isDone() || !readerAlive || delivered) {
			if !waitUntil(pendFinished) {
				abort("a pending Read did not return although the transport is over / a message was delivered (blocked)")
			}
		}
	}
	type wr struct {
		err     error
		pan     interface{}
		blocked bool
	}
	// issue the writes of a batch in queue order; mid runs while the first is in flight
	batch := func(ws []wIn, mid func()) []wr {
		out := make([]wr, len(ws))
		chans := make([]chan struct{}, len(ws))
		start := func(j int) {
			chans[j] = make(chan struct{})
			go func() {
				defer close(chans[j])
				defer func() { out[j].pan = recover() }()
				out[j].err = rt.Write(ws[j].Bs)
			}()
		}
		var deadline <-chan time.Time
		wait := func(j int) {
			if deadline == nil {
				deadline = time.After(watchdog) // one watchdog for the whole batch
			}
			select {
			case <-chans[j]:
			case <-deadline:
				out[j].blocked = true
				// the deadline has fired once: the remaining ones are only polled
				dl := make(chan time.Time)
				close(dl)
				deadline = dl
			}
		}
		if isDone() || len(ws) == 0 {
			for j := range ws {
				start(j)
				wait(j)
			}
			if mid != nil {
				mid()
			}
			return out
		}
		g.set(false)
		ok := true
		for j := range ws {
			start(j)
			switch {
			case j == 0:
				ok = waitUntil(func() bool { w, _ := g.get(); return w == 1 || isDone() })
			case j <= queueCap:
				ok = waitUntil(func() bool { w, _ := rt.VerifQueueLens(); return w == j || isDone() })
			default:
				// the queue is full: this writer blocks in its send (writeOrDone); its position among
				// the overflow writers is not controlled - big batches are only generated where every
				// write from the capacity on fails
			}
			if !ok {
				abort(fmt.Sprintf("write %d of a batch did not reach the write loop / the queue (hang)", j))
				break
			}
		}
		if len(ws) > queueCap+1 {
			time.Sleep(30 * time.Millisecond) // let the overflow writers reach their send (sensitivity only)
		}
		if mid != nil && ok {
			mid()
		}
		g.set(true)
		failed := false
		for j := range ws {
			if chans[j] != nil {
				wait(j)
				failed = failed || (!out[j].blocked && out[j].err != nil)
			} else {
				out[j].blocked = true
			}
		}
		// the write loop replies to the failed Write first and cancels the context next: wait
		// for the cancellation before the read loop is let go (hold mode), so that it cannot
		// start a round of its own in between
		if failed && !waitUntil(isDone) {
			abort("a Write failed but the transport's context was never cancelled (later Writes will block)")
		}
		return out
	}
	wrTerm := func(rs []wr, what string) string {
		var l []string
		for j, r := range rs {
			switch {
			case r.pan != nil:
				abort(fmt.Sprintf("%s: Write %d panicked: %v", what, j, r.pan))
				l = append(l, "WBlocked")
			case r.blocked:
				abort(fmt.Sprintf("%s: Write %d blocked", what, j))
				l = append(l, "WBlocked")
			case r.err == nil:
				l = append(l, "WOk")
				if readExh {
					sawRevive = true
				}
			default:
				l = append(l, "WErr")
			}
		}
		return "OBatch " + coqfmt.List(l)
	}
	// a read failure of the current transport, as seen by the read loop
	readFail := func(normal bool, cls int) string {
		if !readerAlive || isDone() {
			return "OReadFail false"
		}
		c := d.current()
		_, q0 := rt.VerifQueueLens()
		hadPend := pend != nil && !pendFinished()
		if normal {
			c.push(readItem{err: fmt.Errorf("scripted: %w", ierrors.ErrConnectionNormalClose)})
			if !waitUntil(func() bool { return c.rqLen() == 0 }) {
				abort("read error not taken by the read loop (hang)")
			}
			readerAlive = false
			return "OReadFail false"
		}
		c.push(readItem{err: statusErr(cls, "read failure")})
		var exhausted bool
		if !waitUntil(func() bool {
			if isDone() {
				return true
			}
			if n := d.current(); n != c && n.parkedEmpty() {
				return true
			}
			if _, q := rt.VerifQueueLens(); q > q0 || (hadPend && pendFinished()) {
				exhausted = true
				return true
			}
			return false
		}) {
			abort("the read loop neither redialled nor gave up after a read failure that is not the peer's normal close (the reader ended without a redial, or a redial round does not end)")
			readerAlive = false
			return "OReadFail false"
		}
		if exhausted {
			readerAlive = false
			readExh = true
			// the read loop hands the reconnect error to Read first and cancels the context next
			if !waitUntil(isDone) && softDirect == "" {
				// not aborted: the rest of the history shows what later Writes do
				softDirect = "the read side exhausted its redial budget but the transport's context was never cancelled (F33: later Writes start new redial rounds)"
			}
			return "OReadFail false"
		}
		if isDone() {
			readerAlive = false
			return "OReadFail false"
		}
		return "OReadFail true"
	}

	dialsAtClose := -1
	ndials := func() int { d.mu.Lock(); defer d.mu.Unlock(); return len(d.dials) }
	// CloseWithStatus with the scripted outcome of the underlying close
	doClose := func(st transport.CloseStatus, cerr bool) (err error, p interface{}, blocked bool) {
		g.mu.Lock()
		g.failStatusClose = cerr
		g.mu.Unlock()
		p, blocked = callWD(func() { err = rt.CloseWithStatus(st) })
		g.mu.Lock()
		g.failStatusClose = false
		g.mu.Unlock()
		if dialsAtClose < 0 {
			dialsAtClose = ndials()
		}
		return
	}
	nEv := 0
	next := func() (evIn, bool) {
		if src != nil {
			e, ok := src(view{n: nEv, done: isDone(), readerAlive: readerAlive, readExh: readExh, pending: pend != nil, dials: func() int { d.mu.Lock(); defer d.mu.Unlock(); return len(d.dials) }()})
			if ok {
				ci.Evs = append(ci.Evs, e)
			}
			return e, ok
		}
		if nEv < len(ci.Evs) {
			return ci.Evs[nEv], true
		}
		return evIn{}, false
	}
	for res.direct == "" {
		e, ok := next()
		if !ok {
			break
		}
		nEv++
		switch e.Op {
		case "batch":
			rs := batch(e.Ws, nil)
			emit("Batch "+wsTerm(e.Ws), wrTerm(rs, "batch"))
			settle(false)
		case "rfbatch":
			var rf string
			rs := batch(e.Ws, func() { rf = readFail(false, e.Cls) })
			if rf == "" { // the batch hung before the read failure could be injected
				rf = "OReadFail false"
			}
			emit(rfTerm(false, e.Cls), rf)
			emit("Batch "+wsTerm(e.Ws), wrTerm(rs, "rfbatch"))
			settle(false)
		case "arfbatch":
			// accept -> read failure -> redial completes -> Write returns nil: the first write is held
			// inside the underlying Write AFTER its payload was recorded, the others queue behind it,
			// then the current connection's Read fails and the read loop installs the next connection,
			// and only then the held Write returns.  Linearisation: Batch [first]; ReadFail; Batch rest.
			if isDone() || len(e.Ws) == 0 {
				rs := batch(e.Ws, nil)
				emit("Batch "+wsTerm(e.Ws), wrTerm(rs, "arfbatch"))
				settle(false)
				break
			}
			ws := e.Ws
			out := make([]wr, len(ws))
			chans := make([]chan struct{}, len(ws))
			start := func(j int) {
				chans[j] = make(chan struct{})
				go func() {
					defer close(chans[j])
					defer func() { out[j].pan = recover() }()
					out[j].err = rt.Write(ws[j].Bs)
				}()
			}
			finished := func(j int) bool {
				select {
				case <-chans[j]:
					return true
				default:
					return false
				}
			}
			g.setPost(false)
			start(0)
			ok := waitUntil(func() bool { return g.getPost() == 1 || finished(0) || isDone() })
			held := ok && g.getPost() == 1
			rf := ""
			if !ok {
				abort("the first write of a batch neither was accepted nor failed (hang)")
			}
			if held {
				for j := 1; j < len(ws) && ok; j++ {
					start(j)
					ok = waitUntil(func() bool { w, _ := rt.VerifQueueLens(); return w == j || isDone() })
				}
				if !ok {
					abort("a write of a batch did not reach the queue (hang)")
				}
				// the write loop may have redialled before the write was accepted: let the read loop
				// arrive on the current connection first
				for _, t := range d.snapshot() {
					t.release()
				}
				if ok && readerAlive && !waitUntil(func() bool { return isDone() || d.current().parkedEmpty() }) {
					abort("the read loop did not come back to Read on the current connection (hang)")
					ok = false
				}
				nd := func() int { d.mu.Lock(); defer d.mu.Unlock(); return len(d.dials) }()
				if ok && readerAlive && !isDone() && roundSucceeds(ci, nd) {
					rf = readFail(false, e.Cls)
				}
			}
			g.setPost(true)
			deadline := time.After(watchdog)
			failed := false
			for j := range ws {
				if chans[j] == nil {
					if isDone() {
						start(j)
					} else {
						out[j].blocked = true
						continue
					}
				}
				select {
				case <-chans[j]:
					failed = failed || out[j].err != nil
				case <-deadline:
					out[j].blocked = true
					dl := make(chan time.Time)
					close(dl)
					deadline = dl
				}
			}
			if failed && !waitUntil(isDone) {
				abort("a Write failed but the transport's context was never cancelled (later Writes will block)")
			}
			if rf != "" {
				emit("Batch "+wsTerm(ws[:1]), wrTerm(out[:1], "arfbatch"))
				emit(rfTerm(false, e.Cls), rf)
				if len(ws) > 1 {
					emit("Batch "+wsTerm(ws[1:]), wrTerm(out[1:], "arfbatch"))
				}
				res.injected++
			} else {
				emit("Batch "+wsTerm(ws), wrTerm(out, "arfbatch"))
			}
			settle(false)
		case "batchclose":
			st := statusNames[e.Status%4]
			var cp interface{}
			var cb bool
			rs := batch(e.Ws, func() { _, cp, cb = doClose(st, e.Cerr) })
			if cp != nil || cb {
				abort(fmt.Sprintf("CloseWithStatus: panic=%v blocked=%v", cp, cb))
			}
			emit(fmt.Sprintf("BatchClose %s %d %s", wsTerm(e.Ws), e.Status%4+1, coqfmt.Bool(e.Cerr)), wrTerm(rs, "batchclose"))
			settle(false)
		case "deliver":
			isPing := string(e.Bs) == "ping"
			c := d.current()
			_, p0 := g.get()
			acc0 := 0
			if isPing {
				for _, t := range d.snapshot() {
					t.mu.Lock()
					for _, b := range t.log {
						if string(b) == "pong" {
							acc0++
						}
					}
					t.mu.Unlock()
				}
			}
			live := readerAlive && !isDone()
			if live {
				c.push(readItem{bs: append([]byte(nil), e.Bs...)})
				if !waitUntil(func() bool { return c.rqLen() == 0 }) {
					abort("delivered message not taken by the read loop (hang)")
				}
			}
			out := "OUnit"
			if live && isPing {
				accepted := func() int {
					n := 0
					for _, t := range d.snapshot() {
						t.mu.Lock()
						for _, b := range t.log {
							if string(b) == "pong" {
								n++
							}
						}
						t.mu.Unlock()
					}
					return n
				}
				if !waitUntil(func() bool {
					_, p := g.get()
					return p > p0 && (accepted() > acc0 || isDone())
				}) {
					abort("a ping was not answered: no pong reached an underlying Write, or the pong write never ended")
				}
				if _, p := g.get(); p > p0 {
					ok := accepted() > acc0
					out = "OPong " + coqfmt.Bool(ok)
					if ok && readExh {
						sawRevive = true
					}
				}
			}
			emit("Deliver "+coqfmt.Bytes(e.Bs), out)
			settle(live && !isPing)
		case "readfail":
			emit(rfTerm(e.Normal, e.Cls), readFail(e.Normal, e.Cls))
			settle(false)
		case "readstart":
			if pend == nil {
				rc := &readCall{done: make(chan struct{}), evIdx: len(evsT), wasDone: isDone()}
				go func() {
					defer close(rc.done)
					defer func() { rc.pan = recover() }()
					rc.bs, rc.err = rt.Read()
				}()
				pend = rc
				// an immediate result is awaited at the join; a Read that finds nothing parks
				_, q := rt.VerifQueueLens()
				if q > 0 || isDone() || !readerAlive {
					if !waitUntil(pendFinished) {
						abort("Read blocked although a result is queued / the transport is over")
					}
				}
			}
			emit("ReadStart false", "OUnit")
			settle(false)
		case "readjoin":
			switch {
			case pend == nil:
				emit("ReadJoin", "OUnit")
			case pendFinished():
				switch {
				case pend.pan != nil:
					abort(fmt.Sprintf("Read panicked: %v", pend.pan))
					emit("ReadJoin", "ORead RBlocked")
				case pend.err != nil:
					emit("ReadJoin", "ORead RErr")
				default:
					if pend.wasDone {
						evsT[pend.evIdx] = "ReadStart true"
					}
					emit("ReadJoin", "ORead (ROk "+coqfmt.Bytes(pend.bs)+")")
				}
				pend = nil
			default:
				// settle() has awaited every resolution: the Read is parked on a live transport
				emit("ReadJoin", "ORead RBlocked")
				if isDone() || !readerAlive {
					abort("a pending Read is blocked although the transport is over")
				}
			}
			settle(false)
		case "close":
			st := statusNames[e.Status%4]
			cerrObs, p, blocked := doClose(st, e.Cerr)
			if p != nil || blocked {
				abort(fmt.Sprintf("CloseWithStatus: panic=%v blocked=%v", p, blocked))
			}
			emit(fmt.Sprintf("CloseE %d %s", e.Status%4+1, coqfmt.Bool(e.Cerr)), "OClose "+coqfmt.Bool(cerrObs != nil))
			settle(false)
		default:
			abort("generator error: unknown op " + e.Op)
		}
	}
	// observation, then clean up
	incs := d.snapshot()
	var incT []string
	for k, t := range incs {
		if res.direct != "" && k >= maxObs {
			break
		}
		t.mu.Lock()
		var l, s []string
		for _, b := range t.log {
			l = append(l, coqfmt.Bytes(b))
		}
		for _, x := range t.statuses {
			s = append(s, coqfmt.N(x))
		}
		incT = append(incT, fmt.Sprintf("(%s, %s, %s)", coqfmt.List(l), coqfmt.Bool(t.closed), coqfmt.List(s)))
		t.mu.Unlock()
	}
	dt := dialsTerm()
	doneObs := isDone()
	post := 0
	if dialsAtClose >= 0 {
		post = ndials() - dialsAtClose
	}
	res.term = fmt.Sprintf("mkRcCase %s %s true %s %s %s %s %s %d", cfgTerm(ci), coqfmt.Bool(ci.Free),
		coqfmt.List(evsT), coqfmt.List(outsT), coqfmt.List(incT), dt, coqfmt.Bool(doneObs), post)
	res.obs = map[string]interface{}{"new": true, "trace": obs, "incs": incT, "dials": dt, "done": doneObs, "dials_after_close": post}
	if sawRevive {
		res.sig = sigRevive
	}
	if res.direct == "" {
		res.direct = softDirect
	}
	d.mu.Lock()
	d.kill = true
	d.mu.Unlock()
	g.set(true)
	for _, t := range incs {
		t.mu.Lock()
		t.released = true
		t.mu.Unlock()
	}
	go func() { _ = rt.Close() }()
	return
}

// ---------- generators ----------

func genScript(r *rng.R) []dialSpec {
	var s []dialSpec
	// Dial: mostly succeeds at once
	for r.Chance(1, 6) && len(s) < 3 {
		s = append(s, dialSpec{})
	}
	capOf := func() int {
		if r.Chance(2, 5) {
			return -1
		}
		return r.Intn(4)
	}
	s = append(s, dialSpec{Ok: true, Hs: r.Bool(), Cap: capOf()})
	n := r.Intn(8)
	for k := 0; k < n; k++ {
		switch x := r.Intn(20); {
		case x < 7:
			s = append(s, dialSpec{})
		case x < 11:
			s = append(s, dialSpec{Ok: true, Hs: false, Cap: capOf()})
		default:
			s = append(s, dialSpec{Ok: true, Hs: true, Cap: capOf()})
		}
	}
	return s
}

// roundSucceeds: would a redial round started after [used] dial attempts find a connection
// whose handshake succeeds within the budget?  (script bookkeeping only)
func roundSucceeds(ci *caseIn, used int) bool {
	b := ci.Budget
	if b == 0 {
		b = 30
	}
	for k := used; k < used+b && k < len(ci.Script); k++ {
		if ci.Script[k].Ok && ci.Script[k].Hs {
			return true
		}
	}
	return false
}

func genCase(r *rng.R) (*caseIn, evSource, string) {
	ci := &caseIn{Budget: 1 + r.Intn(3), TidSet: r.Bool(), Script: genScript(r), TailHs: r.Chance(1, 4), Free: r.Chance(1, 4)}
	kind := "hold"
	if ci.Free {
		kind = "free"
	}
	ci.PlainCloseErr = r.Chance(1, 5)
	if r.Chance(1, 40) {
		ci.Budget = 0
		kind += "-budget0"
	}
	if r.Chance(1, 30) {
		// Dial itself fails
		ci.Script = nil
		for k := 0; k < 3+r.Intn(30); k++ {
			ci.Script = append(ci.Script, dialSpec{})
		}
		ci.TailHs = false
	}
	total := 5 + r.Intn(12)
	msg := 0
	widx := map[int]int{}
	mkWs := func(n int) []wIn {
		var ws []wIn
		for _, w := range r.Perm(4)[:n] {
			widx[w]++
			bs := []byte{byte(w + 1), byte(widx[w])}
			switch {
			case r.Chance(1, 60):
				bs = []byte("pong")
			case r.Chance(1, 60):
				bs = []byte("ping")
			case r.Chance(1, 4):
				bs = append(bs, r.Bytes(r.Intn(3))...)
			}
			ws = append(ws, wIn{Writer: w + 1, Bs: bs})
		}
		return ws
	}
	closing := false
	endJoin := false
	tailLeft := 0
	src := func(v view) (evIn, bool) {
		if v.n >= total && tailLeft == 0 {
			if v.pending && !endJoin {
				endJoin = true
				return evIn{Op: "readjoin"}, true
			}
			if !closing && r.Chance(2, 3) {
				// what happens after the end: Close (if not over yet), then a write and a read
				closing = true
				tailLeft = 3
				return evIn{Op: "close", Status: uint64(r.Intn(4)), Cerr: r.Chance(1, 3)}, true
			}
			return evIn{}, false
		}
		if tailLeft > 0 {
			tailLeft--
			switch tailLeft {
			case 2:
				return evIn{Op: "batch", Ws: mkWs(1 + r.Intn(2))}, true
			case 1:
				return evIn{Op: "readstart"}, true
			default:
				total = v.n // then stop
				return evIn{Op: "readjoin"}, true
			}
		}
		for {
			x := r.Intn(100)
			switch {
			case x < 29:
				return evIn{Op: "batch", Ws: mkWs(1 + r.Intn(4))}, true
			case x < 34:
				return evIn{Op: "arfbatch", Ws: mkWs(1 + r.Intn(3)), Cls: []int{0, 2, 3, 4, 5}[r.Intn(5)]}, true
			case x < 40:
				return evIn{Op: "rfbatch", Ws: mkWs(1 + r.Intn(3)), Cls: []int{0, 2, 3, 4, 5}[r.Intn(5)]}, true
			case x < 52:
				msg++
				bs := []byte{byte(100 + msg)}
				if r.Chance(1, 12) {
					bs = []byte("pong")
				}
				return evIn{Op: "deliver", Bs: bs}, true
			case x < 62:
				return evIn{Op: "deliver", Bs: []byte("ping")}, true
			case x < 74:
				return evIn{Op: "readfail", Normal: r.Chance(1, 7), Cls: []int{0, 2, 3, 4, 5}[r.Intn(5)]}, true
			case x < 84:
				return evIn{Op: "readstart"}, true
			case x < 93:
				if !v.pending && r.Chance(2, 3) {
					continue
				}
				return evIn{Op: "readjoin"}, true
			case x < 96:
				return evIn{Op: "batchclose", Ws: mkWs(r.Intn(4)), Status: uint64(r.Intn(4)), Cerr: r.Chance(1, 3)}, true
			default:
				return evIn{Op: "close", Status: uint64(r.Intn(4)), Cerr: r.Chance(1, 3)}, true
			}
		}
	}
	return ci, src, kind
}

// exhaustive small scope: every script of at most [depth] dial outcomes after the first
// connection over {fail, connect+handshake fails, connect unlimited, connect capacity 1},
// first connection of capacity 1 or 2, budget 1 or 2, both tails; one fixed history around it.
// more pending writers than the request queue holds (1 in flight + 1024 queued + overflow writers
// blocked in their send), then the transport ends: every one of them must return an error.
func genBigQueue(n int, add func(*caseIn, evSource, string)) {
	big := func(k int) []wIn {
		var ws []wIn
		for j := 0; j < k; j++ {
			ws = append(ws, wIn{Writer: j + 1, Bs: []byte{250, byte(j >> 8), byte(j)}})
		}
		return ws
	}
	after := []evIn{{Op: "batch", Ws: []wIn{{1, []byte{1, 1}}}}, {Op: "readstart"}, {Op: "readjoin"}}
	fixed := func(evs ...evIn) evSource {
		evs = append(evs, after...)
		return func(v view) (evIn, bool) {
			if v.n < len(evs) {
				return evs[v.n], true
			}
			return evIn{}, false
		}
	}
	// Close with a write in flight and the queue overfull
	add(&caseIn{Budget: 1, TidSet: true, Script: []dialSpec{{Ok: true, Cap: -1}}},
		fixed(evIn{Op: "batchclose", Ws: big(n), Status: 1}), "big-queue")
	add(&caseIn{Budget: 1, Script: []dialSpec{{Ok: true, Cap: -1}}},
		fixed(evIn{Op: "batchclose", Ws: big(queueCap + 6), Status: 2, Cerr: true}), "big-queue")
	// the write side exhausts its budget on the first / the fourth write of an overfull queue
	add(&caseIn{Budget: 2, TidSet: true, Script: []dialSpec{{Ok: true, Cap: 0}, {}}},
		fixed(evIn{Op: "batch", Ws: big(n)}), "big-queue")
	add(&caseIn{Budget: 1, Script: []dialSpec{{Ok: true, Cap: 3}, {}}},
		fixed(evIn{Op: "batch", Ws: big(n)}), "big-queue")
	add(&caseIn{Budget: 2, Script: []dialSpec{{Ok: true, Cap: 0}}, TailHs: true},
		fixed(evIn{Op: "batch", Ws: big(n)}), "big-queue")
	// the read side exhausts its budget while a write is in flight and the queue is overfull
	add(&caseIn{Budget: 1, TidSet: true, Script: []dialSpec{{Ok: true, Cap: -1}, {}}},
		fixed(evIn{Op: "rfbatch", Ws: big(n)}), "big-queue")
}

func genExhaustive(depth int, add func(*caseIn, evSource, string)) {
	alphabet := []dialSpec{{}, {Ok: true, Hs: false, Cap: -1}, {Ok: true, Hs: true, Cap: -1}, {Ok: true, Hs: true, Cap: 1}}
	exhN := 0
	var rec func(prefix []dialSpec)
	rec = func(prefix []dialSpec) {
		for _, cap0 := range []int{1, 2} {
			for _, budget := range []int{1, 2} {
				for _, tail := range []bool{false, true} {
					if tail && len(prefix) != depth {
						continue
					}
					exhN++
					ci := &caseIn{Budget: budget, TidSet: cap0 == 1, TailHs: tail}
					ci.Script = append([]dialSpec{{Ok: true, Cap: cap0}}, prefix...)
					seq := []evIn{
						{Op: "batch", Ws: []wIn{{1, []byte{1, 1}}, {2, []byte{2, 1}}, {3, []byte{3, 1}}}},
						{Op: "deliver", Bs: []byte("ping")},
						{Op: "readstart"},
						{Op: "deliver", Bs: []byte{101}},
						{Op: "readjoin"},
						{Op: "arfbatch", Ws: []wIn{{2, []byte{2, 9}}, {3, []byte{3, 9}}}, Cls: []int{2, 3, 4, 5, 0}[(exhN+1)%5]},
						{Op: "readfail", Cls: []int{2, 3, 4, 5, 0}[exhN%5]},
						{Op: "batch", Ws: []wIn{{1, []byte{1, 2}}, {4, []byte{4, 1}}}},
						{Op: "readstart"},
						{Op: "readjoin"},
						{Op: "close", Status: 2, Cerr: budget == 2},
						{Op: "batch", Ws: []wIn{{2, []byte{2, 2}}}},
						{Op: "readstart"},
						{Op: "readjoin"},
					}
					src := func(v view) (evIn, bool) {
						if v.n < len(seq) {
							return seq[v.n], true
						}
						return evIn{}, false
					}
					add(ci, src, fmt.Sprintf("exhaustive-d%d", depth))
				}
			}
		}
		if len(prefix) == depth {
			return
		}
		for _, a := range alphabet {
			rec(append(append([]dialSpec(nil), prefix...), a))
		}
	}
	rec(nil)
}

type job struct {
	ci   *caseIn
	src  evSource
	kind string
	seed uint64
}

func main() {
	seed := flag.Uint64("seed", 1, "seed")
	tier := flag.String("tier", "quick", "quick|thorough")
	out := flag.String("out", "", "output directory")
	replay := flag.String("replay", "", "replay file (JSON with an 'input' field)")
	nOverride := flag.Int("n", -1, "development: number of random cases")
	noExh := flag.Bool("noexh", false, "development: skip the exhaustive family")
	flag.Parse()
	w := coqfmt.NewWriter(*out, "C18", "From Iscp Require Import Model.Reconnect.", "rc_case", "rc_judge", 120)
	const emptyTerm = "mkRcCase (mkRC 1 1 [] false) false false [] [] [] [] false 0"

	var jobs []job
	if *replay != "" {
		b, err := os.ReadFile(*replay)
		if err != nil {
			fmt.Fprintln(os.Stderr, err)
			os.Exit(2)
		}
		var rf struct {
			Input caseIn `json:"input"`
		}
		if err := json.Unmarshal(b, &rf); err != nil {
			fmt.Fprintln(os.Stderr, err)
			os.Exit(2)
		}
		jobs = append(jobs, job{ci: &rf.Input, kind: "replay"})
	} else {
		depth := 3
		nrand := 2500
		if *tier == "thorough" {
			depth = 4
			nrand = 40000
		}
		if *nOverride >= 0 {
			nrand = *nOverride
		}
		if !*noExh {
			// regression of finding F33 (Proofs.f33_regression): the Write after the read side gave up must fail
			jobs = append(jobs, job{kind: "regression-F33", ci: &caseIn{Budget: 1, TidSet: true,
				Script: []dialSpec{{Ok: true, Hs: true, Cap: -1}, {}, {Ok: true, Hs: true, Cap: -1}},
				Evs: []evIn{{Op: "readfail"}, {Op: "readstart"}, {Op: "readjoin"}, {Op: "batch", Ws: []wIn{{1, []byte{7}}}}}}})
			// the underlying close fails at Close while the dialler could still connect: Close is final all the same
			for _, bc := range []bool{false, true} {
				op := evIn{Op: "close", Status: 1, Cerr: true}
				if bc {
					op = evIn{Op: "batchclose", Ws: []wIn{{1, []byte{1, 1}}, {2, []byte{2, 1}}}, Status: 3, Cerr: true}
				}
				jobs = append(jobs, job{kind: "close-error", ci: &caseIn{Budget: 2, TidSet: bc,
					Script: []dialSpec{{Ok: true, Cap: -1}, {Ok: true, Hs: true, Cap: -1}, {Ok: true, Hs: true, Cap: -1}},
					Evs: []evIn{{Op: "batch", Ws: []wIn{{3, []byte{3, 1}}}}, {Op: "readstart"}, op, {Op: "readjoin"},
						{Op: "batch", Ws: []wIn{{4, []byte{4, 1}}}}, {Op: "readstart"}, {Op: "readjoin"}}}})
			}
			genBigQueue(1100, func(ci *caseIn, src evSource, kind string) { jobs = append(jobs, job{ci: ci, src: src, kind: kind}) })
			genExhaustive(depth, func(ci *caseIn, src evSource, kind string) { jobs = append(jobs, job{ci: ci, src: src, kind: kind}) })
		}
		r := rng.New(*seed)
		for i := 0; i < nrand; i++ {
			s := r.U64()
			ci, src, kind := genCase(rng.New(s))
			jobs = append(jobs, job{ci: ci, src: src, kind: kind, seed: s})
		}
	}
	results := make([]result, len(jobs))
	var wg sync.WaitGroup
	sem := make(chan struct{}, 8)
	for i := range jobs {
		wg.Add(1)
		sem <- struct{}{}
		go func(i int) {
			defer wg.Done()
			defer func() { <-sem }()
			results[i] = runCase(jobs[i].ci, jobs[i].src)
		}(i)
	}
	wg.Wait()
	for i, j := range jobs {
		rs := results[i]
		redials, fails, hsfails, caps := 0, 0, 0, 0
		for k, s := range j.ci.Script {
			switch {
			case !s.Ok:
				fails++
			case k > 0 && !s.Hs:
				hsfails++
			}
			if s.Ok && s.Cap >= 0 {
				caps++
			}
		}
		writers := map[int]bool{}
		maxBatch := 0
		for _, e := range j.ci.Evs {
			w.Count("op:" + e.Op)
			for _, x := range e.Ws {
				writers[x.Writer] = true
			}
			if len(e.Ws) > maxBatch {
				maxBatch = len(e.Ws)
			}
			if e.Op == "readfail" || e.Op == "rfbatch" || e.Op == "arfbatch" {
				redials++
			}
		}
		nt := (fails+hsfails > 0 || caps > 0) && (redials > 0 || caps > 0) && len(writers) > 0
		c := coqfmt.Case{Term: rs.term, Input: j.ci, Observed: rs.obs, Nontrivial: nt, Kind: j.kind,
			Direct: rs.direct, Seed: j.seed, Sig: rs.sig}
		if c.Term == "" {
			c.Term = emptyTerm
		}
		w.Add(c)
		w.Count(fmt.Sprintf("writers:%d", len(writers)))
		w.Count(fmt.Sprintf("max-batch:%d", maxBatch))
		w.Count(fmt.Sprintf("budget:%d", j.ci.Budget))
		for k := 0; k < rs.injected; k++ {
			w.Count("arfbatch:read-failure-injected-behind-an-accepted-write")
		}
		if rs.sig != "" {
			w.Count("sig:" + rs.sig)
		}
	}
	rule := "big-queue: 6 cases with 1030-1100 concurrently pending writers (1 in flight, 1024 queued, the rest blocked on the full queue) ended by Close / write-side / read-side budget exhaustion, every Write must return an error; exhaustive: every script of <= d dial outcomes after the first connection over {dial error, connect + handshake read fails, connect, connect with write capacity 1}, first connection of capacity 1 or 2, budget 1 or 2, both behaviours once the script is used up (dial errors / connections whose handshake fails for ever), around the fixed history: 3 queued writes of 3 writers, ping, pending Read resolved by a delivery, read failure, 2 more writes, Read, Close, write and Read after Close. random: budget 1-3 (0 = default 30 rarely), scripts of 1-11 outcomes incl. failing Dial, 5-16 events out of: batches of 1-4 concurrently pending writes of distinct writers (queue order fixed through the queue-length accessor), read failure while a write is in flight before / after the underlying connection recorded it (accept -> read failure -> redial completes -> Write returns nil), Close while a write is in flight with more queued, deliveries (data, ping, pong), read failures carrying every close status of the transport package (none/abrupt, going away, abnormal, internal error, plain closed; and the peer's normal close), write failures likewise, Read started / joined (pending across other events), Close (1/3 with the underlying CloseWithStatus returning an error, 1/5 of the cases with every plain underlying Close returning an error); then Close, write, Read; 1/4 of the cases with the read loop free to race the write loop's redial. non-trivial = some dial/handshake failure or write capacity in the script, a redial caused by it, and at least one write; distinct = distinct Coq case terms"
	if err := w.Flush(*seed, *tier, rule, false, nil); err != nil {
		fmt.Fprintln(os.Stderr, err)
		os.Exit(2)
	}
}

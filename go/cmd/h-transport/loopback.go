// Loopback stressor for finding F21 (thorough tier, or -gorilla N): the real gorilla backend
// (transport/websocket/gorilla over gorilla/websocket) on a loopback HTTP connection, several
// goroutines calling websocket.Transport.Write concurrently - as iscp does, one goroutine per
// upstream chunk.  gorilla allows ONE concurrent writer and the adapter's Writer() hands out
// NextWriter without serialisation, so this is expected to panic ("concurrent write to websocket
// connection") or to deliver cut / merged messages.  No Coq term: the outcome is a direct
// observation (panic, write error, a read that is not one whole written message, loss).
package main

import (
	"bytes"
	"fmt"
	"net/http"
	"net/http/httptest"
	"strings"
	"sync"
	"time"

	"github.com/aptpod/iscp-go/transport/websocket"
	"github.com/aptpod/iscp-go/transport/websocket/gorilla"
	gws "github.com/gorilla/websocket"

	"verif/internal/c13util"
)

const sigGorilla = "F21:gorilla-concurrent-writers"

// runLoopbackGorilla writes ci.Writers concurrently (compression off) from the client side and
// reads everything at the server side.
func runLoopbackGorilla(ci *caseIn) (observed map[string]interface{}, direct string) {
	msgs := make([][][]byte, len(ci.Writers))
	total := 0
	for w := range ci.Writers {
		msgs[w] = c13util.ExpandMsgs(ci.Writers[w])
		total += len(msgs[w])
	}
	srvT := make(chan *websocket.Transport, 1)
	up := gws.Upgrader{}
	srv := httptest.NewServer(http.HandlerFunc(func(w http.ResponseWriter, r *http.Request) {
		c, err := up.Upgrade(w, r, nil)
		if err != nil {
			return
		}
		srvT <- websocket.New(websocket.Config{Conn: gorilla.New(c)})
	}))
	defer srv.Close()
	cc, _, err := gws.DefaultDialer.Dial("ws"+strings.TrimPrefix(srv.URL, "http"), nil)
	if err != nil {
		return map[string]interface{}{"setup_error": err.Error()}, ""
	}
	cli := websocket.New(websocket.Config{Conn: gorilla.New(cc)})
	var st *websocket.Transport
	select {
	case st = <-srvT:
	case <-time.After(10 * time.Second):
		return map[string]interface{}{"setup_error": "server side did not upgrade"}, ""
	}
	defer cli.Close()
	defer st.Close()

	// reader: until `total` messages, an error, or the deadline
	type rres struct {
		got  [][]byte
		rerr string
	}
	rch := make(chan rres, 1)
	go func() {
		var rr rres
		defer func() {
			if r := recover(); r != nil {
				rr.rerr = fmt.Sprintf("panic in Transport.Read: %v", r)
			}
			rch <- rr
		}()
		for len(rr.got) < total {
			m, err := st.Read()
			if err != nil {
				rr.rerr = err.Error()
				return
			}
			rr.got = append(rr.got, append([]byte{}, m...))
		}
	}()

	var mu sync.Mutex
	var panics, werrs []string
	var wg sync.WaitGroup
	start := make(chan struct{})
	for w := range msgs {
		wg.Add(1)
		go func(w int) {
			defer wg.Done()
			defer func() {
				if r := recover(); r != nil {
					mu.Lock()
					panics = append(panics, fmt.Sprint(r))
					mu.Unlock()
				}
			}()
			<-start
			for _, m := range msgs[w] {
				if err := cli.Write(m); err != nil {
					mu.Lock()
					werrs = append(werrs, err.Error())
					mu.Unlock()
				}
			}
		}(w)
	}
	close(start)
	wdone := make(chan struct{})
	go func() { wg.Wait(); close(wdone) }()
	select {
	case <-wdone:
	case <-time.After(20 * time.Second):
		return nil, "Transport.Write (gorilla loopback) did not return within 20 s"
	}
	var rr rres
	select {
	case rr = <-rch:
	case <-time.After(3 * time.Second):
		// fewer messages arrived than were written (or the reader is stuck): close and collect
		cli.Close()
		st.Close()
		select {
		case rr = <-rch:
		case <-time.After(5 * time.Second):
			rr.rerr = "reader did not stop"
		}
	}

	// every read must be the next unwritten message of some writer
	next := make([]int, len(msgs))
	bad := 0
	for _, g := range rr.got {
		ok := false
		for w := range msgs {
			if next[w] < len(msgs[w]) && bytes.Equal(msgs[w][next[w]], g) {
				next[w]++
				ok = true
				break
			}
		}
		if !ok {
			bad++
		}
	}
	observed = map[string]interface{}{"written": total, "read": len(rr.got), "reads_not_a_written_message": bad,
		"write_errors": len(werrs), "write_panics": len(panics)}
	if len(panics) > 0 {
		observed["first_panic"] = panics[0]
	}
	if len(werrs) > 0 {
		observed["first_write_error"] = werrs[0]
	}
	if rr.rerr != "" {
		observed["read_error"] = rr.rerr
	}
	switch {
	case len(panics) > 0:
		direct = "panic in Transport.Write with concurrent writers (gorilla backend): " + panics[0]
	case bad > 0:
		direct = fmt.Sprintf("%d of %d reads are not a written message (gorilla backend, concurrent writers)", bad, len(rr.got))
	case len(werrs) > 0:
		direct = "Transport.Write failed with concurrent writers (gorilla backend): " + werrs[0]
	case len(rr.got) != total:
		direct = fmt.Sprintf("%d messages written, %d read (gorilla backend, concurrent writers): %s", total, len(rr.got), rr.rerr)
	}
	return observed, direct
}

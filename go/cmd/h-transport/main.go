// h-transport: correspondence harness for C13 (transport/websocket) against Model/Window.v.
// Real websocket.Transport pairs over the in-memory websocket.Conn of internal/memws; every
// message put on the wire is decoded by an independent decoder written here that follows
// Model/Window.v (mode selection, dictionary = last 2^bits bytes of everything written before).
package main

import (
	"bytes"
	"compress/flate"
	"encoding/json"
	"flag"
	"fmt"
	"io"
	"os"
	"sync"
	"time"

	"github.com/aptpod/iscp-go/transport"
	"github.com/aptpod/iscp-go/transport/compress"
	"github.com/aptpod/iscp-go/transport/websocket"

	"verif/internal/c13util"
	"verif/internal/coqfmt"
	"verif/internal/memws"
	"verif/internal/rng"
)

type caseIn struct {
	Comp      string               `json:"comp"`   // "", "per-message", "context-takeover"
	Level     *int                 `json:"level"`  // negotiated clevel
	Bits      *int                 `json:"bits"`   // negotiated cwinbits
	BaseEn    bool                 `json:"base_enable"`
	BaseLevel int                  `json:"base_level"`
	BaseDCT   bool                 `json:"base_disable_ct"`
	BaseBits  int                  `json:"base_bits"`
	Writers   [][][]c13util.Piece  `json:"writers"`
	Conn      memws.Options        `json:"conn"`
	Caller    string               `json:"caller,omitempty"`   // "scribble" | "retain" (see runCase); empty = by the parity of conn.Seed
	Loopback  string               `json:"loopback,omitempty"` // "gorilla": real gorilla backend over loopback HTTP (loopback.go)
}

const watchdog = 60 * time.Second

// sigLeak labels a case in which the peer (and the independent decoder) recovered
// dictionary ++ message for some message: in context-takeover mode Transport.Write compresses
// with flate.NewWriterDict, whose first block - when DEFLATE chooses a stored block, i.e. for an
// incompressible message that is large relative to the dictionary - starts at the beginning of
// the compressor's window and so contains the dictionary.  Independent of concurrency.
const sigLeak = "F28:takeover-stored-block-emits-dictionary"

// (F29 - compressed Transport.Read stopped before io.EOF, coder/nhooyr then refused the next
// Reader() - is fixed in /repo; the strict-eof cases are its regression test.)

// guarded runs f under a watchdog; false = did not return in time.
func guarded(f func()) bool {
	done := make(chan struct{})
	go func() { defer close(done); f() }()
	select {
	case <-done:
		return true
	case <-time.After(watchdog):
		return false
	}
}

// ---- the independent decoder: a Go mirror of Model/Window.v ----

type indep struct {
	mode int // 0 off, 1 per-message, 2 takeover
	W    uint64
	win  []byte
}

func newIndep(ci *caseIn) *indep {
	// NegotiationParams.CompressConfig as documented (Model/Window.v compress_config)
	d := &indep{}
	if ci.Level == nil || *ci.Level == 0 {
		return d
	}
	dct := ci.BaseDCT
	switch ci.Comp {
	case "per-message":
		dct = true
	case "context-takeover":
		dct = false
	}
	bits := ci.BaseBits
	if ci.Bits != nil {
		bits = *ci.Bits
	}
	if dct {
		d.mode = 1
	} else {
		d.mode = 2
	}
	d.W = uint64(1) << uint(bits)
	return d
}

func (d *indep) decode(wire []byte) ([]byte, bool) {
	switch d.mode {
	case 0:
		return wire, true
	case 1:
		rd := bytes.NewReader(wire)
		out, err := io.ReadAll(flate.NewReader(rd))
		if err != nil || rd.Len() != 0 {
			return nil, false
		}
		return out, true
	default:
		rd := bytes.NewReader(wire)
		out, err := io.ReadAll(flate.NewReaderDict(rd, append([]byte(nil), d.win...)))
		if err != nil || rd.Len() != 0 {
			return nil, false
		}
		d.win = append(d.win, out...)
		if d.W < uint64(len(d.win)) {
			d.win = d.win[uint64(len(d.win))-d.W:]
		}
		return out, true
	}
}

// ---- running one case on the real code ----

func runCase(ci *caseIn) (term string, observed map[string]interface{}, direct string) {
	a, b := memws.Pair(ci.Conn)
	np := websocket.NegotiationParams{NegotiationParams: transport.NegotiationParams{
		Compress: compress.Type(ci.Comp), CompressLevel: ci.Level, CompressWindowBits: ci.Bits}}
	base := compress.Config{Enable: ci.BaseEn, Level: ci.BaseLevel, DisableContextTakeover: ci.BaseDCT, WindowBits: ci.BaseBits}
	var ta, tb *websocket.Transport
	func() {
		defer func() {
			if r := recover(); r != nil {
				direct = fmt.Sprintf("panic in websocket.New: %v", r)
			}
		}()
		ta = websocket.New(websocket.Config{Conn: a, CompressConfig: base, NegotiationParams: np})
		tb = websocket.New(websocket.Config{Conn: b, CompressConfig: base, NegotiationParams: np})
	}()
	if direct != "" {
		return "", nil, direct
	}
	defer ta.Close()
	defer tb.Close()

	msgs := make([][][]byte, len(ci.Writers))
	total := 0
	for w := range ci.Writers {
		msgs[w] = c13util.ExpandMsgs(ci.Writers[w])
		total += len(msgs[w])
	}

	var werrs int
	var mu sync.Mutex
	var panicMsg string
	ok := guarded(func() {
		var wg sync.WaitGroup
		for w := range msgs {
			wg.Add(1)
			go func(w int) {
				defer wg.Done()
				defer func() {
					if r := recover(); r != nil {
						mu.Lock()
						panicMsg = fmt.Sprintf("panic in Transport.Write: %v", r)
						mu.Unlock()
					}
				}()
				for _, m := range msgs[w] {
					// the caller owns its buffer again as soon as Write has returned: it reuses
					// it at once (the writer's dictionary must not alias it)
					buf := append(make([]byte, 0, len(m)+64), m...)
					if err := ta.Write(buf); err != nil {
						mu.Lock()
						werrs++
						mu.Unlock()
					}
					full := buf[:cap(buf)]
					for i := range full {
						full[i] = 0x5A
					}
				}
			}(w)
		}
		wg.Wait()
	})
	if !ok {
		return "", nil, "Transport.Write did not return within the watchdog"
	}
	if panicMsg != "" {
		return "", nil, panicMsg
	}
	wire := a.Sent.Messages()

	type rd struct {
		b  []byte
		ok bool
	}
	reads := make([]rd, 0, len(wire))
	type keptMsg struct {
		idx int
		m   []byte
	}
	var kept []keptMsg
	callerMode := ci.Caller
	if callerMode == "" {
		callerMode = []string{"scribble", "retain"}[ci.Conn.Seed&1]
	}
	var readErr string
	ok = guarded(func() {
		defer func() {
			if r := recover(); r != nil {
				panicMsg = fmt.Sprintf("panic in Transport.Read: %v", r)
			}
		}()
		for range wire {
			m, err := tb.Read()
			if err != nil {
				if readErr == "" {
					readErr = err.Error()
				}
				reads = append(reads, rd{nil, false})
				continue
			}
			// what Read returned, as compared right now ...
			reads = append(reads, rd{append([]byte{}, m...), true})
			// ... and then a hostile-but-legal caller: the slice is the caller's.  Either it is
			// used as scratch space at once (over its whole capacity), or it is kept, untouched,
			// and must still hold the message at the end of the case.
			if callerMode == "scribble" {
				full := m[:cap(m)]
				for i := range full {
					full[i] = 0xA5
				}
			} else {
				kept = append(kept, keptMsg{len(reads) - 1, m})
			}
		}
	})
	// retained messages are reported as they are NOW (a message that changed after Read returned
	// it then differs from what was written)
	retainedChanged := 0
	for _, k := range kept {
		if !bytes.Equal(k.m, reads[k.idx].b) {
			retainedChanged++
			reads[k.idx].b = append([]byte{}, k.m...)
		}
	}
	if !ok {
		return "", nil, "Transport.Read did not return within the watchdog"
	}
	if panicMsg != "" {
		return "", nil, panicMsg
	}
	tx, rx := ta.TxBytesCounterValue(), tb.RxBytesCounterValue()

	// independent decoding of the wire, attribution to the written messages
	dec := newIndep(ci)
	next := make([]int, len(msgs))
	var orderT, leakT, wireT, dwinT, readsT []string
	decOK := 0
	leak := false
	for _, wm := range wire {
		prevWin := append([]byte(nil), dec.win...)
		out, good := dec.decode(wm)
		attributed := false
		if good {
			for w := range msgs {
				if next[w] < len(msgs[w]) && bytes.Equal(msgs[w][next[w]], out) {
					orderT = append(orderT, fmt.Sprintf("Some (%d, %d)", w, next[w]))
					leakT = append(leakT, "false")
					next[w]++
					attributed = true
					decOK++
					break
				}
			}
		}
		if !attributed && good && len(prevWin) > 0 {
			// shape of finding F28: the inflated bytes are the dictionary followed by the message
			for w := range msgs {
				if next[w] < len(msgs[w]) && bytes.Equal(out, append(append([]byte(nil), prevWin...), msgs[w][next[w]]...)) {
					orderT = append(orderT, fmt.Sprintf("Some (%d, %d)", w, next[w]))
					leakT = append(leakT, "true")
					next[w]++
					attributed = true
					leak = true
					break
				}
			}
		}
		if !attributed {
			orderT = append(orderT, "None")
			leakT = append(leakT, "false")
			if os.Getenv("C13DEBUG") != "" {
				fmt.Fprintf(os.Stderr, "wire msg %d: decode ok=%v len(out)=%d len(wire)=%d next=%v\n", len(orderT)-1, good, len(out), len(wm), next)
			}
		}
		wireT = append(wireT, c13util.Obs(wm))
		dwinT = append(dwinT, coqfmt.Pair(coqfmt.N(uint64(len(dec.win))), coqfmt.N(c13util.Digest(dec.win))))
	}
	nReadOK := 0
	for _, r := range reads {
		readsT = append(readsT, c13util.OptObs(r.b, r.ok))
		if r.ok {
			nReadOK++
		}
	}

	comp := map[string]string{"": "CNone", "per-message": "CPerMessage", "context-takeover": "CTakeover"}[ci.Comp]
	optN := func(p *int) string {
		if p == nil {
			return "None"
		}
		return fmt.Sprintf("(Some %d)", *p)
	}
	term = fmt.Sprintf("mkWsCase (mkNP %s %s %s) (mkCC %s %d %s %d) %s %s %s %s %s %d %d %s %s %d %d %d",
		comp, optN(ci.Level), optN(ci.Bits),
		coqfmt.Bool(ci.BaseEn), ci.BaseLevel, coqfmt.Bool(ci.BaseDCT), ci.BaseBits,
		c13util.WritersTerm(ci.Writers), coqfmt.Bool(ci.Conn.Strict),
		coqfmt.List(orderT), coqfmt.List(leakT), coqfmt.List(wireT), dec.mode, dec.W, coqfmt.List(dwinT), coqfmt.List(readsT),
		werrs, tx, rx)
	observed = map[string]interface{}{
		"wire_messages": len(wire), "independently_decoded": decOK, "reads_ok": nReadOK, "write_errors": werrs,
		"tx": tx, "rx": rx, "decoder_mode": dec.mode, "decoder_window": dec.W,
		"readers_not_drained_to_eof": b.Undrained, "caller": callerMode,
	}
	if retainedChanged > 0 {
		observed["retained_messages_changed_after_read"] = retainedChanged
	}
	if readErr != "" {
		observed["first_read_error"] = readErr
	}
	if leak {
		observed["sig"] = sigLeak
	}
	return term, observed, ""
}

// ---- generators ----

func ip(v int) *int { return &v }

var bitsChoices = []int{0, 1, 8, 9, 15, 16, 32}

func genParams(r *rng.R, ci *caseIn, wantMode int) {
	// wantMode: 0 off, 1 per-message, 2 takeover, -1 anything
	ci.BaseEn = r.Bool()
	ci.BaseLevel = r.Intn(10)
	ci.BaseDCT = r.Bool()
	ci.BaseBits = []int{0, 1, 3, 8}[r.Intn(4)]
	switch r.Intn(8) {
	case 0:
		ci.Level = nil
	case 1:
		ci.Level = ip(0)
	default:
		ci.Level = ip(1 + r.Intn(9))
	}
	ci.Comp = []string{"", "per-message", "context-takeover"}[r.Intn(3)]
	if r.Chance(1, 6) {
		ci.Bits = nil
	} else {
		ci.Bits = ip(bitsChoices[r.Intn(len(bitsChoices))])
	}
	switch wantMode {
	case 0:
		if r.Bool() {
			ci.Level = nil
		} else {
			ci.Level = ip(0)
		}
	case 1:
		if ci.Level == nil || *ci.Level == 0 {
			ci.Level = ip(1 + r.Intn(9))
		}
		if r.Chance(1, 4) {
			ci.Comp, ci.BaseDCT = "", true
		} else {
			ci.Comp = "per-message"
		}
	case 2:
		if ci.Level == nil || *ci.Level == 0 {
			ci.Level = ip(2 + r.Intn(8))
		}
		if r.Chance(1, 4) {
			ci.Comp, ci.BaseDCT = "", false
		} else {
			ci.Comp = "context-takeover"
		}
	}
}

func genConn(r *rng.R, delay bool) memws.Options {
	return memws.Options{DelayWriter: delay, Chunk: []int{0, 0, 1, 7, 512, 4096}[r.Intn(6)], EOFSeparate: r.Bool(), Seed: r.U64()}
}

// sizeAround picks a message size near the interesting boundaries of a window of W bytes.
func sizeAround(r *rng.R, W int) int {
	c := []int{0, 1, 2, 3, 4, W - 1, W, W + 1, 2*W - 1, 2 * W, 2*W + 1, 3*W + 1}
	if r.Chance(3, 5) {
		v := c[r.Intn(len(c))]
		if v < 0 {
			v = 0
		}
		return v
	}
	return r.Intn(3*W + 8)
}

// genMessages builds one writer's messages for a (real or notional) window of W bytes: random
// content interleaved with copies of earlier content taken from distances around W: inside the
// window, exactly W, W+1, between one and two windows back, exactly 2W.
func genMessages(r *rng.R, Wsize int, n int, tag int, maxTotal int, W int) [][]c13util.Piece {
	// Wsize scales the message sizes, W the copy distances

	var out [][]c13util.Piece
	hist := 0
	total := 0
	for i := 0; i < n; i++ {
		size := sizeAround(r, Wsize)
		if i == 0 && size < 8 {
			size = Wsize + 8
		}
		if total+size > maxTotal {
			size = 0
		}
		var ps []c13util.Piece
		left := size
		if tag >= 0 && left > 0 {
			ps = append(ps, c13util.Piece{Kind: "lit", Bytes: []byte{byte(tag)}})
			left--
			hist++
		}
		for left > 0 {
			cur := hist
			useBack := cur >= 4 && r.Chance(1, 2)
			if useBack {
				var d int
				switch r.Intn(6) {
				case 0:
					d = 1 + r.Intn(minInt(W, cur))
				case 1:
					d = W
				case 2:
					d = W + 1
				case 3:
					d = W + 1 + r.Intn(W)
				case 4:
					d = 2 * W
				default:
					d = 1 + r.Intn(cur)
				}
				if d > cur {
					d = cur
				}
				if d < 1 {
					d = 1
				}
				nmax := minInt(d, left)
				nn := 4 + r.Intn(60)
				if r.Chance(1, 5) {
					nn = 1 + r.Intn(W+1)
				}
				if nn > nmax {
					nn = nmax
				}
				ps = append(ps, c13util.Piece{Kind: "back", D: d, N: nn})
				left -= nn
				hist += nn
				continue
			}
			nn := 1 + r.Intn(minInt(left, maxInt(8, W)))
			if r.Chance(1, 4) {
				nn = left
			}
			if nn <= 6 && r.Bool() {
				ps = append(ps, c13util.Piece{Kind: "lit", Bytes: r.Bytes(nn)})
			} else {
				ps = append(ps, c13util.Piece{Kind: "rnd", Seed: r.U64() % 2147483648, N: nn})
			}
			left -= nn
			hist += nn
		}
		if ps == nil {
			ps = []c13util.Piece{}
		}
		out = append(out, ps)
		total += size
	}
	return out
}

func minInt(a, b int) int {
	if a < b {
		return a
	}
	return b
}
func maxInt(a, b int) int {
	if a > b {
		return a
	}
	return b
}

func effectiveWindow(ci *caseIn) (mode int, W uint64) {
	d := newIndep(ci)
	return d.mode, d.W
}

func genSequential(r *rng.R, wantMode int, big bool) (*caseIn, string, bool) {
	ci := &caseIn{}
	genParams(r, ci, wantMode)
	if big {
		ci.Bits = ip([]int{15, 16, 32}[r.Intn(3)])
	} else if wantMode == 2 {
		ci.Bits = ip([]int{0, 1, 8, 9, 8, 9, 2, 4}[r.Intn(8)])
		if r.Chance(1, 8) {
			ci.Bits = nil
		}
	}
	mode, W := effectiveWindow(ci)
	Wn := []int{1, 2, 16, 256, 512}[r.Intn(5)]
	if mode == 2 && W <= 512 {
		Wn = int(W)
	}
	n := 3 + r.Intn(8)
	maxTotal := 6000
	if big {
		// 2^15: the trimmed window is what flate looks back into (32 KiB): sizes around W/2 so
		// that several messages fit in 2.3 windows.  2^16, 2^32: the window is wider than
		// flate's reach; a shorter run exercises the configuration path.
		n = 5 + r.Intn(2)
		if W == 1<<15 {
			Wn = 1 << 13
			maxTotal = 75000
		} else {
			Wn = 1 << 12
			maxTotal = 36000
		}
	}
	D := Wn
	if big && W == 1<<15 {
		D = 1 << 15
	}
	ci.Writers = [][][]c13util.Piece{genMessages(r, Wn, n, -1, maxTotal, D)}
	ci.Conn = genConn(r, false)
	kind := []string{"off", "per-message", "takeover"}[mode]
	if big {
		kind += "-bigwin"
	}
	return ci, kind, mode == 2 && n >= 3
}

func genConcurrent(r *rng.R, wantMode int) (*caseIn, string, bool) {
	ci := &caseIn{}
	genParams(r, ci, wantMode)
	if wantMode == 2 {
		ci.Bits = ip([]int{1, 4, 8, 9, 15}[r.Intn(5)])
	}
	mode, _ := effectiveWindow(ci)
	k := 2 + r.Intn(3)
	for w := 0; w < k; w++ {
		wz := []int{8, 64, 256}[r.Intn(3)]
		ms := genMessages(r, wz, 3+r.Intn(6), w, 1<<30, wz)
		if w > 0 { // only writer 0 may write empty messages (attribution stays unambiguous)
			for i := range ms {
				if len(ms[i]) == 0 {
					ms[i] = []c13util.Piece{{Kind: "lit", Bytes: []byte{byte(w)}}}
				}
			}
		}
		ci.Writers = append(ci.Writers, ms)
	}
	ci.Conn = genConn(r, true)
	return ci, "concurrent-" + []string{"off", "per-message", "takeover"}[mode], true
}

// genIncompressible: ONE writer, context takeover with a small window, a short first message
// and then pseudo-random messages much larger than the window - the shape in which DEFLATE
// prefers a stored block (finding F28); sizes are independent of the window on purpose.
func genIncompressible(r *rng.R) (*caseIn, string, bool) {
	ci := &caseIn{}
	genParams(r, ci, 2)
	if *ci.Level < 2 {
		ci.Level = ip(2 + r.Intn(8))
	}
	ci.Bits = ip([]int{0, 1, 2, 3, 4, 5, 6, 8}[r.Intn(8)])
	var ms [][]c13util.Piece
	ms = append(ms, []c13util.Piece{{Kind: "lit", Bytes: r.Bytes(1 + r.Intn(20))}})
	n := 2 + r.Intn(3)
	for i := 0; i < n; i++ {
		var ps []c13util.Piece
		if r.Bool() {
			ps = append(ps, c13util.Piece{Kind: "lit", Bytes: r.Bytes(1 + r.Intn(4))})
		}
		ps = append(ps, c13util.Piece{Kind: "rnd", Seed: r.U64() % 2147483648, N: []int{40, 64, 100, 300, 1000, 3000}[r.Intn(6)] + r.Intn(17)})
		if r.Chance(1, 3) {
			ps = append(ps, c13util.Piece{Kind: "back", D: 1 + r.Intn(30), N: 1 + r.Intn(30)})
		}
		ms = append(ms, ps)
	}
	ci.Writers = [][][]c13util.Piece{ms}
	ci.Conn = genConn(r, false)
	return ci, "takeover-smallwin-incompressible", true
}

// genAliasing: ONE writer, context takeover, level >= 2, window 2^8..2^15; messages at least as
// large as the window, each followed by small messages that copy from the tail of what was
// written before (so the sender back-references the dictionary) - enough of them to fill the
// spare capacity of a buffer the size of the large message.  Together with the caller discipline
// of runCase (scribble over / retain every returned message, reuse every written buffer) this
// finds a dictionary that shares memory with a caller's slice.
// longTail: one large message and then so many small ones that a buffer built on the large
// message's array runs out of spare capacity and slides (bytes.Buffer grows by copying down inside
// the same array): the case for the RETAINING caller.
func genAliasing(r *rng.R, bitsChoice []int, longTail bool) (*caseIn, string, bool) {
	ci := &caseIn{}
	genParams(r, ci, 2)
	if *ci.Level < 2 {
		ci.Level = ip(2 + r.Intn(8))
	}
	ci.Comp = "context-takeover"
	bits := bitsChoice[r.Intn(len(bitsChoice))]
	ci.Bits = ip(bits)
	W := 1 << uint(bits)
	var ms [][]c13util.Piece
	hist := 0
	rounds := 1 + r.Intn(2)
	if longTail {
		rounds = 1
		ci.Caller = "retain"
	}
	for k := 0; k < rounds; k++ {
		big := W + []int{0, 1, 7, W / 2, W}[r.Intn(5)]
		if longTail {
			// the slice Read returns comes from a bytes.Buffer filled by io.Copy: capacity 512*2^j.
			// A length just above a power of two P >= 2W leaves ~P bytes of spare capacity - more
			// than window + 2 small messages, which is when bytes.Buffer slides instead of reallocating
			P := []int{2 * W, 4 * W}[r.Intn(2)]
			if P < 512 {
				P = 512
			}
			big = P + 5 + r.Intn(P/4)
		}
		ms = append(ms, []c13util.Piece{{Kind: "rnd", Seed: r.U64() % 2147483648, N: big}})
		hist += big
		small := 0
		target, maxMsgs := big+big/4, 40
		if longTail { // io.Copy into a bytes.Buffer leaves up to ~4x the message as spare capacity
			// and the slide happens only when the message that exhausts it is small: keep them small
			target, maxMsgs = big+300, 220
		}
		for small < target && len(ms) < maxMsgs {
			var ps []c13util.Piece
			n := 0
			np := 1 + r.Intn(3)
			if longTail {
				np = 1 + r.Intn(2)
			}
			for j := 0; j < np; j++ {
				d := 1 + r.Intn(minInt(W, hist+n))
				nn := minInt(d, 8+r.Intn(56))
				if longTail {
					nn = minInt(d, 8+r.Intn(28))
				}
				ps = append(ps, c13util.Piece{Kind: "back", D: d, N: nn})
				n += nn
				if r.Chance(1, 3) {
					ps = append(ps, c13util.Piece{Kind: "lit", Bytes: r.Bytes(1 + r.Intn(3))})
					n += len(ps[len(ps)-1].Bytes)
				}
			}
			if W > 256 && r.Bool() && !longTail { // a longer small message (still below the window)
				nn := minInt(W-1-n, 100+r.Intn(W/4))
				if nn > 0 {
					ps = append(ps, c13util.Piece{Kind: "back", D: minInt(W, hist+n), N: minInt(nn, minInt(W, hist+n))})
					n += ps[len(ps)-1].N
				}
			}
			ms = append(ms, ps)
			hist += n
			small += n
		}
	}
	ci.Writers = [][][]c13util.Piece{ms}
	ci.Conn = genConn(r, false)
	if longTail {
		return ci, "takeover-aliasing-longtail", true
	}
	return ci, "takeover-aliasing", true
}

func main() {
	seed := flag.Uint64("seed", 1, "seed")
	tier := flag.String("tier", "quick", "quick|thorough")
	out := flag.String("out", "", "output directory")
	replay := flag.String("replay", "", "replay file (JSON with an 'input' field)")
	nGorilla := flag.Int("gorilla", -1, "number of loopback cases with the real gorilla backend and concurrent writers (F21); default 0 quick, 30 thorough")
	strict := flag.Int("strict", 0, "number of additional cases whose in-memory Conn enforces coder's rule that a message must be read to io.EOF before the next Reader()")
	flag.Parse()
	w := coqfmt.NewWriter(*out, "C13", "From Iscp Require Import Model.Window.", "ws_case", "ws_judge", 40)
	empty := "mkWsCase (mkNP CNone None None) (mkCC false 0 false 0) [] false [] [] [] 0 0 [] [] 0 0 0"

	add := func(ci *caseIn, kind string, nt bool, sig string) {
		var term, direct string
		var obs map[string]interface{}
		if ci.Loopback == "gorilla" {
			obs, direct = runLoopbackGorilla(ci)
			term = empty
			w.Count(fmt.Sprintf("gorilla-loopback-violated:%v", direct != ""))
		} else {
			term, obs, direct = runCase(ci)
		}
		if obs != nil {
			if sg, _ := obs["sig"].(string); sg != "" {
				if sig != "" && sig != sg {
					sig += "+" + sg
				} else {
					sig = sg
				}
				w.Count("sig:" + sg)
			}
		}
		c := coqfmt.Case{Term: term, Input: ci, Observed: obs, Nontrivial: nt, Kind: kind, Direct: direct, Sig: sig}
		if direct != "" {
			c.Term = empty
		}
		w.Add(c)
		lv := "nil"
		if ci.Level != nil {
			lv = fmt.Sprint(*ci.Level)
		}
		bt := "nil"
		if ci.Bits != nil {
			bt = fmt.Sprint(*ci.Bits)
		}
		w.Count("level:" + lv)
		w.Count("bits:" + bt)
		w.Count("comp:" + ci.Comp)
		w.Count(fmt.Sprintf("writers:%d", len(ci.Writers)))
		w.Count(fmt.Sprintf("chunk:%d", ci.Conn.Chunk))
		if obs != nil {
			if u, _ := obs["readers_not_drained_to_eof"].(int); u > 0 {
				w.Count("cases-with-readers-not-drained-to-eof")
			}
		}
	}

	if *replay != "" {
		b, err := os.ReadFile(*replay)
		if err != nil {
			fmt.Fprintln(os.Stderr, err)
			os.Exit(2)
		}
		var rf struct {
			Input caseIn `json:"input"`
			Sig   string `json:"sig"`
		}
		if err := json.Unmarshal(b, &rf); err != nil {
			fmt.Fprintln(os.Stderr, err)
			os.Exit(2)
		}
		add(&rf.Input, "replay", true, rf.Sig)
		if err := w.Flush(*seed, *tier, "replay of one recorded case", false, nil); err != nil {
			fmt.Fprintln(os.Stderr, err)
			os.Exit(2)
		}
		return
	}

	r := rng.New(*seed)
	nSeq, nBig, nConc, nInc := 330, 6, 90, 24
	if *tier == "thorough" {
		nSeq, nBig, nConc, nInc = 4000, 120, 1200, 400
	}
	// the full grid of negotiated settings, one short run each: {"" , per-message, context-takeover}
	// x level {nil,0..9} x bits {nil,0,1,8,9,15,16,32}
	for _, comp := range []string{"", "per-message", "context-takeover"} {
		for lv := -1; lv <= 9; lv++ {
			for bi := -1; bi < len(bitsChoices); bi++ {
				if *tier != "thorough" && (lv == 3 || lv == 4 || lv == 7 || lv == 8) {
					continue
				}
				cr := r.Fork()
				ci := &caseIn{Comp: comp, BaseEn: cr.Bool(), BaseLevel: cr.Intn(10), BaseDCT: cr.Bool(), BaseBits: []int{0, 1, 3, 8}[cr.Intn(4)]}
				if lv >= 0 {
					ci.Level = ip(lv)
				}
				if bi >= 0 {
					ci.Bits = ip(bitsChoices[bi])
				}
				mode, W := effectiveWindow(ci)
				Wn := 64
				if mode == 2 && W <= 512 {
					Wn = int(W)
				}
				ci.Writers = [][][]c13util.Piece{genMessages(cr, Wn, 4, -1, 2600, Wn)}
				ci.Conn = genConn(cr, false)
				add(ci, "grid-"+[]string{"off", "per-message", "takeover"}[mode], mode == 2, "")
			}
		}
	}
	nAlias := 40
	aliasBits := []int{8, 8, 9, 9, 10, 10, 11, 12}
	if *tier == "thorough" {
		nAlias = 600
		aliasBits = []int{8, 9, 10, 11, 12, 13, 14, 15}
	}
	for i := 0; i < nSeq; i++ {
		if i%(nSeq/nAlias) == 1 { // aliasing cases (large windows: slow to judge) are spread over the shards
			cr := r.Fork()
			ci, kind, nt := genAliasing(cr, aliasBits, false)
			switch k := (i / (nSeq / nAlias)) % 16; {
			case k == 5: // a few at the largest windows also in the quick tier
				ci, kind, nt = genAliasing(r.Fork(), []int{13, 15}, false)
			case k%4 == 2: // a quarter: the long tail for the retaining caller
				lb := []int{8, 9}
				if *tier == "thorough" {
					lb = []int{8, 9, 10, 12}
				}
				ci, kind, nt = genAliasing(r.Fork(), lb, true)
			}
			add(ci, kind, nt, "")
		}
		cr := r.Fork()
		wm := []int{2, 2, 2, 2, 1, 0, -1}[cr.Intn(7)]
		ci, kind, nt := genSequential(cr, wm, false)
		add(ci, kind, nt, "")
		if i%(nSeq/nBig) == 0 { // big-window cases are spread over the shards
			cr := r.Fork()
			ci, kind, nt := genSequential(cr, 2, true)
			add(ci, kind, nt, "")
		}
	}
	// the minimal reproducer of F28: what DialConfig{CompressConfig: {Enable: true, Level: 6}} negotiates
	// (context takeover, window bits 0 = a 1-byte dictionary), one writer, "a" then 200 pseudo-random bytes
	add(&caseIn{Comp: "context-takeover", Level: ip(6), Bits: ip(0),
		Writers: [][][]c13util.Piece{{{{Kind: "lit", Bytes: []byte("a")}}, {{Kind: "rnd", Seed: 7, N: 200}}}}}, "takeover-minimal-incompressible", true, "")
	for i := 0; i < nInc; i++ {
		cr := r.Fork()
		ci, kind, nt := genIncompressible(cr)
		add(ci, kind, nt, "")
	}
	for i := 0; i < nConc; i++ {
		cr := r.Fork()
		wm := []int{2, 2, 2, 1, 0}[cr.Intn(5)]
		ci, kind, nt := genConcurrent(cr, wm)
		add(ci, kind, nt, "")
	}
	// a Conn that, like coder/nhooyr on a fragmented message (every message their own writer
	// produces), reports io.EOF only on a further Read and refuses the next Reader() until then:
	// the shape of the fixed finding F29 (regression)
	nStrict := 16
	if *tier == "thorough" {
		nStrict = 300
	}
	for i := 0; i < nStrict+*strict; i++ {
		cr := r.Fork()
		ci, kind, nt := genSequential(cr, []int{1, 2, 2, 0}[cr.Intn(4)], false)
		ci.Conn.Strict, ci.Conn.EOFSeparate = true, true
		add(ci, "strict-eof-"+kind, nt, "")
	}
	if *nGorilla < 0 {
		*nGorilla = 0
		if *tier == "thorough" {
			*nGorilla = 30
		}
	}
	for i := 0; i < *nGorilla; i++ {
		cr := r.Fork()
		ci := &caseIn{Loopback: "gorilla"}
		k := 2 + cr.Intn(3)
		for w := 0; w < k; w++ {
			var ms [][]c13util.Piece
			for j := 0; j < 40; j++ {
				ms = append(ms, []c13util.Piece{{Kind: "lit", Bytes: []byte{byte(w), byte(j)}}, {Kind: "rnd", Seed: cr.U64() % 2147483648, N: []int{1, 30, 300, 3000, 20000}[cr.Intn(5)]}})
			}
			ci.Writers = append(ci.Writers, ms)
		}
		add(ci, "gorilla-loopback-concurrent", true, sigGorilla)
	}
	rule := "grid: every negotiated setting {'',per-message,context-takeover} x clevel {nil,0..9} x cwinbits {nil,0,1,8,9,15,16,32} with random base config, 4 messages; sequential: 3-10 messages with sizes at 0..4, W-1, W, W+1, 2W-1, 2W, 2W+1, 3W+1 and random, content = pseudo-random runs interleaved with copies of earlier content from distances <=W, W, W+1, (W,2W], 2W; bigwin: windows 2^15, 2^16, 2^32 with messages up to 3W; smallwin-incompressible: ONE writer, window bits {0..6,8}, a short message then 2-4 pseudo-random messages of 40..3000 bytes (the shape of F28); concurrent: 2-4 writer goroutines, in-memory Conn whose Writer() yields/sleeps before taking the message lock; reader chunk sizes {whole,1,7,512,4096}, EOF with or after the last bytes; aliasing: ONE writer, takeover, level >= 2, windows 2^8..2^15, messages >= window each followed by small messages copying from the previous tail (a quarter with a long tail of 6x the message, for the retaining caller); caller discipline in EVERY case: each buffer passed to Write is overwritten as soon as Write returns, each message returned by Read is compared at once and then either overwritten over its whole capacity (half of the cases) or retained and compared again at the end of the case; strict-eof: sequential cases on a Conn that refuses Reader() until the previous message was read to io.EOF (coder/nhooyr rule). non-trivial = context-takeover with >=3 messages, or concurrent writers; distinct = distinct Coq case terms"
	if err := w.Flush(*seed, *tier, rule, false, nil); err != nil {
		fmt.Fprintln(os.Stderr, err)
		os.Exit(2)
	}
}

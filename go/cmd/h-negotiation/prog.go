// The "reuse" family: short programs over 2-4 NegotiationParams values of the REAL types
// (transport.NegotiationParams, and the websocket / webtransport / quic wrappers around it).
// Steps: a fresh literal, Validate, the four readers decoding INTO an existing value,
// CompressConfig.  After every step every value is inspected again (pointer fields dereferenced).
// The model evaluates the same program on VALUES (no pointers, no package state), so any sharing
// between separately built or validated sets, and any dependence of Validate on earlier calls,
// shows as a mismatch.
package main

import (
	"fmt"
	"net/url"

	"github.com/aptpod/iscp-go/transport"
	tquic "github.com/aptpod/iscp-go/transport/quic"
	tws "github.com/aptpod/iscp-go/transport/websocket"
	twt "github.com/aptpod/iscp-go/transport/webtransport"

	"verif/internal/coqfmt"
	"verif/internal/rng"
)

type jStep struct {
	Op   string    `json:"op"` // set | validate | kv | ws | wt | bin | config
	I    int       `json:"i"`
	P    *jP       `json:"p,omitempty"`    // set
	KV   [][2]bstr `json:"kv,omitempty"`   // kv, ws, wt (one value per key), bin (framed in this order)
	Base *jC       `json:"base,omitempty"` // config
}

func runProg(ci *caseIn, l *lits) (string, interface{}, bool) {
	env := make([]transport.NegotiationParams, ci.Slots)
	var stepsT, obsT []string
	type stepLog struct {
		Op  string `json:"op"`
		OK  bool   `json:"ok"`
		Env []*jP  `json:"env"`
	}
	var log []stepLog
	for _, st := range ci.Steps {
		a := &env[st.I]
		ok := true
		cfgT := "None"
		m := map[string]string{}
		var ps []pair
		for _, e := range st.KV {
			if _, dup := m[string(e[0])]; dup {
				continue
			}
			m[string(e[0])] = string(e[1])
			ps = append(ps, pair{e[0], e[1]})
		}
		urlT := func() string {
			var it []string
			for _, p := range ps {
				it = append(it, coqfmt.Pair(l.B(p.k), coqfmt.List([]string{l.B(p.v)})))
			}
			return coqfmt.List(it)
		}
		vals := func() url.Values {
			vs := url.Values{}
			for _, p := range ps {
				vs[string(p.k)] = []string{string(p.v)}
			}
			return vs
		}
		switch st.Op {
		case "set":
			*a = st.P.real() // a fresh literal with pointers of its own
			stepsT = append(stepsT, fmt.Sprintf("PSet %d %s", st.I, l.P(st.P)))
		case "validate":
			ok = a.Validate() == nil
			stepsT = append(stepsT, fmt.Sprintf("PValidate %d", st.I))
		case "kv":
			if err := a.UnmarshalKeyValues(m); err != nil {
				ok = false
				*a = transport.NegotiationParams{} // a partly decoded value is discarded
			}
			stepsT = append(stepsT, fmt.Sprintf("PKV %d %s", st.I, l.KVs(ps)))
		case "ws":
			w := tws.NegotiationParams{NegotiationParams: *a}
			if err := w.UnmarshalURLValues(vals()); err != nil {
				ok = false
				*a = transport.NegotiationParams{}
			} else {
				*a = w.NegotiationParams
			}
			stepsT = append(stepsT, fmt.Sprintf("PURLws %d %s", st.I, urlT()))
		case "wt":
			w := twt.NegotiationParams{NegotiationParams: *a}
			if err := w.UnmarshalURLValues(vals()); err != nil {
				ok = false
				*a = transport.NegotiationParams{}
			} else {
				*a = w.NegotiationParams
			}
			stepsT = append(stepsT, fmt.Sprintf("PURLwt %d %s", st.I, urlT()))
		case "bin":
			b := frame(ps)
			q := tquic.NegotiationParams{NegotiationParams: *a}
			if err := q.Unmarshal(b); err != nil {
				ok = false
				*a = transport.NegotiationParams{}
			} else {
				*a = q.NegotiationParams
			}
			stepsT = append(stepsT, fmt.Sprintf("PBin %d %s", st.I, l.B(b)))
		case "config":
			c := a.CompressConfig(st.Base.real())
			cfgT = "(Some " + C(&jC{Enable: c.Enable, Level: c.Level, DCT: c.DisableContextTakeover, Bits: c.WindowBits}) + ")"
			stepsT = append(stepsT, fmt.Sprintf("PConfig %d %s", st.I, C(st.Base)))
		default:
			panic("unknown program step " + st.Op)
		}
		// every value, as it is now
		var envT []string
		sl := stepLog{Op: st.Op, OK: ok}
		for j := range env {
			o := fromReal(&env[j])
			envT = append(envT, l.P(o))
			sl.Env = append(sl.Env, o)
		}
		log = append(log, sl)
		obsT = append(obsT, fmt.Sprintf("mkPO %s %s %s", coqfmt.Bool(ok), cfgT, coqfmt.List(envT)))
	}
	term := fmt.Sprintf("mkNegCase (InProg %d %s) (ObsProg %s)", ci.Slots, coqfmt.List(stepsT), coqfmt.List(obsT))
	return term, map[string]interface{}{"steps": log}, len(ci.Steps) >= 3
}

// ---- generators ----

func typeOnly(r *rng.R) *jP {
	return &jP{Comp: bstr(comps[1+r.Intn(2)]), Enc: bstr(encs[r.Intn(3)])}
}

func progSet(r *rng.R) *jP {
	switch r.Intn(6) {
	case 0, 1, 2:
		return typeOnly(r) // a type but no level: Validate fills in the default
	case 3:
		p := typeOnly(r)
		p.Level = ip(r.Intn(10))
		p.Bits = ip([]int{0, 8, 15, 32}[r.Intn(4)])
		return p
	case 4:
		return &jP{}
	default:
		p := typeOnly(r)
		p.Bits = ip(r.Intn(33))
		p.Tid = bstr("t-" + fmt.Sprint(r.Intn(100)))
		return p
	}
}

// progInput: a reader input with clevel / cwinbits / comp present or absent
func progInput(r *rng.R) [][2]bstr {
	var kv [][2]bstr
	if r.Chance(3, 4) {
		kv = append(kv, [2]bstr{bstr("clevel"), bstr([]string{"0", "1", "3", "5", "7", "9", "6", "10", "x"}[r.Intn(9)])})
	}
	if r.Chance(1, 3) {
		kv = append(kv, [2]bstr{bstr("cwinbits"), bstr([]string{"0", "8", "15", "32", "40"}[r.Intn(5)])})
	}
	if r.Chance(1, 3) {
		kv = append(kv, [2]bstr{bstr("comp"), bstr(comps[r.Intn(4)])})
	}
	if r.Chance(1, 4) {
		kv = append(kv, [2]bstr{bstr("tid"), bstr("peer-" + fmt.Sprint(r.Intn(10)))})
	}
	if r.Chance(1, 8) {
		kv = append(kv, [2]bstr{bstr("reconnect"), bstr([]string{"true", "false", "maybe"}[r.Intn(3)])})
	}
	return kv
}

var readers = []string{"kv", "ws", "wt", "bin"}

func genProg(r *rng.R) *caseIn {
	ci := &caseIn{T: "prog", Slots: 2 + r.Intn(3)}
	// start: some values are set and validated
	for i := 0; i < ci.Slots; i++ {
		if r.Chance(3, 4) {
			ci.Steps = append(ci.Steps, jStep{Op: "set", I: i, P: progSet(r)})
		}
	}
	n := 4 + r.Intn(7)
	for k := 0; k < n; k++ {
		i := r.Intn(ci.Slots)
		switch r.Intn(8) {
		case 0:
			ci.Steps = append(ci.Steps, jStep{Op: "set", I: i, P: progSet(r)})
		case 1, 2, 3:
			ci.Steps = append(ci.Steps, jStep{Op: "validate", I: i})
		case 4, 5:
			ci.Steps = append(ci.Steps, jStep{Op: readers[r.Intn(4)], I: i, KV: progInput(r)})
		default:
			b1, _ := bases(r)
			ci.Steps = append(ci.Steps, jStep{Op: "config", I: i, Base: b1})
		}
	}
	return ci
}

// scriptedProg: validate a set that names only a type; decode clevel=N into that same value;
// validate fresh sets naming only a type and derive their config; look at everything again.
func scriptedProg(r *rng.R, reader string, lv1, lv2 string) *caseIn {
	b1, b2 := bases(r)
	cl := func(v string) [][2]bstr { return [][2]bstr{{bstr("clevel"), bstr(v)}} }
	return &caseIn{T: "prog", Slots: 4, Steps: []jStep{
		{Op: "set", I: 0, P: typeOnly(r)}, {Op: "validate", I: 0},
		{Op: reader, I: 0, KV: cl(lv1)},
		{Op: "set", I: 1, P: typeOnly(r)}, {Op: "validate", I: 1}, {Op: "config", I: 1, Base: b1},
		{Op: "set", I: 2, P: typeOnly(r)}, {Op: "validate", I: 2},
		{Op: reader, I: 2, KV: cl(lv2)},
		{Op: "set", I: 3, P: typeOnly(r)}, {Op: "validate", I: 3}, {Op: "config", I: 3, Base: b2},
		{Op: "config", I: 1, Base: b2}, {Op: "config", I: 0, Base: b1},
	}}
}

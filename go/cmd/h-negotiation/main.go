// h-negotiation: correspondence harness for C17 (negotiation parameters) against
// Model/Negotiation.v.  Drives the real transport.NegotiationParams (Validate, CompressConfig,
// MarshalKeyValues/UnmarshalKeyValues), the quic binary carrier, the websocket and
// webtransport URL-value carriers (through url.Values.Encode / url.ParseQuery, as a dial
// does) and DialConfig.NegotiationParams, and records every case as a Coq term.
package main

import (
	"encoding/hex"
	"encoding/json"
	"flag"
	"fmt"
	"net/url"
	"os"
	"sort"
	"runtime"
	"strings"
	"sync"
	"sync/atomic"
	"time"
	"unicode/utf8"

	"github.com/aptpod/iscp-go/transport"
	"github.com/aptpod/iscp-go/transport/compress"
	tquic "github.com/aptpod/iscp-go/transport/quic"
	tws "github.com/aptpod/iscp-go/transport/websocket"
	twt "github.com/aptpod/iscp-go/transport/webtransport"

	"verif/internal/coqfmt"
	"verif/internal/rng"
)

// ---------- byte strings in replay files: JSON text when that is lossless, else hex ----------

type bstr []byte

func (b bstr) MarshalJSON() ([]byte, error) {
	if utf8.Valid(b) && len(b) < 200 {
		return json.Marshal(string(b))
	}
	return json.Marshal(map[string]string{"hex": hex.EncodeToString(b)})
}

func (b *bstr) UnmarshalJSON(data []byte) error {
	var s string
	if err := json.Unmarshal(data, &s); err == nil {
		*b = bstr(s)
		return nil
	}
	var m map[string]string
	if err := json.Unmarshal(data, &m); err != nil {
		return err
	}
	x, err := hex.DecodeString(m["hex"])
	*b = x
	return err
}

type jP struct {
	Enc       bstr `json:"enc"`
	Comp      bstr `json:"comp"`
	Level     *int `json:"level"`
	Bits      *int `json:"bits"`
	Tid       bstr `json:"tid"`
	Reconnect bool `json:"reconnect"`
	Tgid      bstr `json:"tgid"`
	Tgcount   int  `json:"tgcount"`
	Tgidx     int  `json:"tgidx"`
}

type jC struct {
	Enable bool `json:"enable"`
	Level  int  `json:"level"`
	DCT    bool `json:"dct"`
	Bits   int  `json:"bits"`
}

type jDial struct {
	Comp      jC   `json:"comp"`
	Enc       bstr `json:"enc"`
	Tid       bstr `json:"tid"`
	Reconnect bool `json:"reconnect"`
	Tgid      bstr `json:"tgid"`
	Tgcount   int  `json:"tgcount"`
	Tgidx     int  `json:"tgidx"`
}

type urlEnt struct {
	K bstr   `json:"k"`
	V []bstr `json:"v"`
}

type caseIn struct {
	T    string    `json:"t"` // params | kv | url | bin | dial
	P    *jP       `json:"p,omitempty"`
	B1   *jC       `json:"base1,omitempty"`
	B2   *jC       `json:"base2,omitempty"`
	Perm []int     `json:"perm,omitempty"`
	Init *jP       `json:"init,omitempty"`
	KV   [][2]bstr `json:"kv,omitempty"`
	URL  []urlEnt  `json:"url,omitempty"`
	Bin  bstr      `json:"bin,omitempty"`
	Dial *jDial    `json:"dial,omitempty"`
	// Group > 0: the set was marshalled as one of Group sets whose results were all RETAINED and
	// only looked at after the last Marshal (replaying it alone marshals just this one)
	Group int `json:"retained_group,omitempty"`
	// prog (prog.go): a program over Slots values
	Slots int     `json:"slots,omitempty"`
	Steps []jStep `json:"steps,omitempty"`
	pre   *marshalled
}

// marshalled holds what the four writers returned for one set - the very values, no copies.
type marshalled struct {
	kvm  map[string]string
	wsv  url.Values
	wtv  url.Values
	bin  []byte
	merr int // which Marshal call returned an error: bit 1 kv, 2 websocket URL, 4 webtransport URL, 8 quic
}

func marshalAll(p *jP) *marshalled {
	m := &marshalled{}
	var err error
	rp := p.real()
	if m.kvm, err = rp.MarshalKeyValues(); err != nil {
		m.merr |= 1
		m.kvm = nil
	}
	ws := tws.NegotiationParams{NegotiationParams: p.real()}
	if m.wsv, err = ws.MarshalURLValues(); err != nil {
		m.merr |= 2
		m.wsv = nil
	}
	wt := twt.NegotiationParams{NegotiationParams: p.real()}
	if m.wtv, err = wt.MarshalURLValues(); err != nil {
		m.merr |= 4
		m.wtv = nil
	}
	q := tquic.NegotiationParams{NegotiationParams: p.real()}
	if m.bin, err = q.Marshal(); err != nil {
		m.merr |= 8
		m.bin = nil
	}
	return m
}

func ip(v int) *int { return &v }

func (p *jP) real() transport.NegotiationParams {
	r := transport.NegotiationParams{
		Encoding: transport.EncodingName(p.Enc), Compress: compress.Type(p.Comp),
		TransportID: transport.TransportID(p.Tid), Reconnect: p.Reconnect,
		TransportGroupID: transport.TransportGroupID(p.Tgid), TransportGroupTotalCount: p.Tgcount,
		TransportGroupIndex: p.Tgidx,
	}
	if p.Level != nil {
		r.CompressLevel = ip(*p.Level)
	}
	if p.Bits != nil {
		r.CompressWindowBits = ip(*p.Bits)
	}
	return r
}

func fromReal(r *transport.NegotiationParams) *jP {
	p := &jP{Enc: bstr(r.Encoding), Comp: bstr(r.Compress), Tid: bstr(r.TransportID), Reconnect: r.Reconnect,
		Tgid: bstr(r.TransportGroupID), Tgcount: r.TransportGroupTotalCount, Tgidx: r.TransportGroupIndex}
	if r.CompressLevel != nil {
		p.Level = ip(*r.CompressLevel)
	}
	if r.CompressWindowBits != nil {
		p.Bits = ip(*r.CompressWindowBits)
	}
	return p
}

func (c *jC) real() compress.Config {
	return compress.Config{Enable: c.Enable, Level: c.Level, DisableContextTakeover: c.DCT, WindowBits: c.Bits}
}

// ---------- Coq term printing ----------

// lits hoists long literals of one case into let-bindings (pure textual sharing).
type lits struct {
	names map[string]string
	defs  []string
}

func (l *lits) chunk(lit string) string {
	if len(lit) < 160 {
		return lit
	}
	if n, ok := l.names[lit]; ok {
		return n
	}
	if l.names == nil {
		l.names = map[string]string{}
	}
	n := fmt.Sprintf("v%d", len(l.defs))
	l.names[lit] = n
	l.defs = append(l.defs, fmt.Sprintf("let %s := %s in ", n, lit))
	return n
}

func (l *lits) wrap(term string) string {
	if len(l.defs) == 0 {
		return term
	}
	return "(" + strings.Join(l.defs, "") + term + ")"
}

func printable(c byte) bool { return c >= 0x20 && c <= 0x7e }

// B prints a byte string: printable runs as (s2b "..."), the rest as (bl [..]).
func (l *lits) B(b []byte) string {
	if len(b) == 0 {
		return "[]"
	}
	type run struct {
		pr   bool
		data []byte
	}
	var runs []run
	for i := 0; i < len(b); {
		j := i
		for j < len(b) && printable(b[j]) == printable(b[i]) {
			j++
		}
		pr := printable(b[i])
		if pr && j-i < 5 && !(i == 0 && j == len(b)) {
			pr = false
		}
		if len(runs) > 0 && runs[len(runs)-1].pr == pr {
			runs[len(runs)-1].data = append(runs[len(runs)-1].data, b[i:j]...)
		} else {
			runs = append(runs, run{pr, append([]byte(nil), b[i:j]...)})
		}
		i = j
	}
	var parts []string
	for _, r := range runs {
		// long literals are cut into pieces (coqc's stack does not survive a 65k-deep term)
		for off := 0; off < len(r.data); off += 1500 {
			end := off + 1500
			if end > len(r.data) {
				end = len(r.data)
			}
			if r.pr {
				parts = append(parts, l.chunk("(s2b "+coqfmt.Str(string(r.data[off:end]))+")"))
			} else {
				parts = append(parts, l.chunk("(bl "+coqfmt.Bytes(r.data[off:end])+")"))
			}
		}
	}
	if len(parts) == 1 {
		return parts[0]
	}
	return "(" + strings.Join(parts, " ++ ") + ")%list"
}

func Z(v int) string { return fmt.Sprintf("(%d)%%Z", v) }

func OZ(v *int) string {
	if v == nil {
		return "None"
	}
	return "(Some " + Z(*v) + ")"
}

func (l *lits) P(p *jP) string {
	return fmt.Sprintf("(mkP %s %s %s %s %s %s %s %s %s)", l.B(p.Enc), l.B(p.Comp), OZ(p.Level), OZ(p.Bits),
		l.B(p.Tid), coqfmt.Bool(p.Reconnect), l.B(p.Tgid), Z(p.Tgcount), Z(p.Tgidx))
}

func (l *lits) OP(p *jP) string {
	if p == nil {
		return "None"
	}
	return "(Some " + l.P(p) + ")"
}

func C(c *jC) string {
	return fmt.Sprintf("(mkC %s %s %s %s)", coqfmt.Bool(c.Enable), Z(c.Level), coqfmt.Bool(c.DCT), Z(c.Bits))
}

type pair struct{ k, v []byte }

func sortedPairs(m map[string]string) []pair {
	var ps []pair
	for k, v := range m {
		ps = append(ps, pair{[]byte(k), []byte(v)})
	}
	sort.Slice(ps, func(i, j int) bool { return string(ps[i].k) < string(ps[j].k) })
	return ps
}

func (l *lits) KVs(ps []pair) string {
	var it []string
	for _, p := range ps {
		it = append(it, coqfmt.Pair(l.B(p.k), l.B(p.v)))
	}
	return coqfmt.List(it)
}

func (l *lits) URL(vs url.Values) string {
	var keys []string
	for k := range vs {
		keys = append(keys, k)
	}
	sort.Strings(keys)
	var it []string
	for _, k := range keys {
		var vals []string
		for _, v := range vs[k] {
			vals = append(vals, l.B([]byte(v)))
		}
		it = append(it, coqfmt.Pair(l.B([]byte(k)), coqfmt.List(vals)))
	}
	return coqfmt.List(it)
}

// frame is the harness's own writer of the binary form (used to build inputs for the reader).
func frame(ps []pair) []byte {
	var out []byte
	for _, p := range ps {
		out = append(out, byte(len(p.k)>>8), byte(len(p.k)))
		out = append(out, p.k...)
		out = append(out, byte(len(p.v)>>8), byte(len(p.v)))
		out = append(out, p.v...)
	}
	return out
}

// ---------- running one case on the real code ----------

func unmarshalKV(init *jP, m map[string]string) *jP {
	r := init.real()
	if err := r.UnmarshalKeyValues(m); err != nil {
		return nil
	}
	return fromReal(&r)
}

func unmarshalWS(init *jP, vs url.Values) *jP {
	r := tws.NegotiationParams{NegotiationParams: init.real()}
	if err := r.UnmarshalURLValues(vs); err != nil {
		return nil
	}
	return fromReal(&r.NegotiationParams)
}

func unmarshalWT(init *jP, vs url.Values) *jP {
	r := twt.NegotiationParams{NegotiationParams: init.real()}
	if err := r.UnmarshalURLValues(vs); err != nil {
		return nil
	}
	return fromReal(&r.NegotiationParams)
}

func unmarshalBin(b []byte) *jP {
	r := tquic.NegotiationParams{}
	if err := r.Unmarshal(append([]byte(nil), b...)); err != nil {
		return nil
	}
	return fromReal(&r.NegotiationParams)
}

// throughQuery sends URL values over the path a dial uses: Encode into a query, parse back.
func throughQuery(vs url.Values) (url.Values, bool) {
	out, err := url.ParseQuery(vs.Encode())
	if err != nil {
		return nil, false
	}
	return out, true
}

var zeroP = &jP{}

func runCase(ci *caseIn) (term string, observed interface{}, nontrivial bool, sig string) {
	l := &lits{}
	switch ci.T {
	case "params":
		p := ci.P
		// Validate on a copy
		vc := p.real()
		var vld *jP
		verr := vc.Validate()
		if verr == nil {
			vld = fromReal(&vc)
		}
		// a Marshal error is an observation (MarshalKeyValues - and with it every writer - for text
		// that is not UTF-8; the quic writer also for a key or value over 65535 bytes).
		// The results are used as the writers returned them (possibly long ago: retained group)
		mr := ci.pre
		if mr == nil {
			mr = marshalAll(p)
			if ci.Group > 0 {
				// replay of a member of a retained group: the other members are marshalled (and
				// kept) after this one, before its results are looked at
				var keep []*marshalled
				gr := rng.New(uint64(ci.Group))
				for i := 0; i < ci.Group; i++ {
					keep = append(keep, marshalAll(distinctParams(gr, fmt.Sprintf("transport-%04d", i))))
				}
				runtime.KeepAlive(keep)
			}
		}
		merr, kvm, wsv, wtv, bin := mr.merr, mr.kvm, mr.wsv, mr.wtv, mr.bin
		kv := sortedPairs(kvm)
		var rtKV, rtWS, rtWT, rtBin *jP
		if merr&1 == 0 {
			rtKV = unmarshalKV(zeroP, kvm)
		}
		if v, ok := throughQuery(wsv); ok && merr&2 == 0 {
			rtWS = unmarshalWS(zeroP, v)
		}
		if v, ok := throughQuery(wtv); ok && merr&4 == 0 {
			rtWT = unmarshalWT(zeroP, v)
		}
		if merr&8 == 0 {
			rtBin = unmarshalBin(bin)
		}
		perm := ci.Perm
		if len(perm) != len(kv) {
			perm = nil
			for i := range kv {
				perm = append(perm, i)
			}
		}
		var pp []pair
		for _, i := range perm {
			pp = append(pp, kv[i])
		}
		var pbin []byte
		var rtPerm *jP
		if merr&1 == 0 { // nothing to re-frame when MarshalKeyValues failed
			pbin = frame(pp)
			rtPerm = unmarshalBin(pbin)
		}
		r1, r2 := p.real(), p.real()
		c1 := r1.CompressConfig(ci.B1.real())
		c2 := r2.CompressConfig(ci.B2.real())
		jc := func(c compress.Config) *jC {
			return &jC{Enable: c.Enable, Level: c.Level, DCT: c.DisableContextTakeover, Bits: c.WindowBits}
		}
		term = fmt.Sprintf("mkNegCase (InParams %s %s %s) (ObsParams %s %s %s %s %s %s %s %s %s %s %s %s %s %d)",
			l.P(p), C(ci.B1), C(ci.B2),
			l.OP(vld), l.KVs(kv), l.URL(wsv), l.URL(wtv), l.B(bin),
			l.OP(rtKV), l.OP(rtWS), l.OP(rtWT), l.OP(rtBin), l.B(pbin), l.OP(rtPerm), C(jc(c1)), C(jc(c2)), merr)
		same := func(a *jP) bool { return a != nil && l.P(a) == l.P(p) }
		observed = map[string]interface{}{"validate_ok": verr == nil, "pairs": len(kv), "bin_len": len(bin), "marshal_errors": merr,
			"roundtrip_same": []bool{same(rtKV), same(rtWS), same(rtWT), same(rtBin), same(rtPerm)},
			"cfg1": jc(c1), "cfg2": jc(c2)}
		nontrivial = len(kv) >= 2 || verr != nil
		if ci.Group > 0 {
			observed.(map[string]interface{})["retained_group"] = ci.Group
		}
		// hostile-but-legal caller: what Marshal returned is the caller's - it is overwritten now
		for i := range bin {
			bin[i] = 0xA5
		}
		for k := range kvm {
			kvm[k] = "\xa5"
		}
		for k := range wsv {
			wsv[k] = []string{"\xa5", "\xa5"}
		}
		for k := range wtv {
			wtv[k] = []string{"\xa5", "\xa5"}
		}
	case "kv":
		m := map[string]string{}
		var ps []pair
		for _, e := range ci.KV {
			if _, dup := m[string(e[0])]; dup {
				continue
			}
			m[string(e[0])] = string(e[1])
			ps = append(ps, pair{e[0], e[1]})
		}
		init := ci.Init
		if init == nil {
			init = zeroP
		}
		vs := url.Values{}
		for k, v := range m {
			vs[k] = []string{v}
		}
		rkv := unmarshalKV(init, m)
		rws := unmarshalWS(init, vs)
		rwt := unmarshalWT(init, vs)
		term = fmt.Sprintf("mkNegCase (InKV %s %s) (ObsKV %s %s %s)", l.P(init), l.KVs(ps), l.OP(rkv), l.OP(rws), l.OP(rwt))
		observed = map[string]interface{}{"kv": rkv, "ws": rws, "wt": rwt}
		nontrivial = len(ps) > 0
	case "url":
		vs := url.Values{}
		var it []string
		for _, e := range ci.URL {
			if _, dup := vs[string(e.K)]; dup {
				continue
			}
			var vals []string
			var valsT []string
			for _, v := range e.V {
				vals = append(vals, string(v))
				valsT = append(valsT, l.B(v))
			}
			if vals == nil {
				vals = []string{}
			}
			vs[string(e.K)] = vals
			it = append(it, coqfmt.Pair(l.B(e.K), coqfmt.List(valsT)))
		}
		rws := unmarshalWS(zeroP, vs)
		rwt := unmarshalWT(zeroP, vs)
		term = fmt.Sprintf("mkNegCase (InURL %s) (ObsURL %s %s)", coqfmt.List(it), l.OP(rws), l.OP(rwt))
		observed = map[string]interface{}{"ws": rws, "wt": rwt}
		nontrivial = len(it) > 0
	case "bin":
		r := unmarshalBin(ci.Bin)
		term = fmt.Sprintf("mkNegCase (InBin %s) (ObsBin %s)", l.B(ci.Bin), l.OP(r))
		observed = map[string]interface{}{"quic": r}
		nontrivial = len(ci.Bin) >= 5
	case "prog":
		term, observed, nontrivial = runProg(ci, l)
	case "dial":
		d := ci.Dial
		dc := transport.DialConfig{CompressConfig: d.Comp.real(), EncodingName: transport.EncodingName(d.Enc),
			TransportID: transport.TransportID(d.Tid), Reconnect: d.Reconnect,
			TransportGroupID: transport.TransportGroupID(d.Tgid), TransportGroupTotalCount: d.Tgcount, TransportGroupIndex: d.Tgidx}
		np := dc.NegotiationParams()
		o := fromReal(&np)
		term = fmt.Sprintf("mkNegCase (InDial (mkDC %s %s %s %s %s %s %s)) (ObsDial %s)", C(&d.Comp), l.B(d.Enc), l.B(d.Tid),
			coqfmt.Bool(d.Reconnect), l.B(d.Tgid), Z(d.Tgcount), Z(d.Tgidx), l.P(o))
		observed = o
		nontrivial = true
	default:
		panic("unknown case type " + ci.T)
	}
	return l.wrap(term), observed, nontrivial, sig
}

// (The findings F25, F26, F27 are fixed in /repo; their generators - long texts, text that is
// not UTF-8, level / window bits out of range without a type - stay as regression cases and
// carry no signature: a flagged case is a new failure.)

const dummyTerm = "mkNegCase (InBin []) (ObsBin (Some p0))"

// guarded runs one case under a watchdog and converts a panic or a hang into a direct finding.
func guarded(ci *caseIn) (term string, observed interface{}, nt bool, sig, direct string) {
	type res struct {
		term   string
		obs    interface{}
		nt     bool
		sig    string
		direct string
	}
	ch := make(chan res, 1)
	go func() {
		defer func() {
			if r := recover(); r != nil {
				ch <- res{direct: fmt.Sprintf("panic: %v", r)}
			}
		}()
		t, o, n, s := runCase(ci)
		ch <- res{term: t, obs: o, nt: n, sig: s}
	}()
	select {
	case r := <-ch:
		return r.term, r.obs, r.nt, r.sig, r.direct
	case <-time.After(60 * time.Second):
		return "", nil, false, "", "library call did not return within 60 s"
	}
}

// ---------- generators ----------

var encs = []string{"", "json", "proto", "xml"}
var comps = []string{"", "per-message", "context-takeover", "gzip"}
var levels = []*int{nil, ip(-1), ip(0), ip(1), ip(2), ip(3), ip(4), ip(5), ip(6), ip(7), ip(8), ip(9), ip(10)}
var bitss = []*int{nil, ip(-1), ip(0), ip(1), ip(8), ip(15), ip(32), ip(33)}

type group struct {
	tid, tgid  string
	cnt, idx   int
}

var groups = []group{{}, {tid: "7c9e6679-7425-40de-944b-e07fc1f90ae7"}, {tgid: "grp-1", cnt: 3, idx: 2}, {tid: "t1", tgid: "g", cnt: 2, idx: 0}}

func bases(r *rng.R) (*jC, *jC) {
	b1 := &jC{Enable: r.Bool(), Level: 1 + r.Intn(9), DCT: r.Bool(), Bits: r.Intn(33)}
	b2 := &jC{Enable: !b1.Enable, Level: 1 + (b1.Level+r.Intn(8))%9, DCT: !b1.DCT, Bits: (b1.Bits + 1 + r.Intn(31)) % 33}
	if r.Chance(1, 6) {
		b2.Level = -1
	}
	return b1, b2
}

func gridCase(r *rng.R, e, c string, lv, bt *int, rc bool, g group) *caseIn {
	p := &jP{Enc: bstr(e), Comp: bstr(c), Level: lv, Bits: bt, Tid: bstr(g.tid), Reconnect: rc, Tgid: bstr(g.tgid), Tgcount: g.cnt, Tgidx: g.idx}
	b1, b2 := bases(r)
	return &caseIn{T: "params", P: p, B1: b1, B2: b2, Perm: r.Perm(countPairs(p))}
}

// distinctParams: a valid set that names everything, with the given (distinct) transport id and
// fields of varying length.
func distinctParams(r *rng.R, tid string) *jP {
	p := &jP{Enc: bstr(encs[1+r.Intn(2)]), Comp: bstr(comps[1+r.Intn(2)]), Level: ip(r.Intn(10)), Bits: ip(r.Intn(33)),
		Tid: bstr(tid), Reconnect: r.Bool()}
	if r.Bool() {
		p.Tgid = bstr("group-" + strings.Repeat("x", r.Intn(12)))
		p.Tgcount = 1 + r.Intn(9)
		p.Tgidx = r.Intn(9)
	}
	if r.Chance(1, 4) {
		p.Tid = bstr(tid + strings.Repeat("-pad", r.Intn(40)))
	}
	return p
}

// concurrentRoundTrips: each goroutine marshals its own sets on every carrier, yields, and then
// decodes ITS OWN results.  Returns the first anomaly as a params case whose observations are the
// values as they were when the anomaly was seen.
func concurrentRoundTrips(r *rng.R, workers, iters int) (*caseIn, int) {
	var once sync.Once
	var anomaly *caseIn
	var wg sync.WaitGroup
	var stop int32
	seeds := make([]uint64, workers)
	for i := range seeds {
		seeds[i] = r.U64()
	}
	b1, b2 := bases(r)
	for g := 0; g < workers; g++ {
		wg.Add(1)
		go func(g int) {
			defer wg.Done()
			defer func() {
				if rec := recover(); rec != nil {
					once.Do(func() {
						anomaly = &caseIn{T: "params", P: distinctParams(rng.New(1), "panic"), B1: b1, B2: b2,
							pre: &marshalled{merr: 15}}
						fmt.Fprintf(os.Stderr, "panic in concurrent round trip: %v\n", rec)
					})
				}
			}()
			cr := rng.New(seeds[g])
			l := &lits{}
			for i := 0; i < iters && atomic.LoadInt32(&stop) == 0; i++ {
				p := distinctParams(cr, fmt.Sprintf("w%d-%06d", g, i))
				m := marshalAll(p)
				runtime.Gosched()
				want := l.P(p)
				okAll := m.merr == 0
				if okAll {
					rb := unmarshalBin(m.bin)
					rk := unmarshalKV(zeroP, m.kvm)
					rw := unmarshalWS(zeroP, m.wsv)
					rt := unmarshalWT(zeroP, m.wtv)
					okAll = rb != nil && rk != nil && rw != nil && rt != nil &&
						l.P(rb) == want && l.P(rk) == want && l.P(rw) == want && l.P(rt) == want
				}
				if !okAll {
					once.Do(func() {
						atomic.StoreInt32(&stop, 1)
						cp := *m
						cp.bin = append([]byte(nil), m.bin...)
						anomaly = &caseIn{T: "params", P: p, B1: b1, B2: b2, pre: &cp}
					})
					return
				}
			}
		}(g)
	}
	wg.Wait()
	return anomaly, workers * iters
}

func countPairs(p *jP) int {
	n := 0
	for _, b := range []bool{len(p.Enc) > 0, len(p.Comp) > 0, p.Level != nil, p.Bits != nil, len(p.Tid) > 0, p.Reconnect, len(p.Tgid) > 0, p.Tgcount != 0, p.Tgidx != 0} {
		if b {
			n++
		}
	}
	return n
}

var oddStrings = []string{"a\"b\\c", "<script>&amp;", "line\nbreak\ttab\x00nul\x1f", "  ", "日本語テキスト", "emoji \U0001F600!", "café",
	"\xff", "ok\xc3", "\xed\xa0\x80", "\xe2\x82", "\xf4\x90\x80\x80", "\xc0\xaf", "a\xffb\xfec", "�", "null", "true", " spaced out ", "k=v&x=y?#%20+", "%zz", ";",
	"7c9e6679-7425-40de-944b-e07fc1f90ae7", "ſ", "K"}

var bigInts = []int{1, -1, 42, -42, 1 << 31, -(1 << 31), 1<<63 - 1, -1 << 63, 1000000007, 10, 100, -100}

func randString(r *rng.R) string {
	switch r.Intn(6) {
	case 0:
		return ""
	case 1, 2:
		return oddStrings[r.Intn(len(oddStrings))]
	case 3:
		return string(r.Bytes(1 + r.Intn(6)))
	case 4:
		return oddStrings[r.Intn(len(oddStrings))] + oddStrings[r.Intn(len(oddStrings))]
	default:
		b := make([]byte, 1+r.Intn(12))
		for i := range b {
			b[i] = byte(0x20 + r.Intn(0x5f))
		}
		return string(b)
	}
}

func randInt(r *rng.R) int {
	switch r.Intn(4) {
	case 0:
		return 0
	case 1:
		return bigInts[r.Intn(len(bigInts))]
	case 2:
		return r.Intn(40) - 5
	default:
		return int(r.U64())
	}
}

func randParams(r *rng.R) *jP {
	p := &jP{}
	if r.Chance(3, 4) {
		p.Enc = bstr(encs[r.Intn(3)])
	} else {
		p.Enc = bstr(randString(r))
	}
	if r.Chance(3, 4) {
		p.Comp = bstr(comps[r.Intn(3)])
	} else {
		p.Comp = bstr(randString(r))
	}
	if r.Chance(3, 4) {
		v := randInt(r)
		if r.Bool() {
			v = r.Intn(10)
		}
		p.Level = &v
	}
	if r.Chance(3, 4) {
		v := randInt(r)
		if r.Bool() {
			v = r.Intn(33)
		}
		p.Bits = &v
	}
	p.Tid = bstr(randString(r))
	p.Reconnect = r.Bool()
	p.Tgid = bstr(randString(r))
	p.Tgcount = randInt(r)
	p.Tgidx = randInt(r)
	return p
}

var nameKeys = []string{"enc", "comp", "clevel", "cwinbits", "tid", "reconnect", "tgid", "tgcount", "tgidx"}
var oddKeys = []string{"ENC", "Enc", "Comp", "CLEVEL", "cLevel", "CWinBits", "cwinbitſ", "CWINBITſ", "TID", "Reconnect", "RECONNECT", "TgId", "TGCOUNT", "tgCount", "TgIdx",
	"", "foo", "x-y", "enc ", " enc", "encoding", "level", "\xff", "enc\xff", "ключ", "K", "reconnect\x00", "clevel=", "a", "b"}
var numVals = []string{"0", "5", "9", "10", "-1", "007", "-0", "+5", "", " 5", "5 ", "1e3", "1.5", "0x10", "null", "NULL", "nul", "nulll", "true", "false",
	"9223372036854775807", "9223372036854775808", "-9223372036854775808", "-9223372036854775809", "99999999999999999999999", "\"5\"", "５", "-", "--1", "1_000", "6", "15", "32", "33", "0000000000000000000000012", "٣", "5\xff", "\xff"}
var boolVals = []string{"true", "false", "true", "false", "TRUE", "True", "1", "0", "", "t", "null", "yes", "true ", "\"true\""}

func randKV(r *rng.R) (kv [][2]bstr) {
	n := r.Intn(7)
	seen := map[string]bool{}
	for i := 0; i < n; i++ {
		var k string
		switch {
		case r.Chance(3, 5):
			k = nameKeys[r.Intn(len(nameKeys))]
		case r.Chance(3, 4):
			k = oddKeys[r.Intn(len(oddKeys))]
		default:
			k = randString(r)
		}
		if seen[k] {
			continue
		}
		seen[k] = true
		lk := strings.ToLower(strings.ReplaceAll(k, "ſ", "s"))
		var v string
		switch lk {
		case "clevel", "cwinbits", "tgcount", "tgidx":
			if r.Chance(1, 2) {
				v = fmt.Sprintf("%d", r.Intn(34))
			} else {
				v = numVals[r.Intn(len(numVals))]
			}
		case "reconnect":
			v = boolVals[r.Intn(len(boolVals))]
		case "enc":
			v = encs[r.Intn(len(encs))]
		case "comp":
			v = comps[r.Intn(len(comps))]
		default:
			switch r.Intn(3) {
			case 0:
				v = numVals[r.Intn(len(numVals))]
			default:
				v = randString(r)
			}
		}
		kv = append(kv, [2]bstr{bstr(k), bstr(v)})
	}
	return kv
}

// okForBin reports whether the harness can frame the map (lengths fit 16 bits); always true here.
func pairsOf(kv [][2]bstr) []pair {
	var ps []pair
	for _, e := range kv {
		ps = append(ps, pair{e[0], e[1]})
	}
	return ps
}

func mutateBin(r *rng.R, ps []pair) ([]byte, string) {
	b := frame(ps)
	switch r.Intn(9) {
	case 0: // truncated anywhere
		if len(b) > 0 {
			return b[:r.Intn(len(b))], "truncated"
		}
		return b, "wellformed"
	case 1: // a pair twice
		if len(ps) > 0 {
			i := r.Intn(len(ps))
			q := append(append([]pair(nil), ps...), pair{ps[i].k, []byte(randString(r))})
			pm := r.Perm(len(q))
			var qq []pair
			for _, j := range pm {
				qq = append(qq, q[j])
			}
			return frame(qq), "duplicate-key"
		}
		return b, "wellformed"
	case 2: // an empty key somewhere
		q := append(append([]pair(nil), ps...), pair{nil, []byte("v")})
		pm := r.Perm(len(q))
		var qq []pair
		for _, j := range pm {
			qq = append(qq, q[j])
		}
		return frame(qq), "empty-key"
	case 3: // one byte made invalid UTF-8
		if len(b) > 0 {
			c := append([]byte(nil), b...)
			c[r.Intn(len(c))] = []byte{0xff, 0xc0, 0x80, 0xfe, 0xed}[r.Intn(5)]
			return c, "byte-smashed"
		}
		return b, "wellformed"
	case 4: // trailing garbage
		return append(append([]byte(nil), b...), r.Bytes(1+r.Intn(3))...), "trailing"
	case 5: // a length prefix changed
		if len(ps) > 0 {
			c := append([]byte(nil), b...)
			// walk to a random prefix
			off := 0
			target := r.Intn(2 * len(ps))
			for i, p := range ps {
				if target == 2*i {
					break
				}
				off += 2 + len(p.k)
				if target == 2*i+1 {
					break
				}
				off += 2 + len(p.v)
			}
			if off+1 < len(c) {
				switch r.Intn(3) {
				case 0:
					c[off+1]++
				case 1:
					c[off+1]--
				default:
					c[off] = byte(r.Intn(3))
					c[off+1] = byte(r.U64())
				}
			}
			return c, "length-changed"
		}
		return b, "wellformed"
	default:
		return b, "wellformed"
	}
}

func validishPairs(r *rng.R) []pair {
	if r.Chance(1, 2) {
		// the pairs of a random (mostly valid) parameter set, as the real code emits them
		p := randParams(r)
		if r.Chance(2, 3) {
			p.Tid, p.Tgid = bstr("t-1"), nil
			p.Enc, p.Comp = bstr(encs[r.Intn(3)]), bstr(comps[r.Intn(3)])
		}
		rp := p.real()
		m, _ := rp.MarshalKeyValues()
		ps := sortedPairs(m)
		pm := r.Perm(len(ps))
		var out []pair
		for _, j := range pm {
			out = append(out, ps[j])
		}
		return out
	}
	return pairsOf(randKV(r))
}

func enumBytes(alpha []byte, maxLen int, f func([]byte)) {
	var rec func(cur []byte)
	rec = func(cur []byte) {
		f(append([]byte(nil), cur...))
		if len(cur) == maxLen {
			return
		}
		for _, a := range alpha {
			rec(append(cur, a))
		}
	}
	rec(nil)
}

func main() {
	seed := flag.Uint64("seed", 1, "seed")
	tier := flag.String("tier", "quick", "quick|thorough")
	out := flag.String("out", "", "output directory")
	replay := flag.String("replay", "", "replay file (JSON with an 'input' field)")
	flag.Parse()
	w := coqfmt.NewWriter(*out, "C17", "From Iscp Require Import Model.Negotiation.", "neg_case", "neg_judge", 200)

	add := func(ci *caseIn, kind string) {
		term, obs, nt, sig, direct := guarded(ci)
		c := coqfmt.Case{Term: term, Input: ci, Observed: obs, Nontrivial: nt, Kind: kind, Direct: direct, Sig: sig}
		if direct != "" {
			c.Term = dummyTerm
		}
		w.Add(c)
		w.Count("type:" + ci.T)
		if ci.T == "params" {
			if m, ok := obs.(map[string]interface{}); ok {
				w.Count(fmt.Sprintf("validate_ok:%v", m["validate_ok"]))
				w.Count(fmt.Sprintf("pairs:%v", m["pairs"]))
			}
		}
		if ci.T == "bin" || ci.T == "kv" || ci.T == "url" {
			acc := false
			if m, ok := obs.(map[string]interface{}); ok {
				for _, v := range m {
					if p, ok := v.(*jP); ok && p != nil {
						acc = true
					}
				}
			}
			w.Count(fmt.Sprintf("%s-accepted:%v", ci.T, acc))
		}
	}

	if *replay != "" {
		b, err := os.ReadFile(*replay)
		if err != nil {
			fmt.Fprintln(os.Stderr, err)
			os.Exit(2)
		}
		var rf struct {
			Input caseIn `json:"input"`
		}
		if err := json.Unmarshal(b, &rf); err != nil {
			fmt.Fprintln(os.Stderr, err)
			os.Exit(2)
		}
		add(&rf.Input, "replay")
		if err := w.Flush(*seed, *tier, "replay of one recorded case", false, nil); err != nil {
			fmt.Fprintln(os.Stderr, err)
			os.Exit(2)
		}
		return
	}

	thorough := *tier == "thorough"
	r := rng.New(*seed)

	// 1. the grid: encoding x compression type x level x window bits (x reconnect x group
	//    fields: full product in the thorough tier, drawn per point in the quick tier)
	for _, e := range encs {
		for _, c := range comps {
			for _, lv := range levels {
				for _, bt := range bitss {
					if thorough {
						for _, rc := range []bool{false, true} {
							for _, g := range groups {
								add(gridCase(r.Fork(), e, c, lv, bt, rc, g), "grid")
							}
						}
					} else {
						cr := r.Fork()
						add(gridCase(cr, e, c, lv, bt, cr.Bool(), groups[cr.Intn(len(groups))]), "grid")
					}
				}
			}
		}
	}
	// 2. random parameter sets with awkward text and extreme integers
	nrand := 300
	if thorough {
		nrand = 4000
	}
	for i := 0; i < nrand; i++ {
		cr := r.Fork()
		p := randParams(cr)
		b1, b2 := bases(cr)
		add(&caseIn{T: "params", P: p, B1: b1, B2: b2, Perm: cr.Perm(countPairs(p))}, "random-params")
	}
	// 2b. RETAINED results: 32-64 different sets are marshalled by every writer, every result is
	//     kept as returned, and only after the last Marshal each one is decoded and compared
	//     (a writer must not hand out memory it reuses for a later call)
	ngroups := 3
	if thorough {
		ngroups = 40
	}
	for g := 0; g < ngroups; g++ {
		cr := r.Fork()
		n := 32 + cr.Intn(33)
		var cis []*caseIn
		for i := 0; i < n; i++ {
			p := distinctParams(cr, fmt.Sprintf("transport-%04d", i))
			if cr.Chance(1, 6) {
				p = randParams(cr)
			}
			b1, b2 := bases(cr)
			cis = append(cis, &caseIn{T: "params", P: p, B1: b1, B2: b2, Perm: cr.Perm(countPairs(p)), Group: n})
		}
		for _, ci := range cis {
			ci.pre = marshalAll(ci.P)
		}
		for _, ci := range cis {
			add(ci, "retained-params")
		}
	}
	// 2c. CONCURRENT round trips: 8 goroutines, each marshalling its own sets and decoding its own
	//     result after yielding; judged here, the first anomaly becomes a case for the Coq judge
	{
		iters := 2000
		if thorough {
			iters = 20000
		}
		anomaly, total := concurrentRoundTrips(r.Fork(), 8, iters)
		w.Count(fmt.Sprintf("concurrent-roundtrips:%d", total))
		if anomaly != nil {
			w.Count("concurrent-roundtrip-anomalies:>=1")
			add(anomaly, "concurrent-roundtrip-anomaly")
		}
	}
	// 2d. programs over several values of the real types ("reuse" family, prog.go)
	for _, rd := range readers {
		for _, lv := range [][2]string{{"3", "0"}, {"0", "9"}} {
			add(scriptedProg(r.Fork(), rd, lv[0], lv[1]), "prog-scripted-"+rd)
		}
	}
	nprog := 48
	if thorough {
		nprog = 1500
	}
	for i := 0; i < nprog; i++ {
		add(genProg(r.Fork()), "prog-random")
	}
	// 3. dial configurations
	for _, dct := range []bool{false, true} {
		for _, en := range []bool{false, true} {
			for _, lv := range []int{-1, 0, 1, 6, 9} {
				for _, bt := range []int{0, 8, 15} {
					for _, e := range encs[:3] {
						cr := r.Fork()
						g := groups[cr.Intn(len(groups))]
						add(&caseIn{T: "dial", Dial: &jDial{Comp: jC{Enable: en, Level: lv, DCT: dct, Bits: bt}, Enc: bstr(e),
							Tid: bstr(g.tid), Reconnect: cr.Bool(), Tgid: bstr(g.tgid), Tgcount: g.cnt, Tgidx: g.idx}}, "dial")
					}
				}
			}
		}
	}
	// 4. arbitrary key/value maps (kv reader and both URL readers), and the same maps framed
	//    for the binary reader
	nkv := 700
	if thorough {
		nkv = 8000
	}
	for i := 0; i < nkv; i++ {
		cr := r.Fork()
		kv := randKV(cr)
		var init *jP
		if cr.Chance(1, 5) {
			init = randParams(cr)
		}
		add(&caseIn{T: "kv", Init: init, KV: kv}, "kv-map")
		if cr.Chance(1, 2) {
			add(&caseIn{T: "bin", Bin: frame(pairsOf(kv))}, "bin-framed-map")
		}
	}
	// every numeric / boolean spelling of the tables on every field that takes one
	for _, k := range []string{"clevel", "cwinbits", "tgcount", "tgidx"} {
		for _, v := range numVals {
			add(&caseIn{T: "kv", KV: [][2]bstr{{bstr(k), bstr(v)}}}, "kv-number-table")
		}
	}
	for _, k := range []string{"reconnect", "Reconnect"} {
		for _, v := range boolVals {
			add(&caseIn{T: "kv", KV: [][2]bstr{{bstr(k), bstr(v)}}}, "kv-bool-table")
		}
	}
	for _, k := range oddKeys {
		add(&caseIn{T: "kv", KV: [][2]bstr{{bstr(k), bstr("1")}}}, "kv-key-table")
		add(&caseIn{T: "kv", KV: [][2]bstr{{bstr(k), bstr("true")}}}, "kv-key-table")
		add(&caseIn{T: "kv", KV: [][2]bstr{{bstr(k), bstr("1")}, {bstr(strings.ToLower(k)), bstr("2")}, {bstr(strings.ToUpper(k)), bstr("3")}}}, "kv-key-table")
	}
	// 5. URL values with zero, one or several values per key
	nurl := 200
	if thorough {
		nurl = 2000
	}
	for i := 0; i < nurl; i++ {
		cr := r.Fork()
		kv := randKV(cr)
		var ents []urlEnt
		for _, e := range kv {
			vals := []bstr{e[1]}
			switch cr.Intn(8) {
			case 0:
				vals = nil
			case 1:
				vals = append(vals, bstr(randString(cr)))
			}
			ents = append(ents, urlEnt{K: e[0], V: vals})
		}
		add(&caseIn{T: "url", URL: ents}, "url-values")
	}
	// 5b. a key repeated 2-3 times with byte-identical values (must be rejected like any other
	//     multi-valued key): every known key and some unknown ones, alone and inside an otherwise
	//     valid set
	{
		valFor := map[string]string{"enc": "json", "comp": "per-message", "clevel": "6", "cwinbits": "15", "tid": "t-1",
			"reconnect": "true", "tgid": "g", "tgcount": "3", "tgidx": "2", "foo": "bar", "x-unknown": "", "ENC": "json"}
		keys := append(append([]string{}, nameKeys...), "foo", "x-unknown", "ENC")
		for _, k := range keys {
			for _, n := range []int{2, 3} {
				cr := r.Fork()
				var vals []bstr
				for j := 0; j < n; j++ {
					vals = append(vals, bstr(valFor[k]))
				}
				add(&caseIn{T: "url", URL: []urlEnt{{K: bstr(k), V: vals}}}, "url-identical-repeat")
				// inside an otherwise valid set
				ents := []urlEnt{{K: bstr(k), V: vals}}
				for _, k2 := range nameKeys {
					if k2 != k && cr.Chance(2, 3) {
						ents = append(ents, urlEnt{K: bstr(k2), V: []bstr{bstr(valFor[k2])}})
					}
				}
				pm := cr.Perm(len(ents))
				sh := make([]urlEnt, len(ents))
				for i, j := range pm {
					sh[i] = ents[j]
				}
				add(&caseIn{T: "url", URL: sh}, "url-identical-repeat-in-valid-set")
			}
		}
		nrep := 40
		if thorough {
			nrep = 400
		}
		for i := 0; i < nrep; i++ {
			cr := r.Fork()
			kv := randKV(cr)
			if len(kv) == 0 {
				continue
			}
			var ents []urlEnt
			rep := cr.Intn(len(kv))
			for j, e := range kv {
				vals := []bstr{e[1]}
				if j == rep {
					for x := 0; x < 1+cr.Intn(2); x++ {
						vals = append(vals, e[1])
					}
				}
				ents = append(ents, urlEnt{K: e[0], V: vals})
			}
			add(&caseIn{T: "url", URL: ents}, "url-identical-repeat-random")
		}
	}
	// 6. binary reader: mutated framings, random bytes, exhaustive short strings
	nbin := 500
	if thorough {
		nbin = 6000
	}
	for i := 0; i < nbin; i++ {
		cr := r.Fork()
		b, kind := mutateBin(cr, validishPairs(cr))
		add(&caseIn{T: "bin", Bin: b}, "bin-"+kind)
	}
	for i := 0; i < nbin/5; i++ {
		cr := r.Fork()
		add(&caseIn{T: "bin", Bin: cr.Bytes(cr.Intn(14))}, "bin-random")
	}
	maxLen := 5
	if thorough {
		maxLen = 7
	}
	enumBytes([]byte{0, 1, 'a', 0xff}, maxLen, func(b []byte) { add(&caseIn{T: "bin", Bin: b}, "bin-exhaustive") })
	// two-byte keys / values over a UTF-8 relevant alphabet: 00 02 k k 00 02 v v
	u8 := []byte{'a', 0xc3, 0xa9, 0x80, 0xe2, 0xff}
	for _, a := range u8 {
		for _, b := range u8 {
			add(&caseIn{T: "bin", Bin: []byte{0, 2, a, b, 0, 0}}, "bin-utf8-key")
			add(&caseIn{T: "bin", Bin: []byte{0, 1, 'k', 0, 2, a, b}}, "bin-utf8-value")
		}
	}
	// 7. a text field of 65536 bytes or more (the 16-bit length prefix of the binary form)
	{
		// 65536 bytes of valid UTF-8 that are themselves three length-prefixed pairs
		v := []byte("\x00\x01a\x7f\x7f" + strings.Repeat("x", 32639) + "\x00\x01b\x7f\x00" + strings.Repeat("x", 32512) + "\x00\x01c\x01\x72" + strings.Repeat("x", 370))
		if len(v) != 65536 {
			panic("long-text witness has the wrong length")
		}
		b1, b2 := bases(r.Fork())
		add(&caseIn{T: "params", P: &jP{Enc: bstr("json"), Tid: bstr(v)}, B1: b1, B2: b2, Perm: []int{1, 0}}, "long-text")
		v2 := []byte(strings.Repeat("y", 65535))
		add(&caseIn{T: "params", P: &jP{Enc: bstr("json"), Tid: bstr(v2)}, B1: b1, B2: b2, Perm: []int{1, 0}}, "long-text")
	}

	gridDesc := "encoding {absent,json,proto,unknown} x compression {absent,per-message,context-takeover,unknown} x level {nil,-1,0..9,10} x window bits {nil,-1,0,1,8,15,32,33}"
	if thorough {
		gridDesc += " x reconnect x 4 group-field settings (full product)"
	} else {
		gridDesc += " (full product), reconnect and group fields drawn per point"
	}
	rule := "grid: " + gridDesc + ", each set through Validate, MarshalKeyValues, both URL carriers (Encode/ParseQuery), quic Marshal/Unmarshal, a harness-permuted framing, CompressConfig on two different bases; retained groups (32-64 sets marshalled by all four writers, every result kept and decoded only after the last Marshal); 8 goroutines x 2000 concurrent marshal/yield/decode round trips judged in the harness (first anomaly becomes a case); in every params case the values the writers returned are overwritten after use; programs over 2-4 values of the real types (8 scripted: validate a type-only set, decode clevel=N into it through each of the four readers, validate and derive the config of fresh type-only sets, look at every value again; 48 random: set / Validate / kv, websocket, webtransport, quic reader into an existing value / CompressConfig), every value re-inspected after every step; random sets with awkward text (quotes, control, HTML, U+2028, invalid UTF-8) and extreme ints; dial configs; arbitrary key/value maps (all spellings of numbers/booleans/keys in the tables) through the kv and URL readers; URL values with 0/1/2 values, and every known key / unknown keys repeated 2-3 times with identical values (alone, inside a valid set, inside random maps); binary reader on framed maps, 9 mutations, random bytes, every string over {00,01,'a',ff} up to length " + fmt.Sprint(maxLen) + ". non-trivial = params: >=2 pairs emitted or set invalid; kv/url: non-empty; bin: >=5 bytes; distinct = distinct Coq case terms"
	if err := w.Flush(*seed, *tier, rule, true, nil); err != nil {
		fmt.Fprintln(os.Stderr, err)
		os.Exit(2)
	}
}

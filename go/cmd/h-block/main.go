// h-block: fault enumeration for C08 on the REAL library (iscp.Conn over memtr + scripted
// broker): every API scenario x message position x broker behaviour {answer, delay, drop,
// misaddress, disconnect}; each call runs under a watchdog with a context deadline; the outcome
// class and the duration are judged in Coq against Model/Blocking.v (blk_judge), then a follow-up
// call shows that the connection's dispatching still works.
package main

import (
	"context"
	"encoding/json"
	stderrors "errors"
	"flag"
	"fmt"
	"os"
	"sync"
	"sync/atomic"
	"time"

	"github.com/aptpod/iscp-go/errors"
	"github.com/aptpod/iscp-go/iscp"
	"github.com/aptpod/iscp-go/message"
	"github.com/aptpod/iscp-go/transport"
	uuid "github.com/google/uuid"

	"verif/internal/broker"
	"verif/internal/coqfmt"
	"verif/internal/memtr"
	"verif/internal/rng"
)

type caseIn struct {
	Scen     string `json:"scen"`
	Beh      string `json:"beh"`
	Pos      int    `json:"pos"`
	CtxMs    int    `json:"ctx_ms"`
	CtoMs    int    `json:"close_timeout_ms"`
	PingInt  int    `json:"ping_interval_ms"`
	PingTo   int    `json:"ping_timeout_ms"`
	DelayMs  int    `json:"delay_ms"`
	RedialMs int    `json:"redial_ms"`
	OtherMs  int    `json:"other_ctx_ms"`
	SlackMs  int    `json:"slack_ms"`
	Silent   bool   `json:"silent,omitempty"` // disconnect = silent death (reads hang, writes vanish)
}

type obs struct {
	Class    string `json:"class"`
	Ms       int64  `json:"ms"`
	Follow   string `json:"follow"`
	FollowMs int64  `json:"follow_ms"`
	Err      string `json:"err,omitempty"`
	FErr     string `json:"follow_err,omitempty"`
	Attempts int    `json:"attempts,omitempty"`
}

func ms(n int) time.Duration { return time.Duration(n) * time.Millisecond }

func classify(err error) string {
	switch {
	case err == nil:
		return "ONil"
	case stderrors.Is(err, context.DeadlineExceeded), stderrors.Is(err, context.Canceled):
		return "OCtx"
	case stderrors.Is(err, errors.ErrConnectionClosed):
		return "OConnClosed"
	case stderrors.Is(err, errors.ErrStreamClosed):
		return "OStreamClosed"
	default:
		return "OOther"
	}
}

// guarded runs f under a watchdog; class OBlocked when it has not returned after wd, OPanic on panic.
func guarded(wd time.Duration, f func() error) (class string, dur time.Duration, errs string) {
	type res struct {
		err   error
		panic interface{}
	}
	ch := make(chan res, 1)
	t0 := time.Now()
	go func() {
		var r res
		defer func() {
			if p := recover(); p != nil {
				r.panic = p
			}
			ch <- r
		}()
		r.err = f()
	}()
	select {
	case r := <-ch:
		dur = time.Since(t0)
		if r.panic != nil {
			return "OPanic", dur, fmt.Sprint(r.panic)
		}
		if r.err != nil {
			errs = r.err.Error()
			if len(errs) > 160 {
				errs = errs[:160]
			}
		}
		return classify(r.err), dur, errs
	case <-time.After(wd):
		return "OBlocked", time.Since(t0), "watchdog"
	}
}

// which client message carries exchange pos of the scenario ("" = broker-initiated / none)
func targetKind(c *caseIn) string {
	switch c.Scen {
	case "ScOpenUp":
		return "UpstreamOpenRequest"
	case "ScOpenDown":
		return "DownstreamOpenRequest"
	case "ScMetadata", "ScCloseWhilePending":
		return "UpstreamMetadata"
	case "ScCall":
		return "UpstreamCall"
	case "ScCallWait":
		if c.Pos == 0 {
			return "UpstreamCall"
		}
		return "ReplyCall"
	case "ScUpClose":
		if c.Pos == 0 {
			return "UpstreamChunk"
		}
		return "UpstreamCloseRequest"
	case "ScWrite", "ScFlush":
		return "UpstreamChunk"
	case "ScDownClose":
		return "DownstreamCloseRequest"
	case "ScConnClose":
		return "Disconnect"
	}
	return ""
}

// slowStorage delays the first List after it has been armed (the drain loop of Upstream.Close
// calls List between its deadline check and cond.Wait()).
type slowStorage struct {
	iscp.VerifSentStorage
	armed atomic.Bool
	d     time.Duration
}

func (s *slowStorage) List(ctx context.Context, id uuid.UUID) (map[uint32]iscp.DataPointGroups, error) {
	if s.armed.CompareAndSwap(true, false) {
		time.Sleep(s.d)
	}
	return s.VerifSentStorage.List(ctx, id)
}

type env struct {
	c         *caseIn
	fired     atomic.Bool
	armed     atomic.Bool
	downAlias atomic.Uint32
	streamID  uuid.UUID
	lateAck   atomic.Bool // ScStateAfterLateAck: withhold the chunk ack, send it late
	noAck     atomic.Bool // ScUpCloseSlowList: the broker never acknowledges chunks
	deadDial  atomic.Bool // outage scenarios: every further dial fails
	noClose   atomic.Bool // ScCloseSilent: the broker never answers a stream close request (pings are answered)
}

// act applies the case's behaviour to the exchange: normal = the cooperative answer, mis = the
// misaddressed one.
func (e *env) act(s *broker.Session, normal, mis func()) {
	switch e.c.Beh {
	case "BAnswer":
		normal()
	case "BDelay":
		go func() { time.Sleep(ms(e.c.DelayMs)); normal() }()
	case "BDrop":
	case "BMisaddr":
		mis()
	case "BDup":
		// the answer written 3-6 times back-to-back
		for i, k := 0, 3+e.c.Pos%2+2*(e.c.CtxMs/100%2); i < k; i++ {
			normal()
		}
	case "BDisconnect":
		if e.c.Silent {
			s.Link.Sever(memtr.Silent)
		} else {
			s.Link.Sever(memtr.Loud)
		}
	}
}

// hit reports whether this message is THE exchange under test (first occurrence once armed).
func (e *env) hit(kind string) bool {
	return e.armed.Load() && targetKind(e.c) == kind && e.fired.CompareAndSwap(false, true)
}

func (e *env) handler(s *broker.Session, m message.Message) {
	switch v := m.(type) {
	case *message.ConnectRequest:
		broker.AcceptConnect(s, v)
	case *message.UpstreamOpenRequest:
		normal := func() {
			s.Send(&message.UpstreamOpenResponse{RequestID: v.RequestID, AssignedStreamID: e.streamID, AssignedStreamIDAlias: 1,
				ResultCode: message.ResultCodeSucceeded, ServerTime: time.Unix(1700000000, 0)})
		}
		if e.hit("UpstreamOpenRequest") {
			e.act(s, normal, func() {
				s.Send(&message.UpstreamOpenResponse{RequestID: v.RequestID + 1001, AssignedStreamID: e.streamID, AssignedStreamIDAlias: 1,
					ResultCode: message.ResultCodeSucceeded})
			})
		} else {
			normal()
		}
	case *message.UpstreamResumeRequest:
		s.Send(&message.UpstreamResumeResponse{RequestID: v.RequestID, AssignedStreamIDAlias: 1, ResultCode: message.ResultCodeSucceeded})
	case *message.DownstreamOpenRequest:
		e.downAlias.Store(v.DesiredStreamIDAlias)
		normal := func() {
			s.Send(&message.DownstreamOpenResponse{RequestID: v.RequestID, AssignedStreamID: e.streamID, ResultCode: message.ResultCodeSucceeded,
				ServerTime: time.Unix(1700000000, 0)})
		}
		if e.hit("DownstreamOpenRequest") {
			e.act(s, normal, func() {
				s.Send(&message.DownstreamOpenResponse{RequestID: v.RequestID + 1001, AssignedStreamID: e.streamID, ResultCode: message.ResultCodeSucceeded})
			})
		} else {
			normal()
		}
	case *message.DownstreamResumeRequest:
		s.Send(&message.DownstreamResumeResponse{RequestID: v.RequestID, ResultCode: message.ResultCodeSucceeded})
	case *message.UpstreamChunk:
		ack := func(alias uint32) func() {
			return func() {
				s.Send(&message.UpstreamChunkAck{StreamIDAlias: alias, Results: []*message.UpstreamChunkResult{
					{SequenceNumber: v.StreamChunk.SequenceNumber, ResultCode: message.ResultCodeSucceeded, ResultString: "OK"}}})
			}
		}
		if e.noAck.Load() {
			// silent broker
		} else if e.lateAck.Load() {
			go func() { time.Sleep(ms(e.c.DelayMs)); ack(v.StreamIDAlias)() }()
		} else if e.hit("UpstreamChunk") {
			e.act(s, ack(v.StreamIDAlias), ack(v.StreamIDAlias+77))
		} else {
			ack(v.StreamIDAlias)()
		}
	case *message.UpstreamCloseRequest:
		if e.noClose.Load() {
			return
		}
		normal := func() {
			s.Send(&message.UpstreamCloseResponse{RequestID: v.RequestID, ResultCode: message.ResultCodeSucceeded})
		}
		if e.hit("UpstreamCloseRequest") {
			e.act(s, normal, func() {
				s.Send(&message.UpstreamCloseResponse{RequestID: v.RequestID + 1001, ResultCode: message.ResultCodeSucceeded})
			})
		} else {
			normal()
		}
	case *message.DownstreamCloseRequest:
		if e.noClose.Load() {
			return
		}
		normal := func() {
			s.Send(&message.DownstreamCloseResponse{RequestID: v.RequestID, ResultCode: message.ResultCodeSucceeded})
		}
		if e.hit("DownstreamCloseRequest") {
			e.act(s, normal, func() {
				s.Send(&message.DownstreamCloseResponse{RequestID: v.RequestID + 1001, ResultCode: message.ResultCodeSucceeded})
			})
		} else {
			normal()
		}
	case *message.UpstreamMetadata:
		normal := func() {
			s.Send(&message.UpstreamMetadataAck{RequestID: v.RequestID, ResultCode: message.ResultCodeSucceeded})
		}
		if e.c.Scen == "ScDupBurst" {
			for i := 0; i < 6; i++ {
				normal()
			}
		} else if e.hit("UpstreamMetadata") {
			e.act(s, normal, func() {
				s.Send(&message.UpstreamMetadataAck{RequestID: v.RequestID + 1001, ResultCode: message.ResultCodeSucceeded})
			})
		} else {
			normal()
		}
	case *message.UpstreamCall:
		ackTo := func(id string) func() {
			return func() {
				s.Send(&message.UpstreamCallAck{CallID: id, ResultCode: message.ResultCodeSucceeded})
			}
		}
		replyTo := func(id string) func() {
			return func() {
				s.Send(&message.DownstreamCall{CallID: "reply-" + v.CallID, RequestCallID: id, SourceNodeID: "peer", Name: v.Name, Type: v.Type, Payload: []byte{1}})
			}
		}
		if e.hit("UpstreamCall") {
			e.act(s, ackTo(v.CallID), ackTo("bogus-"+v.CallID))
		} else {
			ackTo(v.CallID)()
		}
		if e.c.Scen == "ScCallWait" {
			if e.hit("ReplyCall") {
				e.act(s, replyTo(v.CallID), replyTo("bogus-"+v.CallID))
			} else if !(e.c.Pos == 0 && e.c.Beh == "BDisconnect") {
				replyTo(v.CallID)()
			}
		}
	case *message.Disconnect:
		if e.hit("Disconnect") {
			e.act(s, func() {}, func() {})
		}
	}
}

func baseTime() *message.BaseTime {
	return &message.BaseTime{SessionID: "s", Name: "n", Priority: 1, BaseTime: time.Unix(1700000000, 0)}
}

func point() *message.DataPoint { return &message.DataPoint{ElapsedTime: 1, Payload: []byte{1, 2, 3}} }

var dataID = &message.DataID{Name: "a", Type: "b"}

const setupWd = 3 * time.Second

func runCase(c *caseIn) (o obs, direct string) {
	e := &env{c: c, streamID: uuid.New()}
	b := broker.New(e.handler)
	defer b.Release()
	b.OnDial = func(idx int, _ transport.DialConfig) error {
		if e.deadDial.Load() {
			return stderrors.New("verif: broker unreachable")
		}
		return nil
	}
	slow := &slowStorage{VerifSentStorage: iscp.VerifNewInmemSentStorage(), d: ms(c.OtherMs)}
	connOpts := []iscp.ConnOption{iscp.WithConnPingInterval(ms(c.PingInt)), iscp.WithConnPingTimeout(ms(c.PingTo)), iscp.WithConnNodeID("node")}
	if c.Scen == "ScUpCloseSlowList" {
		connOpts = append(connOpts, iscp.VerifWithSentStorage(slow))
	}

	var conn *iscp.Conn
	cl, _, es := guarded(setupWd, func() error {
		var err error
		conn, err = iscp.Connect(b.Address, broker.TransportName, connOpts...)
		return err
	})
	if cl != "ONil" {
		return o, "harness: connect: " + cl + " " + es
	}
	closed := false
	defer func() {
		if !closed {
			go func() {
				ctx, cancel := context.WithTimeout(context.Background(), time.Second)
				defer cancel()
				conn.Close(ctx)
			}()
		}
	}()
	bg := func(d time.Duration) (context.Context, context.CancelFunc) {
		return context.WithTimeout(context.Background(), d)
	}
	var up *iscp.Upstream
	var down *iscp.Downstream
	openUp := func(opts ...iscp.UpstreamOption) string {
		cl, _, es := guarded(setupWd, func() error {
			ctx, cancel := bg(2 * time.Second)
			defer cancel()
			var err error
			up, err = conn.OpenUpstream(ctx, "sess", append([]iscp.UpstreamOption{iscp.WithUpstreamFlushPolicyNone(),
				iscp.WithUpstreamCloseTimeout(ms(c.CtoMs))}, opts...)...)
			return err
		})
		if cl != "ONil" {
			return "harness: open upstream: " + cl + " " + es
		}
		return ""
	}
	openDown := func() string {
		cl, _, es := guarded(setupWd, func() error {
			ctx, cancel := bg(2 * time.Second)
			defer cancel()
			var err error
			down, err = conn.OpenDownstream(ctx, []*message.DownstreamFilter{message.NewDownstreamFilterAllFor("src")},
				iscp.WithDownstreamAckFlushInterval(10*time.Millisecond))
			return err
		})
		if cl != "ONil" {
			return "harness: open downstream: " + cl + " " + es
		}
		return ""
	}
	writeFlush := func() string {
		cl, _, es := guarded(setupWd, func() error {
			ctx, cancel := bg(2 * time.Second)
			defer cancel()
			if err := up.WriteDataPoints(ctx, dataID, point()); err != nil {
				return err
			}
			return up.Flush(ctx)
		})
		if cl != "ONil" {
			return "harness: write+flush: " + cl + " " + es
		}
		return ""
	}
	sess := func() *broker.Session { return b.Current() }
	chunk := func(alias uint32) *message.DownstreamChunk {
		return &message.DownstreamChunk{StreamIDAlias: alias,
			UpstreamOrAlias: &message.UpstreamInfo{SessionID: "s", SourceNodeID: "src", StreamID: uuid.New()},
			StreamChunk: &message.StreamChunk{SequenceNumber: 1, DataPointGroups: []*message.DataPointGroup{
				{DataIDOrAlias: dataID, DataPoints: []*message.DataPoint{point()}}}}}
	}
	meta := func(alias uint32, node string) *message.DownstreamMetadata {
		return &message.DownstreamMetadata{RequestID: 4001, StreamIDAlias: alias, SourceNodeID: node, Metadata: baseTime()}
	}

	// ---- the call under test
	var call func(ctx context.Context) error
	var follow func(ctx context.Context) error
	followDefault := func(ctx context.Context) error { return conn.SendBaseTime(ctx, baseTime()) }
	follow = followDefault
	brokerSide := func() {} // broker-initiated exchange, started right after the call
	ctxMs := c.CtxMs
	switch c.Scen {
	case "ScOpenUp":
		call = func(ctx context.Context) error { _, err := conn.OpenUpstream(ctx, "sess2"); return err }
	case "ScOpenDown":
		call = func(ctx context.Context) error {
			_, err := conn.OpenDownstream(ctx, []*message.DownstreamFilter{message.NewDownstreamFilterAllFor("src")})
			return err
		}
	case "ScMetadata":
		call = func(ctx context.Context) error { return conn.SendBaseTime(ctx, baseTime()) }
	case "ScCall":
		call = func(ctx context.Context) error {
			_, err := conn.SendReplyCall(ctx, &iscp.UpstreamReplyCall{RequestCallID: "rq", DestinationNodeID: "peer", Name: "n", Type: "t", Payload: []byte{1}})
			return err
		}
	case "ScCallWait":
		call = func(ctx context.Context) error {
			_, err := conn.SendCallAndWaitReplayCall(ctx, &iscp.UpstreamCall{DestinationNodeID: "peer", Name: "n", Type: "t", Payload: []byte{1}})
			return err
		}
	case "ScWrite", "ScFlush":
		if d := openUp(); d != "" {
			return o, d
		}
		// first chunk: its ack gets the behaviour; the call under test is the NEXT write / flush
		e.armed.Store(true)
		if d := writeFlush(); d != "" {
			return o, d
		}
		time.Sleep(ms(20))
		if c.Scen == "ScWrite" {
			call = func(ctx context.Context) error { return up.WriteDataPoints(ctx, dataID, point()) }
		} else {
			call = func(ctx context.Context) error {
				if err := up.WriteDataPoints(ctx, dataID, point()); err != nil {
					return err
				}
				return up.Flush(ctx)
			}
		}
	case "ScUpClose":
		if d := openUp(); d != "" {
			return o, d
		}
		call = func(ctx context.Context) error {
			if err := up.WriteDataPoints(ctx, dataID, point()); err != nil {
				return err
			}
			return up.Close(ctx)
		}
	case "ScDownClose":
		if d := openDown(); d != "" {
			return o, d
		}
		call = func(ctx context.Context) error { return down.Close(ctx) }
	case "ScRead", "ScReadMeta":
		if d := openDown(); d != "" {
			return o, d
		}
		alias := e.downAlias.Load()
		if c.Scen == "ScRead" {
			call = func(ctx context.Context) error { _, err := down.ReadDataPoints(ctx); return err }
			brokerSide = func() {
				s := sess()
				e.act(s, func() { s.Send(chunk(alias)) }, func() { s.Send(chunk(alias + 4000)) })
			}
		} else {
			call = func(ctx context.Context) error { _, err := down.ReadMetadata(ctx); return err }
			brokerSide = func() {
				s := sess()
				// misaddressed: right stream alias, source node nobody subscribed (former F6)
				e.act(s, func() { s.Send(meta(alias, "src")) }, func() { s.Send(meta(alias, "stranger")) })
			}
			if c.Beh == "BMisaddr" {
				follow = func(ctx context.Context) error { return down.Close(ctx) }
			}
		}
	case "ScConnClose":
		call = func(ctx context.Context) error { closed = true; return conn.Close(ctx) }
	case "ScMetaAfterClose":
		cl, _, es := guarded(setupWd, func() error {
			ctx, cancel := bg(time.Second)
			defer cancel()
			closed = true
			return conn.Close(ctx)
		})
		if cl != "ONil" {
			return o, "harness: close: " + cl + " " + es
		}
		time.Sleep(ms(20))
		call = func(ctx context.Context) error { return conn.SendBaseTime(ctx, baseTime()) }
	case "ScStateAfterLateAck":
		e.lateAck.Store(true)
		if d := openUp(iscp.WithUpstreamAckTimeout(ms(c.DelayMs / 3))); d != "" {
			return o, d
		}
		if d := writeFlush(); d != "" {
			return o, d
		}
		time.Sleep(ms(c.DelayMs + 80)) // ack timeout passed, then the late ack arrived
		call = func(ctx context.Context) error { up.State(); return nil }
		follow = func(ctx context.Context) error { return up.Close(ctx) }
	case "ScCloseWhilePending":
		// another goroutine's request is in flight (its reply gets the behaviour) when Close is called
		e.armed.Store(true)
		go func() {
			ctx, cancel := bg(ms(c.OtherMs))
			defer cancel()
			conn.SendBaseTime(ctx, baseTime())
		}()
		broker.WaitFor(time.Second, func() bool { return e.fired.Load() })
		time.Sleep(ms(10))
		call = func(ctx context.Context) error { closed = true; return conn.Close(ctx) }
	case "ScCloseDuringOutage", "ScUpCloseDuringOutage":
		if c.Scen == "ScUpCloseDuringOutage" {
			if d := openUp(); d != "" {
				return o, d
			}
			if d := writeFlush(); d != "" {
				return o, d
			}
		}
		// the broker dies and stays unreachable: every redial fails
		e.deadDial.Store(true)
		dials := b.DialCount.Load()
		if c.Silent {
			sess().Link.Sever(memtr.Silent)
		} else {
			sess().Link.Sever(memtr.Loud)
		}
		if !broker.WaitFor(2*time.Second, func() bool { return b.DialCount.Load() > dials }) {
			return o, "harness: the client did not start redialling"
		}
		if c.Scen == "ScCloseDuringOutage" {
			call = func(ctx context.Context) error { closed = true; return conn.Close(ctx) }
		} else {
			call = func(ctx context.Context) error { return up.Close(ctx) }
			follow = func(ctx context.Context) error { closed = true; return conn.Close(ctx) }
		}
	case "ScFlushAbandoned":
		// Flush calls whose context is already cancelled / cancelled concurrently: about half of
		// them are taken by the flush loop and then abandoned by the caller before the result
		// is handed back.  Afterwards the stream must work as before.
		if d := openUp(); d != "" {
			return o, d
		}
		for i := 0; i < c.Pos; i++ {
			cl, _, es := guarded(setupWd, func() error {
				wctx, wcancel := bg(200 * time.Millisecond)
				defer wcancel()
				up.WriteDataPoints(wctx, dataID, point()) // judged by the call under test, not here
				fctx, fcancel := context.WithCancel(context.Background())
				if i%2 == 0 {
					fcancel() // already cancelled
				} else {
					go func() { time.Sleep(time.Duration(20*i) * time.Microsecond); fcancel() }()
				}
				up.Flush(fctx) // its result does not matter
				fcancel()
				return nil
			})
			if cl != "ONil" {
				return o, "harness: abandoned flush " + cl + " " + es
			}
		}
		call = func(ctx context.Context) error {
			if err := up.WriteDataPoints(ctx, dataID, point()); err != nil {
				return err
			}
			return up.Flush(ctx)
		}
		follow = func(ctx context.Context) error { return up.Close(ctx) }
	case "ScDupBurst":
		// c.Pos requests one after the other; the broker writes every answer 6 times back-to-back
		call = func(ctx context.Context) error {
			for i := 0; i < c.Pos; i++ {
				rctx, rcancel := bg(ms(c.CtxMs))
				err := conn.SendBaseTime(rctx, baseTime())
				rcancel()
				if err != nil {
					return fmt.Errorf("request %d: %w", i, err)
				}
			}
			return nil
		}
	case "ScReentrantHook":
		// a user callback calls back into the stream it belongs to: it must return, and the call
		// that triggered it completes within its bound
		ran := make(chan struct{}, 16)
		sig := func() {
			select {
			case ran <- struct{}{}:
			default:
			}
		}
		waitRan := func(ctx context.Context) error {
			select {
			case <-ran:
				return nil
			case <-ctx.Done():
				return fmt.Errorf("the callback did not complete: %w", ctx.Err())
			}
		}
		switch c.Pos {
		case 0, 1, 2, 4:
			var opts []iscp.UpstreamOption
			switch c.Pos {
			case 0:
				opts = append(opts, iscp.WithUpstreamSendDataPointsHooker(iscp.SendDataPointsHookerFunc(func(uuid.UUID, iscp.UpstreamChunk) { up.State(); sig() })))
			case 1:
				opts = append(opts, iscp.WithUpstreamReceiveAckHooker(iscp.ReceiveAckHookerFunc(func(uuid.UUID, iscp.UpstreamChunkResult) { up.State(); sig() })))
			case 2:
				opts = append(opts, iscp.WithUpstreamClosedEventHandler(iscp.UpstreamClosedEventHandlerFunc(func(*iscp.UpstreamClosedEvent) { up.State(); sig() })))
			case 4:
				opts = append(opts, iscp.WithUpstreamSendDataPointsHooker(iscp.SendDataPointsHookerFunc(func(uuid.UUID, iscp.UpstreamChunk) {
					fctx, fcancel := bg(100 * time.Millisecond)
					defer fcancel()
					up.Flush(fctx)
					up.State()
					sig()
				})))
			}
			if d := openUp(opts...); d != "" {
				return o, d
			}
			call = func(ctx context.Context) error {
				if err := up.WriteDataPoints(ctx, dataID, point()); err != nil {
					return err
				}
				if err := up.Flush(ctx); err != nil {
					return err
				}
				if c.Pos == 2 {
					if err := up.Close(ctx); err != nil {
						return err
					}
				}
				return waitRan(ctx)
			}
			if c.Pos == 2 {
				follow = followDefault
			} else {
				follow = func(ctx context.Context) error { return up.Close(ctx) }
			}
		default:
			cl, _, es := guarded(setupWd, func() error {
				ctx, cancel := bg(2 * time.Second)
				defer cancel()
				var err error
				down, err = conn.OpenDownstream(ctx, []*message.DownstreamFilter{message.NewDownstreamFilterAllFor("src")},
					iscp.WithDownstreamClosedEventHandler(iscp.DownstreamClosedEventHandlerFunc(func(*iscp.DownstreamClosedEvent) { down.State(); sig() })))
				return err
			})
			if cl != "ONil" {
				return o, "harness: open downstream: " + cl + " " + es
			}
			call = func(ctx context.Context) error {
				if err := down.Close(ctx); err != nil {
					return err
				}
				return waitRan(ctx)
			}
		}
	case "ScCloseSilent":
		// stream Close against a broker that answers pings but neither acknowledges chunks nor
		// answers the close request.  pos 0: downstream, pos 1: downstream with a read result pending
		// and a transport whose writes take longer than the deadline (the deadline expires during
		// the final ack flush); pos 2/3: upstream reliable / unreliable; pos 4/5: the same with an
		// unacknowledged chunk (the deadline expires during the ack wait).  CtxMs = 0: the
		// caller's context is already done at entry.
		e.noClose.Store(true)
		switch c.Pos {
		case 0, 1:
			if d := openDown(); d != "" {
				return o, d
			}
			if c.Pos == 1 {
				alias := e.downAlias.Load()
				s := sess()
				s.Send(chunk(alias))
				cl, _, es := guarded(setupWd, func() error {
					ctx, cancel := bg(time.Second)
					defer cancel()
					_, err := down.ReadDataPoints(ctx)
					return err
				})
				if cl != "ONil" {
					return o, "harness: read before close: " + cl + " " + es
				}
				s.Link.WriteDelay.Store(int64(ms(c.DelayMs)))
			}
			call = func(ctx context.Context) error { return down.Close(ctx) }
		default:
			qos := message.QoSReliable
			if c.Pos%2 == 1 {
				qos = message.QoSUnreliable
			}
			if d := openUp(iscp.WithUpstreamQoS(qos)); d != "" {
				return o, d
			}
			if c.Pos >= 4 {
				e.noAck.Store(true)
				if d := writeFlush(); d != "" {
					return o, d
				}
			}
			call = func(ctx context.Context) error { return up.Close(ctx) }
		}
	case "ScReadManyGroups":
		// one chunk with c.Pos groups addressed by data id ALIAS; the ack flush ticks every
		// millisecond and a goroutine polls State(): writers of the stream mutex keep arriving
		// while ReadDataPoints resolves the aliases
		cl, _, es := guarded(setupWd, func() error {
			ctx, cancel := bg(2 * time.Second)
			defer cancel()
			var err error
			down, err = conn.OpenDownstream(ctx, []*message.DownstreamFilter{message.NewDownstreamFilterAllFor("src")},
				iscp.WithDownstreamAckFlushInterval(time.Millisecond), iscp.WithDownstreamDataIDs([]*message.DataID{dataID}))
			return err
		})
		if cl != "ONil" {
			return o, "harness: open downstream: " + cl + " " + es
		}
		{
			alias := e.downAlias.Load()
			big := chunk(alias)
			gs := make([]*message.DataPointGroup, c.Pos)
			for i := range gs {
				gs[i] = &message.DataPointGroup{DataIDOrAlias: message.DataIDAlias(1), DataPoints: []*message.DataPoint{point()}}
			}
			big.StreamChunk.DataPointGroups = gs
			stop := make(chan struct{})
			go func() {
				for {
					select {
					case <-stop:
						return
					default:
						down.State()
						time.Sleep(20 * time.Microsecond)
					}
				}
			}()
			time.AfterFunc(3*time.Second, func() { close(stop) })
			brokerSide = func() { sess().Send(big) }
		}
		call = func(ctx context.Context) error {
			ch, err := down.ReadDataPoints(ctx)
			if err == nil && len(ch.DataPointGroups) != c.Pos {
				return fmt.Errorf("read %d groups, sent %d", len(ch.DataPointGroups), c.Pos)
			}
			return err
		}
		follow = func(ctx context.Context) error { return down.Close(ctx) }
	case "ScFloodThenRequest":
		// the broker floods the client with messages the application never collects, then answers a request at once
		if d := openDown(); d != "" {
			return o, d
		}
		alias := e.downAlias.Load()
		s := sess()
		n := c.Pos
		for i := 0; i < n; i++ {
			s.Send(&message.DownstreamCall{CallID: fmt.Sprintf("q%d", i), SourceNodeID: "peer", Name: "n", Type: "t", Payload: []byte{1}})
			s.Send(&message.DownstreamCall{CallID: fmt.Sprintf("r%d", i), RequestCallID: "nobody", SourceNodeID: "peer", Name: "n", Type: "t", Payload: []byte{1}})
			ch := chunk(alias)
			ch.StreamChunk.SequenceNumber = uint32(i + 1)
			s.Send(ch)
			s.Send(meta(alias, "src"))
		}
		call = func(ctx context.Context) error { return conn.SendBaseTime(ctx, baseTime()) }
		follow = func(ctx context.Context) error { closed = true; return conn.Close(ctx) }
	case "ScUpCloseSlowList":
		e.noAck.Store(true)
		if d := openUp(); d != "" {
			return o, d
		}
		call = func(ctx context.Context) error {
			if err := up.WriteDataPoints(ctx, dataID, point()); err != nil {
				return err
			}
			slow.armed.Store(true)
			return up.Close(ctx)
		}
	default:
		return o, "harness: unknown scenario " + c.Scen
	}
	e.armed.Store(true)

	big := c.CtxMs
	if c.OtherMs > big && c.Scen == "ScCloseWhilePending" {
		big = c.OtherMs
	}
	wd := ms(big+c.SlackMs) + 1500*time.Millisecond
	if c.Scen == "ScStateAfterLateAck" {
		wd = 1200 * time.Millisecond
	}
	done := make(chan struct{})
	go func() {
		select {
		case <-time.After(ms(10)):
			brokerSide()
		case <-done:
		}
	}()
	cls, dur, es := guarded(wd, func() error {
		ctx, cancel := bg(ms(ctxMs))
		defer cancel()
		return call(ctx)
	})
	close(done)
	e.fired.Store(true) // the behaviour applies to the exchanges of the call under test only, not to the follow-up
	o.Class, o.Ms, o.Err = cls, dur.Milliseconds(), es
	if cls == "OPanic" {
		direct = "panic in the call under test: " + es
	}

	// ---- follow-up: the dispatcher still runs
	fcls, fdur, fes := guarded(ms(300+c.SlackMs)+800*time.Millisecond, func() error {
		ctx, cancel := bg(ms(300))
		defer cancel()
		return follow(ctx)
	})
	o.Follow, o.FollowMs, o.FErr = fcls, fdur.Milliseconds(), fes
	if fcls == "OPanic" {
		direct = "panic in the follow-up call: " + fes
	}
	return o, direct
}

func term(c *caseIn, o obs) string {
	return fmt.Sprintf("mkBlk %s %s %d (mkPrm %d %d %d %d %d %d) %d %s %d %s %d",
		c.Scen, c.Beh, c.Pos, c.CtxMs, c.CtoMs, c.PingInt+c.PingTo, c.DelayMs, c.RedialMs, c.OtherMs, c.SlackMs,
		o.Class, o.Ms, o.Follow, o.FollowMs)
}

// stable signatures (KNOWN_FINDINGS.json).  F5, F6 and F13 are repaired in /repo: their signatures are kept so that a
// recurrence is reported under the old name; F31 (Conn.Close waits for wireConnMu) is open.
func sig(c *caseIn, o obs) string {
	switch {
	case c.Scen == "ScMetaAfterClose" && o.Class != "OConnClosed":
		return "F5:request-after-close-waits-for-its-context"
	case c.Scen == "ScStateAfterLateAck" && (o.Class == "OBlocked" || o.Follow == "OBlocked"):
		return "F13:late-ack-after-timeout-blocks-under-stream-lock"
	case c.Scen == "ScReadMeta" && c.Beh == "BMisaddr" && o.Follow == "OBlocked":
		return "F6:metadata-from-unsubscribed-node-leaks-table-read-lock"
	case c.Scen == "ScCloseWhilePending" && o.Ms > int64(c.CtxMs+c.SlackMs):
		return "F31:conn-close-ignores-its-context-waiting-for-wireConnMu"
	}
	return ""
}

func retriable(c *caseIn, o obs) bool {
	// a disconnect cell whose request is re-issued after the redial: the model predicts success
	// when detection + redial fit into the deadline; on a loaded machine the redial can be late
	if c.Beh != "BDisconnect" || c.Scen == "ScCloseDuringOutage" || c.Scen == "ScUpCloseDuringOutage" {
		return false
	}
	switch c.Scen {
	case "ScOpenUp", "ScOpenDown", "ScMetadata":
		return o.Class == "OCtx"
	}
	return o.Follow != "ONil" && c.Scen != "ScConnClose"
}

func main() {
	seed := flag.Uint64("seed", 1, "seed")
	tier := flag.String("tier", "quick", "quick|thorough")
	out := flag.String("out", "", "output directory")
	replay := flag.String("replay", "", "replay file")
	flag.Parse()
	w := coqfmt.NewWriter(*out, "C08", "From Iscp Require Import Model.Blocking.", "blk_case", "blk_judge", 60)
	r := rng.New(*seed)
	var jobs []*caseIn
	slack := 400
	if *tier == "thorough" {
		slack = 600
	}
	mk := func(scen, beh string, pos, ctx, cto int) *caseIn {
		return &caseIn{Scen: scen, Beh: beh, Pos: pos, CtxMs: ctx, CtoMs: cto, PingInt: 20, PingTo: 40, DelayMs: 60,
			RedialMs: 100, OtherMs: ctx, SlackMs: slack}
	}
	if *replay != "" {
		bs, err := os.ReadFile(*replay)
		if err != nil {
			fmt.Fprintln(os.Stderr, err)
			os.Exit(2)
		}
		var rf struct {
			Input caseIn `json:"input"`
		}
		if err := json.Unmarshal(bs, &rf); err != nil {
			fmt.Fprintln(os.Stderr, err)
			os.Exit(2)
		}
		jobs = append(jobs, &rf.Input)
	} else {
		type sp struct {
			scen string
			npos int
		}
		scens := []sp{{"ScOpenUp", 1}, {"ScOpenDown", 1}, {"ScWrite", 1}, {"ScFlush", 1}, {"ScRead", 1}, {"ScReadMeta", 1},
			{"ScMetadata", 1}, {"ScCall", 1}, {"ScCallWait", 2}, {"ScUpClose", 2}, {"ScDownClose", 1}, {"ScConnClose", 1}}
		behs := []string{"BAnswer", "BDelay", "BDrop", "BMisaddr", "BDisconnect", "BDup"}
		ctxs := []int{300}
		reps := 1
		if *tier == "thorough" {
			ctxs = []int{200, 250, 300}
			reps = 3
		}
		for rep := 0; rep < reps; rep++ {
			for _, s := range scens {
				for pos := 0; pos < s.npos; pos++ {
					for _, bh := range behs {
						for _, ctx := range ctxs {
							if bh == "BDup" {
								ctx = 300
							} else if bh != "BDisconnect" && rep == 0 && *tier != "thorough" {
								// quick: vary the deadline with the seed on the non-disconnect cells (100-300 ms)
								ctx = 100 + 50*r.Intn(5)
							}
							jobs = append(jobs, mk(s.scen, bh, pos, ctx, 5000))
							if s.scen == "ScUpClose" && pos == 0 {
								// close timeout below the context deadline
								j := mk(s.scen, bh, pos, 300, 120)
								jobs = append(jobs, j)
							}
							if bh == "BDisconnect" && *tier == "thorough" {
								j := mk(s.scen, bh, pos, ctx, 5000)
								j.Silent = true
								jobs = append(jobs, j)
							}
						}
					}
				}
			}
			jobs = append(jobs, mk("ScMetaAfterClose", "BAnswer", 0, 300, 5000))
			j := mk("ScStateAfterLateAck", "BDelay", 0, 300, 5000)
			j.DelayMs = 150
			jobs = append(jobs, j)
			for _, bh := range []string{"BAnswer", "BDelay", "BDrop"} {
				j := mk("ScCloseWhilePending", bh, 0, 100, 5000)
				j.OtherMs = 1500
				jobs = append(jobs, j)
			}
			// Close during an outage with failing redials (loud and silent death), connection and stream
			for _, sc := range []string{"ScCloseDuringOutage", "ScUpCloseDuringOutage"} {
				for _, silent := range []bool{false, true} {
					j := mk(sc, "BDisconnect", 0, 200, 5000)
					j.Silent = silent
					jobs = append(jobs, j)
				}
			}
			// abandoned Flush calls, then Write+Flush and Close on a healthy broker (pos = number of abandoned-flush attempts)
			for _, k := range []int{1, 3, 8} {
				jobs = append(jobs, mk("ScFlushAbandoned", "BAnswer", k, 300, 5000))
			}
			// inbound flood of uncollected calls / reply calls / chunks / metadata (pos = messages of each kind), then a request
			// (keepalive far beyond the deadline: a stalled dispatcher must not be rescued by a spurious reconnect)
			for _, k := range []int{200, 1100, 3300} {
				j := mk("ScFloodThenRequest", "BAnswer", k, 300, 5000)
				j.PingInt, j.PingTo = 2000, 2000
				jobs = append(jobs, j)
			}
			// stream Close against a silent broker (pings answered): context already done at entry, or expiring
			// during the final ack flush / ack wait; reliable and unreliable
			for _, pc := range [][2]int{{0, 0}, {0, 150}, {1, 100}, {2, 0}, {3, 0}, {2, 150}, {4, 0}, {5, 0}, {4, 150}, {5, 150}} {
				j := mk("ScCloseSilent", "BDrop", pc[0], pc[1], 5000)
				if pc[0] == 1 {
					j.PingInt, j.PingTo, j.DelayMs = 2000, 2000, 150 // the slow transport must not trip the keepalive
				}
				jobs = append(jobs, j)
			}
			// bursts of duplicated answers over many requests
			for _, k := range []int{200, 600} {
				jobs = append(jobs, mk("ScDupBurst", "BDup", k, 300, 5000))
			}
			// re-entrant user callbacks (send hook, ack hook, closed handlers; State() and Flush from the callback)
			for k := 0; k < 5; k++ {
				jobs = append(jobs, mk("ScReentrantHook", "BAnswer", k, 300, 5000))
			}
			// Conn-level requests whose context is already done at entry
			for _, sc := range []string{"ScOpenUp", "ScOpenDown", "ScMetadata", "ScCall", "ScCallWait"} {
				jobs = append(jobs, mk(sc, "BDrop", 0, 0, 5000))
			}
			// ReadDataPoints of a chunk with many alias groups under ack-flush ticks and State() polling
			for _, k := range []int{2000, 8000} {
				jobs = append(jobs, mk("ScReadManyGroups", "BAnswer", k, 300, 5000))
			}
			// Upstream.Close, ack withheld, close timeout (120) and context (200) both expire while sent.List (350 ms) runs
			for _, lst := range []int{350, 500} {
				j := mk("ScUpCloseSlowList", "BDrop", 0, 200, 120)
				j.OtherMs = lst
				jobs = append(jobs, j)
			}
		}
	}
	results := make([]coqfmt.Case, len(jobs))
	sem := make(chan struct{}, 16)
	var wg sync.WaitGroup
	var mu sync.Mutex
	var retry []int
	for i, j := range jobs {
		wg.Add(1)
		sem <- struct{}{}
		go func(i int, c *caseIn) {
			defer wg.Done()
			defer func() { <-sem }()
			o, direct := runCase(c)
			if len(direct) > 8 && direct[:8] == "harness:" {
				// setup failed (not the call under test): retry once alone later
				mu.Lock()
				retry = append(retry, i)
				mu.Unlock()
				return
			}
			if retriable(c, o) {
				mu.Lock()
				retry = append(retry, i)
				mu.Unlock()
				return
			}
			o.Attempts = 1
			results[i] = coqfmt.Case{Term: term(c, o), Input: c, Observed: o, Seed: *seed, Nontrivial: c.Beh != "BAnswer",
				Kind: c.Scen + "/" + c.Beh, Direct: direct, Sig: sig(c, o)}
		}(i, j)
	}
	wg.Wait()
	// flakiness policy (DESIGN appendix D): timing-dependent cells are re-run alone, without parallel load
	for _, i := range retry {
		c := jobs[i]
		var o obs
		var direct string
		for a := 0; a < 3; a++ {
			o, direct = runCase(c)
			o.Attempts = a + 2
			if !(len(direct) > 8 && direct[:8] == "harness:") && !retriable(c, o) {
				break
			}
		}
		if len(direct) > 8 && direct[:8] == "harness:" {
			fmt.Fprintln(os.Stderr, direct, "in", c.Scen, c.Beh)
			os.Exit(3)
		}
		results[i] = coqfmt.Case{Term: term(c, o), Input: c, Observed: o, Seed: *seed, Nontrivial: c.Beh != "BAnswer",
			Kind: c.Scen + "/" + c.Beh, Direct: direct, Sig: sig(c, o)}
	}
	for i, cs := range results {
		w.Add(cs)
		w.Count("scen:" + jobs[i].Scen)
		w.Count("beh:" + jobs[i].Beh)
		w.Count("class:" + cs.Observed.(obs).Class)
	}
	rule := "every API scenario (open up/down, write, flush, read, read-metadata, metadata, call, call-and-wait, stream close up/down, conn close) x exchange position x broker behaviour {answer, answer written 3-6 times back-to-back, delay 60 ms, drop, misaddress (reply for another request id / stream alias / call id / unsubscribed source node), disconnect (loud; thorough also silent)} with a context deadline of 100-300 ms, ping 20/40 ms, close timeout 5 s and 120 ms; plus 1/3/8 Flush calls with a cancelled context followed by Write+Flush and Close, stream Close (down / up reliable / up unreliable) against a broker that answers pings but neither acks nor answers the close request, with a context already done at entry or expiring during the final ack flush / ack wait, Conn-level requests with a context already done at entry, 200/600 requests in a row whose answers are each written 6 times back-to-back, user callbacks (send hook, ack hook, closed handlers) that call State() / Flush on their own stream, ReadDataPoints of a chunk with 2000/8000 alias-addressed groups under a 1 ms ack flush and a State() poller, an inbound flood of 200/1100/3300 uncollected calls, reply calls, chunks and metadata followed by a request, Conn.Close and Upstream.Close during an outage with failing redials (loud / silent), Upstream.Close whose deadlines expire while the sent storage's List is in progress (slow storage), request-after-close (former F5), State() after a late ack (former F13), Conn.Close while another request is in flight (F31). non-trivial = behaviour other than answer; distinct = distinct Coq case terms (durations included)"
	if err := w.Flush(*seed, *tier, rule, true, nil); err != nil {
		fmt.Fprintln(os.Stderr, err)
		os.Exit(2)
	}
}

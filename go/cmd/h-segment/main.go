// h-segment: correspondence harness for C14 (internal/segment) against Model/Segment.v.
// Drives the real segment.SendTo and ReadBuffers.Receive/RemoveExpired (through the
// verif-tagged verifhooks package) and records cases as Coq terms.
package main

import (
	"encoding/json"
	"flag"
	"fmt"
	"os"
	"time"

	"github.com/aptpod/iscp-go/verifhooks"

	"verif/internal/coqfmt"
	"verif/internal/rng"
)

type collect struct{ out [][]byte }

func (c *collect) SendDatagram(b []byte) error {
	c.out = append(c.out, append([]byte(nil), b...))
	return nil
}

type msgIn struct {
	Seq uint32 `json:"seq"`
	Len int    `json:"len"`
	pay []byte
}

type ev struct {
	Expire bool   `json:"expire,omitempty"`
	T      uint64 `json:"t"`
	Raw    []byte `json:"raw,omitempty"`
}

type caseIn struct {
	P    int     `json:"P"`
	Ex   uint64  `json:"expiry"`
	Msgs []msgIn `json:"msgs"`
	Evs  []ev    `json:"events"`
	Pays [][]byte `json:"payloads"`
}

var base = time.Unix(1_700_000_000, 0)

// runCase executes one case on the real code and returns the Coq term plus observations.
func runCase(ci *caseIn) (term string, observed interface{}, direct string) {
	restore := verifhooks.SegmentSetMaxPayloadSize(ci.P)
	defer restore()
	var now uint64
	restoreT := verifhooks.SegmentSetTimeNow(func() time.Time { return base.Add(time.Duration(now) * time.Millisecond) })
	defer restoreT()

	var msgsT, sentT, sizesT []string
	for _, m := range ci.Msgs {
		c := &collect{}
		n, err := verifhooks.SegmentSendTo(c, m.Seq, m.pay)
		msgsT = append(msgsT, coqfmt.Pair(coqfmt.N(uint64(m.Seq)), coqfmt.Bytes(m.pay)))
		if err != nil {
			sentT = append(sentT, "None")
			sizesT = append(sizesT, "0")
			continue
		}
		var ds []string
		for _, d := range c.out {
			ds = append(ds, coqfmt.Bytes(d))
		}
		sentT = append(sentT, coqfmt.Opt(coqfmt.List(ds), true))
		sizesT = append(sizesT, coqfmt.N(uint64(n)))
	}
	rb := &verifhooks.SegmentReadBuffers{ReadBuffer: map[uint32]*verifhooks.SegmentReadBuffer{}, ReadBufferExpiry: time.Duration(ci.Ex) * time.Millisecond}
	var evsT, outsT []string
	var obs []interface{}
	for i, e := range ci.Evs {
		now = e.T
		if e.Expire {
			rb.RemoveExpired()
			evsT = append(evsT, fmt.Sprintf("Expire %d", e.T))
			outsT = append(outsT, "None")
			obs = append(obs, nil)
			continue
		}
		evsT = append(evsT, fmt.Sprintf("Recv %d %s", e.T, coqfmt.Bytes(e.Raw)))
		var m []byte
		var ok bool
		func() {
			defer func() {
				if r := recover(); r != nil {
					direct = fmt.Sprintf("panic in ReadBuffers.Receive at event %d (datagram of %d bytes): %v", i, len(e.Raw), r)
				}
			}()
			var err error
			m, ok, err = rb.Receive(append([]byte(nil), e.Raw...))
			if err != nil {
				ok = false
			}
		}()
		if direct != "" {
			return "", nil, direct
		}
		if ok {
			outsT = append(outsT, coqfmt.Opt(coqfmt.Bytes(m), true))
			obs = append(obs, len(m))
		} else {
			outsT = append(outsT, "None")
			obs = append(obs, nil)
		}
	}
	term = fmt.Sprintf("mkSegCase %d %d %s %s %s %s %s", ci.P, ci.Ex, coqfmt.List(msgsT), coqfmt.List(sentT),
		coqfmt.List(sizesT), coqfmt.List(evsT), coqfmt.List(outsT))
	return term, obs, ""
}

func sizesFor(r *rng.R, P int) int {
	choices := []int{0, 1, P - 1, P, P + 1, 2*P - 1, 2 * P, 2*P + 1, 3 * P, 3*P + 1, 4 * P, 5*P - 1}
	if r.Chance(2, 3) {
		v := choices[r.Intn(len(choices))]
		if v < 0 {
			v = 0
		}
		return v
	}
	return r.Intn(6*P + 2)
}

// segmentsOf sends a message through the real sender to obtain its datagrams.
func segmentsOf(P int, seq uint32, pay []byte) [][]byte {
	restore := verifhooks.SegmentSetMaxPayloadSize(P)
	defer restore()
	c := &collect{}
	if _, err := verifhooks.SegmentSendTo(c, seq, pay); err != nil {
		return nil
	}
	return c.out
}

func genRandom(r *rng.R, big bool) (*caseIn, string, bool) {
	P := 1 + r.Intn(8)
	if big {
		P = 1188
	}
	ci := &caseIn{P: P, Ex: uint64(5 + r.Intn(50))}
	nm := 1 + r.Intn(4)
	if big {
		nm = 1 + r.Intn(2)
	}
	seqs := map[uint32]bool{}
	var all [][]byte
	multi := false
	for i := 0; i < nm; i++ {
		var seq uint32
		for {
			switch r.Intn(4) {
			case 0:
				seq = uint32(r.Intn(4))
			case 1:
				seq = 0xffffffff - uint32(r.Intn(3))
			default:
				seq = uint32(r.U64())
			}
			if !seqs[seq] {
				break
			}
		}
		seqs[seq] = true
		n := sizesFor(r, P)
		if big {
			n = []int{P - 1, P, P + 1, 2 * P, 2*P + 1, 3 * P}[r.Intn(6)]
		}
		pay := r.Bytes(n)
		ci.Msgs = append(ci.Msgs, msgIn{Seq: seq, Len: n, pay: pay})
		segs := segmentsOf(P, seq, pay)
		if len(segs) > 1 {
			multi = true
		}
		all = append(all, segs...)
	}
	kind := "perm"
	// arrival order: random interleaving, with loss
	perm := r.Perm(len(all))
	lossy := r.Chance(1, 3)
	inorder := true
	var t uint64
	last := -1
	for _, k := range perm {
		if lossy && r.Chance(1, 4) {
			kind = "loss"
			continue
		}
		if k < last {
			inorder = false
		}
		last = k
		t += uint64(r.Intn(3))
		ci.Evs = append(ci.Evs, ev{T: t, Raw: all[k]})
	}
	// malformed traffic
	if r.Chance(1, 3) {
		kind += "+malformed"
		nmal := 1 + r.Intn(3)
		for i := 0; i < nmal; i++ {
			var raw []byte
			switch r.Intn(3) {
			case 0: // shorter than the header
				raw = r.Bytes(r.Intn(8))
			case 1: // index beyond the announced count, fresh sequence number
				var seq uint32
				for {
					seq = uint32(r.U64())
					if !seqs[seq] {
						break
					}
				}
				mx := r.Intn(4)
				idx := mx + 1 + r.Intn(3)
				raw = []byte{byte(seq >> 24), byte(seq >> 16), byte(seq >> 8), byte(seq), 0, byte(mx), 0, byte(idx)}
				raw = append(raw, r.Bytes(r.Intn(4))...)
			default: // arbitrary bytes, sequence number forced fresh when long enough
				raw = r.Bytes(r.Intn(14))
				if len(raw) >= 8 {
					s := uint32(raw[0])<<24 | uint32(raw[1])<<16 | uint32(raw[2])<<8 | uint32(raw[3])
					if seqs[s] {
						raw[0] ^= 0x55
						s2 := uint32(raw[0])<<24 | uint32(raw[1])<<16 | uint32(raw[2])<<8 | uint32(raw[3])
						if seqs[s2] {
							raw = raw[:7]
						}
					}
					raw[4] = 0 // keep the announced count small
				}
			}
			pos := r.Intn(len(ci.Evs) + 1)
			var tt uint64
			if pos > 0 {
				tt = ci.Evs[pos-1].T
			}
			ci.Evs = append(ci.Evs[:pos], append([]ev{{T: tt, Raw: raw}}, ci.Evs[pos:]...)...)
		}
	}
	// duplicates and expiry events (outside the property's quantifier for the predicate; the
	// correspondence with the model is still checked)
	if r.Chance(1, 8) && len(ci.Evs) > 0 {
		kind += "+dup"
		pos := r.Intn(len(ci.Evs))
		ci.Evs = append(ci.Evs, ev{T: ci.Evs[len(ci.Evs)-1].T, Raw: ci.Evs[pos].Raw})
	}
	if r.Chance(1, 5) && len(ci.Evs) > 0 {
		kind += "+expire"
		pos := 1 + r.Intn(len(ci.Evs))
		tt := ci.Evs[pos-1].T + ci.Ex - 2 + uint64(r.Intn(5))
		rest := append([]ev(nil), ci.Evs[pos:]...)
		ci.Evs = append(ci.Evs[:pos], ev{Expire: true, T: tt})
		for _, e := range rest {
			if e.T < tt {
				e.T = tt
			}
			ci.Evs = append(ci.Evs, e)
		}
	}
	nontrivial := multi && (!inorder || lossy || nm > 1)
	return ci, kind, nontrivial
}

// genHostileOpen: a message IN FLIGHT (k of its n >= 2 segments delivered, its buffer open) and then
// a hostile datagram with the SAME sequence number:
//   0: a larger announced max index m' > m, index in (m, m']   (beyond the open buffer)
//   1: a smaller announced max index, index within it
//   2: the same max index, index > m
//   3: an index already received, different payload (a duplicate: outside the property's
//      quantifier, the correspondence with the model is still checked)
// followed by the remaining genuine segments.  The open buffer was sized from the FIRST datagram;
// the range check has to be made against the buffer (Model/Segment.v receive_d does).
func genHostileOpen(r *rng.R, variant int) (*caseIn, string, bool) {
	P := 1 + r.Intn(4)
	ci := &caseIn{P: P, Ex: uint64(50 + r.Intn(50))}
	seq := uint32(r.U64())
	if r.Chance(1, 4) {
		seq = uint32(r.Intn(3))
	}
	n := 2 + r.Intn(4) // segments
	size := (n-1)*P + r.Intn(P)
	if size == 0 {
		size = 1
	}
	pay := r.Bytes(size)
	ci.Msgs = append(ci.Msgs, msgIn{Seq: seq, Len: size, pay: pay})
	segs := segmentsOf(P, seq, pay)
	n = len(segs)
	m := n - 1 // announced max index
	perm := r.Perm(n)
	k := 1 + r.Intn(n-1)
	hdr := func(mx, idx int, body []byte) []byte {
		raw := []byte{byte(seq >> 24), byte(seq >> 16), byte(seq >> 8), byte(seq), byte(mx >> 8), byte(mx), byte(idx >> 8), byte(idx)}
		return append(raw, body...)
	}
	var hostile []byte
	switch variant {
	case 0:
		mx := m + 1 + r.Intn(4)
		if r.Chance(1, 5) {
			mx = 65535
		}
		idx := m + 1 + r.Intn(mx-m)
		hostile = hdr(mx, idx, r.Bytes(r.Intn(P+1)))
	case 1:
		mx := r.Intn(m)
		hostile = hdr(mx, r.Intn(mx+1), r.Bytes(r.Intn(P+1)))
	case 2:
		hostile = hdr(m, m+1+r.Intn(5), r.Bytes(r.Intn(P+1)))
	default:
		hostile = hdr(m, perm[r.Intn(k)], r.Bytes(1+r.Intn(P)))
	}
	var t uint64
	for i, j := range perm {
		if i == k {
			ci.Evs = append(ci.Evs, ev{T: t, Raw: hostile})
			if r.Chance(1, 3) { // and once more
				ci.Evs = append(ci.Evs, ev{T: t, Raw: hostile})
			}
		}
		t += uint64(r.Intn(3))
		ci.Evs = append(ci.Evs, ev{T: t, Raw: segs[j]})
	}
	return ci, fmt.Sprintf("hostile-open-buffer-%d", variant), true
}

// exhaustive: one message of n segments, every subset of its segments in every order
func genExhaustive(P, n int, seq uint32, add func(*caseIn, string, bool)) {
	size := (n-1)*P + 1
	if n == 1 {
		size = P
	}
	pay := make([]byte, size)
	for i := range pay {
		pay[i] = byte(i + 1)
	}
	segs := segmentsOf(P, seq, pay)
	if len(segs) != n {
		panic(fmt.Sprintf("exhaustive: expected %d segments, got %d", n, len(segs)))
	}
	var rec func(used []bool, order []int)
	rec = func(used []bool, order []int) {
		ci := &caseIn{P: P, Ex: 100, Msgs: []msgIn{{Seq: seq, Len: size, pay: pay}}}
		for i, k := range order {
			ci.Evs = append(ci.Evs, ev{T: uint64(i), Raw: segs[k]})
		}
		add(ci, fmt.Sprintf("exhaustive-n%d", n), n >= 2 && len(order) >= 1)
		for k := 0; k < n; k++ {
			if !used[k] {
				used[k] = true
				rec(used, append(append([]int(nil), order...), k))
				used[k] = false
			}
		}
	}
	rec(make([]bool, n), nil)
}

// regressions that are too large for the Coq evaluator and are judged directly in Go
func directRegressions() []string {
	var bad []string
	// F20: 65536 segments (P=1, 65535+... bytes): largest message the sender accepts
	func() {
		defer func() {
			if r := recover(); r != nil {
				bad = append(bad, fmt.Sprintf("panic during 65536-segment round trip: %v", r))
			}
		}()
		P := 1
		restore := verifhooks.SegmentSetMaxPayloadSize(P)
		defer restore()
		for _, size := range []int{65534, 65535} {
			pay := make([]byte, size)
			for i := range pay {
				pay[i] = byte(i*7 + 3)
			}
			c := &collect{}
			if _, err := verifhooks.SegmentSendTo(c, 5, pay); err != nil {
				bad = append(bad, fmt.Sprintf("sender refused a %d-byte message with P=1 (max index %d): %v", size, size, err))
				continue
			}
			rb := &verifhooks.SegmentReadBuffers{ReadBuffer: map[uint32]*verifhooks.SegmentReadBuffer{}, ReadBufferExpiry: time.Second}
			var got []byte
			delivered := 0
			for i := len(c.out) - 1; i >= 0; i-- { // reverse order
				m, ok, _ := rb.Receive(c.out[i])
				if ok {
					delivered++
					got = m
				}
			}
			if delivered != 1 || string(got) != string(pay) {
				bad = append(bad, fmt.Sprintf("P=1, %d-byte message (%d segments): delivered %d times, equal=%v", size, len(c.out), delivered, string(got) == string(pay)))
			}
		}
		// one more than the limit must be refused
		c := &collect{}
		if _, err := verifhooks.SegmentSendTo(c, 6, make([]byte, 65536)); err == nil {
			bad = append(bad, "sender accepted a 65536-byte message with P=1 (max index 65536)")
		}
	}()
	return bad
}

func main() {
	seed := flag.Uint64("seed", 1, "seed")
	tier := flag.String("tier", "quick", "quick|thorough")
	out := flag.String("out", "", "output directory")
	replay := flag.String("replay", "", "replay file (JSON with an 'input' field)")
	flag.Parse()
	w := coqfmt.NewWriter(*out, "C14", "From Iscp Require Import Model.Segment.", "seg_case", "seg_judge", 250)

	add := func(ci *caseIn, kind string, nt bool) {
		for _, m := range ci.Msgs {
			ci.Pays = append(ci.Pays, m.pay)
		}
		term, obs, direct := runCase(ci)
		c := coqfmt.Case{Term: term, Input: ci, Observed: obs, Nontrivial: nt, Kind: kind, Direct: direct}
		if direct != "" {
			c.Term = "mkSegCase 1 1 [] [] [] [] []"
		}
		w.Add(c)
		w.Count(fmt.Sprintf("P:%d", ci.P))
		w.Count(fmt.Sprintf("msgs:%d", len(ci.Msgs)))
	}

	if *replay != "" {
		b, err := os.ReadFile(*replay)
		if err != nil {
			fmt.Fprintln(os.Stderr, err)
			os.Exit(2)
		}
		var rf struct {
			Input caseIn `json:"input"`
		}
		if err := json.Unmarshal(b, &rf); err != nil {
			fmt.Fprintln(os.Stderr, err)
			os.Exit(2)
		}
		ci := rf.Input
		for i := range ci.Msgs {
			if i < len(ci.Pays) {
				ci.Msgs[i].pay = ci.Pays[i]
			}
		}
		ci.Pays = nil
		add(&ci, "replay", true)
		if err := w.Flush(*seed, *tier, "replay of one recorded case", false, nil); err != nil {
			fmt.Fprintln(os.Stderr, err)
			os.Exit(2)
		}
		return
	}

	// 1. exhaustive small scope
	maxN := 5
	if *tier == "thorough" {
		maxN = 6
	}
	for n := 1; n <= maxN; n++ {
		genExhaustive(2, n, uint32(100+n), add)
	}
	// 2. random structured cases
	r := rng.New(*seed)
	nrand := 1500
	nbig := 6
	if *tier == "thorough" {
		nrand = 12000
		nbig = 40
	}
	for i := 0; i < nrand; i++ {
		cr := r.Fork()
		ci, kind, nt := genRandom(cr, false)
		add(ci, kind, nt)
	}
	nhost := 80
	if *tier == "thorough" {
		nhost = 1200
	}
	for i := 0; i < nhost; i++ {
		cr := r.Fork()
		ci, kind, nt := genHostileOpen(cr, i%4)
		add(ci, kind, nt)
	}
	for i := 0; i < nbig; i++ {
		cr := r.Fork()
		ci, kind, nt := genRandom(cr, true)
		add(ci, "defaultP-"+kind, nt)
	}
	extra := map[string]interface{}{}
	if bad := directRegressions(); len(bad) > 0 {
		extra["direct_regressions_failed"] = bad
		w.Add(coqfmt.Case{Term: "mkSegCase 1 1 [] [] [] [] []", Input: map[string]interface{}{"regression": "65536 segments with P=1, reverse order"}, Kind: "regression", Direct: bad[0]})
	} else {
		extra["direct_regressions"] = "P=1: 65534- and 65535-byte messages (65535/65536 segments) delivered once in reverse order; 65536 bytes refused"
	}
	rule := fmt.Sprintf("exhaustive: one message of n<=%d segments, every subset of segments in every order; random: 1-4 messages, P in 1..8 (and the default 1188), sizes at multiples of P +-1, random interleaving, loss 1/3, malformed 1/3 (short, index>max, arbitrary), duplicates 1/8, expiry events 1/5; hostile-open-buffer: a message in flight (k of n>=2 segments in), then a datagram with the same sequence number announcing a larger max index with an index beyond the open buffer / a smaller max index / the same max with an index beyond it / a received index with another payload, then the remaining genuine segments. non-trivial = some message has >=2 segments and the arrival is reordered, lossy or interleaved; distinct = distinct Coq case terms", maxN)
	if err := w.Flush(*seed, *tier, rule, false, extra); err != nil {
		fmt.Fprintln(os.Stderr, err)
		os.Exit(2)
	}
}

// h-race-workload: concurrent workloads for C09.  Built WITH -race by h-race and run for a time
// box; every race report on stderr is a violation.  Three workloads run side by side:
//
//	conn      - many goroutines on ONE iscp.Conn: upstreams opened / written / flushed / closed
//	            while others carry traffic, downstreams opened / read / closed, metadata and e2e
//	            calls, State() readers, link failures (loud and silent) with reconnect + resume,
//	            finally Conn.Close while traffic is still running;
//	reconnect - transport/reconnect over memtr: concurrent writers, a reader, counters, link cuts;
//	multi     - transport/multi over two memtr links: writers, reader, counters, both pollers.
package main

import (
	"context"
	"flag"
	"fmt"
	"os"
	"runtime"
	"sync"
	"sync/atomic"
	"time"

	"github.com/aptpod/iscp-go/iscp"
	"github.com/aptpod/iscp-go/message"
	"github.com/aptpod/iscp-go/transport"
	"github.com/aptpod/iscp-go/transport/multi"
	"github.com/aptpod/iscp-go/transport/nic"
	"github.com/aptpod/iscp-go/transport/reconnect"
	uuid "github.com/google/uuid"

	"verif/internal/broker"
	"verif/internal/memtr"
	"verif/internal/rng"
)

var ops atomic.Int64

func ctxms(n int) (context.Context, context.CancelFunc) {
	return context.WithTimeout(context.Background(), time.Duration(n)*time.Millisecond)
}

// ---------------------------------------------------------------- cooperative broker

type coop struct {
	mu       sync.Mutex
	alias    uint32
	downs    map[*broker.Session][]uint32
	nchunk   int
	maxDown  atomic.Uint32 // highest downstream alias seen so far (any session)
	metaSent atomic.Int64
}

var srcNodes = []string{"src0", "src1", "src2", "src3", "src4", "src5"}

// metaStream sends downstream metadata for every downstream alias that exists or is about to
// exist (the client hands out aliases in sequence and keeps them across a resume) and every source
// node, for as long as the session lives: the client registers the source nodes of a downstream
// one after another - on open and again on every resume - while metadata for the nodes that are
// already registered keeps arriving on the same alias.
func (c *coop) metaStream(s *broker.Session) {
	bt := &message.BaseTime{SessionID: "s", Name: "n", Priority: 1, BaseTime: time.Unix(1700000000, 0)}
	for i := 0; !s.Done(); i++ {
		hi := c.maxDown.Load() + 3
		lo := uint32(1)
		if hi > 8 {
			lo = hi - 8
		}
		for a := lo; a <= hi; a++ {
			if err := s.Send(&message.DownstreamMetadata{RequestID: 7001, StreamIDAlias: a, SourceNodeID: srcNodes[(i+int(a))%len(srcNodes)], Metadata: bt}); err != nil {
				return
			}
			c.metaSent.Add(1)
		}
		time.Sleep(150 * time.Microsecond)
	}
}

func (c *coop) sawDown(a uint32) {
	for {
		cur := c.maxDown.Load()
		if a <= cur || c.maxDown.CompareAndSwap(cur, a) {
			return
		}
	}
}

func (c *coop) handler(s *broker.Session, m message.Message) {
	switch v := m.(type) {
	case *message.ConnectRequest:
		broker.AcceptConnect(s, v)
		go c.metaStream(s)
	case *message.UpstreamOpenRequest:
		c.mu.Lock()
		c.alias++
		a := c.alias
		c.mu.Unlock()
		s.Send(&message.UpstreamOpenResponse{RequestID: v.RequestID, AssignedStreamID: uuid.New(), AssignedStreamIDAlias: a,
			ResultCode: message.ResultCodeSucceeded, ServerTime: time.Unix(1700000000, 0)})
	case *message.UpstreamResumeRequest:
		c.mu.Lock()
		c.alias++
		a := c.alias
		c.mu.Unlock()
		s.Send(&message.UpstreamResumeResponse{RequestID: v.RequestID, AssignedStreamIDAlias: a, ResultCode: message.ResultCodeSucceeded})
	case *message.UpstreamChunk:
		c.mu.Lock()
		c.nchunk++
		n := c.nchunk
		downs := append([]uint32(nil), c.downs[s]...)
		c.mu.Unlock()
		ack := &message.UpstreamChunkAck{StreamIDAlias: v.StreamIDAlias, Results: []*message.UpstreamChunkResult{
			{SequenceNumber: v.StreamChunk.SequenceNumber, ResultCode: message.ResultCodeSucceeded, ResultString: "OK"}}}
		if n%3 == 0 && len(v.DataIDs) > 0 {
			ack.DataIDAliases = map[uint32]*message.DataID{}
			for i, d := range v.DataIDs {
				ack.DataIDAliases[uint32(1000+n*8+i)] = d
			}
		}
		s.Send(ack)
		for _, a := range downs {
			s.Send(&message.DownstreamChunk{StreamIDAlias: a,
				UpstreamOrAlias: &message.UpstreamInfo{SessionID: "s", SourceNodeID: "src", StreamID: uuid.New()},
				StreamChunk: &message.StreamChunk{SequenceNumber: uint32(n), DataPointGroups: []*message.DataPointGroup{
					{DataIDOrAlias: &message.DataID{Name: "a", Type: "b"}, DataPoints: []*message.DataPoint{{ElapsedTime: 1, Payload: []byte{1}}}}}}})
		}
	case *message.UpstreamCloseRequest:
		s.Send(&message.UpstreamCloseResponse{RequestID: v.RequestID, ResultCode: message.ResultCodeSucceeded})
	case *message.DownstreamOpenRequest:
		c.mu.Lock()
		c.downs[s] = append(c.downs[s], v.DesiredStreamIDAlias)
		c.mu.Unlock()
		c.sawDown(v.DesiredStreamIDAlias)
		s.Send(&message.DownstreamOpenResponse{RequestID: v.RequestID, AssignedStreamID: uuid.New(), ResultCode: message.ResultCodeSucceeded,
			ServerTime: time.Unix(1700000000, 0)})
	case *message.DownstreamResumeRequest:
		c.mu.Lock()
		c.downs[s] = append(c.downs[s], v.DesiredStreamIDAlias)
		c.mu.Unlock()
		s.Send(&message.DownstreamResumeResponse{RequestID: v.RequestID, ResultCode: message.ResultCodeSucceeded})
	case *message.DownstreamCloseRequest:
		s.Send(&message.DownstreamCloseResponse{RequestID: v.RequestID, ResultCode: message.ResultCodeSucceeded})
	case *message.DownstreamChunkAck:
		s.Send(&message.DownstreamChunkAckComplete{StreamIDAlias: v.StreamIDAlias, AckID: v.AckID, ResultCode: message.ResultCodeSucceeded})
	case *message.UpstreamMetadata:
		s.Send(&message.UpstreamMetadataAck{RequestID: v.RequestID, ResultCode: message.ResultCodeSucceeded})
		c.mu.Lock()
		downs := append([]uint32(nil), c.downs[s]...)
		c.mu.Unlock()
		for _, a := range downs {
			s.Send(&message.DownstreamMetadata{RequestID: 7001, StreamIDAlias: a, SourceNodeID: "src0",
				Metadata: &message.BaseTime{SessionID: "s", Name: "n", Priority: 1, BaseTime: time.Unix(1700000000, 0)}})
		}
	case *message.UpstreamCall:
		s.Send(&message.UpstreamCallAck{CallID: v.CallID, ResultCode: message.ResultCodeSucceeded})
		if v.RequestCallID == "" {
			s.Send(&message.DownstreamCall{CallID: "r-" + v.CallID, RequestCallID: v.CallID, SourceNodeID: "peer", Name: v.Name, Type: v.Type, Payload: []byte{1}})
			s.Send(&message.DownstreamCall{CallID: "q-" + v.CallID, SourceNodeID: "peer", Name: v.Name, Type: v.Type, Payload: []byte{2}})
		}
	}
}

// ---------------------------------------------------------------- workload 1: one iscp.Conn

func connWorkload(deadline time.Time, seed uint64, wg *sync.WaitGroup) {
	defer wg.Done()
	co := &coop{downs: map[*broker.Session][]uint32{}}
	b := broker.New(co.handler)
	defer b.Release()
	conn, err := iscp.Connect(b.Address, broker.TransportName,
		iscp.WithConnPingInterval(20*time.Millisecond), iscp.WithConnPingTimeout(40*time.Millisecond), iscp.WithConnNodeID("node"))
	if err != nil {
		fmt.Fprintln(os.Stderr, "workload: connect:", err)
		os.Exit(3)
	}
	alive := func() bool { return time.Now().Before(deadline) }
	var inner sync.WaitGroup
	spawn := func(f func(r *rng.R)) {
		inner.Add(1)
		r := rng.New(seed + uint64(ops.Add(1))*7919)
		go func() {
			defer inner.Done()
			defer func() { recover() }()
			f(r)
		}()
	}
	ids := []*message.DataID{{Name: "a", Type: "b"}, {Name: "c", Type: "d"}, {Name: "e", Type: "f"}}
	pt := func(i int) *message.DataPoint {
		return &message.DataPoint{ElapsedTime: time.Duration(i), Payload: []byte{byte(i), 2, 3}}
	}

	// short-lived upstreams: open / write / flush / state / close
	for k := 0; k < 3; k++ {
		k := k
		spawn(func(r *rng.R) {
			for alive() {
				ctx, cancel := ctxms(300)
				qos := message.QoSUnreliable
				if (k+r.Intn(2))%2 == 0 {
					qos = message.QoSReliable
				}
				up, err := conn.OpenUpstream(ctx, fmt.Sprintf("s%d", k), iscp.WithUpstreamQoS(qos),
					iscp.WithUpstreamFlushPolicyBufferSizeOnly(16), iscp.WithUpstreamCloseTimeout(100*time.Millisecond))
				cancel()
				if err != nil {
					time.Sleep(5 * time.Millisecond)
					continue
				}
				n := 2 + r.Intn(12)
				for i := 0; i < n; i++ {
					ctx, cancel := ctxms(100)
					up.WriteDataPoints(ctx, ids[r.Intn(3)], pt(i))
					if r.Intn(4) == 0 {
						up.Flush(ctx)
					}
					if r.Intn(5) == 0 {
						up.State()
					}
					cancel()
					ops.Add(1)
				}
				ctx, cancel = ctxms(300)
				up.Close(ctx)
				cancel()
			}
		})
	}
	// long-lived upstreams carrying traffic all the time, with State() readers beside them
	for k := 0; k < 2; k++ {
		k := k
		spawn(func(r *rng.R) {
			for alive() {
				ctx, cancel := ctxms(300)
				up, err := conn.OpenUpstream(ctx, fmt.Sprintf("long%d", k), iscp.WithUpstreamQoS(message.QoSReliable),
					iscp.WithUpstreamFlushPolicyIntervalOrBufferSize(3*time.Millisecond, 64), iscp.WithUpstreamCloseTimeout(100*time.Millisecond))
				cancel()
				if err != nil {
					time.Sleep(5 * time.Millisecond)
					continue
				}
				stop := make(chan struct{})
				go func() {
					for {
						select {
						case <-stop:
							return
						default:
							up.State()
							time.Sleep(time.Millisecond)
						}
					}
				}()
				t0 := time.Now()
				for i := 0; alive() && time.Since(t0) < 700*time.Millisecond; i++ {
					ctx, cancel := ctxms(100)
					err := up.WriteDataPoints(ctx, ids[i%3], pt(i), pt(i+1))
					cancel()
					ops.Add(1)
					if err != nil {
						time.Sleep(2 * time.Millisecond)
					}
					if i%16 == 0 {
						time.Sleep(time.Millisecond)
					}
				}
				close(stop)
				ctx, cancel = ctxms(300)
				up.Close(ctx)
				cancel()
			}
		})
	}
	// upstreams with SLOW application hooks (send hook, ack hook, resumed / closed handlers) and the
	// immediate flush policy against a broker that acks at once: events keep being queued
	// (addHandler) while the stream's event dispatcher is delivering an earlier batch
	for k := 0; k < 2; k++ {
		k := k
		spawn(func(r *rng.R) {
			var napN atomic.Int64 // the hooks run on library goroutines: no shared PRNG here
			nap := func() {
				n := napN.Add(1)
				if n%3 == 0 {
					runtime.Gosched()
				} else {
					time.Sleep(time.Duration(1+n%5) * time.Millisecond)
				}
			}
			for alive() {
				ctx, cancel := ctxms(300)
				up, err := conn.OpenUpstream(ctx, fmt.Sprintf("hook%d", k), iscp.WithUpstreamQoS(message.QoSReliable),
					iscp.WithUpstreamFlushPolicyImmediately(), iscp.WithUpstreamCloseTimeout(100*time.Millisecond),
					iscp.WithUpstreamSendDataPointsHooker(iscp.SendDataPointsHookerFunc(func(uuid.UUID, iscp.UpstreamChunk) { nap() })),
					iscp.WithUpstreamReceiveAckHooker(iscp.ReceiveAckHookerFunc(func(uuid.UUID, iscp.UpstreamChunkResult) { nap() })),
					iscp.WithUpstreamResumedEventHandler(iscp.UpstreamResumedEventHandlerFunc(func(*iscp.UpstreamResumedEvent) { nap() })),
					iscp.WithUpstreamClosedEventHandler(iscp.UpstreamClosedEventHandlerFunc(func(*iscp.UpstreamClosedEvent) { nap() })))
				cancel()
				if err != nil {
					time.Sleep(5 * time.Millisecond)
					continue
				}
				t0 := time.Now()
				for i := 0; alive() && time.Since(t0) < 400*time.Millisecond; i++ {
					ctx, cancel := ctxms(100)
					up.WriteDataPoints(ctx, ids[i%3], pt(i))
					cancel()
					ops.Add(1)
					if i%8 == 0 {
						time.Sleep(200 * time.Microsecond)
					}
				}
				ctx, cancel = ctxms(300)
				up.Close(ctx)
				cancel()
			}
		})
	}
	// downstreams: open / read / read metadata / state / close
	for k := 0; k < 2; k++ {
		spawn(func(r *rng.R) {
			for alive() {
				ctx, cancel := ctxms(300)
				// 3-6 filters of distinct source nodes, with duplicates now and then
				var filters []*message.DownstreamFilter
				nf := 3 + r.Intn(4)
				for i := 0; i < nf; i++ {
					filters = append(filters, message.NewDownstreamFilterAllFor(srcNodes[i]))
				}
				if r.Intn(3) == 0 {
					filters = append(filters, message.NewDownstreamFilterAllFor(srcNodes[r.Intn(nf)]))
				}
				down, err := conn.OpenDownstream(ctx, filters,
					iscp.WithDownstreamAckFlushInterval(5*time.Millisecond), iscp.WithDownstreamQoS(message.QoSReliable),
					iscp.WithDownstreamResumedEventHandler(iscp.DownstreamResumedEventHandlerFunc(func(*iscp.DownstreamResumedEvent) { time.Sleep(2 * time.Millisecond) })),
					iscp.WithDownstreamClosedEventHandler(iscp.DownstreamClosedEventHandlerFunc(func(*iscp.DownstreamClosedEvent) { time.Sleep(2 * time.Millisecond) })))
				cancel()
				if err != nil {
					time.Sleep(5 * time.Millisecond)
					continue
				}
				n := 5 + r.Intn(30)
				for i := 0; i < n && alive(); i++ {
					ctx, cancel := ctxms(30)
					down.ReadDataPoints(ctx)
					cancel()
					if i%4 == 0 {
						ctx, cancel := ctxms(5)
						down.ReadMetadata(ctx)
						cancel()
						down.State()
					}
					ops.Add(1)
				}
				ctx, cancel = ctxms(300)
				down.Close(ctx)
				cancel()
			}
		})
	}
	// metadata
	spawn(func(r *rng.R) {
		for alive() {
			ctx, cancel := ctxms(200)
			conn.SendBaseTime(ctx, &message.BaseTime{SessionID: "s", Name: "n", Priority: 1, BaseTime: time.Unix(1700000000, 0)})
			cancel()
			ops.Add(1)
			time.Sleep(time.Duration(1+r.Intn(3)) * time.Millisecond)
		}
	})
	// e2e calls
	for k := 0; k < 2; k++ {
		spawn(func(r *rng.R) {
			for alive() {
				ctx, cancel := ctxms(200)
				if r.Bool() {
					conn.SendCallAndWaitReplayCall(ctx, &iscp.UpstreamCall{DestinationNodeID: "peer", Name: "n", Type: "t", Payload: []byte{1}})
				} else {
					conn.SendReplyCall(ctx, &iscp.UpstreamReplyCall{RequestCallID: "rq", DestinationNodeID: "peer", Name: "n", Type: "t", Payload: []byte{1}})
				}
				cancel()
				ops.Add(1)
				time.Sleep(time.Millisecond)
			}
		})
	}
	spawn(func(r *rng.R) {
		for alive() {
			ctx, cancel := ctxms(20)
			conn.ReceiveCall(ctx)
			cancel()
			ctx, cancel = ctxms(20)
			conn.ReceiveReplyCall(ctx)
			cancel()
		}
	})
	// link failures
	spawn(func(r *rng.R) {
		for alive() {
			time.Sleep(time.Duration(120+r.Intn(200)) * time.Millisecond)
			if s := b.Current(); s != nil {
				if r.Intn(3) == 0 {
					s.Link.Sever(memtr.Silent)
				} else {
					s.Link.Sever(memtr.Loud)
				}
			}
		}
	})
	// Close while the others are still running (they stop at the deadline, Close comes a little earlier)
	time.Sleep(time.Until(deadline) - 150*time.Millisecond)
	ctx, cancel := ctxms(1000)
	conn.Close(ctx)
	cancel()
	waitTimeout(&inner, 3*time.Second)
}

func waitTimeout(wg *sync.WaitGroup, d time.Duration) {
	ch := make(chan struct{})
	go func() { wg.Wait(); close(ch) }()
	select {
	case <-ch:
	case <-time.After(d):
	}
}

// ---------------------------------------------------------------- echo peer over memtr links

type echoDialer struct {
	mu     sync.Mutex
	links  []*memtr.Link
	params transport.NegotiationParams
	ping   bool
}

func (d *echoDialer) Dial(c transport.DialConfig) (transport.Transport, error) {
	l := memtr.NewLink(d.params)
	d.mu.Lock()
	d.links = append(d.links, l)
	d.mu.Unlock()
	srv := l.Server()
	if c.Reconnect {
		srv.Write([]byte("hello")) // the reconnect transport reads one message after a redial
	}
	go func() {
		n := 0
		for {
			bs, err := srv.Read()
			if err != nil {
				return
			}
			if reconnect.IsPong(bs) {
				continue
			}
			srv.Write(bs)
			n++
			if d.ping && n%7 == 0 {
				srv.Write(reconnect.PingMessage)
			}
		}
	}()
	return l.Client(), nil
}

func (d *echoDialer) current() *memtr.Link {
	d.mu.Lock()
	defer d.mu.Unlock()
	if len(d.links) == 0 {
		return nil
	}
	return d.links[len(d.links)-1]
}

func useTransport(tr transport.Transport, deadline time.Time, inner *sync.WaitGroup, writers int) {
	alive := func() bool { return time.Now().Before(deadline) }
	for k := 0; k < writers; k++ {
		k := k
		inner.Add(1)
		go func() {
			defer inner.Done()
			defer func() { recover() }()
			for i := 0; alive(); i++ {
				if err := tr.Write([]byte{byte(k), byte(i), 1, 2, 3}); err != nil {
					time.Sleep(time.Millisecond)
				}
				ops.Add(1)
				if i%32 == 0 {
					time.Sleep(time.Millisecond)
				}
			}
		}()
	}
	inner.Add(1)
	go func() {
		defer inner.Done()
		defer func() { recover() }()
		for alive() {
			if _, err := tr.Read(); err != nil {
				time.Sleep(time.Millisecond)
			}
		}
	}()
	inner.Add(1)
	go func() {
		defer inner.Done()
		defer func() { recover() }()
		for alive() {
			tr.RxBytesCounterValue()
			tr.TxBytesCounterValue()
			tr.NegotiationParams()
			tr.Name()
			tr.AsUnreliable()
			time.Sleep(time.Millisecond)
		}
	}()
}

// ---------------------------------------------------------------- workload 2: transport/reconnect

func reconnectWorkload(deadline time.Time, seed uint64, wg *sync.WaitGroup) {
	defer wg.Done()
	r := rng.New(seed ^ 0x5151)
	for time.Now().Before(deadline) {
		round := time.Now().Add(2 * time.Second)
		if round.After(deadline) {
			round = deadline
		}
		d := &echoDialer{params: transport.NegotiationParams{Encoding: transport.EncodingNameProtobuf}, ping: true}
		tr, err := reconnect.Dial(reconnect.DialConfig{Dialer: d, MaxReconnectAttempts: 50, ReconnectInterval: 2 * time.Millisecond})
		if err != nil {
			fmt.Fprintln(os.Stderr, "workload: reconnect dial:", err)
			os.Exit(3)
		}
		var inner sync.WaitGroup
		useTransport(tr, round, &inner, 4)
		inner.Add(1)
		go func() {
			defer inner.Done()
			for time.Now().Before(round) {
				time.Sleep(time.Duration(20+r.Intn(60)) * time.Millisecond)
				if l := d.current(); l != nil {
					l.Sever(memtr.Loud)
				}
			}
		}()
		time.Sleep(time.Until(round) - 50*time.Millisecond)
		tr.Close() // while writers and reader are still active
		waitTimeout(&inner, 2*time.Second)
	}
}

// ---------------------------------------------------------------- workload 3: transport/multi

type fixedPoller struct {
	n   atomic.Int64
	ids []transport.TransportID
}

func (p *fixedPoller) Get() transport.TransportID {
	return p.ids[int(p.n.Add(1))%len(p.ids)]
}

// mixedPoller is an application-defined Poller composed of the exported LastUsedPoller and a
// fixed rotation (prefer the member that was read last, but probe the others now and then)
type mixedPoller struct {
	last *multi.LastUsedPoller
	fix  *fixedPoller
	n    atomic.Int64
}

func (p *mixedPoller) SetMultiTransport(tr *multi.Transport) { p.last.SetMultiTransport(tr) }
func (p *mixedPoller) Get() transport.TransportID {
	if p.n.Add(1)%2 == 0 {
		return p.fix.Get()
	}
	return p.last.Get()
}

func multiWorkload(deadline time.Time, seed uint64, wg *sync.WaitGroup) {
	defer wg.Done()
	for round := 0; time.Now().Before(deadline); round++ {
		end := time.Now().Add(1500 * time.Millisecond)
		if end.After(deadline) {
			end = deadline
		}
		tm := multi.TransportMap{}
		for i, id := range []transport.TransportID{"a", "b"} {
			d := &echoDialer{params: transport.NegotiationParams{Encoding: transport.EncodingNameProtobuf, TransportID: id,
				TransportGroupID: "g", TransportGroupTotalCount: 2, TransportGroupIndex: i}}
			t, _ := d.Dial(transport.DialConfig{})
			tm[id] = t
		}
		var poller multi.Poller
		switch round % 4 {
		case 0:
			poller = multi.NewLastReadPoller()
		case 1:
			poller = &fixedPoller{ids: []transport.TransportID{"a", "b", "zzz"}}
		case 2:
			poller = &mixedPoller{last: multi.NewLastReadPoller(), fix: &fixedPoller{ids: []transport.TransportID{"a", "b"}}}
		}
		cfg := multi.TransportConfig{TransportMap: tm, InitialTransportID: "a", SchedulerMode: multi.SchedulerModePolling}
		if poller != nil {
			cfg.PollingScheduler = &multi.PollingScheduler{Poller: poller, Interval: time.Millisecond}
		}
		tr, err := multi.NewTransport(cfg)
		if err != nil {
			fmt.Fprintln(os.Stderr, "workload: multi:", err)
			os.Exit(3)
		}
		var inner sync.WaitGroup
		useTransport(tr, end, &inner, 3)
		time.Sleep(time.Until(end) - 30*time.Millisecond)
		tr.Close()
		waitTimeout(&inner, 2*time.Second)
	}
}

// ---------------------------------------------------------------- workload 4: transport/nic Manager

// many subscribers, NIC change events in flight, Close while they are being delivered
func nicWorkload(deadline time.Time, seed uint64, wg *sync.WaitGroup) {
	defer wg.Done()
	r := rng.New(seed ^ 0x9191)
	for time.Now().Before(deadline) {
		m := nic.OpenManager([]string{"eth0", "eth1", "wlan0"}, "eth0")
		n := 8 + r.Intn(40)
		for i := 0; i < n; i++ {
			m.Subscribe()
		}
		stop := make(chan struct{})
		go func() {
			names := m.GetNICNames()
			for i := 0; ; i++ {
				select {
				case <-stop:
					return
				default:
					m.ChangeNIC(names[i%len(names)])
					m.GetCurrentNIC()
					ops.Add(1)
				}
			}
		}()
		time.Sleep(time.Duration(200+r.Intn(800)) * time.Microsecond)
		m.Close()
		close(stop)
		time.Sleep(200 * time.Microsecond)
	}
}

func main() {
	dur := flag.Int("dur", 10, "seconds")
	seed := flag.Uint64("seed", 1, "seed")
	which := flag.String("which", "all", "all|conn|reconnect|multi|nic")
	flag.Parse()
	deadline := time.Now().Add(time.Duration(*dur) * time.Second)
	var wg sync.WaitGroup
	if *which == "all" || *which == "conn" {
		// several connections one after the other, so that Close / reconnect happen many times
		wg.Add(1)
		go func() {
			defer wg.Done()
			for i := 0; time.Now().Before(deadline.Add(-500 * time.Millisecond)); i++ {
				end := time.Now().Add(4 * time.Second)
				if end.After(deadline) {
					end = deadline
				}
				var w sync.WaitGroup
				w.Add(1)
				connWorkload(end, *seed+uint64(i)*104729, &w)
			}
		}()
	}
	if *which == "all" || *which == "reconnect" {
		wg.Add(1)
		go reconnectWorkload(deadline, *seed, &wg)
	}
	// (not part of "all": Manager.Close can panic a concurrent event delivery - send on closed channel -
	// which would take the other workloads down with it; the driver runs it in processes of its own)
	if *which == "nic" {
		wg.Add(1)
		go nicWorkload(deadline, *seed, &wg)
	}
	if *which == "all" || *which == "multi" {
		wg.Add(1)
		go multiWorkload(deadline, *seed, &wg)
	}
	waitTimeout(&wg, time.Duration(*dur)*time.Second+8*time.Second)
	fmt.Fprintf(os.Stderr, "WORKLOAD-OPS %d\n", ops.Load())
}

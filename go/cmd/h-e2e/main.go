// h-e2e: correspondence harness for C16 (end-to-end calls of iscp.Conn: SendCall, SendReplyCall,
// SendCallAndWaitReplayCall, ReceiveCall, ReceiveReplyCall and the two dispatch loops) against
// the second half of Model/Correlate.v.  Drives the real iscp.Conn over the in-memory transport
// with a scripted broker: concurrent callers, acks and replies in scripted permutations (reply
// before ack, unknown ids, duplicated acks, negative acks), incoming calls and replies, inbox
// overflow, cancellation, connection close, and a reconnect between call and ack.
package main

import (
	"context"
	"encoding/json"
	stderrors "errors"
	"flag"
	"fmt"
	"os"
	"strconv"
	"strings"
	"sync"
	"sync/atomic"
	"time"

	ierrors "github.com/aptpod/iscp-go/errors"
	"github.com/aptpod/iscp-go/iscp"
	"github.com/aptpod/iscp-go/message"

	"verif/internal/broker"
	"verif/internal/coqfmt"
	"verif/internal/memtr"
	"verif/internal/rng"
)

// Watchdog for every wait of the harness (library calls, awaited effects, setup, teardown): nothing
// waits unboundedly.  It starts at wdBase and shrinks to 300 ms once three waits have expired in
// one run: a change that makes the library hang must not turn the run into hundreds of full-length
// waits (every expiry is already a direct violation of its case, and that case is abandoned).
var wdBase = 4 * time.Second // VERIF_WD_MS overrides
var wdExpired int32

func wd() time.Duration {
	if atomic.LoadInt32(&wdExpired) >= 3 && wdBase > 300*time.Millisecond {
		return 300 * time.Millisecond
	}
	return wdBase
}
func noteExpiry() { atomic.AddInt32(&wdExpired, 1) }

func waitFor(cond func() bool) bool {
	if broker.WaitFor(wd(), cond) {
		return true
	}
	noteExpiry()
	return false
}

func guarded(f func()) bool {
	done := make(chan struct{})
	go func() { defer close(done); f() }()
	select {
	case <-done:
		return true
	case <-time.After(wd()):
		noteExpiry()
		return false
	}
}

const (
	kCall = iota
	kReply
	kCallWait
)

// ---------------------------------------------------------------- case description (JSON, replayable)

type step struct {
	Op      string `json:"op"` // call | ack | reply | in | cancel | recv | recvreply | close | reconnect
	Callers []int  `json:"callers,omitempty"`
	T       int    `json:"t"`                 // target caller (ack, reply, cancel)
	Code    int    `json:"code,omitempty"`    // ack: 0 = Succeeded, otherwise a message.ResultCode value >= 2
	M       int    `json:"m,omitempty"`       // marker
	Unknown bool   `json:"unknown,omitempty"` // ack / reply bearing an id nobody waits for
	N       int    `json:"n,omitempty"`       // in / recv / recvreply: how many
}

type caseIn struct {
	Kinds []int  `json:"kinds"`
	Steps []step `json:"steps"`
	Ping  bool   `json:"ping,omitempty"`
	Slow  bool   `json:"slow,omitempty"` // the transport's Write returns 300us after it accepted the bytes
	// id-burst cases: Rounds rounds, each on a fresh connection: N callers of the three send APIs
	// released by one barrier; the broker acknowledges (and, for call-and-wait, answers) every call
	// at once.  Call ids come from the library's own generator.
	Rounds int `json:"rounds,omitempty"`
	N      int `json:"n,omitempty"`
}

// ---------------------------------------------------------------- history

type ev struct {
	k       byte // C(all) A(ck) I(n) W(ake) X(cancel) L(close) S(eeClosed) r(ecv call) p(recv reply)
	t       int  // script caller
	id      int  // canonical call id
	code, m int
	d       [3]int
}

type caller struct {
	kind     int
	ctx      context.Context
	cancel   context.CancelFunc
	done     chan struct{}
	st       string // Coq estatus
	direct   string
	callID   string // as seen by the broker
	canon    int
	arrived  bool
	started  bool
	returned bool
	ackedOK  bool
	acked    bool
	replied  bool
	gate     chan struct{} // when set, the caller enters the API only after it is closed (barrier)
}

type env struct {
	mu      sync.Mutex
	log     []ev
	callers []*caller
	canon   map[string]int
	ncanon  int
	sent    [][2]int
	b       *broker.Broker
}

func (e *env) canonID(s string) int {
	if s == "" {
		return 0
	}
	if strings.HasPrefix(s, "rq") {
		n, _ := strconv.Atoi(s[2:])
		return 100000 + n
	}
	if strings.HasPrefix(s, "in") {
		n, _ := strconv.Atoi(s[2:])
		return 200000 + n
	}
	if strings.HasPrefix(s, "zz") {
		n, _ := strconv.Atoi(s[2:])
		return 300000 + n
	}
	if v, ok := e.canon[s]; ok {
		return v
	}
	e.ncanon++
	e.canon[s] = e.ncanon
	return e.ncanon
}

func name(t int) string { return fmt.Sprintf("c%d", t) }

func (e *env) onMsg(s *broker.Session, m message.Message) {
	switch v := m.(type) {
	case *message.ConnectRequest:
		broker.AcceptConnect(s, v)
	case *message.UpstreamCall:
		t := -1
		if strings.HasPrefix(v.Name, "c") {
			t, _ = strconv.Atoi(v.Name[1:])
		}
		e.mu.Lock()
		id := e.canonID(v.CallID)
		req := e.canonID(v.RequestCallID)
		if t >= 0 && t < len(e.callers) {
			c := e.callers[t]
			c.callID, c.canon, c.arrived = v.CallID, id, true
		}
		e.log = append(e.log, ev{k: 'C', t: t, id: id})
		e.sent = append(e.sent, [2]int{id, req})
		e.mu.Unlock()
	}
}

func dcallTerm(d [3]int) string { return fmt.Sprintf("(%d,%d,%d)", d[0], d[1], d[2]) }

func (e *env) canonCode(c message.ResultCode) int {
	if c == message.ResultCodeSucceeded {
		return 0
	}
	return int(c)
}

func payloadOf(m int) []byte { return []byte(fmt.Sprintf("p%d", m)) }
func markerOfPayload(name, typ, src string, p []byte, m0 string) int {
	s := string(p)
	if !strings.HasPrefix(s, "p") || typ != "ty" || src != "src" || name != "nm"+s[1:] {
		return 999999 // modified in transit
	}
	n, err := strconv.Atoi(s[1:])
	if err != nil {
		return 999999
	}
	return n
}

func (e *env) startCaller(conn *iscp.Conn, t int) {
	c := e.callers[t]
	c.started = true
	go func() {
		defer close(c.done)
		defer func() {
			if r := recover(); r != nil {
				c.st, c.direct = "EWaitAck", fmt.Sprint("panic: ", r)
			}
		}()
		var err error
		var reply *iscp.DownstreamReplyCall
		var callID string
		if c.gate != nil {
			<-c.gate
		}
		switch c.kind {
		case kCall:
			callID, err = conn.SendCall(c.ctx, &iscp.UpstreamCall{DestinationNodeID: "dst", Name: name(t), Type: "ty", Payload: payloadOf(t)})
		case kReply:
			callID, err = conn.SendReplyCall(c.ctx, &iscp.UpstreamReplyCall{RequestCallID: fmt.Sprintf("rq%d", t), DestinationNodeID: "dst", Name: name(t), Type: "ty", Payload: payloadOf(t)})
		default:
			reply, err = conn.SendCallAndWaitReplayCall(c.ctx, &iscp.UpstreamCall{DestinationNodeID: "dst", Name: name(t), Type: "ty", Payload: payloadOf(t)})
		}
		var fe *ierrors.FailedMessageError
		var fv ierrors.FailedMessageError
		switch {
		case err == nil && c.kind != kCallWait:
			c.st = "(EDone RAcked)"
			e.mu.Lock()
			own := c.callID
			e.mu.Unlock()
			if callID != own {
				c.direct = fmt.Sprintf("caller %d: returned call id %q, the broker saw %q", t, callID, own)
			}
		case err == nil:
			e.mu.Lock()
			d := [3]int{e.canonID(reply.CallID), e.canonID(reply.RequestCallID), markerOfPayload(reply.Name, reply.Type, reply.SourceNodeID, reply.Payload, "")}
			e.mu.Unlock()
			c.st = fmt.Sprintf("(EDone (RGotReply %s))", dcallTerm(d))
		case stderrors.As(err, &fe):
			c.st = fmt.Sprintf("(EDone (RFailed %d %d))", e.canonCode(fe.ResultCode), markerNum(fe.ResultString))
		case stderrors.As(err, &fv):
			c.st = fmt.Sprintf("(EDone (RFailed %d %d))", e.canonCode(fv.ResultCode), markerNum(fv.ResultString))
		case stderrors.Is(err, context.Canceled) || stderrors.Is(err, context.DeadlineExceeded):
			c.st = "(EDone RCancelled)"
		case stderrors.Is(err, ierrors.ErrConnectionClosed):
			c.st = "(EDone RClosed)"
		case c.kind == kCallWait && strings.HasPrefix(err.Error(), "m"):
			c.st = fmt.Sprintf("(EDone (RFailed 0 %d))", markerNum(err.Error()))
		default:
			c.st, c.direct = "EWaitAck", "unexpected error: "+err.Error()
		}
	}()
}

func markerNum(s string) int {
	if !strings.HasPrefix(s, "m") {
		return 999999
	}
	n, err := strconv.Atoi(s[1:])
	if err != nil {
		return 999999
	}
	return n
}

func waitDone(c *caller, d time.Duration) bool {
	select {
	case <-c.done:
		return true
	case <-time.After(d):
		noteExpiry()
		return false
	}
}

// buildTerm prints one history and its observation as a Coq e2e_case
func buildTerm(e *env, lg []ev, outs []string, sent [][2]int, rcalls, rreplies [][3]int, drained bool) string {
	// model caller index = position of the caller's ECall in the history
	idx := map[int]int{}
	n := 0
	var outT []string
	for _, x := range lg {
		if x.k == 'C' {
			if x.t >= 0 {
				idx[x.t] = n
			}
			n++
			if x.t >= 0 && x.t < len(outs) && outs[x.t] != "" {
				outT = append(outT, "Some "+outs[x.t])
			} else {
				outT = append(outT, "None")
			}
		}
	}
	var evT []string
	for _, x := range lg {
		switch x.k {
		case 'C':
			k := "KCall"
			if x.t >= 0 && x.t < len(e.callers) {
				switch e.callers[x.t].kind {
				case kReply:
					k = fmt.Sprintf("(KReply %d)", 100000+x.t)
				case kCallWait:
					k = "KCallWait"
				}
			}
			evT = append(evT, fmt.Sprintf("ECall %s %d", k, x.id))
		case 'A':
			evT = append(evT, fmt.Sprintf("EAck %d %d %d", x.id, x.code, x.m))
		case 'I':
			evT = append(evT, "EIn "+dcallTerm(x.d))
		case 'W':
			if i, ok := idx[x.t]; ok {
				evT = append(evT, fmt.Sprintf("EWake %d", i))
			}
		case 'X':
			if i, ok := idx[x.t]; ok {
				evT = append(evT, fmt.Sprintf("ECancel %d", i))
			}
		case 'S':
			if i, ok := idx[x.t]; ok {
				evT = append(evT, fmt.Sprintf("ESeeClosed %d", i))
			}
		case 'L':
			evT = append(evT, "EClose")
		case 'r':
			evT = append(evT, "ERecvCall")
		case 'p':
			evT = append(evT, "ERecvReply")
		}
	}
	var sentT, rcT, rrT []string
	for _, s := range sent {
		sentT = append(sentT, fmt.Sprintf("(%d,%d)", s[0], s[1]))
	}
	for _, d := range rcalls {
		rcT = append(rcT, dcallTerm(d))
	}
	for _, d := range rreplies {
		rrT = append(rrT, dcallTerm(d))
	}
	return fmt.Sprintf("mkE2eCase %s %s %s %s %s %s", coqfmt.List(evT), coqfmt.List(outT), coqfmt.List(sentT), coqfmt.List(rcT), coqfmt.List(rrT), coqfmt.Bool(drained))
}

type result struct {
	term     string
	observed map[string]interface{}
	direct   string
	inflight int
	special  int
	ncalls   int
}

// ---------------------------------------------------------------- id bursts

func burstKind(round, i int) int {
	return []int{kCall, kCallWait, kReply, kCallWait, kCall}[(round*7+i*3+i/5)%5]
}

// one round: n callers released by one barrier on a fresh connection; every call is acknowledged
// at once (call-and-wait callers with an even index get their reply BEFORE the ack)
func runBurstRound(round, n int, seen map[string]int) (term string, directs []string) {
	e := &env{canon: map[string]int{}}
	gate := make(chan struct{})
	for i := 0; i < n; i++ {
		ctx, cancel := context.WithCancel(context.Background())
		e.callers = append(e.callers, &caller{kind: burstKind(round, i), ctx: ctx, cancel: cancel, done: make(chan struct{}), gate: gate})
	}
	var dupIDs []string
	inSeq := 0
	b := broker.New(func(s *broker.Session, m message.Message) {
		v, ok := m.(*message.UpstreamCall)
		if !ok {
			e.onMsg(s, m)
			return
		}
		t := -1
		if strings.HasPrefix(v.Name, "c") {
			t, _ = strconv.Atoi(v.Name[1:])
		}
		e.mu.Lock()
		defer e.mu.Unlock()
		if prev, dup := seen[v.CallID]; dup {
			dupIDs = append(dupIDs, fmt.Sprintf("%s (round %d caller %d, and before in round %d)", v.CallID, round, t, prev))
		}
		seen[v.CallID] = round
		id := e.canonID(v.CallID)
		req := e.canonID(v.RequestCallID)
		e.log = append(e.log, ev{k: 'C', t: t, id: id})
		e.sent = append(e.sent, [2]int{id, req})
		if t < 0 || t >= len(e.callers) {
			return
		}
		c := e.callers[t]
		c.callID, c.canon, c.arrived = v.CallID, id, true
		ack := func() {
			e.log = append(e.log, ev{k: 'A', id: id, code: 0, m: 5000 + t}, ev{k: 'W', t: t}, ev{k: 'W', t: t})
			s.Send(&message.UpstreamCallAck{CallID: v.CallID, ResultCode: message.ResultCodeSucceeded, ResultString: fmt.Sprintf("m%d", 5000+t)})
		}
		reply := func() {
			inSeq++
			cid := fmt.Sprintf("in%d", inSeq)
			m := 7000 + t
			e.log = append(e.log, ev{k: 'I', d: [3]int{e.canonID(cid), id, m}}, ev{k: 'W', t: t}, ev{k: 'W', t: t})
			s.Send(&message.DownstreamCall{CallID: cid, RequestCallID: v.CallID, SourceNodeID: "src", Name: fmt.Sprintf("nm%d", m), Type: "ty", Payload: payloadOf(m)})
		}
		switch {
		case c.kind != kCallWait:
			ack()
		case t%2 == 0:
			reply()
			ack()
		default:
			ack()
			reply()
		}
	})
	defer b.Release()
	var conn *iscp.Conn
	var cerr error
	if !guarded(func() {
		conn, cerr = iscp.Connect(b.Address, broker.TransportName, iscp.WithConnPingInterval(time.Hour), iscp.WithConnPingTimeout(time.Hour))
	}) {
		return "", []string{"Blocked: iscp.Connect did not return within the watchdog"}
	}
	if cerr != nil {
		return "", []string{"connection setup failed: " + cerr.Error()}
	}
	for t := range e.callers {
		e.startCaller(conn, t)
	}
	time.Sleep(50 * time.Microsecond) // let the goroutines reach the barrier
	close(gate)
	deadline := time.Now().Add(wd())
	outs := make([]string, n)
	nblocked := 0
	for t, cl := range e.callers {
		left := time.Until(deadline)
		if left < time.Millisecond {
			left = time.Millisecond
		}
		if !waitDone(cl, left) {
			outs[t] = "EWaitAck"
			if nblocked < 3 {
				directs = append(directs, fmt.Sprintf("Blocked: round %d: caller %d (%s) did not return within the watchdog although the broker acknowledged every call at once", round, t, []string{"SendCall", "SendReplyCall", "SendCallAndWaitReplayCall"}[cl.kind]))
			}
			nblocked++
			continue
		}
		outs[t] = cl.st
		if cl.direct != "" {
			directs = append(directs, fmt.Sprintf("round %d: %s", round, cl.direct))
		}
		want := "(EDone RAcked)"
		if cl.kind == kCallWait {
			want = fmt.Sprintf("(EDone (RGotReply (%d,%d,%d)))", -1, cl.canon, 7000+t)
			// the reply's own call id is whatever the broker numbered it: compare request id and marker only
			var a, bq, m int
			if _, err := fmt.Sscanf(cl.st, "(EDone (RGotReply (%d,%d,%d)))", &a, &bq, &m); err == nil && bq == cl.canon && m == 7000+t {
				want = cl.st
			}
		}
		if cl.st != want && cl.direct == "" {
			directs = append(directs, fmt.Sprintf("round %d: caller %d (%s, call id %s) returned %s", round, t, []string{"SendCall", "SendReplyCall", "SendCallAndWaitReplayCall"}[cl.kind], cl.callID, cl.st))
		}
	}
	if nblocked > 3 {
		directs = append(directs, fmt.Sprintf("... and %d more callers of round %d", nblocked-3, round))
	}
	e.mu.Lock()
	lg := append([]ev(nil), e.log...)
	sent := append([][2]int(nil), e.sent...)
	for _, d := range dupIDs {
		directs = append(directs, "two UpstreamCall messages carried the same call id "+d)
	}
	e.mu.Unlock()
	guarded(func() {
		ctx, cancel := context.WithTimeout(context.Background(), time.Second)
		defer cancel()
		conn.Close(ctx)
	})
	for _, cl := range e.callers {
		cl.cancel()
	}
	return buildTerm(e, lg, outs, sent, nil, nil, false), directs
}

func runBurst(c *caseIn) (res result) {
	seen := map[string]int{}
	var directs []string
	lastTerm := ""
	bad := 0
	for round := 0; round < c.Rounds; round++ {
		term, d := runBurstRound(round, c.N, seen)
		if len(d) > 0 {
			if bad == 0 && term != "" {
				res.term = term // the Coq judge sees the first round that went wrong
			}
			bad++
			if len(directs) < 12 {
				directs = append(directs, d...)
			}
			if bad >= 3 {
				directs = append(directs, fmt.Sprintf("case abandoned after round %d of %d", round, c.Rounds))
				break
			}
		}
		if term != "" {
			lastTerm = term
		}
	}
	if res.term == "" {
		res.term = lastTerm // every round was clean: the judge sees the last one
	}
	res.inflight = c.N
	res.special = 2
	res.ncalls = len(seen)
	res.observed = map[string]interface{}{"rounds": c.Rounds, "callers_per_round": c.N, "distinct_call_ids_on_the_wire": len(seen), "rounds_with_anomalies": bad}
	if len(directs) > 0 {
		res.direct = strings.Join(directs, "; ")
	}
	return
}

func runCase(c *caseIn) (res result) {
	if c.Rounds > 0 {
		return runBurst(c)
	}
	e := &env{canon: map[string]int{}}
	for _, k := range c.Kinds {
		ctx, cancel := context.WithCancel(context.Background())
		e.callers = append(e.callers, &caller{kind: k, ctx: ctx, cancel: cancel, done: make(chan struct{})})
	}
	b := broker.New(e.onMsg)
	e.b = b
	defer b.Release()
	pingInt := time.Hour
	pingTO := time.Hour
	if c.Ping {
		// a link that dies between a ping and its pong is only noticed by the ping timeout
		pingInt, pingTO = 2*time.Millisecond, 300*time.Millisecond
	}
	var conn *iscp.Conn
	errCh := make(chan error, 1)
	go func() {
		var err error
		conn, err = iscp.Connect(b.Address, broker.TransportName, iscp.WithConnPingInterval(pingInt), iscp.WithConnPingTimeout(pingTO))
		errCh <- err
	}()
	select {
	case err := <-errCh:
		if err != nil {
			res.direct = "connection setup failed: " + err.Error()
			return
		}
	case <-time.After(wd()):
		noteExpiry()
		res.direct = "Blocked: iscp.Connect did not return within the watchdog"
		return
	}
	if c.Slow {
		b.Current().Link.WriteDelay.Store(int64(300 * time.Microsecond))
	}
	closedConn := false
	defer func() {
		if !closedConn {
			ctx, cancel := context.WithTimeout(context.Background(), time.Second)
			defer cancel()
			go conn.Close(ctx)
		}
	}()
	send := func(m message.Message) error {
		err := b.Current().Send(m)
		if err != nil && os.Getenv("H_DEBUG") != "" {
			for _, s := range b.Sessions() {
				fmt.Fprintf(os.Stderr, "session %d: mode %v pings %d log %d done %v clientcloses %d\n", s.Idx, s.Link.Mode(), s.Pings.Load(), len(s.Log()), s.Done(), s.Link.ClientCloses.Load())
			}
		}
		return err
	}

	var directs []string
	var rcalls, rreplies [][3]int
	nIn, nInReply := 0, 0 // arrived at the client's inboxes (as far as the harness sent them)
	inflight, maxInflight := 0, 0
	inSeq := 0
	qCalls, qReplies := 0, 0
	blocked := false // a wait of this case expired: the rest of the script is abandoned
	expectReturn := func(cl *caller, t int, why string) {
		if blocked {
			return
		}
		if !waitDone(cl, wd()) {
			blocked = true
			directs = append(directs, fmt.Sprintf("Blocked: caller %d did not return within the watchdog %s", t, why))
		} else {
			cl.returned = true
			inflight--
		}
	}
	recvOne := func(reply bool, d time.Duration) (got bool) {
		ctx, cancel := context.WithTimeout(context.Background(), d)
		defer cancel()
		type rr struct {
			d   [3]int
			err error
		}
		ch := make(chan rr, 1)
		go func() {
			if reply {
				r, err := conn.ReceiveReplyCall(ctx)
				if err != nil {
					ch <- rr{err: err}
					return
				}
				e.mu.Lock()
				x := [3]int{e.canonID(r.CallID), e.canonID(r.RequestCallID), markerOfPayload(r.Name, r.Type, r.SourceNodeID, r.Payload, "")}
				e.mu.Unlock()
				ch <- rr{d: x}
			} else {
				r, err := conn.ReceiveCall(ctx)
				if err != nil {
					ch <- rr{err: err}
					return
				}
				e.mu.Lock()
				x := [3]int{e.canonID(r.CallID), 0, markerOfPayload(r.Name, r.Type, r.SourceNodeID, r.Payload, "")}
				e.mu.Unlock()
				ch <- rr{d: x}
			}
		}()
		select {
		case r := <-ch:
			if r.err != nil {
				return false
			}
			e.mu.Lock()
			if reply {
				e.log = append(e.log, ev{k: 'p'})
				rreplies = append(rreplies, r.d)
				qReplies--
			} else {
				e.log = append(e.log, ev{k: 'r'})
				rcalls = append(rcalls, r.d)
				qCalls--
			}
			e.mu.Unlock()
			return true
		case <-time.After(d + wd()):
			noteExpiry()
			blocked = true
			directs = append(directs, "Blocked: ReceiveCall/ReceiveReplyCall did not return within its context deadline + watchdog")
			return false
		}
	}
	// inbox content under the model's rule (push unless 1024 are queued), tracked only to know how
	// many receives must succeed
	queued := func(reply bool) int {
		if reply {
			return qReplies
		}
		return qCalls
	}
	_ = nIn
	_ = nInReply

	for si, st := range c.Steps {
		if blocked {
			directs = append(directs, fmt.Sprintf("script abandoned at step %d of %d", si, len(c.Steps)))
			break
		}
		switch st.Op {
		case "call":
			for _, t := range st.Callers {
				e.startCaller(conn, t)
			}
			if closedConn {
				// nothing reaches the broker: the callers return at once; log them in script order
				for _, t := range st.Callers {
					cl := e.callers[t]
					if !blocked && !waitDone(cl, wd()) {
						blocked = true
						directs = append(directs, fmt.Sprintf("Blocked: caller %d did not return within the watchdog on a closed connection", t))
					}
					cl.returned = true
					e.mu.Lock()
					e.log = append(e.log, ev{k: 'C', t: t, id: 0})
					e.mu.Unlock()
				}
				break
			}
			ok := waitFor(func() bool {
				e.mu.Lock()
				defer e.mu.Unlock()
				for _, t := range st.Callers {
					if !e.callers[t].arrived {
						return false
					}
				}
				return true
			})
			if !ok {
				blocked = true
				directs = append(directs, fmt.Sprintf("Blocked: step %d: an UpstreamCall never reached the broker within the watchdog", si))
			}
			inflight += len(st.Callers)
			if inflight > maxInflight {
				maxInflight = inflight
			}
		case "ack":
			code := message.ResultCodeSucceeded
			if st.Code != 0 {
				code = message.ResultCode(st.Code)
			}
			if st.Unknown {
				e.mu.Lock()
				e.log = append(e.log, ev{k: 'A', id: 300000 + st.M, code: st.Code, m: st.M})
				e.mu.Unlock()
				send(&message.UpstreamCallAck{CallID: fmt.Sprintf("zz%d", st.M), ResultCode: code, ResultString: fmt.Sprintf("m%d", st.M)})
				res.special++
				break
			}
			cl := e.callers[st.T]
			e.mu.Lock()
			e.log = append(e.log, ev{k: 'A', id: cl.canon, code: st.Code, m: st.M}, ev{k: 'W', t: st.T}, ev{k: 'W', t: st.T})
			e.mu.Unlock()
			if err := send(&message.UpstreamCallAck{CallID: cl.callID, ResultCode: code, ResultString: fmt.Sprintf("m%d", st.M)}); err != nil {
				res.direct = "the broker could not send (the client closed the link?): " + err.Error()
				return
			}
			if cl.acked {
				res.special++ // duplicated ack
			}
			if !cl.acked && !cl.returned {
				if cl.kind != kCallWait || st.Code != 0 || cl.replied {
					expectReturn(cl, st.T, "after its ack was sent")
				}
				cl.ackedOK = st.Code == 0
			}
			if st.Code != 0 {
				res.special++
			}
			cl.acked = true
		case "reply":
			inSeq++
			callid := fmt.Sprintf("in%d", inSeq)
			var req string
			var cl *caller
			if st.Unknown {
				req = fmt.Sprintf("zz%d", st.M)
				res.special++
			} else {
				cl = e.callers[st.T]
				req = cl.callID
			}
			e.mu.Lock()
			d := [3]int{e.canonID(callid), e.canonID(req), st.M}
			e.log = append(e.log, ev{k: 'I', d: d})
			if cl != nil {
				e.log = append(e.log, ev{k: 'W', t: st.T}, ev{k: 'W', t: st.T})
			}
			e.mu.Unlock()
			if err := send(&message.DownstreamCall{CallID: callid, RequestCallID: req, SourceNodeID: "src", Name: fmt.Sprintf("nm%d", st.M), Type: "ty", Payload: payloadOf(st.M)}); err != nil {
				res.direct = "the broker could not send (the client closed the link?): " + err.Error()
				return
			}
			nInReply++
			if qReplies < 1024 {
				qReplies++
			}
			if cl != nil {
				if !cl.acked {
					res.special++ // reply before ack
				}
				if cl.kind == kCallWait && !cl.replied && !cl.returned && cl.acked && cl.ackedOK {
					expectReturn(cl, st.T, "after ack and reply were sent")
				}
				cl.replied = true
			}
		case "in":
			for i := 0; i < st.N; i++ {
				inSeq++
				callid := fmt.Sprintf("in%d", inSeq)
				m := st.M + i
				e.mu.Lock()
				e.log = append(e.log, ev{k: 'I', d: [3]int{e.canonID(callid), 0, m}})
				e.mu.Unlock()
				if err := send(&message.DownstreamCall{CallID: callid, RequestCallID: "", SourceNodeID: "src", Name: fmt.Sprintf("nm%d", m), Type: "ty", Payload: payloadOf(m)}); err != nil {
					res.direct = "the broker could not send (the client closed the link?): " + err.Error()
					return
				}
				nIn++
				if qCalls < 1024 {
					qCalls++
				}
			}
		case "recv", "recvreply":
			reply := st.Op == "recvreply"
			for i := 0; i < st.N && queued(reply) > 0; i++ {
				if !recvOne(reply, wd()) {
					noteExpiry()
					blocked = true
					directs = append(directs, fmt.Sprintf("Blocked: step %d: an incoming call that was sent (and fits the inbox) was not handed out within the watchdog", si))
					break
				}
			}
		case "cancel":
			cl := e.callers[st.T]
			e.mu.Lock()
			e.log = append(e.log, ev{k: 'X', t: st.T})
			e.mu.Unlock()
			cl.cancel()
			if !cl.returned {
				expectReturn(cl, st.T, "after its context was cancelled")
			}
			res.special++
		case "reconnect":
			// kill the link between call and ack; the keepalive notices, the connection redials
			idx := len(b.Sessions())
			b.Current().Link.Sever(memtr.Loud)
			if s := b.WaitSession(idx, wd()); s == nil {
				noteExpiry()
				res.direct = "Blocked: no redial within the watchdog after the link was cut"
				return
			} else if !waitFor(func() bool { return s.Pings.Load() >= 1 }) {
				// the first keepalive ping of the new wire connection: the handshake is over
				blocked = true
				directs = append(directs, "Blocked: redialled session never completed its handshake")
			}
			res.special++
		case "close":
			e.mu.Lock()
			e.log = append(e.log, ev{k: 'L'})
			e.mu.Unlock()
			if !guarded(func() {
				ctx, cancel := context.WithTimeout(context.Background(), 2*time.Second)
				defer cancel()
				conn.Close(ctx)
			}) {
				blocked = true
				directs = append(directs, "Blocked: Conn.Close did not return within the watchdog")
			}
			closedConn = true
			for t, cl := range e.callers {
				if cl.started && !cl.returned {
					e.mu.Lock()
					e.log = append(e.log, ev{k: 'S', t: t})
					e.mu.Unlock()
					expectReturn(cl, t, "after the connection was closed")
				}
			}
		}
	}
	// drain both inboxes, then make sure nothing more comes out
	drained := true
	if blocked {
		drained = false
	} else if !closedConn {
		for _, reply := range []bool{false, true} {
			for queued(reply) > 0 {
				if !recvOne(reply, wd()) {
					noteExpiry()
					blocked = true
					directs = append(directs, "Blocked: an incoming call that was sent (and fits the inbox) was never handed out")
					drained = false
					break
				}
			}
			if blocked {
				break
			}
			if recvOne(reply, 15*time.Millisecond) {
				directs = append(directs, "the inbox handed out more calls than arrived")
			}
		}
	} else {
		drained = false
	}
	// snapshot
	outs := make([]string, len(e.callers))
	for t, cl := range e.callers {
		if !cl.started {
			continue
		}
		select {
		case <-cl.done:
			outs[t] = cl.st
			if cl.direct != "" {
				directs = append(directs, cl.direct)
			}
		default:
			outs[t] = "EWaitAck" // still blocked (which of its two waits is not observable)
		}
	}
	e.mu.Lock()
	lg := append([]ev(nil), e.log...)
	sent := append([][2]int(nil), e.sent...)
	e.mu.Unlock()
	// teardown
	if !closedConn {
		closedConn = true
		if !guarded(func() {
			ctx, cancel := context.WithTimeout(context.Background(), 2*time.Second)
			defer cancel()
			conn.Close(ctx)
		}) {
			directs = append(directs, "Blocked: Conn.Close did not return within the watchdog")
		}
		deadline := time.Now().Add(wd()) // one watchdog for all callers together
		for t, cl := range e.callers {
			if cl.started {
				left := time.Until(deadline)
				if left < time.Millisecond {
					left = time.Millisecond
				}
				if !waitDone(cl, left) {
					directs = append(directs, fmt.Sprintf("Blocked: caller %d still blocked after the connection was closed", t))
				}
			}
		}
	}
	for _, cl := range e.callers {
		cl.cancel()
	}

	res.term = buildTerm(e, lg, outs, sent, rcalls, rreplies, drained)
	res.inflight = maxInflight
	res.ncalls = len(sent)
	obsOuts := outs
	res.observed = map[string]interface{}{"outcomes": obsOuts, "sent": len(sent), "received_calls": len(rcalls), "received_replies": len(rreplies)}
	if len(directs) > 0 {
		res.direct = strings.Join(directs, "; ")
	}
	return
}

// ---------------------------------------------------------------- generators

func seqInts(a, n int) []int {
	var s []int
	for i := 0; i < n; i++ {
		s = append(s, a+i)
	}
	return s
}

func permutations(n int) [][]int {
	var out [][]int
	var rec func(p []int, used []bool)
	rec = func(p []int, used []bool) {
		if len(p) == n {
			out = append(out, append([]int(nil), p...))
			return
		}
		for i := 0; i < n; i++ {
			if !used[i] {
				used[i] = true
				rec(append(p, i), used)
				used[i] = false
			}
		}
	}
	rec(nil, make([]bool, n))
	return out
}

// two call-and-wait callers and one plain caller: every interleaving of {ack a, reply a, ack b,
// reply b, ack c} (5! = 120 orders), with b's ack negative in half of them
func genExhaustive(add func(*caseIn, string)) {
	for pi, p := range permutations(5) {
		c := &caseIn{Kinds: []int{kCallWait, kCallWait, kCall}}
		c.Steps = append(c.Steps, step{Op: "call", Callers: []int{0, 1, 2}})
		for j, x := range p {
			switch x {
			case 0:
				c.Steps = append(c.Steps, step{Op: "ack", T: 0, M: 10 + j})
			case 1:
				c.Steps = append(c.Steps, step{Op: "reply", T: 0, M: 20 + j})
			case 2:
				code := 0
				if pi%2 == 1 {
					code = int(message.ResultCodeInvalidPayload)
				}
				c.Steps = append(c.Steps, step{Op: "ack", T: 1, M: 30 + j, Code: code})
			case 3:
				c.Steps = append(c.Steps, step{Op: "reply", T: 1, M: 40 + j})
			case 4:
				c.Steps = append(c.Steps, step{Op: "ack", T: 2, M: 50 + j})
			}
		}
		add(c, "exhaustive-5")
	}
}

func genRandom(r *rng.R, reconnect bool) *caseIn {
	c := &caseIn{Ping: reconnect, Slow: !reconnect && r.Chance(1, 4)}
	n := 2 + r.Intn(11)
	for i := 0; i < n; i++ {
		c.Kinds = append(c.Kinds, []int{kCall, kReply, kCallWait, kCallWait}[r.Intn(4)])
	}
	ngroups := 1 + r.Intn(3)
	bounds := []int{0, n}
	for g := 1; g < ngroups; g++ {
		bounds = append(bounds, r.Intn(n+1))
	}
	for i := 0; i < len(bounds); i++ {
		for j := i + 1; j < len(bounds); j++ {
			if bounds[j] < bounds[i] {
				bounds[i], bounds[j] = bounds[j], bounds[i]
			}
		}
	}
	marker := 0
	type pend struct {
		t     int
		isAck bool
	}
	var todo []pend
	cancelled := map[int]bool{}
	acked := []int{}
	nin, ninr := 0, 0
	emit := func(k int) {
		for ; k > 0 && len(todo) > 0; k-- {
			i := r.Intn(len(todo))
			p := todo[i]
			todo = append(todo[:i], todo[i+1:]...)
			marker++
			x := r.Intn(24)
			switch {
			case x == 0 && !cancelled[p.t]:
				c.Steps = append(c.Steps, step{Op: "cancel", T: p.t})
				cancelled[p.t] = true
				if r.Bool() {
					todo = append(todo, p) // the message still comes, late
				}
				continue
			case p.isAck:
				code := 0
				if r.Chance(1, 5) {
					code = []int{int(message.ResultCodeInvalidPayload), int(message.ResultCodeUnspecifiedError), int(message.ResultCodeAuthFailed)}[r.Intn(3)]
				}
				c.Steps = append(c.Steps, step{Op: "ack", T: p.t, M: marker, Code: code})
				acked = append(acked, p.t)
			default:
				c.Steps = append(c.Steps, step{Op: "reply", T: p.t, M: marker})
				if r.Chance(1, 6) { // a second reply for the same call
					marker++
					c.Steps = append(c.Steps, step{Op: "reply", T: p.t, M: marker})
					ninr++
				}
				ninr++
			}
			// noise
			if r.Chance(1, 5) && len(acked) > 0 {
				marker++
				c.Steps = append(c.Steps, step{Op: "ack", T: acked[r.Intn(len(acked))], M: marker, Code: []int{0, int(message.ResultCodeInvalidPayload)}[r.Intn(2)]})
			}
			if r.Chance(1, 6) {
				marker++
				c.Steps = append(c.Steps, step{Op: "ack", Unknown: true, M: marker, Code: []int{0, int(message.ResultCodeInvalidPayload)}[r.Intn(2)]})
			}
			if r.Chance(1, 6) {
				marker++
				c.Steps = append(c.Steps, step{Op: "reply", Unknown: true, M: marker})
				ninr++
			}
			if r.Chance(1, 5) {
				k := 1 + r.Intn(3)
				c.Steps = append(c.Steps, step{Op: "in", N: k, M: 1000 + nin})
				nin += k
			}
			if r.Chance(1, 6) {
				c.Steps = append(c.Steps, step{Op: "recv", N: 1 + r.Intn(2)})
			}
			if r.Chance(1, 6) {
				c.Steps = append(c.Steps, step{Op: "recvreply", N: 1 + r.Intn(2)})
			}
		}
	}
	didReconnect := false
	for g := 0; g+1 < len(bounds); g++ {
		if bounds[g+1] > bounds[g] {
			grp := seqInts(bounds[g], bounds[g+1]-bounds[g])
			c.Steps = append(c.Steps, step{Op: "call", Callers: grp})
			for _, t := range grp {
				todo = append(todo, pend{t, true})
				if c.Kinds[t] == kCallWait || r.Chance(1, 8) {
					todo = append(todo, pend{t, false})
				}
			}
			if reconnect && !didReconnect {
				c.Steps = append(c.Steps, step{Op: "reconnect"})
				didReconnect = true
			}
		}
		if g+2 < len(bounds) {
			emit(r.Intn(len(todo) + 1))
		}
	}
	if r.Chance(1, 4) {
		// leave some callers waiting, close the connection under them, then call on the closed connection
		emit(r.Intn(len(todo) + 1))
		c.Steps = append(c.Steps, step{Op: "close"})
		if r.Bool() {
			t := len(c.Kinds)
			c.Kinds = append(c.Kinds, []int{kCall, kReply, kCallWait}[r.Intn(3)])
			c.Steps = append(c.Steps, step{Op: "call", Callers: []int{t}})
		}
	} else {
		emit(len(todo) * 2)
	}
	return c
}

// more incoming calls than the inbox holds: the first 1024 are kept, in order; a call-and-wait
// caller's reply sent afterwards is the barrier that tells the harness everything was dispatched
func genOverflow(reply bool) *caseIn {
	c := &caseIn{Kinds: []int{kCallWait}}
	c.Steps = append(c.Steps, step{Op: "call", Callers: []int{0}}, step{Op: "ack", T: 0, M: 1})
	if reply {
		for i := 0; i < 1030; i++ {
			c.Steps = append(c.Steps, step{Op: "reply", Unknown: true, M: 2000 + i})
		}
		c.Steps = append(c.Steps, step{Op: "in", N: 3, M: 5000})
	} else {
		c.Steps = append(c.Steps, step{Op: "in", N: 1030, M: 2000})
	}
	c.Steps = append(c.Steps, step{Op: "reply", T: 0, M: 2})
	return c
}

// ---------------------------------------------------------------- main

func main() {
	seed := flag.Uint64("seed", 1, "seed")
	tier := flag.String("tier", "quick", "quick|thorough")
	out := flag.String("out", "", "output directory")
	replay := flag.String("replay", "", "replay file")
	flag.Parse()
	if v, err := strconv.Atoi(os.Getenv("VERIF_WD_MS")); err == nil && v > 0 {
		wdBase = time.Duration(v) * time.Millisecond
	}
	w := coqfmt.NewWriter(*out, "C16", "From Iscp Require Import Model.Correlate.", "e2e_case", "e2e_judge", 60)
	r := rng.New(*seed)
	type job struct {
		c    *caseIn
		kind string
		seed uint64
	}
	var jobs []job
	add := func(c *caseIn, kind string) { jobs = append(jobs, job{c, kind, r.U64()}) }
	if *replay != "" {
		b, err := os.ReadFile(*replay)
		if err != nil {
			fmt.Fprintln(os.Stderr, err)
			os.Exit(2)
		}
		var rf struct {
			Input caseIn `json:"input"`
		}
		if err := json.Unmarshal(b, &rf); err != nil {
			fmt.Fprintln(os.Stderr, err)
			os.Exit(2)
		}
		jobs = append(jobs, job{&rf.Input, "replay", 0})
	} else {
		nrand, nrec := 320, 32
		if *tier == "thorough" {
			nrand, nrec = 3000, 300
		}
		genExhaustive(add)
		for i := 0; i < nrand; i++ {
			add(genRandom(r.Fork(), false), "random")
		}
		for i := 0; i < nrec; i++ {
			add(genRandom(r.Fork(), true), "reconnect")
		}
		nburst := 6
		if *tier == "thorough" {
			nburst = 40
		}
		for i := 0; i < nburst; i++ {
			add(&caseIn{Rounds: 30 + r.Intn(31), N: 48 + r.Intn(17)}, "id-burst")
		}
		add(genOverflow(false), "overflow-calls")
		add(genOverflow(true), "overflow-replies")
	}
	results := make([]coqfmt.Case, len(jobs))
	sem := make(chan struct{}, 8)
	var wg sync.WaitGroup
	var mu sync.Mutex
	for i, j := range jobs {
		wg.Add(1)
		sem <- struct{}{}
		go func(i int, j job) {
			defer wg.Done()
			defer func() { <-sem }()
			res := runCase(j.c)
			if res.term == "" { // the case was abandoned (direct violation): judge an empty history
				res.term = "mkE2eCase [] [] [] [] [] false"
			}
			nt := res.inflight >= 3 && res.special >= 2
			var in interface{} = j.c
			cs := coqfmt.Case{Term: res.term, Input: in, Observed: res.observed, Seed: j.seed, Nontrivial: nt, Kind: j.kind, Direct: res.direct}
			mu.Lock()
			results[i] = cs
			mu.Unlock()
		}(i, j)
	}
	wg.Wait()
	for i, cs := range results {
		w.Add(cs)
		w.Count(fmt.Sprintf("callers:%d", len(jobs[i].c.Kinds)/4*4))
		for _, k := range jobs[i].c.Kinds {
			w.Count("api:" + []string{"SendCall", "SendReplyCall", "SendCallAndWaitReplayCall"}[k])
		}
	}
	rule := "exhaustive: two SendCallAndWaitReplayCall callers and one SendCall caller in flight, all 120 orders of {ack a, reply a, ack b, reply b, ack c}, b's ack negative in half; random: 2-12 concurrent callers of the three send APIs issued in 1-3 groups, acks and replies in random order (reply before ack, second replies, duplicated acks with another code, acks/replies for unknown ids, negative acks with three codes), cancellations with and without the late message, bursts of incoming calls with interleaved ReceiveCall/ReceiveReplyCall, connection close under waiting callers and calls on the closed connection; reconnect: the link is cut after the calls reached the broker, acks/replies arrive on the redialled connection; id-burst: 30-60 rounds per case, each on a fresh connection: 48-64 goroutines released by one barrier enter SendCall / SendReplyCall / SendCallAndWaitReplayCall at the same instant with ids from the library's own generator, the broker acknowledges and answers every call at once (reply before ack for half of the call-and-wait callers) - call ids on the wire must be pairwise distinct over the whole case, every caller must return success with its own id / its own reply, nobody may panic or block (checked in Go for every round; the Coq judge sees the first anomalous round, else the last); overflow: 1030 incoming calls / replies against the 1024-deep inboxes. non-trivial = >=3 calls in flight at once and >=2 of {negative ack, duplicated ack, unknown id, reply before ack, cancellation, reconnect}; distinct = distinct Coq case terms"
	if err := w.Flush(*seed, *tier, rule, false, nil); err != nil {
		fmt.Fprintln(os.Stderr, err)
		os.Exit(2)
	}
}

// Command gen-conv is "translator T2, reduced version": it extracts facts about
// the hand-written wire<->protobuf converters and the codec wrappers from the
// CURRENT source of the iscp-go checkout and prints them as a Coq file on
// stdout.  Anything it does not understand is a hard error (message with
// file:line on stderr, exit status 1, nothing on stdout).
//
//	gen-conv -repo /repo > Conv.v
//
// What is extracted (see the emit calls in main for the Coq names):
//
//  1. wire_structs / proto_structs: the named struct types of package message
//     resp. of the generated packages autogen and autogenextensions with their
//     field names (XXX_* fields of generated structs are dropped).
//  2. {w2p,p2w}_{reads,writes}: per converter file, which fields of those
//     structs are read (field selections, plus the receiver fields touched by
//     a called method such as msg.ServerTimeOrUnixZero()) and which are written
//     (keys of composite literals, `x.F = ...` assignments).
//  3. w2p_cases / p2w_cases: the case types of the big type switches.
//  4. message_impls / proto_message_wrappers: implementers of the sealed
//     interfaces message.Message and autogen.isMessage_Message.
//  5. has_recover_* / count_*: shape of EncodeTo / DecodeFrom of both codecs.
//  6. size_gate_*: shape of validateMessageSize and its use in Transport.Read.
//  7. dur_conv_w2p / dur_conv_p2w: for every field of type time.Duration of a
//     wire struct, the conversion applied to it in each direction - recognised
//     ONLY when it is literally one of the known expressions
//     (uint32(x.F.Seconds()), uint32(x.F.Milliseconds()), uint64(x.F), int64(x.F);
//     time.Duration(p.F) * time.Second, ... * time.Millisecond, time.Duration(p.F))
//     standing directly as the value of a composite-literal key.  Anything else
//     (a helper call, float arithmetic, a temporary) is emitted as
//     "Unknown: <source>" (or "Missing"), which no conversion of the Coq model
//     is called, so the obligation source_facts fails.
//
// encoding/convert is type-checked with go/types; its imports (including the
// generated protobuf package) are type-checked from source by the "source"
// importer, which resolves module paths through go/build, i.e. `go list`.
// That is why the program chdirs into the checkout and fixes the go
// environment first.  Everything else is purely syntactic (go/parser).
// Only the standard library is used.
package main

import (
	"bytes"
	"flag"
	"fmt"
	"go/ast"
	"go/build"
	"go/importer"
	"go/parser"
	"go/printer"
	"go/token"
	"go/types"
	"os"
	"path/filepath"
	"sort"
	"strings"
)

const (
	pathConvert = "github.com/aptpod/iscp-go/encoding/convert"
	pathMessage = "github.com/aptpod/iscp-go/message"
	pathAutogen = "github.com/aptpod/iscp-proto/gen/gogofast/iscp2/v1"
	pathAutoExt = pathAutogen + "/extensions"
)

// alias maps the import path of the three packages of interest to the word
// used in qualified struct names ("message.ConnectRequest", ...).
var alias = map[string]string{pathMessage: "message", pathAutogen: "autogen", pathAutoExt: "autogenextensions"}

var (
	fset = token.NewFileSet()
	out  bytes.Buffer // the Coq file; flushed only when everything succeeded
)

// die reports a hard error at pos (token.NoPos: no position) and exits.
func die(pos token.Pos, format string, args ...any) {
	where := ""
	if pos.IsValid() {
		where = fset.Position(pos).String() + ": "
	}
	fmt.Fprintf(os.Stderr, "gen-conv: %s%s\n", where, fmt.Sprintf(format, args...))
	os.Exit(1)
}

// src renders a syntax node as one line of Go source (comments are dropped).
func src(n ast.Node) string {
	var b bytes.Buffer
	if err := printer.Fprint(&b, fset, n); err != nil {
		die(n.Pos(), "cannot print node: %v", err)
	}
	return strings.Join(strings.Fields(b.String()), " ")
}

func parseFile(path string) *ast.File {
	f, err := parser.ParseFile(fset, path, nil, 0)
	if err != nil {
		die(token.NoPos, "%v", err)
	}
	return f
}

// findFunc returns the function (recv == "") or method (recv == "*T" / "T") called name.
func findFunc(f *ast.File, recv, name string) *ast.FuncDecl {
	for _, d := range f.Decls {
		fd, ok := d.(*ast.FuncDecl)
		if !ok || fd.Name.Name != name || fd.Body == nil {
			continue
		}
		if fd.Recv == nil && recv == "" || fd.Recv != nil && src(fd.Recv.List[0].Type) == recv {
			return fd
		}
	}
	die(f.Pos(), "func %s %s not found", recv, name)
	return nil
}

// ---------------------------------------------------------------- fact sets

// fieldSets is an association struct name -> set of field names.
type fieldSets map[string]map[string]bool

func (s fieldSets) touch(owner string) {
	if s[owner] == nil {
		s[owner] = map[string]bool{}
	}
}
func (s fieldSets) add(owner, field string) { s.touch(owner); s[owner][field] = true }

type entry struct {
	key  string
	vals []string
}

func (s fieldSets) entries() []entry {
	var es []entry
	for k, set := range s {
		e := entry{key: k}
		for f := range set {
			e.vals = append(e.vals, f)
		}
		sort.Strings(e.vals)
		es = append(es, e)
	}
	sort.Slice(es, func(i, j int) bool { return es[i].key < es[j].key })
	return es
}

// ------------------------------------------------- type-checked convert pkg

type conv struct {
	info  *types.Info
	files map[string]*ast.File      // base name -> syntax of encoding/convert
	deps  map[string]*types.Package // "message" / "autogen" / "autogenextensions"
	srcs  map[string]*ast.File      // cache for methodReads
}

func loadConvert(repo string) *conv {
	c := &conv{files: map[string]*ast.File{}, deps: map[string]*types.Package{}, srcs: map[string]*ast.File{}}
	dir := filepath.Join(repo, "encoding", "convert")
	ents, err := os.ReadDir(dir)
	if err != nil {
		die(token.NoPos, "%v", err)
	}
	var files []*ast.File
	for _, e := range ents { // ReadDir sorts by name
		n := e.Name()
		if ok, _ := build.Default.MatchFile(dir, n); !ok || !strings.HasSuffix(n, ".go") || strings.HasSuffix(n, "_test.go") {
			continue
		}
		c.files[n] = parseFile(filepath.Join(dir, n))
		files = append(files, c.files[n])
	}
	c.info = &types.Info{
		Types:      map[ast.Expr]types.TypeAndValue{},
		Defs:       map[*ast.Ident]types.Object{},
		Uses:       map[*ast.Ident]types.Object{},
		Selections: map[*ast.SelectorExpr]*types.Selection{},
	}
	var errs []error
	cfg := types.Config{
		Importer: importer.ForCompiler(fset, "source", nil),
		Error:    func(err error) { errs = append(errs, err) },
	}
	pkg, _ := cfg.Check(pathConvert, fset, files, c.info)
	if len(errs) > 0 {
		for _, e := range errs {
			fmt.Fprintf(os.Stderr, "gen-conv: type check: %v\n", e)
		}
		os.Exit(1)
	}
	for _, imp := range pkg.Imports() {
		if a := alias[imp.Path()]; a != "" {
			c.deps[a] = imp
		}
	}
	for _, a := range alias {
		if c.deps[a] == nil {
			die(token.NoPos, "package %s is not imported by encoding/convert", a)
		}
	}
	return c
}

// tracked reports whether t (after stripping one pointer) is a named struct of
// one of the three packages, and returns its qualified name.
func tracked(t types.Type) (qname string, named *types.Named, st *types.Struct, ok bool) {
	if t == nil {
		return
	}
	t = types.Unalias(t)
	if p, isPtr := t.(*types.Pointer); isPtr {
		t = types.Unalias(p.Elem())
	}
	named, isNamed := t.(*types.Named)
	if !isNamed || named.Obj().Pkg() == nil || alias[named.Obj().Pkg().Path()] == "" {
		return
	}
	if st, ok = named.Underlying().(*types.Struct); !ok {
		return
	}
	return alias[named.Obj().Pkg().Path()] + "." + named.Obj().Name(), named, st, true
}

// structsOf lists the named struct types of p with their fields.
func structsOf(p *types.Package, dropXXX bool) (es []entry) {
	for _, name := range p.Scope().Names() { // sorted
		tn, ok := p.Scope().Lookup(name).(*types.TypeName)
		if !ok || tn.IsAlias() {
			continue
		}
		q, _, st, ok := tracked(tn.Type())
		if !ok {
			continue
		}
		e := entry{key: q}
		for i := 0; i < st.NumFields(); i++ {
			if f := st.Field(i).Name(); !(dropXXX && strings.HasPrefix(f, "XXX_")) {
				e.vals = append(e.vals, f) // an embedded field is named by its type
			}
		}
		es = append(es, e)
	}
	return es
}

// implementers lists the named structs T of p such that *T has method `method`.
func implementers(p *types.Package, method string) (names []string) {
	for _, name := range p.Scope().Names() {
		tn, ok := p.Scope().Lookup(name).(*types.TypeName)
		if !ok || tn.IsAlias() {
			continue
		}
		if q, named, _, ok := tracked(tn.Type()); ok && types.NewMethodSet(types.NewPointer(named)).Lookup(p, method) != nil {
			names = append(names, q)
		}
	}
	return names
}

// fieldSel classifies se as a field selection on a tracked struct.  For a
// promoted field the struct x denotes and the first field of the path count.
func (c *conv) fieldSel(se *ast.SelectorExpr) (owner, field string, ok bool) {
	sel := c.info.Selections[se]
	if sel == nil || sel.Kind() != types.FieldVal {
		return
	}
	owner, _, st, ok := tracked(sel.Recv())
	if !ok {
		return
	}
	return owner, st.Field(sel.Index()[0]).Name(), true
}

// scan collects the field reads and writes of one converter file.
func (c *conv) scan(f *ast.File) (reads, writes fieldSets) {
	reads, writes = fieldSets{}, fieldSets{}
	pureLHS := map[*ast.SelectorExpr]bool{} // x.F in `x.F = v`: written, not read
	store := func(lhs ast.Expr, alsoRead bool) {
		if se, ok := ast.Unparen(lhs).(*ast.SelectorExpr); ok {
			if owner, field, ok := c.fieldSel(se); ok {
				writes.add(owner, field)
				pureLHS[se] = !alsoRead
			}
		}
	}
	ast.Inspect(f, func(n ast.Node) bool { // parents are visited before children
		switch n := n.(type) {
		case *ast.AssignStmt:
			for _, l := range n.Lhs {
				store(l, n.Tok != token.ASSIGN) // `x.F += v` reads too
			}
		case *ast.IncDecStmt:
			store(n.X, true)
		case *ast.UnaryExpr:
			if se, ok := ast.Unparen(n.X).(*ast.SelectorExpr); ok && n.Op == token.AND {
				if owner, field, ok := c.fieldSel(se); ok {
					die(n.Pos(), "address of field %s.%s taken: cannot tell read from write", owner, field)
				}
			}
		case *ast.SelectorExpr:
			if owner, field, ok := c.fieldSel(n); ok && !pureLHS[n] {
				reads.add(owner, field)
			} else if sel := c.info.Selections[n]; sel != nil && sel.Kind() == types.MethodVal {
				c.methodCall(n, sel, reads)
			}
		case *ast.CompositeLit:
			owner, _, _, ok := tracked(c.info.Types[n].Type) // elided &T{} has type *T
			if !ok {
				break
			}
			writes.touch(owner)
			for _, e := range n.Elts {
				kv, ok := e.(*ast.KeyValueExpr)
				if !ok {
					die(e.Pos(), "unkeyed composite literal of %s", owner)
				}
				writes.add(owner, kv.Key.(*ast.Ident).Name)
			}
		}
		return true
	})
	return reads, writes
}

// methodCall handles x.M() where x is a tracked struct: the receiver fields M
// touches count as read.  Methods of package message are followed whatever
// they are; of the generated packages only the GetX getters are accepted.
func (c *conv) methodCall(se *ast.SelectorExpr, sel *types.Selection, reads fieldSets) {
	owner, _, _, ok := tracked(sel.Recv())
	if !ok {
		return
	}
	fn := sel.Obj().(*types.Func)
	if len(sel.Index()) != 1 {
		die(se.Pos(), "promoted method %s on %s not supported", fn.Name(), owner)
	}
	if fn.Pkg().Path() != pathMessage && !strings.HasPrefix(fn.Name(), "Get") {
		die(se.Pos(), "method %s of generated struct %s is not a getter", fn.Name(), owner)
	}
	reads.touch(owner)
	for _, f := range c.methodReads(fn, map[*types.Func]bool{}) {
		reads.add(owner, f)
	}
}

// methodReads parses the declaration of method fn (syntactically) and returns
// the receiver fields selected directly on the receiver identifier, following
// calls to other methods of the same receiver.
func (c *conv) methodReads(fn *types.Func, seen map[*types.Func]bool) (fields []string) {
	if seen[fn] {
		return nil
	}
	seen[fn] = true
	at := fset.Position(fn.Pos())
	if c.srcs[at.Filename] == nil {
		c.srcs[at.Filename] = parseFile(at.Filename)
	}
	var decl *ast.FuncDecl
	for _, d := range c.srcs[at.Filename].Decls {
		if fd, ok := d.(*ast.FuncDecl); ok && fd.Recv != nil && fd.Name.Name == fn.Name() && fset.Position(fd.Name.Pos()).Line == at.Line {
			decl = fd
		}
	}
	if decl == nil || decl.Body == nil {
		die(fn.Pos(), "declaration of method %s not found", fn.FullName())
	}
	if len(decl.Recv.List[0].Names) == 0 {
		return nil // anonymous receiver: reads nothing
	}
	recv := decl.Recv.List[0].Names[0]
	recvType := fn.Type().(*types.Signature).Recv().Type()
	ast.Inspect(decl.Body, func(n ast.Node) bool {
		se, ok := n.(*ast.SelectorExpr)
		if !ok {
			return true
		}
		if id, ok := se.X.(*ast.Ident); !ok || id.Obj == nil || id.Obj != recv.Obj {
			return true
		}
		switch obj, idx, _ := types.LookupFieldOrMethod(recvType, true, fn.Pkg(), se.Sel.Name); o := obj.(type) {
		case *types.Var:
			_, _, st, _ := tracked(recvType)
			fields = append(fields, st.Field(idx[0]).Name())
		case *types.Func:
			fields = append(fields, c.methodReads(o, seen)...)
		default:
			die(se.Pos(), "cannot resolve %s in method %s", src(se), fn.FullName())
		}
		return true
	})
	return fields
}

// cases lists the case types of the single top-level type switch of function name.
func (c *conv) cases(f *ast.File, name string) (names []string) {
	fd := findFunc(f, "", name)
	var sw *ast.TypeSwitchStmt
	for _, s := range fd.Body.List {
		if ts, ok := s.(*ast.TypeSwitchStmt); ok {
			if sw != nil {
				die(ts.Pos(), "second top-level type switch in %s", name)
			}
			sw = ts
		}
	}
	if sw == nil {
		die(fd.Pos(), "no top-level type switch in %s", name)
	}
	for _, cl := range sw.Body.List {
		for _, e := range cl.(*ast.CaseClause).List { // default: empty list
			q, _, _, ok := tracked(c.info.Types[e].Type)
			if !ok {
				die(e.Pos(), "case type %s is not a struct of message/autogen", src(e))
			}
			names = append(names, q)
		}
	}
	return names
}

// ------------------------------------------------ codec wrappers (syntactic)

// codecMethod analyses (*encoder).name in f: does it install a recover handler
// that sets the named error result, and what does its final return count?
func codecMethod(f *ast.File, name string) (hasRecover bool, count string) {
	fd := findFunc(f, "*encoder", name)
	var errRes *ast.Ident // last named result
	if rs := fd.Type.Results; rs != nil && len(rs.List) > 0 {
		if names := rs.List[len(rs.List)-1].Names; len(names) > 0 {
			errRes = names[len(names)-1]
		}
	}
	for _, s := range fd.Body.List {
		d, ok := s.(*ast.DeferStmt)
		if !ok || errRes == nil {
			continue
		}
		lit, ok := d.Call.Fun.(*ast.FuncLit)
		if !ok {
			continue
		}
		var recovers, setsErr bool
		ast.Inspect(lit.Body, func(n ast.Node) bool {
			switch n := n.(type) {
			case *ast.CallExpr: // id.Obj == nil: not declared in this file, i.e. the builtin
				if id, ok := n.Fun.(*ast.Ident); ok && id.Name == "recover" && id.Obj == nil && len(n.Args) == 0 {
					recovers = true
				}
			case *ast.AssignStmt:
				for _, l := range n.Lhs {
					if id, ok := l.(*ast.Ident); ok && n.Tok == token.ASSIGN && id.Obj == errRes.Obj {
						setsErr = true
					}
				}
			}
			return true
		})
		hasRecover = hasRecover || recovers && setsErr
	}
	ret, ok := fd.Body.List[len(fd.Body.List)-1].(*ast.ReturnStmt)
	if !ok || len(ret.Results) == 0 {
		die(fd.Body.Rbrace, "%s does not end in a return statement with results", name)
	}
	return hasRecover, src(ret.Results[0])
}

// ---------------------------------------------------- size gate (syntactic)

// sizeGate checks the exact shape of validateMessageSize and returns OP of
// `if target OP max { return err }`.
func sizeGate(f *ast.File) (op string) {
	fd := findFunc(f, "", "validateMessageSize")
	body := fd.Body.List
	if got := src(fd.Type); got != "func(max Size, target Size) error" {
		die(fd.Pos(), "validateMessageSize: unexpected signature %s", got)
	}
	if len(body) != 3 || src(body[0]) != "if max == 0 { return nil }" || src(body[2]) != "return nil" {
		die(fd.Pos(), "validateMessageSize: expected `if max == 0 { return nil }; if target OP max { return err }; return nil`")
	}
	cmp, _ := body[1].(*ast.IfStmt)
	if cmp == nil || cmp.Init != nil || cmp.Else != nil || len(cmp.Body.List) != 1 {
		die(body[1].Pos(), "validateMessageSize: second statement is not a plain `if ... { return err }`")
	}
	ret, _ := cmp.Body.List[0].(*ast.ReturnStmt)
	if ret == nil || len(ret.Results) != 1 || src(ret.Results[0]) == "nil" {
		die(cmp.Body.Pos(), "validateMessageSize: the comparison branch must return an error")
	}
	cond, _ := cmp.Cond.(*ast.BinaryExpr)
	if cond == nil {
		die(cmp.Cond.Pos(), "validateMessageSize: condition is not a comparison")
	}
	flip := map[token.Token]token.Token{token.LSS: token.GTR, token.GTR: token.LSS, token.LEQ: token.GEQ, token.GEQ: token.LEQ, token.EQL: token.EQL, token.NEQ: token.NEQ}
	flipped, isCmp := flip[cond.Op]
	switch x, y := src(cond.X), src(cond.Y); {
	case isCmp && x == "target" && y == "max":
		return cond.Op.String()
	case isCmp && x == "max" && y == "target":
		return flipped.String()
	}
	die(cond.Pos(), "validateMessageSize: condition %s is not `target OP max`", src(cond))
	return ""
}

// gateBeforeDecode reports whether (*Transport).Read checks the size of the
// received bytes before handing them to the decoder.
func gateBeforeDecode(f *ast.File) bool {
	fd := findFunc(f, "*Transport", "Read")
	if len(fd.Recv.List[0].Names) != 1 {
		die(fd.Pos(), "Transport.Read: unnamed receiver")
	}
	r := fd.Recv.List[0].Names[0].Name
	want := "if err := validateMessageSize(" + r + ".maxMessageSize, Size(len(bs))); err != nil { return nil, err }"
	gate, decode := -1, -1
	for i, s := range fd.Body.List {
		isGate := src(s) == want
		if isGate && gate < 0 {
			gate = i
		}
		ast.Inspect(s, func(n ast.Node) bool {
			call, ok := n.(*ast.CallExpr)
			if !ok {
				return true
			}
			switch src(call.Fun) {
			case "validateMessageSize":
				if !isGate {
					die(call.Pos(), "Transport.Read: size gate has unexpected shape, want `%s`", want)
				}
			case r + ".e.DecodeFrom":
				if len(call.Args) != 1 || !strings.Contains(src(call.Args[0]), "(bs)") {
					die(call.Pos(), "Transport.Read: DecodeFrom is not applied to a reader over bs")
				}
				if decode < 0 {
					decode = i
				}
			}
			return true
		})
	}
	if decode < 0 {
		die(fd.Pos(), "Transport.Read: no call to %s.e.DecodeFrom", r)
	}
	return gate >= 0 && gate < decode
}

// ------------------------------------------------------------------ output

func coqString(s string) string { return `"` + strings.ReplaceAll(s, `"`, `""`) + `"` }

func coqList(items []string, sep string) string {
	if len(items) == 0 {
		return "[]"
	}
	if sep == "; " {
		return "[" + strings.Join(items, sep) + "]"
	}
	return "[\n  " + strings.Join(items, sep) + "\n]"
}

func coqStrings(xs []string, sep string) string {
	qs := make([]string, len(xs))
	for i, x := range xs {
		qs[i] = coqString(x)
	}
	return coqList(qs, sep)
}

func emitAssoc(name string, es []entry) {
	rows := make([]string, len(es))
	for i, e := range es {
		rows[i] = "(" + coqString(e.key) + ", " + coqStrings(e.vals, "; ") + ")"
	}
	fmt.Fprintf(&out, "Definition %s : list (string * list string) := %s.\n", name, coqList(rows, ";\n  "))
}

func emitList(name string, xs []string) {
	fmt.Fprintf(&out, "Definition %s : list string := %s.\n", name, coqStrings(xs, ";\n  "))
}
func emitBool(name string, b bool) { fmt.Fprintf(&out, "Definition %s : bool := %t.\n", name, b) }
func emitString(name string, s string) {
	fmt.Fprintf(&out, "Definition %s : string := %s.\n", name, coqString(s))
}

func main() {
	repoFlag := flag.String("repo", "/repo", "root `DIR` of the iscp-go checkout")
	flag.Parse()
	repo, err := filepath.Abs(*repoFlag)
	if err == nil {
		err = os.Chdir(repo) // the source importer resolves imports relative to the cwd
	}
	if err != nil {
		die(token.NoPos, "%v", err)
	}
	// Environment for the `go list` calls go/build makes on behalf of the importer.
	os.Setenv("GOFLAGS", "-mod=mod")
	os.Setenv("GOPROXY", "off")
	os.Unsetenv("GOSUMDB")
	os.Unsetenv("GOTOOLCHAIN")
	build.Default.CgoEnabled = false // pure-Go variants of std packages: no cgo tool runs

	fmt.Fprintf(&out, "(* GENERATED by go/cmd/gen-conv from %s - do not edit *)\n", repo)
	fmt.Fprintf(&out, "From Coq Require Import List String Bool.\nImport ListNotations.\nOpen Scope string_scope.\n\n")

	c := loadConvert(repo)
	emitAssoc("wire_structs", structsOf(c.deps["message"], false))
	protos := append(structsOf(c.deps["autogen"], true), structsOf(c.deps["autogenextensions"], true)...)
	sort.Slice(protos, func(i, j int) bool { return protos[i].key < protos[j].key })
	emitAssoc("proto_structs", protos)
	for _, side := range []struct{ prefix, file string }{{"w2p", "wire_to_proto.go"}, {"p2w", "proto_to_wire.go"}} {
		f := c.files[side.file]
		if f == nil {
			die(token.NoPos, "encoding/convert/%s not found", side.file)
		}
		reads, writes := c.scan(f)
		emitAssoc(side.prefix+"_reads", reads.entries())
		emitAssoc(side.prefix+"_writes", writes.entries())
	}
	emitDur("dur_conv_w2p", c.durW2P(c.files["wire_to_proto.go"]))
	emitDur("dur_conv_p2w", c.durP2W(c.files["proto_to_wire.go"]))
	emitList("w2p_cases", c.cases(c.files["wire_to_proto.go"], "WireToProto"))
	emitList("p2w_cases", c.cases(c.files["proto_to_wire.go"], "ProtoToWire"))
	emitList("message_impls", implementers(c.deps["message"], "isMessage"))
	emitList("proto_message_wrappers", implementers(c.deps["autogen"], "isMessage_Message"))

	var counts []func() // the count_* definitions come after all has_recover_*
	for _, enc := range []struct{ tag, dir string }{{"pb", "protobuf"}, {"json", "json"}} {
		f := parseFile(filepath.Join(repo, "encoding", enc.dir, "main.go"))
		for _, m := range []struct{ tag, name string }{{"enc", "EncodeTo"}, {"dec", "DecodeFrom"}} {
			hasRecover, count := codecMethod(f, m.name)
			emitBool("has_recover_"+enc.tag+"_"+m.tag, hasRecover)
			counts = append(counts, func() { emitString("count_"+enc.tag+"_"+m.tag, count) })
		}
	}
	for _, emit := range counts {
		emit()
	}

	f := parseFile(filepath.Join(repo, "encoding", "main.go"))
	op := sizeGate(f)
	emitBool("size_gate_zero_unlimited", true) // sizeGate dies unless `if max == 0 { return nil }` comes first
	emitString("size_gate_op", op)
	emitBool("size_gate_before_decode", gateBeforeDecode(f))

	os.Stdout.Write(out.Bytes())
}

package main

// Fact 7 of gen-conv: the conversion applied to every time.Duration field of a wire struct, in
// each direction, recognised ONLY when it is literally one of the known expressions standing
// directly as the value of a composite-literal key; anything else is "Unknown: <source>".

import (
	"fmt"
	"go/ast"
	"go/token"
	"go/types"
	"strings"
)

type durFact struct{ owner, field, kind string }

func isDuration(t types.Type) bool {
	if t == nil {
		return false
	}
	n, ok := types.Unalias(t).(*types.Named)
	return ok && n.Obj().Pkg() != nil && n.Obj().Pkg().Path() == "time" && n.Obj().Name() == "Duration"
}

func (c *conv) isTimeConst(e ast.Expr, name string) bool {
	se, ok := ast.Unparen(e).(*ast.SelectorExpr)
	if !ok || se.Sel.Name != name {
		return false
	}
	obj := c.info.Uses[se.Sel]
	return obj != nil && obj.Pkg() != nil && obj.Pkg().Path() == "time"
}

// castTo reports whether e is T(arg) for a type T and returns T's source text and arg.
func (c *conv) castTo(e ast.Expr) (tname string, arg ast.Expr, ok bool) {
	ce, isCall := ast.Unparen(e).(*ast.CallExpr)
	if !isCall || len(ce.Args) != 1 || !c.info.Types[ce.Fun].IsType() {
		return "", nil, false
	}
	return src(ce.Fun), ce.Args[0], true
}

// durationFields lists the time.Duration fields of the wire structs (kind "Missing" until seen).
func (c *conv) durationFields() (fs []durFact) {
	sc := c.deps["message"].Scope()
	for _, n := range sc.Names() { // sorted
		tn, ok := sc.Lookup(n).(*types.TypeName)
		if !ok || tn.IsAlias() {
			continue
		}
		st, ok := tn.Type().Underlying().(*types.Struct)
		if !ok {
			continue
		}
		for i := 0; i < st.NumFields(); i++ {
			if isDuration(st.Field(i).Type()) {
				fs = append(fs, durFact{"message." + n, st.Field(i).Name(), "Missing"})
			}
		}
	}
	return
}

func setFact(facts []durFact, owner, field, kind string) {
	for i := range facts {
		if facts[i].owner == owner && facts[i].field == field {
			if facts[i].kind != "Missing" && facts[i].kind != kind {
				kind = "Unknown: converted in two different ways"
			}
			facts[i].kind = kind
		}
	}
}

// durW2P: the expression each Duration field of a wire struct is read in, in wire_to_proto.go.
func (c *conv) durW2P(f *ast.File) []durFact {
	facts := c.durationFields()
	var stack []ast.Node
	ast.Inspect(f, func(n ast.Node) bool {
		if n == nil {
			stack = stack[:len(stack)-1]
			return true
		}
		stack = append(stack, n)
		se, ok := n.(*ast.SelectorExpr)
		if !ok {
			return true
		}
		owner, field, ok := c.fieldSel(se)
		if !ok || !strings.HasPrefix(owner, "message.") || !isDuration(c.info.Types[se].Type) {
			return true
		}
		// the value of the composite-literal key this read stands in
		var val ast.Expr
		outer := ast.Node(se)
		for i := len(stack) - 2; i >= 0; i-- {
			if kv, ok := stack[i].(*ast.KeyValueExpr); ok && kv.Value == stack[i+1] {
				val = kv.Value
				break
			}
			if _, ok := stack[i].(ast.Stmt); ok {
				break
			}
			outer = stack[i]
		}
		if val == nil {
			setFact(facts, owner, field, "Unknown: "+src(outer)+" (not the value of a composite-literal key)")
			return true
		}
		kind := "Unknown: " + src(val)
		if tn, arg, ok := c.castTo(val); ok {
			switch {
			case ast.Unparen(arg) == ast.Expr(se) && tn == "uint64":
				kind = "I64ToU64"
			case ast.Unparen(arg) == ast.Expr(se) && tn == "int64":
				kind = "Copy"
			case tn == "uint32":
				// uint32(x.F.Seconds()) / uint32(x.F.Milliseconds())
				if ce, ok := ast.Unparen(arg).(*ast.CallExpr); ok && len(ce.Args) == 0 {
					if ms, ok := ce.Fun.(*ast.SelectorExpr); ok && ast.Unparen(ms.X) == ast.Expr(se) {
						if sel := c.info.Selections[ms]; sel != nil && sel.Kind() == types.MethodVal && isDuration(sel.Recv()) {
							switch ms.Sel.Name {
							case "Seconds":
								kind = "DurToSec"
							case "Milliseconds":
								kind = "DurToMs"
							}
						}
					}
				}
			}
		}
		setFact(facts, owner, field, kind)
		return true
	})
	return facts
}

// durP2W: the value written to each Duration field of a wire struct, in proto_to_wire.go.
func (c *conv) durP2W(f *ast.File) []durFact {
	facts := c.durationFields()
	isDur := func(owner, field string) bool {
		for _, d := range facts {
			if d.owner == owner && d.field == field {
				return true
			}
		}
		return false
	}
	// time.Duration(p.F), p.F a field of a generated struct: the basic type of the field
	durCast := func(e ast.Expr) (string, bool) {
		tn, arg, ok := c.castTo(e)
		if !ok || tn != "time.Duration" {
			return "", false
		}
		se, ok := ast.Unparen(arg).(*ast.SelectorExpr)
		if !ok {
			return "", false
		}
		owner, _, ok := c.fieldSel(se)
		if !ok || !strings.HasPrefix(owner, "autogen") {
			return "", false
		}
		b, ok := c.info.Types[se].Type.Underlying().(*types.Basic)
		if !ok {
			return "", false
		}
		return b.Name(), true
	}
	classify := func(v ast.Expr) string {
		kind := "Unknown: " + src(v)
		if be, ok := ast.Unparen(v).(*ast.BinaryExpr); ok {
			if bt, ok := durCast(be.X); ok && be.Op == token.MUL && bt == "uint32" {
				switch {
				case c.isTimeConst(be.Y, "Second"):
					kind = "SecToDur"
				case c.isTimeConst(be.Y, "Millisecond"):
					kind = "MsToDur"
				}
			}
		} else if bt, ok := durCast(v); ok {
			switch bt {
			case "uint64":
				kind = "U64ToI64"
			case "int64":
				kind = "Copy"
			}
		}
		return kind
	}
	ast.Inspect(f, func(n ast.Node) bool {
		switch n := n.(type) {
		case *ast.CompositeLit:
			owner, _, _, ok := tracked(c.info.Types[n].Type)
			if !ok || !strings.HasPrefix(owner, "message.") {
				break
			}
			for _, e := range n.Elts {
				if kv, ok := e.(*ast.KeyValueExpr); ok {
					if field := kv.Key.(*ast.Ident).Name; isDur(owner, field) {
						setFact(facts, owner, field, classify(kv.Value))
					}
				}
			}
		case *ast.AssignStmt:
			for _, l := range n.Lhs {
				if se, ok := ast.Unparen(l).(*ast.SelectorExpr); ok {
					if owner, field, ok := c.fieldSel(se); ok && isDur(owner, field) {
						setFact(facts, owner, field, "Unknown: assigned outside a composite literal")
					}
				}
			}
		}
		return true
	})
	return facts
}

func emitDur(name string, fs []durFact) {
	var items []string
	for _, d := range fs {
		items = append(items, fmt.Sprintf("(%s, (%s, %s))", coqString(d.owner), coqString(d.field), coqString(d.kind)))
	}
	fmt.Fprintf(&out, "Definition %s : list (string * (string * string)) := %s.\n\n", name, coqList(items, ";\n  "))
}

// h-multi: correspondence harness for C19 (transport/multi) against Model/Multi.v.
// Drives the real multi.NewTransport / Write / Read / AsUnreliable / NegotiationParams /
// CloseWithStatus / counters with scripted member transports and scripted schedulers (polling
// with a controllable poller, the real RoundRobinPoller and LastUsedPoller behind a gate, event
// driven with a scripted Subscriber, the real NICEventSubscriber with a scripted NIC listener)
// and records cases as Coq terms.
//
// Synchronisation without settle delays.  The scheduler -> transportIDLoop hand-off is a chain
// of goroutines each holding at most one value (plus one one-slot buffer in the NIC subscriber).
// Re-emitting the same id is idempotent in the library, so a selection is emitted several times:
// once the chain has accepted `flush` copies the first copy has been applied.  For the polling
// modes the harness counts Poller.Get() calls instead.  A member message has been queued in the
// merge channel once the member's reader goroutine has re-entered the member's Read.
package main

import (
	"context"
	"encoding/json"
	"flag"
	"fmt"
	"os"
	"strings"
	"sync"
	"sync/atomic"
	"time"

	ierrors "github.com/aptpod/iscp-go/errors"
	"github.com/aptpod/iscp-go/transport"
	"github.com/aptpod/iscp-go/transport/multi"

	"verif/internal/coqfmt"
	"verif/internal/rng"
)

// watchdog: 10 s per blocking step; after three expiries in one run (a change that makes the selection
// loop hang makes hundreds of cases hang) it shrinks to 1 s so that the run still ends in about a minute.
var (
	watchdogNs int64 = int64(10 * time.Second)
	wdExpiries int64
)

func wd() time.Duration { return time.Duration(atomic.LoadInt64(&watchdogNs)) }

func wdExpired() {
	if atomic.AddInt64(&wdExpiries, 1) >= 3 {
		atomic.StoreInt64(&watchdogNs, int64(time.Second))
	}
}

const (
	interval = 100 * time.Microsecond
	// values that can be in flight between the harness and the end of one transportIDLoop
	// iteration: event/script 3, NIC+relay 7, polling 3 (see the file comment); margin added.
	flushEvent = 8
	flushNic   = 12
	flushPoll  = 7
)

func tid(n uint64) transport.TransportID {
	if n == 0 {
		return ""
	}
	return transport.TransportID(fmt.Sprintf("t%d", n))
}

func untid(s transport.TransportID) uint64 {
	if s == "" {
		return 0
	}
	var n uint64
	if _, err := fmt.Sscanf(string(s), "t%d", &n); err != nil {
		return 999999
	}
	return n
}

// ---------- input ----------

type memberSpec struct {
	ID     uint64 `json:"id"`
	GidOK  bool   `json:"gid_ok"`
	GCount uint64 `json:"gcount"`
	Closer bool   `json:"closer"`
	Unrel  bool   `json:"unrel"`
	WFail  bool   `json:"wfail"`
	CErr   bool   `json:"cerr"`
	// the member counts like a real transport: it had traffic before it joined the group and it
	// counts a per-message framing overhead on top of the payload
	Tx0 uint64 `json:"tx0,omitempty"`
	Rx0 uint64 `json:"rx0,omitempty"`
	Ovh uint64 `json:"ovh,omitempty"`
}

type pollCfg struct {
	Kind string   `json:"kind"` // script | rr | lastused
	IDs  []uint64 `json:"ids,omitempty"`
}

type eventCfg struct {
	Kind string      `json:"kind"` // script | nic | nilsub
	Nic  [][2]uint64 `json:"nic,omitempty"`
}

type evIn struct {
	Op     string `json:"op"` // select nic tick write mread mfail read neg unrel counters close
	ID     uint64 `json:"id,omitempty"`
	Bs     []byte `json:"bs,omitempty"`
	Status uint64 `json:"status,omitempty"`
}

type caseIn struct {
	Members []memberSpec `json:"members"`
	Initial uint64       `json:"initial"`
	Mode    int          `json:"mode"`
	Poll    *pollCfg     `json:"poll,omitempty"`
	Event   *eventCfg    `json:"event,omitempty"`
	Evs     []evIn       `json:"events"`
}

// ---------- scripted member transports ----------

type readItem struct {
	bs  []byte
	err error
}

type core struct {
	id       transport.TransportID
	spec     memberSpec
	mu       sync.Mutex
	wlog     [][]byte
	wcalls   int
	unrelN   int
	closes   []uint64
	rx, tx   atomic.Uint64
	nread    atomic.Uint64
	readCh   chan readItem
	entries  atomic.Int64
	closedCh chan struct{}
	once     sync.Once
}

func (c *core) Read() ([]byte, error) {
	c.entries.Add(1)
	select {
	case it := <-c.readCh:
		if it.err != nil {
			return nil, it.err
		}
		c.nread.Add(1)
		c.rx.Add(uint64(len(it.bs)) + c.spec.Ovh)
		return it.bs, nil
	case <-c.closedCh:
		return nil, ierrors.ErrConnectionClosed
	}
}

func (c *core) isClosed() bool {
	select {
	case <-c.closedCh:
		return true
	default:
		return false
	}
}

func (c *core) Write(bs []byte) error {
	c.mu.Lock()
	defer c.mu.Unlock()
	c.wcalls++
	if c.spec.WFail {
		return fmt.Errorf("scripted write failure")
	}
	if c.isClosed() {
		return ierrors.ErrConnectionClosed
	}
	c.wlog = append(c.wlog, append([]byte(nil), bs...))
	c.tx.Add(uint64(len(bs)) + c.spec.Ovh)
	return nil
}

func (c *core) closeWith(code uint64) error {
	c.mu.Lock()
	c.closes = append(c.closes, code)
	c.mu.Unlock()
	c.once.Do(func() { close(c.closedCh) })
	if c.spec.CErr {
		return fmt.Errorf("scripted close failure")
	}
	return nil
}

func (c *core) Close() error { return c.closeWith(0) }

type unrelStub struct{ transport.ReadWriter }

func (unrelStub) IsUnreliable() {}

func (c *core) AsUnreliable() (transport.UnreliableTransport, bool) {
	c.mu.Lock()
	c.unrelN++
	c.mu.Unlock()
	if c.spec.Unrel {
		return unrelStub{c}, true
	}
	return nil, false
}

func (c *core) NegotiationParams() transport.NegotiationParams {
	p := transport.NegotiationParams{TransportID: c.id, TransportGroupTotalCount: int(c.spec.GCount)}
	if c.spec.GidOK {
		p.TransportGroupID = "g"
	}
	return p
}
func (c *core) Name() transport.Name        { return "scripted" }
func (c *core) RxBytesCounterValue() uint64 { return c.rx.Load() }
func (c *core) TxBytesCounterValue() uint64 { return c.tx.Load() }

// closerMember additionally implements transport.Closer
type closerMember struct{ *core }

var statusNames = []transport.CloseStatus{transport.CloseStatusNormal, transport.CloseStatusAbnormal,
	transport.CloseStatusGoingAway, transport.CloseStatusInternalError}

func (c closerMember) CloseWithStatus(s transport.CloseStatus) error {
	for i, n := range statusNames {
		if n == s {
			return c.closeWith(uint64(i) + 1)
		}
	}
	return c.closeWith(99)
}

// ---------- scripted schedulers ----------

// scriptPoller: Get returns the id the harness armed last.
type scriptPoller struct {
	mu    sync.Mutex
	id    transport.TransportID
	calls int
}

func (p *scriptPoller) Get() transport.TransportID {
	p.mu.Lock()
	defer p.mu.Unlock()
	p.calls++
	return p.id
}

// gate wraps a real poller: the inner Get is called exactly once per armed tick; in between the
// last answer is repeated (idempotent for the library).
type gate struct {
	mu      sync.Mutex
	inner   multi.Poller
	last    transport.TransportID
	armed   bool
	calls   int
	firedAt int
	obs     []transport.TransportID
}

func (g *gate) Get() transport.TransportID {
	g.mu.Lock()
	defer g.mu.Unlock()
	g.calls++
	if g.armed {
		g.armed = false
		g.last = g.inner.Get()
		g.obs = append(g.obs, g.last)
		g.firedAt = g.calls
	}
	return g.last
}

func (g *gate) SetMultiTransport(t *multi.Transport) {
	if s, ok := g.inner.(multi.MultiTransportSetter); ok {
		s.SetMultiTransport(t)
	}
}

type nicListener struct{ ch chan string }

func (l *nicListener) Subscribe() <-chan string { return l.ch }

// ---------- running one case ----------

type obsOut struct {
	term string
	desc string
}

func callWD(f func()) (panicked interface{}, blocked bool) {
	done := make(chan interface{}, 1)
	go func() {
		defer func() { done <- recover() }()
		f()
	}()
	select {
	case p := <-done:
		return p, false
	case <-time.After(wd()):
		return nil, true
	}
}

func waitUntil(cond func() bool) bool {
	deadline := time.Now().Add(wd())
	for i := 0; ; i++ {
		if cond() {
			return true
		}
		if time.Now().After(deadline) {
			return false
		}
		if i < 50 {
			time.Sleep(20 * time.Microsecond)
		} else {
			time.Sleep(200 * time.Microsecond)
		}
	}
}

func classifyNewErr(err error) uint64 {
	switch {
	case err == nil:
		return 0
	case ierrors.Is(err, multi.ErrInvalidSchedulerMode):
		return 4
	case ierrors.Is(err, multi.ErrMissingEventScheduler):
		return 5
	}
	s := err.Error()
	switch {
	case strings.Contains(s, "transport map cannot be empty"):
		return 1
	case strings.Contains(s, "initial transport ID must be a member"):
		return 2
	case strings.Contains(s, "transport group ID cannot be empty"), strings.Contains(s, "transport group total count"):
		return 3
	}
	return 9
}

func cfgTerm(ci *caseIn) string {
	var ms []string
	for _, m := range ci.Members {
		ms = append(ms, fmt.Sprintf("mkMS %d %s %d %s %s %s %s", m.ID, coqfmt.Bool(m.GidOK), m.GCount,
			coqfmt.Bool(m.Closer), coqfmt.Bool(m.Unrel), coqfmt.Bool(m.WFail), coqfmt.Bool(m.CErr)))
	}
	poll := "None"
	if ci.Poll != nil {
		switch ci.Poll.Kind {
		case "script":
			poll = "(Some PCScript)"
		case "rr":
			var ids []string
			for _, id := range ci.Poll.IDs {
				ids = append(ids, coqfmt.N(id))
			}
			poll = "(Some (PCRR " + coqfmt.List(ids) + "))"
		case "lastused":
			poll = "(Some PCLastUsed)"
		}
	}
	ev := "None"
	if ci.Event != nil {
		switch ci.Event.Kind {
		case "script":
			ev = "(Some ECScript)"
		case "nic":
			var ps []string
			for _, p := range ci.Event.Nic {
				ps = append(ps, coqfmt.Pair(coqfmt.N(p[0]), coqfmt.N(p[1])))
			}
			ev = "(Some (ECNic " + coqfmt.List(ps) + "))"
		case "nilsub":
			ev = "(Some ECNilSub)"
		}
	}
	return fmt.Sprintf("(mkCfg %s %d %d %s %s)", coqfmt.List(ms), ci.Initial, ci.Mode, poll, ev)
}

// runCase executes one case on the real code.
func runCase(ci *caseIn) (term string, observed interface{}, direct string) {
	tm := multi.TransportMap{}
	var cores []*core
	byID := map[uint64]*core{}
	for _, ms := range ci.Members {
		c := &core{id: tid(ms.ID), spec: ms, readCh: make(chan readItem, 256), closedCh: make(chan struct{})}
		c.tx.Store(ms.Tx0)
		c.rx.Store(ms.Rx0)
		cores = append(cores, c)
		byID[ms.ID] = c
		if ms.Closer {
			tm[c.id] = closerMember{c}
		} else {
			tm[c.id] = c
		}
	}
	cfg := multi.TransportConfig{TransportMap: tm, InitialTransportID: tid(ci.Initial), SchedulerMode: multi.SchedulerMode(ci.Mode)}
	var sp *scriptPoller
	var gt *gate
	var evCh chan transport.TransportID
	var nicCh chan string
	var relayMu sync.Mutex
	var relayLog []transport.TransportID
	if ci.Poll != nil {
		switch ci.Poll.Kind {
		case "script":
			sp = &scriptPoller{id: tid(ci.Initial)}
			cfg.PollingScheduler = &multi.PollingScheduler{Poller: sp, Interval: interval}
		case "rr":
			var ids []transport.TransportID
			for _, id := range ci.Poll.IDs {
				ids = append(ids, tid(id))
			}
			gt = &gate{inner: multi.NewRoundRobinPoller(ids), last: tid(ci.Initial)}
			cfg.PollingScheduler = &multi.PollingScheduler{Poller: gt, Interval: interval}
		case "lastused":
			gt = &gate{inner: multi.NewLastReadPoller(), last: tid(ci.Initial)}
			cfg.PollingScheduler = &multi.PollingScheduler{Poller: gt, Interval: interval}
		}
	}
	if ci.Event != nil {
		switch ci.Event.Kind {
		case "script":
			evCh = make(chan transport.TransportID)
			cfg.EventScheduler = &multi.EventScheduler{Subscriber: multi.EventSchedulerFunc(
				func(ctx context.Context) <-chan transport.TransportID { return evCh })}
		case "nic":
			nicCh = make(chan string)
			m := map[string]transport.TransportID{}
			for _, p := range ci.Event.Nic {
				m[fmt.Sprintf("nic%d", p[0])] = tid(p[1])
			}
			real := &multi.NICEventSubscriber{NICManager: &nicListener{ch: nicCh}, NICTransportID: m}
			cfg.EventScheduler = &multi.EventScheduler{Subscriber: multi.EventSchedulerFunc(
				func(ctx context.Context) <-chan transport.TransportID {
					in := real.Subscribe(ctx)
					out := make(chan transport.TransportID)
					go func() {
						defer close(out)
						for id := range in {
							relayMu.Lock()
							relayLog = append(relayLog, id)
							relayMu.Unlock()
							select {
							case out <- id:
							case <-ctx.Done():
								return
							}
						}
					}()
					return out
				})}
		case "nilsub":
			cfg.EventScheduler = &multi.EventScheduler{}
		}
	}

	var mt *multi.Transport
	var nerr error
	if p, blocked := callWD(func() { mt, nerr = multi.NewTransport(cfg) }); p != nil || blocked {
		return "", nil, fmt.Sprintf("NewTransport: panic=%v blocked=%v", p, blocked)
	}
	class := classifyNewErr(nerr)
	if class != 0 {
		term = fmt.Sprintf("mkMultiCase %s %d [] [] [] []", cfgTerm(ci), class)
		return term, map[string]interface{}{"new": class, "err": fmt.Sprint(nerr)}, ""
	}
	defer func() { callWD(func() { mt.Close() }) }()

	polling := ci.Mode == 0
	closed := false
	pushes := map[uint64]int64{}
	dead := map[uint64]bool{}
	nicSent := 0
	var evsT, outsT []string
	var obs []string
	fail := func(i int, what string) (string, interface{}, string) {
		if strings.Contains(what, "(hang)") {
			wdExpired()
		}
		return "", obs, fmt.Sprintf("event %d (%s): %s", i, ci.Evs[i].Op, what)
	}
	emit := func(e, o string) {
		evsT = append(evsT, e)
		outsT = append(outsT, o)
		obs = append(obs, o)
	}
	snapshotW := func() []int {
		var s []int
		for _, c := range cores {
			c.mu.Lock()
			s = append(s, c.wcalls)
			c.mu.Unlock()
		}
		return s
	}
	snapshotU := func() []int {
		var s []int
		for _, c := range cores {
			c.mu.Lock()
			s = append(s, c.unrelN)
			c.mu.Unlock()
		}
		return s
	}
	oneDelta := func(a, b []int) (uint64, bool) {
		idx := -1
		for i := range a {
			if b[i] != a[i] {
				if idx >= 0 || b[i] != a[i]+1 {
					return 0, false
				}
				idx = i
			}
		}
		if idx < 0 {
			return 0, false
		}
		return cores[idx].spec.ID, true
	}

	for i, e := range ci.Evs {
		switch e.Op {
		case "select":
			if closed {
				return fail(i, "generator error: selection after Close")
			}
			switch {
			case polling && sp != nil:
				sp.mu.Lock()
				sp.id = tid(e.ID)
				k := sp.calls
				sp.mu.Unlock()
				if !waitUntil(func() bool { sp.mu.Lock(); defer sp.mu.Unlock(); return sp.calls >= k+flushPoll }) {
					return fail(i, "poller not polled (hang)")
				}
			case !polling && evCh != nil:
				for k := 0; k < flushEvent; k++ {
					select {
					case evCh <- tid(e.ID):
					case <-time.After(wd()):
						return fail(i, "scheduler channel not drained (hang)")
					}
				}
			default:
				return fail(i, "generator error: select without a scripted scheduler")
			}
			emit(fmt.Sprintf("Select %d", e.ID), fmt.Sprintf("OSel %d", e.ID))
		case "nic":
			if closed || nicCh == nil || polling {
				return fail(i, "generator error: nic event without NIC scheduler")
			}
			for k := 0; k < flushNic; k++ {
				select {
				case nicCh <- fmt.Sprintf("nic%d", e.ID):
				case <-time.After(wd()):
					return fail(i, "NIC channel not drained (hang)")
				}
			}
			relayMu.Lock()
			if len(relayLog) <= nicSent {
				relayMu.Unlock()
				return fail(i, "NIC subscriber emitted nothing")
			}
			got := relayLog[nicSent]
			relayMu.Unlock()
			nicSent += flushNic
			emit(fmt.Sprintf("Nic %d", e.ID), fmt.Sprintf("OSel %d", untid(got)))
		case "tick":
			if closed || !polling {
				return fail(i, "generator error: tick")
			}
			if gt == nil {
				// default scheduler (5 s interval) or scripted poller: no observable tick
				return fail(i, "generator error: tick without gated poller")
			}
			gt.mu.Lock()
			gt.armed = true
			gt.mu.Unlock()
			if !waitUntil(func() bool {
				gt.mu.Lock()
				defer gt.mu.Unlock()
				return !gt.armed && gt.calls >= gt.firedAt+flushPoll
			}) {
				return fail(i, "poller not polled (hang)")
			}
			gt.mu.Lock()
			got := gt.obs[len(gt.obs)-1]
			gt.mu.Unlock()
			emit("Tick", fmt.Sprintf("OSel %d", untid(got)))
		case "write":
			before := snapshotW()
			var err error
			p, blocked := callWD(func() { err = mt.Write(e.Bs) })
			switch {
			case p != nil:
				emit("Write "+coqfmt.Bytes(e.Bs), "OPanic")
				direct = fmt.Sprintf("event %d: Write panicked: %v", i, p)
			case blocked:
				emit("Write "+coqfmt.Bytes(e.Bs), "OBlocked")
				direct = fmt.Sprintf("event %d: Write blocked", i)
			default:
				t, ok := oneDelta(before, snapshotW())
				if !ok {
					return fail(i, "Write did not reach exactly one member")
				}
				emit("Write "+coqfmt.Bytes(e.Bs), fmt.Sprintf("OWrite %d %s", t, coqfmt.Bool(err == nil)))
			}
		case "mread":
			c := byID[e.ID]
			if c != nil && !closed {
				c.readCh <- readItem{bs: append([]byte(nil), e.Bs...)}
				if !dead[e.ID] {
					pushes[e.ID]++
					want := pushes[e.ID] + 1
					if !waitUntil(func() bool { return c.entries.Load() >= want }) {
						return fail(i, "member message not taken by the reader goroutine (hang)")
					}
				}
			} else if closed {
				return fail(i, "generator error: member read after Close")
			}
			emit(fmt.Sprintf("MemberRead %d %s", e.ID, coqfmt.Bytes(e.Bs)), "OUnit")
		case "mfail":
			c := byID[e.ID]
			if c != nil && !closed {
				c.readCh <- readItem{err: fmt.Errorf("scripted read failure")}
				if !dead[e.ID] {
					// the reader goroutine takes the error and returns; it never re-enters Read
					if !waitUntil(func() bool { return len(c.readCh) == 0 }) {
						return fail(i, "member error not taken (hang)")
					}
				}
				dead[e.ID] = true
			}
			emit(fmt.Sprintf("MemberFail %d", e.ID), "OUnit")
		case "read":
			var bs []byte
			var err error
			p, blocked := callWD(func() { bs, err = mt.Read() })
			switch {
			case p != nil:
				emit("Read false", "OPanic")
				direct = fmt.Sprintf("event %d: Read panicked: %v", i, p)
			case blocked:
				emit("Read false", "OBlocked")
				direct = fmt.Sprintf("event %d: Read blocked", i)
			case err != nil:
				emit("Read false", "ORead None")
			default:
				emit(fmt.Sprintf("Read %s", coqfmt.Bool(closed)), "ORead (Some "+coqfmt.Bytes(bs)+")")
			}
		case "neg":
			var np transport.NegotiationParams
			p, blocked := callWD(func() { np = mt.NegotiationParams() })
			switch {
			case p != nil:
				emit("Neg", "OPanic")
				direct = fmt.Sprintf("event %d: NegotiationParams panicked: %v", i, p)
			case blocked:
				emit("Neg", "OBlocked")
				direct = fmt.Sprintf("event %d: NegotiationParams blocked", i)
			default:
				emit("Neg", fmt.Sprintf("ONeg %d", untid(np.TransportID)))
			}
		case "unrel":
			before := snapshotU()
			var ok bool
			p, blocked := callWD(func() { _, ok = mt.AsUnreliable() })
			switch {
			case p != nil:
				emit("Unrel", "OPanic")
				direct = fmt.Sprintf("event %d: AsUnreliable panicked: %v", i, p)
			case blocked:
				emit("Unrel", "OBlocked")
				direct = fmt.Sprintf("event %d: AsUnreliable blocked", i)
			default:
				t, one := oneDelta(before, snapshotU())
				if !one {
					return fail(i, "AsUnreliable did not reach exactly one member")
				}
				emit("Unrel", fmt.Sprintf("OUnrel %d %s", t, coqfmt.Bool(ok)))
			}
		case "counters":
			var rx, tx uint64
			p, blocked := callWD(func() { rx, tx = mt.RxBytesCounterValue(), mt.TxBytesCounterValue() })
			if p != nil || blocked {
				emit("Counters", "OPanic")
				direct = fmt.Sprintf("event %d: counters panic=%v blocked=%v", i, p, blocked)
			} else {
				// canonical observation: the multi counters relative to what the members had counted
				// before they joined and net of their framing overhead (computed from the members' own
				// logs) - equal to the payload bytes iff multi reports the SUM OF THE MEMBERS' OWN counters
				var crx, ctx uint64
				for _, c := range cores {
					c.mu.Lock()
					ctx += c.spec.Tx0 + c.spec.Ovh*uint64(len(c.wlog))
					c.mu.Unlock()
					crx += c.spec.Rx0 + c.spec.Ovh*c.nread.Load()
				}
				emit("Counters", fmt.Sprintf("OCounters %d %d", rx-crx, tx-ctx))
			}
		case "close":
			var err error
			st := statusNames[e.Status%4]
			p, blocked := callWD(func() {
				if e.Status == 0 && len(e.Bs) > 0 { // plain Close()
					err = mt.Close()
				} else {
					err = mt.CloseWithStatus(st)
				}
			})
			if p != nil || blocked {
				emit(fmt.Sprintf("Close %d", e.Status%4), "OPanic")
				direct = fmt.Sprintf("event %d: Close panic=%v blocked=%v", i, p, blocked)
			} else {
				emit(fmt.Sprintf("Close %d", e.Status%4), "OClose "+coqfmt.Bool(err != nil))
			}
			closed = true
		default:
			return fail(i, "unknown op")
		}
		if direct != "" {
			break
		}
	}
	var logsT, closesT []string
	for _, c := range cores {
		c.mu.Lock()
		var l, cl []string
		for _, b := range c.wlog {
			l = append(l, coqfmt.Bytes(b))
		}
		for _, x := range c.closes {
			cl = append(cl, coqfmt.N(x))
		}
		c.mu.Unlock()
		logsT = append(logsT, coqfmt.Pair(coqfmt.N(c.spec.ID), coqfmt.List(l)))
		closesT = append(closesT, coqfmt.Pair(coqfmt.N(c.spec.ID), coqfmt.List(cl)))
	}
	term = fmt.Sprintf("mkMultiCase %s 0 %s %s %s %s", cfgTerm(ci), coqfmt.List(evsT), coqfmt.List(outsT),
		coqfmt.List(logsT), coqfmt.List(closesT))
	return term, map[string]interface{}{"new": 0, "outs": obs, "logs": logsT, "closes": closesT}, direct
}

// ---------- generators ----------

func pickID(r *rng.R, members []memberSpec) uint64 {
	// mostly members; otherwise ids outside the member set and the empty id
	switch {
	case r.Chance(7, 10) && len(members) > 0:
		return members[r.Intn(len(members))].ID
	case r.Chance(1, 2):
		return 0
	default:
		return uint64(1 + r.Intn(8))
	}
}

func genCase(r *rng.R) (*caseIn, string, bool) {
	ci := &caseIn{}
	nm := 1 + r.Intn(4)
	if r.Chance(1, 40) {
		nm = 0
	}
	used := map[uint64]bool{}
	for len(ci.Members) < nm {
		id := uint64(1 + r.Intn(6))
		if r.Chance(1, 14) {
			id = 0 // the empty id as a member
		}
		if used[id] {
			continue
		}
		used[id] = true
		ci.Members = append(ci.Members, memberSpec{ID: id, GidOK: true, GCount: uint64(nm),
			Closer: r.Chance(3, 4), Unrel: r.Bool(), WFail: r.Chance(1, 8), CErr: r.Chance(1, 8),
			Tx0: uint64(r.Intn(1001)), Rx0: uint64(r.Intn(1001)), Ovh: uint64(r.Intn(10))})
	}
	kind := "valid"
	if nm > 0 && r.Chance(1, 14) {
		k := r.Intn(nm)
		if r.Bool() {
			ci.Members[k].GidOK = false
		} else {
			ci.Members[k].GCount = uint64(nm + 1 - 2*r.Intn(2))
		}
		kind = "bad-group"
	}
	if nm > 0 {
		ci.Initial = ci.Members[r.Intn(nm)].ID
	}
	if r.Chance(1, 9) {
		ci.Initial = []uint64{0, 7, 8, uint64(1 + r.Intn(6))}[r.Intn(4)]
		if !used[ci.Initial] {
			kind = "bad-initial"
		}
	}
	ci.Mode = r.Intn(2)
	if r.Chance(1, 25) {
		ci.Mode = []int{2, 7, -0 + 3}[r.Intn(3)]
		kind = "bad-mode"
	}
	mkPoll := func() *pollCfg {
		switch x := r.Intn(20); {
		case x < 9:
			return &pollCfg{Kind: "script"}
		case x < 14:
			n := r.Intn(6)
			p := &pollCfg{Kind: "rr"}
			for i := 0; i < n; i++ {
				p.IDs = append(p.IDs, pickID(r, ci.Members))
			}
			return p
		case x < 18:
			return &pollCfg{Kind: "lastused"}
		}
		return nil
	}
	mkEvent := func() *eventCfg {
		switch x := r.Intn(20); {
		case x < 10:
			return &eventCfg{Kind: "script"}
		case x < 17:
			e := &eventCfg{Kind: "nic"}
			for n := uint64(1); n <= 4; n++ {
				if r.Chance(3, 4) {
					e.Nic = append(e.Nic, [2]uint64{n, pickID(r, ci.Members)})
				}
			}
			return e
		case x < 18:
			return &eventCfg{Kind: "nilsub"}
		}
		return nil
	}
	if ci.Mode == 0 || r.Chance(1, 6) {
		ci.Poll = mkPoll()
	}
	if ci.Mode == 1 || r.Chance(1, 6) {
		ci.Event = mkEvent()
	}
	if ci.Mode == 1 && (ci.Event == nil || ci.Event.Kind == "nilsub") && kind == "valid" {
		kind = "missing-event"
	}
	// events
	canSelect := (ci.Mode == 0 && ci.Poll != nil && ci.Poll.Kind == "script") || (ci.Mode == 1 && ci.Event != nil && ci.Event.Kind == "script")
	canNic := ci.Mode == 1 && ci.Event != nil && ci.Event.Kind == "nic"
	canTick := ci.Mode == 0 && ci.Poll != nil && (ci.Poll.Kind == "rr" || ci.Poll.Kind == "lastused")
	if kind == "valid" {
		switch {
		case canNic:
			kind = "nic"
		case canTick:
			kind = ci.Poll.Kind
		case canSelect && ci.Mode == 0:
			kind = "poll-script"
		case canSelect:
			kind = "event-script"
		default:
			kind = "no-scheduler-events"
		}
	}
	n := 6 + r.Intn(20)
	closed := false
	queue := 0
	dead := map[uint64]bool{}
	msgN := 0
	hostileSel, switched, wroteAfter := false, false, false
	cur := ci.Initial
	for len(ci.Evs) < n {
		x := r.Intn(100)
		switch {
		case x < 26 && !closed:
			switch {
			case canSelect:
				id := pickID(r, ci.Members)
				ci.Evs = append(ci.Evs, evIn{Op: "select", ID: id})
				if !used[id] {
					hostileSel = true
				} else if id != cur {
					cur = id
					switched = true
				}
			case canNic:
				ci.Evs = append(ci.Evs, evIn{Op: "nic", ID: uint64(r.Intn(6))})
				switched = true
			case canTick:
				ci.Evs = append(ci.Evs, evIn{Op: "tick"})
				switched = true
			}
		case x < 50:
			msgN++
			ci.Evs = append(ci.Evs, evIn{Op: "write", Bs: append([]byte{byte(msgN)}, r.Bytes(r.Intn(3))...)})
			if switched || hostileSel {
				wroteAfter = true
			}
		case x < 68 && !closed:
			id := pickID(r, ci.Members)
			msgN++
			ci.Evs = append(ci.Evs, evIn{Op: "mread", ID: id, Bs: append([]byte{byte(100 + msgN)}, r.Bytes(r.Intn(3))...)})
			if used[id] && !dead[id] {
				queue++
			}
		case x < 71 && !closed:
			id := pickID(r, ci.Members)
			ci.Evs = append(ci.Evs, evIn{Op: "mfail", ID: id})
			dead[id] = true
		case x < 84:
			if queue > 0 || closed {
				ci.Evs = append(ci.Evs, evIn{Op: "read"})
				if queue > 0 && !closed {
					queue--
				}
			}
		case x < 89:
			ci.Evs = append(ci.Evs, evIn{Op: "neg"})
			if hostileSel {
				wroteAfter = true
			}
		case x < 93:
			ci.Evs = append(ci.Evs, evIn{Op: "unrel"})
			if hostileSel {
				wroteAfter = true
			}
		case x < 97:
			ci.Evs = append(ci.Evs, evIn{Op: "counters"})
		default:
			if len(ci.Evs) > n/2 {
				e := evIn{Op: "close", Status: uint64(r.Intn(4))}
				if e.Status == 0 && r.Bool() {
					e.Bs = []byte{1} // plain Close()
				}
				ci.Evs = append(ci.Evs, e)
				closed = true
			}
		}
	}
	// drain what is left, then close
	for !closed && queue > 0 {
		ci.Evs = append(ci.Evs, evIn{Op: "read"})
		queue--
	}
	if !closed {
		ci.Evs = append(ci.Evs, evIn{Op: "counters"}, evIn{Op: "close", Status: uint64(r.Intn(4))})
	}
	nontrivial := kind == "bad-initial" || (len(ci.Members) >= 2 && wroteAfter)
	return ci, kind, nontrivial
}

// exhaustive small scope: two members, event-script scheduler, every sequence of `depth` events
// over a small alphabet (selections of both members, a non-member and the empty id, writes,
// a read of each member, the three lookups), each followed by a drain.
func genExhaustive(depth int, add func(*caseIn, string, bool)) {
	alphabet := []evIn{
		{Op: "select", ID: 1}, {Op: "select", ID: 2}, {Op: "select", ID: 5}, {Op: "select", ID: 0},
		{Op: "write", Bs: []byte{7}}, {Op: "mread", ID: 1, Bs: []byte{8}}, {Op: "mread", ID: 2, Bs: []byte{9, 9}},
		{Op: "neg"},
	}
	var rec func(prefix []evIn)
	rec = func(prefix []evIn) {
		if len(prefix) == depth {
			ci := &caseIn{Members: []memberSpec{{ID: 1, GidOK: true, GCount: 2, Closer: true, Tx0: 17, Rx0: 5, Ovh: 3}, {ID: 2, GidOK: true, GCount: 2, Unrel: true, Tx0: 400, Rx0: 250, Ovh: 7}},
				Initial: 2, Mode: 1, Event: &eventCfg{Kind: "script"}}
			ci.Evs = append(ci.Evs, prefix...)
			q := 0
			for _, e := range prefix {
				if e.Op == "mread" {
					q++
				}
			}
			ci.Evs = append(ci.Evs, evIn{Op: "write", Bs: []byte{1}}, evIn{Op: "unrel"})
			for ; q > 0; q-- {
				ci.Evs = append(ci.Evs, evIn{Op: "read"})
			}
			ci.Evs = append(ci.Evs, evIn{Op: "counters"}, evIn{Op: "close", Status: 2})
			add(ci, fmt.Sprintf("exhaustive-d%d", depth), true)
			return
		}
		for _, e := range alphabet {
			rec(append(append([]evIn(nil), prefix...), e))
		}
	}
	rec(nil)
}

type job struct {
	ci   *caseIn
	kind string
	nt   bool
	seed uint64
}

func main() {
	seed := flag.Uint64("seed", 1, "seed")
	tier := flag.String("tier", "quick", "quick|thorough")
	out := flag.String("out", "", "output directory")
	replay := flag.String("replay", "", "replay file (JSON with an 'input' field)")
	flag.Parse()
	w := coqfmt.NewWriter(*out, "C19", "From Iscp Require Import Model.Multi.", "multi_case", "multi_judge", 150)
	const emptyTerm = "mkMultiCase (mkCfg [] 0 0 None None) 1 [] [] [] []"

	var jobs []job
	if *replay != "" {
		b, err := os.ReadFile(*replay)
		if err != nil {
			fmt.Fprintln(os.Stderr, err)
			os.Exit(2)
		}
		var rf struct {
			Input caseIn `json:"input"`
		}
		if err := json.Unmarshal(b, &rf); err != nil {
			fmt.Fprintln(os.Stderr, err)
			os.Exit(2)
		}
		jobs = append(jobs, job{ci: &rf.Input, kind: "replay", nt: true})
	} else {
		depth := 3
		nrand := 700
		if *tier == "thorough" {
			depth = 4
			nrand = 12000
		}
		genExhaustive(depth, func(ci *caseIn, kind string, nt bool) { jobs = append(jobs, job{ci: ci, kind: kind, nt: nt}) })
		r := rng.New(*seed)
		for i := 0; i < nrand; i++ {
			s := r.U64()
			ci, kind, nt := genCase(rng.New(s))
			jobs = append(jobs, job{ci: ci, kind: kind, nt: nt, seed: s})
		}
	}
	type res struct {
		term   string
		obs    interface{}
		direct string
	}
	results := make([]res, len(jobs))
	var wg sync.WaitGroup
	sem := make(chan struct{}, 8)
	for i := range jobs {
		wg.Add(1)
		sem <- struct{}{}
		go func(i int) {
			defer wg.Done()
			defer func() { <-sem }()
			t, o, d := runCase(jobs[i].ci)
			results[i] = res{t, o, d}
		}(i)
	}
	wg.Wait()
	for i, j := range jobs {
		c := coqfmt.Case{Term: results[i].term, Input: j.ci, Observed: results[i].obs, Nontrivial: j.nt, Kind: j.kind,
			Direct: results[i].direct, Seed: j.seed}
		if c.Term == "" {
			c.Term = emptyTerm
		}
		w.Add(c)
		w.Count(fmt.Sprintf("members:%d", len(j.ci.Members)))
		for _, e := range j.ci.Evs {
			w.Count("op:" + e.Op)
		}
	}
	rule := "exhaustive: 2 members, scripted event scheduler, every sequence of d events over {select member 1, select member 2, select a non-member, select the empty id, write, member read x2, NegotiationParams} followed by write, AsUnreliable, drain, counters, close; random: 0-4 members (the empty id as a member 1/14), hostile configurations (initial id not a member / empty, bad group, bad mode, missing event scheduler), five scheduler kinds (scripted poller, gated real RoundRobinPoller with member/non-member/empty ids, gated real LastUsedPoller, scripted subscriber, real NICEventSubscriber with unknown NICs), 6-25 events, 30% of selected ids outside the member set or empty, member read failures, operations after Close. non-trivial = configuration rejected for its initial id, or >=2 members and a write/lookup after an effective or hostile selection; distinct = distinct Coq case terms"
	if err := w.Flush(*seed, *tier, rule, false, nil); err != nil {
		fmt.Fprintln(os.Stderr, err)
		os.Exit(2)
	}
}

// h-storage: correspondence harness for C07 (storage part): random and exhaustive operation
// sequences on the REAL in-memory sent storage of iscp/storage.go (both variants, reached through
// the verif-tagged constructors of iscp/verif_export.go) against Model/Storage.v.
// After every operation the harness calls List for every stream id of the case's universe, so the
// non-interference predicate is judged on the implementation's own observations.
package main

import (
	"context"
	"encoding/json"
	"flag"
	"fmt"
	"hash/crc32"
	"os"
	"sort"
	"strings"
	"time"

	"github.com/aptpod/iscp-go/iscp"
	"github.com/aptpod/iscp-go/message"
	uuid "github.com/google/uuid"

	"verif/internal/coqfmt"
	"verif/internal/rng"
)

const wd = 5 * time.Second

type ptIn struct {
	El  int    `json:"el"`
	Pay []byte `json:"pay"`
}
type grpIn struct {
	ID  int    `json:"id"`
	Pts []ptIn `json:"pts"`
}
type opIn struct {
	Op  string  `json:"op"` // store remove list clear
	Sid int     `json:"sid"`
	Seq uint32  `json:"seq,omitempty"`
	G   []grpIn `json:"g,omitempty"`
}
type caseIn struct {
	Keep bool   `json:"keep"`
	NIDs int    `json:"nids"`
	Ops  []opIn `json:"ops"`
}

func dig(b []byte) uint64 {
	if len(b) == 0 {
		return 0
	}
	return uint64(crc32.ChecksumIEEE(b))%9973 + 1
}

func groupsTermIn(g []grpIn) string {
	var gs []string
	for _, x := range g {
		var ps []string
		for _, p := range x.Pts {
			ps = append(ps, fmt.Sprintf("(%d,%d,%d)", p.El, dig(p.Pay), len(p.Pay)))
		}
		gs = append(gs, fmt.Sprintf("(%d,%s)", x.ID, coqfmt.List(ps)))
	}
	return coqfmt.List(gs)
}

func toGroups(g []grpIn) iscp.DataPointGroups {
	out := make(iscp.DataPointGroups, 0, len(g))
	for _, x := range g {
		dpg := &iscp.DataPointGroup{DataID: &message.DataID{Name: fmt.Sprintf("n%d", x.ID), Type: "t"}}
		for _, p := range x.Pts {
			dpg.DataPoints = append(dpg.DataPoints, &message.DataPoint{ElapsedTime: time.Duration(p.El), Payload: append([]byte(nil), p.Pay...)})
		}
		out = append(out, dpg)
	}
	return out
}

func groupsTermObs(g iscp.DataPointGroups) string {
	var gs []string
	for _, x := range g {
		id := 900000
		if x.DataID != nil {
			fmt.Sscanf(x.DataID.Name, "n%d", &id)
		}
		var ps []string
		for _, p := range x.DataPoints {
			ps = append(ps, fmt.Sprintf("(%d,%d,%d)", int64(p.ElapsedTime), dig(p.Payload), len(p.Payload)))
		}
		gs = append(gs, fmt.Sprintf("(%d,%s)", id, coqfmt.List(ps)))
	}
	return coqfmt.List(gs)
}

func listTerm(m map[uint32]iscp.DataPointGroups, err error) string {
	if err != nil {
		if strings.Contains(err.Error(), "not found stream") {
			return "RNoStream"
		}
		return "RNoSeq"
	}
	var ks []int
	for k := range m {
		ks = append(ks, int(k))
	}
	sort.Ints(ks)
	var es []string
	for _, k := range ks {
		es = append(es, fmt.Sprintf("(%d,%s)", k, groupsTermObs(m[uint32(k)])))
	}
	return "(RList " + coqfmt.List(es) + ")"
}

type result struct {
	term     string
	observed map[string]interface{}
	direct   string
	sig      string
	streams  int
	clears   int
}

func runCase(c *caseIn) (res result) {
	done := make(chan result, 1)
	go func() {
		var r result
		defer func() {
			if p := recover(); p != nil {
				r.direct = fmt.Sprintf("panic in the sent storage: %v", p)
			}
			done <- r
		}()
		r = runCaseInner(c)
	}()
	select {
	case r := <-done:
		return r
	case <-time.After(wd):
		return result{direct: "a sent-storage call did not return within the watchdog"}
	}
}

func runCaseInner(c *caseIn) (res result) {
	ctx := context.Background()
	var st iscp.VerifSentStorage
	if c.Keep {
		st = iscp.VerifNewInmemSentStorage()
	} else {
		st = iscp.VerifNewInmemSentStorageNoPayload()
	}
	ids := make([]uuid.UUID, c.NIDs)
	var idsT []string
	for i := range ids {
		ids[i] = uuid.New()
		idsT = append(idsT, fmt.Sprint(i+1))
	}
	var opsT, resT, snapsT []string
	prev := make([]string, c.NIDs)
	for i := range prev {
		prev[i] = "RNoStream"
	}
	used := map[int]bool{}
	wiped := 0
	for _, op := range c.Ops {
		sid := ids[op.Sid-1]
		used[op.Sid] = true
		switch op.Op {
		case "store":
			err := st.Store(ctx, sid, op.Seq, toGroups(op.G))
			opsT = append(opsT, fmt.Sprintf("SStore %d %d %s", op.Sid, op.Seq, groupsTermIn(op.G)))
			if err != nil {
				resT = append(resT, "RNoSeq")
			} else {
				resT = append(resT, "RNil")
			}
		case "remove":
			g, err := st.Remove(ctx, sid, op.Seq)
			opsT = append(opsT, fmt.Sprintf("SRemove %d %d", op.Sid, op.Seq))
			switch {
			case err == nil:
				resT = append(resT, "(RGroups "+groupsTermObs(g)+")")
			case strings.Contains(err.Error(), "not found stream"):
				resT = append(resT, "RNoStream")
			default:
				resT = append(resT, "RNoSeq")
			}
		case "list":
			m, err := st.List(ctx, sid)
			opsT = append(opsT, fmt.Sprintf("SList %d", op.Sid))
			resT = append(resT, listTerm(m, err))
		case "clear":
			err := st.Clear(ctx, sid)
			res.clears++
			opsT = append(opsT, fmt.Sprintf("SClear %d", op.Sid))
			if err != nil {
				resT = append(resT, "RNoSeq")
			} else {
				resT = append(resT, "RNil")
			}
		}
		cur := make([]string, c.NIDs)
		for i := range ids {
			m, err := st.List(ctx, ids[i])
			cur[i] = listTerm(m, err)
			if i+1 != op.Sid && cur[i] != prev[i] {
				wiped++
				if op.Op == "clear" {
					res.sig = "F3:clear-wipes-other-streams"
				} else if res.sig == "" {
					res.sig = "C07:" + op.Op + "-changes-other-stream"
				}
			}
		}
		snapsT = append(snapsT, coqfmt.List(cur))
		prev = cur
	}
	res.streams = len(used)
	res.term = fmt.Sprintf("mkStCase %s %s %s %s %s", coqfmt.Bool(c.Keep), coqfmt.List(idsT), coqfmt.List(opsT), coqfmt.List(resT), coqfmt.List(snapsT))
	res.observed = map[string]interface{}{"results": resT, "other_stream_changes": wiped}
	return
}

// ---------------------------------------------------------------- generators

func genGroups(r *rng.R, el *int) []grpIn {
	var g []grpIn
	n := []int{0, 1, 1, 2}[r.Intn(4)]
	for i := 0; i < n; i++ {
		x := grpIn{ID: 1 + r.Intn(3)}
		np := []int{0, 1, 1, 2}[r.Intn(4)]
		for j := 0; j < np; j++ {
			*el++
			x.Pts = append(x.Pts, ptIn{El: *el, Pay: r.Bytes([]int{0, 1, 3, 5}[r.Intn(4)])})
		}
		g = append(g, x)
	}
	return g
}

// noClear: sequences without Clear (the part of the op space on which today's code is isolated)
func genCase(r *rng.R, noClear bool) *caseIn {
	c := &caseIn{Keep: r.Bool(), NIDs: 2 + r.Intn(2)}
	n := 2 + r.Intn(11)
	el := 0
	for i := 0; i < n; i++ {
		op := opIn{Sid: 1 + r.Intn(c.NIDs), Seq: uint32(1 + r.Intn(4))}
		k := r.Intn(20)
		switch {
		case k < 9:
			op.Op = "store"
			op.G = genGroups(r, &el)
		case k < 14:
			op.Op = "remove"
		case k < 17:
			op.Op = "list"
			op.Seq = 0
		default:
			if noClear {
				op.Op = "remove"
			} else {
				op.Op = "clear"
				op.Seq = 0
			}
		}
		c.Ops = append(c.Ops, op)
	}
	return c
}

func genExhaustive(n int, add func(*caseIn, string)) {
	g1 := []grpIn{{ID: 1, Pts: []ptIn{{El: 1, Pay: []byte{7, 7}}}}}
	g2 := []grpIn{{ID: 2, Pts: []ptIn{{El: 2, Pay: []byte{9}}, {El: 3}}}}
	g3 := []grpIn{{ID: 1}, {ID: 1, Pts: []ptIn{{El: 4, Pay: []byte{1, 2, 3}}}}}
	alpha := []opIn{
		{Op: "store", Sid: 1, Seq: 1, G: g1}, {Op: "store", Sid: 2, Seq: 1, G: g2}, {Op: "store", Sid: 1, Seq: 2, G: g3},
		{Op: "remove", Sid: 1, Seq: 1}, {Op: "remove", Sid: 2, Seq: 1}, {Op: "list", Sid: 1},
		{Op: "clear", Sid: 1}, {Op: "clear", Sid: 2},
	}
	for _, keep := range []bool{true, false} {
		idx := make([]int, n)
		for {
			c := &caseIn{Keep: keep, NIDs: 2}
			for _, i := range idx {
				c.Ops = append(c.Ops, alpha[i])
			}
			add(c, "exhaustive")
			k := n - 1
			for k >= 0 {
				idx[k]++
				if idx[k] < len(alpha) {
					break
				}
				idx[k] = 0
				k--
			}
			if k < 0 {
				break
			}
		}
	}
}

func main() {
	seed := flag.Uint64("seed", 1, "seed")
	tier := flag.String("tier", "quick", "quick|thorough")
	out := flag.String("out", "", "output directory")
	replay := flag.String("replay", "", "replay file")
	flag.Parse()
	w := coqfmt.NewWriter(*out, "C07", "From Iscp Require Import Model.Upstream Model.Storage.", "st_case", "st_judge", 450)
	r := rng.New(*seed)
	type job struct {
		c    *caseIn
		kind string
	}
	var jobs []job
	add := func(c *caseIn, kind string) { jobs = append(jobs, job{c, kind}) }
	if *replay != "" {
		b, err := os.ReadFile(*replay)
		if err != nil {
			fmt.Fprintln(os.Stderr, err)
			os.Exit(2)
		}
		var rf struct {
			Input caseIn `json:"input"`
		}
		if err := json.Unmarshal(b, &rf); err != nil {
			fmt.Fprintln(os.Stderr, err)
			os.Exit(2)
		}
		add(&rf.Input, "replay")
	} else {
		exn, nrand := 3, 4000
		if *tier == "thorough" {
			exn, nrand = 4, 30000
		}
		genExhaustive(exn, add)
		for i := 0; i < nrand; i++ {
			if i%2 == 0 {
				add(genCase(r.Fork(), true), "random-noclear")
			} else {
				add(genCase(r.Fork(), false), "random")
			}
		}
	}
	for _, j := range jobs {
		res := runCase(j.c)
		cs := coqfmt.Case{Term: res.term, Input: j.c, Observed: res.observed, Nontrivial: res.streams >= 2 && len(j.c.Ops) >= 3,
			Kind: j.kind, Direct: res.direct, Sig: res.sig}
		if cs.Term == "" {
			cs.Term = "mkStCase true [] [] [] []"
		}
		w.Add(cs)
		w.Count(fmt.Sprintf("keep:%v", j.c.Keep))
		w.Count(fmt.Sprintf("ops:%d", len(j.c.Ops)/4*4))
		if res.clears > 0 {
			w.Count("with-clear")
		}
		if res.sig != "" {
			w.Count("sig:" + res.sig)
		}
	}
	rule := "exhaustive: every op sequence of fixed length over {store a/1, store b/1, store a/2, remove a/1, remove b/1, list a, clear a, clear b} for both storage variants; random: 2-12 ops over 2-3 stream ids, sequence numbers 1-4, 0-2 groups of 0-2 points with 0-5 payload bytes, half of the sequences without Clear. After every op List is observed for every stream id. non-trivial = >=2 streams touched and >=3 ops; distinct = distinct Coq case terms"
	if err := w.Flush(*seed, *tier, rule, false, nil); err != nil {
		fmt.Fprintln(os.Stderr, err)
		os.Exit(2)
	}
}

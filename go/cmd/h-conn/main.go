// h-conn: correspondence harness for C05 (a lost transport is survived) against Model/Conn.v.
// Drives the real iscp.Conn with 0-4 streams of both directions through an in-memory transport and
// a scripted broker, kills the link (<= 3 times) at chosen positions {idle, mid open, mid metadata,
// mid call, request issued during the outage, during the handshake of a redial, during resume,
// refused resume} with fast (0 ms) and slow (50 ms) redials, and records per wire incarnation the
// ConnectRequest token, the resume requests (stream ids / aliases), the event handlers' calls, the
// API return classes and - by USING every stream afterwards - whether each stream still works.
// The link failure is noticed by the client only through keepalive (10 ms / 40 ms) or a failing
// request write.  What the scheduler decides (which watcher missed which outage, whether a request
// failed before or after the redial) is read off the broker's log and handed to the model as part
// of the event list; everything else is compared exactly.
package main

import (
	"context"
	"encoding/json"
	"errors"
	"flag"
	"fmt"
	"os"
	"sort"
	"strings"
	"sync"
	"sync/atomic"
	"time"

	ierrors "github.com/aptpod/iscp-go/errors"
	"github.com/aptpod/iscp-go/iscp"
	"github.com/aptpod/iscp-go/message"
	"github.com/aptpod/iscp-go/verifhooks"

	"verif/internal/broker"
	"verif/internal/connbroker"
	"verif/internal/coqfmt"
	"verif/internal/memtr"
	"verif/internal/rng"
)

const wd = 5 * time.Second

type faultIn struct {
	Pos       string `json:"pos"` // idle midopen midmeta midcall outopen outmeta outcall handshake resume refuse
	Slow      bool   `json:"slow,omitempty"`
	HsFail    int    `json:"hsfail,omitempty"`
	Silent    bool   `json:"silent,omitempty"`
	Down      bool   `json:"down,omitempty"`       // midopen/outopen: open a downstream
	Refuse    int    `json:"refuse,omitempty"`     // pos=refuse: ordinal of the stream whose resume is refused
	Conflicts int    `json:"conflicts,omitempty"`  // pos=conflict: the broker answers the first n resume requests of every stream on the new incarnation with RESUME_REQUEST_CONFLICT and accepts the next
	RedialMs  int    `json:"redial_ms,omitempty"`  // every dial attempt of the redial takes that long (an outage longer than a stream's expiry interval)
	Late      bool   `json:"late,omitempty"`       // out*: the request is issued 25 ms after the loss, while reconnect() is already redialling (slow redial)
	OpenAfter bool   `json:"open_after,omitempty"` // after the recovery a downstream and an upstream are opened on the healthy connection
}

type caseIn struct {
	Ups   int `json:"ups"`
	Downs int `json:"downs"`
	// ShortExpiry: ordinals of the initial streams opened with a 300 ms expiry interval (the others keep the
	// default: 10 s upstream / 1 min downstream); with RedialMs the outage lasts 2-2.5 x that
	ShortExpiry []int `json:"short_expiry,omitempty"`
	// SlowHooks: every stream's resumed handler blocks (a slow application hook) until the NEXT failure has been
	// survived or refused: the stream's dispatcher is inside it while the next resumed / closed event is queued
	SlowHooks bool `json:"slow_hooks,omitempty"`
	// Backlog: before the first failure the broker pushes that many chunks into every downstream and the
	// application reads none of them (the 1024-slot read queue is full and more keep arriving); every upstream
	// has 30 chunks in flight whose acknowledgements arrive in one burst right before the link dies
	Backlog int       `json:"backlog,omitempty"`
	Faults  []faultIn `json:"faults"`
}

func classify(err error) int {
	switch {
	case err == nil:
		return 0
	case errors.Is(err, ierrors.ErrStreamClosed):
		return 1
	case errors.Is(err, ierrors.ErrConnectionClosed):
		return 2
	case errors.Is(err, ierrors.ErrISCP):
		return 3
	case errors.Is(err, context.Canceled):
		return 4
	case errors.Is(err, context.DeadlineExceeded):
		return 5
	}
	return 6
}

type strm struct {
	label int
	down  bool
	up    *iscp.Upstream
	dn    *iscp.Downstream
}

type pending struct {
	label int
	kind  string // KOpenUp KOpenDown KMeta KCall
	done  chan int
	ctxMs int
}

type runner struct {
	cb           *connbroker.B
	conn         *iscp.Conn
	mu           sync.Mutex
	disc         int
	reconn       int
	lastEv       time.Time
	resumed      []int
	sclosed      [][2]int
	rets         map[int]int
	streams      []*strm
	evs          []string
	label        int
	tokens       atomic.Int32
	seq          uint32
	direct       string
	unscripted   int
	faults       []*faultRec
	closedBefore map[int]bool
	excused      map[int]bool // resume refused by the broker, or resume exchange cut
	accounted    int          // wire incarnations established inside the fault windows
	backlog      int
	shortExpiry  map[int]bool
	downConflict bool // a downstream was closed after a RESUME_REQUEST_CONFLICT answer
	slowHooks    bool
	gates        []chan struct{} // gate k holds the resumed handlers that were called during fault k
	curFault     int
	drained      map[int]bool
}

func (r *runner) ev(s ...string) { r.evs = append(r.evs, s...) }
func (r *runner) touch()         { r.lastEv = time.Now() }

// gateNow (r.mu held) returns the gate the handlers of the current fault wait on, nil without slow hooks.
func (r *runner) gateNow() chan struct{} {
	if !r.slowHooks {
		return nil
	}
	for len(r.gates) <= r.curFault {
		r.gates = append(r.gates, make(chan struct{}))
	}
	return r.gates[r.curFault]
}

// releaseGate lets the handlers that were called during fault k return.
func (r *runner) releaseGate(k int) {
	r.mu.Lock()
	if k >= 0 && k < len(r.gates) && r.gates[k] != nil {
		select {
		case <-r.gates[k]:
		default:
			close(r.gates[k])
		}
	}
	r.mu.Unlock()
}

// expiryOf: the streams listed in ShortExpiry (initial streams: label = ordinal) expire after 300 ms
func (r *runner) expiryOf(label int, def time.Duration) time.Duration {
	if r.shortExpiry[label] {
		return 300 * time.Millisecond
	}
	return def
}

func (r *runner) newLabel() int { r.label++; return r.label - 1 }

func (r *runner) open(ctx context.Context, label int, down bool) error {
	if !down {
		up, err := r.conn.OpenUpstream(ctx, fmt.Sprintf("s%d", label), iscp.WithUpstreamFlushPolicyNone(),
			iscp.WithUpstreamCloseTimeout(300*time.Millisecond), iscp.WithUpstreamExpiryInterval(r.expiryOf(label, 10*time.Second)),
			iscp.WithUpstreamResumedEventHandler(iscp.UpstreamResumedEventHandlerFunc(func(ev *iscp.UpstreamResumedEvent) {
				r.mu.Lock()
				r.resumed = append(r.resumed, label)
				r.touch()
				g := r.gateNow()
				r.mu.Unlock()
				if g != nil {
					// a slow application handler: the stream's dispatcher sits here across the NEXT outage
					select {
					case <-g:
					case <-time.After(3 * time.Second):
					}
				}
			})),
			iscp.WithUpstreamClosedEventHandler(iscp.UpstreamClosedEventHandlerFunc(func(ev *iscp.UpstreamClosedEvent) {
				r.mu.Lock()
				e := 0
				if ev.Err != nil {
					e = 1
				}
				r.sclosed = append(r.sclosed, [2]int{label, e})
				r.touch()
				r.mu.Unlock()
			})))
		if err != nil {
			return err
		}
		r.mu.Lock()
		r.streams = append(r.streams, &strm{label: label, up: up})
		r.mu.Unlock()
		return nil
	}
	dn, err := r.conn.OpenDownstream(ctx, []*message.DownstreamFilter{message.NewDownstreamFilterAllFor(fmt.Sprintf("n%d", label))},
		iscp.WithDownstreamAckFlushInterval(5*time.Millisecond), iscp.WithDownstreamExpiryInterval(r.expiryOf(label, time.Minute)),
		iscp.WithDownstreamResumedEventHandler(iscp.DownstreamResumedEventHandlerFunc(func(ev *iscp.DownstreamResumedEvent) {
			r.mu.Lock()
			r.resumed = append(r.resumed, label)
			r.touch()
			g := r.gateNow()
			r.mu.Unlock()
			if g != nil {
				select {
				case <-g:
				case <-time.After(3 * time.Second):
				}
			}
		})),
		iscp.WithDownstreamClosedEventHandler(iscp.DownstreamClosedEventHandlerFunc(func(ev *iscp.DownstreamClosedEvent) {
			r.mu.Lock()
			e := 0
			if ev.Err != nil {
				e = 1
			}
			r.sclosed = append(r.sclosed, [2]int{label, e})
			r.touch()
			r.mu.Unlock()
		})))
	if err != nil {
		return err
	}
	r.mu.Lock()
	r.streams = append(r.streams, &strm{label: label, down: true, dn: dn})
	r.mu.Unlock()
	return nil
}

// start issues an API call in its own goroutine; its return class goes to rets.
func (r *runner) start(kind string, ctxMs int) *pending {
	p := &pending{label: r.newLabel(), kind: kind, done: make(chan int, 1), ctxMs: ctxMs}
	go func() {
		ctx, cancel := context.WithTimeout(context.Background(), time.Duration(ctxMs)*time.Millisecond)
		defer cancel()
		var err error
		defer func() {
			if x := recover(); x != nil {
				p.done <- 8
			}
		}()
		switch kind {
		case "KOpenUp":
			err = r.open(ctx, p.label, false)
		case "KOpenDown":
			err = r.open(ctx, p.label, true)
		case "KMeta":
			err = r.conn.SendBaseTime(ctx, &message.BaseTime{SessionID: "x", Name: fmt.Sprintf("m%d", p.label), BaseTime: time.Unix(1700000000, 0)})
		case "KCall":
			_, err = r.conn.SendCall(ctx, &iscp.UpstreamCall{DestinationNodeID: "dst", Name: fmt.Sprintf("c%d", p.label), Type: "t", Payload: []byte{1}})
		}
		p.done <- classify(err)
	}()
	return p
}

func (r *runner) waitLog(from int, kind string, label int) bool {
	return broker.WaitFor(2*time.Second, func() bool {
		for _, x := range r.cb.Log()[from:] {
			if x.Kind == kind && x.Label == label {
				return true
			}
		}
		return false
	})
}

func kindOfLog(k string) string {
	switch k {
	case "KOpenUp":
		return "openup"
	case "KOpenDown":
		return "opendown"
	case "KMeta":
		return "meta"
	}
	return "call"
}

func (r *runner) fault(f faultIn) {
	cb := r.cb
	existed := map[int]bool{}
	r.mu.Lock()
	for _, s := range r.streams {
		existed[s.label] = true
	}
	r.mu.Unlock()
	logStart := len(cb.Log())
	sessStart := len(cb.Sessions())
	g0 := cb.Gens()
	cur := cb.CurrentEstablished()
	if f.Slow {
		cb.DialDelay.Store(int64(50 * time.Millisecond))
	} else {
		cb.DialDelay.Store(0)
	}
	if f.RedialMs > 0 {
		cb.DialDelay.Store(int64(time.Duration(f.RedialMs) * time.Millisecond)) // every dial attempt takes that long
	}
	hs := f.HsFail
	if f.Pos == "handshake" && hs == 0 {
		hs = 1
	}
	cb.FailHandshakes(hs)
	var pend []*pending
	mode := memtr.Loud
	if f.Silent {
		mode = memtr.Silent
	}
	var midcall *pending
	switch f.Pos {
	case "conflict":
		n := f.Conflicts
		if n < 1 {
			n = 1
		}
		cb.ConflictResumes(n)
		cur.Link.Sever(mode)
		r.ev("ELinkDown", "EDetect")
	case "idle", "handshake":
		if r.backlog > 0 {
			cb.FlushHeldAcks() // the ack burst is still in the client's queues when the link dies
			cb.NoAnswer("chunk", false)
		}
		cur.Link.Sever(mode)
		r.ev("ELinkDown", "EDetect")
	case "resume":
		cb.SeverOn("resume")
		cur.Link.Sever(memtr.Loud)
		r.ev("ELinkDown", "EDetect")
	case "refuse":
		r.mu.Lock()
		if len(r.streams) > 0 {
			cb.RefuseResume(r.streams[f.Refuse%len(r.streams)].label)
		}
		r.mu.Unlock()
		cur.Link.Sever(memtr.Loud)
		r.ev("ELinkDown", "EDetect")
	case "midopen", "midmeta", "midcall", "dblopen", "dblmeta":
		kind := map[string]string{"midopen": "KOpenUp", "midmeta": "KMeta", "midcall": "KCall", "dblopen": "KOpenUp", "dblmeta": "KMeta"}[f.Pos]
		if (f.Pos == "midopen" || f.Pos == "dblopen") && f.Down {
			kind = "KOpenDown"
		}
		bk := map[string]string{"midopen": "open", "midmeta": "meta", "midcall": "call", "dblopen": "open", "dblmeta": "meta"}[f.Pos]
		if strings.HasPrefix(f.Pos, "dbl") {
			// the request is cut, re-sent after the redial, and cut AGAIN before the answer (peer-side cut, or
			// silent: only keepalive notices), re-sent after the second redial and answered
			cb.SeverOnN(bk, 2, f.Silent)
		} else {
			cb.SeverOn(bk)
		}
		ms := 4000
		if f.Pos == "midcall" {
			ms = 400
		}
		p := r.start(kind, ms)
		pend = append(pend, p)
		if f.Pos == "midcall" {
			midcall = p
		}
		r.ev(fmt.Sprintf("EStart %d %s", p.label, kind), fmt.Sprintf("EWake %d", p.label))
		if !r.waitLog(logStart, kindOfLog(kind), p.label) {
			cb.Disarm()
			cb.ConflictResumes(0)
			cls := -1
			select {
			case cls = <-p.done:
				r.mu.Lock()
				r.rets[p.label] = cls
				r.mu.Unlock()
			default:
			}
			r.direct = fmt.Sprintf("%s issued on a healthy connection never reached the broker within 2 s (return class %d; -1 = still blocked)", kind, cls)
			return
		}
		r.ev("ELinkDown", "EDetect")
	case "outopen", "outmeta", "outcall":
		kind := map[string]string{"outopen": "KOpenUp", "outmeta": "KMeta", "outcall": "KCall"}[f.Pos]
		if f.Pos == "outopen" && f.Down {
			kind = "KOpenDown"
		}
		cur.Link.Sever(memtr.Loud)
		if f.Late {
			// keepalive (10 ms) has noticed and reconnect() is inside its (slow) redial when the call is made
			time.Sleep(25 * time.Millisecond)
			p := r.start(kind, 4000)
			pend = append(pend, p)
			r.ev("ELinkDown", "EDetect", "ELoop", fmt.Sprintf("EStart %d %s", p.label, kind), fmt.Sprintf("EWake %d", p.label))
		} else {
			p := r.start(kind, 4000)
			pend = append(pend, p)
			r.ev("ELinkDown", fmt.Sprintf("EStart %d %s", p.label, kind), fmt.Sprintf("EWake %d", p.label), "EDetect")
		}
	}

	// ---- wait until the connection has settled
	deadline := time.Now().Add(wd)
	returned := map[int]bool{}
	for {
		alldone := true
		for _, p := range pend {
			if returned[p.label] {
				continue
			}
			select {
			case c := <-p.done:
				returned[p.label] = true
				r.mu.Lock()
				r.rets[p.label] = c
				r.mu.Unlock()
			default:
				alldone = false
			}
		}
		ce := cb.CurrentEstablished()
		r.mu.Lock()
		quietEv := time.Since(r.lastEv) > 150*time.Millisecond
		r.mu.Unlock()
		if alldone && cb.Gens() > g0 && ce != nil && ce.Link.Mode() == memtr.Up &&
			time.Since(cb.LastActivity()) > 150*time.Millisecond && quietEv {
			break
		}
		if time.Now().After(deadline) {
			r.direct = fmt.Sprintf("the connection did not recover within %v after fault %+v (gens %d -> %d, pending done %v)", wd, f, g0, cb.Gens(), alldone)
			return
		}
		time.Sleep(3 * time.Millisecond)
	}
	cb.Disarm()
	cb.ConflictResumes(0)

	// ---- keep what the broker saw; the schedule is read off it once the streams have been used
	fr := &faultRec{f: f, log: cb.Log()[logStart:], midcall: -1, inflight: map[int]bool{}, existed: existed}
	for _, s := range cb.Sessions()[sessStart:] {
		fr.sessGens = append(fr.sessGens, cb.GenOf(s.Idx))
	}
	if midcall != nil {
		fr.midcall = midcall.label
	}
	for _, p := range pend {
		if (strings.HasPrefix(f.Pos, "mid") || strings.HasPrefix(f.Pos, "dbl")) && p != midcall {
			fr.inflight[p.label] = true
		}
	}
	r.faults = append(r.faults, fr)
	r.ev(fmt.Sprintf("@%d", len(r.faults)-1))
	if f.OpenAfter {
		for _, kind := range []string{"KOpenDown", "KOpenUp"} {
			p := r.start(kind, 3000)
			select {
			case cl := <-p.done:
				r.mu.Lock()
				r.rets[p.label] = cl
				r.mu.Unlock()
				if cl == 0 {
					r.ev(fmt.Sprintf("EStart %d %s", p.label, kind), fmt.Sprintf("EWake %d", p.label), fmt.Sprintf("EResp %d", p.label))
				} else {
					r.direct = fmt.Sprintf("%s on the recovered connection failed (return class %d)", kind, cl)
					return
				}
			case <-time.After(wd):
				r.direct = kind + " on the recovered connection blocked"
				return
			}
		}
	}
}

type faultRec struct {
	f        faultIn
	log      []connbroker.Rec
	sessGens []int
	midcall  int
	inflight map[int]bool
	existed  map[int]bool // streams that were open when the fault began
}

// schedule reads the scheduler's decisions off the broker's log of one fault: which streams caught
// which outage (a resume request on that wire incarnation), on which incarnation every interrupted
// request was written again, how many handshakes failed.
func (r *runner) schedule(fr *faultRec, finals map[int]int) []string {
	cb := r.cb
	f := fr.f
	var out []string
	ev := func(s ...string) { out = append(out, s...) }
	type win struct {
		gen      int
		fails    int
		severed  bool // the broker cut this incarnation at its first resume request
		resumes  []connbroker.Rec
		requests []connbroker.Rec
	}
	var wins []*win
	fails := 0
	for _, g := range fr.sessGens {
		if g < 0 {
			fails++
			continue
		}
		wins = append(wins, &win{gen: g, fails: fails})
		fails = 0
	}
	winOf := map[int]*win{}
	for _, w := range wins {
		winOf[w.gen] = w
	}
	r.accounted += len(wins)
	writes := map[int][]int{}
	for _, x := range fr.log {
		g := cb.GenOf(x.Sess)
		w := winOf[g]
		if w == nil {
			continue
		}
		switch x.Kind {
		case "resumeup", "resumedown":
			if x.Label >= 0 {
				w.resumes = append(w.resumes, x)
			}
		case "openup", "opendown", "meta", "call":
			w.requests = append(w.requests, x)
			writes[x.Label] = append(writes[x.Label], g)
		}
	}
	if f.Pos == "resume" && len(wins) >= 2 && len(wins[0].resumes) > 0 {
		wins[0].severed = true
	}
	if strings.HasPrefix(f.Pos, "dbl") && len(wins) >= 2 {
		wins[0].severed = true // the broker cut this incarnation at the re-sent request, while the streams were resuming
	}
	inflight := map[int]bool{}
	for k := range fr.inflight {
		inflight[k] = true
	}
	r.mu.Lock()
	closedEv := map[int]int{}
	for _, e := range r.sclosed {
		closedEv[e[0]] = e[1] + 1
	}
	r.mu.Unlock()
	lastGen := map[int]int{}
	for _, x := range cb.Log() {
		if (x.Kind == "resumeup" || x.Kind == "resumedown") && x.Label >= 0 {
			if g := cb.GenOf(x.Sess); g > lastGen[x.Label] {
				lastGen[x.Label] = g
			}
		}
	}
	nReq, nRes := map[int]int{}, map[int]int{}
	seenReq := map[[2]int]bool{}
	for _, x := range cb.Log() {
		if (x.Kind == "resumeup" || x.Kind == "resumedown") && x.Label >= 0 {
			k := [2]int{cb.GenOf(x.Sess), x.Label}
			if !seenReq[k] {
				seenReq[k] = true
				nReq[x.Label]++ // one resume exchange per incarnation, however often a conflict made it repeat the request
			}
		}
	}
	r.mu.Lock()
	for _, l := range r.resumed {
		nRes[l]++
	}
	r.mu.Unlock()
	closeReached := map[int]bool{}
	for _, x := range cb.Log() {
		if (x.Kind == "closeup" || x.Kind == "closedown") && x.Label >= 0 {
			closeReached[x.Label] = true
		}
	}
	// the last resume request of a stream got no (successful) answer
	lastCut := func(label int) bool { return nRes[label] < nReq[label] }
	resumesLater := func(label, wi int) bool { return lastGen[label] > wins[wi].gen }
	var deferred []string // answers of resumes that were cut: they surface once the wire connection is closed
	for wi, w := range wins {
		// requests whose exchange was cut and that are written again on this incarnation: the ones in flight
		// when the fault began, and the ones re-sent on an incarnation that was cut again before the answer
		var refails []int
		for lbl, gs := range writes {
			for k, g := range gs {
				if g == w.gen && (k > 0 || inflight[lbl]) {
					refails = append(refails, lbl)
				}
			}
		}
		sort.Ints(refails)
		if wi > 0 {
			prev := wins[wi-1]
			if !prev.severed {
				// the link of the previous incarnation died: cut by the script at a re-sent request, or
				// declared dead by keepalive (a pong later than 40 ms on a loaded machine)
				ev("ELinkDown", "EDetect")
				if len(refails) == 0 {
					r.unscripted++
				}
			}
		}
		for _, lbl := range refails {
			ev(fmt.Sprintf("EFail %d", lbl))
			delete(inflight, lbl)
		}
		// a RESUME_REQUEST_CONFLICT answer makes the client write the request again on the same incarnation
		repeats := map[int]int{}
		var uniq []connbroker.Rec
		for _, x := range w.resumes {
			if repeats[x.Label] == 0 {
				uniq = append(uniq, x)
			}
			repeats[x.Label]++
		}
		w.resumes = uniq
		ev("ELoop")
		ev(deferred...)
		deferred = nil
		for _, x := range w.resumes {
			ev(fmt.Sprintf("EWatch %d", x.Label))
		}
		// streams that caught the outage but whose resume request failed at the write (link already cut):
		// closed with the resume error, never refused, every request they did send was answered
		var writeFailed []int
		if w.severed {
			has := map[int]bool{}
			for _, x := range w.resumes {
				has[x.Label] = true
			}
			var ls []int
			for l, fc := range finals {
				_, wasRefused := cb.RefusedOn(l)
				if fc == 2 && fr.existed[l] && closedEv[l] == 2 && !wasRefused && !has[l] && !resumesLater(l, wi) && !lastCut(l) && !closeReached[l] {
					if _, closedBefore := r.closedBefore[l]; !closedBefore {
						ls = append(ls, l)
					}
				}
			}
			sort.Ints(ls)
			for _, l := range ls {
				ev(fmt.Sprintf("EWatch %d", l))
				writeFailed = append(writeFailed, l)
				r.excused[l] = true // its resume request could not even be written: the link was cut at the resume
				r.closedBefore[l] = true
			}
		}
		for i := 0; i < w.fails; i++ {
			ev("EDial false")
		}
		ev("EDial true")
		for _, x := range w.resumes {
			ev(fmt.Sprintf("ESup %d", x.Label))
			for k := 1; k < repeats[x.Label]; k++ {
				ev(fmt.Sprintf("EResumeResp %d RespConflict", x.Label))
			}
			resp := fmt.Sprintf("EResumeResp %d RespOk", x.Label)
			if !resumesLater(x.Label, wi) && lastCut(x.Label) {
				r.closedBefore[x.Label] = true
				if x.Kind == "resumedown" && cb.ConflictsOn(x.Label, w.gen) > 0 && cb.ConflictsOn(x.Label, w.gen) == repeats[x.Label] {
					// every request of this downstream on this incarnation was answered RESUME_REQUEST_CONFLICT and the
					// stream ended closed: it did not retry (the F46 shape)
					// the broker answered RESUME_REQUEST_CONFLICT and the downstream did not retry (finding): NOT excused
					resp = fmt.Sprintf("EResumeResp %d RespConflict", x.Label)
					r.downConflict = true
				} else if g, wasRefused := cb.RefusedOn(x.Label); wasRefused && g == w.gen {
					resp = fmt.Sprintf("EResumeResp %d RespRefused", x.Label)
					r.excused[x.Label] = true
				} else {
					if w.severed || wi+1 < len(wins) {
						// the broker killed this incarnation at a resume request, or the incarnation died right
						// after: the resume exchange was cut
						r.excused[x.Label] = true
					}
					// the exchange was cut: the answer surfaces once the wire connection is closed
					deferred = append(deferred, resp)
					continue
				}
			}
			ev(resp)
		}
		for _, x := range w.requests {
			ev(fmt.Sprintf("EWake %d", x.Label))
			gs := writes[x.Label]
			if x.Label != fr.midcall && len(gs) > 0 && gs[len(gs)-1] == w.gen {
				ev(fmt.Sprintf("EResp %d", x.Label)) // answered on the last incarnation it was written on
			}
		}
		if w.severed {
			ev("ELinkDown")
			for _, l := range writeFailed {
				ev(fmt.Sprintf("ESup %d", l))
			}
			ev("EDetect")
		}
	}
	if len(deferred) > 0 {
		// cut without a later outage in this fault: the wire connection was closed by a reconnect we did not see
		ev(deferred...)
	}
	if fr.midcall >= 0 {
		ev(fmt.Sprintf("ECtx %d", fr.midcall))
	}
	return out
}

// probe uses the stream: 0 works on the current wire connection, 1 detached, 2 closed with event, 3 closed without
func (r *runner) probe(s *strm) int {
	code := r.probeUse(s, r.resumedOnCurrent(s))
	return code
}

// resumedOnCurrent: a stream that was opened on an earlier wire incarnation must have sent its resume
// request on the current one BEFORE the application touches it again (a stream that resumes only once
// the application reads or writes was detached in the meantime).
func (r *runner) resumedOnCurrent(s *strm) bool {
	cb := r.cb
	cur := cb.CurrentEstablished()
	curGen := cb.GenOf(cur.Idx)
	openGen, resumed := -1, false
	for _, x := range cb.Log() {
		if x.Label != s.label {
			continue
		}
		g := cb.GenOf(x.Sess)
		switch x.Kind {
		case "openup", "opendown":
			if g > openGen {
				openGen = g
			}
		case "resumeup", "resumedown":
			if g == curGen {
				resumed = true
			}
		}
	}
	return openGen == curGen || resumed
}

func (r *runner) probeUse(s *strm, resumedBeforeUse bool) int {
	cb := r.cb
	cur := cb.CurrentEstablished()
	curGen := cb.GenOf(cur.Idx)
	closedCode := func() int {
		// closed events are dispatched asynchronously
		broker.WaitFor(100*time.Millisecond, func() bool {
			r.mu.Lock()
			defer r.mu.Unlock()
			for _, e := range r.sclosed {
				if e[0] == s.label {
					return true
				}
			}
			return false
		})
		r.mu.Lock()
		defer r.mu.Unlock()
		for _, e := range r.sclosed {
			if e[0] == s.label {
				return 2
			}
		}
		return 3
	}
	if !s.down {
		from := len(cb.Log())
		ctx, cancel := context.WithTimeout(context.Background(), time.Second)
		defer cancel()
		r.seq++
		err := s.up.WriteDataPoints(ctx, &message.DataID{Name: "d", Type: "t"}, &message.DataPoint{ElapsedTime: time.Duration(r.seq), Payload: []byte{7}})
		if err == nil {
			err = s.up.Flush(ctx)
		}
		if errors.Is(err, ierrors.ErrStreamClosed) {
			return closedCode()
		}
		if err != nil {
			return 1
		}
		ok := broker.WaitFor(250*time.Millisecond, func() bool {
			for _, x := range cb.Log()[from:] {
				if x.Kind == "chunk" && x.Label == s.label && cb.GenOf(x.Sess) == curGen {
					return true
				}
			}
			return false
		})
		if ok && resumedBeforeUse {
			return 0
		}
		return 1
	}
	if r.backlog > 0 {
		// the data queued before the outage is still readable ...
		n := 0
		for {
			ch, _ := iscp.VerifDownstreamQueued(s.dn)
			if ch == 0 || n > 3000 {
				break
			}
			ctx, cancel := context.WithTimeout(context.Background(), 250*time.Millisecond)
			_, err := s.dn.ReadDataPoints(ctx)
			cancel()
			if errors.Is(err, ierrors.ErrStreamClosed) {
				return closedCode()
			}
			if err != nil {
				return 1
			}
			n++
		}
		if n < 1000 {
			return 1 // the backlog was lost
		}
		time.Sleep(10 * time.Millisecond)
		for {
			ch, _ := iscp.VerifDownstreamQueued(s.dn)
			if ch == 0 {
				break
			}
			ctx, cancel := context.WithTimeout(context.Background(), 100*time.Millisecond)
			s.dn.ReadDataPoints(ctx)
			cancel()
		}
	}
	// ... and a NEW chunk is delivered on the current wire connection
	r.seq++
	want := r.seq
	cb.SendChunk(cur, s.label, want)
	ctx, cancel := context.WithTimeout(context.Background(), 250*time.Millisecond)
	defer cancel()
	got, err := s.dn.ReadDataPoints(ctx)
	if err == nil {
		if got.SequenceNumber != want || !resumedBeforeUse {
			return 1
		}
		return 0
	}
	if errors.Is(err, ierrors.ErrStreamClosed) {
		return closedCode()
	}
	return 1
}

type result struct {
	term       string
	observed   map[string]interface{}
	direct     string
	sig        string
	nt         bool
	unscripted int
	noisy      bool // a wire incarnation was established outside every fault window (keepalive false positive under load)
}

func runCase(c *caseIn) (res result) {
	r := &runner{cb: connbroker.New(), rets: map[int]int{}, lastEv: time.Now(), closedBefore: map[int]bool{}, excused: map[int]bool{}}
	r.shortExpiry = map[int]bool{}
	for _, o := range c.ShortExpiry {
		r.shortExpiry[o] = true
	}
	defer r.cb.Release()
	done := make(chan error, 1)
	go func() {
		var err error
		r.conn, err = iscp.Connect(r.cb.Address, broker.TransportName,
			iscp.WithConnPingInterval(10*time.Millisecond), iscp.WithConnPingTimeout(40*time.Millisecond),
			iscp.WithConnTokenSource(iscp.TokenSourceFunc(func() (iscp.Token, error) {
				n := r.tokens.Add(1) - 1
				return iscp.Token(fmt.Sprintf("t%d", n)), nil
			})),
			iscp.WithConnDisconnectedEventHandler(iscp.DisconnectedEventHandlerFunc(func(*iscp.DisconnectedEvent) {
				r.mu.Lock()
				r.disc++
				r.touch()
				r.mu.Unlock()
			})),
			iscp.WithConnReconnectedEventHandler(iscp.ReconnectedEventHandlerFunc(func(*iscp.ReconnectedEvent) {
				r.mu.Lock()
				r.reconn++
				r.touch()
				r.mu.Unlock()
			})))
		done <- err
	}()
	select {
	case err := <-done:
		if err != nil {
			res.direct = "iscp.Connect failed: " + err.Error()
			return
		}
	case <-time.After(wd):
		res.direct = "iscp.Connect blocked"
		return
	}
	defer func() {
		ctx, cancel := context.WithTimeout(context.Background(), time.Second)
		defer cancel()
		cd := make(chan struct{})
		go func() { r.conn.Close(ctx); close(cd) }()
		select {
		case <-cd:
		case <-time.After(2 * time.Second):
		}
	}()
	for i := 0; i < c.Ups+c.Downs; i++ {
		down := i >= c.Ups
		kind := "KOpenUp"
		if down {
			kind = "KOpenDown"
		}
		p := r.start(kind, 3000)
		select {
		case cl := <-p.done:
			r.rets[p.label] = cl
			if cl != 0 {
				res.direct = fmt.Sprintf("opening an initial stream on a fresh connection failed (return class %d)", cl)
				return
			}
		case <-time.After(wd):
			res.direct = "opening an initial stream blocked"
			return
		}
		r.ev(fmt.Sprintf("EStart %d %s", p.label, kind), fmt.Sprintf("EWake %d", p.label), fmt.Sprintf("EResp %d", p.label))
	}
	if c.Backlog > 0 && res.direct == "" {
		r.backlog = c.Backlog
		r.drained = map[int]bool{}
		r.mu.Lock()
		streams := append([]*strm(nil), r.streams...)
		r.mu.Unlock()
		cur := r.cb.CurrentEstablished()
		for _, s := range streams {
			if s.down {
				for k := 0; k < c.Backlog; k++ {
					r.seq++
					r.cb.SendChunk(cur, s.label, r.seq)
				}
				want := c.Backlog
				if want > 1024 {
					want = 1024
				}
				s := s
				if !broker.WaitFor(3*time.Second, func() bool { ch, _ := iscp.VerifDownstreamQueued(s.dn); return ch >= want }) {
					res.direct = "the chunks pushed by the broker did not fill the downstream's read queue"
				}
			} else {
				r.cb.NoAnswer("chunk", true)
				for k := 0; k < 30; k++ {
					ctx, cancel := context.WithTimeout(context.Background(), time.Second)
					r.seq++
					err := s.up.WriteDataPoints(ctx, &message.DataID{Name: "d", Type: "t"}, &message.DataPoint{ElapsedTime: time.Duration(r.seq), Payload: []byte{7}})
					if err == nil {
						err = s.up.Flush(ctx)
					}
					cancel()
					if err != nil {
						res.direct = "write/flush on a healthy upstream failed: " + err.Error()
						break
					}
				}
			}
		}
		time.Sleep(20 * time.Millisecond) // the last chunks have reached the stream's loops
	}
	r.slowHooks = c.SlowHooks
	for fi, f := range c.Faults {
		if res.direct != "" {
			break
		}
		r.mu.Lock()
		r.curFault = fi
		r.mu.Unlock()
		r.fault(f)
		if c.SlowHooks {
			// the handlers called during the PREVIOUS fault return now, after this fault's refusal / recovery
			r.releaseGate(fi - 1)
			time.Sleep(60 * time.Millisecond)
		}
		if r.direct != "" {
			res.direct = r.direct
			break
		}
	}
	if c.SlowHooks {
		for k := range c.Faults {
			r.releaseGate(k)
		}
		time.Sleep(80 * time.Millisecond) // every queued notification is delivered
	}
	// use every stream
	r.mu.Lock()
	streams := append([]*strm(nil), r.streams...)
	r.mu.Unlock()
	sort.SliceStable(streams, func(i, j int) bool { return streams[i].label < streams[j].label })
	finals := make([][2]int, len(streams))
	var wg sync.WaitGroup
	if res.direct == "" {
		for i, s := range streams {
			finals[i] = [2]int{s.label, r.probe(s)}
		}
	}
	wg.Wait()
	time.Sleep(5 * time.Millisecond)

	r.mu.Lock()
	disc, reconn := r.disc, r.reconn
	resumed := append([]int(nil), r.resumed...)
	sclosed := append([][2]int(nil), r.sclosed...)
	rets := map[int]int{}
	for k, v := range r.rets {
		rets[k] = v
	}
	r.mu.Unlock()
	sort.Ints(resumed)
	sort.Slice(sclosed, func(i, j int) bool { return sclosed[i][0]*2+sclosed[i][1] < sclosed[j][0]*2+sclosed[j][1] })

	// connects per attempt
	var connects, resumes []string
	idsOK := true
	type rr struct{ g, l, d int }
	var rrs []rr
	for _, x := range r.cb.Log() {
		switch x.Kind {
		case "connect":
			tok := -1
			fmt.Sscanf(x.Tok, "t%d", &tok)
			if tok < 0 {
				tok = 99999
			}
			connects = append(connects, fmt.Sprintf("(%d,%d)", x.Sess, tok))
		case "resumeup", "resumedown":
			if x.Label < 0 {
				idsOK = false
				continue
			}
			d := 0
			if x.Kind == "resumedown" {
				d = 1
			}
			rrs = append(rrs, rr{r.cb.GenOf(x.Sess), x.Label, d})
		}
	}
	seenAlias := map[uint32]bool{}
	for _, a := range r.cb.DownAliases() {
		if seenAlias[a] {
			idsOK = false // two downstreams of one connection under the same stream id alias
		}
		seenAlias[a] = true
	}
	sort.Slice(rrs, func(i, j int) bool { return rrs[i].g*2000+rrs[i].l*2+rrs[i].d < rrs[j].g*2000+rrs[j].l*2+rrs[j].d })
	for _, x := range rrs {
		resumes = append(resumes, fmt.Sprintf("(%d,%d,%s)", x.g, x.l, coqfmt.Bool(x.d == 1)))
	}
	var resumedT, sclosedT, retsT, finalsT []string
	for _, x := range resumed {
		resumedT = append(resumedT, fmt.Sprint(x))
	}
	for _, x := range sclosed {
		sclosedT = append(sclosedT, fmt.Sprintf("(%d,%s)", x[0], coqfmt.Bool(x[1] == 1)))
	}
	var rk []int
	for k := range rets {
		rk = append(rk, k)
	}
	sort.Ints(rk)
	for _, k := range rk {
		retsT = append(retsT, fmt.Sprintf("(%d,%d)", k, rets[k]))
	}
	fm := map[int]int{}
	for _, f := range finals {
		fm[f[0]] = f[1]
	}
	var evs []string
	for _, e := range r.evs {
		if strings.HasPrefix(e, "@") {
			var n int
			fmt.Sscanf(e, "@%d", &n)
			evs = append(evs, r.schedule(r.faults[n], fm)...)
		} else {
			evs = append(evs, e)
		}
	}
	r.evs = evs
	var sigs []string
	f9, f19 := false, false
	for _, f := range finals {
		finalsT = append(finalsT, fmt.Sprintf("(%d,%d)", f[0], f[1]))
		if f[1] == 1 {
			f9 = true
		}
		if f[1] == 3 {
			f19 = true
		}
	}
	// F9 (missed outage) and F19 (cut resume without closed event) are repaired in /repo: a detached
	// stream (final code 1) or a silently closed one (3) is a fresh violation, not a known finding
	_, _ = f9, f19
	if r.downConflict {
		sigs = append(sigs, "F46:downstream-resume-conflict-not-retried")
	}
	res.sig = strings.Join(sigs, " ")
	exact := res.direct == ""
	var excT []string
	var excL []int
	for l := range r.excused {
		excL = append(excL, l)
	}
	sort.Ints(excL)
	for _, l := range excL {
		excT = append(excT, fmt.Sprint(l))
	}
	res.term = fmt.Sprintf("mkCn %s %s %d %s %s %d %d %s %s %s %s %s %s", coqfmt.List(r.evs), coqfmt.List(connects), r.tokens.Load(),
		coqfmt.List(resumes), coqfmt.Bool(idsOK), disc, reconn, coqfmt.List(resumedT), coqfmt.List(sclosedT), coqfmt.List(retsT),
		coqfmt.List(finalsT), coqfmt.List(excT), coqfmt.Bool(exact))
	res.observed = map[string]interface{}{"connects": connects, "tokens": r.tokens.Load(), "resumes": resumes, "disconnected": disc,
		"reconnected": reconn, "resumed": resumed, "stream_closed": sclosed, "rets": rets, "finals": finals, "excused": excL, "events": r.evs,
		"unscripted_outages": r.unscripted}
	// also: an outage that began after the last settle and whose redial is still running at the snapshot
	res.noisy = r.cb.Gens() != 1+r.accounted || disc != reconn || int(r.tokens.Load()) != len(connects)
	res.nt = reconn >= 1 && len(streams) >= 1 && len(resumes) >= 1
	res.unscripted = r.unscripted
	return
}

// ---------------------------------------------------------------- generators

var positions = []string{"conflict", "idle", "midopen", "midmeta", "midcall", "outopen", "outmeta", "outcall", "handshake", "resume", "refuse", "dblopen", "dblmeta"}

func genRandom(r *rng.R) *caseIn {
	c := &caseIn{Ups: r.Intn(3), Downs: r.Intn(3), SlowHooks: r.Chance(1, 5)}
	if c.Ups+c.Downs > 4 {
		c.Downs = 4 - c.Ups
	}
	n := 1 + r.Intn(3)
	for i := 0; i < n; i++ {
		f := faultIn{Pos: positions[r.Intn(len(positions))], Slow: r.Chance(1, 3), Down: r.Bool(), Refuse: r.Intn(4)}
		f.Conflicts = 1 + r.Intn(2)
		if (f.Pos == "resume" || f.Pos == "refuse" || f.Pos == "conflict") && c.Ups+c.Downs == 0 {
			f.Pos = "idle"
		}
		if f.Pos == "idle" {
			f.Silent = r.Chance(1, 3)
		}
		if r.Chance(1, 5) {
			f.HsFail = 1 + r.Intn(2)
		}
		if strings.HasPrefix(f.Pos, "out") && r.Chance(1, 3) {
			f.Late, f.Slow = true, true
		}
		f.OpenAfter = r.Chance(1, 5)
		c.Faults = append(c.Faults, f)
	}
	return c
}

func main() {
	seed := flag.Uint64("seed", 1, "seed")
	tier := flag.String("tier", "quick", "quick|thorough")
	out := flag.String("out", "", "output directory")
	replay := flag.String("replay", "", "replay file")
	flag.Parse()
	restore := verifhooks.RetrySetDefaultIntervals(3*time.Millisecond, 10*time.Millisecond)
	defer restore()
	w := coqfmt.NewWriter(*out, "C05", "From Iscp Require Import Model.Conn.", "cn_case", "cn_judge", 60)
	r := rng.New(*seed)
	type job struct {
		c    *caseIn
		kind string
	}
	var jobs []job
	if *replay != "" {
		b, err := os.ReadFile(*replay)
		if err != nil {
			fmt.Fprintln(os.Stderr, err)
			os.Exit(2)
		}
		var rf struct {
			Input caseIn `json:"input"`
		}
		if err := json.Unmarshal(b, &rf); err != nil {
			fmt.Fprintln(os.Stderr, err)
			os.Exit(2)
		}
		// a schedule-dependent finding is looked for repeatedly
		for i := 0; i < 12; i++ {
			c := rf.Input
			jobs = append(jobs, job{&c, "replay"})
		}
	} else {
		shapes := [][2]int{{0, 0}, {1, 0}, {0, 1}, {2, 2}, {3, 1}}
		reps := 1
		nrand := 50
		if *tier == "thorough" {
			reps = 4
			nrand = 600
		}
		for rep := 0; rep < reps; rep++ {
			for _, pos := range positions {
				for _, slow := range []bool{false, true} {
					for _, sh := range shapes {
						if (pos == "resume" || pos == "refuse") && sh[0]+sh[1] == 0 {
							continue
						}
						if pos == "conflict" && sh[0]+sh[1] == 0 {
							continue
						}
						f := faultIn{Pos: pos, Slow: slow, Down: sh[1] > sh[0], Refuse: int(r.Intn(4)), Conflicts: 1 + (sh[0]+sh[1])%2}
						jobs = append(jobs, job{&caseIn{Ups: sh[0], Downs: sh[1], Faults: []faultIn{f}}, "single-" + pos})
						if pos == "outopen" && slow {
							// opens of both directions issued while reconnect() is already redialling
							for _, dn := range []bool{false, true} {
								g := f
								g.Down, g.Late = dn, true
								jobs = append(jobs, job{&caseIn{Ups: sh[0], Downs: sh[1], Faults: []faultIn{g}}, "single-outopen-late"})
							}
						}
						if pos == "idle" {
							// streams of both directions opened after the recovery, next to those opened before it
							g := f
							g.OpenAfter = true
							jobs = append(jobs, job{&caseIn{Ups: sh[0], Downs: sh[1], Faults: []faultIn{g}}, "single-idle-open-after"})
						}
						if pos == "dblopen" || pos == "dblmeta" {
							// second cut noticed by keepalive only
							g := f
							g.Silent = true
							jobs = append(jobs, job{&caseIn{Ups: sh[0], Downs: sh[1], Faults: []faultIn{g}}, "single-" + pos})
						}
						if pos == "midopen" || pos == "outopen" || pos == "dblopen" {
							// streams of BOTH directions are opened around the outage (written again on the new
							// incarnation) and then used
							g := f
							g.Down = !f.Down
							jobs = append(jobs, job{&caseIn{Ups: sh[0], Downs: sh[1], Faults: []faultIn{g}}, "single-" + pos})
						}
					}
				}
			}
		}
		// slow application hooks: the stream's dispatcher is inside a resumed handler while the next event is queued
		for _, second := range []string{"refuse", "resume", "idle", "conflict"} {
			for _, sh := range [][2]int{{1, 0}, {0, 1}, {2, 2}} {
				for _, slow := range []bool{false, true} {
					c := &caseIn{Ups: sh[0], Downs: sh[1], SlowHooks: true,
						Faults: []faultIn{{Pos: "idle", Slow: slow}, {Pos: second, Slow: slow, Refuse: sh[0], Conflicts: 1}}}
					jobs = append(jobs, job{c, "slow-hooks-" + second})
				}
			}
		}
		// outages longer than a stream's expiry interval (300 ms streams, redial of 650-750 ms), next to long-expiry
		// siblings: the library cannot know the broker expired a stream - it resumes (the scripted broker accepts)
		for _, sh := range []struct {
			ups, downs int
			short      []int
		}{{1, 0, []int{0}}, {0, 1, []int{0}}, {1, 1, []int{0, 1}}, {2, 1, []int{0, 2}}, {1, 2, []int{1}}} {
			jobs = append(jobs, job{&caseIn{Ups: sh.ups, Downs: sh.downs, ShortExpiry: sh.short, Faults: []faultIn{{Pos: "idle", RedialMs: 650}}}, "outage-longer-than-expiry"})
			jobs = append(jobs, job{&caseIn{Ups: sh.ups, Downs: sh.downs, ShortExpiry: sh.short, Faults: []faultIn{{Pos: "handshake", RedialMs: 250, HsFail: 2, Silent: sh.ups == 2}}}, "outage-longer-than-expiry"})
		}
		// backlog at the outage: full read queues (1100 / 2200 unread chunks per downstream), ack burst on the upstreams
		for _, bl := range []int{1100, 2200} {
			for _, silent := range []bool{false, true} {
				for _, sh := range [][2]int{{0, 1}, {1, 1}, {2, 2}} {
					f := faultIn{Pos: "idle", Silent: silent, Slow: bl == 2200}
					jobs = append(jobs, job{&caseIn{Ups: sh[0], Downs: sh[1], Backlog: bl, Faults: []faultIn{f}}, "backlog-at-outage"})
				}
			}
		}
		jobs = append(jobs, job{&caseIn{Ups: 1, Downs: 1, Backlog: 1100, Faults: []faultIn{{Pos: "idle"}, {Pos: "idle", Silent: true}}}, "backlog-at-outage"})
		for i := 0; i < nrand; i++ {
			jobs = append(jobs, job{genRandom(r.Fork()), "random"})
		}
	}
	var noisyMu sync.Mutex
	var nnoisy atomic.Int32
	results := make([]coqfmt.Case, len(jobs))
	unscripted := make([]int, len(jobs))
	sem := make(chan struct{}, 12)
	var wg sync.WaitGroup
	for i, j := range jobs {
		wg.Add(1)
		sem <- struct{}{}
		go func(i int, j job) {
			defer wg.Done()
			defer func() { <-sem }()
			res := runCase(j.c)
			// an outage nobody scripted, outside every fault window (a pong later than 40 ms on a loaded
			// machine), races with the final use of the streams: the case is run again, alone (flakiness policy)
			for try := 0; try < 3 && res.noisy; try++ {
				noisyMu.Lock()
				res = runCase(j.c)
				noisyMu.Unlock()
				nnoisy.Add(1)
			}
			// the harness never gives up on an unexpected behaviour of the library: it is a direct violation of
			// this case (input recorded) and the run goes on
			cs := coqfmt.Case{Term: res.term, Input: j.c, Observed: res.observed, Seed: uint64(i), Nontrivial: res.nt, Kind: j.kind, Direct: res.direct, Sig: res.sig}
			if cs.Term == "" {
				cs.Term = "mkCn [] [(0,0)] 1 [] true 0 0 [] [] [] [] [] false"
			}
			results[i] = cs
			unscripted[i] = res.unscripted
		}(i, j)
	}
	wg.Wait()
	nuns, nf9, nf19 := 0, 0, 0
	for i, cs := range results {
		w.Add(cs)
		w.Count(fmt.Sprintf("streams:%d", jobs[i].c.Ups+jobs[i].c.Downs))
		w.Count(fmt.Sprintf("faults:%d", len(jobs[i].c.Faults)))
		for _, f := range jobs[i].c.Faults {
			w.Count("pos:" + f.Pos)
			if f.Slow {
				w.Count("redial:slow")
			} else {
				w.Count("redial:fast")
			}
		}
		nuns += unscripted[i]
		if ob, ok := cs.Observed.(map[string]interface{}); ok {
			if fs, ok := ob["finals"].([][2]int); ok {
				for _, f := range fs {
					if f[1] == 1 {
						nf9++
					}
					if f[1] == 3 {
						nf19++
					}
				}
			}
		}
	}
	rule := "every position {idle, mid open, mid metadata, mid call, open/metadata/call issued during the outage, failed handshake of the redial, link cut at the first resume request, refused resume} x {0 ms, 50 ms redial} x stream shapes {0, 1 up, 1 down, 2+2, 3+1}, plus random scripts of 1-3 failures over 0-4 streams (loud and silent death, 0-2 failed handshakes per redial); ping 10 ms / 40 ms. non-trivial = at least one reconnect, one stream and one resume request; distinct = distinct Coq case terms"
	extra := map[string]interface{}{"unscripted_keepalive_outages": nuns, "reruns_after_unscripted_outage": int(nnoisy.Load()), "streams_left_detached": nf9, "streams_closed_without_event": nf19}
	if err := w.Flush(*seed, *tier, rule, false, extra); err != nil {
		fmt.Fprintln(os.Stderr, err)
		os.Exit(2)
	}
}

// Command gen-enums is translator T1: it turns the enum definitions and the
// enum conversion switches of iscp-go into Coq data (Enums.v, on stdout).
//
// Reads, purely syntactically (go/parser; nothing is type-checked), with
// DIR = -repo:
//
//	DIR/message/result_code.go, qos.go     constants of type ResultCode, QoS (iota)
//	<iscp-proto>/gen/gogofast/iscp2/v1     constants of type ResultCode, QoS (int
//	                                       literals) in all non-test .go files; the
//	                                       module dir is asked of `go list -m` in DIR
//	DIR/encoding/convert/wire_to_proto.go  funcs toResultCodeProto, toQoSProto
//	DIR/encoding/convert/proto_to_wire.go  funcs toResultCode, toQoS
//
// Emits the (name, value) lists lib_result_codes, wire_result_codes, lib_qos,
// wire_qos, and the tables rc_w2p, rc_p2w, qos_w2p, qos_p2w of the switches as
// (input value, output value) pairs, all in source order.
//
// Each conversion function must be exactly
//
//	func f(in P.T) (Q.T, error) {
//		switch in { case A, B: return X, nil ... }   // no default
//		return 0, <call>
//	}
//
// Anything else, and any constant not given by iota / implicit repetition / an
// integer literal, is reported as file:line on stderr; the program then exits
// with status 1 without having printed anything on stdout.
package main

import (
	"bytes"
	"flag"
	"fmt"
	"go/ast"
	"go/parser"
	"go/token"
	"os"
	"os/exec"
	"path"
	"path/filepath"
	"strconv"
	"strings"
)

const (
	libImport   = "github.com/aptpod/iscp-go/message"
	protoModule = "github.com/aptpod/iscp-proto"
	protoSubdir = "gen/gogofast/iscp2/v1"
	protoImport = protoModule + "/" + protoSubdir
)

var fset = token.NewFileSet()

// failAt reports a shape violation at pos and exits with status 1.
func failAt(pos token.Pos, format string, args ...any) {
	p := fset.Position(pos)
	fatal("%s:%d: %s", p.Filename, p.Line, fmt.Sprintf(format, args...))
}

func fatal(format string, args ...any) {
	fmt.Fprintf(os.Stderr, "gen-enums: "+format+"\n", args...)
	os.Exit(1)
}

func parse(file string) *ast.File {
	f, err := parser.ParseFile(fset, file, nil, parser.SkipObjectResolution)
	if err != nil {
		fatal("%v", err)
	}
	return f
}

// enum is the set of constants of one named type of one package.
type enum struct {
	importPath string // import path of the declaring package
	typeName   string
	names      []string // source order
	value      map[string]int64
}

func newEnum(importPath, typeName string) *enum {
	return &enum{importPath: importPath, typeName: typeName, value: map[string]int64{}}
}

// collect adds the constants of type e.typeName declared in f.
func (e *enum) collect(f *ast.File) {
	for _, d := range f.Decls {
		gd, ok := d.(*ast.GenDecl)
		if !ok || gd.Tok != token.CONST {
			continue
		}
		var typ ast.Expr // type and values in force (implicit repetition)
		var vals []ast.Expr
		for idx, s := range gd.Specs { // idx is the value of iota
			vs := s.(*ast.ValueSpec)
			if len(vs.Values) > 0 {
				typ, vals = vs.Type, vs.Values
			}
			if !isIdent(typ, e.typeName) {
				continue // constant of some other type (or untyped)
			}
			if len(vs.Names) != 1 || len(vals) != 1 {
				failAt(vs.Pos(), "%s constant spec must declare exactly one name", e.typeName)
			}
			v := evalConst(vals[0], int64(idx), vs.Pos())
			name := vs.Names[0].Name
			if name == "_" {
				continue
			}
			e.names = append(e.names, name)
			e.value[name] = v
		}
	}
}

// evalConst accepts only `iota`, an integer literal, or a negated one. at is
// where to report: for implicit repetition that is the repeating spec.
func evalConst(x ast.Expr, iotaVal int64, at token.Pos) int64 {
	neg := false
	if u, ok := x.(*ast.UnaryExpr); ok && u.Op == token.SUB {
		neg, x = true, u.X
	}
	if lit, ok := x.(*ast.BasicLit); ok && lit.Kind == token.INT {
		v, err := strconv.ParseInt(lit.Value, 0, 64)
		if err != nil {
			failAt(at, "bad integer literal %s", lit.Value)
		}
		if neg {
			v = -v
		}
		return v
	}
	if isIdent(x, "iota") && !neg {
		return iotaVal
	}
	failAt(at, "constant value is neither iota nor an integer literal")
	return 0
}

func isZeroAndCall(r []ast.Expr) bool {
	zero, isLit := r[0].(*ast.BasicLit)
	_, isCall := r[1].(*ast.CallExpr)
	return isLit && zero.Value == "0" && isCall
}

func isIdent(x ast.Expr, name string) bool {
	id, ok := x.(*ast.Ident) // ok is false for a nil x
	return ok && id.Name == name
}

// converter reads one conversion function of file f.
type converter struct {
	f       *ast.File
	imports map[string]string // local package name -> import path
}

func newConverter(f *ast.File) *converter {
	c := &converter{f: f, imports: map[string]string{}}
	for _, imp := range f.Imports {
		p, _ := strconv.Unquote(imp.Path.Value)
		name := path.Base(p)
		if imp.Name != nil {
			name = imp.Name.Name
		}
		c.imports[name] = p
	}
	return c
}

// selector splits x into (import path, name); x must be pkg.Name.
func (c *converter) selector(x ast.Expr, what string) (string, string) {
	if sel, ok := x.(*ast.SelectorExpr); ok {
		if pkg, ok := sel.X.(*ast.Ident); ok && c.imports[pkg.Name] != "" {
			return c.imports[pkg.Name], sel.Sel.Name
		}
	}
	failAt(x.Pos(), "%s is not a package-qualified name", what)
	return "", ""
}

// constOf resolves x, which must name a constant of e.
func (c *converter) constOf(x ast.Expr, e *enum, what string) int64 {
	p, name := c.selector(x, what)
	v, ok := e.value[name]
	if p != e.importPath || !ok {
		failAt(x.Pos(), "%s: %s.%s is not a known constant of %s.%s", what, p, name, e.importPath, e.typeName)
	}
	return v
}

func (c *converter) isType(x ast.Expr, e *enum) {
	if p, name := c.selector(x, "type"); p != e.importPath || name != e.typeName {
		failAt(x.Pos(), "expected type %s.%s", e.importPath, e.typeName)
	}
}

// table extracts the (input, output) pairs of func name: in -> out.
func (c *converter) table(name string, in, out *enum) [][2]int64 {
	var fn *ast.FuncDecl
	for _, d := range c.f.Decls {
		if fd, ok := d.(*ast.FuncDecl); ok && fd.Recv == nil && fd.Name.Name == name {
			fn = fd
		}
	}
	if fn == nil || fn.Body == nil {
		failAt(c.f.Pos(), "func %s not found", name)
	}
	// Signature: func name(param in.T) (out.T, error).
	ps, rs := fn.Type.Params.List, fn.Type.Results
	if fn.Type.TypeParams != nil || len(ps) != 1 || len(ps[0].Names) != 1 ||
		rs == nil || len(rs.List) != 2 || len(rs.List[0].Names)+len(rs.List[1].Names) != 0 ||
		!isIdent(rs.List[1].Type, "error") {
		failAt(fn.Pos(), "func %s: signature is not func(x T) (U, error)", name)
	}
	c.isType(ps[0].Type, in)
	c.isType(rs.List[0].Type, out)
	param := ps[0].Names[0].Name

	// Body: the switch, then `return 0, <call>`.
	body := fn.Body.List
	if len(body) != 2 {
		failAt(fn.Body.Pos(), "func %s: body must be exactly a switch and a final return", name)
	}
	sw, ok := body[0].(*ast.SwitchStmt)
	if !ok || sw.Init != nil {
		failAt(body[0].Pos(), "func %s: first statement is not a plain switch", name)
	}
	if !isIdent(sw.Tag, param) {
		failAt(sw.Pos(), "func %s: switch tag is not the parameter %s", name, param)
	}
	if ret, ok := body[1].(*ast.ReturnStmt); !ok || len(ret.Results) != 2 || !isZeroAndCall(ret.Results) {
		failAt(body[1].Pos(), "func %s: last statement is not `return 0, <call>`", name)
	}

	var pairs [][2]int64
	for _, s := range sw.Body.List {
		cc := s.(*ast.CaseClause)
		if cc.List == nil {
			failAt(cc.Pos(), "func %s: default clause not allowed", name)
		}
		if len(cc.Body) != 1 {
			failAt(cc.Pos(), "func %s: case body is not a single `return X, nil`", name)
		}
		r, ok := cc.Body[0].(*ast.ReturnStmt)
		if !ok || len(r.Results) != 2 || !isIdent(r.Results[1], "nil") {
			failAt(cc.Body[0].Pos(), "func %s: case body is not a single `return X, nil`", name)
		}
		y := c.constOf(r.Results[0], out, "returned value")
		for _, x := range cc.List {
			pairs = append(pairs, [2]int64{c.constOf(x, in, "case expression"), y})
		}
	}
	return pairs
}

// protoDir asks the go command where the iscp-proto module required by repo is.
func protoDir(repo string) string {
	cmd := exec.Command("go", "list", "-m", "-f", "{{.Dir}}", protoModule)
	cmd.Dir = repo
	// Later entries win; the go command treats an empty variable as unset.
	cmd.Env = append(os.Environ(), "GOFLAGS=-mod=mod", "GOPROXY=off", "GOSUMDB=", "GOTOOLCHAIN=")
	cmd.Stderr = os.Stderr
	out, err := cmd.Output()
	dir := strings.TrimSpace(string(out))
	if err != nil || dir == "" {
		fatal("go list -m %s (in %s) failed: %v", protoModule, repo, err)
	}
	return filepath.Join(dir, filepath.FromSlash(protoSubdir))
}

func z(v int64) string {
	if v < 0 {
		return fmt.Sprintf("(%d)", v)
	}
	return strconv.FormatInt(v, 10)
}

// emit prints one Definition, one element per line unless it fits on a line.
func emit(w *bytes.Buffer, name, typ string, elems []string) {
	head := fmt.Sprintf("Definition %s : list (%s) := [", name, typ)
	if one := head + strings.Join(elems, "; ") + "]."; len(one) <= 100 {
		fmt.Fprintln(w, one)
		return
	}
	fmt.Fprintf(w, "%s\n  %s\n].\n", head, strings.Join(elems, ";\n  "))
}

func emitEnum(w *bytes.Buffer, name string, e *enum) {
	var elems []string
	for _, n := range e.names {
		elems = append(elems, fmt.Sprintf("(%q, %s)", n, z(e.value[n])))
	}
	emit(w, name, "string * Z", elems)
}

func emitTable(w *bytes.Buffer, name string, pairs [][2]int64) {
	var elems []string
	for _, p := range pairs {
		elems = append(elems, fmt.Sprintf("(%s, %s)", z(p[0]), z(p[1])))
	}
	emit(w, name, "Z * Z", elems)
}

func main() {
	repo := flag.String("repo", "/repo", "root of the iscp-go source tree")
	flag.Parse()

	libRC, libQoS := newEnum(libImport, "ResultCode"), newEnum(libImport, "QoS")
	libRC.collect(parse(filepath.Join(*repo, "message", "result_code.go")))
	libQoS.collect(parse(filepath.Join(*repo, "message", "qos.go")))

	wireRC, wireQoS := newEnum(protoImport, "ResultCode"), newEnum(protoImport, "QoS")
	pdir := protoDir(*repo)
	entries, err := os.ReadDir(pdir) // sorted by file name
	if err != nil {
		fatal("%v", err)
	}
	for _, ent := range entries {
		n := ent.Name()
		if ent.IsDir() || !strings.HasSuffix(n, ".go") || strings.HasSuffix(n, "_test.go") {
			continue
		}
		f := parse(filepath.Join(pdir, n))
		wireRC.collect(f)
		wireQoS.collect(f)
	}

	w2p := newConverter(parse(filepath.Join(*repo, "encoding", "convert", "wire_to_proto.go")))
	p2w := newConverter(parse(filepath.Join(*repo, "encoding", "convert", "proto_to_wire.go")))
	rcW2P := w2p.table("toResultCodeProto", libRC, wireRC)
	rcP2W := p2w.table("toResultCode", wireRC, libRC)
	qosW2P := w2p.table("toQoSProto", libQoS, wireQoS)
	qosP2W := p2w.table("toQoS", wireQoS, libQoS)

	// Everything checked; only now produce output.
	w := new(bytes.Buffer)
	fmt.Fprintf(w, "(* GENERATED by go/cmd/gen-enums from %s - do not edit *)\n", *repo)
	fmt.Fprint(w, "From Coq Require Import List ZArith String.\nImport ListNotations.\n"+
		"Open Scope Z_scope.\nOpen Scope string_scope.\n\n")
	emitEnum(w, "lib_result_codes", libRC)
	emitEnum(w, "wire_result_codes", wireRC)
	emitEnum(w, "lib_qos", libQoS)
	emitEnum(w, "wire_qos", wireQoS)
	fmt.Fprintln(w, "(* toResultCodeProto: library value -> wire value *)")
	emitTable(w, "rc_w2p", rcW2P)
	fmt.Fprintln(w, "(* toResultCode: wire value -> library value *)")
	emitTable(w, "rc_p2w", rcP2W)
	fmt.Fprintln(w, "(* toQoSProto / toQoS *)")
	emitTable(w, "qos_w2p", qosW2P)
	emitTable(w, "qos_p2w", qosP2W)
	os.Stdout.Write(w.Bytes())
}

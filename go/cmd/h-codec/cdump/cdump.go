// Package cdump is shared by h-codec (C11) and h-fuzz (C12): a reflection-driven dumper of wire
// messages (package message) and proto structures (generated package) into the untyped value
// universe of coq/Model/Codec.v, and a reflection-driven generator over the whole message grammar.
package cdump

import (
	"fmt"
	"math/big"
	"reflect"
	"sort"
	"strings"
	"time"

	"github.com/aptpod/iscp-go/message"
	autogen "github.com/aptpod/iscp-proto/gen/gogofast/iscp2/v1"
	"github.com/google/uuid"

	"verif/internal/rng"
)

// MessageTypes lists the wire message types in the order of the type switch of WireToProto; the
// index is the oneof tag used by the Coq model (same tag on the proto side).
var MessageTypes = []reflect.Type{
	reflect.TypeOf(message.ConnectRequest{}), reflect.TypeOf(message.ConnectResponse{}), reflect.TypeOf(message.Disconnect{}),
	reflect.TypeOf(message.UpstreamOpenRequest{}), reflect.TypeOf(message.UpstreamOpenResponse{}),
	reflect.TypeOf(message.UpstreamResumeRequest{}), reflect.TypeOf(message.UpstreamResumeResponse{}),
	reflect.TypeOf(message.UpstreamCloseRequest{}), reflect.TypeOf(message.UpstreamCloseResponse{}),
	reflect.TypeOf(message.DownstreamOpenRequest{}), reflect.TypeOf(message.DownstreamOpenResponse{}),
	reflect.TypeOf(message.DownstreamResumeRequest{}), reflect.TypeOf(message.DownstreamResumeResponse{}),
	reflect.TypeOf(message.DownstreamCloseRequest{}), reflect.TypeOf(message.DownstreamCloseResponse{}),
	reflect.TypeOf(message.UpstreamCall{}), reflect.TypeOf(message.UpstreamCallAck{}), reflect.TypeOf(message.DownstreamCall{}),
	reflect.TypeOf(message.Ping{}), reflect.TypeOf(message.Pong{}),
	reflect.TypeOf(message.UpstreamChunk{}), reflect.TypeOf(message.UpstreamChunkAck{}),
	reflect.TypeOf(message.DownstreamChunk{}), reflect.TypeOf(message.DownstreamChunkAck{}), reflect.TypeOf(message.DownstreamChunkAckComplete{}),
	reflect.TypeOf(message.UpstreamMetadata{}), reflect.TypeOf(message.UpstreamMetadataAck{}),
	reflect.TypeOf(message.DownstreamMetadata{}), reflect.TypeOf(message.DownstreamMetadataAck{}),
}

var metadataTypes = []reflect.Type{
	reflect.TypeOf(message.BaseTime{}), reflect.TypeOf(message.UpstreamOpen{}), reflect.TypeOf(message.UpstreamAbnormalClose{}),
	reflect.TypeOf(message.UpstreamResume{}), reflect.TypeOf(message.UpstreamNormalClose{}), reflect.TypeOf(message.DownstreamOpen{}),
	reflect.TypeOf(message.DownstreamAbnormalClose{}), reflect.TypeOf(message.DownstreamResume{}), reflect.TypeOf(message.DownstreamNormalClose{}),
}

// tags: dynamic type inside an interface (oneof) -> tag
var tags = map[reflect.Type]int{}

// protoWrappers: oneof wrapper struct types of the generated package (pointer type -> true)
var protoWrappers = map[reflect.Type]bool{}

func init() {
	for i, t := range MessageTypes {
		tags[reflect.PointerTo(t)] = i
	}
	for i, t := range metadataTypes {
		tags[reflect.PointerTo(t)] = i
	}
	tags[reflect.TypeOf(&message.UpstreamInfo{})] = 0
	tags[reflect.TypeOf(message.UpstreamAlias(0))] = 1
	tags[reflect.TypeOf(&message.DataID{})] = 0
	tags[reflect.TypeOf(message.DataIDAlias(0))] = 1
	var a message.DataIDAlias
	tags[reflect.TypeOf(&a)] = 2
	w := func(i int, v interface{}) {
		tags[reflect.TypeOf(v)] = i
		protoWrappers[reflect.TypeOf(v)] = true
	}
	for i, v := range []interface{}{
		&autogen.Message_ConnectRequest{}, &autogen.Message_ConnectResponse{}, &autogen.Message_Disconnect{},
		&autogen.Message_UpstreamOpenRequest{}, &autogen.Message_UpstreamOpenResponse{},
		&autogen.Message_UpstreamResumeRequest{}, &autogen.Message_UpstreamResumeResponse{},
		&autogen.Message_UpstreamCloseRequest{}, &autogen.Message_UpstreamCloseResponse{},
		&autogen.Message_DownstreamOpenRequest{}, &autogen.Message_DownstreamOpenResponse{},
		&autogen.Message_DownstreamResumeRequest{}, &autogen.Message_DownstreamResumeResponse{},
		&autogen.Message_DownstreamCloseRequest{}, &autogen.Message_DownstreamCloseResponse{},
		&autogen.Message_UpstreamCall{}, &autogen.Message_UpstreamCallAck{}, &autogen.Message_DownstreamCall{},
		&autogen.Message_Ping{}, &autogen.Message_Pong{},
		&autogen.Message_UpstreamChunk{}, &autogen.Message_UpstreamChunkAck{},
		&autogen.Message_DownstreamChunk{}, &autogen.Message_DownstreamChunkAck{}, &autogen.Message_DownstreamChunkAckComplete{},
		&autogen.Message_UpstreamMetadata{}, &autogen.Message_UpstreamMetadataAck{},
		&autogen.Message_DownstreamMetadata{}, &autogen.Message_DownstreamMetadataAck{},
	} {
		w(i, v)
	}
	for i, v := range []interface{}{
		&autogen.DownstreamMetadata_BaseTime{}, &autogen.DownstreamMetadata_UpstreamOpen{}, &autogen.DownstreamMetadata_UpstreamAbnormalClose{},
		&autogen.DownstreamMetadata_UpstreamResume{}, &autogen.DownstreamMetadata_UpstreamNormalClose{}, &autogen.DownstreamMetadata_DownstreamOpen{},
		&autogen.DownstreamMetadata_DownstreamAbnormalClose{}, &autogen.DownstreamMetadata_DownstreamResume{}, &autogen.DownstreamMetadata_DownstreamNormalClose{},
	} {
		w(i, v)
	}
	w(0, &autogen.UpstreamMetadata_BaseTime{})
	w(0, &autogen.DownstreamChunk_UpstreamInfo{})
	w(1, &autogen.DownstreamChunk_UpstreamAlias{})
	w(0, &autogen.DataPointGroup_DataId{})
	w(1, &autogen.DataPointGroup_DataIdAlias{})
}

var (
	timeType = reflect.TypeOf(time.Time{})
	uuidType = reflect.TypeOf(uuid.UUID{})
)

// Dumper prints Go values as Coq terms of type Codec.value. Proto = proto-side conventions (nil and
// empty collections identified as empty).
type Dumper struct{ Proto bool }

func bytesTerm(b []byte) string {
	var sb strings.Builder
	sb.WriteString("(VBytes [")
	for i, x := range b {
		if i > 0 {
			sb.WriteByte(';')
		}
		fmt.Fprintf(&sb, "%d", x)
	}
	sb.WriteString("])")
	return sb.String()
}

func zTerm(s string) string {
	if strings.HasPrefix(s, "-") {
		return "(" + s + ")"
	}
	return s
}

// UnixNanoBig is the mathematical Unix time in nanoseconds (no int64 wrap).
func UnixNanoBig(t time.Time) *big.Int {
	r := new(big.Int).Mul(big.NewInt(t.Unix()), big.NewInt(1_000_000_000))
	return r.Add(r, big.NewInt(int64(t.Nanosecond())))
}

func (d Dumper) Val(v reflect.Value) string {
	switch v.Kind() {
	case reflect.Ptr:
		if v.IsNil() {
			return "VNil"
		}
		return d.Val(v.Elem())
	case reflect.Interface:
		if v.IsNil() {
			return "VNil"
		}
		dv := v.Elem()
		tag, ok := tags[dv.Type()]
		if !ok {
			panic(fmt.Sprintf("cdump: no oneof tag for dynamic type %v", dv.Type()))
		}
		if protoWrappers[dv.Type()] {
			if dv.IsNil() {
				return "VNil"
			}
			return fmt.Sprintf("(VOneof %d %s)", tag, d.Val(dv.Elem().Field(0)))
		}
		return fmt.Sprintf("(VOneof %d %s)", tag, d.Val(dv))
	case reflect.Struct:
		if v.Type() == timeType {
			t := v.Interface().(time.Time)
			utc := "false"
			if t.Location() == time.UTC {
				utc = "true"
			}
			return fmt.Sprintf("(VTime %s %s)", zTerm(UnixNanoBig(t).String()), utc)
		}
		var fs []string
		for i := 0; i < v.NumField(); i++ {
			if strings.HasPrefix(v.Type().Field(i).Name, "XXX_") {
				continue
			}
			fs = append(fs, d.Val(v.Field(i)))
		}
		return "(VStruct [" + strings.Join(fs, "; ") + "])"
	case reflect.Array:
		if v.Type() == uuidType {
			u := v.Interface().(uuid.UUID)
			return bytesTerm(u[:])
		}
	case reflect.Slice:
		if v.Type().Elem().Kind() == reflect.Uint8 {
			return bytesTerm(v.Bytes())
		}
		if v.IsNil() && !d.Proto {
			return "VNil"
		}
		var es []string
		for i := 0; i < v.Len(); i++ {
			es = append(es, d.Val(v.Index(i)))
		}
		return "(VList [" + strings.Join(es, "; ") + "])"
	case reflect.Map:
		if v.IsNil() && !d.Proto {
			return "VNil"
		}
		keys := v.MapKeys()
		sort.Slice(keys, func(i, j int) bool { return keys[i].Uint() < keys[j].Uint() })
		var es []string
		for _, k := range keys {
			es = append(es, fmt.Sprintf("(%d%%Z, %s)", k.Uint(), d.Val(v.MapIndex(k))))
		}
		return "(VMap [" + strings.Join(es, "; ") + "])"
	case reflect.String:
		return bytesTerm([]byte(v.String()))
	case reflect.Bool:
		if v.Bool() {
			return "(VBool true)"
		}
		return "(VBool false)"
	case reflect.Int, reflect.Int8, reflect.Int16, reflect.Int32, reflect.Int64:
		return fmt.Sprintf("(VInt %s)", zTerm(fmt.Sprint(v.Int())))
	case reflect.Uint, reflect.Uint8, reflect.Uint16, reflect.Uint32, reflect.Uint64:
		return fmt.Sprintf("(VInt %d)", v.Uint())
	}
	panic(fmt.Sprintf("cdump: cannot dump kind %v (%v)", v.Kind(), v.Type()))
}

// Wire dumps a wire message (VOneof kind (VStruct ...)).
func Wire(m message.Message) string {
	if m == nil {
		return "VNil"
	}
	v := reflect.ValueOf(&m).Elem()
	return Dumper{}.Val(v)
}

// Proto dumps a proto structure (the oneof of autogen.Message).
func Proto(p *autogen.Message) string {
	if p == nil {
		return "VNil"
	}
	return Dumper{Proto: true}.Val(reflect.ValueOf(p).Elem().FieldByName("Message"))
}

// ---------------------------------------------------------------------------------------------
// generator

// Chooser decides every alternative of the grammar: Choose(path, n) in [0,n).
type Chooser interface {
	Choose(path string, n int, labels []string) int
}

// Gen builds messages by reflection over the struct declarations of package message.
type Gen struct {
	R *rng.R
	C Chooser
	// Big allows large payloads/collections.
	Big bool
	// Hostile allows values outside the documented domain (nil list elements, nil map values,
	// out-of-table enum numbers, durations beyond the wire range, times outside int64 nanoseconds).
	Hostile bool
}

var (
	durType  = reflect.TypeOf(time.Duration(0))
	rcType   = reflect.TypeOf(message.ResultCode(0))
	qosType  = reflect.TypeOf(message.QoS(0))
	ifaceUOA = reflect.TypeOf((*message.UpstreamOrAlias)(nil)).Elem()
	ifaceDOA = reflect.TypeOf((*message.DataIDOrAlias)(nil)).Elem()
	ifaceSM  = reflect.TypeOf((*message.SendableMetadata)(nil)).Elem()
	ifaceM   = reflect.TypeOf((*message.Metadata)(nil)).Elem()
)

var stringPool = []string{"", "a", "node-1", "group/name", "#", "日本語のノード", "Ünï-çødé ✓  ", "emoji 🚀🧪", "tab\tnl\n\"quote\"\\", "\x00\x01\x7f", strings.Repeat("x", 70)}

func (g *Gen) str() string {
	if g.R.Chance(1, 6) {
		// random valid UTF-8 from random runes
		n := g.R.Intn(6)
		var sb strings.Builder
		for i := 0; i < n; i++ {
			r := rune(g.R.Intn(0x2fff))
			if r >= 0xd800 && r <= 0xdfff {
				r = 'x'
			}
			sb.WriteRune(r)
		}
		return sb.String()
	}
	return stringPool[g.R.Intn(len(stringPool))]
}

func (g *Gen) u64(bits uint) uint64 {
	max := uint64(1)<<bits - 1
	if bits == 64 {
		max = ^uint64(0)
	}
	switch g.R.Intn(6) {
	case 0:
		return 0
	case 1:
		return 1
	case 2:
		return max
	case 3:
		return max - 1
	case 4:
		return max/2 + 1
	}
	return g.R.U64() & max
}

const sec = int64(time.Second)

// durations inside the modelled domain of uint32(d.Seconds()): 0 <= d, (d < 2^24 s or whole seconds), d/1s < 2^32
func (g *Gen) dur() int64 {
	switch g.R.Intn(15) {
	case 12:
		return int64(g.R.Intn(5001)) * int64(time.Millisecond) // a whole number of milliseconds
	case 13:
		return int64(g.R.Intn(5001))*int64(time.Millisecond) + int64(g.R.Intn(1000000)) // not a multiple of the unit
	case 14:
		return (int64(1)<<31 - 2 + int64(g.R.Intn(4))) * []int64{int64(time.Millisecond), sec}[g.R.Intn(2)] // around 2^31 units
	case 0:
		return 0
	case 1:
		return 1
	case 2:
		return 999_999_999
	case 3:
		return sec
	case 4:
		return 1_500_000_000
	case 5:
		return 16777216*sec - 1 // largest duration with a sub-second part that float64 Seconds() truncates exactly
	case 6:
		return 4294967295 * sec // largest value of the wire's seconds field
	case 7:
		return 4294967 * sec // near the limit of the wire's milliseconds field
	case 8:
		return 4294967295 * int64(time.Millisecond)
	case 9:
		return int64(g.R.Intn(1<<30)) * sec
	case 10:
		return int64(g.R.Intn(100000)) * int64(time.Millisecond)
	}
	return int64(g.R.U64() % uint64(16777216*sec))
}

func (g *Gen) anyI64() int64 {
	switch g.R.Intn(6) {
	case 0:
		return 0
	case 1:
		return -1
	case 2:
		return 1<<63 - 1
	case 3:
		return -1 << 63
	case 4:
		return int64(g.R.Intn(1000000)) * 1000
	}
	return int64(g.R.U64())
}

var jst = time.FixedZone("JST", 9*3600)

func (g *Gen) time(path string) time.Time {
	labels := []string{"zero", "epoch-utc", "utc", "zoned", "local", "min-int64", "max-int64"}
	if g.Hostile {
		labels = append(labels, "year-3000", "year-1000")
	}
	switch labels[g.C.Choose(path, len(labels), labels)] {
	case "zero":
		return time.Time{}
	case "epoch-utc":
		return time.Unix(0, 0).UTC()
	case "utc":
		return time.Unix(int64(g.R.Intn(2_000_000_000)), int64(g.R.Intn(1_000_000_000))).UTC()
	case "zoned":
		return time.Unix(int64(g.R.Intn(2_000_000_000)), int64(g.R.Intn(1_000_000_000))).In(jst)
	case "local":
		return time.Unix(-int64(g.R.Intn(2_000_000_000)), int64(g.R.Intn(1_000_000_000)))
	case "min-int64":
		return time.Unix(0, -1<<63).UTC()
	case "max-int64":
		return time.Unix(0, 1<<63-1).In(jst)
	case "year-3000":
		return time.Date(3000, 1, 2, 3, 4, 5, 6, time.UTC)
	}
	return time.Date(1000, 1, 2, 3, 4, 5, 6, jst)
}

func (g *Gen) count(path string) int {
	labels := []string{"nil", "empty", "one", "few", "eight"}
	switch labels[g.C.Choose(path, len(labels), labels)] {
	case "nil":
		return -1
	case "empty":
		return 0
	case "one":
		return 1
	case "few":
		return 2 + g.R.Intn(3)
	}
	if g.Big {
		return 8 + g.R.Intn(40)
	}
	return 8
}

var resultCodes = func() []string {
	var l []string
	for i := 1; i <= 36; i++ {
		l = append(l, fmt.Sprint(i))
	}
	return l
}()

// Message generates a message of type MessageTypes[kind].
func (g *Gen) Message(kind int) message.Message {
	t := MessageTypes[kind]
	p := reflect.New(t)
	g.fill(t.Name(), p.Elem())
	return p.Interface().(message.Message)
}

func (g *Gen) newStruct(path string, t reflect.Type) reflect.Value {
	p := reflect.New(t)
	g.fill(path, p.Elem())
	return p
}

func (g *Gen) fill(path string, v reflect.Value) {
	t := v.Type()
	switch {
	case t == timeType:
		v.Set(reflect.ValueOf(g.time(path)))
		return
	case t == uuidType:
		var u uuid.UUID
		if !g.R.Chance(1, 8) {
			copy(u[:], g.R.Bytes(16))
		}
		v.Set(reflect.ValueOf(u))
		return
	case t == durType:
		if strings.HasSuffix(path, ".ElapsedTime") {
			v.SetInt(g.anyI64())
		} else if g.Hostile && g.R.Chance(1, 3) {
			// outside the wire range but inside what the model transliterates exactly (whole seconds wrap)
			v.SetInt([]int64{4294967296 * sec, 4294967297 * sec, 9000000000 * sec}[g.R.Intn(3)])
		} else {
			v.SetInt(g.dur())
		}
		return
	case t == rcType:
		labels := resultCodes
		if g.Hostile {
			labels = append(append([]string{}, labels...), "0", "37", "-1", "2147483647")
		}
		var n int64
		fmt.Sscan(labels[g.C.Choose(path, len(labels), labels)], &n)
		v.SetInt(n)
		return
	case t == qosType:
		labels := []string{"0", "1", "2"}
		if g.Hostile {
			labels = append(labels, "3", "255")
		}
		var n uint64
		fmt.Sscan(labels[g.C.Choose(path, len(labels), labels)], &n)
		v.SetUint(n)
		return
	}
	switch t.Kind() {
	case reflect.Struct:
		for i := 0; i < t.NumField(); i++ {
			g.fill(path+"."+t.Field(i).Name, v.Field(i))
		}
	case reflect.Ptr:
		labels := []string{"nil", "set"}
		if g.C.Choose(path, 2, labels) == 1 {
			v.Set(g.newStruct(path, t.Elem()))
		}
	case reflect.String:
		v.SetString(g.str())
	case reflect.Bool:
		v.SetBool(g.C.Choose(path, 2, []string{"false", "true"}) == 1)
	case reflect.Uint8:
		v.SetUint(g.u64(8))
	case reflect.Uint32:
		v.SetUint(g.u64(32))
	case reflect.Uint64:
		v.SetUint(g.u64(64))
	case reflect.Slice:
		if t.Elem().Kind() == reflect.Uint8 {
			n := []int{0, 0, 1, 3, 8, 17}[g.R.Intn(6)]
			if g.Big && g.R.Chance(1, 3) {
				n = 200 + g.R.Intn(3000)
			}
			if n == 0 && g.R.Bool() {
				return // nil payload
			}
			v.SetBytes(g.R.Bytes(n))
			return
		}
		n := g.count(path)
		if n < 0 {
			return
		}
		s := reflect.MakeSlice(t, n, n)
		for i := 0; i < n; i++ {
			if g.Hostile && g.R.Chance(1, 12) {
				continue // nil element
			}
			s.Index(i).Set(g.newStruct(path+"[]", t.Elem().Elem()))
		}
		v.Set(s)
	case reflect.Map:
		n := g.count(path)
		if n < 0 {
			return
		}
		m := reflect.MakeMapWithSize(t, n)
		for i := 0; i < n; i++ {
			k := reflect.New(t.Key()).Elem()
			k.SetUint(g.u64(32))
			if g.Hostile && g.R.Chance(1, 12) {
				m.SetMapIndex(k, reflect.Zero(t.Elem()))
				continue
			}
			m.SetMapIndex(k, g.newStruct(path+"[]", t.Elem().Elem()))
		}
		v.Set(m)
	case reflect.Interface:
		g.fillIface(path, v)
	default:
		panic(fmt.Sprintf("cdump: cannot generate %v at %s", t, path))
	}
}

func (g *Gen) fillIface(path string, v reflect.Value) {
	t := v.Type()
	switch t {
	case ifaceUOA:
		labels := []string{"*UpstreamInfo", "UpstreamAlias", "nil"}
		switch g.C.Choose(path, 3, labels) {
		case 0:
			v.Set(g.newStruct(path+"{*UpstreamInfo}", reflect.TypeOf(message.UpstreamInfo{})))
		case 1:
			v.Set(reflect.ValueOf(message.UpstreamAlias(g.u64(32))))
		}
	case ifaceDOA:
		labels := []string{"*DataID", "DataIDAlias", "*DataIDAlias", "nil"}
		switch g.C.Choose(path, 4, labels) {
		case 0:
			v.Set(g.newStruct(path+"{*DataID}", reflect.TypeOf(message.DataID{})))
		case 1:
			v.Set(reflect.ValueOf(message.DataIDAlias(g.u64(32))))
		case 2:
			a := message.DataIDAlias(g.u64(32))
			v.Set(reflect.ValueOf(&a))
		}
	case ifaceSM:
		labels := []string{"*BaseTime", "nil"}
		if g.C.Choose(path, 2, labels) == 0 {
			v.Set(g.newStruct(path+"{*BaseTime}", reflect.TypeOf(message.BaseTime{})))
		}
	case ifaceM:
		var labels []string
		for _, mt := range metadataTypes {
			labels = append(labels, "*"+mt.Name())
		}
		labels = append(labels, "nil")
		k := g.C.Choose(path, len(labels), labels)
		if k < len(metadataTypes) {
			v.Set(g.newStruct(path+"{*"+metadataTypes[k].Name()+"}", metadataTypes[k]))
		}
	default:
		panic(fmt.Sprintf("cdump: unknown interface %v at %s", t, path))
	}
}

// RandomChooser picks uniformly, except that absent alternatives ("nil") of oneofs are rare.
type RandomChooser struct{ R *rng.R }

func (c RandomChooser) Choose(path string, n int, labels []string) int {
	k := c.R.Intn(n)
	if labels[k] == "nil" && len(labels) > 2 && !strings.HasSuffix(path, "s") && c.R.Chance(3, 4) {
		k = c.R.Intn(n)
	}
	return k
}

// ForcedChooser forces one alternative at one path (and the alternatives that make the path
// reachable); everything else is delegated. It records every choice point it sees.
type ForcedChooser struct {
	Base   Chooser
	Path   string
	Label  string
	Seen   map[string][]string // path -> labels
	Order  *[]string
	Forced bool
}

func (c *ForcedChooser) Choose(path string, n int, labels []string) int {
	if c.Seen != nil {
		if _, ok := c.Seen[path]; !ok {
			c.Seen[path] = labels
			if c.Order != nil {
				*c.Order = append(*c.Order, path)
			}
		}
	}
	if c.Path != "" {
		if path == c.Path {
			for i, l := range labels {
				if l == c.Label {
					c.Forced = true
					return i
				}
			}
		}
		if strings.HasPrefix(c.Path, path) && len(c.Path) > len(path) {
			rest := c.Path[len(path):]
			// a oneof on the way: choose the variant named in the path
			if strings.HasPrefix(rest, "{") {
				want := rest[1:strings.Index(rest, "}")]
				for i, l := range labels {
					if l == want {
						return i
					}
				}
			}
			// a pointer or a collection on the way: make it present
			if strings.HasPrefix(rest, ".") || strings.HasPrefix(rest, "[]") {
				for i, l := range labels {
					if l == "set" || l == "few" {
						return i
					}
				}
			}
		}
	}
	return c.Base.Choose(path, n, labels)
}

// h-codec: correspondence harness for C11 (message codec) against coq/Model/Codec.v.
// Reflection-driven generation over the whole message grammar (package message); every message goes
// through the REAL EncodeTo/DecodeFrom of encoding/protobuf and encoding/json, through
// convert.WireToProto (sampled) and through an encoding.Transport over a loop-back transport
// (counters).  Each case is recorded as a Coq term of type Codec.codec_case.
package main

import (
	"bytes"
	"encoding/json"
	"flag"
	"fmt"
	"os"
	"reflect"
	"strings"
	"sync/atomic"
	"time"

	"github.com/aptpod/iscp-go/encoding"
	"github.com/aptpod/iscp-go/encoding/convert"
	ejson "github.com/aptpod/iscp-go/encoding/json"
	epb "github.com/aptpod/iscp-go/encoding/protobuf"
	"github.com/aptpod/iscp-go/message"

	"verif/cmd/h-codec/cdump"
	"verif/internal/coqfmt"
	"verif/internal/ioshape"
	"verif/internal/rng"
)

// loop is a transport.ReadWriter that hands back what was written.
type loop struct{ q [][]byte }

func (l *loop) Read() ([]byte, error) {
	if len(l.q) == 0 {
		return nil, fmt.Errorf("loop: empty")
	}
	b := l.q[0]
	l.q = l.q[1:]
	return b, nil
}
func (l *loop) Write(b []byte) error        { l.q = append(l.q, append([]byte(nil), b...)); return nil }
func (l *loop) Close() error                { return nil }
func (l *loop) RxBytesCounterValue() uint64 { return 0 }
func (l *loop) TxBytesCounterValue() uint64 { return 0 }

// caseIn is the replayable description of one case: the generator is deterministic in it.
type caseIn struct {
	Kind      int    `json:"message_kind"`
	Type      string `json:"message_type"`
	Seed      uint64 `json:"gen_seed"`
	Path      string `json:"forced_path,omitempty"`
	Label     string `json:"forced_alternative,omitempty"`
	Big       bool   `json:"big,omitempty"`
	Hostile   bool   `json:"hostile,omitempty"`
	Zero      bool   `json:"zero_value,omitempty"`
	WithProto bool   `json:"with_proto"`
	// duration sweep: the message is an UpstreamOpenRequest (0), ConnectRequest (1) or DownstreamOpenRequest (2)
	// whose millisecond-resolution field is SweepUnits ms + SweepRem ns and whose second-resolution
	// fields are SweepUnits s + SweepRem*1000 ns
	Sweep      bool  `json:"duration_sweep,omitempty"`
	SweepMsg   int   `json:"sweep_message,omitempty"`
	SweepUnits int64 `json:"sweep_units,omitempty"`
	SweepRem   int64 `json:"sweep_remainder_ns,omitempty"`
}

func sweepMessage(ci *caseIn) message.Message {
	ms := time.Duration(ci.SweepUnits)*time.Millisecond + time.Duration(ci.SweepRem)
	s := time.Duration(ci.SweepUnits)*time.Second + time.Duration(ci.SweepRem*1000)
	switch ci.SweepMsg {
	case 1:
		return &message.ConnectRequest{RequestID: 1, PingInterval: s, PingTimeout: s + time.Second}
	case 2:
		return &message.DownstreamOpenRequest{RequestID: 1, ExpiryInterval: s, QoS: message.QoSReliable}
	}
	return &message.UpstreamOpenRequest{RequestID: 1, AckInterval: ms, ExpiryInterval: s, QoS: message.QoSReliable}
}

func build(ci *caseIn, seen map[string][]string, order *[]string) (message.Message, bool) {
	if ci.Sweep {
		return sweepMessage(ci), true
	}
	if ci.Zero {
		return reflect.New(cdump.MessageTypes[ci.Kind]).Interface().(message.Message), true
	}
	r := rng.New(ci.Seed)
	fc := &cdump.ForcedChooser{Base: cdump.RandomChooser{R: r}, Path: ci.Path, Label: ci.Label, Seen: seen, Order: order}
	g := &cdump.Gen{R: r, C: fc, Big: ci.Big, Hostile: ci.Hostile}
	m := g.Message(ci.Kind)
	return m, ci.Path == "" || fc.Forced
}

var progress int64

type encObs struct {
	EncErr string `json:"encode_error,omitempty"`
	DecErr string `json:"decode_error,omitempty"`
	EncN   int    `json:"encode_reported"`
	Len    int    `json:"bytes"`
	DecN   int    `json:"decode_reported"`
}

func outcomeTerm(ok bool, dump string) string {
	if !ok {
		return "Err"
	}
	return "(Ok " + dump + ")"
}

func sumCount(c *encoding.Count, want reflect.Type) (msgs, bs int64) {
	for k, v := range c.MessageCount {
		if k != want {
			return -1, -1
		}
		msgs += int64(v)
	}
	for k, v := range c.ByteCount {
		if k != want {
			return -1, -1
		}
		bs += int64(v)
	}
	return
}

func zList(xs ...int64) string {
	var s []string
	for _, x := range xs {
		s = append(s, zTerm(x)) // negatives (failed calls) in parentheses
	}
	return "[" + strings.Join(s, ";") + "]%Z"
}

func zTerm(x int64) string {
	if x < 0 {
		return fmt.Sprintf("(%d)", x)
	}
	return fmt.Sprint(x)
}

func runCase(m message.Message, withProto bool, sr *rng.R, count func(string)) (term string, observed interface{}, direct string) {
	defer func() {
		if r := recover(); r != nil {
			direct = fmt.Sprintf("panic escaped the codec: %v", r)
		}
	}()
	atomic.AddInt64(&progress, 1)
	encs := []encoding.Encoding{epb.NewEncoding(), ejson.NewEncoding()}
	obs := map[string]interface{}{"message": fmt.Sprintf("%+v", m)}
	protoT := "None"
	if withProto {
		func() {
			defer func() {
				if r := recover(); r != nil {
					protoT = "(Some Panic)"
					obs["wire_to_proto"] = fmt.Sprintf("panic: %v", r)
				}
			}()
			p, err := convert.WireToProto(m)
			if err != nil {
				protoT = "(Some Err)"
				obs["wire_to_proto"] = err.Error()
			} else {
				protoT = "(Some (Ok " + cdump.Proto(p) + "))"
			}
		}()
	}
	var encOK, decT, counts, shapes []string
	for i, e := range encs {
		name := []string{"protobuf", "json"}[i]
		var buf bytes.Buffer
		eo := encObs{}
		n, err := e.EncodeTo(&buf, m)
		eo.EncN, eo.Len = n, buf.Len()
		if err != nil {
			eo.EncErr = err.Error()
			encOK = append(encOK, "false")
			decT = append(decT, "Err")
			obs[name] = eo
			continue
		}
		encOK = append(encOK, "true")
		data := append([]byte(nil), buf.Bytes()...)
		dn, dm, derr := e.DecodeFrom(bytes.NewReader(data))
		eo.DecN = dn
		if derr != nil {
			eo.DecErr = derr.Error()
			decT = append(decT, "Err")
			obs[name] = eo
			continue
		}
		decT = append(decT, outcomeTerm(true, cdump.Wire(dm)))
		obs[name] = eo
		// the same message through an encoding.Transport: counters
		lp := &loop{}
		tr := encoding.NewTransport(&encoding.TransportConfig{Transport: lp, Encoding: e})
		var txm, txb, rxm, rxb int64 = -1, -1, -1, -1
		if err := tr.Write(m); err == nil {
			if rm, err := tr.Read(); err == nil {
				txm, txb = sumCount(tr.TxCount(), reflect.TypeOf(m))
				rxm, rxb = sumCount(tr.RxCount(), reflect.TypeOf(rm))
				if reflect.TypeOf(rm) != reflect.TypeOf(m) || int64(tr.TxMessageCounterValue()) != 1 || int64(tr.RxMessageCounterValue()) != 1 {
					txm = -2
				}
			}
		}
		counts = append(counts, zList(int64(n), int64(len(data)), int64(dn), txm, txb, rxm, rxb))
		// the same encoding through other reader shapes (two sampled per case and encoding) ...
		if sr == nil { // duration sweep: small terms, the shapes are covered by all other cases
			continue
		}
		plain := cdump.Wire(dm)
		var shapeObs []string
		s1 := 1 + sr.Intn(ioshape.NReaderShapes-1)
		s2 := 1 + (s1+sr.Intn(ioshape.NReaderShapes-2))%(ioshape.NReaderShapes-1)
		for _, sh := range []int{s1, s2} {
			top := &ioshape.Counting{R: ioshape.Reader(sh, data, sr.Fork())}
			sn, sm, serr := e.DecodeFrom(top)
			same := int64(0)
			if serr == nil && sm != nil && cdump.Wire(sm) == plain {
				same = 1
			}
			if serr != nil {
				sn = -1
			}
			shapes = append(shapes, zList(0, int64(i), int64(sh), int64(sn), int64(top.N), int64(len(data)), same))
			shapeObs = append(shapeObs, fmt.Sprintf("DecodeFrom %s: reported %d, pulled %d of %d, same message %d", ioshape.ReaderNames[sh], sn, top.N, len(data), same))
			count(name + ":reader:" + ioshape.ReaderNames[sh])
		}
		// ... and EncodeTo into another writer shape
		{
			sh := 1 + sr.Intn(ioshape.NWriterShapes-1)
			sink := &ioshape.Sink{Shape: sh}
			wn, werr := e.EncodeTo(sink, m)
			same := int64(0)
			// the protobuf encoder writes map entries in Go's map order: compare by decoding
			if werr == nil {
				if _, wm, derr2 := e.DecodeFrom(bytes.NewReader(sink.Got)); derr2 == nil && cdump.Wire(wm) == plain {
					same = 1
				}
			} else {
				wn = -1
			}
			shapes = append(shapes, zList(1, int64(i), int64(sh), int64(wn), int64(len(sink.Got)), int64(len(data)), same))
			shapeObs = append(shapeObs, fmt.Sprintf("EncodeTo %s: reported %d, writer received %d of %d, same message %d", ioshape.WriterNames[sh], wn, len(sink.Got), len(data), same))
			count(name + ":writer:" + ioshape.WriterNames[sh])
		}
		obs[name+"_shapes"] = shapeObs
	}
	jsT := "(Some " + decT[1] + ")"
	if decT[1] == decT[0] {
		jsT = "None"
	}
	term = fmt.Sprintf("mkCC %s %s [%s] %s %s [%s] [%s]", cdump.Wire(m), protoT, strings.Join(encOK, ";"), decT[0], jsT, strings.Join(counts, ";"), strings.Join(shapes, ";"))
	return term, obs, ""
}

// probes outside the Coq-judged domain, judged here only for "no crash": invalid UTF-8, durations
// where float64 Seconds() rounds, negative durations.
func probes() map[string]interface{} {
	out := map[string]interface{}{}
	rt := func(e encoding.Encoding, m message.Message) (message.Message, string) {
		var res message.Message
		var msg string
		func() {
			defer func() {
				if r := recover(); r != nil {
					msg = fmt.Sprintf("PANIC %v", r)
				}
			}()
			var buf bytes.Buffer
			if _, err := e.EncodeTo(&buf, m); err != nil {
				msg = "encode error"
				return
			}
			_, dm, err := e.DecodeFrom(bytes.NewReader(buf.Bytes()))
			if err != nil {
				msg = "decode error"
				return
			}
			res = dm
		}()
		return res, msg
	}
	pb, js := epb.NewEncoding(), ejson.NewEncoding()
	bad := "a\xffb"
	m1, e1 := rt(pb, &message.ConnectRequest{NodeID: bad})
	m2, e2 := rt(js, &message.ConnectRequest{NodeID: bad})
	s := func(m message.Message, e string) string {
		if m == nil {
			return e
		}
		return fmt.Sprintf("%q", m.(*message.ConnectRequest).NodeID)
	}
	out["invalid_utf8_node_id"] = map[string]string{"protobuf": s(m1, e1), "json": s(m2, e2), "note": "outside the domain (proto3 strings are UTF-8): JSON substitutes U+FFFD, protobuf keeps the bytes"}
	var ds []string
	for _, d := range []time.Duration{16777216*time.Second + 999999999, 3000000000*time.Second + 999999999, -time.Second, -1} {
		m, e := rt(pb, &message.ConnectRequest{PingInterval: d})
		if m == nil {
			ds = append(ds, fmt.Sprintf("%dns -> %s", int64(d), e))
		} else {
			ds = append(ds, fmt.Sprintf("%dns -> %dns", int64(d), int64(m.(*message.ConnectRequest).PingInterval)))
		}
	}
	out["durations_outside_modelled_domain"] = ds
	return out
}

func main() {
	seed := flag.Uint64("seed", 1, "seed")
	tier := flag.String("tier", "quick", "quick|thorough")
	out := flag.String("out", "", "output directory")
	replay := flag.String("replay", "", "replay file (JSON with an 'input' field)")
	flag.Parse()
	w := coqfmt.NewWriter(*out, "C11", "From Iscp Require Import Model.Codec.", "codec_case", "codec_judge", 220)

	// progress watchdog: the codec never blocks; a stall is a hang inside a parser
	go func() {
		last := int64(-1)
		for {
			time.Sleep(30 * time.Second)
			cur := atomic.LoadInt64(&progress)
			if cur == last {
				fmt.Fprintf(os.Stderr, "h-codec: no progress for 30 s at case %d: hang inside the codec\n", cur)
				os.Exit(3)
			}
			last = cur
		}
	}()

	add := func(ci *caseIn, kind string) {
		if ci.Sweep {
			ci.Kind = []int{3, 0, 9}[ci.SweepMsg]
		}
		ci.Type = cdump.MessageTypes[ci.Kind].Name()
		m, _ := build(ci, nil, nil)
		sr := rng.New(ci.Seed ^ 0x5ade)
		if ci.Sweep {
			sr = nil
		}
		term, obs, direct := runCase(m, ci.WithProto, sr, w.Count)
		c := coqfmt.Case{Term: term, Input: ci, Observed: obs, Nontrivial: !ci.Zero, Kind: kind, Direct: direct, Seed: ci.Seed}
		if direct != "" {
			c.Term = "mkCC VNil None [] Err None [] []"
		}
		w.Add(c)
		w.Count("type:" + ci.Type)
	}

	if *replay != "" {
		b, err := os.ReadFile(*replay)
		if err != nil {
			fmt.Fprintln(os.Stderr, err)
			os.Exit(2)
		}
		var rf struct {
			Input caseIn `json:"input"`
		}
		if err := json.Unmarshal(b, &rf); err != nil {
			fmt.Fprintln(os.Stderr, err)
			os.Exit(2)
		}
		rf.Input.WithProto = true
		add(&rf.Input, "replay")
		if err := w.Flush(*seed, *tier, "replay of one recorded case", false, nil); err != nil {
			fmt.Fprintln(os.Stderr, err)
			os.Exit(2)
		}
		return
	}

	r := rng.New(*seed)
	thorough := *tier == "thorough"
	nk := len(cdump.MessageTypes)

	// 1. zero value of every message type
	for k := 0; k < nk; k++ {
		add(&caseIn{Kind: k, Zero: true, WithProto: true}, "zero")
	}
	// 2. exhaustive over the grammar's choice points: message type x field path x alternative
	//    (enum values, oneof variants, nil/non-nil pointers, nil/empty/1/few/8 collections, time shapes)
	nPaths, nAlts := 0, 0
	for k := 0; k < nk; k++ {
		seen := map[string][]string{}
		var order []string
		// discover the choice points with a few free runs (hostile labels included)
		for i := 0; i < 40; i++ {
			build(&caseIn{Kind: k, Seed: r.U64(), Hostile: true}, seen, &order)
		}
		// and under every oneof variant
		for i := 0; i < len(order); i++ {
			for _, l := range seen[order[i]] {
				build(&caseIn{Kind: k, Seed: r.U64(), Hostile: true, Path: order[i], Label: l}, seen, &order)
			}
		}
		nPaths += len(order)
		reps := 1
		if thorough {
			reps = 4
		}
		for _, p := range order {
			for _, l := range seen[p] {
				nAlts++
				for j := 0; j < reps; j++ {
					hostile := false
					// hostile-only labels need the hostile generator
					switch l {
					case "0", "37", "-1", "2147483647", "3", "255", "year-3000", "year-1000":
						hostile = true
					}
					if strings.HasSuffix(p, "QoS") && (l == "0" || l == "-1") {
						hostile = l == "-1"
					}
					ci := &caseIn{Kind: k, Seed: r.U64(), Path: p, Label: l, Hostile: hostile, WithProto: j == 0 && nAlts%3 == 0 || thorough}
					if _, ok := build(ci, nil, nil); !ok {
						continue
					}
					add(ci, "grid")
				}
			}
		}
	}
	// 3. random field contents
	nrand := 12
	if thorough {
		nrand = 150
	}
	for k := 0; k < nk; k++ {
		for i := 0; i < nrand; i++ {
			add(&caseIn{Kind: k, Seed: r.U64(), WithProto: i%3 == 0 || thorough}, "random")
		}
		// outside the documented domain: nil elements, unknown enum numbers, wrapped durations
		for i := 0; i < nrand/3; i++ {
			add(&caseIn{Kind: k, Seed: r.U64(), Hostile: true, WithProto: true}, "hostile")
		}
	}
	// 3b. duration sweep: case k puts k ms into the millisecond-resolution field and k s into the
	//     second-resolution ones, for EVERY k in 0..5000; every 7th k also with a remainder below the unit
	//     (canonicalised by the model) and in the two other messages with second fields; values around
	//     2^24 s (where float64 Seconds() stops being exact for sub-second parts), 2^31 and 2^32 units
	for k := int64(0); k <= 5000; k++ {
		add(&caseIn{Sweep: true, SweepUnits: k, Seed: uint64(k)}, "sweep")
		if k%7 == 0 {
			add(&caseIn{Sweep: true, SweepUnits: k, SweepRem: 1 + int64(r.Intn(999999)), Seed: uint64(k)}, "sweep")
			add(&caseIn{Sweep: true, SweepMsg: 1 + int(k/7)%2, SweepUnits: k, SweepRem: int64(r.Intn(1000000)), Seed: uint64(k)}, "sweep")
		}
	}
	for _, base := range []int64{1 << 24, 1 << 31, 1 << 32} {
		for d := int64(-2); d <= 1; d++ {
			u := base + d
			if u >= 1<<32 && !thorough {
				continue // beyond the wire range uint32(float64) is implementation-defined; thorough only, as the hostile generator does
			}
			for msg := 0; msg < 3; msg++ {
				add(&caseIn{Sweep: true, SweepMsg: msg, SweepUnits: u, Seed: uint64(u)}, "sweep-boundary")
			}
		}
	}
	// 4. large payloads and collections (few: the terms are big)
	nbig := 3
	if thorough {
		nbig = 30
	}
	for i := 0; i < nbig; i++ {
		for _, k := range []int{15, 17, 20, 22, 23} {
			add(&caseIn{Kind: k, Seed: r.U64(), Big: true}, "big")
		}
	}
	extra := map[string]interface{}{"choice_points": nPaths, "alternatives_enumerated": nAlts, "probes_outside_domain": probes()}
	rule := "every message type: zero value; every (field path, alternative) of the grammar forced once with all other content random (result codes 1..36 and out-of-table numbers, QoS, every oneof variant incl. absent, nil/non-nil extension fields and sub-messages, nil/empty/1/few/8 collections, 7 time shapes); random contents (non-ASCII strings, extreme integers, durations at the wire limits, payloads 0..17 bytes, collections 0..8); hostile values outside the domain; large payloads; a duration sweep (every whole millisecond 0..5000 in the millisecond field with as many seconds in the second fields, every 7th also with a sub-unit remainder, values around 2^24 s, 2^31 and 2^32 units); every encoding that decodes is decoded again behind two sampled io.Reader shapes (last data together with io.EOF, one byte at a time, halves, random chunks with EOF on the last, (0,nil) now and then) and encoded again into a sampled io.Writer shape: reported count = bytes pulled / received = length of the encoding, same message. non-trivial = not the zero message; distinct = distinct Coq case terms"
	if err := w.Flush(*seed, *tier, rule, false, extra); err != nil {
		fmt.Fprintln(os.Stderr, err)
		os.Exit(2)
	}
}

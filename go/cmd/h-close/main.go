// h-close: correspondence harness for C10 (Close is final) against Model/Conn.v.
// Generated histories (streams of both directions left open or closed first, buffered data,
// pending reads and calls, an outage in progress with the redial hanging, failing or succeeding,
// double and concurrent Close) end in Conn.Close; after it has RETURNED the harness
//   - calls every API entry once more and classifies the error with errors.Is against the sentinels
//     of /repo/errors (after-close API matrix; a call that outlives its watchdog is Blocked),
//   - reads the broker's log of the incarnation that received the Disconnect (nothing but pings may
//     follow it; a transport whose Write returns a few ms after accepting makes the window visible),
//   - counts handler calls and dial attempts after Close,
//   - closes the peer side and takes a goroutine census (runtime.Stack filtered to frames of the
//     client library, polled up to 2 s).
//
// Cases run in child processes (sequentially inside one child, so the census sees one case at a
// time, and a panic of a library goroutine - F10 - costs one child, not the run).
package main

import (
	"bufio"
	"bytes"
	"context"
	"encoding/json"
	"errors"
	"flag"
	"fmt"
	"io"
	"os"
	"os/exec"
	"regexp"
	"runtime"
	"sort"
	"strings"
	"sync"
	"sync/atomic"
	"time"

	ierrors "github.com/aptpod/iscp-go/errors"
	"github.com/aptpod/iscp-go/iscp"
	"github.com/aptpod/iscp-go/message"
	"github.com/aptpod/iscp-go/verifhooks"

	uuid "github.com/google/uuid"

	"verif/internal/broker"
	"verif/internal/connbroker"
	"verif/internal/coqfmt"
	"verif/internal/memtr"
	"verif/internal/rng"
)

type caseIn struct {
	Ups           int    `json:"ups"`
	Downs         int    `json:"downs"`
	CloseFirst    []int  `json:"close_first,omitempty"` // ordinals of streams closed before the connection
	Overlap       []int  `json:"overlap,omitempty"`     // ordinals of streams closed by OverlapN overlapping Close calls (the broker withholds the first close response until all calls were issued)
	OverlapN      int    `json:"overlap_n,omitempty"`
	PendingReply  bool   `json:"pending_reply,omitempty"`  // SendCallAndWaitReplayCall already ACKED and waiting for its reply, ReceiveCall and ReceiveReplyCall consumers waiting - all with contexts WITHOUT deadline
	Queued        int    `json:"queued,omitempty"`         // every downstream holds that many unread metadata items and unread chunks at (stream / connection) Close; afterwards ReadMetadata / ReadDataPoints are called 16 times each
	E2EPending    int    `json:"e2e_pending,omitempty"`    // with outage dialfail/dialok: that many concurrent SendCall / SendReplyCall / SendCallAndWaitReplayCall callers are waiting for Connected inside send() when Close is called
	StreamPending int    `json:"stream_pending,omitempty"` // with outage dialfail/dialok: per open upstream that many writers blocked in WriteDataPoints (no flush loop during the outage; context.Background() and 30 s contexts alternate) and one Flush caller, per open downstream one ReadDataPoints and one ReadMetadata consumer, all pending when Close is called
	RaceWriters   int    `json:"race_writers,omitempty"`   // live connection: that many writers are in flight on upstream 0 while its flush loop is stalled (slow sent-storage Store) and Upstream.Close is called from another goroutine
	CloseRefused  []int  `json:"close_refused,omitempty"`  // ordinals of streams closed first whose close request the broker answers with a FAILURE result code: the stream must be final all the same
	RefuseCode    int    `json:"refuse_code,omitempty"`
	ClosePending  string `json:"close_pending,omitempty"` // "ack": every open upstream has an Upstream.Close waiting for a withheld ack (close timeout 6 s); "resp": every open stream has a Close waiting for its withheld close response - when Conn.Close is called from another goroutine
	CallFlood     int    `json:"call_flood,omitempty"`    // that many DownstreamCall and UpstreamCallAck messages arrive while Close waits behind a pending SendBaseTime (no answer, 300 ms context)
	Buffered      []int  `json:"buffered,omitempty"`      // ordinals of streams with unflushed data / unacknowledged reads at Close
	PendingRead   bool   `json:"pending_read,omitempty"`
	PendingCall   bool   `json:"pending_call,omitempty"`
	Closes        int    `json:"closes"` // number of Close calls
	Concurrent    bool   `json:"concurrent,omitempty"`
	Outage        string `json:"outage,omitempty"` // "" | dialok (redial succeeds while Close waits) | dialfail | settled (outage survived before Close) | guard (outage detected while wireConnMu is held: reconnect() must refuse after Close)
	SlowWriteUs   int    `json:"slow_write_us,omitempty"`
	FullMatrix    bool   `json:"full_matrix,omitempty"` // include the entries that wait in waitUntil (F5)
}

type resultOut struct {
	Evs              []string `json:"evs"`
	ConnMatrix       [][2]int `json:"conn_matrix"`
	StreamMatrix     [][3]int `json:"stream_matrix"`
	WireAfter        int      `json:"wire_after"`
	WireAfterWhat    []string `json:"wire_after_what,omitempty"`
	ConnectsAfter    int      `json:"connects_after"`
	DiscAfter        int      `json:"disc_after"`
	ReconnAfter      int      `json:"reconn_after"`
	SClosed          [][2]int `json:"sclosed"`
	CloseReqs        []int    `json:"close_reqs"`
	CloseReqMax      int      `json:"close_req_max"`
	OverlapRets      [][]int  `json:"overlap_rets,omitempty"`
	PendingMeta      int      `json:"pending_meta_ret,omitempty"`
	RaceRets         []int    `json:"race_rets,omitempty"` // writers racing Upstream.Close, then the Flush, then the Close itself
	RefusedRets      []int    `json:"refused_close_rets,omitempty"`
	PendingCloseRets []int    `json:"pending_close_rets,omitempty"`
	GuardMissed      bool     `json:"guard_window_missed,omitempty"`
	Leaked           int      `json:"leaked"`
	LeakedWhere      []string `json:"leaked_where,omitempty"`
	Panic            bool     `json:"panic"`
	PanicMsg         string   `json:"panic_msg,omitempty"`
	CloseRets        []int    `json:"close_rets"`
	CloseMs          int      `json:"close_ms"`
	Harness          string   `json:"harness,omitempty"`
}

func classify(err error) int {
	switch {
	case err == nil:
		return 0
	case errors.Is(err, ierrors.ErrStreamClosed):
		return 1
	case errors.Is(err, ierrors.ErrConnectionClosed):
		return 2
	case errors.Is(err, ierrors.ErrISCP):
		return 3
	case errors.Is(err, context.Canceled):
		return 4
	case errors.Is(err, context.DeadlineExceeded):
		return 5
	}
	return 6
}

// guarded runs f under a watchdog: 7 = blocked, 8 = panic
func guarded(d time.Duration, f func() error) int {
	ch := make(chan int, 1)
	go func() {
		defer func() {
			if x := recover(); x != nil {
				ch <- 8
			}
		}()
		ch <- classify(f())
	}()
	select {
	case c := <-ch:
		return c
	case <-time.After(d):
		return 7
	}
}

var goroutineHdr = regexp.MustCompile(`^goroutine (\d+) \[`)

// libGoroutines returns id -> first library frame of every goroutine that has a frame of the client library
func libGoroutines() map[string]string {
	buf := make([]byte, 1<<22)
	n := runtime.Stack(buf, true)
	res := map[string]string{}
	for _, g := range strings.Split(string(buf[:n]), "\n\n") {
		m := goroutineHdr.FindStringSubmatch(g)
		if m == nil {
			continue
		}
		for _, ln := range strings.Split(g, "\n") {
			if strings.HasPrefix(ln, "github.com/aptpod/iscp-go/iscp.") || strings.HasPrefix(ln, "github.com/aptpod/iscp-go/wire.") ||
				strings.HasPrefix(ln, "created by github.com/aptpod/iscp-go/iscp.") || strings.HasPrefix(ln, "created by github.com/aptpod/iscp-go/wire.") {
				res[m[1]] = strings.TrimPrefix(strings.TrimPrefix(argsRe.ReplaceAllString(strings.TrimSpace(ln), ""), "created by "), "github.com/aptpod/iscp-go/")
				break
			}
		}
	}
	return res
}

var argsRe = regexp.MustCompile(`(\([^()]*\)| in goroutine \d+)$`)

var knownLeaked = map[string]bool{}

// slowStorage delays Store: the upstream's flush loop sits in it (holding the stream lock) for that long.
type slowStorage struct {
	iscp.VerifSentStorage
	delay atomic.Int64
}

func (s *slowStorage) Store(ctx context.Context, id uuid.UUID, seq uint32, d iscp.DataPointGroups) error {
	if d := s.delay.Load(); d > 0 {
		time.Sleep(time.Duration(d))
	}
	return s.VerifSentStorage.Store(ctx, id, seq, d)
}

type strm struct {
	label int
	down  bool
	up    *iscp.Upstream
	dn    *iscp.Downstream
}

func runCase(c *caseIn) (res resultOut) {
	cb := connbroker.New()
	defer cb.Release()
	var mu sync.Mutex
	disc, reconn := 0, 0
	var sclosed [][2]int
	closeCalled := false
	discAfter, reconnAfter := 0, 0
	ev := func(s ...string) { res.Evs = append(res.Evs, s...) }
	outage := c.Outage != ""
	pingI, pingT := time.Hour, time.Hour
	if outage {
		pingI, pingT = 10*time.Millisecond, 40*time.Millisecond
	}
	if c.SlowWriteUs > 0 {
		cb.WriteDelay.Store(int64(time.Duration(c.SlowWriteUs) * time.Microsecond))
	}
	var conn *iscp.Conn
	slow := &slowStorage{VerifSentStorage: iscp.VerifNewInmemSentStorage()}
	storageOpt := func(*iscp.ConnConfig) {}
	if c.RaceWriters > 0 {
		storageOpt = iscp.VerifWithSentStorage(slow)
	}
	if guarded(3*time.Second, func() error {
		var err error
		conn, err = iscp.Connect(cb.Address, broker.TransportName, iscp.WithConnPingInterval(pingI), iscp.WithConnPingTimeout(pingT), storageOpt,
			iscp.WithConnDisconnectedEventHandler(iscp.DisconnectedEventHandlerFunc(func(*iscp.DisconnectedEvent) {
				mu.Lock()
				disc++
				if closeCalled {
					discAfter++
				}
				mu.Unlock()
			})),
			iscp.WithConnReconnectedEventHandler(iscp.ReconnectedEventHandlerFunc(func(*iscp.ReconnectedEvent) {
				mu.Lock()
				reconn++
				if closeCalled {
					reconnAfter++
				}
				mu.Unlock()
			})))
		return err
	}) != 0 {
		res.Harness = "connect failed"
		return
	}
	label := 0
	var streams []*strm
	closedEv := func(l int) func(err error) {
		return func(err error) {
			mu.Lock()
			e := 0
			if err != nil {
				e = 1
			}
			sclosed = append(sclosed, [2]int{l, e})
			mu.Unlock()
		}
	}
	for i := 0; i < c.Ups+c.Downs; i++ {
		l := label
		label++
		down := i >= c.Ups
		ce := closedEv(l)
		s := &strm{label: l, down: down}
		cls := guarded(3*time.Second, func() error {
			ctx, cancel := context.WithTimeout(context.Background(), 2*time.Second)
			defer cancel()
			var err error
			if !down {
				qos := message.QoSUnreliable
				if (c.StreamPending > 0 || c.RaceWriters > 0) && i%2 == 1 {
					qos = message.QoSReliable
				}
				closeTimeout := 300 * time.Millisecond
				if c.ClosePending == "ack" {
					closeTimeout = 6 * time.Second
				}
				s.up, err = conn.OpenUpstream(ctx, fmt.Sprintf("s%d", l), iscp.WithUpstreamFlushPolicyNone(), iscp.WithUpstreamCloseTimeout(closeTimeout), iscp.WithUpstreamQoS(qos),
					iscp.WithUpstreamClosedEventHandler(iscp.UpstreamClosedEventHandlerFunc(func(e *iscp.UpstreamClosedEvent) { ce(e.Err) })))
			} else {
				s.dn, err = conn.OpenDownstream(ctx, []*message.DownstreamFilter{message.NewDownstreamFilterAllFor(fmt.Sprintf("n%d", l))},
					iscp.WithDownstreamAckFlushInterval(time.Hour),
					iscp.WithDownstreamClosedEventHandler(iscp.DownstreamClosedEventHandlerFunc(func(e *iscp.DownstreamClosedEvent) { ce(e.Err) })))
			}
			return err
		})
		if cls != 0 {
			res.Harness = fmt.Sprintf("open failed: class %d", cls)
			return
		}
		streams = append(streams, s)
		kd := "KOpenUp"
		if down {
			kd = "KOpenDown"
		}
		ev(fmt.Sprintf("EStart %d %s", l, kd), fmt.Sprintf("EWake %d", l), fmt.Sprintf("EResp %d", l))
	}
	queuedStreams := map[int]bool{}
	var closedFirst func(i int) bool
	isIn := func(l []int, i int) bool {
		for _, x := range l {
			if len(streams) > 0 && x%len(streams) == i {
				return true
			}
		}
		return false
	}
	raceStream := func(i int) bool { return c.RaceWriters > 0 && c.Outage == "" && i == 0 && c.Ups > 0 }
	closedFirst = func(i int) bool {
		return isIn(c.CloseFirst, i) || isIn(c.Overlap, i) || raceStream(i) || isIn(c.CloseRefused, i)
	}
	// buffered data: an unflushed write / a consumed chunk whose result is not yet acknowledged
	seq := uint32(0)
	for i, s := range streams {
		if !isIn(c.Buffered, i) {
			continue
		}
		if !s.down {
			guarded(time.Second, func() error {
				ctx, cancel := context.WithTimeout(context.Background(), time.Second)
				defer cancel()
				return s.up.WriteDataPoints(ctx, &message.DataID{Name: "d", Type: "t"}, &message.DataPoint{ElapsedTime: 1, Payload: []byte{1, 2, 3}})
			})
			// the write is buffered once State() shows it
			broker.WaitFor(time.Second, func() bool { return len(s.up.State().DataPointsBuffer) > 0 })
		} else {
			seq++
			cb.SendChunk(cb.CurrentEstablished(), s.label, seq)
			guarded(time.Second, func() error {
				ctx, cancel := context.WithTimeout(context.Background(), time.Second)
				defer cancel()
				_, err := s.dn.ReadDataPoints(ctx)
				return err
			})
		}
		ev(fmt.Sprintf("EWrite %d", s.label))
	}
	// unread items left in the read queues of every downstream
	if c.Queued > 0 && !outage {
		for i, s := range streams {
			if !s.down || isIn(c.Buffered, i) {
				continue
			}
			cur := cb.CurrentEstablished()
			for k := 0; k < c.Queued; k++ {
				seq++
				cb.SendChunk(cur, s.label, seq)
				cb.SendMetadata(cur, s.label, seq)
			}
			s := s
			if !broker.WaitFor(2*time.Second, func() bool {
				ch, md := iscp.VerifDownstreamQueued(s.dn)
				return ch >= c.Queued && md >= c.Queued
			}) {
				res.Harness = "the items sent by the broker were not queued in the downstream"
				return
			}
			queuedStreams[s.label] = true
		}
	}
	// streams closed first
	for i, s := range streams {
		if !isIn(c.CloseFirst, i) {
			continue
		}
		guarded(3*time.Second, func() error {
			ctx, cancel := context.WithTimeout(context.Background(), 2*time.Second)
			defer cancel()
			if s.down {
				return s.dn.Close(ctx)
			}
			return s.up.Close(ctx)
		})
		ev(fmt.Sprintf("EStreamClose %d", s.label), fmt.Sprintf("EStreamCloseResp %d", s.label))
	}
	// the broker answers the close request with a failure result code: the stream is final all the same
	refuseCodes := []message.ResultCode{message.ResultCodeUnspecifiedError, message.ResultCodeStreamNotFound, message.ResultCodeProcessFailed, message.ResultCodeSessionCannotClosed}
	for i, s := range streams {
		if !isIn(c.CloseRefused, i) || isIn(c.CloseFirst, i) || isIn(c.Overlap, i) || raceStream(i) {
			continue
		}
		s := s
		cb.RefuseClose(s.label, refuseCodes[(c.RefuseCode+i)%len(refuseCodes)])
		closeOnce := func() int {
			return guarded(3*time.Second, func() error {
				ctx, cancel := context.WithTimeout(context.Background(), 2*time.Second)
				defer cancel()
				if s.down {
					return s.dn.Close(ctx)
				}
				return s.up.Close(ctx)
			})
		}
		res.RefusedRets = append(res.RefusedRets, closeOnce())
		ev(fmt.Sprintf("EStreamClose %d", s.label), fmt.Sprintf("EStreamCloseRefused %d", s.label))
		// every later call fails with the stream-closed sentinel at once; a second Close sends nothing
		apis := []int{9, 10}
		if s.down {
			apis = []int{12, 13}
		}
		for _, a := range apis {
			a := a
			cl := guarded(2*time.Second, func() error {
				ctx, cancel := context.WithTimeout(context.Background(), 150*time.Millisecond)
				defer cancel()
				var err error
				switch a {
				case 9:
					err = s.up.WriteDataPoints(ctx, &message.DataID{Name: "d", Type: "t"}, &message.DataPoint{ElapsedTime: 9, Payload: []byte{9}})
				case 10:
					err = s.up.Flush(ctx)
				case 12:
					_, err = s.dn.ReadDataPoints(ctx)
				case 13:
					_, err = s.dn.ReadMetadata(ctx)
				}
				return err
			})
			res.StreamMatrix = append(res.StreamMatrix, [3]int{s.label, a, cl})
		}
		again := 11
		if s.down {
			again = 14
		}
		res.StreamMatrix = append(res.StreamMatrix, [3]int{s.label, again, closeOnce()})
	}
	// writers in flight on a live upstream whose flush loop is stalled, and Upstream.Close from another goroutine
	if len(streams) > 0 && raceStream(0) && !isIn(c.CloseFirst, 0) && !isIn(c.Overlap, 0) {
		s := streams[0]
		did := &message.DataID{Name: "d", Type: "t"}
		wr := func(ctx context.Context, n int) int {
			return classify(s.up.WriteDataPoints(ctx, did, &message.DataPoint{ElapsedTime: time.Duration(100 + n), Payload: []byte{byte(n)}}))
		}
		slow.delay.Store(int64(80 * time.Millisecond))
		guarded(time.Second, func() error {
			return s.up.WriteDataPoints(context.Background(), did, &message.DataPoint{ElapsedTime: 99, Payload: []byte{9}})
		})
		flushCh := make(chan int, 1)
		go func() {
			ctx, cancel := context.WithTimeout(context.Background(), 2*time.Second)
			defer cancel()
			flushCh <- classify(s.up.Flush(ctx))
		}()
		time.Sleep(10 * time.Millisecond) // the flush loop sits in Store, holding the stream lock
		wch := make([]chan int, c.RaceWriters)
		for k := range wch {
			wch[k] = make(chan int, 1)
			go func(k int) {
				defer func() {
					if x := recover(); x != nil {
						wch[k] <- 8
					}
				}()
				if k%2 == 0 {
					wch[k] <- wr(context.Background(), k)
				} else {
					ctx, cancel := context.WithTimeout(context.Background(), 30*time.Second)
					defer cancel()
					wch[k] <- wr(ctx, k)
				}
			}(k)
		}
		time.Sleep(10 * time.Millisecond) // every writer has passed the entry guards and waits for the loop
		closeCh := make(chan int, 1)
		go func() {
			ctx, cancel := context.WithTimeout(context.Background(), 2*time.Second)
			defer cancel()
			closeCh <- classify(s.up.Close(ctx))
		}()
		dl := time.Now().Add(4 * time.Second) // one watchdog for all of them
		get := func(ch chan int) int {
			select {
			case v := <-ch:
				return v
			case <-time.After(time.Until(dl)):
				return 7
			}
		}
		for _, ch := range wch {
			res.RaceRets = append(res.RaceRets, get(ch))
		}
		res.RaceRets = append(res.RaceRets, get(flushCh), get(closeCh))
		slow.delay.Store(0)
		ev(fmt.Sprintf("EWrite %d", s.label), fmt.Sprintf("EStreamClose %d", s.label), fmt.Sprintf("EStreamCloseResp %d", s.label))
	}
	// overlapping Close calls of one stream: the first close response is withheld until every call was issued
	for i, s := range streams {
		if !isIn(c.Overlap, i) || isIn(c.CloseFirst, i) {
			continue
		}
		n := c.OverlapN
		if n < 2 {
			n = 2
		}
		s := s
		closeOnce := func() int {
			return guarded(3*time.Second, func() error {
				ctx, cancel := context.WithTimeout(context.Background(), 2*time.Second)
				defer cancel()
				if s.down {
					return s.dn.Close(ctx)
				}
				return s.up.Close(ctx)
			})
		}
		cb.HoldClose(s.label)
		from := len(cb.Log())
		nreq := func() int {
			k := 0
			for _, x := range cb.Log()[from:] {
				if (x.Kind == "closeup" || x.Kind == "closedown") && x.Label == s.label {
					k++
				}
			}
			return k
		}
		chs := make([]chan int, n)
		chs[0] = make(chan int, 1)
		go func() { chs[0] <- closeOnce() }()
		if !broker.WaitFor(2*time.Second, func() bool { return nreq() >= 1 }) {
			res.Harness = "close request never reached the broker"
			return
		}
		for k := 1; k < n; k++ {
			chs[k] = make(chan int, 1)
			go func(ch chan int) { ch <- closeOnce() }(chs[k])
		}
		// every later call has either returned or written its own close request
		broker.WaitFor(40*time.Millisecond, func() bool { return nreq() >= n })
		cb.ReleaseClose(s.label)
		var rets []int
		for _, ch := range chs {
			rets = append(rets, <-ch)
		}
		res.OverlapRets = append(res.OverlapRets, rets)
		for k := 0; k < n; k++ {
			ev(fmt.Sprintf("EStreamClose %d", s.label))
		}
		ev(fmt.Sprintf("EStreamCloseResp %d", s.label))
	}
	// pending operations
	type pend struct {
		api, stream int
		ch          chan int
	}
	var pends []pend
	if c.PendingRead && c.Queued == 0 {
		for i, s := range streams {
			if s.down && !closedFirst(i) && !isIn(c.Buffered, i) {
				p := pend{12, s.label, make(chan int, 1)}
				s := s
				go func() {
					p.ch <- guarded(3*time.Second, func() error {
						ctx, cancel := context.WithTimeout(context.Background(), 2*time.Second)
						defer cancel()
						_, err := s.dn.ReadDataPoints(ctx)
						return err
					})
				}()
				pends = append(pends, p)
				break
			}
		}
	}
	if c.PendingCall && !outage {
		cb.NoAnswer("call", true)
		l := label
		label++
		p := pend{3, -1, make(chan int, 1)}
		from := len(cb.Log())
		go func() {
			p.ch <- guarded(3*time.Second, func() error {
				ctx, cancel := context.WithTimeout(context.Background(), 2*time.Second)
				defer cancel()
				_, err := conn.SendCall(ctx, &iscp.UpstreamCall{DestinationNodeID: "d", Name: fmt.Sprintf("c%d", l), Type: "t"})
				return err
			})
		}()
		broker.WaitFor(time.Second, func() bool {
			for _, x := range cb.Log()[from:] {
				if x.Kind == "call" {
					return true
				}
			}
			return false
		})
		pends = append(pends, p)
		ev(fmt.Sprintf("EStart %d KCall", l), fmt.Sprintf("EWake %d", l))
		res.Evs = append(res.Evs, fmt.Sprintf("@fail %d", l))
	}
	if c.PendingReply && !outage {
		cb.NoAnswer("call", false)
		mk := func(api int, f func() error) {
			p := pend{api, -1, make(chan int, 1)}
			go func() {
				defer func() {
					if x := recover(); x != nil {
						p.ch <- 8
					}
				}()
				p.ch <- classify(f())
			}()
			pends = append(pends, p)
		}
		// no deadline anywhere: only Close can end these waits
		mk(5, func() error {
			_, err := conn.SendCallAndWaitReplayCall(context.Background(), &iscp.UpstreamCall{DestinationNodeID: "d", Name: "cwait", Type: "t"})
			return err
		})
		mk(6, func() error { _, err := conn.ReceiveCall(context.Background()); return err })
		mk(7, func() error { _, err := conn.ReceiveReplyCall(context.Background()); return err })
		from := len(cb.Log())
		broker.WaitFor(time.Second, func() bool {
			for _, x := range cb.Log()[from:] {
				if x.Kind == "call" {
					return true
				}
			}
			return false
		})
		time.Sleep(15 * time.Millisecond) // the broker's ack has arrived: the call is in its reply-wait phase
	}
	time.Sleep(2 * time.Millisecond)

	// outage in progress
	sessBefore := len(cb.Sessions())
	floodLabel := -1 // a request left pending until its own context ends while Close waits behind it
	var floodCh chan int
	switch c.Outage {
	case "dialok", "dialfail":
		cb.DialDelay.Store(int64(120 * time.Millisecond))
		if c.Outage == "dialfail" {
			cb.FailHandshakes(1000)
		}
		for len(cb.DialStarted) > 0 {
			<-cb.DialStarted
		}
		cb.CurrentEstablished().Link.Sever(memtr.Loud)
		select {
		case <-cb.DialStarted:
		case <-time.After(2 * time.Second):
			res.Harness = "redial never started"
			return
		}
		time.Sleep(30 * time.Millisecond) // the watchers see Reconnecting
		for k := 0; k < c.E2EPending; k++ {
			api := 3 + k%3
			p := pend{api, -1, make(chan int, 1)}
			go func() {
				defer func() {
					if x := recover(); x != nil {
						p.ch <- 8
					}
				}()
				ctx, cancel := context.WithTimeout(context.Background(), 3*time.Second)
				defer cancel()
				var err error
				switch api {
				case 3:
					_, err = conn.SendCall(ctx, &iscp.UpstreamCall{DestinationNodeID: "d", Name: "out", Type: "t"})
				case 4:
					_, err = conn.SendReplyCall(ctx, &iscp.UpstreamReplyCall{RequestCallID: "r", DestinationNodeID: "d", Name: "out", Type: "t"})
				case 5:
					_, err = conn.SendCallAndWaitReplayCall(ctx, &iscp.UpstreamCall{DestinationNodeID: "d", Name: "out", Type: "t"})
				}
				p.ch <- classify(err)
			}()
			pends = append(pends, p)
		}
		if c.StreamPending > 0 {
			bg := func(k int) (context.Context, context.CancelFunc) {
				if k%2 == 0 {
					return context.Background(), func() {}
				}
				return context.WithTimeout(context.Background(), 30*time.Second)
			}
			mkp := func(api, label, k int, f func(ctx context.Context) error) {
				p := pend{api, label, make(chan int, 1)}
				go func() {
					defer func() {
						if x := recover(); x != nil {
							p.ch <- 8
						}
					}()
					ctx, cancel := bg(k)
					defer cancel()
					p.ch <- classify(f(ctx))
				}()
				pends = append(pends, p)
			}
			for i, s := range streams {
				if closedFirst(i) {
					continue
				}
				s := s
				if !s.down {
					// no flush loop exists until the stream resumes: every writer and every Flush caller waits
					for k := 0; k < c.StreamPending; k++ {
						k := k
						mkp(9, s.label, k, func(ctx context.Context) error {
							return s.up.WriteDataPoints(ctx, &message.DataID{Name: "d", Type: "t"}, &message.DataPoint{ElapsedTime: time.Duration(200 + k), Payload: []byte{1}})
						})
					}
					mkp(10, s.label, 0, func(ctx context.Context) error { return s.up.Flush(ctx) })
				} else {
					mkp(12, s.label, 0, func(ctx context.Context) error { _, err := s.dn.ReadDataPoints(ctx); return err })
					mkp(13, s.label, 1, func(ctx context.Context) error { _, err := s.dn.ReadMetadata(ctx); return err })
				}
			}
		}
		if c.E2EPending > 0 || c.StreamPending > 0 {
			time.Sleep(15 * time.Millisecond) // every caller waits: for Connected inside send(), for a flush loop, for data
		}
		ev("ELinkDown", "EDetect", "ELoop")
		for i, s := range streams {
			if !closedFirst(i) {
				ev(fmt.Sprintf("EWatch %d", s.label))
			}
		}
	case "guard":
		// SendMetadata holds wireConnMu while the transport's Write returns slowly (400 ms); meanwhile the link
		// dies and keepalive closes the wire connection: run() has returned its error and reconnect() waits for
		// wireConnMu BEFORE its closed check.  Close arrives in that window.
		cur := cb.CurrentEstablished()
		cb.NoAnswer("meta", true)
		gensBefore := cb.Gens()
		cur.Link.WriteDelay.Store(int64(400 * time.Millisecond))
		l := label
		label++
		mp := pend{2, -1, make(chan int, 1)}
		go func() {
			mp.ch <- guarded(3*time.Second, func() error {
				ctx, cancel := context.WithTimeout(context.Background(), 1200*time.Millisecond)
				defer cancel()
				return conn.SendBaseTime(ctx, &message.BaseTime{SessionID: "x", Name: fmt.Sprintf("m%d", l), BaseTime: time.Unix(1700000000, 0)})
			})
		}()
		from := len(cb.Log())
		if !broker.WaitFor(time.Second, func() bool {
			for _, x := range cb.Log()[from:] {
				if x.Kind == "meta" {
					return true
				}
			}
			return false
		}) {
			res.Harness = "metadata never reached the broker"
			return
		}
		cur.Link.WriteDelay.Store(0) // only the metadata Write returns slowly; pings are not delayed
		cur.Link.Sever(memtr.Loud)
		time.Sleep(30 * time.Millisecond) // keepalive (10 ms) notices; the metadata Write is still returning
		if os.Getenv("VERIF_GUARD_MISS") != "" {
			time.Sleep(500 * time.Millisecond) // self-test of the missed-window path
		}
		if cb.Gens() > gensBefore {
			// The window was missed (this goroutine was descheduled for longer than the slow Write): the
			// metadata Write has returned, reconnect() has redialled, every stream has resumed and the
			// request was written again - unanswered - on the new connection.  Close will wait behind it
			// until the request's own context ends (F31, known) and then close a healthy connection.
			broker.WaitFor(2*time.Second, func() bool { return time.Since(cb.LastActivity()) > 120*time.Millisecond })
			ev(fmt.Sprintf("EStart %d KMeta", l), fmt.Sprintf("EWake %d", l), "ELinkDown", "EDetect", fmt.Sprintf("EFail %d", l), "ELoop")
			for i, s := range streams {
				if !closedFirst(i) {
					ev(fmt.Sprintf("EWatch %d", s.label))
				}
			}
			ev("EDial true")
			for i, s := range streams {
				if !closedFirst(i) {
					ev(fmt.Sprintf("ESup %d", s.label), fmt.Sprintf("EResumeResp %d RespOk", s.label))
				}
			}
			ev(fmt.Sprintf("EWake %d", l))
			floodLabel, floodCh = l, mp.ch
			res.GuardMissed = true
		} else {
			pends = append(pends, mp)
			ev(fmt.Sprintf("EStart %d KMeta", l), fmt.Sprintf("EWake %d", l), "ELinkDown", "EDetect")
			res.Evs = append(res.Evs, fmt.Sprintf("@fail %d", l), "@loop")
		}
	case "settled":
		cb.CurrentEstablished().Link.Sever(memtr.Loud)
		cb.DialDelay.Store(int64(60 * time.Millisecond))
		g0 := cb.Gens()
		if !broker.WaitFor(3*time.Second, func() bool { return cb.Gens() > g0 }) {
			res.Harness = "no reconnect"
			return
		}
		time.Sleep(120 * time.Millisecond)
		ev("ELinkDown", "EDetect", "ELoop")
		for i, s := range streams {
			if !closedFirst(i) {
				ev(fmt.Sprintf("EWatch %d", s.label))
			}
		}
		ev("EDial true")
		for i, s := range streams {
			if !closedFirst(i) {
				ev(fmt.Sprintf("ESup %d", s.label), fmt.Sprintf("EResumeResp %d RespOk", s.label))
			}
		}
	}

	// ---- stream Close calls pending (ack wait / close-response wait) when Conn.Close is called
	var pendingClose []chan int
	pendingCloseStream := map[int]bool{}
	var lateCloseResp []string
	if c.ClosePending != "" && c.Outage == "" {
		if c.ClosePending == "ack" {
			cb.NoAnswer("chunk", true)
		}
		for i, s := range streams {
			if closedFirst(i) || (c.ClosePending == "ack" && s.down) {
				continue
			}
			s := s
			if c.ClosePending == "ack" {
				guarded(time.Second, func() error {
					return s.up.WriteDataPoints(context.Background(), &message.DataID{Name: "d", Type: "t"}, &message.DataPoint{ElapsedTime: 77, Payload: []byte{7}})
				})
			} else {
				cb.HoldClose(s.label)
			}
			ch := make(chan int, 1)
			from := len(cb.Log())
			go func() {
				defer func() {
					if x := recover(); x != nil {
						ch <- 8
					}
				}()
				if s.down {
					ch <- classify(s.dn.Close(context.Background()))
				} else {
					ch <- classify(s.up.Close(context.Background()))
				}
			}()
			want := "chunk"
			if c.ClosePending == "resp" {
				want = "closeup"
				if s.down {
					want = "closedown"
				}
			}
			broker.WaitFor(2*time.Second, func() bool {
				for _, x := range cb.Log()[from:] {
					if x.Kind == want && x.Label == s.label {
						return true
					}
				}
				return false
			})
			pendingClose = append(pendingClose, ch)
			pendingCloseStream[s.label] = true
			if c.ClosePending == "resp" {
				ev(fmt.Sprintf("EStreamClose %d", s.label))
				lateCloseResp = append(lateCloseResp, fmt.Sprintf("EStreamCloseResp %d", s.label))
			}
		}
		time.Sleep(25 * time.Millisecond) // every Close sits in its wait
	}

	// ---- calls from other nodes keep arriving while Close waits behind a request in flight
	if c.CallFlood > 0 && c.Outage == "" {
		cb.NoAnswer("meta", true)
		floodLabel = label
		label++
		floodCh = make(chan int, 1)
		from := len(cb.Log())
		l := floodLabel
		go func() {
			floodCh <- guarded(3*time.Second, func() error {
				ctx, cancel := context.WithTimeout(context.Background(), 300*time.Millisecond)
				defer cancel()
				return conn.SendBaseTime(ctx, &message.BaseTime{SessionID: "x", Name: fmt.Sprintf("m%d", l), BaseTime: time.Unix(1700000000, 0)})
			})
		}()
		if !broker.WaitFor(time.Second, func() bool {
			for _, x := range cb.Log()[from:] {
				if x.Kind == "meta" {
					return true
				}
			}
			return false
		}) {
			res.Harness = "metadata never reached the broker"
			return
		}
		ev(fmt.Sprintf("EStart %d KMeta", l), fmt.Sprintf("EWake %d", l))
		nflood := c.CallFlood
		go func() {
			time.Sleep(20 * time.Millisecond) // Close has marked the connection closed and waits for wireConnMu
			for k := 0; k < nflood; k++ {
				cb.SendToClient(&message.DownstreamCall{CallID: fmt.Sprintf("in%d", k), SourceNodeID: "other", Name: "n", Type: "t", Payload: []byte{1}})
				cb.SendToClient(&message.UpstreamCallAck{CallID: fmt.Sprintf("ack%d", k), ResultCode: message.ResultCodeSucceeded})
			}
		}()
	}

	// ---- Close
	mu.Lock()
	closeCalled = true
	mu.Unlock()
	n := c.Closes
	if n < 1 {
		n = 1
	}
	t0 := time.Now()
	doClose := func() int {
		return guarded(4*time.Second, func() error {
			ctx, cancel := context.WithTimeout(context.Background(), 2*time.Second)
			defer cancel()
			return conn.Close(ctx)
		})
	}
	if c.Concurrent {
		chs := make([]chan int, n)
		for i := range chs {
			chs[i] = make(chan int, 1)
			go func(ch chan int) { ch <- doClose() }(chs[i])
		}
		for _, ch := range chs {
			res.CloseRets = append(res.CloseRets, <-ch)
		}
	} else {
		for i := 0; i < n; i++ {
			res.CloseRets = append(res.CloseRets, doClose())
			if i == 0 {
				res.CloseMs = int(time.Since(t0) / time.Millisecond)
			}
		}
	}
	if res.CloseMs == 0 {
		res.CloseMs = int(time.Since(t0) / time.Millisecond)
	}
	closeReturned := time.Now()
	sessAtClose := len(cb.Sessions())
	ev("ECloseCall")
	if floodLabel >= 0 {
		// Close waited for wireConnMu until the pending metadata request's own context ended
		ev(fmt.Sprintf("ECtx %d", floodLabel))
		select {
		case res.PendingMeta = <-floodCh:
		case <-time.After(3 * time.Second):
			res.PendingMeta = 7
		}
	}
	if c.Outage == "dialfail" || c.Outage == "dialok" {
		for _, s := range cb.Sessions()[sessBefore:sessAtClose] {
			if cb.GenOf(s.Idx) < 0 {
				ev("EDial false")
			} else {
				ev("EDial true")
			}
		}
	}
	time.Sleep(20 * time.Millisecond) // stream contexts are cancelled by watcher goroutines
	if len(pendingClose) > 0 {
		dl := time.Now().Add(1500 * time.Millisecond) // pending stream Close calls return promptly after Conn.Close
		for _, ch := range pendingClose {
			select {
			case v := <-ch:
				res.PendingCloseRets = append(res.PendingCloseRets, v)
			case <-time.After(time.Until(dl)):
				res.PendingCloseRets = append(res.PendingCloseRets, 7)
			}
		}
	}

	// ---- pending operations return
	pendDeadline := time.After(3 * time.Second) // one watchdog for all of them
	for _, p := range pends {
		var cl int
		select {
		case cl = <-p.ch:
		case <-pendDeadline:
			cl = 7
			pendDeadline = time.After(time.Millisecond)
		}
		if p.stream >= 0 {
			res.StreamMatrix = append(res.StreamMatrix, [3]int{p.stream, p.api, cl})
		} else {
			res.ConnMatrix = append(res.ConnMatrix, [2]int{p.api, cl})
		}
	}

	// ---- after-close API matrix
	short := func() (context.Context, context.CancelFunc) {
		return context.WithTimeout(context.Background(), 120*time.Millisecond)
	}
	connAPIs := []int{0, 1, 2, 3, 4, 5, 6, 7}
	for _, a := range connAPIs {
		a := a
		cl := guarded(2*time.Second, func() error {
			ctx, cancel := short()
			defer cancel()
			var err error
			switch a {
			case 0:
				_, err = conn.OpenUpstream(ctx, "late")
			case 1:
				_, err = conn.OpenDownstream(ctx, []*message.DownstreamFilter{message.NewDownstreamFilterAllFor("late")})
			case 2:
				err = conn.SendBaseTime(ctx, &message.BaseTime{SessionID: "x", Name: "late", BaseTime: time.Unix(1700000000, 0)})
			case 3:
				_, err = conn.SendCall(ctx, &iscp.UpstreamCall{DestinationNodeID: "d", Name: "late", Type: "t"})
			case 4:
				_, err = conn.SendReplyCall(ctx, &iscp.UpstreamReplyCall{RequestCallID: "r", DestinationNodeID: "d", Name: "late", Type: "t"})
			case 5:
				_, err = conn.SendCallAndWaitReplayCall(ctx, &iscp.UpstreamCall{DestinationNodeID: "d", Name: "late", Type: "t"})
			case 6:
				_, err = conn.ReceiveCall(ctx)
			case 7:
				_, err = conn.ReceiveReplyCall(ctx)
			}
			return err
		})
		res.ConnMatrix = append(res.ConnMatrix, [2]int{a, cl})
	}
	// every e2e entry again, from 6 goroutines x 20 repetitions: a misclassification that depends on which
	// goroutine wins a race (the context watcher against the closed-status hook) shows reliably
	{
		var mm sync.Mutex
		seen := map[[2]int]bool{}
		var wgm sync.WaitGroup
		for _, a := range []int{3, 4, 5, 6, 7} {
			for w := 0; w < 6; w++ {
				a := a
				wgm.Add(1)
				go func() {
					defer wgm.Done()
					for k := 0; k < 20; k++ {
						cl := guarded(2*time.Second, func() error {
							ctx, cancel := short()
							defer cancel()
							var err error
							switch a {
							case 3:
								_, err = conn.SendCall(ctx, &iscp.UpstreamCall{DestinationNodeID: "d", Name: "late", Type: "t"})
							case 4:
								_, err = conn.SendReplyCall(ctx, &iscp.UpstreamReplyCall{RequestCallID: "r", DestinationNodeID: "d", Name: "late", Type: "t"})
							case 5:
								_, err = conn.SendCallAndWaitReplayCall(ctx, &iscp.UpstreamCall{DestinationNodeID: "d", Name: "late", Type: "t"})
							case 6:
								_, err = conn.ReceiveCall(ctx)
							case 7:
								_, err = conn.ReceiveReplyCall(ctx)
							}
							return err
						})
						mm.Lock()
						seen[[2]int{a, cl}] = true
						mm.Unlock()
					}
				}()
			}
		}
		wgm.Wait()
		var ks [][2]int
		for k := range seen {
			ks = append(ks, k)
		}
		sort.Slice(ks, func(i, j int) bool { return ks[i][0]*10+ks[i][1] < ks[j][0]*10+ks[j][1] })
		res.ConnMatrix = append(res.ConnMatrix, ks...) // one entry per distinct (entry, class) seen
	}
	for _, s := range streams {
		s := s
		apis := []int{9, 10, 11}
		if s.down {
			apis = []int{12, 13, 14}
		}
		for _, a := range apis {
			a := a
			if (a == 11 || a == 14) && c.ClosePending == "ack" && pendingCloseStream[s.label] {
				continue // its Close is the pending one
			}
			cl := guarded(2*time.Second, func() error {
				ctx, cancel := short()
				defer cancel()
				var err error
				switch a {
				case 9:
					err = s.up.WriteDataPoints(ctx, &message.DataID{Name: "d", Type: "t"}, &message.DataPoint{ElapsedTime: 9, Payload: []byte{9}})
				case 10:
					err = s.up.Flush(ctx)
				case 11:
					err = s.up.Close(ctx)
				case 12:
					_, err = s.dn.ReadDataPoints(ctx)
				case 13:
					_, err = s.dn.ReadMetadata(ctx)
				case 14:
					err = s.dn.Close(ctx)
				}
				return err
			})
			res.StreamMatrix = append(res.StreamMatrix, [3]int{s.label, a, cl})
		}
	}
	// unread items were queued at Close: every later read must fail, again and again
	for _, s := range streams {
		if !queuedStreams[s.label] {
			continue
		}
		s := s
		for k := 0; k < 16; k++ {
			for _, a := range []int{13, 12} {
				a := a
				cl := guarded(2*time.Second, func() error {
					ctx, cancel := short()
					defer cancel()
					var err error
					if a == 13 {
						_, err = s.dn.ReadMetadata(ctx)
					} else {
						_, err = s.dn.ReadDataPoints(ctx)
					}
					return err
				})
				res.StreamMatrix = append(res.StreamMatrix, [3]int{s.label, a, cl})
			}
		}
	}
	res.ConnMatrix = append(res.ConnMatrix, [2]int{8, doClose()})
	time.Sleep(10 * time.Millisecond)

	// ---- wire after Disconnect
	log := cb.Log()
	perSess := map[[2]int]int{}
	for _, x := range log {
		if (x.Kind == "closeup" || x.Kind == "closedown") && x.Label >= 0 {
			res.CloseReqs = append(res.CloseReqs, x.Label)
			perSess[[2]int{x.Sess, x.Label}]++
			if perSess[[2]int{x.Sess, x.Label}] > res.CloseReqMax {
				res.CloseReqMax = perSess[[2]int{x.Sess, x.Label}]
			}
		}
	}
	sort.Ints(res.CloseReqs)
	discSess, discN := -1, -1
	for _, x := range log {
		if x.Kind == "disconnect" && discSess < 0 {
			discSess, discN = x.Sess, x.N
		}
	}
	chunkBefore := map[int]bool{}
	for _, x := range log {
		if discSess >= 0 && x.Sess == discSess && x.N > discN {
			res.WireAfter++
			res.WireAfterWhat = append(res.WireAfterWhat, x.Kind)
		}
	}
	_ = chunkBefore
	// nothing of a stream may follow its close request: acks of items handed out after Close
	closedOn := map[int]map[int]bool{} // session -> labels whose close request was seen
	anyDownClosed := map[int]bool{}
	for _, x := range log {
		switch x.Kind {
		case "closeup", "closedown":
			if closedOn[x.Sess] == nil {
				closedOn[x.Sess] = map[int]bool{}
			}
			closedOn[x.Sess][x.Label] = true
			if x.Kind == "closedown" {
				anyDownClosed[x.Sess] = true
			}
		case "mack":
			if anyDownClosed[x.Sess] && len(queuedStreams) > 0 && !(discSess >= 0 && x.Sess == discSess && x.N > discN) {
				res.WireAfter++
				res.WireAfterWhat = append(res.WireAfterWhat, "mack-after-stream-close")
			}
		case "chunk", "dack":
			lbl := x.Label
			if x.Kind == "dack" {
				for _, s := range streams {
					if _, al, ok := cb.StreamID(s.label); ok && s.down && al == x.Alias {
						lbl = s.label
					}
				}
			}
			if lbl >= 0 && closedOn[x.Sess][lbl] && !(discSess >= 0 && x.Sess == discSess && x.N > discN) {
				res.WireAfter++
				res.WireAfterWhat = append(res.WireAfterWhat, x.Kind+"-after-stream-close")
			}
		}
	}
	for _, s := range cb.Sessions() {
		if len(s.Log()) > 0 && s.Log()[0].At.After(closeReturned) {
			res.ConnectsAfter++
		}
	}
	// model events of the close itself, with the schedule read off the log: a final flush seen after
	// the Disconnect happened between SendDisconnect's write and wireConn.Close()
	flushed := map[int]string{} // stream label -> "before" | "after"
	for _, x := range log {
		if x.Kind != "chunk" && x.Kind != "dack" {
			continue
		}
		lbl := x.Label
		if x.Kind == "dack" {
			for _, s := range streams {
				if id, al, ok := cb.StreamID(s.label); ok && s.down && al == x.Alias {
					_ = id
					lbl = s.label
				}
			}
		}
		if lbl < 0 {
			continue
		}
		if discSess >= 0 && x.Sess == discSess && x.N > discN {
			flushed[lbl] = "after"
		} else if _, ok := flushed[lbl]; !ok {
			flushed[lbl] = "before"
		}
	}
	var wBefore, wAfter, wLate []string
	for i, s := range streams {
		e := fmt.Sprintf("EWatch %d", s.label)
		switch {
		case pendingCloseStream[s.label] && c.ClosePending == "resp":
			wLate = append(wLate, e) // its flush happened inside the pending user Close
		case isIn(c.Buffered, i) && !closedFirst(i) && flushed[s.label] == "after":
			wAfter = append(wAfter, e)
		case isIn(c.Buffered, i) && !closedFirst(i) && flushed[s.label] == "before" && c.Outage == "":
			wBefore = append(wBefore, e)
		default:
			wLate = append(wLate, e)
		}
	}
	ev(wBefore...)
	ev("ECloseDisc")
	ev(wAfter...)
	ev("ECloseWire")
	// the pending close exchanges end with the wire connection; whether the closed event they register is
	// still delivered depends on whether the stream's dispatcher has already stopped (close watcher first)
	for _, e := range lateCloseResp {
		var lbl int
		fmt.Sscanf(e, "EStreamCloseResp %d", &lbl)
		delivered := broker.WaitFor(150*time.Millisecond, func() bool {
			mu.Lock()
			defer mu.Unlock()
			for _, x := range sclosed {
				if x[0] == lbl {
					return true
				}
			}
			return false
		})
		if !delivered {
			ev(fmt.Sprintf("EWatch %d", lbl))
		}
		ev(e)
	}
	ev(wLate...)
	for _, s := range streams {
		ev(fmt.Sprintf("ESup %d", s.label))
	}
	// expand the pending-call marker: the call notices the closed connection after Close
	var evs []string
	var late []string
	for _, e := range res.Evs {
		if strings.HasPrefix(e, "@fail ") {
			late = append(late, "EFail "+strings.TrimPrefix(e, "@fail "))
			continue
		}
		if e == "@loop" {
			// the run loop, released from wireConnMu, finds the connection closed: reconnect() refuses
			late = append(late, "ELoop")
			continue
		}
		evs = append(evs, e)
	}
	res.Evs = append(evs, late...)

	mu.Lock()
	res.DiscAfter, res.ReconnAfter = discAfter, reconnAfter
	res.SClosed = append([][2]int(nil), sclosed...)
	mu.Unlock()
	sort.Slice(res.SClosed, func(i, j int) bool {
		return res.SClosed[i][0]*2+res.SClosed[i][1] < res.SClosed[j][0]*2+res.SClosed[j][1]
	})

	// ---- goroutine census: close the peer side, poll up to 2 s
	for _, s := range cb.Sessions() {
		s.Link.Sever(memtr.Loud)
		s.Link.Server().Close()
	}
	deadline := time.Now().Add(2 * time.Second)
	var left map[string]string
	for {
		left = map[string]string{}
		for id, where := range libGoroutines() {
			if !knownLeaked[id] {
				left[id] = where
			}
		}
		if len(left) == 0 || time.Now().After(deadline) {
			break
		}
		time.Sleep(20 * time.Millisecond)
	}
	res.Leaked = len(left)
	seen := map[string]bool{}
	for id, where := range left {
		knownLeaked[id] = true
		if !seen[where] {
			seen[where] = true
			res.LeakedWhere = append(res.LeakedWhere, where)
		}
	}
	sort.Strings(res.LeakedWhere)
	return
}

// ---------------------------------------------------------------- child protocol

func childMain() {
	restore := verifhooks.RetrySetDefaultIntervals(3*time.Millisecond, 10*time.Millisecond)
	defer restore()
	in := bufio.NewReader(os.Stdin)
	dec := json.NewDecoder(in)
	out := bufio.NewWriter(os.Stdout)
	for {
		var j struct {
			Idx  int    `json:"idx"`
			Case caseIn `json:"case"`
		}
		if err := dec.Decode(&j); err != nil {
			return
		}
		fmt.Fprintf(out, "START %d\n", j.Idx)
		out.Flush()
		r := runCase(&j.Case)
		b, _ := json.Marshal(r)
		fmt.Fprintf(out, "RESULT %d %s\n", j.Idx, b)
		out.Flush()
	}
}

type job struct {
	c    *caseIn
	kind string
}

// runBatch runs jobs[idxs] in child processes; a crashed child costs the case it was running.
func runBatch(jobs []job, idxs []int, results []*resultOut) {
	for len(idxs) > 0 {
		cmd := exec.Command(os.Args[0], "-child")
		stdin, _ := cmd.StdinPipe()
		stdout, _ := cmd.StdoutPipe()
		var stderr bytes.Buffer
		cmd.Stderr = &stderr
		if err := cmd.Start(); err != nil {
			fmt.Fprintln(os.Stderr, "cannot start child:", err)
			os.Exit(2)
		}
		go func(idxs []int) {
			enc := json.NewEncoder(stdin)
			for _, i := range idxs {
				enc.Encode(map[string]interface{}{"idx": i, "case": jobs[i].c})
			}
			stdin.Close()
		}(idxs)
		started := -1
		sc := bufio.NewReader(stdout)
		// a child that makes no progress for 60 s is killed: the case it was running counts as hung
		progress := make(chan struct{}, 1)
		hung := false
		go func() {
			for {
				select {
				case _, ok := <-progress:
					if !ok {
						return
					}
				case <-time.After(60 * time.Second):
					hung = true
					cmd.Process.Kill()
					return
				}
			}
		}()
		for {
			line, err := sc.ReadString('\n')
			select {
			case progress <- struct{}{}:
			default:
			}
			if strings.HasPrefix(line, "START ") {
				fmt.Sscanf(line, "START %d", &started)
				if os.Getenv("VERIF_TRACE") != "" {
					b, _ := json.Marshal(jobs[started].c)
					fmt.Fprintf(os.Stderr, "START %d %s\n", started, b)
				}
			}
			if strings.HasPrefix(line, "RESULT ") {
				var idx int
				fmt.Sscanf(line, "RESULT %d", &idx)
				rest := strings.SplitN(strings.TrimSpace(line), " ", 3)
				var r resultOut
				if len(rest) == 3 && json.Unmarshal([]byte(rest[2]), &r) == nil {
					results[idx] = &r
				}
			}
			if err != nil {
				break
			}
		}
		close(progress)
		io.Copy(io.Discard, stdout)
		cmd.Wait()
		// drop finished ones; a started case without a result crashed the child
		var rest []int
		crashed := false
		for _, i := range idxs {
			if results[i] != nil {
				continue
			}
			if i == started && !crashed {
				crashed = true
				msg := stderr.String()
				first := msg
				if k := strings.Index(msg, "panic:"); k >= 0 {
					first = msg[k:]
				}
				if len(first) > 600 {
					first = first[:600]
				}
				if hung {
					results[i] = &resultOut{Harness: "the case did not finish within 60 s: a library call outside every watchdog never returned"}
					continue
				}
				results[i] = &resultOut{Panic: true, PanicMsg: first}
				continue
			}
			rest = append(rest, i)
		}
		if !crashed && len(rest) == len(idxs) {
			fmt.Fprintln(os.Stderr, "child made no progress:", stderr.String())
			os.Exit(2)
		}
		idxs = rest
	}
}

// model events of a case whose child crashed (nothing could be observed after the panic)
func crashEvs(c *caseIn) []string {
	var evs []string
	for i := 0; i < c.Ups+c.Downs; i++ {
		kd := "KOpenUp"
		if i >= c.Ups {
			kd = "KOpenDown"
		}
		evs = append(evs, fmt.Sprintf("EStart %d %s", i, kd), fmt.Sprintf("EWake %d", i), fmt.Sprintf("EResp %d", i))
	}
	evs = append(evs, "ELinkDown", "EDetect", "ELoop", "ECloseCall", "EDial true")
	return evs
}

func genRandom(r *rng.R) *caseIn {
	c := &caseIn{Ups: r.Intn(3), Downs: r.Intn(3), Closes: 1 + r.Intn(3), Concurrent: r.Bool(), PendingRead: r.Chance(1, 3), PendingCall: r.Chance(1, 3)}
	n := c.Ups + c.Downs
	for i := 0; i < n; i++ {
		if r.Chance(1, 3) {
			c.CloseFirst = append(c.CloseFirst, i)
		} else if r.Chance(1, 2) {
			c.Buffered = append(c.Buffered, i)
		}
	}
	if r.Chance(1, 4) {
		c.SlowWriteUs = 3000
	}
	if n > 0 && r.Chance(1, 3) {
		c.Overlap = []int{r.Intn(n)}
		c.OverlapN = 2 + r.Intn(2)
	}
	switch r.Intn(8) {
	case 0:
		c.Outage = "dialfail"
	case 1:
		c.Outage = "settled"
	case 2:
		c.Outage = "dialok"
	case 3:
		c.Outage = "guard"
	}
	if c.Outage != "" {
		c.Buffered = nil
		c.SlowWriteUs = 0
		if (c.Outage == "dialfail" || c.Outage == "dialok") && r.Chance(1, 2) {
			c.E2EPending = 20 + r.Intn(31)
		}
		if (c.Outage == "dialfail" || c.Outage == "dialok") && r.Chance(1, 2) {
			c.StreamPending = 1 + r.Intn(8)
		}
	} else if r.Chance(1, 6) {
		c.CallFlood = 9 + r.Intn(12)
	}
	if n > 0 && r.Chance(1, 5) {
		c.CloseRefused = []int{r.Intn(n)}
		c.RefuseCode = r.Intn(4)
	}
	if c.Outage == "" && n > 0 && r.Chance(1, 6) {
		c.ClosePending = []string{"ack", "resp"}[r.Intn(2)]
	}
	if c.Outage == "" && c.Ups > 0 && r.Chance(1, 6) {
		c.RaceWriters = 1 + r.Intn(8)
	}
	if c.Outage == "" {
		if r.Chance(1, 5) {
			c.PendingReply, c.PendingCall = true, false
		}
		if c.Downs > 0 && r.Chance(1, 4) {
			c.Queued = 8 + r.Intn(9)
		}
	}
	c.FullMatrix = r.Chance(1, 6)
	return c
}

func main() {
	seed := flag.Uint64("seed", 1, "seed")
	tier := flag.String("tier", "quick", "quick|thorough")
	out := flag.String("out", "", "output directory")
	replay := flag.String("replay", "", "replay file")
	child := flag.Bool("child", false, "internal: run cases read from stdin")
	flag.Parse()
	if *child {
		childMain()
		return
	}
	w := coqfmt.NewWriter(*out, "C10", "From Iscp Require Import Model.Conn.", "cl_case", "cl_judge", 60)
	r := rng.New(*seed)
	var jobs []job
	add := func(c *caseIn, kind string) { jobs = append(jobs, job{c, kind}) }
	if *replay != "" {
		b, err := os.ReadFile(*replay)
		if err != nil {
			fmt.Fprintln(os.Stderr, err)
			os.Exit(2)
		}
		var rf struct {
			Input caseIn `json:"input"`
		}
		if err := json.Unmarshal(b, &rf); err != nil {
			fmt.Fprintln(os.Stderr, err)
			os.Exit(2)
		}
		add(&rf.Input, "replay")
	} else {
		// systematic part
		for _, sh := range [][2]int{{0, 0}, {1, 0}, {0, 1}, {1, 1}, {2, 2}} {
			for _, closes := range []int{1, 2, 3} {
				for _, conc := range []bool{false, true} {
					if closes == 1 && conc {
						continue
					}
					add(&caseIn{Ups: sh[0], Downs: sh[1], Closes: closes, Concurrent: conc}, "plain")
				}
			}
			n := sh[0] + sh[1]
			if n > 0 {
				add(&caseIn{Ups: sh[0], Downs: sh[1], Closes: 1, CloseFirst: []int{0}}, "stream-close-first")
				add(&caseIn{Ups: sh[0], Downs: sh[1], Closes: 1, CloseFirst: []int{0, 1, 2, 3}}, "stream-close-first")
				add(&caseIn{Ups: sh[0], Downs: sh[1], Closes: 1, Overlap: []int{0}, OverlapN: 2}, "overlapping-stream-close")
				add(&caseIn{Ups: sh[0], Downs: sh[1], Closes: 2, Overlap: []int{0, 1, 2, 3}, OverlapN: 3, Buffered: []int{0, 1}}, "overlapping-stream-close")
				add(&caseIn{Ups: sh[0], Downs: sh[1], Closes: 1, Buffered: []int{0, 1, 2, 3}}, "buffered")
				if sh[1] > 0 {
					add(&caseIn{Ups: sh[0], Downs: sh[1], Closes: 1, Queued: 8 + 4*sh[1]}, "unread-items-at-conn-close")
					add(&caseIn{Ups: sh[0], Downs: sh[1], Closes: 2, Queued: 16, CloseFirst: []int{0, 1, 2, 3}}, "unread-items-at-stream-close")
				}
				add(&caseIn{Ups: sh[0], Downs: sh[1], Closes: 1 + sh[1]%2, Concurrent: sh[0] > 1, CallFlood: 9 + 3*(sh[0]+sh[1])}, "call-flood-during-close")
				add(&caseIn{Ups: sh[0], Downs: sh[1], Closes: 2, Buffered: []int{0, 1, 2, 3}, SlowWriteUs: 3000}, "buffered-slow-write")
				add(&caseIn{Ups: sh[0], Downs: sh[1], Closes: 1, PendingRead: true, PendingCall: true}, "pending")
				add(&caseIn{Ups: sh[0], Downs: sh[1], Closes: 1, Outage: "settled"}, "after-outage")
			}
			add(&caseIn{Ups: sh[0], Downs: sh[1], Closes: 1, Outage: "dialfail"}, "close-while-dial-fails")
			if sh[0]+sh[1] > 0 {
				add(&caseIn{Ups: sh[0], Downs: sh[1], Closes: 1, Outage: "dialfail", StreamPending: 1 + 7*(sh[0]%2)}, "stream-calls-pending-during-outage")
				add(&caseIn{Ups: sh[0], Downs: sh[1], Closes: 2, Concurrent: true, Outage: "dialok", StreamPending: 4}, "stream-calls-pending-during-outage")
			}
			if sh[0]+sh[1] > 0 {
				add(&caseIn{Ups: sh[0], Downs: sh[1], Closes: 1 + sh[0]%2, ClosePending: "resp"}, "stream-close-pending-at-conn-close")
				add(&caseIn{Ups: sh[0], Downs: sh[1], Closes: 1, CloseRefused: []int{0, 1, 2, 3}, RefuseCode: sh[0] + 2*sh[1]}, "stream-close-refused")
				add(&caseIn{Ups: sh[0], Downs: sh[1], Closes: 2, CloseRefused: []int{sh[0]}, RefuseCode: 1, Buffered: []int{0}}, "stream-close-refused")
			}
			if sh[0] > 0 {
				add(&caseIn{Ups: sh[0], Downs: sh[1], Closes: 1, RaceWriters: 1 + 3*sh[0]}, "writers-racing-stream-close")
				add(&caseIn{Ups: sh[0], Downs: sh[1], Closes: 1, ClosePending: "ack"}, "stream-close-pending-at-conn-close")
			}
			add(&caseIn{Ups: sh[0], Downs: sh[1], Closes: 1 + sh[1]%2, Outage: "dialfail", E2EPending: 20 + 6*(sh[0]+sh[1])}, "e2e-pending-during-outage")
			add(&caseIn{Ups: sh[0], Downs: sh[1], Closes: 1 + (sh[0]+sh[1])%2, Concurrent: sh[1] > 1, Outage: "dialok"}, "close-while-dialling")
			add(&caseIn{Ups: sh[0], Downs: sh[1], Closes: 1, Outage: "guard"}, "close-before-reconnect-guard")
			add(&caseIn{Ups: sh[0], Downs: sh[1], Closes: 1, PendingCall: true}, "pending")
			add(&caseIn{Ups: sh[0], Downs: sh[1], Closes: 1 + sh[0]%2, Concurrent: sh[1] > 1, PendingReply: true}, "pending-reply-no-deadline")
		}
		add(&caseIn{Closes: 1, Outage: "dialok", E2EPending: 50}, "e2e-pending-during-outage")
		add(&caseIn{Closes: 1, CallFlood: 9}, "call-flood-during-close")
		add(&caseIn{Closes: 2, CallFlood: 20}, "call-flood-during-close")
		add(&caseIn{Closes: 1, FullMatrix: true}, "full-matrix")
		add(&caseIn{Ups: 1, Downs: 1, Closes: 2, FullMatrix: true}, "full-matrix")
		add(&caseIn{Ups: 1, Downs: 1, Closes: 2, Concurrent: true, Outage: "dialok"}, "close-while-dialling")
		nrand := 40
		if *tier == "thorough" {
			nrand = 500
			for i := 0; i < 6; i++ {
				add(&caseIn{Ups: i % 3, Downs: (i + 1) % 3, Closes: 1 + i%2, Outage: "dialok"}, "close-while-dialling")
			}
		}
		for i := 0; i < nrand; i++ {
			add(genRandom(r.Fork()), "random")
		}
	}
	results := make([]*resultOut, len(jobs))
	workers := 10
	var wg sync.WaitGroup
	for wk := 0; wk < workers; wk++ {
		var idxs []int
		for i := wk; i < len(jobs); i += workers {
			idxs = append(idxs, i)
		}
		if len(idxs) == 0 {
			continue
		}
		wg.Add(1)
		go func(idxs []int) {
			defer wg.Done()
			runBatch(jobs, idxs, results)
		}(idxs)
	}
	wg.Wait()

	pairs := func(l [][2]int) string {
		var s []string
		for _, x := range l {
			s = append(s, fmt.Sprintf("(%d,%d)", x[0], x[1]))
		}
		return coqfmt.List(s)
	}
	for i, j := range jobs {
		res := results[i]
		direct := ""
		if res.Harness != "" {
			// never give up on an unexpected behaviour of the library: it is a direct violation of this case
			direct = "the history could not be driven to its Close: " + res.Harness
		}
		var cleanEvs []string
		for _, e := range res.Evs {
			if !strings.HasPrefix(e, "@") {
				cleanEvs = append(cleanEvs, e)
			}
		}
		res.Evs = cleanEvs
		var sigs []string
		if res.Panic {
			res.Evs = crashEvs(j.c)
			direct = "a goroutine of the library panicked (process crash): " + res.PanicMsg
		}
		if res.WireAfter > 0 {
			// the known shape: final flushes (chunk / downstream ack) of streams with buffered data; frequent behind a slow-return Write, rare without
			only := len(j.c.Buffered) > 0 && res.WireAfter <= j.c.Ups+j.c.Downs
			for _, k := range res.WireAfterWhat {
				if k != "chunk" && k != "dack" {
					only = false
				}
			}
			if only {
				sigs = append(sigs, "F11:final-flush-after-disconnect")
			}
		}
		var sm, sc, cr []string
		for _, x := range res.StreamMatrix {
			sm = append(sm, fmt.Sprintf("(%d,%d,%d)", x[0], x[1], x[2]))
		}
		for _, x := range res.SClosed {
			sc = append(sc, fmt.Sprintf("(%d,%s)", x[0], coqfmt.Bool(x[1] == 1)))
		}
		for _, x := range res.CloseRets {
			cr = append(cr, fmt.Sprint(x))
		}
		var crq []string
		for _, x := range res.CloseReqs {
			crq = append(crq, fmt.Sprint(x))
		}
		for _, x := range res.RefusedRets {
			if x != 3 {
				direct = fmt.Sprintf("a stream Close whose close request the broker refused returned class %d (expected the library's failed-message error)", x)
			}
		}
		for _, x := range res.PendingCloseRets {
			if x == 7 || x == 8 {
				direct = fmt.Sprintf("a stream Close that was pending when Conn.Close was called did not return within 1.5 s after it (class %d)", x)
			}
		}
		for k, x := range res.RaceRets {
			n := len(res.RaceRets)
			switch {
			case k < n-2 && x != 0 && x != 1:
				direct = fmt.Sprintf("a WriteDataPoints in flight while Upstream.Close ran returned class %d (neither accepted nor stream-closed; 7 = never returned)", x)
			case k == n-2 && x != 0 && x != 1:
				direct = fmt.Sprintf("the Flush under way while Upstream.Close ran returned class %d", x)
			case k == n-1 && x != 0:
				direct = fmt.Sprintf("Upstream.Close with writers in flight returned class %d", x)
			}
		}
		if res.PendingMeta == 7 || res.PendingMeta == 8 {
			direct = fmt.Sprintf("the pending SendBaseTime did not return after Close (class %d)", res.PendingMeta)
		}
		for _, rs := range res.OverlapRets {
			for _, x := range rs {
				if x == 7 || x == 8 {
					direct = fmt.Sprintf("an overlapping stream Close blocked or panicked (class %d)", x)
				}
			}
		}
		term := fmt.Sprintf("mkCl %s %s %s %d %d %d %d %s %s %d %d %s %s", coqfmt.List(res.Evs), pairs(res.ConnMatrix), coqfmt.List(sm),
			res.WireAfter, res.ConnectsAfter, res.DiscAfter, res.ReconnAfter, coqfmt.List(sc), coqfmt.List(crq), res.CloseReqMax, res.Leaked, coqfmt.Bool(res.Panic), coqfmt.List(cr))
		nt := j.c.Ups+j.c.Downs >= 1 && (len(j.c.CloseFirst) > 0 || len(j.c.Overlap) > 0 || len(j.c.Buffered) > 0 || j.c.PendingRead || j.c.PendingCall || j.c.Outage != "" || j.c.Closes > 1)
		w.Add(coqfmt.Case{Term: term, Input: j.c, Observed: res, Seed: uint64(i), Nontrivial: nt, Kind: j.kind, Direct: direct, Sig: strings.Join(sigs, " ")})
		w.Count(fmt.Sprintf("streams:%d", j.c.Ups+j.c.Downs))
		w.Count(fmt.Sprintf("closes:%d/concurrent:%v", j.c.Closes, j.c.Concurrent))
		if j.c.Outage != "" {
			w.Count("outage:" + j.c.Outage)
			if res.GuardMissed {
				w.Count("guard-window-missed")
			}
		}
	}
	rule := "systematic: stream shapes {0, 1 up, 1 down, 1+1, 2+2} x {1, 2, 3 Close calls, sequential and concurrent} x {plain, stream closed first, unflushed data / unacknowledged reads (also with a 3 ms slow-return transport Write), pending read and call, outage survived, Close while the redial fails, Close while the redial succeeds}, plus random combinations; every case ends with the after-close API matrix, the wire log after Disconnect, event counts and a goroutine census. non-trivial = at least one stream and one of {stream closed first, buffered data, pending operation, outage, repeated Close}; distinct = distinct Coq case terms"
	if err := w.Flush(*seed, *tier, rule, false, nil); err != nil {
		fmt.Fprintln(os.Stderr, err)
		os.Exit(2)
	}
}

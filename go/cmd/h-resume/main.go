// h-resume: correspondence harness for C02 (reliable upstream across disconnect and resume) against
// Model/Resume.v.  Fault scripts are executed on the REAL library: iscp.Connect / OpenUpstream /
// WriteDataPoints / Flush / Close over the in-memory transport (memtr) whose link the scripted
// broker severs at chosen message boundaries (loudly or silently); redials are gated so that the
// outage is long enough for the stream to notice; resume requests are answered with the scripted
// outcome (success, conflict-then-success, refusal, cut).  Only FINAL projected observables are
// compared: the union ledger per (stream id, sequence number) over all incarnations, the stream
// ids in resume requests, close totals, closed events, the final storage content and State().
package main

import (
	"context"
	"encoding/json"
	"errors"
	"flag"
	"fmt"
	"hash/crc32"
	"os"
	"sort"
	"strings"
	"sync"
	"sync/atomic"
	"time"

	iscperrors "github.com/aptpod/iscp-go/errors"
	"github.com/aptpod/iscp-go/iscp"
	"github.com/aptpod/iscp-go/message"
	"github.com/aptpod/iscp-go/transport"
	"github.com/aptpod/iscp-go/verifhooks"
	uuid "github.com/google/uuid"

	"verif/internal/broker"
	"verif/internal/coqfmt"
	"verif/internal/memtr"
	"verif/internal/rng"
)

const wd = 4 * time.Second // watchdog for every library call and every awaited effect

// ---------------------------------------------------------------- case description (JSON, replayable)

type stepIn struct {
	Op      string   `json:"op"` // write flush ack cut detect pwrite redial resume close
	ID      int      `json:"id,omitempty"`
	Lens    []int    `json:"lens,omitempty"`
	Ranks   []int    `json:"ranks,omitempty"`   // ack: ranks among the outstanding chunks (oldest first); nil = all
	Aliases [][2]int `json:"aliases,omitempty"` // ack: (alias, data id)
	Silent  bool     `json:"silent,omitempty"`  // cut
	Outcome string   `json:"outcome,omitempty"` // resume: ok conflict refused cut
	CutAt   int      `json:"cutat,omitempty"`   // resume ok: sever (loudly) on receiving the k-th resent chunk (1-based), 0 = never
	CloseAt int      `json:"closeat,omitempty"` // resume ok: the application calls Close while the resend loop stands between the k-th and the next resent chunk
	Window  bool     `json:"window,omitempty"`  // resume ok: a SECOND failure (cut, detection, redial) happens between the resume response and the start of the resumed run
	HoldMs  int      `json:"holdms,omitempty"`  // resume ok: the broker withholds the ack of the first resent chunk for this long (the script goes on afterwards)
}

type caseIn struct {
	Keep     bool     `json:"keep"` // payload-keeping storage injected (false = inmemSentStorageNoPayload, the former default)
	Reliable bool     `json:"reliable"`
	Policy   string   `json:"policy"` // none size immediate
	Thresh   int      `json:"thresh"`
	Rev0     [][2]int `json:"rev0"`
	Steps    []stepIn `json:"steps"`
	Siblings []string `json:"siblings,omitempty"` // other upstreams on the same connection ("unreliable", "partial"): environment, not under test;
	// after a redial the broker answers THEIR resume requests first (their new run clears their stored chunks)
	// regression label only: the run started on the dead connection inside the resume window ends at once; its
	// result loop used to clean up asynchronously and could close the ack waiters of the NEXT run (finding F44,
	// fixed in /repo e9acd3a: a run now waits for its result and alias loops).  Every window case answers the
	// following resume request at once; these cases repeat the script that used to hit the race.
	LateCleanupProbe bool `json:"latecleanupprobe,omitempty"`
	ExpiryMs     int  `json:"expiryms,omitempty"`     // WithUpstreamExpiryInterval (0 = the default, 10 s)
	AckTimeoutMs int  `json:"acktimeoutms,omitempty"` // WithUpstreamAckTimeout (0 = the default: none)
	SliceMode int     `json:"slicemode,omitempty"` // 1 reuse one slice, 2 windows of one array, 3 fresh slices; 0 = derived
	// ElMode: ElapsedTime of successive points (write order per data id must be kept whatever the elapsed
	// times are): 1 strictly increasing, 2 random in -4..19 (duplicates, negative values), 3 strictly
	// decreasing, 4 sawtooth 30,10,20,7,3,5,5 (+40 per round); 0 = derived from the case (elmode())
	ElMode int `json:"elmode,omitempty"`
}

// ---------------------------------------------------------------- wrappers

type hookPolicy struct {
	real    iscp.FlushPolicy
	tick    chan time.Time
	isFlush chan bool
}

func (p *hookPolicy) Ticker() (<-chan time.Time, func()) { return p.tick, func() {} }
func (p *hookPolicy) IsFlush(size uint32) bool {
	r := p.real.IsFlush(size)
	select {
	case p.isFlush <- r:
	default:
	}
	return r
}

func realPolicy(c *caseIn) iscp.FlushPolicy {
	var cfg iscp.UpstreamConfig
	switch c.Policy {
	case "size":
		iscp.WithUpstreamFlushPolicyBufferSizeOnly(uint32(c.Thresh))(&cfg)
	case "immediate":
		iscp.WithUpstreamFlushPolicyImmediately()(&cfg)
	default:
		iscp.WithUpstreamFlushPolicyNone()(&cfg)
	}
	return cfg.FlushPolicy
}

// pauseLogger is a log.Logger (public ConnOption) that can stop the library inside its
// "Resent data point groups" debug message: the resend loop of run(isResume) emits it after each
// retransmitted chunk has been acknowledged and before the next one is registered.
type pauseLogger struct {
	mu      sync.Mutex
	count   int
	at      int
	paused  chan struct{}
	release chan struct{}

	infoArmed   bool
	infoPaused  chan struct{}
	infoRelease chan struct{}
}

func (l *pauseLogger) Infof(_ context.Context, format string, _ ...any) {
	// the supervisor of an upstream logs this between the resume exchange and the start of the resumed run
	if !strings.HasPrefix(format, "Succeeded in resuming upstream") {
		return
	}
	l.mu.Lock()
	hit := l.infoArmed
	l.infoArmed = false
	paused, release := l.infoPaused, l.infoRelease
	l.mu.Unlock()
	if hit {
		close(paused)
		select {
		case <-release:
		case <-time.After(3 * wd):
		}
	}
}
func (l *pauseLogger) armInfo() {
	l.mu.Lock()
	l.infoArmed, l.infoPaused, l.infoRelease = true, make(chan struct{}), make(chan struct{})
	l.mu.Unlock()
}
func (l *pauseLogger) Warnf(context.Context, string, ...any)  {}
func (l *pauseLogger) Errorf(context.Context, string, ...any) {}
func (l *pauseLogger) Debugf(_ context.Context, format string, _ ...any) {
	if !strings.HasPrefix(format, "Resent data point groups") {
		return
	}
	l.mu.Lock()
	l.count++
	hit := l.at > 0 && l.count == l.at
	paused, release := l.paused, l.release
	l.mu.Unlock()
	if hit {
		close(paused)
		select {
		case <-release:
		case <-time.After(3 * wd):
		}
	}
}
func (l *pauseLogger) arm(k int) {
	l.mu.Lock()
	l.count, l.at, l.paused, l.release = 0, k, make(chan struct{}), make(chan struct{})
	l.mu.Unlock()
}

type logStorage struct {
	iscp.VerifSentStorage
	stored  chan uint32
	mu      sync.Mutex
	removed []uint32
	all     []uint32 // every sequence number ever stored (of the stream under test)
	main    uuid.UUID
	clears  atomic.Int32
	lists   atomic.Int32 // List/Clear calls made by the library (run(isResume))
}

func (s *logStorage) List(ctx context.Context, id uuid.UUID) (map[uint32]iscp.DataPointGroups, error) {
	m, err := s.VerifSentStorage.List(ctx, id)
	if id == s.main {
		s.lists.Add(1)
	}
	return m, err
}
func (s *logStorage) Clear(ctx context.Context, id uuid.UUID) error {
	err := s.VerifSentStorage.Clear(ctx, id)
	s.clears.Add(1)
	if id == s.main {
		s.lists.Add(1)
	}
	return err
}

func (s *logStorage) Store(ctx context.Context, id uuid.UUID, seq uint32, d iscp.DataPointGroups) error {
	err := s.VerifSentStorage.Store(ctx, id, seq, d)
	if id != s.main {
		return err // a sibling stream: environment
	}
	s.mu.Lock()
	s.all = append(s.all, seq)
	s.mu.Unlock()
	select {
	case s.stored <- seq:
	default:
	}
	return err
}
func (s *logStorage) Remove(ctx context.Context, id uuid.UUID, seq uint32) (iscp.DataPointGroups, error) {
	g, err := s.VerifSentStorage.Remove(ctx, id, seq)
	if err == nil && id == s.main {
		s.mu.Lock()
		s.removed = append(s.removed, seq)
		s.mu.Unlock()
	}
	return g, err
}
func (s *logStorage) removedSet() map[uint32]bool {
	s.mu.Lock()
	defer s.mu.Unlock()
	m := map[uint32]bool{}
	for _, q := range s.removed {
		m[q] = true
	}
	return m
}

// ---------------------------------------------------------------- observation

type ptT struct{ el, dig, ln uint64 }

func dig(b []byte) uint64 {
	if len(b) == 0 {
		return 0
	}
	return uint64(crc32.ChecksumIEEE(b))%9973 + 1
}
func ptOf(p *message.DataPoint) ptT {
	return ptT{uint64(p.ElapsedTime), dig(p.Payload), uint64(len(p.Payload))}
}
func ptsTerm(ps []ptT) string {
	var s []string
	for _, p := range ps {
		s = append(s, fmt.Sprintf("(%d,%d,%d)", p.el, p.dig, p.ln))
	}
	return coqfmt.List(s)
}

type grp struct {
	id  int
	pts []ptT
}

func groupsTerm(gs []grp) string {
	var s []string
	for _, g := range gs {
		s = append(s, fmt.Sprintf("(%d,%s)", g.id, ptsTerm(g.pts)))
	}
	return coqfmt.List(s)
}

type rxT struct {
	inc     int
	seq     uint32
	content string // canonical term of the decoded groups
	stripped bool  // some point arrived without payload
}

type resumeReq struct {
	s   *broker.Session
	msg *message.UpstreamResumeRequest
}

type env struct {
	mu        sync.Mutex
	idOf      map[message.DataID]int
	dataID    map[int]*message.DataID
	aliasTbl  map[uint32]int
	streamID  uuid.UUID
	incOf     map[*broker.Session]int
	ninc      int
	rx        []rxT
	brokerAck map[uint32]bool // seqs the broker has acknowledged
	autoAck   bool            // acknowledge every chunk on reception
	resend    map[uint32]bool // seqs expected to be resent in the current incarnation (acknowledged on reception)
	resendN   int
	cutAt     int
	holdResendAck bool
	nopen     int
	sibIDs    []uuid.UUID
	sibResume chan resumeReq
	resendLog []uint32
	resumeCh  chan resumeReq
	resumeIDs []uuid.UUID
	closeReq  [][2]uint64
	closedEv  []bool
	alias     uint32
	gateOpen  atomic.Bool
	gateHits  atomic.Int32
}

func (e *env) did(id int) *message.DataID {
	if d, ok := e.dataID[id]; ok {
		return d
	}
	d := &message.DataID{Name: fmt.Sprintf("n%d", id), Type: "t"}
	e.dataID[id] = d
	e.idOf[*d] = id
	return d
}

// decoded groups of a received chunk, sorted by data id (caller holds e.mu)
func (e *env) decode(gs []*message.DataPointGroup) ([]grp, bool) {
	var out []grp
	stripped := false
	for _, g := range gs {
		x := grp{id: 900000}
		switch v := g.DataIDOrAlias.(type) {
		case *message.DataID:
			if id, ok := e.idOf[*v]; ok {
				x.id = id
			}
		case message.DataIDAlias:
			x.id = 900001
			if id, ok := e.aliasTbl[uint32(v)]; ok {
				x.id = id
			}
		}
		for _, p := range g.DataPoints {
			x.pts = append(x.pts, ptOf(p))
			if len(p.Payload) == 0 {
				stripped = true
			}
		}
		out = append(out, x)
	}
	sort.SliceStable(out, func(i, j int) bool { return out[i].id < out[j].id })
	return out, stripped
}

type snapT struct {
	seq   uint32
	total uint64
	buf   []grp
}

func (e *env) snapshot(u *iscp.Upstream) snapT {
	st := u.State()
	var gs []grp
	for _, g := range st.DataPointsBuffer {
		e.mu.Lock()
		id, ok := e.idOf[*g.DataID]
		e.mu.Unlock()
		if !ok {
			id = 900000
		}
		x := grp{id: id}
		for _, p := range g.DataPoints {
			x.pts = append(x.pts, ptOf(p))
		}
		gs = append(gs, x)
	}
	sort.SliceStable(gs, func(i, j int) bool { return gs[i].id < gs[j].id })
	return snapT{st.LastIssuedSequenceNumber, st.TotalDataPoints, gs}
}

// ---------------------------------------------------------------- one case

type result struct {
	term      string
	observed  map[string]interface{}
	direct    string
	sig       string
	discard   string // timing ambiguity: the case is re-run
	outages   int
	unackedAtCut bool
	writeAfter   bool
	retrans   int
}

func call(f func() error) (err error, blocked bool) {
	ch := make(chan error, 1)
	go func() { ch <- f() }()
	select {
	case err = <-ch:
		return err, false
	case <-time.After(wd):
		return nil, true
	}
}

// j2mode derives the producer's slice discipline from the case itself (stable under -replay)
func j2mode(c *caseIn) uint64 {
	if c.SliceMode > 0 {
		return uint64(c.SliceMode - 1)
	}
	return uint64(len(c.Steps)+len(c.Rev0)+c.Thresh) % 3
}

// elmode derives the elapsed-time discipline from the case itself (stable under -replay)
func elmode(c *caseIn) int {
	if c.ElMode > 0 {
		return c.ElMode - 1
	}
	return (len(c.Steps) + 2*len(c.Rev0) + c.Thresh) % 4
}

// elOf is the ElapsedTime of the n-th point (n from 1) of a case
func elOf(mode int, n uint64, r *rng.R) int64 {
	switch mode {
	case 1:
		return int64(r.Intn(24)) - 4
	case 2:
		return 1_000_000 - int64(n)
	case 3:
		k := n - 1
		return []int64{30, 10, 20, 7, 3, 5, 5}[k%7] + 40*int64(k/7)
	}
	return int64(n)
}

func expiryOpt(c *caseIn) iscp.UpstreamOption {
	if c.ExpiryMs > 0 {
		return iscp.WithUpstreamExpiryInterval(time.Duration(c.ExpiryMs) * time.Millisecond)
	}
	return func(*iscp.UpstreamConfig) {}
}

type pendingWrite struct {
	term string
	done chan error
}

func runCase(c *caseIn, r *rng.R) (res result) {
	e := &env{idOf: map[message.DataID]int{}, dataID: map[int]*message.DataID{}, aliasTbl: map[uint32]int{},
		streamID: uuid.New(), incOf: map[*broker.Session]int{}, brokerAck: map[uint32]bool{}, resend: map[uint32]bool{},
		resumeCh: make(chan resumeReq, 16), sibResume: make(chan resumeReq, 16), alias: 1}
	for range c.Siblings {
		e.sibIDs = append(e.sibIDs, uuid.New())
	}
	rev0 := map[uint32]*message.DataID{}
	for _, ia := range c.Rev0 {
		rev0[uint32(ia[1])] = e.did(ia[0])
		e.aliasTbl[uint32(ia[1])] = ia[0]
	}
	b := broker.New(func(s *broker.Session, m message.Message) {
		switch v := m.(type) {
		case *message.ConnectRequest:
			e.mu.Lock()
			e.incOf[s] = e.ninc
			e.ninc++
			e.mu.Unlock()
			broker.AcceptConnect(s, v)
		case *message.UpstreamOpenRequest:
			e.mu.Lock()
			k := e.nopen
			e.nopen++
			e.mu.Unlock()
			if k > 0 { // a sibling upstream: its own stream id, aliases from 50
				s.Send(&message.UpstreamOpenResponse{RequestID: v.RequestID, AssignedStreamID: e.sibIDs[k-1], AssignedStreamIDAlias: uint32(50 + k),
					ResultCode: message.ResultCodeSucceeded, ServerTime: time.Unix(1700000000, 0)})
				return
			}
			s.Send(&message.UpstreamOpenResponse{RequestID: v.RequestID, AssignedStreamID: e.streamID, AssignedStreamIDAlias: 1,
				ResultCode: message.ResultCodeSucceeded, ServerTime: time.Unix(1700000000, 0), DataIDAliases: rev0})
		case *message.UpstreamChunk:
			if v.StreamIDAlias >= 50 {
				return // a sibling's chunk: neither recorded nor acknowledged
			}
			e.mu.Lock()
			gs, stripped := e.decode(v.StreamChunk.DataPointGroups)
			seq := v.StreamChunk.SequenceNumber
			e.rx = append(e.rx, rxT{e.incOf[s], seq, groupsTerm(gs), stripped})
			ack := e.autoAck
			sever := false
			if e.resend[seq] {
				delete(e.resend, seq)
				e.resendN++
				e.resendLog = append(e.resendLog, seq)
				if e.cutAt > 0 && e.resendN == e.cutAt {
					sever = true
				} else if !e.holdResendAck {
					ack = true
				}
			}
			if ack && !sever {
				e.brokerAck[seq] = true
			}
			alias := e.alias
			e.mu.Unlock()
			if sever {
				e.gateOpen.Store(false)
				s.Link.Sever(memtr.Loud)
			} else if ack {
				s.Send(&message.UpstreamChunkAck{StreamIDAlias: alias, Results: []*message.UpstreamChunkResult{{SequenceNumber: seq, ResultCode: message.ResultCodeSucceeded}}})
			}
		case *message.UpstreamResumeRequest:
			for _, id := range e.sibIDs {
				if v.StreamID == id {
					e.sibResume <- resumeReq{s, v}
					return
				}
			}
			e.mu.Lock()
			e.resumeIDs = append(e.resumeIDs, v.StreamID)
			e.mu.Unlock()
			e.resumeCh <- resumeReq{s, v}
		case *message.UpstreamCloseRequest:
			for _, id := range e.sibIDs {
				if v.StreamID == id {
					s.Send(&message.UpstreamCloseResponse{RequestID: v.RequestID, ResultCode: message.ResultCodeSucceeded})
					return
				}
			}
			e.mu.Lock()
			e.closeReq = append(e.closeReq, [2]uint64{v.TotalDataPoints, uint64(v.FinalSequenceNumber)})
			e.mu.Unlock()
			s.Send(&message.UpstreamCloseResponse{RequestID: v.RequestID, ResultCode: message.ResultCodeSucceeded})
		}
	})
	defer b.Release()
	e.gateOpen.Store(true)
	b.OnDial = func(idx int, _ transport.DialConfig) error {
		if idx == 0 {
			return nil
		}
		e.gateHits.Add(1)
		if !e.gateOpen.Load() {
			return errors.New("verif broker: dial refused (gate closed)")
		}
		return nil
	}

	pol := &hookPolicy{real: realPolicy(c), tick: make(chan time.Time), isFlush: make(chan bool, 256)}
	var inner iscp.VerifSentStorage
	if c.Keep {
		inner = iscp.VerifNewInmemSentStorage()
	} else {
		inner = iscp.VerifNewInmemSentStorageNoPayload() // the no-payload class (the default before /repo f1380ca); not generated any more
	}
	st := &logStorage{VerifSentStorage: inner, stored: make(chan uint32, 4096), main: e.streamID}
	plog := &pauseLogger{}
	var conn *iscp.Conn
	err, blocked := call(func() error {
		var err error
		conn, err = iscp.Connect(b.Address, broker.TransportName, iscp.VerifWithSentStorage(st), iscp.WithConnLogger(plog),
			iscp.WithConnPingInterval(10*time.Millisecond), iscp.WithConnPingTimeout(40*time.Millisecond))
		return err
	})
	if blocked || err != nil {
		res.direct = fmt.Sprintf("harness: connect failed: %v blocked=%v", err, blocked)
		return
	}
	defer func() {
		e.gateOpen.Store(false)
		ctx, cancel := context.WithTimeout(context.Background(), time.Second)
		go func() { defer cancel(); conn.Close(ctx) }()
	}()
	qos := message.QoSReliable
	if !c.Reliable {
		qos = message.QoSUnreliable
	}
	var up *iscp.Upstream
	err, blocked = call(func() error {
		ctx, cancel := context.WithTimeout(context.Background(), wd)
		defer cancel()
		var err error
		up, err = conn.OpenUpstream(ctx, "sess", iscp.WithUpstreamFlushPolicy(pol), iscp.WithUpstreamQoS(qos),
			iscp.WithUpstreamCloseTimeout(2*time.Second), iscp.WithUpstreamAckTimeout(time.Duration(c.AckTimeoutMs)*time.Millisecond), expiryOpt(c),
			iscp.WithUpstreamClosedEventHandler(iscp.UpstreamClosedEventHandlerFunc(func(ev *iscp.UpstreamClosedEvent) {
				e.mu.Lock()
				e.closedEv = append(e.closedEv, ev.Err != nil)
				e.mu.Unlock()
			})))
		return err
	})
	if blocked || err != nil {
		res.direct = fmt.Sprintf("harness: open failed: %v blocked=%v", err, blocked)
		return
	}
	// sibling upstreams on the same connection and the same sent storage: each keeps one unacknowledged chunk
	for k, sq := range c.Siblings {
		q := message.QoSUnreliable
		if sq == "partial" {
			q = message.QoSPartial
		}
		err, blocked := call(func() error {
			ctx, cancel := context.WithTimeout(context.Background(), wd)
			defer cancel()
			su, err := conn.OpenUpstream(ctx, fmt.Sprintf("sib%d", k), iscp.WithUpstreamFlushPolicyNone(), iscp.WithUpstreamQoS(q))
			if err != nil {
				return err
			}
			if err := su.WriteDataPoints(ctx, &message.DataID{Name: "sib", Type: "t"}, &message.DataPoint{ElapsedTime: 1, Payload: []byte{1, 2}}); err != nil {
				return err
			}
			return su.Flush(ctx)
		})
		if blocked || err != nil {
			res.direct = fmt.Sprintf("harness: sibling open failed: %v blocked=%v", err, blocked)
			return
		}
	}
	sibN := 0
	sibSeq := func() int { sibN++; return sibN }
	sibAnswered := -1 // incarnation in which the siblings' resume requests have been answered
	var closeDone chan error

	var evT, retT []string
	emit := func(ev string, ret int) {
		evT = append(evT, ev)
		retT = append(retT, fmt.Sprint(ret))
	}
	sawWindow := false
	bad := func(msg string) result {
		res.direct = msg
		if sawWindow && res.sig == "" && (strings.Contains(msg, "stayed in the sent storage") || strings.Contains(msg, "not processed within the watchdog")) {
			res.sig = "F44:late-cleanup-of-the-previous-run" // regression label (fixed in /repo e9acd3a)
		}
		return res
	}
	discard := func(msg string) result { res.discard = msg; return res }
	retOf := func(err error) int {
		if err != nil {
			return 1
		}
		return 0
	}
	var elapsed uint64
	linkUp := true
	streamClosed := false
	inc := 0
	outstanding := map[uint32]bool{} // received by the broker in the current incarnation, not yet acknowledged
	var unackedT, pend []string
	_ = pend
	var pending []*pendingWrite
	expectHits := int32(0)
	earlyOps := 0 // API calls made between the last cut and its detection
	needResume := false
	var cutStored []int
	timedOut := map[uint32]bool{} // chunks removed by the CONFIGURED ack timeout on a live connection (by design)
	// a chunk may leave the sent storage only through an acknowledgement or a configured ack timeout
	unexpectedRemovals := func() []string {
		var drops []string
		e.mu.Lock()
		for q := range st.removedSet() {
			if !e.brokerAck[q] && !timedOut[q] {
				drops = append(drops, fmt.Sprint(q))
			}
		}
		e.mu.Unlock()
		sort.Strings(drops)
		return drops
	}
	// from the broker's side: every chunk cut so far that it has not acknowledged (and whose ack did not time out)
	unackedNow := func() []int {
		st.mu.Lock()
		all := append([]uint32(nil), st.all...)
		st.mu.Unlock()
		var us []int
		seen := map[uint32]bool{}
		e.mu.Lock()
		for _, q := range all {
			if !seen[q] && !e.brokerAck[q] && !timedOut[q] {
				seen[q] = true
				us = append(us, int(q))
			}
		}
		e.mu.Unlock()
		sort.Ints(us)
		return us
	}

	spurious := func() bool { return linkUp && e.gateHits.Load() != expectHits }
	arrived := func(seq uint32) bool {
		return broker.WaitFor(wd, func() bool {
			e.mu.Lock()
			defer e.mu.Unlock()
			for _, x := range e.rx {
				if x.inc == inc && x.seq == seq {
					return true
				}
			}
			return false
		})
	}
	lost := ""
	noteStored := func(s uint32) {
		if linkUp {
			if !arrived(s) {
				lost = fmt.Sprintf("chunk %d was cut (stored) over a live link but never reached the broker", s)
			}
			outstanding[s] = true
		}
	}
	drainStored := func() {
		for {
			select {
			case s := <-st.stored:
				noteStored(s)
			default:
				return
			}
		}
	}
	waitStored := func() bool {
		select {
		case s := <-st.stored:
			noteStored(s)
			return true
		case <-time.After(wd):
			return false
		}
	}
	listStored := func() []int {
		m, _ := st.VerifSentStorage.List(context.Background(), e.streamID)
		var ks []int
		for k := range m {
			ks = append(ks, int(k))
		}
		sort.Ints(ks)
		return ks
	}
	afterWrite := func(err error) string {
		if err != nil {
			return ""
		}
		select {
		case f := <-pol.isFlush:
			if f {
				waitStored()
			}
		case <-time.After(wd):
			return "accepted write was never appended to the buffer (no IsFlush call within the watchdog)"
		}
		return ""
	}
	// The harness writes the way real producers do: sliceMode 0 reuses ONE slice variable for all
	// successive writes (buf[i] = p; WriteDataPoints(ctx, id, buf[:n]...)), sliceMode 1 passes windows of
	// one backing array with spare capacity, sliceMode 2 a fresh slice per write.  If the library keeps
	// the caller's slice instead of copying it, buffered or stored chunks then alias caller memory.
	sliceMode := int(j2mode(c))
	reuseBuf := make([]*message.DataPoint, 8)
	backing := make([]*message.DataPoint, 0, 4096)
	mkPointsMode := func(lens []int, mode int) ([]*message.DataPoint, []ptT) {
		var dps []*message.DataPoint
		var pts []ptT
		start := len(backing)
		for i, ln := range lens {
			elapsed++
			p := &message.DataPoint{ElapsedTime: time.Duration(elOf(elmode(c), elapsed, r)), Payload: r.Bytes(ln)}
			switch {
			case mode == 0 && i < len(reuseBuf):
				reuseBuf[i] = p
			case mode == 1:
				backing = append(backing, p)
			default:
				dps = append(dps, p)
			}
			pts = append(pts, ptOf(p))
		}
		switch {
		case mode == 0 && len(lens) <= len(reuseBuf):
			dps = reuseBuf[:len(lens)]
		case mode == 1:
			dps = backing[start:len(backing)]
		}
		return dps, pts
	}
	mkPoints := func(lens []int) ([]*message.DataPoint, []ptT) { return mkPointsMode(lens, sliceMode) }
	sendAck := func(aliases [][2]int, seqs []uint32) string {
		e.mu.Lock()
		ack := &message.UpstreamChunkAck{StreamIDAlias: e.alias, DataIDAliases: map[uint32]*message.DataID{}}
		for _, ai := range aliases {
			ack.DataIDAliases[uint32(ai[0])] = e.did(ai[1])
			e.aliasTbl[uint32(ai[0])] = ai[1]
		}
		for _, q := range seqs {
			ack.Results = append(ack.Results, &message.UpstreamChunkResult{SequenceNumber: q, ResultCode: message.ResultCodeSucceeded})
			e.brokerAck[q] = true
		}
		e.mu.Unlock()
		sess := b.Current()
		if err := sess.Send(ack); err != nil {
			return "harness: broker could not send ack: " + err.Error()
		}
		want := map[uint32]bool{}
		for _, ai := range aliases {
			want[uint32(ai[0])] = true
		}
		ok := broker.WaitFor(wd, func() bool {
			m, _ := st.VerifSentStorage.List(context.Background(), e.streamID)
			for _, q := range seqs {
				if _, still := m[q]; still {
					return false
				}
			}
			if len(want) > 0 {
				cur := up.State().DataIDAliases
				for a, d := range ack.DataIDAliases {
					has := false
					for _, x := range cur {
						if *x == *d {
							has = true
						}
					}
					_ = a
					if !has {
						return false
					}
				}
			}
			return true
		})
		if !ok {
			return fmt.Sprintf("ack %v not processed within the watchdog: chunk still in the sent storage or alias not applied", seqs)
		}
		for _, q := range seqs {
			delete(outstanding, q)
		}
		return ""
	}
	pairsTerm := func(a [][2]int) string {
		var s []string
		for _, x := range a {
			s = append(s, fmt.Sprintf("(%d,%d)", x[0], x[1]))
		}
		return coqfmt.List(s)
	}
	resultsTerm := func(seqs []uint32) string {
		var s []string
		for _, q := range seqs {
			s = append(s, fmt.Sprintf("(%d,%d)", q, int(message.ResultCodeSucceeded)))
		}
		return coqfmt.List(s)
	}
	sortedOutstanding := func() []uint32 {
		var o []uint32
		for q := range outstanding {
			o = append(o, q)
		}
		sort.Slice(o, func(i, j int) bool { return o[i] < o[j] })
		return o
	}
	doFlush := func() (string, bool) {
		err, blocked := call(func() error {
			ctx, cancel := context.WithTimeout(context.Background(), wd)
			defer cancel()
			return up.Flush(ctx)
		})
		if blocked {
			return "Flush did not return within the watchdog", true
		}
		drainStored()
		emit("EApi Flush", retOf(err))
		return "", false
	}
	// resolve writes that were issued while the stream was resuming
	settlePending := func() string {
		for _, p := range pending {
			select {
			case err := <-p.done:
				if err != nil && !errors.Is(err, iscperrors.ErrStreamClosed) {
					return "harness: pending write failed with " + err.Error()
				}
				emit(p.term, retOf(err))
				if msg := afterWrite(err); msg != "" {
					return msg
				}
				if err == nil {
					res.writeAfter = true
				}
			case <-time.After(wd):
				return "a WriteDataPoints issued during the outage did not return within the watchdog after the resume exchange"
			}
		}
		pending = nil
		return ""
	}

	for si := 0; si < len(c.Steps); si++ {
		op := c.Steps[si]
		if lost != "" {
			return bad(lost)
		}
		if spurious() {
			return discard("unexpected redial while the link was up (keepalive timed out under load)")
		}
		if !linkUp && (op.Op == "write" || op.Op == "flush") {
			earlyOps++
		}
		switch op.Op {
		case "write":
			dps, pts := mkPoints(op.Lens)
			e.mu.Lock()
			did := e.did(op.ID)
			e.mu.Unlock()
			err, blocked := call(func() error {
				ctx, cancel := context.WithTimeout(context.Background(), wd)
				defer cancel()
				return up.WriteDataPoints(ctx, did, dps...)
			})
			if blocked {
				if !linkUp {
					return discard("write after the cut blocked: the outage was noticed earlier than scripted")
				}
				return bad("WriteDataPoints did not return within the watchdog")
			}
			if err != nil && !linkUp && !streamClosed {
				return discard("write after the cut failed: " + err.Error())
			}
			if msg := afterWrite(err); msg != "" {
				return bad(msg)
			}
			emit(fmt.Sprintf("EApi (Write %d %s)", op.ID, ptsTerm(pts)), retOf(err))
		case "flush":
			if msg, _ := doFlush(); msg != "" {
				if !linkUp {
					return discard(msg)
				}
				return bad(msg)
			}
		case "ack":
			if !linkUp || streamClosed {
				continue
			}
			drainStored()
			outs := sortedOutstanding()
			var seqs []uint32
			if op.Ranks == nil {
				seqs = outs
			} else {
				for _, k := range op.Ranks {
					if k < len(outs) {
						seqs = append(seqs, outs[k])
					}
				}
			}
			if len(seqs) == 0 && len(op.Aliases) == 0 {
				continue
			}
			if msg := sendAck(op.Aliases, seqs); msg != "" {
				return bad(msg)
			}
			emit("EApi (Alias "+pairsTerm(op.Aliases)+")", 0)
			emit("EApi (Results "+resultsTerm(seqs)+")", 0)
		case "closebegin":
			// the application calls Close while chunks are unacknowledged: Close drains and waits for the acks
			if !linkUp || streamClosed || closeDone != nil {
				continue
			}
			drainStored()
			closeDone = make(chan error, 1)
			go func(ch chan error) {
				ctx, cancel := context.WithTimeout(context.Background(), wd)
				defer cancel()
				ch <- up.Close(ctx)
			}(closeDone)
			emit("EApi Close", 0)
			time.Sleep(20 * time.Millisecond)
			drainStored()
			select {
			case err := <-closeDone:
				return bad(fmt.Sprintf("Close returned (%v) although chunks %v are unacknowledged and the close timeout has not expired", err, listStored()))
			default:
			}
		case "closewait":
			if closeDone == nil {
				continue
			}
			var cerr error
			select {
			case cerr = <-closeDone:
			case <-time.After(2 * wd):
				return bad("a Close that was waiting for acks when the transport died did not return within the watchdog after the stream had resumed and every chunk was acknowledged")
			}
			closeDone = nil
			streamClosed = true
			emit("ECloseEnd", retOf(cerr))
		case "acktimeout":
			// a configured (small) ack timeout on a LIVE connection: the broker withholds the acks of the outstanding
			// chunks; the library removes each of them from the storage by design
			if !linkUp || streamClosed || c.AckTimeoutMs == 0 {
				continue
			}
			drainStored()
			for _, q := range sortedOutstanding() {
				q := q
				if !broker.WaitFor(wd, func() bool {
					m, _ := st.VerifSentStorage.List(context.Background(), e.streamID)
					_, still := m[q]
					return !still
				}) {
					return bad(fmt.Sprintf("chunk %d stayed in the sent storage although its ack was withheld for much longer than the configured ack timeout (%d ms)", q, c.AckTimeoutMs))
				}
				timedOut[q] = true
				delete(outstanding, q)
				emit(fmt.Sprintf("EAckTimeout %d", q), 0)
			}
		case "cut":
			if !linkUp {
				continue
			}
			drainStored()
			sess := b.Current()
			// sever right after a ping so that the next keepalive probe is a full interval away
			p0 := sess.Pings.Load()
			broker.WaitFor(200*time.Millisecond, func() bool { return sess.Pings.Load() != p0 })
			e.gateOpen.Store(false)
			mode := memtr.Loud
			if op.Silent {
				mode = memtr.Silent
			}
			sess.Link.Sever(mode)
			linkUp = false
			res.outages++
			cutStored = listStored()
			if len(cutStored) > 0 {
				res.unackedAtCut = true
			}
			emit("ELinkDown "+coqfmt.Bool(op.Silent), 0)
		case "detect":
			if linkUp {
				continue
			}
			// the early operations must all have happened before the client noticed
			if earlyOps > 0 && e.gateHits.Load() != expectHits {
				return discard("the client noticed the outage before the scripted early operations were over")
			}
			earlyOps = 0
			before := e.snapshot(up)
			if !broker.WaitFor(wd, func() bool { return e.gateHits.Load() != expectHits }) {
				return bad("the client never noticed the dead link (no redial attempt within the watchdog; keepalive 10 ms / 40 ms)")
			}
			// the stream watcher flips to Resuming and the flush loop does its final flush
			if len(before.buf) > 0 && !streamClosed {
				if !waitStored() {
					return bad("the final flush at cancellation did not cut the buffered points (no Store within the watchdog)")
				}
			}
			time.Sleep(4 * time.Millisecond)
			drainStored()
			outstanding = map[uint32]bool{}
			// cancellation must not remove anything from the storage (the former cancel race, F2): a chunk
			// removed although the broker never acknowledged it is a violation by itself
			if drops := unexpectedRemovals(); len(drops) > 0 {
				res.sig = "F2:unacknowledged-chunk-removed-at-cancellation"
				return bad(fmt.Sprintf("chunk(s) %v were removed from the sent storage although the broker never acknowledged them (no ack timeout configured for them): they will not be retransmitted", drops))
			}
			emit("EDetect", 0)
			// unacknowledged at the disconnect, from the broker's side: every chunk cut so far (also between
			// the cut and its detection) that the broker has not acknowledged
			var us []string
			for _, k := range unackedNow() {
				us = append(us, fmt.Sprint(k))
			}
			cutStored = nil
			unackedT = append(unackedT, fmt.Sprintf("(%d,%s)", inc, coqfmt.List(us)))
		case "pwrite":
			if linkUp || streamClosed || c.Policy != "none" {
				continue
			}
			dps, pts := mkPointsMode(op.Lens, 2) // a call in flight owns its slice: never reused meanwhile
			e.mu.Lock()
			did := e.did(op.ID)
			e.mu.Unlock()
			p := &pendingWrite{term: fmt.Sprintf("EApi (Write %d %s)", op.ID, ptsTerm(pts)), done: make(chan error, 1)}
			go func() {
				ctx, cancel := context.WithTimeout(context.Background(), 2*wd)
				defer cancel()
				p.done <- up.WriteDataPoints(ctx, did, dps...)
			}()
			time.Sleep(500 * time.Microsecond)
			pending = append(pending, p)
		case "redial":
			if linkUp {
				continue
			}
			if op.HoldMs > 0 {
				time.Sleep(time.Duration(op.HoldMs) * time.Millisecond) // a long outage: every dial is refused meanwhile
			}
			n0 := len(b.Sessions())
			e.gateOpen.Store(true)
			if !broker.WaitFor(wd, func() bool {
				if len(b.Sessions()) <= n0 {
					return false
				}
				e.mu.Lock()
				defer e.mu.Unlock()
				return e.ninc > inc+1
			}) {
				return bad("the connection did not redial within the watchdog after the broker accepted dials again")
			}
			expectHits = e.gateHits.Load()
			linkUp = true
			inc++
			needResume = !streamClosed
			emit("ERedial", 0)
		case "resume":
			if !linkUp || streamClosed || !needResume {
				continue
			}
			var rq resumeReq
			select {
			case rq = <-e.resumeCh:
			case <-time.After(wd):
				res.sig = "F9:stream-missed-the-outage"
				return bad("no UpstreamResumeRequest within the watchdog after the redial: the stream did not notice the outage or was not allowed to resume (e.g. while a Close is draining), or is stuck")
			}
			storedAtResume := listStored()
			if len(c.Siblings) > 0 && sibAnswered != inc {
				// the broker answers the siblings first: a non-reliable stream's new run clears ITS stored chunks
				c0 := st.clears.Load()
				for range c.Siblings {
					select {
					case sr := <-e.sibResume:
						sr.s.Send(&message.UpstreamResumeResponse{RequestID: sr.msg.RequestID, AssignedStreamIDAlias: uint32(60 + sibSeq()), ResultCode: message.ResultCodeSucceeded})
					case <-time.After(wd):
						return bad("harness: a sibling upstream sent no resume request")
					}
				}
				if !broker.WaitFor(wd, func() bool { return int(st.clears.Load()-c0) >= len(c.Siblings) }) {
					return bad("harness: the siblings' resumed runs did not clear their stored chunks")
				}
				sibAnswered = inc
			}
			switch op.Outcome {
			case "conflict":
				rq.s.Send(&message.UpstreamResumeResponse{RequestID: rq.msg.RequestID, ResultCode: message.ResultCodeResumeRequestConflict, ResultString: "conflict"})
				emit("EResume RConflict", 0)
			case "refused":
				rq.s.Send(&message.UpstreamResumeResponse{RequestID: rq.msg.RequestID, ResultCode: message.ResultCodeStreamNotFound, ResultString: "gone"})
				if !broker.WaitFor(wd, func() bool { e.mu.Lock(); defer e.mu.Unlock(); return len(e.closedEv) > 0 }) {
					return bad("a refused resume was not reported: no closed event within the watchdog")
				}
				streamClosed = true
				needResume = false
				emit("EResume RRefused", 0)
				if msg := settlePending(); msg != "" {
					return bad(msg)
				}
			case "cut":
				e.gateOpen.Store(false)
				rq.s.Link.Sever(memtr.Loud)
				linkUp = false
				res.outages++
				emit("ELinkDown false", 0)
				// the resume request fails when the connection notices; the stream is then cancelled
				if !broker.WaitFor(wd, func() bool {
					// closedness without writing: Flush of a closed stream fails at once; while the stream is
					// resuming there is no flush loop and the call ends with its context
					ctx, cancel := context.WithTimeout(context.Background(), time.Millisecond)
					defer cancel()
					return errors.Is(up.Flush(ctx), iscperrors.ErrStreamClosed)
				}) {
					return bad("after a cut resume exchange the stream neither resumed nor closed within the watchdog")
				}
				streamClosed = true
				needResume = false
				// the closed event carrying the cause is delivered asynchronously
				broker.WaitFor(wd/4, func() bool { e.mu.Lock(); defer e.mu.Unlock(); return len(e.closedEv) > 0 })
				emit("EResume RCut", 0)
				if msg := settlePending(); msg != "" {
					return bad(msg)
				}
			default: // ok
				e.mu.Lock()
				e.alias++
				alias := e.alias
				e.resend = map[uint32]bool{}
				e.resendN, e.cutAt, e.resendLog = 0, op.CutAt, nil
				e.holdResendAck = op.HoldMs > 0
				stored := storedAtResume // what was stored when the stream asked to resume (before any sibling was answered)
				if c.Reliable {
					for _, q := range stored {
						e.resend[uint32(q)] = true
					}
				}
				nexp := len(e.resend)
				e.mu.Unlock()
				needResume = false
				lists0 := st.lists.Load()
				if op.Window {
					plog.armInfo()
				}
				closeAt := 0
				if op.CloseAt > 0 && op.CloseAt < nexp {
					closeAt = op.CloseAt
					plog.arm(closeAt)
				}
				rq.s.Send(&message.UpstreamResumeResponse{RequestID: rq.msg.RequestID, AssignedStreamIDAlias: alias, ResultCode: message.ResultCodeSucceeded})
				emit("EResume ROk", 0)
				if op.Window {
					// the supervisor stands between the resume exchange and the start of the resumed run: a second
					// failure is detected by the connection and redialled meanwhile
					select {
					case <-plog.infoPaused:
					case <-time.After(wd):
						return bad("harness: the library did not log its resume success")
					}
					sess := b.Current()
					e.gateOpen.Store(false)
					sess.Link.Sever(memtr.Loud)
					linkUp = false
					res.outages++
					emit("ELinkDown false", 0)
					if !broker.WaitFor(wd, func() bool { return e.gateHits.Load() != expectHits }) {
						return bad("the client never noticed the second dead link (no redial attempt within the watchdog)")
					}
					n0 := len(b.Sessions())
					e.gateOpen.Store(true)
					if !broker.WaitFor(wd, func() bool {
						if len(b.Sessions()) <= n0 {
							return false
						}
						e.mu.Lock()
						defer e.mu.Unlock()
						return e.ninc > inc+1
					}) {
						return bad("the connection did not redial within the watchdog (second failure inside the resume window)")
					}
					expectHits = e.gateHits.Load()
					var us []string
					for _, k := range unackedNow() {
						us = append(us, fmt.Sprint(k))
					}
					unackedT = append(unackedT, fmt.Sprintf("(%d,%s)", inc, coqfmt.List(us)))
					linkUp = true
					inc++
					needResume = true
					emit("ERedial", 0)
					time.Sleep(2 * time.Millisecond)
					sawWindow = true
					close(plog.infoRelease)
					// the resumed run starts on the dead second connection and must notice at once
					emit("EDetect", 0)
					continue
				}
				// the new run lists (reliable) or clears (otherwise) the stream's stored chunks first
				if !broker.WaitFor(wd, func() bool { return st.lists.Load() != lists0 }) {
					return bad("after a successful resume the new run neither listed nor cleared the sent storage within the watchdog")
				}
				if msg := settlePending(); msg != "" {
					return bad(msg)
				}
				if op.HoldMs > 0 && nexp > 0 {
					// the broker receives the first resent chunk and withholds its ack: with no ack timeout configured the
					// resend loop waits, and the chunk stays stored however long that takes
					if !broker.WaitFor(wd, func() bool { e.mu.Lock(); defer e.mu.Unlock(); return len(e.resendLog) >= 1 }) {
						return bad(fmt.Sprintf("after a successful resume none of the %d stored chunks %v was transmitted again within the watchdog", nexp, stored))
					}
					e.mu.Lock()
					q := e.resendLog[0]
					e.mu.Unlock()
					res.retrans++
					emit(fmt.Sprintf("EResend %d", q), 0)
					time.Sleep(time.Duration(op.HoldMs) * time.Millisecond)
					e.mu.Lock()
					e.holdResendAck = false
					e.mu.Unlock()
					if c.AckTimeoutMs > 0 && op.HoldMs > 3*c.AckTimeoutMs {
						// a configured ack timeout removes the chunk by design
						if broker.WaitFor(wd/4, func() bool {
							m, _ := st.VerifSentStorage.List(context.Background(), e.streamID)
							_, still := m[q]
							return !still
						}) {
							timedOut[q] = true
							emit(fmt.Sprintf("EAckTimeout %d", q), 0)
						}
					}
					drainStored()
					continue
				}
				if closeAt > 0 {
					// Close during the resend phase: the resend loop is stopped between the closeAt-th and the next resent chunk
					select {
					case <-plog.paused:
					case <-time.After(wd):
						return bad(fmt.Sprintf("the resend loop did not report its chunk number %d within the watchdog (stored %v)", closeAt, stored))
					}
					e.mu.Lock()
					log1 := append([]uint32(nil), e.resendLog...)
					e.mu.Unlock()
					for _, q := range log1 {
						emit(fmt.Sprintf("EResend %d", q), 0)
						emit("EApi (Results "+resultsTerm([]uint32{q})+")", 0)
					}
					closeDone := make(chan error, 1)
					go func() {
						ctx, cancel := context.WithTimeout(context.Background(), wd)
						defer cancel()
						closeDone <- up.Close(ctx)
					}()
					emit("EApi Close", 0)
					time.Sleep(30 * time.Millisecond) // Close flushes and evaluates its wait condition while the loop stands in the gap
					close(plog.release)
					var cerr error
					select {
					case cerr = <-closeDone:
					case <-time.After(2 * wd):
						return bad("Upstream.Close issued during the resend phase did not return within the watchdog although every resent chunk is acknowledged on reception")
					}
					broker.WaitFor(300*time.Millisecond, func() bool { e.mu.Lock(); defer e.mu.Unlock(); return len(e.resendLog) >= nexp })
					e.mu.Lock()
					log2 := append([]uint32(nil), e.resendLog...)
					e.mu.Unlock()
					res.retrans += len(log2)
					if cerr == nil && len(log2) < nexp {
						return bad(fmt.Sprintf("Close issued during the resend phase returned nil after only %v of the %d stored chunks %v had been transmitted again: the others stay in the sent storage %v and are never retransmitted", log2, nexp, stored, listStored()))
					}
					for _, q := range log2[len(log1):] {
						emit(fmt.Sprintf("EResend %d", q), 0)
						emit("EApi (Results "+resultsTerm([]uint32{q})+")", 0)
					}
					streamClosed = true
					emit("ECloseEnd", retOf(cerr))
					continue
				}
				// resend phase: every stored chunk is transmitted again, one after the other, each acknowledged on reception
				want := nexp
				if op.CutAt > 0 && op.CutAt <= nexp {
					want = op.CutAt
				}
				if !broker.WaitFor(wd, func() bool { e.mu.Lock(); defer e.mu.Unlock(); return len(e.resendLog) >= want }) {
					e.mu.Lock()
					got := append([]uint32(nil), e.resendLog...)
					e.mu.Unlock()
					return bad(fmt.Sprintf("after a successful resume only %v of the %d stored chunks %v were transmitted again within the watchdog", got, nexp, stored))
				}
				e.mu.Lock()
				log := append([]uint32(nil), e.resendLog...)
				e.mu.Unlock()
				res.retrans += len(log)
				for i, q := range log {
					emit(fmt.Sprintf("EResend %d", q), 0)
					if op.CutAt > 0 && i+1 == op.CutAt {
						cutStored = listStored()
						linkUp = false
						res.outages++
						emit("ELinkDown false", 0)
						break
					}
					if !broker.WaitFor(wd, func() bool {
						m, _ := st.VerifSentStorage.List(context.Background(), e.streamID)
						_, still := m[q]
						return !still
					}) {
						return bad(fmt.Sprintf("resent chunk %d was acknowledged but stayed in the sent storage", q))
					}
					emit("EApi (Results "+resultsTerm([]uint32{q})+")", 0)
				}
				drainStored()
			}
		case "close":
			if !linkUp || streamClosed {
				continue
			}
			if msg, _ := doFlush(); msg != "" {
				return bad(msg)
			}
			if outs := sortedOutstanding(); len(outs) > 0 {
				if msg := sendAck(nil, outs); msg != "" {
					return bad(msg)
				}
				emit("EApi (Alias [])", 0)
				emit("EApi (Results "+resultsTerm(outs)+")", 0)
			}
			if n := len(listStored()); n > 0 {
				// a chunk that is stored but was never transmitted in this incarnation: Close would wait for its ack
				return bad(fmt.Sprintf("%d chunk(s) %v remain in the sent storage although every chunk received in this incarnation was acknowledged: stored and never retransmitted", n, listStored()))
			}
			err, blocked := call(func() error {
				ctx, cancel := context.WithTimeout(context.Background(), wd)
				defer cancel()
				return up.Close(ctx)
			})
			if blocked {
				return bad("Upstream.Close did not return within the watchdog although every chunk was acknowledged")
			}
			streamClosed = true
			emit("EApi Close", 0)
			emit("ECloseEnd", retOf(err))
		}
	}
	if lost != "" {
		return bad(lost)
	}
	// settle: if the stream is alive and the link is up, flush, acknowledge everything, expect an empty storage
	if linkUp && !streamClosed {
		if spurious() {
			return discard("unexpected redial while the link was up (keepalive timed out under load)")
		}
		if msg, _ := doFlush(); msg != "" {
			return bad(msg)
		}
		if outs := sortedOutstanding(); len(outs) > 0 {
			if msg := sendAck(nil, outs); msg != "" {
				return bad(msg)
			}
			emit("EApi (Alias [])", 0)
			emit("EApi (Results "+resultsTerm(outs)+")", 0)
		}
		if spurious() {
			return discard("unexpected redial while the link was up (keepalive timed out under load)")
		}
	}
	time.Sleep(2 * time.Millisecond)
	if drops := unexpectedRemovals(); len(drops) > 0 {
		return bad(fmt.Sprintf("chunk(s) %v were removed from the sent storage although the broker never acknowledged them (no ack timeout configured for them)", drops))
	}
	// ---- final observables: everything the broker and the storage have seen is FROZEN here, before
	// the closedness probe, so that nothing the harness does afterwards can enter the observation
	final := e.snapshot(up)
	storedF := listStored()
	e.mu.Lock()
	rxFrozen := append([]rxT(nil), e.rx...)
	closeReqFrozen := append([][2]uint64(nil), e.closeReq...)
	nincFrozen := e.ninc
	e.mu.Unlock()
	// closedness probe without writing anything: Flush of a closed stream fails with the stream-closed
	// error at once; on an open stream it is a no-op here (the buffer was flushed) or blocks until
	// its short context ends (stream resuming)
	probeErr, _ := call(func() error {
		ctx, cancel := context.WithTimeout(context.Background(), 20*time.Millisecond)
		defer cancel()
		return up.Flush(ctx)
	})
	closed := errors.Is(probeErr, iscperrors.ErrStreamClosed)
	broker.WaitFor(100*time.Millisecond, func() bool { e.mu.Lock(); defer e.mu.Unlock(); return !closed || len(e.closedEv) > 0 })

	e.mu.Lock()
	defer e.mu.Unlock()
	// union ledger
	bySeq := map[uint32][]string{}
	rxInc := map[int][]string{}
	strippedRx := false
	for _, x := range rxFrozen {
		dup := false
		for _, y := range bySeq[x.seq] {
			if y == x.content {
				dup = true
			}
		}
		if !dup {
			bySeq[x.seq] = append(bySeq[x.seq], x.content)
		}
		rxInc[x.inc] = append(rxInc[x.inc], fmt.Sprint(x.seq))
	}
	for _, x := range rxFrozen {
		if x.stripped {
			strippedRx = true
		}
	}
	var seqs []int
	for q := range bySeq {
		seqs = append(seqs, int(q))
	}
	sort.Ints(seqs)
	var ledT []string
	for _, q := range seqs {
		ledT = append(ledT, fmt.Sprintf("(%d,%s)", q, coqfmt.List(bySeq[uint32(q)])))
	}
	var rxT_ []string
	for i := 0; i < nincFrozen; i++ {
		rxT_ = append(rxT_, fmt.Sprintf("(%d,%s)", i, coqfmt.List(rxInc[i])))
	}
	var stT, clT, ceT, rev0T []string
	for _, k := range storedF {
		stT = append(stT, fmt.Sprint(k))
	}
	for _, x := range closeReqFrozen {
		clT = append(clT, fmt.Sprintf("(%d,%d)", x[0], x[1]))
	}
	for _, x := range e.closedEv {
		ceT = append(ceT, coqfmt.Bool(x))
	}
	for _, ia := range c.Rev0 {
		rev0T = append(rev0T, fmt.Sprintf("(%d,%d)", ia[0], ia[1]))
	}
	idsOK := true
	for _, id := range e.resumeIDs {
		if id != e.streamID {
			idsOK = false
		}
	}
	polT := map[string]string{"none": "PNone", "size": fmt.Sprintf("(PSize %d)", c.Thresh), "immediate": "PImmediate"}[c.Policy]
	res.term = fmt.Sprintf("mkRsCase %s %s %s %s %s %s %s %s (%d,%d,%s) %s %s %s %d %s %s %s",
		coqfmt.Bool(c.Keep), coqfmt.Bool(c.Reliable), polT, coqfmt.List(rev0T), coqfmt.List(evT), coqfmt.List(retT),
		coqfmt.List(ledT), coqfmt.List(stT), final.seq, final.total, groupsTerm(final.buf), coqfmt.List(clT), coqfmt.List(ceT),
		coqfmt.Bool(closed), len(e.resumeIDs), coqfmt.Bool(idsOK), coqfmt.List(unackedT), coqfmt.List(rxT_))
	if res.sig == "" && c.Reliable && strippedRx {
		res.sig = "F1:retransmitted-chunk-without-payload"
	}
	if res.sig == "" && closed && len(e.closedEv) == 0 {
		res.sig = "F19:stream-closed-without-closed-event"
	}
	if !idsOK {
		res.sig = "C02:resume-request-with-foreign-stream-id"
	}
	res.observed = map[string]interface{}{"ledger": ledT, "stored": storedF, "closereqs": closeReqFrozen, "closed_events": e.closedEv,
		"closed": closed, "resume_requests": len(e.resumeIDs), "resume_ids_ok": idsOK, "events": evT, "rets": retT,
		"final": fmt.Sprintf("seq=%d total=%d buf=%s", final.seq, final.total, groupsTerm(final.buf))}
	return
}


// probeLibraryDefault runs the simplest retransmission with NO storage injected, i.e. with whatever
// ConnectWithConfig chooses (conn.go:94), and reports whether the retransmitted chunk still
// carries its payload.  Synchronisation is by polling the broker only.
func probeLibraryDefault() (direct string) {
	var mu sync.Mutex
	type rx struct {
		inc, plen int
	}
	var got []rx
	ninc := 0
	incOf := map[*broker.Session]int{}
	var gateOpen atomic.Bool
	var gateHits atomic.Int32
	sid := uuid.New()
	b := broker.New(func(s *broker.Session, m message.Message) {
		switch v := m.(type) {
		case *message.ConnectRequest:
			mu.Lock()
			incOf[s] = ninc
			ninc++
			mu.Unlock()
			broker.AcceptConnect(s, v)
		case *message.UpstreamOpenRequest:
			s.Send(&message.UpstreamOpenResponse{RequestID: v.RequestID, AssignedStreamID: sid, AssignedStreamIDAlias: 1, ResultCode: message.ResultCodeSucceeded})
		case *message.UpstreamChunk:
			n := 0
			for _, g := range v.StreamChunk.DataPointGroups {
				for _, p := range g.DataPoints {
					n += len(p.Payload)
				}
			}
			mu.Lock()
			got = append(got, rx{incOf[s], n})
			inc := incOf[s]
			mu.Unlock()
			if inc > 0 {
				s.Send(&message.UpstreamChunkAck{StreamIDAlias: 2, Results: []*message.UpstreamChunkResult{{SequenceNumber: v.StreamChunk.SequenceNumber, ResultCode: message.ResultCodeSucceeded}}})
			}
		case *message.UpstreamResumeRequest:
			s.Send(&message.UpstreamResumeResponse{RequestID: v.RequestID, AssignedStreamIDAlias: 2, ResultCode: message.ResultCodeSucceeded})
		case *message.UpstreamCloseRequest:
			s.Send(&message.UpstreamCloseResponse{RequestID: v.RequestID, ResultCode: message.ResultCodeSucceeded})
		}
	})
	defer b.Release()
	gateOpen.Store(true)
	b.OnDial = func(idx int, _ transport.DialConfig) error {
		if idx == 0 {
			return nil
		}
		gateHits.Add(1)
		if !gateOpen.Load() {
			return errors.New("verif broker: dial refused")
		}
		return nil
	}
	conn, err := iscp.Connect(b.Address, broker.TransportName, iscp.WithConnPingInterval(10*time.Millisecond), iscp.WithConnPingTimeout(40*time.Millisecond))
	if err != nil {
		return "harness: probe connect failed: " + err.Error()
	}
	defer func() {
		gateOpen.Store(false)
		ctx, cancel := context.WithTimeout(context.Background(), time.Second)
		go func() { defer cancel(); conn.Close(ctx) }()
	}()
	ctx, cancel := context.WithTimeout(context.Background(), 2*wd)
	defer cancel()
	up, err := conn.OpenUpstream(ctx, "probe", iscp.WithUpstreamFlushPolicyNone(), iscp.WithUpstreamQoS(message.QoSReliable))
	if err != nil {
		return "harness: probe open failed: " + err.Error()
	}
	if err := up.WriteDataPoints(ctx, &message.DataID{Name: "n1", Type: "t"}, &message.DataPoint{ElapsedTime: 1, Payload: []byte{1, 2, 3, 4}}); err != nil {
		return "harness: probe write failed: " + err.Error()
	}
	if err := up.Flush(ctx); err != nil {
		return "harness: probe flush failed: " + err.Error()
	}
	if !broker.WaitFor(wd, func() bool { mu.Lock(); defer mu.Unlock(); return len(got) == 1 }) {
		return "harness: probe chunk never arrived"
	}
	gateOpen.Store(false)
	b.Current().Link.Sever(memtr.Loud)
	if !broker.WaitFor(wd, func() bool { return gateHits.Load() > 0 }) {
		return "the client never noticed the dead link (probe)"
	}
	time.Sleep(5 * time.Millisecond)
	gateOpen.Store(true)
	if !broker.WaitFor(wd, func() bool { mu.Lock(); defer mu.Unlock(); return len(got) >= 2 }) {
		return "with the library's default sent storage (no storage injected) the unacknowledged chunk was not retransmitted within the watchdog after the resume"
	}
	mu.Lock()
	defer mu.Unlock()
	if got[1].plen != got[0].plen {
		return fmt.Sprintf("with the library's default sent storage (no storage injected, conn.go:94) the chunk retransmitted after resume carries %d payload bytes instead of %d", got[1].plen, got[0].plen)
	}
	return ""
}

// ---------------------------------------------------------------- generators

func wf(id int, lens ...int) []stepIn {
	return []stepIn{{Op: "write", ID: id, Lens: lens}, {Op: "flush"}}
}

type genOpts struct {
	nPre     int    // write+flush pairs before the cut
	ackMode  int    // 0 none, 1 all, 2 first half, 3 alternate
	cutPos   int    // the cut happens after the cutPos-th pair (0..nPre); acks scripted before it apply
	cutAck   []int  // just before the cut: acknowledge the outstanding chunks of these ranks (any subset, out of order)
	silent   bool
	early    int    // write(+flush) pairs between cut and detection
	earlyBuf bool   // one more write without flush before detection (final flush at cancellation)
	pwrites  int    // writes issued while resuming
	outcomes []string
	cutAt    int
	second   bool // a second complete outage later
	post     int
	close    bool
}

func build(o genOpts, r *rng.R) []stepIn {
	var s []stepIn
	lens := func() []int {
		n := 1 + r.Intn(2)
		var l []int
		for i := 0; i < n; i++ {
			l = append(l, 1+r.Intn(5))
		}
		return l
	}
	acks := func(k int) {
		switch o.ackMode {
		case 1:
			s = append(s, stepIn{Op: "ack"})
		case 2:
			if k <= o.nPre/2 {
				s = append(s, stepIn{Op: "ack"})
			}
		case 3:
			if k%2 == 1 {
				s = append(s, stepIn{Op: "ack", Ranks: []int{0}})
			}
		}
	}
	outage := func(silent bool, early int, earlyBuf bool, pw int, outcomes []string, cutAt int) {
		s = append(s, stepIn{Op: "cut", Silent: silent})
		for i := 0; i < early; i++ {
			s = append(s, wf(1+r.Intn(3), lens()...)...)
		}
		if earlyBuf {
			s = append(s, stepIn{Op: "write", ID: 1 + r.Intn(3), Lens: lens()})
		}
		s = append(s, stepIn{Op: "detect"})
		for i := 0; i < pw; i++ {
			s = append(s, stepIn{Op: "pwrite", ID: 1 + r.Intn(3), Lens: lens()})
		}
		s = append(s, stepIn{Op: "redial"})
		for i, oc := range outcomes {
			st := stepIn{Op: "resume", Outcome: oc}
			if oc == "ok" && i == len(outcomes)-1 {
				st.CutAt = cutAt
			}
			s = append(s, st)
		}
		if cutAt > 0 {
			// the resend phase was cut: a further plain outage follows
			s = append(s, stepIn{Op: "detect"}, stepIn{Op: "redial"}, stepIn{Op: "resume", Outcome: "ok"})
		}
	}
	for k := 1; k <= o.nPre; k++ {
		if k-1 == o.cutPos {
			break
		}
		s = append(s, wf(1+r.Intn(3), lens()...)...)
		acks(k)
	}
	if len(o.cutAck) > 0 {
		s = append(s, stepIn{Op: "ack", Ranks: o.cutAck})
	}
	outage(o.silent, o.early, o.earlyBuf, o.pwrites, o.outcomes, o.cutAt)
	for k := o.cutPos + 1; k <= o.nPre; k++ {
		s = append(s, wf(1+r.Intn(3), lens()...)...)
		acks(k)
	}
	if o.second {
		outage(!o.silent, 0, r.Bool(), 0, []string{"ok"}, 0)
	}
	for i := 0; i < o.post; i++ {
		s = append(s, wf(1+r.Intn(3), lens()...)...)
	}
	if o.close {
		s = append(s, stepIn{Op: "close"})
	}
	return s
}

func genCase(r *rng.R) *caseIn {
	c := &caseIn{Keep: true, Reliable: r.Chance(9, 10), Policy: []string{"none", "none", "size", "immediate"}[r.Intn(4)], Thresh: []int{2, 6}[r.Intn(2)]}
	if r.Chance(1, 4) {
		c.Rev0 = [][2]int{{1, 5}}
	}
	o := genOpts{nPre: 2 + r.Intn(4), ackMode: r.Intn(4), silent: r.Chance(1, 3), post: r.Intn(3), close: r.Chance(2, 3)}
	o.cutPos = r.Intn(o.nPre + 1)
	if o.cutPos >= 2 && r.Chance(1, 2) {
		// out-of-order acknowledgement: nothing acknowledged per pair, then a random subset of the chunks
		// in flight (always leaving at least one earlier chunk unacknowledged behind an acknowledged one)
		o.ackMode = 0
		hi := 1 + r.Intn(o.cutPos-1)
		o.cutAck = []int{hi}
		for i := 1; i < hi; i++ {
			if r.Bool() {
				o.cutAck = append(o.cutAck, i)
			}
		}
		sort.Ints(o.cutAck)
	}
	if r.Chance(1, 3) {
		o.early = 1 + r.Intn(2)
	}
	o.earlyBuf = r.Chance(1, 4)
	if c.Policy == "none" && r.Chance(1, 2) {
		o.pwrites = 1 + r.Intn(2)
	}
	switch k := r.Intn(12); {
	case k < 7:
		o.outcomes = []string{"ok"}
	case k < 9:
		o.outcomes = []string{"conflict", "ok"}
	case k < 10:
		o.outcomes = []string{"conflict", "conflict", "ok"}
	case k < 11:
		o.outcomes = []string{"refused"}
	default:
		o.outcomes = []string{"cut"}
	}
	last := o.outcomes[len(o.outcomes)-1]
	if last == "ok" && r.Chance(1, 5) {
		o.cutAt = 1 + r.Intn(2)
	}
	if last == "ok" && o.cutAt == 0 && r.Chance(1, 4) {
		o.second = true
	}
	c.Steps = build(o, r)
	return c
}

// every cut position x ack subset x death mode of a short history (payload-keeping storage)
func genExhaustive(n int, add func(*caseIn, string), r *rng.R) {
	// every cut position x EVERY subset of the chunks in flight acknowledged before the cut (acks are per
	// chunk: a later chunk may be acknowledged while earlier ones are not) x death mode x slice discipline
	k := 0
	for pos := 0; pos <= n; pos++ {
		for mask := 0; mask < 1<<pos; mask++ {
			for _, silent := range []bool{false, true} {
				var ranks []int
				for i := 0; i < pos; i++ {
					if mask&(1<<i) != 0 {
						ranks = append(ranks, i)
					}
				}
				k++
				c := &caseIn{Keep: true, Reliable: true, Policy: "none", SliceMode: 1 + k%3}
				c.Steps = build(genOpts{nPre: n, ackMode: 0, cutPos: pos, cutAck: ranks, silent: silent, outcomes: []string{"ok"}, post: 1, close: true}, r.Fork())
				add(c, "exhaustive-cutpos-acksubset")
			}
		}
	}
}

func main() {
	seed := flag.Uint64("seed", 1, "seed")
	tier := flag.String("tier", "quick", "quick|thorough")
	out := flag.String("out", "", "output directory")
	replay := flag.String("replay", "", "replay file")
	flag.Parse()
	verifhooks.RetrySetDefaultIntervals(2*time.Millisecond, 6*time.Millisecond)
	w := coqfmt.NewWriter(*out, "C02", "From Iscp Require Import Model.Upstream Model.Storage Model.Resume.", "rs_case", "rs_judge", 40)
	r := rng.New(*seed)
	type job struct {
		c    *caseIn
		kind string
		seed uint64
	}
	var jobs []job
	add := func(c *caseIn, kind string) { jobs = append(jobs, job{c, kind, r.U64()}) }
	if *replay != "" {
		b, err := os.ReadFile(*replay)
		if err != nil {
			fmt.Fprintln(os.Stderr, err)
			os.Exit(2)
		}
		var rf struct {
			Input    caseIn `json:"input"`
			CaseSeed uint64 `json:"case_seed"`
		}
		if err := json.Unmarshal(b, &rf); err != nil {
			fmt.Fprintln(os.Stderr, err)
			os.Exit(2)
		}
		jobs = append(jobs, job{&rf.Input, "replay", rf.CaseSeed})
	} else {
		exn, nrand, rep := 3, 120, 1
		if *tier == "thorough" {
			exn, nrand, rep = 6, 2500, 3
		}
		for k := 0; k < rep; k++ {
			genExhaustive(exn, add, r)
		}
		// the default storage on the simplest retransmission (finding F1)
		// (the library default is exercised by probeLibraryDefault without any injection; since the F1 fix it keeps payloads)
		// --- Close during the resend phase: n chunks unacknowledged at the cut, the application calls Close while
		// the resend loop stands between the k-th and the (k+1)-th resent chunk (a pausing logger pins the gap)
		pairs := func(n int) []stepIn {
			var st []stepIn
			for i := 0; i < n; i++ {
				st = append(st, wf(1+i%3, 2+i, 1)...)
			}
			return st
		}
		outageOK := func(resume stepIn) []stepIn {
			return []stepIn{{Op: "cut"}, {Op: "detect"}, {Op: "redial"}, resume}
		}
		maxN := 3
		if *tier == "thorough" {
			maxN = 5
		}
		for n := 2; n <= maxN; n++ {
			for k := 1; k < n; k++ {
				c := &caseIn{Keep: true, Reliable: true, Policy: "none", SliceMode: 1 + (n+k)%3}
				c.Steps = append(pairs(n), outageOK(stepIn{Op: "resume", Outcome: "ok", CloseAt: k})...)
				add(c, "close-during-resend")
			}
		}
		// --- the transport dies while Close is waiting for acks: the stream must resume, retransmit and let Close finish
		for i := 0; i < 4; i++ {
			c := &caseIn{Keep: true, Reliable: true, Policy: "none", SliceMode: 1 + i%3}
			c.Steps = append(pairs(1+i/2), stepIn{Op: "closebegin"}, stepIn{Op: "cut", Silent: i%2 == 1}, stepIn{Op: "detect"}, stepIn{Op: "redial"},
				stepIn{Op: "resume", Outcome: "ok"}, stepIn{Op: "closewait"})
			add(c, "cut-while-close-waits")
		}
		// --- sibling upstreams (unreliable / partial) on the same connection resume FIRST: the reliable stream under
		// test must still retransmit everything it had stored
		for i, sib := range [][]string{{"unreliable"}, {"partial"}, {"unreliable", "partial"}} {
			c := &caseIn{Keep: true, Reliable: true, Policy: "none", SliceMode: 1 + i%3, Siblings: sib}
			c.Steps = append(pairs(2), stepIn{Op: "cut"})
			if i > 0 {
				c.Steps = append(c.Steps, wf(2, 3)...)
			}
			c.Steps = append(c.Steps, stepIn{Op: "detect"}, stepIn{Op: "redial"}, stepIn{Op: "resume", Outcome: "ok"})
			c.Steps = append(c.Steps, wf(1, 2)...)
			c.Steps = append(c.Steps, stepIn{Op: "close"})
			add(c, "non-reliable-siblings-resume-first")
		}
		// --- a second failure INSIDE the resume window (between the resume response and the start of the resumed run)
		for i := 0; i < 2; i++ {
			c := &caseIn{Keep: true, Reliable: true, Policy: "none", SliceMode: 1 + i}
			c.Steps = append(pairs(1+i), outageOK(stepIn{Op: "resume", Outcome: "ok", Window: true})...)
			c.Steps = append(c.Steps, stepIn{Op: "resume", Outcome: "ok"})
			c.Steps = append(c.Steps, wf(3, 2)...)
			c.Steps = append(c.Steps, stepIn{Op: "close"})
			add(c, "second-failure-inside-resume-window")
		}
		{
			// the script that used to hit the late-cleanup race (F44, fixed): regular cases that must pass
			nprobe := 6
			if *tier == "thorough" {
				nprobe = 40
			}
			for i := 0; i < nprobe; i++ {
				c := &caseIn{Keep: true, Reliable: true, Policy: "none", SliceMode: 1 + i%3, LateCleanupProbe: true}
				c.Steps = append(pairs(1+i%2), outageOK(stepIn{Op: "resume", Outcome: "ok", Window: true})...)
				c.Steps = append(c.Steps, stepIn{Op: "resume", Outcome: "ok"})
				c.Steps = append(c.Steps, wf(3, 2)...)
				c.Steps = append(c.Steps, stepIn{Op: "close"})
				add(c, "late-cleanup-probe")
			}
		}
		// --- an outage longer than the stream's expiry interval (1 s): the code as it is always tries to resume; the
		// stream must end resumed or reported closed, never silently detached
		{
			c := &caseIn{Keep: true, Reliable: true, Policy: "none", ExpiryMs: 1000}
			c.Steps = append(pairs(2), stepIn{Op: "cut"}, stepIn{Op: "detect"}, stepIn{Op: "redial", HoldMs: 1300}, stepIn{Op: "resume", Outcome: "ok"})
			c.Steps = append(c.Steps, wf(1, 2)...)
			c.Steps = append(c.Steps, stepIn{Op: "close"})
			add(c, "outage-longer-than-expiry-interval")
		}
		// --- slow: the ack of a retransmitted chunk is withheld for longer than any default the library might
		// apply (1.3 s; no ack timeout configured), then a second failure: the chunk must be retransmitted again
		nslow := 1
		if *tier == "thorough" {
			nslow = 4
		}
		for i := 0; i < nslow; i++ {
			c := &caseIn{Keep: true, Reliable: true, Policy: "none", SliceMode: 1 + i%3}
			c.Steps = append(pairs(1+i%2), outageOK(stepIn{Op: "resume", Outcome: "ok", HoldMs: 1300 + 200*i})...)
			c.Steps = append(c.Steps, outageOK(stepIn{Op: "resume", Outcome: "ok"})...)
			c.Steps = append(c.Steps, wf(2, 3)...)
			c.Steps = append(c.Steps, stepIn{Op: "close"})
			add(c, "slow-withheld-ack-then-second-failure")
		}
		// --- a CONFIGURED ack timeout on a live connection removes the chunk by design (model: EAckTimeout)
		for i := 0; i < 2; i++ {
			c := &caseIn{Keep: true, Reliable: true, Policy: "none", AckTimeoutMs: 150, SliceMode: 1 + i}
			c.Steps = append(pairs(2), stepIn{Op: "acktimeout"})
			if i == 1 {
				c.Steps = append(c.Steps, outageOK(stepIn{Op: "resume", Outcome: "ok"})...)
			}
			c.Steps = append(c.Steps, wf(1, 2)...)
			c.Steps = append(c.Steps, stepIn{Op: "close"})
			add(c, "configured-ack-timeout")
		}
		for i := 0; i < nrand; i++ {
			add(genCase(r.Fork()), "random")
		}
	}
	results := make([]coqfmt.Case, len(jobs))
	var mu sync.Mutex
	discards := 0
	sem := make(chan struct{}, 6)
	var wg sync.WaitGroup
	for i, j := range jobs {
		wg.Add(1)
		sem <- struct{}{}
		go func(i int, j job) {
			defer wg.Done()
			defer func() { <-sem }()
			var res result
			for try := 0; try < 4; try++ {
				res = runCase(j.c, rng.New(j.seed))
				if res.discard == "" {
					break
				}
				mu.Lock()
				discards++
				mu.Unlock()
			}
			nt := res.outages >= 1 && res.unackedAtCut && res.writeAfter || (res.outages >= 1 && res.retrans >= 1)
			cs := coqfmt.Case{Term: res.term, Input: j.c, Observed: res.observed, Seed: j.seed, Nontrivial: nt, Kind: j.kind, Direct: res.direct, Sig: res.sig}
			if res.direct != "" && strings.HasPrefix(res.direct, "harness:") {
				fmt.Fprintln(os.Stderr, res.direct)
				os.Exit(3)
			}
			if res.discard != "" {
				cs.Kind = "discarded-timing"
				cs.Nontrivial = false
				cs.Observed = map[string]interface{}{"discarded": res.discard}
			}
			if cs.Term == "" {
				cs.Term = "mkRsCase true false PNone [] [] [] [] [] (0,0,[]) [] [] false 0 true [] []"
			}
			mu.Lock()
			results[i] = cs
			mu.Unlock()
		}(i, j)
	}
	wg.Wait()
	for i, cs := range results {
		w.Add(cs)
		w.Count(fmt.Sprintf("keep:%v", jobs[i].c.Keep))
		w.Count("policy:" + jobs[i].c.Policy)
		for _, s := range jobs[i].c.Steps {
			if s.Op == "resume" {
				w.Count("resume:" + s.Outcome)
			}
			if s.Op == "cut" {
				w.Count(fmt.Sprintf("cut-silent:%v", s.Silent))
			}
		}
		if cs.Sig != "" {
			w.Count("sig:" + cs.Sig)
		}
	}
	if *replay == "" {
		d := probeLibraryDefault()
		if strings.HasPrefix(d, "harness:") {
			fmt.Fprintln(os.Stderr, d)
			os.Exit(3)
		}
		cs := coqfmt.Case{Term: "mkRsCase true false PNone [] [] [] [] [] (0,0,[]) [] [] false 0 true [] []", Input: map[string]string{"probe": "library-default-storage"},
			Kind: "library-default-probe", Direct: d, Nontrivial: true}
		if d != "" {
			cs.Sig = "F1:retransmitted-chunk-without-payload"
			w.Count("sig:" + cs.Sig)
		}
		w.Add(cs)
	}
	rule := "a second failure (cut, detection, redial) between the resume response and the start of the resumed run, pinned by a logger pausing in the library's resume-success message; an outage of 1.3 s with a 1 s expiry interval; the transport dies (loud/silent) while Close waits for acks: resume, retransmission, Close completes; unreliable/partial sibling upstreams on the same connection and storage whose resume is answered first; Close during the resend phase (n=2..3 unacknowledged chunks, Close issued between the k-th and the next resent chunk, pinned by a pausing logger); one slow case (ack of a retransmitted chunk withheld 1.3 s, second failure, must be retransmitted again); a configured 150 ms ack timeout on a live connection (removal by design = EAckTimeout); exhaustive: every cut position (before/after each of n write+flush pairs) x every subset of the chunks in flight acknowledged before the cut (out of order included) x loud/silent death x producer slice discipline (one reused slice / windows of one array / fresh), resume ok, one more write, close; random: 2-5 pairs, cut anywhere, writes between the cut and its detection (chunk lost / final flush at cancellation), writes issued while resuming, resume outcomes ok / conflict(s)-then-ok / refused / exchange cut, a second outage (during the resend phase after the k-th resent chunk, or later), policies none/size/immediate, payload-keeping and default storage, 10% unreliable. non-trivial = an outage with >=1 stored unacknowledged chunk and a write accepted after it, or >=1 retransmitted chunk; distinct = distinct Coq case terms"
	if err := w.Flush(*seed, *tier, rule, false, map[string]interface{}{"timing_discards": discards}); err != nil {
		fmt.Fprintln(os.Stderr, err)
		os.Exit(2)
	}
}

// Concurrent-flushers family of h-upstream (kind flushers).
//
// 4-8 goroutines, each with its OWN data id, loop {WriteDataPoints(own id); Flush(); observe} for a
// few hundred rounds on one upstream whose policy never cuts by itself (none / a huge buffer size /
// an hour-long interval), so only Flush cuts.  'observe' is one State() snapshot taken right after
// Flush returned: (a) no point of the goroutine's own id may be left in DataPointsBuffer, (b) every
// own-id point accepted before must be in a chunk whose sequence number is at most the snapshot's
// LastIssuedSequenceNumber (chunk contents are taken from the broker's ledger after the run: the
// send path is asynchronous).  Every round is judged in Go; the case handed to Coq shows the window
// (last three rounds, program order) of the first anomalous goroutine - or of goroutine 1 when there
// is none - and is judged by fl_ok / fl_corr in Model/Upstream.v (bit 4 = C20 barrier).
package main

import (
	"context"
	"fmt"
	"hash/crc32"
	"runtime"
	"sort"
	"sync"
	"time"

	"github.com/aptpod/iscp-go/iscp"
	"github.com/aptpod/iscp-go/message"
	uuid "github.com/google/uuid"

	"verif/internal/broker"
	"verif/internal/coqfmt"
	"verif/internal/rng"
)

type flIn struct {
	Policy  string `json:"policy"` // none | size | interval | intervalorsize (threshold 1 MiB, interval 1 h: never reached)
	Workers int    `json:"workers"`
	Rounds  int    `json:"rounds"`
	QoS     int    `json:"qos"`
	Jitter  int    `json:"jitter"` // 0 none, 1 Gosched now and then, 2 short sleeps now and then
	MaxPts  int    `json:"max_pts"`
}

const flThresh = 1 << 20

type flRound struct {
	pts      []ptT
	wret     int
	fret     int
	lastSeq  uint32 // State().LastIssuedSequenceNumber right after Flush returned
	buffered []ptT  // own-id points in State().DataPointsBuffer of the same snapshot
}

type flChunk struct {
	seq uint32
	pts []ptT
}

func runFlushers(c *flIn, r *rng.R) (term string, observed map[string]interface{}, direct string, anomalies int) {
	var mu sync.Mutex
	ledger := make([][]flChunk, c.Workers) // per worker: chunks that carried its points, in arrival order
	arrived := 0
	maxSeq := uint32(0)
	var closeTot []uint64
	streamID := uuid.New()
	b := broker.New(func(s *broker.Session, m message.Message) {
		switch v := m.(type) {
		case *message.ConnectRequest:
			broker.AcceptConnect(s, v)
		case *message.UpstreamOpenRequest:
			s.Send(&message.UpstreamOpenResponse{RequestID: v.RequestID, AssignedStreamID: streamID, AssignedStreamIDAlias: 1,
				ResultCode: message.ResultCodeSucceeded, ServerTime: time.Unix(1700000000, 0)})
		case *message.UpstreamChunk:
			mu.Lock()
			seq := v.StreamChunk.SequenceNumber
			if seq > maxSeq {
				maxSeq = seq
			}
			for _, g := range v.StreamChunk.DataPointGroups {
				d, ok := g.DataIDOrAlias.(*message.DataID)
				if !ok {
					continue
				}
				var w int
				if _, err := fmt.Sscanf(d.Name, "w%d", &w); err != nil || w < 1 || w > c.Workers {
					continue
				}
				ck := flChunk{seq: seq}
				for _, p := range g.DataPoints {
					ck.pts = append(ck.pts, ptOf(p))
				}
				arrived += len(ck.pts)
				ledger[w-1] = append(ledger[w-1], ck)
			}
			mu.Unlock()
			s.Send(&message.UpstreamChunkAck{StreamIDAlias: 1, Results: []*message.UpstreamChunkResult{{SequenceNumber: seq, ResultCode: message.ResultCodeSucceeded}}})
		case *message.UpstreamCloseRequest:
			mu.Lock()
			closeTot = append(closeTot, v.TotalDataPoints)
			mu.Unlock()
			s.Send(&message.UpstreamCloseResponse{RequestID: v.RequestID, ResultCode: message.ResultCodeSucceeded})
		}
	})
	defer b.Release()
	var conn *iscp.Conn
	err, blocked := call("connect", func() error {
		var err error
		conn, err = iscp.Connect(b.Address, broker.TransportName, iscp.WithConnPingInterval(time.Hour), iscp.WithConnPingTimeout(time.Hour))
		return err
	})
	if blocked || err != nil {
		return "", nil, fmt.Sprintf("harness: connect failed: %v blocked=%v", err, blocked), 0
	}
	defer func() {
		ctx, cancel := context.WithTimeout(context.Background(), time.Second)
		go func() { defer cancel(); conn.Close(ctx) }()
	}()
	var polOpt iscp.UpstreamOption
	polT := "PNone"
	switch c.Policy {
	case "size":
		polOpt, polT = iscp.WithUpstreamFlushPolicyBufferSizeOnly(flThresh), fmt.Sprintf("(PSize %d)", flThresh)
	case "interval":
		polOpt, polT = iscp.WithUpstreamFlushPolicyIntervalOnly(time.Hour), "PInterval"
	case "intervalorsize":
		polOpt, polT = iscp.WithUpstreamFlushPolicyIntervalOrBufferSize(time.Hour, flThresh), fmt.Sprintf("(PIntervalOrSize %d)", flThresh)
	default:
		polOpt = iscp.WithUpstreamFlushPolicyNone()
	}
	var up *iscp.Upstream
	qos := []message.QoS{message.QoSUnreliable, message.QoSReliable, message.QoSPartial}[c.QoS%3]
	err, blocked = call("open", func() error {
		ctx, cancel := context.WithTimeout(context.Background(), wd)
		defer cancel()
		var err error
		up, err = conn.OpenUpstream(ctx, "sess", polOpt, iscp.WithUpstreamQoS(qos), iscp.WithUpstreamCloseTimeout(2*time.Second))
		return err
	})
	if blocked || err != nil {
		return "", nil, fmt.Sprintf("harness: open failed: %v blocked=%v", err, blocked), 0
	}

	rounds := make([][]flRound, c.Workers)
	stuck := make(chan string, 16)
	seeds := make([]uint64, c.Workers)
	for i := range seeds {
		seeds[i] = r.U64()
	}
	var wg sync.WaitGroup
	for w := 0; w < c.Workers; w++ {
		wg.Add(1)
		go func(w int) {
			defer wg.Done()
			rr := rng.New(seeds[w])
			name := fmt.Sprintf("w%d", w+1)
			did := &message.DataID{Name: name, Type: "t"}
			el := uint64(w+1) * 1_000_000
			for k := 0; k < c.Rounds; k++ {
				var rd flRound
				np := 1 + rr.Intn(c.MaxPts)
				var dps []*message.DataPoint
				for j := 0; j < np; j++ {
					el++
					p := &message.DataPoint{ElapsedTime: time.Duration(el), Payload: rr.Bytes(1 + rr.Intn(3))}
					dps = append(dps, p)
					rd.pts = append(rd.pts, ptT{el, uint64(crc32.ChecksumIEEE(p.Payload)), uint64(len(p.Payload))})
				}
				ctx, cancel := context.WithTimeout(context.Background(), wd)
				werr := up.WriteDataPoints(ctx, did, dps...)
				if werr != nil {
					if ctx.Err() != nil {
						cancel()
						stuck <- fmt.Sprintf("WriteDataPoints of goroutine %d did not return within the watchdog (concurrent flushers, round %d)", w+1, k)
						return
					}
					rd.wret = 1
					rd.pts = nil
				}
				ferr := up.Flush(ctx)
				timedOut := ctx.Err() != nil
				cancel()
				if ferr != nil {
					if timedOut {
						stuck <- fmt.Sprintf("Flush of goroutine %d did not return within the watchdog (concurrent flushers, round %d)", w+1, k)
						return
					}
					rd.fret = 1
				}
				st := up.State()
				rd.lastSeq = st.LastIssuedSequenceNumber
				for _, g := range st.DataPointsBuffer {
					if g.DataID.Name == name {
						for _, p := range g.DataPoints {
							rd.buffered = append(rd.buffered, ptOf(p))
						}
					}
				}
				rounds[w] = append(rounds[w], rd)
				switch c.Jitter {
				case 1:
					if rr.Chance(1, 4) {
						runtime.Gosched()
					}
				case 2:
					if rr.Chance(1, 8) {
						time.Sleep(time.Duration(rr.Intn(40)) * time.Microsecond)
					}
				}
			}
		}(w)
	}
	wg.Wait()
	select {
	case msg := <-stuck:
		return "", nil, msg, 0
	default:
	}
	lastIssued := up.State().LastIssuedSequenceNumber
	cerr, cblocked := call("close", func() error {
		ctx, cancel := context.WithTimeout(context.Background(), wd)
		defer cancel()
		return up.Close(ctx)
	})
	if cblocked {
		return "", nil, "Upstream.Close did not return within the watchdog (concurrent flushers; every chunk is acknowledged on reception)", 0
	}
	broker.WaitFor(500*time.Millisecond, func() bool {
		mu.Lock()
		defer mu.Unlock()
		return len(closeTot) > 0 && maxSeq >= lastIssued
	})

	mu.Lock()
	defer mu.Unlock()
	accepted := 0
	// chunk of every point, per worker
	type where struct {
		seq uint32
		ok  bool
	}
	firstW, firstK := -1, -1
	firstWhat := ""
	for w := 0; w < c.Workers; w++ {
		sort.SliceStable(ledger[w], func(i, j int) bool { return ledger[w][i].seq < ledger[w][j].seq })
		at := map[uint64]where{}
		for _, ck := range ledger[w] {
			for _, p := range ck.pts {
				at[p.el] = where{ck.seq, true}
			}
		}
		for k, rd := range rounds[w] {
			accepted += len(rd.pts)
			if rd.fret != 0 {
				continue
			}
			bad := ""
			if len(rd.buffered) > 0 {
				bad = fmt.Sprintf("Flush returned nil but %d point(s) of its own data id are still in State().DataPointsBuffer", len(rd.buffered))
			} else {
				for _, p := range rd.pts {
					if x := at[p.el]; !x.ok || x.seq > rd.lastSeq {
						bad = fmt.Sprintf("Flush returned nil but a point accepted before it is in no chunk up to the last issued sequence number %d (chunk: %v)", rd.lastSeq, x)
						break
					}
				}
			}
			if bad != "" {
				anomalies++
				if firstW < 0 || k < firstK {
					firstW, firstK, firstWhat = w, k, bad
				}
			}
		}
	}
	showW, showK := 0, c.Rounds-1
	if firstW >= 0 {
		showW, showK = firstW, firstK
	}
	if showK >= len(rounds[showW]) {
		showK = len(rounds[showW]) - 1
	}
	from := showK - 2
	if from < 0 {
		from = 0
	}
	var opsT, retsT, obsT []string
	if showK >= 0 {
		lo := uint64(0)
		for k := from; k <= showK; k++ {
			if len(rounds[showW][k].pts) > 0 {
				lo = rounds[showW][k].pts[0].el
				break
			}
		}
		for k := from; k <= showK; k++ {
			rd := rounds[showW][k]
			opsT = append(opsT, fmt.Sprintf("Write %d %s", showW+1, ptsTerm(rd.pts)), "Flush")
			retsT = append(retsT, fmt.Sprint(rd.wret), fmt.Sprint(rd.fret))
			var inch []ptT
			for _, ck := range ledger[showW] {
				if ck.seq > rd.lastSeq {
					continue
				}
				for _, p := range ck.pts {
					if lo != 0 && p.el >= lo {
						inch = append(inch, p)
					}
				}
			}
			obsT = append(obsT, "([],[])", fmt.Sprintf("(%s,%s)", ptsTerm(inch), ptsTerm(rd.buffered)))
		}
	}
	finalOK := cerr == nil && len(closeTot) == 1 && closeTot[0] == uint64(accepted) && arrived == accepted
	term = fmt.Sprintf("FL (mkFlCase %s %d %d %d %s %s %s %s)", polT, c.Workers, c.Rounds, showW+1, coqfmt.List(opsT), coqfmt.List(retsT), coqfmt.List(obsT), coqfmt.Bool(finalOK))
	observed = map[string]interface{}{"rounds_judged": c.Workers * c.Rounds, "barrier_anomalies": anomalies, "first_anomaly": firstWhat,
		"shown_goroutine": showW + 1, "shown_round": showK, "accepted": accepted, "arrived": arrived, "close_totals": closeTot, "close_ret": fmt.Sprint(cerr), "chunks": maxSeq}
	return
}

func genFlushers(r *rng.R, tier string) []*flIn {
	n, rounds := 8, 300
	if tier == "thorough" {
		n, rounds = 40, 600
	}
	var out []*flIn
	for i := 0; i < n; i++ {
		out = append(out, &flIn{Policy: []string{"none", "size", "interval", "intervalorsize"}[i%4], Workers: 4 + r.Intn(5), Rounds: rounds,
			QoS: r.Intn(3), Jitter: i % 3, MaxPts: 1 + r.Intn(2)})
	}
	return out
}
